/-
Helper lemmas for the splice-transparency theorems of C11 (Props/C11.lean, `C11_text_lines`, `C11_text_first_line`,
`C11_text_transparent`, `C11_text_unspliced`): how `remove_backslash_newline` and `convert_universal_chars`
(Model/Text.lean) act on the lines of a text, and what phase 1 (`read_file`'s final newline, BOM skip,
`canonicalize_newline`) does to a text into which one backslash-newline was inserted.
-/
import ChibiVerif.Lemmas.TextLemmas

set_option linter.unusedSimpArgs false
set_option linter.unusedVariables false

namespace ChibiVerif.Lemmas.Splice
open ChibiVerif.Text
open ChibiVerif.Gen.Literals
open ChibiVerif.Spec.Literals
open ChibiVerif.Literals (Byte isXDigit fromHex)
open ChibiVerif.Lemmas.Text

-- ------------------------------------------------------------------ unsplice

theorem getLast?_tail_ne {x : Byte} {rest : List Byte} {b : Byte} (h : (x :: rest).getLast? ≠ some b) :
    rest.getLast? ≠ some b := by
  cases rest with
  | nil => simp
  | cons c r => simpa [List.getLast?_cons_cons] using h

/-- a text that does not end in a backslash is unspliced independently of what follows -/
theorem unsplice_append (a t : List Byte) (ha : a.getLast? ≠ some BSL) :
    unsplice BSL LF (a ++ t) = unsplice BSL LF a ++ unsplice BSL LF t := by
  induction a using unsplice.induct BSL LF with
  | case1 => simp [unsplice]
  | case2 x =>
    have hx : x ≠ BSL := by simpa using ha
    cases t with
    | nil => simp [unsplice]
    | cons b rest => simp [unsplice, hx]
  | case3 x y rest h ih =>
    have h2 : rest.getLast? ≠ some BSL := getLast?_tail_ne (getLast?_tail_ne ha)
    simp only [List.cons_append, unsplice, h, and_self, if_true]
    exact ih h2
  | case4 x y rest h ih =>
    have h2 : (y :: rest).getLast? ≠ some BSL := getLast?_tail_ne ha
    have := ih h2
    simp only [List.cons_append] at this
    simp only [List.cons_append, unsplice, h, if_false, this]

/-- deleting one more backslash-newline does not change the unspliced text -/
theorem unsplice_splice (a b : List Byte) (ha : a.getLast? ≠ some BSL) :
    unsplice BSL LF (a ++ BSL :: LF :: b) = unsplice BSL LF (a ++ b) := by
  rw [unsplice_append a _ ha, unsplice_append a _ ha]
  simp [unsplice]

-- ------------------------------------------------------------------ first line

theorem firstLine_nil : firstLine [] = [] := rfl

theorem firstLine_cons_lf (t : List Byte) : firstLine (LF :: t) = [] := by simp [firstLine]

theorem firstLine_cons_ne (a : Byte) (t : List Byte) (h : a ≠ LF) : firstLine (a :: t) = a :: firstLine t := by
  simp [firstLine, h]

theorem firstLine_no_lf (t : List Byte) : LF ∉ firstLine t := by
  induction t with
  | nil => simp [firstLine]
  | cons a t ih =>
    by_cases h : a = LF
    · subst h; simp [firstLine_cons_lf]
    · rw [firstLine_cons_ne a t h]
      simp only [List.mem_cons, not_or]
      exact ⟨fun h' => h h'.symm, ih⟩

theorem firstLine_append_lf (u w : List Byte) (h : LF ∉ u) : firstLine (u ++ LF :: w) = u := by
  induction u with
  | nil => simp [firstLine_cons_lf]
  | cons a u ih =>
    have ha : a ≠ LF := fun h' => h (by simp [h'])
    have hu : LF ∉ u := fun h' => h (List.mem_cons_of_mem _ h')
    simp only [List.cons_append]
    rw [firstLine_cons_ne _ _ ha, ih hu]

theorem firstLine_of_not_mem (u : List Byte) (h : LF ∉ u) : firstLine u = u := by
  induction u with
  | nil => rfl
  | cons a u ih =>
    have ha : a ≠ LF := fun h' => h (by simp [h'])
    have hu : LF ∉ u := fun h' => h (List.mem_cons_of_mem _ h')
    rw [firstLine_cons_ne _ _ ha, ih hu]

theorem firstLine_append_single_lf (u : List Byte) : firstLine (u ++ [LF]) = firstLine u := by
  induction u with
  | nil => simp [firstLine]
  | cons a u ih =>
    by_cases h : a = LF
    · subst h; simp [firstLine_cons_lf]
    · simp only [List.cons_append]
      rw [firstLine_cons_ne _ _ h, firstLine_cons_ne _ _ h, ih]

/-- a text that contains a newline is its first line, the newline, and the rest -/
theorem split_at_lf (t : List Byte) (h : LF ∈ t) : ∃ w, t = firstLine t ++ LF :: w := by
  induction t with
  | nil => simp at h
  | cons a t ih =>
    by_cases ha : a = LF
    · subst ha; exact ⟨t, by simp [firstLine_cons_lf]⟩
    · have ht : LF ∈ t := by
        rcases List.mem_cons.mp h with h' | h'
        · exact absurd h'.symm ha
        · exact h'
      obtain ⟨w, hw⟩ := ih ht
      refine ⟨w, ?_⟩
      rw [firstLine_cons_ne _ _ ha]
      simp only [List.cons_append]
      rw [← hw]

/-- the first element of `splitOn LF` is the first line -/
theorem splitOn_head (x : List Byte) : ∃ ls, splitOn LF x = firstLine x :: ls := by
  induction x with
  | nil => exact ⟨[], rfl⟩
  | cons a x ih =>
    by_cases h : a = LF
    · subst h; exact ⟨splitOn LF x, by simp [splitOn, firstLine_cons_lf]⟩
    · obtain ⟨ls, hls⟩ := ih
      refine ⟨ls, ?_⟩
      simp only [splitOn, h, if_false, hls, consLine]
      rw [firstLine_cons_ne _ _ h]

theorem splitOn_line (u w : List Byte) (h : LF ∉ u) : splitOn LF (u ++ LF :: w) = u :: splitOn LF w := by
  induction u with
  | nil => simp [splitOn]
  | cons a u ih =>
    have ha : a ≠ LF := fun h' => h (by simp [h'])
    have hu : LF ∉ u := fun h' => h (List.mem_cons_of_mem _ h')
    simp only [List.cons_append, splitOn, ha, if_false, ih hu, consLine]

theorem splitOn_no_lf (u : List Byte) (h : LF ∉ u) : splitOn LF u = [u] := by
  induction u with
  | nil => rfl
  | cons a u ih =>
    have ha : a ≠ LF := fun h' => h (by simp [h'])
    have hu : LF ∉ u := fun h' => h (List.mem_cons_of_mem _ h')
    simp only [splitOn, ha, if_false, ih hu, consLine]

/-- equal logical lines have equal first lines -/
theorem firstLine_of_logical {x y : List Byte}
    (h : logicalLines (splitOn LF x) = logicalLines (splitOn LF y)) : firstLine x = firstLine y := by
  obtain ⟨l1, h1⟩ := splitOn_head x
  obtain ⟨l2, h2⟩ := splitOn_head y
  rw [h1, h2] at h
  simp only [logicalLines, List.cons.injEq] at h
  exact h.1

-- ------------------------------------------------------------------ remove_backslash_newline

/-- the first line after `remove_backslash_newline` is the first logical line -/
theorem firstLine_rbn (t : List Byte) : firstLine (removeBackslashNewline t) = firstLine (unsplice BSL LF t) :=
  firstLine_of_logical (splice_lines t 0)

theorem lf_mem_of_count {x : List Byte} (h : 0 < x.count LF) : LF ∈ x := List.count_pos_iff.mp h

theorem rbn_has_lf (t : List Byte) (h : LF ∈ t) : LF ∈ removeBackslashNewline t := by
  have hc := splice_count t 0
  have : 0 < t.count LF := List.count_pos_iff.mpr h
  apply List.count_pos_iff.mp
  unfold removeBackslashNewline
  omega

-- ------------------------------------------------------------------ convert_universal_chars, one step

theorem cuc_nil : convertUniversalChars [] = [] := rfl

theorem cuc_cons (a : Byte) (rest : List Byte) :
    convertUniversalChars (a :: rest) =
      (ucnStep (a :: rest)).1 ++ convertUniversalChars (ucnStep (a :: rest)).2 := by
  have hl := ucnStep_length a rest
  unfold convertUniversalChars
  simp only [List.length_cons, convertUniversalCharsAux]
  congr 1
  exact cucAux_fuel _ _ _ (by simp only [List.length_cons] at hl; omega) (Nat.le_refl _)

theorem lf_not_xdigit : isXDigit LF = false := by decide
theorem lf_ne_117 : LF ≠ 117#8 := by decide
theorem lf_ne_85 : LF ≠ 85#8 := by decide

/-- fewer than `k` bytes: `read_universal_char` hits the terminator and returns 0 -/
theorem ruc_short : ∀ (k : Nat) (p : List Byte) (c : BitVec 32), p.length < k → readUniversalChar p k c = 0#32 := by
  intro k
  induction k with
  | zero => intro p c h; omega
  | succ k ih =>
    intro p c h
    cases p with
    | nil => simp [readUniversalChar]
    | cons b rest =>
      simp only [readUniversalChar]
      split
      · rfl
      · exact ih rest _ (by simp at h; omega)

/-- `read_universal_char` never reads past a newline -/
theorem ruc_line : ∀ (k : Nat) (u w : List Byte) (c : BitVec 32), LF ∉ u →
    readUniversalChar (u ++ LF :: w) k c = readUniversalChar u k c := by
  intro k
  induction k with
  | zero => intro u w c h; simp [readUniversalChar]
  | succ k ih =>
    intro u w c h
    cases u with
    | nil => simp [readUniversalChar, lf_not_xdigit]
    | cons b rest =>
      have hr : LF ∉ rest := fun h' => h (List.mem_cons_of_mem _ h')
      simp only [List.cons_append, readUniversalChar]
      split
      · rfl
      · exact ih rest w _ hr

theorem mem_of_mem_ucnStep (x : List Byte) : ∀ y ∈ (ucnStep x).2, y ∈ x := by
  intro y hy
  cases x with
  | nil => simp [ucnStep] at hy
  | cons a rest =>
    unfold ucnStep at hy
    by_cases ha : a = BSL
    · simp only [ha, if_true] at hy
      cases rest with
      | nil => simp at hy
      | cons b rest' =>
        simp only at hy
        split at hy
        · split at hy
          · exact List.mem_cons_of_mem _ (List.mem_cons_of_mem _ (List.mem_of_mem_drop hy))
          · exact List.mem_cons_of_mem _ hy
        · split at hy
          · split at hy
            · exact List.mem_cons_of_mem _ (List.mem_cons_of_mem _ (List.mem_of_mem_drop hy))
            · exact List.mem_cons_of_mem _ hy
          · exact List.mem_cons_of_mem _ (List.mem_cons_of_mem _ hy)
    · simp only [ha, if_false] at hy
      exact List.mem_cons_of_mem _ hy

/-- one iteration of `convert_universal_chars` does not look past a newline (except that a backslash directly before
    the newline is copied together with it) -/
theorem ucnStep_line (a : Byte) (u w : List Byte) (h : LF ∉ a :: u) (hne : ¬ (a = BSL ∧ u = [])) :
    ucnStep (a :: u ++ LF :: w) = ((ucnStep (a :: u)).1, (ucnStep (a :: u)).2 ++ LF :: w) := by
  by_cases ha : a = BSL
  · subst ha
    cases u with
    | nil => exact absurd ⟨rfl, rfl⟩ hne
    | cons b u' =>
      have hb : b ≠ LF := fun h' => h (by simp [h'])
      have hu : LF ∉ u' := fun h' => h (List.mem_cons_of_mem _ (List.mem_cons_of_mem _ h'))
      simp only [List.cons_append, ucnStep, if_true]
      by_cases b1 : b = 117#8
      · simp only [b1, if_true, ruc_line 4 u' w 0 hu]
        split
        · rename_i hv
          have hlen : 4 ≤ u'.length := by
            apply Nat.le_of_not_lt
            intro hl
            exact hv.1 (ruc_short 4 u' 0 hl)
          rw [List.drop_append_of_le_length hlen]
        · rfl
      · simp only [b1, if_false]
        by_cases b2 : b = 85#8
        · simp only [b2, if_true, ruc_line 8 u' w 0 hu]
          split
          · rename_i hv
            have hlen : 8 ≤ u'.length := by
              apply Nat.le_of_not_lt
              intro hl
              exact hv.1 (ruc_short 8 u' 0 hl)
            rw [List.drop_append_of_le_length hlen]
          · rfl
        · simp only [b2, if_false]
  · simp only [List.cons_append, ucnStep, ha, if_false]

-- ------------------------------------------------------------------ encode_utf8 never writes a newline for c ≠ '\n'

theorem encode_no_lf (c : BitVec 32) (hc : c ≠ 10#32) : LF ∉ encodeUtf8 c := by
  unfold encodeUtf8
  split
  · rename_i h1
    simp only [List.mem_singleton]
    intro h
    apply hc
    have h1' : c.toNat ≤ 127 := by simpa [BitVec.le_def] using h1
    have := congrArg BitVec.toNat h
    simp [LF, BitVec.toNat_setWidth] at this
    apply BitVec.eq_of_toNat_eq
    simp
    omega
  · have key : ∀ (x : BitVec 32), LF ≠ ((0x80#32 ||| x).setWidth 8) := by
      intro x h
      have := congrArg (fun v => v.getLsbD 7) h
      simp [LF] at this
    have key2 : ∀ (k x : BitVec 32), k[7] = true → LF ≠ ((k ||| x).setWidth 8) := by
      intro k x hk h
      have := congrArg (fun v => v.getLsbD 7) h
      simp [LF, hk] at this
    split
    · simp only [List.mem_cons, List.mem_nil_iff, or_false, not_or]
      exact ⟨key2 _ _ (by decide), key _⟩
    · split
      · simp only [List.mem_cons, List.mem_nil_iff, or_false, not_or]
        exact ⟨key2 _ _ (by decide), key _, key _⟩
      · simp only [List.mem_cons, List.mem_nil_iff, or_false, not_or]
        exact ⟨key2 _ _ (by decide), key _, key _, key _⟩

theorem encode_ne_nil (c : BitVec 32) : encodeUtf8 c ≠ [] := by
  unfold encodeUtf8
  split
  · simp
  · split
    · simp
    · split <;> simp

theorem ucnStep_out_no_lf (x : List Byte) (h : LF ∉ x) : LF ∉ (ucnStep x).1 := by
  cases x with
  | nil => simp [ucnStep]
  | cons a rest =>
    have ha : LF ≠ a := fun h' => h (by simp [h'])
    unfold ucnStep
    by_cases hb : a = BSL
    · simp only [hb, if_true]
      cases rest with
      | nil => simp [lf_ne_bsl]
      | cons b rest' =>
        have hb' : LF ≠ b := fun h' => h (by simp [h'])
        simp only
        split
        · split
          · rename_i hv; exact encode_no_lf _ hv.2
          · simp [lf_ne_bsl]
        · split
          · split
            · rename_i hv; exact encode_no_lf _ hv.2
            · simp [lf_ne_bsl]
          · simp [lf_ne_bsl, hb']
    · simp only [hb, if_false, List.mem_singleton]
      exact ha

theorem ucnStep_out_ne_nil (a : Byte) (rest : List Byte) : (ucnStep (a :: rest)).1 ≠ [] := by
  unfold ucnStep
  by_cases hb : a = BSL
  · simp only [hb, if_true]
    cases rest with
    | nil => simp
    | cons b rest' =>
      simp only
      split
      · split
        · exact encode_ne_nil _
        · simp
      · split
        · split
          · exact encode_ne_nil _
          · simp
        · simp
  · simp [hb]

-- ------------------------------------------------------------------ convert_universal_chars acts line by line

/-- `convert_universal_chars` converts the text before a newline as if it stood alone -/
theorem cuc_line_aux : ∀ (n : Nat) (u w : List Byte), u.length ≤ n → LF ∉ u →
    convertUniversalChars (u ++ LF :: w) = convertUniversalChars u ++ LF :: convertUniversalChars w := by
  intro n
  induction n with
  | zero =>
    intro u w hl h
    have : u = [] := by cases u with | nil => rfl | cons a t => simp at hl
    subst this
    rw [List.nil_append, cuc_cons]
    simp [ucnStep, lf_ne_bsl, cuc_nil]
  | succ n ih =>
    intro u w hl h
    cases u with
    | nil =>
      rw [List.nil_append, cuc_cons]
      simp [ucnStep, lf_ne_bsl, cuc_nil]
    | cons a u' =>
      by_cases hs : a = BSL ∧ u' = []
      · obtain ⟨rfl, rfl⟩ := hs
        rw [show [BSL] ++ LF :: w = BSL :: LF :: w from rfl, cuc_cons, cuc_cons BSL []]
        simp [ucnStep, lf_ne_117, lf_ne_85, cuc_nil]
      · have hstep := ucnStep_line a u' w h hs
        rw [List.cons_append] at hstep
        have hlen := ucnStep_length a u'
        have hno : LF ∉ (ucnStep (a :: u')).2 := fun hm => h (mem_of_mem_ucnStep _ _ hm)
        rw [show (a :: u') ++ LF :: w = a :: (u' ++ LF :: w) from rfl, cuc_cons a (u' ++ LF :: w), hstep, cuc_cons a u']
        simp only
        rw [ih _ w (by simp only [List.length_cons] at hl hlen; omega) hno, List.append_assoc]

theorem cuc_line (u w : List Byte) (h : LF ∉ u) :
    convertUniversalChars (u ++ LF :: w) = convertUniversalChars u ++ LF :: convertUniversalChars w :=
  cuc_line_aux u.length u w (Nat.le_refl _) h

theorem cuc_no_lf_aux : ∀ (n : Nat) (u : List Byte), u.length ≤ n → LF ∉ u → LF ∉ convertUniversalChars u := by
  intro n
  induction n with
  | zero =>
    intro u hl h
    have : u = [] := by cases u with | nil => rfl | cons a t => simp at hl
    subst this; simp [cuc_nil]
  | succ n ih =>
    intro u hl h
    cases u with
    | nil => simp [cuc_nil]
    | cons a u' =>
      have hlen := ucnStep_length a u'
      have hno : LF ∉ (ucnStep (a :: u')).2 := fun hm => h (mem_of_mem_ucnStep _ _ hm)
      rw [cuc_cons]
      simp only [List.mem_append, not_or]
      exact ⟨ucnStep_out_no_lf _ h, ih _ (by simp only [List.length_cons] at hl hlen; omega) hno⟩

/-- a line stays a line -/
theorem cuc_no_lf (u : List Byte) (h : LF ∉ u) : LF ∉ convertUniversalChars u :=
  cuc_no_lf_aux u.length u (Nat.le_refl _) h

theorem cuc_eq_nil (u : List Byte) : convertUniversalChars u = [] ↔ u = [] := by
  constructor
  · intro h
    cases u with
    | nil => rfl
    | cons a rest =>
      rw [cuc_cons] at h
      have := ucnStep_out_ne_nil a rest
      simp only [List.append_eq_nil_iff] at h
      exact absurd h.1 this
  · intro h; subst h; rfl

/-- the first line after `convert_universal_chars` is the conversion of the first line -/
theorem firstLine_cuc (x : List Byte) : firstLine (convertUniversalChars x) = convertUniversalChars (firstLine x) := by
  by_cases h : LF ∈ x
  · obtain ⟨w, hw⟩ := split_at_lf x h
    have hn := firstLine_no_lf x
    conv => lhs; rw [hw]
    rw [cuc_line _ _ hn, firstLine_append_lf _ _ (cuc_no_lf _ hn)]
  · rw [firstLine_of_not_mem x h, firstLine_of_not_mem _ (cuc_no_lf x h)]

theorem cuc_has_lf (x : List Byte) (h : LF ∈ x) : LF ∈ convertUniversalChars x := by
  obtain ⟨w, hw⟩ := split_at_lf x h
  rw [hw, cuc_line _ _ (firstLine_no_lf x)]
  simp

/-- `convert_universal_chars` maps the lines of a text one by one -/
theorem cuc_lines_aux : ∀ (n : Nat) (x : List Byte), x.length ≤ n →
    splitOn LF (convertUniversalChars x) = (splitOn LF x).map convertUniversalChars := by
  intro n
  induction n with
  | zero =>
    intro x hl
    have : x = [] := by cases x with | nil => rfl | cons a t => simp at hl
    subst this; rfl
  | succ n ih =>
    intro x hl
    by_cases h : LF ∈ x
    · obtain ⟨w, hw⟩ := split_at_lf x h
      have hn := firstLine_no_lf x
      have hwl : w.length ≤ n := by
        have := congrArg List.length hw
        simp only [List.length_append, List.length_cons] at this
        omega
      rw [hw, cuc_line _ _ hn, splitOn_line _ _ (cuc_no_lf _ hn), splitOn_line _ _ hn, ih w hwl]
      rfl
    · rw [splitOn_no_lf _ h, splitOn_no_lf _ (cuc_no_lf x h)]
      rfl

theorem cuc_lines (x : List Byte) :
    splitOn LF (convertUniversalChars x) = (splitOn LF x).map convertUniversalChars :=
  cuc_lines_aux x.length x (Nat.le_refl _)

theorem logicalLines_map_cuc (ls : List (List Byte)) :
    logicalLines (ls.map convertUniversalChars) = (logicalLines ls).map convertUniversalChars := by
  cases ls with
  | nil => rfl
  | cons l ls =>
    simp only [List.map_cons, logicalLines, List.cons.injEq, true_and]
    induction ls with
    | nil => rfl
    | cons m ms ih =>
      by_cases hm : m = []
      · subst hm
        simp only [List.map_cons, cuc_nil, List.filter_cons, ne_eq, not_true_eq_false, decide_false, Bool.false_eq_true,
          if_false]
        exact ih
      · have : convertUniversalChars m ≠ [] := fun h => hm ((cuc_eq_nil m).mp h)
        simp only [List.map_cons, List.filter_cons, ne_eq, hm, this, not_false_eq_true, decide_true, if_true, ih]

-- ------------------------------------------------------------------ phase 1 keeps a newline

theorem lf_not_in_bom : LF ∉ BOM := by decide

theorem efn_cases (p : List Byte) : ensureFinalNewline p = p ∨ ensureFinalNewline p = p ++ [LF] := by
  unfold ensureFinalNewline
  cases h : p.getLast? with
  | none =>
    have : p = [] := List.getLast?_eq_none_iff.mp h
    subst this; right; rfl
  | some b =>
    simp only
    split
    · left; rfl
    · right; rfl

theorem efn_has_lf (p : List Byte) : LF ∈ ensureFinalNewline p := by
  unfold ensureFinalNewline
  cases h : p.getLast? with
  | none => simp
  | some b =>
    simp only
    split
    · rename_i hb
      subst hb
      exact List.mem_of_getLast? h
    · simp

theorem skipBOM_cases (t : List Byte) : skipBOM t = t ∨ t = BOM ++ skipBOM t := by
  match t with
  | [] | [_] | [_, _] => left; rfl
  | a :: b :: c :: r =>
    simp only [skipBOM]
    split
    · rename_i hc; right; rw [hc.1, hc.2.1, hc.2.2]; rfl
    · left; rfl

theorem skipBOM_has_lf (t : List Byte) (h : LF ∈ t) : LF ∈ skipBOM t := by
  rcases skipBOM_cases t with e | e
  · rw [e]; exact h
  · rw [e] at h
    rcases List.mem_append.mp h with h' | h'
    · exact absurd h' lf_not_in_bom
    · exact h'

theorem canon_has_lf (t : List Byte) (h : LF ∈ t) : LF ∈ canonicalizeNewline t := by
  induction t using canonicalizeNewline.induct with
  | case1 => simp at h
  | case2 => simp [canonicalizeNewline]
  | case3 a ha => simpa [canonicalizeNewline, ha] using h
  | case4 rest ih => simp [canonicalizeNewline]
  | case5 b rest hb ih => simp [canonicalizeNewline, hb]
  | case6 a b rest ha ih =>
    simp only [canonicalizeNewline, ha, if_false, List.mem_cons]
    rcases List.mem_cons.mp h with h' | h'
    · left; exact h'
    · right; exact ih h'

theorem phase1_has_lf (s : List Byte) : LF ∈ phase1 s :=
  canon_has_lf _ (skipBOM_has_lf _ (efn_has_lf s))

theorem phase12_has_lf (s : List Byte) : LF ∈ phase12 s :=
  cuc_has_lf _ (rbn_has_lf _ (phase1_has_lf s))

theorem phase12_eq (s : List Byte) : phase12 s = convertUniversalChars (removeBackslashNewline (phase1 s)) := rfl

/-- **the first line `tokenize()` sees** is the first logical line of the phase-1 text with its universal character
    names converted -/
theorem firstLine_phase12 (s : List Byte) :
    firstLine (phase12 s) = convertUniversalChars (firstLine (unsplice BSL LF (phase1 s))) := by
  rw [phase12_eq, firstLine_cuc, firstLine_rbn]

-- ------------------------------------------------------------------ phase 1 of a text with one more splice

theorem mem_skipBOM (t : List Byte) : ∀ x ∈ skipBOM t, x ∈ t := by
  intro x hx
  rcases skipBOM_cases t with e | e
  · rw [e] at hx; exact hx
  · rw [e]; exact List.mem_append_right _ hx

theorem mem_efn (p : List Byte) : ∀ x ∈ ensureFinalNewline p, x ∈ p ∨ x = LF := by
  intro x hx
  rcases efn_cases p with e | e
  · rw [e] at hx; left; exact hx
  · rw [e] at hx
    rcases List.mem_append.mp hx with h | h
    · left; exact h
    · right; simpa using h

/-- without CR, phase 1 is the final newline and the BOM skip -/
theorem phase1_no_cr (s : List Byte) (h : CR ∉ s) : phase1 s = skipBOM (ensureFinalNewline s) := by
  unfold phase1
  apply canon_id
  intro hm
  rcases mem_efn s _ (mem_skipBOM _ _ hm) with h' | h'
  · exact h h'
  · exact cr_ne_lf h'

theorem efn_append (p q : List Byte) (hq : q ≠ []) : ensureFinalNewline (p ++ q) = p ++ ensureFinalNewline q := by
  obtain ⟨b, hb⟩ : ∃ b, q.getLast? = some b := by
    cases h : q.getLast? with
    | none => exact absurd (List.getLast?_eq_none_iff.mp h) hq
    | some b => exact ⟨b, rfl⟩
  have hpq : (p ++ q).getLast? = some b := by rw [List.getLast?_append, hb]; rfl
  unfold ensureFinalNewline
  rw [hpq, hb]
  simp only
  split
  · rfl
  · rw [List.append_assoc]

theorem efn_splice_end (a : List Byte) : ensureFinalNewline (a ++ [BSL, LF]) = a ++ [BSL, LF] := by
  have : (a ++ [BSL, LF]).getLast? = some LF := by rw [List.getLast?_append]; rfl
  unfold ensureFinalNewline
  rw [this]
  simp

theorem skipBOM_append_of_le (a t : List Byte) (h : 3 ≤ a.length) : skipBOM (a ++ t) = skipBOM a ++ t := by
  match a, h with
  | x :: y :: z :: r, _ =>
    simp only [List.cons_append, skipBOM]
    split <;> rfl

theorem skipBOM_last (a : List Byte) (ha : a.getLast? ≠ some BSL) : (skipBOM a).getLast? ≠ some BSL := by
  match a with
  | [] | [_] | [_, _] => exact ha
  | x :: y :: z :: r =>
    simp only [skipBOM]
    split
    · exact getLast?_tail_ne (getLast?_tail_ne (getLast?_tail_ne ha))
    · exact ha

theorem skipBOM_of_take (t : List Byte) (h : t.take 3 ≠ BOM) : skipBOM t = t := by
  match t with
  | [] | [_] | [_, _] => rfl
  | a :: b :: c :: r =>
    simp only [skipBOM]
    split
    · rename_i hc
      exfalso; apply h
      simp [BOM, hc.1, hc.2.1, hc.2.2]
    · rfl

theorem take3_efn (x : List Byte) (h : x.take 3 ≠ BOM) : (ensureFinalNewline x).take 3 ≠ BOM := by
  rcases efn_cases x with e | e
  · rw [e]; exact h
  · rw [e]
    match x with
    | [] => simp [BOM]
    | [p] => simp [BOM, LF]
    | [p, q] => simp [BOM, LF]
    | p :: q :: r :: t => simpa using h

theorem bsl_not_bom : BSL ≠ 0xEF#8 ∧ BSL ≠ 0xBB#8 ∧ BSL ≠ 0xBF#8 ∧ LF ≠ 0xBB#8 ∧ LF ≠ 0xBF#8 := by decide

/-- a text whose first three bytes contain the inserted backslash does not start with a BOM -/
theorem skipBOM_short_splice (a t : List Byte) (h : a.length < 3) :
    skipBOM (a ++ BSL :: LF :: t) = a ++ BSL :: LF :: t := by
  obtain ⟨h1, h2, h3, h4, h5⟩ := bsl_not_bom
  match a, h with
  | [], _ =>
    cases t with
    | nil => rfl
    | cons c r => simp [skipBOM, h1]
  | [p], _ => simp [skipBOM, h2]
  | [p, q], _ => simp [skipBOM, h3]

/-- `firstLine ∘ unsplice` of the phase-1 text is not changed by one more backslash-newline -/
theorem firstLine_phase1_splice (a b : List Byte) (ha : a.getLast? ≠ some BSL) (hca : CR ∉ a) (hcb : CR ∉ b)
    (hbom : 3 ≤ a.length ∨ (a ++ b).take 3 ≠ BOM) :
    firstLine (unsplice BSL LF (phase1 (a ++ BSL :: LF :: b))) = firstLine (unsplice BSL LF (phase1 (a ++ b))) := by
  have hc1 : CR ∉ a ++ BSL :: LF :: b := by
    simp only [List.mem_append, List.mem_cons, not_or]
    exact ⟨hca, by decide, by decide, hcb⟩
  have hc2 : CR ∉ a ++ b := by
    simp only [List.mem_append, not_or]; exact ⟨hca, hcb⟩
  rw [phase1_no_cr _ hc1, phase1_no_cr _ hc2]
  -- both texts after the final newline was ensured
  have key : ∃ b2 e, ensureFinalNewline (a ++ BSL :: LF :: b) = a ++ BSL :: LF :: b2 ∧
      ensureFinalNewline (a ++ b) = (a ++ b2) ++ e ∧ (e = [] ∨ (e = [LF] ∧ b2 = [])) := by
    by_cases hb : b = []
    · subst hb
      refine ⟨[], ?_⟩
      rcases efn_cases a with e | e
      · exact ⟨[], efn_splice_end a, by simp [e], Or.inl rfl⟩
      · exact ⟨[LF], efn_splice_end a, by simp [e], Or.inr ⟨rfl, rfl⟩⟩
    · refine ⟨ensureFinalNewline b, [], ?_, ?_, Or.inl rfl⟩
      · have := efn_append (a ++ [BSL, LF]) b hb
        simpa [List.append_assoc] using this
      · simpa using efn_append a b hb
  obtain ⟨b2, e, h1, h2, he⟩ := key
  -- both texts after the BOM skip
  have key2 : ∃ a2, a2.getLast? ≠ some BSL ∧ skipBOM (a ++ BSL :: LF :: b2) = a2 ++ BSL :: LF :: b2 ∧
      skipBOM ((a ++ b2) ++ e) = (a2 ++ b2) ++ e := by
    by_cases hl : 3 ≤ a.length
    · refine ⟨skipBOM a, skipBOM_last a ha, skipBOM_append_of_le a _ hl, ?_⟩
      rw [List.append_assoc, skipBOM_append_of_le a _ hl, List.append_assoc]
    · refine ⟨a, ha, skipBOM_short_splice a b2 (by omega), ?_⟩
      have hb3 : (a ++ b).take 3 ≠ BOM := by
        rcases hbom with h | h
        · exact absurd h hl
        · exact h
      rw [← h2]
      exact skipBOM_of_take _ (take3_efn _ hb3)
  obtain ⟨a2, ha2, k1, k2⟩ := key2
  rw [h1, h2, k1, k2, unsplice_splice a2 b2 ha2]
  rcases he with he | ⟨he, hb2⟩
  · subst he; simp
  · subst he; subst hb2
    simp only [List.append_nil]
    rw [unsplice_append a2 [LF] ha2]
    simp only [unsplice]
    exact (firstLine_append_single_lf _).symm

-- ------------------------------------------------------------------ newline count

theorem consLine_length (a : Byte) (ls : List (List Byte)) (h : ls ≠ []) : (consLine a ls).length = ls.length := by
  cases ls with
  | nil => exact absurd rfl h
  | cons l ls => rfl

theorem splitOn_length (x : List Byte) : (splitOn LF x).length = x.count LF + 1 := by
  induction x with
  | nil => rfl
  | cons a x ih =>
    by_cases h : a = LF
    · subst h; simp [splitOn, ih]
    · have hne : splitOn LF x ≠ [] := by
        obtain ⟨l, ls, e⟩ := splitOn_ne_nil LF x
        rw [e]; simp
      have h' : ¬ LF = a := fun e => h e.symm
      simp only [splitOn, h, if_false, consLine_length _ _ hne, ih, List.count_cons, beq_iff_eq, h', if_false, Nat.add_zero]

/-- `convert_universal_chars` keeps the number of newlines -/
theorem cuc_count (x : List Byte) : (convertUniversalChars x).count LF = x.count LF := by
  have h1 := splitOn_length (convertUniversalChars x)
  have h2 := splitOn_length x
  rw [cuc_lines, List.length_map] at h1
  omega

theorem phase12_count (s : List Byte) : (phase12 s).count LF = (phase1 s).count LF := by
  rw [phase12_eq, cuc_count]
  have := splice_count (phase1 s) 0
  simpa [removeBackslashNewline] using this

/-- the lines `tokenize()` sees are, up to blank lines after the first, the logical lines of the phase-1 text with their
    universal character names converted -/
theorem phase12_lines (s : List Byte) :
    logicalLines (splitOn LF (phase12 s)) =
      (logicalLines (splitOn LF (unsplice BSL LF (phase1 s)))).map convertUniversalChars := by
  rw [phase12_eq, cuc_lines, logicalLines_map_cuc]
  have := splice_lines (phase1 s) 0
  unfold removeBackslashNewline
  rw [this]

end ChibiVerif.Lemmas.Splice
