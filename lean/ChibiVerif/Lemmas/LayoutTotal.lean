/-
Outcome classes of the type-level layout functions of Model/Layout.lean (C08; also usable by C13):

* `alignedAttrBad_iff`   — the regenerated guard of `aligned(n)` and of `_Alignas(n)` (`n < 0 || n > (1 << 28) || (n & (n - 1))`,
                           int64_t two's complement) rejects exactly the `n` that are neither 0 nor a power of two ≤ 2^28;
* `structLayout_total` / `unionLayout_total` — the loops of struct_decl / union_decl return a layout with positive
                           alignment whenever the initial alignment and the member alignments are positive and every
                           bit-field has a type of positive size (no zero divisor);
* `sizeAlign_inv` …      — by mutual induction over type descriptions: every alignment lies in (0, 2^28], `attr->align` in
                           [0, 2^28], the members handed to the loops are `MemsGood`; hence **no type description
                           reaches `TyFail.divByZero`** (`sizeAlign_ne_divByZero`, `layout_ne_divByZero`,
                           `varAlign_ne_divByZero`), and the divisors computed in a 32-bit `int` (`int32`) are not zero
                           either (`divisors_int32`: 2^28 * 8 wraps to -2^31, nothing larger reaches the loops);
* `Ty.accepted`          — structural predicate "every `aligned(n)`/`_Alignas(n)` is 0 or a power of two ≤ 2^28 and every bit-field has an
                           integer declared type, at every depth (operands of `_Alignas(type-name)` included)";
                           `layout_ok_iff`: a layout is returned iff `accepted`, otherwise a diagnostic.

The arithmetic is the model's unbounded `Int`; `divisors_int32` closes the gap to the C `int` for the divisors (before
fix 33adb94 `_Alignas(536870912)` on a struct member made `mem->align * 8` wrap to a zero divisor: the guard of
`_Alignas(constant)` now bounds every alignment by 2^28).

Core Lean only.
-/
import ChibiVerif.Model.Layout
import ChibiVerif.Model.Layout32

namespace ChibiVerif.Layout
open ChibiVerif.Gen.Declspec

/-! ### `n & (n - 1)` -/

theorem testBit_top {m k : Nat} (h1 : 2 ^ k ≤ m) (h2 : m < 2 ^ (k + 1)) : m.testBit k = true := by
  rw [Nat.testBit_eq_decide_div_mod_eq]
  have : m / 2 ^ k = 1 := by
    apply Nat.div_eq_of_lt_le
    · omega
    · rw [Nat.pow_succ] at h2; omega
  simp [this]

/-- `n & (n - 1) == 0` exactly for 0 and the powers of two -/
theorem and_pred_eq_zero_iff (n : Nat) : n &&& (n - 1) = 0 ↔ n = 0 ∨ ∃ k, n = 2 ^ k := by
  constructor
  · intro h
    by_cases h0 : n = 0
    · exact Or.inl h0
    · right
      refine ⟨n.log2, ?_⟩
      have h1 := Nat.log2_self_le h0
      have h2 := @Nat.lt_log2_self n
      by_cases he : n = 2 ^ n.log2
      · exact he
      · exfalso
        have hb := testBit_top h1 h2
        have hb' : (n - 1).testBit n.log2 = true := testBit_top (by omega) (by omega)
        have : (n &&& (n - 1)).testBit n.log2 = true := by rw [Nat.testBit_and, hb, hb']; rfl
        rw [h, Nat.zero_testBit] at this
        cases this
  · rintro (rfl | ⟨k, rfl⟩)
    · rfl
    · rw [Nat.and_two_pow_sub_one_eq_mod, Nat.mod_self]

/-- the powers of two a requested alignment may be: 2^0 … 2^28 (gcc's and chibicc's maximum) -/
def pow2le28 (n : Int) : Bool := (List.range 29).any fun k => n == (2 : Int) ^ k

theorem pow2le28_iff (n : Int) : pow2le28 n = true ↔ ∃ k, k ≤ 28 ∧ n = (2 : Int) ^ k := by
  simp only [pow2le28, List.any_eq_true, List.mem_range, beq_iff_eq]
  constructor
  · rintro ⟨k, hk, rfl⟩; exact ⟨k, by omega, rfl⟩
  · rintro ⟨k, hk, rfl⟩; exact ⟨k, by omega, rfl⟩

theorem pow2le28_good : ∀ k ∈ List.range 29,
    alignedAttrBad ((2 : Int) ^ k) = false ∧ (0 : Int) < (2 : Int) ^ k ∧ (2 : Int) ^ k ≤ 268435456 := by
  decide

theorem alignedAttrBad_zero : alignedAttrBad 0 = false := by decide

/-- the int64 bit test of the guard, on the values that pass the two bounds -/
theorem bv_and_pred (m : Nat) (hm : m ≤ 268435456) :
    ((BitVec.ofInt 64 (m : Int) &&& BitVec.ofInt 64 ((m : Int) - 1)) != 0#64) = (m &&& (m - 1) != 0) := by
  by_cases h0 : m = 0
  · subst h0; decide
  · have e1 : ((m : Int) - 1) = ((m - 1 : Nat) : Int) := by omega
    rw [e1, BitVec.ofInt_natCast, BitVec.ofInt_natCast]
    have t1 : (BitVec.ofNat 64 m).toNat = m := by
      rw [BitVec.toNat_ofNat]; exact Nat.mod_eq_of_lt (by omega)
    have t2 : (BitVec.ofNat 64 (m - 1)).toNat = m - 1 := by
      rw [BitVec.toNat_ofNat]; exact Nat.mod_eq_of_lt (by omega)
    have : (BitVec.ofNat 64 m &&& BitVec.ofNat 64 (m - 1) = 0#64) ↔ (m &&& (m - 1) = 0) := by
      rw [BitVec.toNat_eq, BitVec.toNat_and, t1, t2]; rfl
    have hb : (BitVec.ofNat 64 m &&& BitVec.ofNat 64 (m - 1) == 0#64) = (m &&& (m - 1) == 0) := by
      rw [Bool.eq_iff_iff, beq_iff_eq, beq_iff_eq]; exact this
    simp only [bne, hb]

/-- **the guard of `aligned(n)`**: a diagnostic unless `n` is 0 or one of 2^0 … 2^28 -/
theorem alignedAttrBad_iff (n : Int) : alignedAttrBad n = false ↔ (n = 0 ∨ pow2le28 n = true) := by
  constructor
  · intro h
    simp only [alignedAttrBad, Bool.or_eq_false_iff, decide_eq_false_iff_not, Int.not_lt, Int.not_lt] at h
    obtain ⟨⟨hlo, hhi⟩, hbits⟩ := h
    have hhi' : n ≤ 268435456 := by omega
    obtain ⟨m, rfl⟩ : ∃ m : Nat, n = (m : Int) := ⟨n.toNat, by omega⟩
    have hm : m ≤ 268435456 := by omega
    rw [bv_and_pred m hm] at hbits
    have hz : m &&& (m - 1) = 0 := by simpa using hbits
    rcases (and_pred_eq_zero_iff m).1 hz with h0 | ⟨k, hk⟩
    · left; omega
    · right
      rw [pow2le28_iff]
      refine ⟨k, ?_, by rw [hk]; exact Int.natCast_pow 2 k⟩
      apply Classical.byContradiction
      intro hk28
      have : 2 ^ 29 ≤ 2 ^ k := Nat.pow_le_pow_right (by omega) (by omega)
      omega
  · rintro (rfl | h)
    · exact alignedAttrBad_zero
    · simp only [pow2le28, List.any_eq_true, beq_iff_eq] at h
      obtain ⟨k, hk, rfl⟩ := h
      exact (pow2le28_good k hk).1

theorem pow2le28_pos {n : Int} (h : pow2le28 n = true) : 0 < n := by
  simp only [pow2le28, List.any_eq_true, beq_iff_eq] at h
  obtain ⟨k, hk, rfl⟩ := h
  exact (pow2le28_good k hk).2.1

theorem pow2le28_le {n : Int} (h : pow2le28 n = true) : n ≤ 268435456 := by
  simp only [pow2le28, List.any_eq_true, beq_iff_eq] at h
  obtain ⟨k, hk, rfl⟩ := h
  exact (pow2le28_good k hk).2.2

/-- the guard of `_Alignas(constant)` in declspec is the guard of `aligned(n)` -/
theorem alignasConstBad_eq (n : Int) : alignasConstBad n = alignedAttrBad n := rfl

/-- largest alignment any type or member can have: 2^28 -/
def MAXALIGN : Int := 268435456

/-- the divisors `mem->align * 8` / `ty->align * 8` / `mem->ty->size * 8` of struct_decl, computed in a 32-bit `int`, are not
    zero for operands in (0, 2^28] (2^28 * 8 = 2^31 wraps to -2^31, not to 0; nothing larger reaches the loops) -/
theorem int32_mul8_ne_zero {x : Int} (h1 : 0 < x) (h2 : x ≤ MAXALIGN) : int32 (x * 8) ≠ 0 := by
  unfold int32 MAXALIGN at *; omega

/-- below 2^28 the product does not overflow at all -/
theorem int32_mul8_exact {x : Int} (h1 : 0 ≤ x) (h2 : x < MAXALIGN) : int32 (x * 8) = x * 8 := by
  unfold int32 MAXALIGN at *; omega

/-- `attribute_list` on one `aligned(n)`, exactly: nothing requested for `none` and 0, `n` for 2^0 … 2^28, else the diagnostic -/
theorem alignAttr_eq (cur : Int) (al : Option Int) :
    alignAttr cur al = (match al with
      | none => .ok cur
      | some n => if n = 0 then .ok cur else if pow2le28 n then .ok n else .error .badAlign) := by
  cases al with
  | none => rfl
  | some n =>
    simp only [alignAttr]
    by_cases h0 : n = 0
    · subst h0; simp [alignedAttrBad_zero, alignedAttrApply]
    · by_cases hp : pow2le28 n = true
      · have := (alignedAttrBad_iff n).2 (Or.inr hp)
        simp [this, h0, hp, alignedAttrApply]
      · have : alignedAttrBad n = true := by
          cases hb : alignedAttrBad n with
          | true => rfl
          | false => rcases (alignedAttrBad_iff n).1 hb with h | h
                     · exact absurd h h0
                     · exact absurd h hp
        simp [this, h0, hp]

theorem alignAttr_pos {cur : Int} (hc : 0 < cur ∧ cur ≤ MAXALIGN) {al : Option Int} {a : Int}
    (h : alignAttr cur al = .ok a) : 0 < a ∧ a ≤ MAXALIGN := by
  rw [alignAttr_eq] at h
  cases al with
  | none => simp only [Except.ok.injEq] at h; omega
  | some n =>
    simp only at h
    by_cases h0 : n = 0
    · simp only [h0, if_true, Except.ok.injEq] at h; omega
    · by_cases hp : pow2le28 n = true
      · simp only [h0, hp, if_true, if_false, Except.ok.injEq] at h
        have := pow2le28_pos hp
        have := pow2le28_le hp
        unfold MAXALIGN at *; omega
      · simp [h0, hp] at h

theorem alignAttr_ne_div (cur : Int) (al : Option Int) : alignAttr cur al ≠ .error .divByZero := by
  cases al with
  | none => simp [alignAttr]
  | some n => simp only [alignAttr]; split <;> simp

/-! ### the loops of struct_decl / union_decl never divide by zero on good member lists -/

/-- what `struct_members` hands to the loops: member alignment in (0, 2^28]; a bit-field has a type of size in (0, 8] -/
def MemsGood (l : List Mem) : Prop :=
  ∀ m ∈ l, (0 < m.align ∧ m.align ≤ MAXALIGN) ∧ (m.bitWidth.isSome = true → 0 < m.size ∧ m.size ≤ 8)

theorem alignToE_ok {n a : Int} (h : a ≠ 0) : alignToE n a = .ok (alignTo n a) := by
  simp [alignToE, h]

theorem stepAlign_ge (packed : Bool) (a : Int) (m : Mem) : a ≤ stepAlign packed a m := by
  unfold stepAlign
  split
  · exact Int.le_refl _
  · split
    · rename_i h; simp only [Bool.and_eq_true, Bool.not_eq_true', decide_eq_true_eq] at h; omega
    · exact Int.le_refl _

theorem stepAlign_le (packed : Bool) (a : Int) (m : Mem) (B : Int) (ha : a ≤ B) (hm : m.align ≤ B) :
    stepAlign packed a m ≤ B := by
  unfold stepAlign
  split
  · exact ha
  · split
    · exact hm
    · exact ha

theorem placeMember_total (packed : Bool) (bits : Int) (m : Mem) (ha : 0 < m.align)
    (hs : m.bitWidth.isSome = true → 0 < m.size) : ∃ r, placeMember packed bits m = .ok r := by
  unfold placeMember
  cases hb : m.bitWidth with
  | none =>
    simp only
    have : (if packed = true then (8 : Int) else m.align * 8) ≠ 0 := by split <;> omega
    rw [alignToE_ok this]
    exact ⟨_, rfl⟩
  | some w =>
    have hsz : m.size * 8 ≠ 0 := by have := hs (by simp [hb]); omega
    simp only
    by_cases hw : w = 0
    · simp only [hw, if_true]
      rw [alignToE_ok hsz]
      exact ⟨_, rfl⟩
    · simp only [hw, if_false, hsz]
      exact ⟨_, rfl⟩

theorem structLoop_total (packed : Bool) : ∀ (ms : List Mem) (bits align : Int), MemsGood ms → align ≤ MAXALIGN →
    ∃ b a ps, structLoop packed bits align ms = .ok (b, a, ps) ∧ align ≤ a ∧ a ≤ MAXALIGN
  | [], bits, align, _, hb => ⟨bits, align, [], rfl, Int.le_refl _, hb⟩
  | m :: ms, bits, align, hg, hb => by
    have hm := hg m (List.mem_cons_self ..)
    obtain ⟨⟨b, p⟩, hp⟩ := placeMember_total packed bits m hm.1.1 (fun h => (hm.2 h).1)
    obtain ⟨b', a', ps, hl, hle, hle2⟩ := structLoop_total packed ms b (stepAlign packed align m)
      (fun x hx => hg x (List.mem_cons_of_mem _ hx)) (stepAlign_le packed align m MAXALIGN hb hm.1.2)
    refine ⟨b', a', p :: ps, ?_, Int.le_trans (stepAlign_ge packed align m) hle, hle2⟩
    simp only [structLoop, structStep, hp, hl]

/-- `struct_decl` on a good member list with an initial alignment in (0, 2^28] returns a layout with alignment in (0, 2^28] -/
theorem structLayout_total (packed : Bool) (a0 : Int) (ms : List Mem) (ha : 0 < a0 ∧ a0 ≤ MAXALIGN) (hg : MemsGood ms) :
    ∃ l, structLayout packed a0 ms = .ok l ∧ 0 < l.align ∧ l.align ≤ MAXALIGN := by
  obtain ⟨b, a, ps, hl, hle, hle2⟩ := structLoop_total packed ms 0 a0 hg ha.2
  have : a * 8 ≠ 0 := by omega
  refine ⟨{ size := Int.tdiv (alignTo b (a * 8)) 8, align := a, placed := ps }, ?_, by show 0 < a; omega, hle2⟩
  simp only [structLayout, hl, alignToE_ok this]

theorem unionStep_ge (packed : Bool) (s a : Int) (m : Mem) : a ≤ (unionStep packed s a m).2 := by
  unfold unionStep
  split
  · exact Int.le_refl _
  · simp only
    split
    · rename_i h; simp only [Bool.and_eq_true, Bool.not_eq_true', decide_eq_true_eq] at h; omega
    · exact Int.le_refl _

theorem unionLoop_ge (packed : Bool) : ∀ (ms : List Mem) (s a : Int), a ≤ (unionLoop packed s a ms).2
  | [], _, a => Int.le_refl a
  | m :: ms, s, a => by
    simp only [unionLoop]
    exact Int.le_trans (unionStep_ge packed s a m) (unionLoop_ge packed ms _ _)

theorem unionStep_le (packed : Bool) (s a : Int) (m : Mem) (B : Int) (ha : a ≤ B) (hm : m.align ≤ B) :
    (unionStep packed s a m).2 ≤ B := by
  unfold unionStep
  split
  · exact ha
  · simp only
    split
    · exact hm
    · exact ha

theorem unionLoop_le (packed : Bool) (B : Int) : ∀ (ms : List Mem) (s a : Int), a ≤ B → (∀ m ∈ ms, m.align ≤ B) →
    (unionLoop packed s a ms).2 ≤ B
  | [], _, a, ha, _ => ha
  | m :: ms, s, a, ha, hm => by
    simp only [unionLoop]
    exact unionLoop_le packed B ms _ _ (unionStep_le packed s a m B ha (hm m (List.mem_cons_self ..)))
      (fun x hx => hm x (List.mem_cons_of_mem _ hx))

/-- `union_decl` with an initial alignment in (0, 2^28] returns a layout with alignment in (0, 2^28] (member alignments ≤ 2^28) -/
theorem unionLayout_total (packed : Bool) (a0 : Int) (ms : List Mem) (ha : 0 < a0 ∧ a0 ≤ MAXALIGN)
    (hm : ∀ m ∈ ms, m.align ≤ MAXALIGN) :
    ∃ l, unionLayout packed a0 ms = .ok l ∧ 0 < l.align ∧ l.align ≤ MAXALIGN := by
  have hle := unionLoop_le packed MAXALIGN ms ((STRUCT_INIT_SIZE : Nat) : Int) a0 ha.2 hm
  have hge := unionLoop_ge packed ms ((STRUCT_INIT_SIZE : Nat) : Int) a0
  have hne : (unionLoop packed ((STRUCT_INIT_SIZE : Nat) : Int) a0 ms).2 ≠ 0 := by omega
  refine ⟨{ size := alignTo (unionLoop packed ((STRUCT_INIT_SIZE : Nat) : Int) a0 ms).1 (unionLoop packed ((STRUCT_INIT_SIZE : Nat) : Int) a0 ms).2,
            align := (unionLoop packed ((STRUCT_INIT_SIZE : Nat) : Int) a0 ms).2,
            placed := ms.map fun _ => { offset := 0, bitOffset := 0 } }, ?_, ?_⟩
  · simp only [unionLayout, alignToE_ok hne]
  · show 0 < (unionLoop packed ((STRUCT_INIT_SIZE : Nat) : Int) a0 ms).2 ∧ (unionLoop packed ((STRUCT_INIT_SIZE : Nat) : Int) a0 ms).2 ≤ MAXALIGN
    exact ⟨by omega, hle⟩

/-! ### type descriptions -/

theorem prim_pos (t : TyName) : 0 < primSize t ∧ 0 < primAlign t ∧ primAlign t ≤ MAXALIGN := by
  cases t <;> decide

/-- the primitive types `is_integer` accepts have at most 8 bytes -/
theorem prim_integer_size (t : TyName) (h : integerKinds.contains (primKind t) = true) : primSize t ≤ 8 := by
  cases t <;> first | decide | exact absurd h (by decide)

/-- what `is_integer` accepts has positive size (so `bits / (sz * 8)` is defined) -/
theorem isInteger_size_pos (t : Ty) (h : t.isInteger = true) (s a : Int) (hs : t.sizeAlign = .ok (s, a)) :
    0 < s ∧ s ≤ 8 := by
  cases t with
  | prim t =>
    simp only [Ty.sizeAlign, Except.ok.injEq, Prod.mk.injEq] at hs
    rw [← hs.1]; exact ⟨(prim_pos t).1, prim_integer_size t h⟩
  | enum =>
    simp only [Ty.sizeAlign, Except.ok.injEq, Prod.mk.injEq] at hs
    rw [← hs.1]; decide
  | ptr => exact absurd (h : integerKinds.contains "TY_PTR" = true) (by decide : ¬ integerKinds.contains "TY_PTR" = true)
  | arr _ _ => exact absurd (h : integerKinds.contains "TY_ARRAY" = true) (by decide : ¬ integerKinds.contains "TY_ARRAY" = true)
  | flex _ => exact absurd (h : integerKinds.contains "TY_ARRAY" = true) (by decide : ¬ integerKinds.contains "TY_ARRAY" = true)
  | struct _ _ _ => exact absurd (h : integerKinds.contains "TY_STRUCT" = true) (by decide : ¬ integerKinds.contains "TY_STRUCT" = true)
  | union _ _ _ => exact absurd (h : integerKinds.contains "TY_UNION" = true) (by decide : ¬ integerKinds.contains "TY_UNION" = true)

theorem alignasCombine_bounds (acc new : Int) (h : 0 ≤ acc ∧ acc ≤ MAXALIGN) (hn : new ≤ MAXALIGN) :
    0 ≤ alignasCombine acc new ∧ alignasCombine acc new ≤ MAXALIGN := by
  unfold alignasCombine; split <;> omega

theorem memberAlign_pos (attr a : Int) (h1 : 0 ≤ attr ∧ attr ≤ MAXALIGN) (h2 : 0 < a ∧ a ≤ MAXALIGN) :
    0 < memberAlign attr a ∧ memberAlign attr a ≤ MAXALIGN := by
  unfold memberAlign; split <;> omega

theorem struct_init_pos : (0 : Int) < ((STRUCT_INIT_ALIGN : Nat) : Int) ∧ ((STRUCT_INIT_ALIGN : Nat) : Int) ≤ MAXALIGN := by decide

/-- a constant that passes the guard of `_Alignas(constant)` lies in [0, 2^28] -/
theorem alignasConst_bounds {n : Int} (h : alignasConstBad n = false) : 0 ≤ alignasOfConst n ∧ alignasOfConst n ≤ MAXALIGN := by
  rw [alignasConstBad_eq] at h
  unfold alignasOfConst MAXALIGN
  rcases (alignedAttrBad_iff n).1 h with h0 | hp
  · omega
  · have := pow2le28_pos hp; have := pow2le28_le hp; omega

/-- outcome of a type-level function: never the SIGFPE, and a value satisfies `P` -/
def Outcome {α : Type} (P : α → Prop) (r : Except TyFail α) : Prop :=
  match r with
  | .ok a => P a
  | .error e => e ≠ .divByZero

theorem Outcome.bind {α β : Type} {P : α → Prop} {Q : β → Prop} {r : Except TyFail α} {f : α → Except TyFail β}
    (h : Outcome P r) (hf : ∀ a, P a → Outcome Q (f a)) : Outcome Q (r >>= f) := by
  cases r with
  | ok a => exact hf a h
  | error e => exact h

theorem Outcome.lift_struct {packed : Bool} {a0 : Int} {ms : List Mem} (ha : 0 < a0 ∧ a0 ≤ MAXALIGN) (hg : MemsGood ms) :
    Outcome (fun l : Layout => 0 < l.align ∧ l.align ≤ MAXALIGN) (liftFail (structLayout packed a0 ms)) := by
  obtain ⟨l, hl, hp⟩ := structLayout_total packed a0 ms ha hg
  rw [hl]; exact hp

theorem Outcome.lift_union {packed : Bool} {a0 : Int} {ms : List Mem} (ha : 0 < a0 ∧ a0 ≤ MAXALIGN) (hg : MemsGood ms) :
    Outcome (fun l : Layout => 0 < l.align ∧ l.align ≤ MAXALIGN) (liftFail (unionLayout packed a0 ms)) := by
  obtain ⟨l, hl, hp⟩ := unionLayout_total packed a0 ms ha (fun m hm => (hg m hm).1.2)
  rw [hl]; exact hp

theorem Outcome.of_alignAttr (al : Option Int) :
    Outcome (fun a : Int => 0 < a ∧ a ≤ MAXALIGN) (Layout.alignAttr ((STRUCT_INIT_ALIGN : Nat) : Int) al) := by
  cases h : Layout.alignAttr ((STRUCT_INIT_ALIGN : Nat) : Int) al with
  | ok a => exact alignAttr_pos struct_init_pos h
  | error e => intro he; subst he; exact alignAttr_ne_div _ _ h

mutual
  theorem sizeAlign_inv : ∀ (t : Ty), Outcome (fun r : Int × Int => 0 < r.2 ∧ r.2 ≤ MAXALIGN) t.sizeAlign
    | .prim t => (prim_pos t).2
    | .enum => by show (0 : Int) < ((ENUM_ALIGN : Nat) : Int) ∧ ((ENUM_ALIGN : Nat) : Int) ≤ MAXALIGN; decide
    | .ptr => by show (0 : Int) < ((PTR_ALIGN : Nat) : Int) ∧ ((PTR_ALIGN : Nat) : Int) ≤ MAXALIGN; decide
    | .arr e n => by
      simp only [Ty.sizeAlign]
      exact (sizeAlign_inv e).bind (fun r hr => hr)
    | .flex e => by
      simp only [Ty.sizeAlign]
      exact (sizeAlign_inv e).bind (fun r hr => hr)
    | .struct p al ms => by
      simp only [Ty.sizeAlign]
      refine (Outcome.of_alignAttr al).bind (fun a0 ha0 => ?_)
      refine (toMems_inv ms).bind (fun mems hg => ?_)
      exact (Outcome.lift_struct ha0 hg).bind (fun l hl => hl)
    | .union p al ms => by
      simp only [Ty.sizeAlign]
      refine (Outcome.of_alignAttr al).bind (fun a0 ha0 => ?_)
      refine (toMems_inv ms).bind (fun mems hg => ?_)
      exact (Outcome.lift_union ha0 hg).bind (fun l hl => hl)
  theorem eval_inv : ∀ (as : Aligns) (acc : Int), 0 ≤ acc ∧ acc ≤ MAXALIGN →
      Outcome (fun r : Int => 0 ≤ r ∧ r ≤ MAXALIGN) (as.eval acc)
    | .nil, acc, h => h
    | .const n rest, acc, h => by
      simp only [Aligns.eval]
      by_cases hb : alignasConstBad n = true
      · rw [if_pos hb]; intro he; cases he
      · rw [if_neg hb]
        exact eval_inv rest _ (alignasCombine_bounds acc _ h (alignasConst_bounds (by simpa using hb)).2)
    | .type t rest, acc, h => by
      simp only [Aligns.eval]
      exact (sizeAlign_inv t).bind (fun r hr => eval_inv rest _ (alignasCombine_bounds acc _ h hr.2))
  theorem toMems_inv : ∀ (ms : Members), Outcome MemsGood ms.toMems
    | .nil => by intro m hm; cases hm
    | .cons d as ty rest => by
      simp only [Members.toMems]
      refine (eval_inv as 0 (by decide)).bind (fun attrAlign hattr => ?_)
      have hty := sizeAlign_inv ty
      cases hs : ty.sizeAlign with
      | error e => rw [hs] at hty; exact hty
      | ok r =>
        obtain ⟨s, a⟩ := r
        rw [hs] at hty
        show Outcome MemsGood (if (d.bitWidth.isSome && !ty.isInteger) = true then Except.error TyFail.bitfieldType
          else do
            let tl ← rest.toMems
            pure ({ size := s, align := memberAlign attrAlign a, bitWidth := d.bitWidth, named := d.named } :: tl))
        by_cases hbf : (d.bitWidth.isSome && !ty.isInteger) = true
        · rw [if_pos hbf]
          intro he; cases he
        · rw [if_neg hbf]
          refine (toMems_inv rest).bind (fun tl htl => ?_)
          intro m hm
          rcases List.mem_cons.1 hm with rfl | hm
          · refine ⟨memberAlign_pos attrAlign a hattr hty, ?_⟩
            intro hb
            simp only at hb
            have hint : ty.isInteger = true := by
              cases hi : ty.isInteger with
              | true => rfl
              | false => simp [hb, hi] at hbf
            exact isInteger_size_pos ty hint s a hs
          · exact htl m hm
end

/-- **no type description reaches a zero divisor**: `Ty.sizeAlign` (sizeof/_Alignof) -/
theorem sizeAlign_ne_divByZero (t : Ty) : t.sizeAlign ≠ .error .divByZero := by
  intro h
  have := sizeAlign_inv t
  rw [h] at this
  exact this rfl

theorem sizeAlign_align_pos {t : Ty} {s a : Int} (h : t.sizeAlign = .ok (s, a)) : 0 < a ∧ a ≤ MAXALIGN := by
  have := sizeAlign_inv t
  rw [h] at this
  exact this

theorem layout_inv (t : Ty) : Outcome (fun l : Layout => 0 < l.align ∧ l.align ≤ MAXALIGN) t.layout := by
  cases t with
  | struct p al ms =>
    simp only [Ty.layout]
    refine (Outcome.of_alignAttr al).bind (fun a0 ha0 => ?_)
    exact (toMems_inv ms).bind (fun mems hg => Outcome.lift_struct ha0 hg)
  | union p al ms =>
    simp only [Ty.layout]
    refine (Outcome.of_alignAttr al).bind (fun a0 ha0 => ?_)
    exact (toMems_inv ms).bind (fun mems hg => Outcome.lift_union ha0 hg)
  | prim t => simp only [Ty.layout]; exact (sizeAlign_inv (.prim t)).bind (fun r hr => hr)
  | enum => simp only [Ty.layout]; exact (sizeAlign_inv .enum).bind (fun r hr => hr)
  | ptr => simp only [Ty.layout]; exact (sizeAlign_inv .ptr).bind (fun r hr => hr)
  | arr e n => simp only [Ty.layout]; exact (sizeAlign_inv (.arr e n)).bind (fun r hr => hr)
  | flex e => simp only [Ty.layout]; exact (sizeAlign_inv (.flex e)).bind (fun r hr => hr)

/-- **no type description reaches a zero divisor**: `Ty.layout` (sizeof, _Alignof, member offsets) -/
theorem layout_ne_divByZero (t : Ty) : t.layout ≠ .error .divByZero := by
  intro h
  have := layout_inv t
  rw [h] at this
  exact this rfl

theorem varAlign_ne_divByZero (as : Aligns) (ty : Ty) : varAlign as ty ≠ .error .divByZero := by
  intro h
  have : Outcome (fun _ : Int => True) (varAlign as ty) := by
    simp only [varAlign]
    refine (eval_inv as 0 (by decide)).bind (fun _ _ => ?_)
    exact (sizeAlign_inv ty).bind (fun _ _ => trivial)
  rw [h] at this
  exact this rfl

/-- the member list `struct_members` builds, whenever it builds one, is good: alignments in (0, 2^28], bit-field types of
    1 … 8 bytes -/
theorem toMems_good {ms : Members} {l : List Mem} (h : ms.toMems = .ok l) : MemsGood l := by
  have := toMems_inv ms
  rw [h] at this
  exact this

/-- **the divisors of struct_decl in 32-bit `int` arithmetic**: for a good member list and a struct alignment in (0, 2^28]
    none of `mem->ty->size * 8` (bit-fields), `mem->align * 8` (other members), `ty->align * 8` (final rounding) wraps to
    zero, and the bit-field divisor does not overflow at all -/
theorem divisors_int32 (l : List Mem) (hg : MemsGood l) (a : Int) (ha : 0 < a ∧ a ≤ MAXALIGN) :
    (∀ m ∈ l, m.bitWidth.isSome = true → int32 (m.size * 8) = m.size * 8 ∧ m.size * 8 ≠ 0) ∧
    (∀ m ∈ l, int32 (m.align * 8) ≠ 0) ∧ int32 (a * 8) ≠ 0 := by
  refine ⟨fun m hm hb => ?_, fun m hm => int32_mul8_ne_zero (hg m hm).1.1 (hg m hm).1.2, int32_mul8_ne_zero ha.1 ha.2⟩
  have := (hg m hm).2 hb
  unfold int32; omega

/-! ### which descriptions get a layout, which a diagnostic -/

/-- `aligned(n)` requests that pass `attribute_list`: none, 0 (nothing requested), 2^0 … 2^28 -/
def alignedAccepted : Option Int → Bool
  | none => true
  | some n => n == 0 || pow2le28 n

mutual
  /-- every `aligned(n)` and `_Alignas(n)` is 0 or a power of two ≤ 2^28 and every bit-field has an integer declared type — at every depth,
      operands of `_Alignas(type-name)` included -/
  def Ty.accepted : Ty → Bool
    | .prim _ => true
    | .enum => true
    | .ptr => true
    | .arr e _ => e.accepted
    | .flex e => e.accepted
    | .struct _ al ms => alignedAccepted al && ms.accepted
    | .union _ al ms => alignedAccepted al && ms.accepted
  def Aligns.accepted : Aligns → Bool
    | .nil => true
    | .const n rest => (n == 0 || pow2le28 n) && rest.accepted
    | .type t rest => t.accepted && rest.accepted
  def Members.accepted : Members → Bool
    | .nil => true
    | .cons d as ty rest => as.accepted && ty.accepted && (d.bitWidth.isNone || ty.isInteger) && rest.accepted
end

def isOk {ε α : Type} : Except ε α → Bool
  | .ok _ => true
  | .error _ => false

theorem alignAttr_isOk (cur : Int) (al : Option Int) : isOk (alignAttr cur al) = alignedAccepted al := by
  rw [alignAttr_eq]
  cases al with
  | none => rfl
  | some n =>
    simp only [alignedAccepted]
    by_cases h0 : n = 0
    · simp [h0, isOk]
    · by_cases hp : pow2le28 n = true
      · simp [h0, hp, isOk]
      · simp [h0, hp, isOk]

mutual
  theorem sizeAlign_isOk : ∀ (t : Ty), isOk t.sizeAlign = t.accepted
    | .prim _ => rfl
    | .enum => rfl
    | .ptr => rfl
    | .arr e n => by
      have ih := sizeAlign_isOk e
      simp only [Ty.sizeAlign, Ty.accepted]
      cases h : e.sizeAlign with
      | ok r => rw [h] at ih; rw [← ih]; rfl
      | error x => rw [h] at ih; rw [← ih]; rfl
    | .flex e => by
      have ih := sizeAlign_isOk e
      simp only [Ty.sizeAlign, Ty.accepted]
      cases h : e.sizeAlign with
      | ok r => rw [h] at ih; rw [← ih]; rfl
      | error x => rw [h] at ih; rw [← ih]; rfl
    | .struct p al ms => by
      have ih := toMems_isOk ms
      have ha := alignAttr_isOk ((STRUCT_INIT_ALIGN : Nat) : Int) al
      have ha2 := Outcome.of_alignAttr al
      have hm2 := toMems_inv ms
      simp only [Ty.sizeAlign, Ty.accepted]
      cases h1 : alignAttr ((STRUCT_INIT_ALIGN : Nat) : Int) al with
      | error x => rw [h1] at ha; rw [← ha]; rfl
      | ok a0 =>
        rw [h1] at ha ha2
        rw [← ha]
        cases h2 : ms.toMems with
        | error x => rw [h2] at ih; rw [← ih]; rfl
        | ok mems =>
          rw [h2] at ih hm2
          rw [← ih]
          obtain ⟨l, hl, _⟩ := structLayout_total p a0 mems ha2 hm2
          simp only [bind, Except.bind, hl, liftFail]
          rfl
    | .union p al ms => by
      have ih := toMems_isOk ms
      have ha := alignAttr_isOk ((STRUCT_INIT_ALIGN : Nat) : Int) al
      have ha2 := Outcome.of_alignAttr al
      have hm2 := toMems_inv ms
      simp only [Ty.sizeAlign, Ty.accepted]
      cases h1 : alignAttr ((STRUCT_INIT_ALIGN : Nat) : Int) al with
      | error x => rw [h1] at ha; rw [← ha]; rfl
      | ok a0 =>
        rw [h1] at ha ha2
        rw [← ha]
        cases h2 : ms.toMems with
        | error x => rw [h2] at ih; rw [← ih]; rfl
        | ok mems =>
          rw [h2] at ih hm2
          rw [← ih]
          obtain ⟨l, hl, _⟩ := unionLayout_total p a0 mems ha2 (fun m hm => (hm2 m hm).1.2)
          simp only [bind, Except.bind, hl, liftFail]
          rfl
  theorem eval_isOk : ∀ (as : Aligns) (acc : Int), isOk (as.eval acc) = as.accepted
    | .nil, _ => rfl
    | .const n rest, acc => by
      simp only [Aligns.eval, Aligns.accepted]
      by_cases hb : alignasConstBad n = true
      · rw [if_pos hb]
        rw [alignasConstBad_eq] at hb
        have : (n == 0 || pow2le28 n) = false := by
          cases hc : (n == 0 || pow2le28 n) with
          | false => rfl
          | true =>
            have := (alignedAttrBad_iff n).2 (by simpa using hc)
            rw [this] at hb; cases hb
        rw [this]; rfl
      · rw [if_neg hb]
        have hb' : alignedAttrBad n = false := by rw [← alignasConstBad_eq]; simpa using hb
        have : (n == 0 || pow2le28 n) = true := by simpa using (alignedAttrBad_iff n).1 hb'
        rw [this, Bool.true_and]
        exact eval_isOk rest _
    | .type t rest, acc => by
      have ih := sizeAlign_isOk t
      simp only [Aligns.eval, Aligns.accepted]
      cases h : t.sizeAlign with
      | error x => rw [h] at ih; rw [← ih]; rfl
      | ok r =>
        rw [h] at ih; rw [← ih]
        simp only [bind, Except.bind]
        rw [eval_isOk rest _]
        rfl
  theorem toMems_isOk : ∀ (ms : Members), isOk ms.toMems = ms.accepted
    | .nil => rfl
    | .cons d as ty rest => by
      have ih1 := eval_isOk as 0
      have ih2 := sizeAlign_isOk ty
      have ih3 := toMems_isOk rest
      simp only [Members.toMems, Members.accepted]
      cases h1 : as.eval 0 with
      | error x => rw [h1] at ih1; rw [← ih1]; rfl
      | ok attrAlign =>
        rw [h1] at ih1; rw [← ih1]
        cases h2 : ty.sizeAlign with
        | error x => rw [h2] at ih2; rw [← ih2]; rfl
        | ok r =>
          rw [h2] at ih2; rw [← ih2]
          simp only [bind, Except.bind]
          by_cases hbf : (d.bitWidth.isSome && !ty.isInteger) = true
          · rw [if_pos hbf]
            have : (d.bitWidth.isNone || ty.isInteger) = false := by
              simp only [Bool.and_eq_true, Bool.not_eq_true'] at hbf
              cases hb : d.bitWidth with
              | none => rw [hb] at hbf; simp at hbf
              | some w => simp [hbf.2]
            rw [this]; rfl
          · rw [if_neg hbf]
            have : (d.bitWidth.isNone || ty.isInteger) = true := by
              cases hb : d.bitWidth with
              | none => rfl
              | some w =>
                cases hi : ty.isInteger with
                | true => rfl
                | false => rw [hb, hi] at hbf; exact absurd rfl hbf
            rw [this]
            cases h3 : rest.toMems with
            | error x => rw [h3] at ih3; rw [← ih3]; rfl
            | ok tl => rw [h3] at ih3; rw [← ih3]; rfl
end

/-- **outcome class of `sizeof`/`_Alignof`**: a value iff the description is `accepted`; otherwise one of the two
    diagnostics (never the SIGFPE, `sizeAlign_ne_divByZero`) -/
theorem sizeAlign_ok_iff (t : Ty) : (∃ r, t.sizeAlign = .ok r) ↔ t.accepted = true := by
  rw [← sizeAlign_isOk]
  cases t.sizeAlign with
  | ok r => simp [isOk]
  | error e => simp [isOk]

theorem layout_isOk (t : Ty) : isOk t.layout = t.accepted := by
  cases t with
  | struct p al ms =>
    have ih := toMems_isOk ms
    have ha := alignAttr_isOk ((STRUCT_INIT_ALIGN : Nat) : Int) al
    have ha2 := Outcome.of_alignAttr al
    have hm2 := toMems_inv ms
    simp only [Ty.layout, Ty.accepted]
    cases h1 : alignAttr ((STRUCT_INIT_ALIGN : Nat) : Int) al with
    | error x => rw [h1] at ha; rw [← ha]; rfl
    | ok a0 =>
      rw [h1] at ha ha2
      rw [← ha]
      cases h2 : ms.toMems with
      | error x => rw [h2] at ih; rw [← ih]; rfl
      | ok mems =>
        rw [h2] at ih hm2
        rw [← ih]
        obtain ⟨l, hl, _⟩ := structLayout_total p a0 mems ha2 hm2
        simp only [bind, Except.bind, hl, liftFail]
        rfl
  | union p al ms =>
    have ih := toMems_isOk ms
    have ha := alignAttr_isOk ((STRUCT_INIT_ALIGN : Nat) : Int) al
    have ha2 := Outcome.of_alignAttr al
    have hm2 := toMems_inv ms
    simp only [Ty.layout, Ty.accepted]
    cases h1 : alignAttr ((STRUCT_INIT_ALIGN : Nat) : Int) al with
    | error x => rw [h1] at ha; rw [← ha]; rfl
    | ok a0 =>
      rw [h1] at ha ha2
      rw [← ha]
      cases h2 : ms.toMems with
      | error x => rw [h2] at ih; rw [← ih]; rfl
      | ok mems =>
        rw [h2] at ih hm2
        rw [← ih]
        obtain ⟨l, hl, _⟩ := unionLayout_total p a0 mems ha2 (fun m hm => (hm2 m hm).1.2)
        simp only [bind, Except.bind, hl, liftFail]
        rfl
  | prim t => rfl
  | enum => rfl
  | ptr => rfl
  | arr e n =>
    have := sizeAlign_isOk (.arr e n)
    simp only [Ty.layout]
    cases h : (Ty.arr e n).sizeAlign with
    | ok r => rw [h] at this; rw [← this]; rfl
    | error x => rw [h] at this; rw [← this]; rfl
  | flex e =>
    have := sizeAlign_isOk (.flex e)
    simp only [Ty.layout]
    cases h : (Ty.flex e).sizeAlign with
    | ok r => rw [h] at this; rw [← this]; rfl
    | error x => rw [h] at this; rw [← this]; rfl

/-- **outcome class of the layout**: a layout iff the description is `accepted`; otherwise a diagnostic -/
theorem layout_ok_iff (t : Ty) : (∃ l, t.layout = .ok l) ↔ t.accepted = true := by
  rw [← layout_isOk]
  cases t.layout with
  | ok r => simp [isOk]
  | error e => simp [isOk]

/-- a description that is not `accepted` is answered with one of the two diagnostics -/
theorem layout_diag_of_not_accepted (t : Ty) (h : t.accepted = false) :
    t.layout = .error .badAlign ∨ t.layout = .error .bitfieldType := by
  have h1 := layout_isOk t
  have h2 := layout_ne_divByZero t
  rw [h] at h1
  cases hl : t.layout with
  | ok l => rw [hl] at h1; cases h1
  | error e =>
    cases e with
    | divByZero => exact absurd hl h2
    | badAlign => exact Or.inl rfl
    | bitfieldType => exact Or.inr rfl

end ChibiVerif.Layout
