/-
C03 × C01: the machine of Model/C03Fun (`stepF` / `runF`, labels `FL`) IS the machine of Model/X86Jump under a renaming of
labels, and the execution lemmas the whole-function simulation (Lemmas/C03FunSim.lean) is assembled from.

* `encL C` renames the statement-level labels (`.L.begin.N`, `.L..N`, `.L.return.f`) to labels `.L.end.M` of Model/X86Jump with
  `M ≥ C`; with `C = bound p` (larger than every label number that occurs in `p`, as a definition or as a jump target) the
  renaming is injective on the labels of `p`, so label resolution by position commutes with it: `stepF_enc`, `runF_enc` —
  for EVERY program `p`, `runF fuel p pc s = runJ fuel (p.map (enc (bound p))) pc s`.
* `Reach`: reachability in any number of steps (loops jump backwards, so C01's `Exec` — forward, bounded by the distance —
  is not enough); `Exec.reach`.
* `hole`: C01's `value_j` (the induction behind `C01_value_full`) at an expression hole of a function: wherever the code of
  the expression sits in the program, from a state whose frame holds `σ` the machine reaches the line after it with `%rax`
  representing the C11 value and the frame holding the C11 store.
* `cond_jump`: `cmp_zero; je/jne l`; `jmp_to`, `lbl_step`.
-/
import ChibiVerif.Model.C03Fun
import ChibiVerif.Lemmas.C01ValueFull

namespace ChibiVerif.C03Fun
open ChibiVerif.Asm ChibiVerif.Spec.IntSpec ChibiVerif.C01 ChibiVerif.X86 ChibiVerif.X86J

/-! ### renaming of labels -/

def SL.code : SL → Nat
  | .ret => 0
  | .begin_ n => 1 + 2 * n
  | .uniq n => 2 + 2 * n

def encL (C : Nat) : FL → Lbl
  | .x l => l
  | .s l => ⟨.end_, C + l.code⟩

def enc (C : Nat) : FI → JI
  | .ins i => .ins i
  | .lbl l => .lbl (encL C l)
  | .jmp l => .jmp (encL C l)
  | .jcc c l => .jcc c (encL C l)

def okL (C : Nat) : FL → Prop
  | .x l => l.n < C
  | .s _ => True

def okI (C : Nat) : FI → Prop
  | .ins _ => True
  | .lbl l => okL C l
  | .jmp l => okL C l
  | .jcc _ l => okL C l

theorem okL_mono {C C' : Nat} {l : FL} (h : okL C l) (hc : C ≤ C') : okL C' l := by
  cases l with
  | x l => exact Nat.lt_of_lt_of_le h hc
  | s l => trivial

theorem okI_mono {C C' : Nat} {i : FI} (h : okI C i) (hc : C ≤ C') : okI C' i := by
  cases i <;> first | trivial | exact okL_mono h hc

theorem SL.code_inj {a b : SL} (h : a.code = b.code) : a = b := by
  cases a <;> cases b <;> simp only [SL.code] at h <;> first | rfl | (congr 1; omega) | omega

/-- the renaming is injective on labels whose X86Jump numbers are below `C` -/
theorem encL_inj {C : Nat} {a b : FL} (ha : okL C a) (hb : okL C b) (h : encL C a = encL C b) : a = b := by
  cases a with
  | x la =>
    cases b with
    | x lb => exact congrArg FL.x h
    | s sb =>
      simp only [encL] at h
      simp only [okL] at ha
      rw [h] at ha
      simp only at ha
      omega
  | s sa =>
    cases b with
    | x lb =>
      simp only [encL] at h
      simp only [okL] at hb
      rw [← h] at hb
      simp only at hb
      omega
    | s sb =>
      simp only [encL, Lbl.mk.injEq, true_and] at h
      exact congrArg FL.s (SL.code_inj (by omega))

/-- a number above every X86Jump label number occurring in the program -/
def lblBound : FL → Nat
  | .x l => l.n + 1
  | .s _ => 0

def insBound : FI → Nat
  | .ins _ => 0
  | .lbl l => lblBound l
  | .jmp l => lblBound l
  | .jcc _ l => lblBound l

def bound : List FI → Nat
  | [] => 0
  | i :: r => max (insBound i) (bound r)

theorem okL_lblBound (l : FL) : okL (lblBound l) l := by
  cases l with
  | x l => exact Nat.lt_succ_self _
  | s l => trivial

theorem okI_insBound (i : FI) : okI (insBound i) i := by
  cases i <;> first | trivial | exact okL_lblBound _

theorem okI_bound {p : List FI} {i : FI} (h : i ∈ p) : okI (bound p) i := by
  induction p with
  | nil => simp at h
  | cons x r ih =>
    rcases List.mem_cons.1 h with rfl | h
    · exact okI_mono (okI_insBound _) (Nat.le_max_left _ _)
    · exact okI_mono (ih h) (Nat.le_max_right _ _)

/-- label resolution by position commutes with the renaming -/
theorem findLblF_enc {C : Nat} (p : List FI) (l : FL) (hp : ∀ i ∈ p, okI C i) (hl : okL C l) :
    findLbl (p.map (enc C)) (encL C l) = findLblF p l := by
  induction p with
  | nil => rfl
  | cons x r ih =>
    have ihr := ih (fun i hi => hp i (List.mem_cons_of_mem _ hi))
    cases x with
    | ins i => simp [enc, findLbl, findLblF, ihr]
    | jmp l' => simp [enc, findLbl, findLblF, ihr]
    | jcc c l' => simp [enc, findLbl, findLblF, ihr]
    | lbl l' =>
      have hl' : okL C l' := hp (.lbl l') (List.mem_cons_self ..)
      by_cases e : l' = l
      · subst e; simp [enc, findLbl, findLblF]
      · have : encL C l' ≠ encL C l := fun h => e (encL_inj hl' hl h)
        simp [enc, findLbl, findLblF, e, this, ihr]

theorem stepF_enc {C : Nat} (p : List FI) (hp : ∀ i ∈ p, okI C i) (pc : Nat) (s : State) :
    stepJ (p.map (enc C)) pc s = stepF p pc s := by
  unfold stepJ stepF
  rw [List.getElem?_map]
  cases h : p[pc]? with
  | none => rfl
  | some i =>
    have hi : okI C i := hp i (List.mem_of_getElem? h)
    cases i with
    | ins i => rfl
    | lbl l => rfl
    | jmp l => simp only [Option.map_some, enc]; rw [findLblF_enc p l hp hi]
    | jcc c l => simp only [Option.map_some, enc]; rw [findLblF_enc p l hp hi]

theorem runF_enc {C : Nat} (p : List FI) (hp : ∀ i ∈ p, okI C i) : ∀ (fuel pc : Nat) (s : State),
    runJ fuel (p.map (enc C)) pc s = runF fuel p pc s := by
  intro fuel
  induction fuel with
  | zero => intro pc s; simp [runJ, runF]
  | succ f ih =>
    intro pc s
    simp only [runJ, runF, List.length_map, stepF_enc p hp]
    split
    · rfl
    · cases stepF p pc s with
      | none => rfl
      | some x => exact ih x.1 x.2

/-- **the machine of Model/C03Fun is the machine of Model/X86Jump**, for every program -/
theorem runF_eq_runJ (p : List FI) (fuel pc : Nat) (s : State) :
    runF fuel p pc s = runJ fuel (p.map (enc (bound p))) pc s :=
  (runF_enc p (fun _ hi => okI_bound hi) fuel pc s).symm

theorem defs_enc (C : Nat) (p : List FI) : defs (p.map (enc C)) = (defsF p).map (encL C) := by
  induction p with
  | nil => rfl
  | cons x r ih => cases x <;> simp [enc, defs, defsF, ih]

theorem mem_defsF {p : List FI} {l : FL} (h : l ∈ defsF p) : FI.lbl l ∈ p := by
  induction p with
  | nil => simp [defsF] at h
  | cons x r ih =>
    cases x with
    | lbl l' =>
      simp only [defsF, List.mem_cons] at h
      rcases h with rfl | h
      · exact List.mem_cons_self ..
      · exact List.mem_cons_of_mem _ (ih h)
    | ins i => exact List.mem_cons_of_mem _ (ih (by simpa [defsF] using h))
    | jmp l' => exact List.mem_cons_of_mem _ (ih (by simpa [defsF] using h))
    | jcc c l' => exact List.mem_cons_of_mem _ (ih (by simpa [defsF] using h))

/-- freshness carries over to the renamed program -/
theorem nodup_enc (p : List FI) (h : (defsF p).Nodup) : (defs (p.map (enc (bound p)))).Nodup := by
  rw [defs_enc]
  have hok : ∀ l ∈ defsF p, okL (bound p) l := fun l hl => okI_bound (mem_defsF hl)
  unfold List.Nodup at h ⊢
  rw [List.pairwise_map]
  exact h.imp_of_mem (fun {a b} ha hb hne e => hne (encL_inj (hok a ha) (hok b hb) e))

theorem enc_emb (C : Nat) (c : List JI) : (embs c).map (enc C) = c := by
  induction c with
  | nil => rfl
  | cons x r ih =>
    simp only [embs, List.map_cons] at ih ⊢
    rw [ih]
    cases x <;> rfl

/-! ### reachability -/

/-- from `x` the program reaches `y` in some number of steps -/
def Reach (p : List JI) (x y : Nat × State) : Prop := ∃ n, stepsJ p n x = some y

theorem Reach.refl (p : List JI) (x : Nat × State) : Reach p x x := ⟨0, rfl⟩

theorem Reach.trans {p : List JI} {x y z : Nat × State} (h1 : Reach p x y) (h2 : Reach p y z) : Reach p x z := by
  obtain ⟨n1, r1⟩ := h1
  obtain ⟨n2, r2⟩ := h2
  exact ⟨n1 + n2, by rw [stepsJ_add, r1]; exact r2⟩

theorem Reach.step {p : List JI} {pc pc' : Nat} {s s' : State} (h : stepJ p pc s = some (pc', s')) :
    Reach p (pc, s) (pc', s') := ⟨1, by simp [stepsJ, h]⟩

theorem reach_of_exec {p : List JI} {pc pc' : Nat} {s s' : State} (h : Exec p pc s pc' s') : Reach p (pc, s) (pc', s') := by
  obtain ⟨_, n, _, r⟩ := h
  exact ⟨n, r⟩

/-- a run that ends past the last line is what `runJ` computes with some fuel -/
theorem Reach.runJ {p : List JI} {pc pc' : Nat} {s s' : State} (h : Reach p (pc, s) (pc', s')) (hl : p.length ≤ pc') :
    ∃ fuel, runJ fuel p pc s = some s' := by
  obtain ⟨n, r⟩ := h
  exact ⟨n, runJ_of_steps p n n pc s pc' s' r hl (Nat.le_refl _)⟩

/-- a label definition is a no-op -/
theorem lbl_step {p : List JI} {pos : Nat} {l : Lbl} (h : p[pos]? = some (.lbl l)) (s : State) :
    Reach p (pos, s) (pos + 1, s) := Reach.step (by simp [stepJ, h])

/-- `jmp l` goes to the line `l:` (anywhere in the program, forwards or backwards) -/
theorem jmp_to {p : List JI} {pos t : Nat} {l : Lbl} (hn : (defs p).Nodup) (h : p[pos]? = some (.jmp l))
    (ht : p[t]? = some (.lbl l)) (s : State) : Reach p (pos, s) (t, s) :=
  Reach.step (by simp [stepJ, h, findLbl_at hn ht])

theorem cmpZeroSeq_length (t : ITy) : (cmpZeroSeq t).length = 1 := by rw [cmpZeroSeq_eq]; rfl

/-- a conditional jump whose condition holds goes to the line `l:` (forwards or backwards) -/
theorem jcc_taken {p : List JI} {pos t : Nat} {c : CC} {l : Lbl} (hn : (defs p).Nodup) (h : p[pos]? = some (.jcc c l))
    (ht : p[t]? = some (.lbl l)) {s : State} (hv : s.flagsValid = true) (hc : s.cond c = true) : Reach p (pos, s) (t, s) :=
  Reach.step (by simp [stepJ, h, hv, hc, findLbl_at hn ht])

theorem jcc_fall {p : List JI} {pos : Nat} {c : CC} {l : Lbl} (h : p[pos]? = some (.jcc c l))
    {s : State} (hv : s.flagsValid = true) (hc : s.cond c = false) : Reach p (pos, s) (pos + 1, s) :=
  Reach.step (by simp [stepJ, h, hv, hc])

/-- `cmp_zero(ty)` on a register that represents `v`: one line; the flags are defined, ZF iff `v = 0`; memory, `%rsp`,
    `%rbp` unchanged -/
theorem cmpz_reach {p : List JI} {pos : Nat} (ty : ITy) (v : Int) (s : State) (hat : At p pos (J (cmpZeroSeq ty)))
    (hr : Represents ty (s.get .rax) v) :
    ∃ s', Same s s' ∧ s'.flagsValid = true ∧ s'.zf = decide (v = 0) ∧ Reach p (pos, s) (pos + 1, s') := by
  obtain ⟨s1, r1, v1, z1, sm1, _⟩ := cmpz_run ty s v hr
  have e1 := reach_of_exec (Exec.ins hat r1)
  rw [cmpZeroSeq_length] at e1
  exact ⟨s1, sm1, v1, z1, e1⟩

/-- `cmp_zero(ty); je l`: to the line `l:` if `v = 0`, else to the next line -/
theorem je_reach {p : List JI} {pos t : Nat} {l : Lbl} (hn : (defs p).Nodup) (ty : ITy) (v : Int) (s : State)
    (hat : At p pos (J (cmpZeroSeq ty) ++ [JI.jcc .e l])) (ht : p[t]? = some (.lbl l)) (hr : Represents ty (s.get .rax) v) :
    ∃ s', Same s s' ∧ Reach p (pos, s) (if v = 0 then t else pos + 2, s') := by
  rw [At_append, length_J, cmpZeroSeq_length] at hat
  obtain ⟨s1, sm1, v1, z1, e1⟩ := cmpz_reach ty v s hat.1 hr
  refine ⟨s1, sm1, e1.trans ?_⟩
  by_cases hv : v = 0
  · simp only [hv, if_true]
    exact jcc_taken hn hat.2.1 ht v1 (by simp [State.cond, z1, hv])
  · simp only [hv, if_false]
    exact jcc_fall hat.2.1 v1 (by simp [State.cond, z1, hv])

/-- `cmp_zero(ty); jne l`: to the line `l:` if `v ≠ 0`, else to the next line -/
theorem jne_reach {p : List JI} {pos t : Nat} {l : Lbl} (hn : (defs p).Nodup) (ty : ITy) (v : Int) (s : State)
    (hat : At p pos (J (cmpZeroSeq ty) ++ [JI.jcc .ne l])) (ht : p[t]? = some (.lbl l)) (hr : Represents ty (s.get .rax) v) :
    ∃ s', Same s s' ∧ Reach p (pos, s) (if v ≠ 0 then t else pos + 2, s') := by
  rw [At_append, length_J, cmpZeroSeq_length] at hat
  obtain ⟨s1, sm1, v1, z1, e1⟩ := cmpz_reach ty v s hat.1 hr
  refine ⟨s1, sm1, e1.trans ?_⟩
  by_cases hv : v = 0
  · simp only [hv, ne_eq, not_true_eq_false, if_false]
    exact jcc_fall hat.2.1 v1 (by simp [State.cond, z1, hv])
  · simp only [ne_eq, hv, not_false_eq_true, if_true]
    exact jcc_taken hn hat.2.1 ht v1 (by simp [State.cond, z1, hv])

end ChibiVerif.C03Fun
