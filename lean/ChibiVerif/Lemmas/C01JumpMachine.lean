/-
C01: the judgment `EvJ` — `EvX` (Lemmas/C01Machine.lean) for code with labels and jumps — and its combinators, one per node
form of `compileJ` (Model/C01ExprJ.lean).

`EvJ … code σ σ' R W k0 k1 d`: from every machine state whose frame holds `σ`, wherever `code` sits in a program with fresh
labels, execution entering `code` at its first line leaves it after its last line (going forward, in at most `code.length`
steps: `JRun`), with `R` true of `%rax`, the frame holding `σ'`, and nothing at or above `%rsp` changed but the variables `W`
and the temporaries `k0 ≤ k < k1`.

* `EvJ.of_EvX`: every `EvX` fact about straight-line code is an `EvJ` fact — the leaves (`lit`, `var`, `++`, `--`) and all
  per-node theorems are reused unchanged;
* `EvJ.then_same`, `EvJ.then_jrun`, `EvJ.weaken`, `EvJ.seq`, `EvJ.bin`, `EvJ.assign`, `EvJ.opassign`: the combinators of
  `EvX` with operands that may contain jumps (same proofs; only the way the pieces of the run are put together differs);
* `cmpz_run`: `cmp_zero` sets ZF iff the represented value is 0 (from `lognot_computes`);
* `EvJ.land_*`, `EvJ.lor_*`, `EvJ.cond_*`: ND_LOGAND / ND_LOGOR / ND_COND, one lemma per path through the code.
-/
import ChibiVerif.Lemmas.C01Jump
import ChibiVerif.Lemmas.C01Machine
import ChibiVerif.Model.C01ExprJ

namespace ChibiVerif.C01
open ChibiVerif.X86 ChibiVerif.Asm ChibiVerif.Spec.IntSpec ChibiVerif.Gen.CommonType ChibiVerif.C01Codegen ChibiVerif.X86J

section
variable {P : BitVec 64 → Prop} {off toff : Nat → Int} {K : Nat}

/-- **the judgment for code with jumps**.  `P` restricts the machine states to those whose `%rbp` satisfies it (`fun _ => True`
    for expressions over variables; `· = bp` when the store holds absolute addresses of the frame: Lemmas/C01Lvalue.lean);
    `%rbp` never changes, so every combinator passes it on. -/
def EvJ (P : BitVec 64 → Prop) (off toff : Nat → Int) (K : Nat) (code : List JI) (σ σ' : Env) (R : BitVec 64 → Prop) (W : List Nat)
    (k0 k1 d : Nat) : Prop :=
  σ'.tys = σ.tys ∧
  ∀ (m : State) (n B : Nat), P (m.get .rbp) → Lay σ.tys off toff K B (m.get .rbp) → d ≤ n → 8 * n ≤ (m.get .rsp).toNat →
    (m.get .rsp).toNat ≤ B → Holds off σ m →
    ∃ m', JRun code m m' ∧ R (m'.get .rax) ∧ Holds off σ' m' ∧ Unch σ.tys off toff W k0 k1 m m'

/-- every fact about straight-line code carries over -/
theorem EvJ.of_EvX {c : List Ins} {σ σ' : Env} {R : BitVec 64 → Prop} {W : List Nat} {k0 k1 d : Nat}
    (h : EvX off toff K c σ σ' R W k0 k1 d) : EvJ P off toff K (J c) σ σ' R W k0 k1 d := by
  refine ⟨h.1, ?_⟩
  intro m n B _ l hd hsp hB hH
  obtain ⟨m1, r1, p1, H1, u1⟩ := h.2 m n B l hd hsp hB hH
  exact ⟨m1, JRun.ins r1, p1, H1, u1⟩

/-- continue with a piece of code (possibly with jumps) that only touches registers and flags -/
theorem EvJ.then_jrun {c c2 : List JI} {σ σ' : Env} {R R2 : BitVec 64 → Prop} {W : List Nat} {k0 k1 d : Nat}
    (h : EvJ P off toff K c σ σ' R W k0 k1 d)
    (h2 : ∀ s, R (s.get .rax) → ∃ s', JRun c2 s s' ∧ R2 (s'.get .rax) ∧ Same s s') :
    EvJ P off toff K (c ++ c2) σ σ' R2 W k0 k1 d := by
  refine ⟨h.1, ?_⟩
  intro m n B hP l hd hsp hB hH
  obtain ⟨m1, r1, p1, H1, u1⟩ := h.2 m n B hP l hd hsp hB hH
  obtain ⟨m2, r2, p2, s2⟩ := h2 m1 p1
  exact ⟨m2, JRun.append r1 r2, p2, H1.same s2, u1.trans (s2.unch _ _ _)⟩

theorem EvJ.then_same {c : List JI} {c2 : List Ins} {σ σ' : Env} {R R2 : BitVec 64 → Prop} {W : List Nat} {k0 k1 d : Nat}
    (h : EvJ P off toff K c σ σ' R W k0 k1 d)
    (h2 : ∀ s, R (s.get .rax) → ∃ s', X86.run c2 s = some s' ∧ R2 (s'.get .rax) ∧ Same s s') :
    EvJ P off toff K (c ++ J c2) σ σ' R2 W k0 k1 d :=
  h.then_jrun (fun s hs => by obtain ⟨s', r, p, sm⟩ := h2 s hs; exact ⟨s', JRun.ins r, p, sm⟩)

theorem EvJ.weaken {c : List JI} {σ σ' : Env} {R : BitVec 64 → Prop} {W W' : List Nat} {k0 k1 k0' k1' d d' : Nat}
    (h : EvJ P off toff K c σ σ' R W k0 k1 d) (hs : ∀ i, i ∈ W → i ∈ W') (h0 : k0' ≤ k0) (h1 : k1 ≤ k1') (hd : d ≤ d') :
    EvJ P off toff K c σ σ' R W' k0' k1' d' := by
  refine ⟨h.1, ?_⟩
  intro m n B hP l hdn hsp hB hH
  obtain ⟨m1, r1, p1, H1, u1⟩ := h.2 m n B hP l (by omega) hsp hB hH
  exact ⟨m1, r1, p1, H1, u1.mono hs h0 h1⟩

/-- a weaker postcondition on `%rax` -/
theorem EvJ.post {c : List JI} {σ σ' : Env} {R R2 : BitVec 64 → Prop} {W : List Nat} {k0 k1 d : Nat}
    (h : EvJ P off toff K c σ σ' R W k0 k1 d) (hr : ∀ r, R r → R2 r) : EvJ P off toff K c σ σ' R2 W k0 k1 d := by
  refine ⟨h.1, ?_⟩
  intro m n B hP l hdn hsp hB hH
  obtain ⟨m1, r1, p1, H1, u1⟩ := h.2 m n B hP l hdn hsp hB hH
  exact ⟨m1, r1, hr _ p1, H1, u1⟩

theorem EvJ.seq {ca cb : List JI} {σ σ1 σ2 : Env} {Ra Rb : BitVec 64 → Prop} {Wa Wb : List Nat}
    {k0 k1 ka0 ka1 kb0 kb1 da db : Nat}
    (ha : EvJ P off toff K ca σ σ1 Ra Wa ka0 ka1 da) (hb : EvJ P off toff K cb σ1 σ2 Rb Wb kb0 kb1 db)
    (hk : k0 ≤ ka0 ∧ ka1 ≤ k1 ∧ k0 ≤ kb0 ∧ kb1 ≤ k1) :
    EvJ P off toff K (ca ++ cb) σ σ2 Rb (Wa ++ Wb) k0 k1 (max da db) := by
  refine ⟨hb.1.trans ha.1, ?_⟩
  intro m n B hP l hd hsp hB hH
  obtain ⟨m1, r1, _, H1, u1⟩ := ha.2 m n B hP l (by omega) hsp hB hH
  have l1 : Lay σ1.tys off toff K B (m1.get .rbp) := by rw [ha.1, u1.rbp]; exact l
  obtain ⟨m2, r2, p2, H2, u2⟩ := hb.2 m1 n B (by rw [u1.rbp]; exact hP) l1 (by omega) (by rw [u1.rsp]; exact hsp) (by rw [u1.rsp]; exact hB) H1
  rw [ha.1] at u2
  exact ⟨m2, JRun.append r1 r2, p2, H2,
    (u1.mono (fun i hi => List.mem_append_left _ hi) hk.1 hk.2.1).trans
      (u2.mono (fun i hi => List.mem_append_right _ hi) hk.2.2.1 hk.2.2.2)⟩

/-- **binary node**, operands possibly with jumps: right operand, `push`, left operand one slot deeper, `pop %rdi`, operator -/
theorem EvJ.bin {cr cl : List JI} {cop : List Ins} {σ σr σl : Env} {Rr Rl Rres : BitVec 64 → Prop} {Wr Wl : List Nat}
    {k0 k1 kr0 kr1 kl0 kl1 dr dl : Nat}
    (hr : EvJ P off toff K cr σ σr Rr Wr kr0 kr1 dr) (hl : EvJ P off toff K cl σr σl Rl Wl kl0 kl1 dl)
    (hop : ∀ s, Rl (s.get .rax) → Rr (s.get .rdi) → ∃ s', X86.run cop s = some s' ∧ Rres (s'.get .rax) ∧ Same s s')
    (hk : k0 ≤ kr0 ∧ kr1 ≤ k1 ∧ k0 ≤ kl0 ∧ kl1 ≤ k1) (hK : k1 ≤ K) :
    EvJ P off toff K (cr ++ (JI.ins iPush :: (cl ++ (JI.ins iPopRdi :: J cop)))) σ σl Rres (Wr ++ Wl) k0 k1 (max dr (dl + 1)) := by
  refine ⟨hl.1.trans hr.1, ?_⟩
  intro m n B hP l hd hsp hB hH
  obtain ⟨n', rfl⟩ : ∃ n', n = n' + 1 := ⟨n - 1, by omega⟩
  obtain ⟨m1, r1, p1, H1, u1⟩ := hr.2 m (n' + 1) B hP l (by omega) hsp hB hH
  have h8 : 8 ≤ (m1.get .rsp).toNat := by rw [u1.rsp]; omega
  obtain ⟨m2, r2, sp2, bp2, ax2, top2, spn2, mem2⟩ := push_rax m1 h8
  have l1 : Lay σr.tys off toff K B (m1.get .rbp) := by rw [hr.1, u1.rbp]; exact l
  have H2 : Holds off σr m2 := H1.of_ge l1 bp2 (fun x hx => mem2 x (Or.inr (by rw [u1.rsp]; omega)))
  have l2 : Lay σr.tys off toff K B (m2.get .rbp) := by rw [bp2]; exact l1
  obtain ⟨m3, r3, p3, H3, u3⟩ :=
    hl.2 m2 n' B (by rw [bp2, u1.rbp]; exact hP) l2 (by omega) (by rw [spn2, u1.rsp]; omega) (by rw [spn2, u1.rsp]; omega) H2
  obtain ⟨m4, r4, di4, sp4, bp4, ax4, mem4⟩ := pop_rdi m3
  have htop : m3.read64 (m3.get .rsp) = m1.get .rax := by
    rw [u3.rsp, sp2, ← top2]
    refine (read_congr m2 m3 _ ?_).2.2.2
    intro k hk
    have hx : ((m1.get .rsp - 8) + BitVec.ofNat 64 k).toNat = (m1.get .rsp).toNat - 8 + k := by
      rw [toNat_add_ofNat _ _ (by have := (m1.get .rsp).isLt; rw [← sp2, spn2]; omega), ← sp2, spn2]
    have hlt : ((m1.get .rsp - 8) + BitVec.ofNat 64 k).toNat < B := by rw [hx, u1.rsp]; omega
    exact u3.mem _ (by rw [hx, spn2]; omega) (l2.not_inVar _ _ hlt) (l2.not_inTmp _ _ (by omega) _ hlt)
  obtain ⟨m5, r5, p5, s5⟩ := hop m4 (by rw [ax4]; exact p3) (by rw [di4, htop]; exact p1)
  have l3 : Lay σl.tys off toff K B (m3.get .rbp) := by rw [hl.1, u3.rbp]; exact l2
  have H5 : Holds off σl m5 := (H3.of_ge l3 bp4 (fun x _ => congrFun mem4 x)).same s5
  refine ⟨m5, JRun.append r1 (JRun.cons_ins (step_of_run_single r2)
    (JRun.append r3 (JRun.cons_ins (step_of_run_single r4) (JRun.ins r5)))), p5, H5, ?_⟩
  refine ⟨?_, ?_, ?_⟩
  · rw [s5.rsp, sp4, u3.rsp, sp2, u1.rsp, sub8_add8]
  · rw [s5.rbp, bp4, u3.rbp, bp2, u1.rbp]
  · intro x hx hv ht
    have hx1 : (m1.get .rsp).toNat ≤ x.toNat := by rw [u1.rsp]; exact hx
    rw [congrFun s5.mem x, congrFun mem4 x]
    rw [u3.mem x (by rw [spn2]; omega)
      (by rw [hr.1, bp2, u1.rbp]; exact fun hh => hv (inVar_mono hh (fun i hi => List.mem_append_right _ hi)))
      (by rw [bp2, u1.rbp]; exact fun hh => ht (inTmp_mono hh hk.2.2.1 hk.2.2.2))]
    rw [mem2 x (Or.inr hx1)]
    exact u1.mem x hx (fun hh => hv (inVar_mono hh (fun i hi => List.mem_append_left _ hi)))
      (fun hh => ht (inTmp_mono hh hk.1 hk.2.1))

/-- **assignment to a variable**, value possibly computed with jumps -/
theorem EvJ.assign {c : List JI} {σ σ1 : Env} {W : List Nat} {k0 k1 d i : Nat} {ti : ITy} {v' : Int}
    (hti : σ.tys[i]? = some ti) (he : EvJ P off toff K c σ σ1 (fun r => Represents ti r v') W k0 k1 d) (hK : k1 ≤ K) :
    EvJ P off toff K (JI.ins (iLea (off i)) :: JI.ins iPush :: (c ++ J (storeSeq ti))) σ (σ1.set i v')
      (fun r => Represents ti r v') (i :: W) k0 k1 (d + 1) := by
  refine ⟨he.1, ?_⟩
  intro m n B hP l hd hsp hB hH
  obtain ⟨n', rfl⟩ : ∃ n', n = n' + 1 := ⟨n - 1, by omega⟩
  have sa : Same m (m.set .rax (m.ea (off i) .rbp)) := same_set _ _ _ rfl
  have h8 : 8 ≤ ((m.set .rax (m.ea (off i) .rbp)).get .rsp).toNat := by rw [sa.rsp]; omega
  obtain ⟨m2, r2, sp2, bp2, ax2, top2, spn2, mem2⟩ := push_rax _ h8
  rw [sa.rsp] at sp2 spn2 top2 mem2
  rw [sa.rbp] at bp2
  rw [State.get_set_same] at top2
  have H2 : Holds off σ m2 := hH.of_ge l bp2 (fun x hx => (mem2 x (Or.inr (by omega))).trans (congrFun sa.mem x))
  have l2 : Lay σ.tys off toff K B (m2.get .rbp) := by rw [bp2]; exact l
  obtain ⟨m3, r3, p3, H3, u3⟩ := he.2 m2 n' B (by rw [bp2]; exact hP) l2 (by omega) (by rw [spn2]; omega) (by rw [spn2]; omega) H2
  have htop : m3.read64 (m3.get .rsp) = m.ea (off i) .rbp := by
    rw [u3.rsp, sp2, ← top2]
    refine (read_congr m2 m3 _ ?_).2.2.2
    intro k hk
    have hx : ((m.get .rsp - 8) + BitVec.ofNat 64 k).toNat = (m.get .rsp).toNat - 8 + k := by
      rw [toNat_add_ofNat _ _ (by have := (m.get .rsp).isLt; rw [← sp2, spn2]; omega), ← sp2, spn2]
    have hlt : ((m.get .rsp - 8) + BitVec.ofNat 64 k).toNat < B := by rw [hx]; omega
    exact u3.mem _ (by rw [hx, spn2]; omega) (l2.not_inVar _ _ hlt) (l2.not_inTmp _ _ hK _ hlt)
  have hlo := l.var_lo i ti hti
  obtain ⟨m4, r4, hm4, ax4, sp4, bp4, mem4⟩ := store_run ti m3 _ v' htop p3 hlo.2
  have l3 : Lay σ1.tys off toff K B (m3.get .rbp) := by rw [he.1, u3.rbp]; exact l2
  have hea : addrOf (m3.get .rbp) (off i) = m.ea (off i) .rbp := by rw [u3.rbp, bp2]; rfl
  have H4 : Holds off (σ1.set i v') m4 :=
    H3.set l3 (by rw [he.1]; exact hti) bp4 (by rw [hea]; exact hm4) (fun x _ hx => mem4 x (by rw [hea] at hx; exact hx))
  refine ⟨m4, JRun.cons_ins (lea_step _ _) (JRun.cons_ins (step_of_run_single r2) (JRun.append r3 (JRun.ins r4))),
    by rw [ax4]; exact p3, H4, ?_⟩
  refine ⟨?_, ?_, ?_⟩
  · rw [sp4, u3.rsp, sp2, sub8_add8]
  · rw [bp4, u3.rbp, bp2]
  · intro x hx hv ht
    have hnot : x.toNat < (m.ea (off i) .rbp).toNat ∨ (m.ea (off i) .rbp).toNat + ti.size ≤ x.toNat := by
      by_cases h1 : x.toNat < (m.ea (off i) .rbp).toNat
      · exact Or.inl h1
      · by_cases h2 : (m.ea (off i) .rbp).toNat + ti.size ≤ x.toNat
        · exact Or.inr h2
        · exact absurd ⟨i, ti, List.mem_cons_self, hti, by rw [← ea_rbp]; omega, by rw [← ea_rbp]; omega⟩ hv
    rw [mem4 x hnot]
    rw [u3.mem x (by rw [spn2]; omega)
      (by rw [bp2]; exact fun hh => hv (inVar_mono hh (fun j hj => List.mem_cons_of_mem _ hj)))
      (by rw [bp2]; exact ht)]
    rw [mem2 x (Or.inr hx)]
    exact congrFun sa.mem x

/-- the code of `opAssignCodeJ`, with the conversion of the right operand as a parameter -/
def opAssignNFJ (nk : NK) (ti t tres : ITy) (offA tmp : Int) (cB : List JI) (castB : List Ins) : List JI :=
  J ([iLea tmp, iPush, iLea offA] ++ storeSeq .u64) ++ (J (iLea tmp :: loadSeq .u64) ++ (JI.ins iPush ::
    ((cB ++ J castB) ++ (JI.ins iPush ::
      J ((iLea tmp :: loadSeq .u64) ++ (loadSeq ti ++ (castSeq ti t ++ (iPopRdi :: (opSeq nk t ++
        (castSeq tres ti ++ storeSeq ti))))))))))

theorem opAssignCodeJ_eq (nk : NK) (op : BinOp) (ti tb : ITy) (offA tmp : Int) (cB : List JI) :
    opAssignCodeJ nk op ti tb offA tmp cB =
      opAssignNFJ nk ti (binopOperandType op ti tb) (binopType op ti tb) offA tmp cB
        (if op.isShift then [] else castSeq tb (binopOperandType op ti tb)) := rfl

/-- a suffix of the access path through the temporary (`add $offset, %rax` for a member, nothing otherwise): adds `dd` to
    `%rax` and touches nothing else but registers and flags -/
def DS (dsuf : List Ins) (dd : Int) : Prop :=
  ∀ s : State, ∃ s', X86.run dsuf s = some s' ∧ s'.get .rax = s.get .rax + BitVec.ofInt 64 dd ∧ Same s s'

theorem DS.nil : DS [] 0 := fun s => ⟨s, rfl, by simp, Same.refl s⟩

/-- `lea tmp(%rbp), %rax; mov (%rax), %rax; <dsuf>`: the pointer kept in the temporary, plus the member offset -/
theorem via_load {dsuf : List Ins} {dd : Int} (hds : DS dsuf dd) (s : State) (d : Int) :
    ∃ s', X86.run (iLea d :: loadSeq .u64 ++ dsuf) s = some s' ∧
      s'.get .rax = s.read64 (addrOf (s.get .rbp) d) + BitVec.ofInt 64 dd ∧ Same s s' := by
  obtain ⟨s1, r1, a1, sm1⟩ := tmp_load s d
  obtain ⟨s2, r2, a2, sm2⟩ := hds s1
  exact ⟨s2, run_append_some r1 r2, by rw [a2, a1], sm1.trans sm2⟩

/-- the code of `*tmp = *tmp op B` resp. `(*tmp).x = (*tmp).x op B` after `tmp` has been set -/
def opAssignTail (nk : NK) (ti t tres : ITy) (tmp : Int) (dsuf : List Ins) (cB : List JI) (castB : List Ins) : List JI :=
  J (iLea tmp :: loadSeq .u64 ++ dsuf) ++ (JI.ins iPush :: ((cB ++ J castB) ++ (JI.ins iPush ::
    J ((iLea tmp :: loadSeq .u64 ++ dsuf) ++ (loadSeq ti ++ (castSeq ti t ++ (iPopRdi :: (opSeq nk t ++
      (castSeq tres ti ++ storeSeq ti)))))))))

/-- **`*tmp = *tmp op B`** from a state in which the hidden temporary `kt` holds `ap`, the address of the object `i` minus the
    member offset `dd`: the right operand (with its side effects), the load through `tmp`, the operator, the conversion and the
    store through the pushed address -/
theorem opassign_from {cB : List JI} {castB dsuf : List Ins} {σ0 σ1 : Env} {W : List Nat} {k0 k1 kt d i : Nat}
    {ti tb t tres : ITy} {x vb y dd : Int} {nk : NK} {Rr : BitVec 64 → Prop}
    (hti : σ0.tys[i]? = some ti)
    (heB : EvJ P off toff K cB σ0 σ1 (fun r => Represents tb r vb) W k0 k1 d)
    (hcastB : ∀ s, Represents tb (s.get .rax) vb → ∃ s', X86.run castB s = some s' ∧ Rr (s'.get .rax) ∧ Same s s')
    (hx : σ1.vals[i]? = some x)
    (hop : ∀ s, Represents t (s.get .rax) (convert t x) → Rr (s.get .rdi) →
      ∃ s', X86.run (opSeq nk t) s = some s' ∧ Represents tres (s'.get .rax) y ∧ Same s s')
    (hds : DS dsuf dd) (hk : k1 ≤ kt) (hkt : kt < K)
    (m : State) (n' B : Nat) (hP : P (m.get .rbp)) (l : Lay σ0.tys off toff K B (m.get .rbp)) (hd : d ≤ n' + 1)
    (hsp : 8 * (n' + 2) ≤ (m.get .rsp).toNat) (hB : (m.get .rsp).toNat ≤ B) (hH : Holds off σ0 m)
    (ap : BitVec 64) (tmp4 : m.read64 (addrOf (m.get .rbp) (toff kt)) = ap)
    (hap : ap + BitVec.ofInt 64 dd = addrOf (m.get .rbp) (off i)) :
    ∃ m', JRun (opAssignTail nk ti t tres (toff kt) dsuf cB castB) m m' ∧ Represents ti (m'.get .rax) (convert ti y) ∧
      Holds off (σ1.set i (convert ti y)) m' ∧ Unch σ0.tys off toff (i :: W) k0 k1 m m' := by
  -- addresses
  have hT := l.tmp_lo kt hkt
  have hA := l.var_lo i ti hti
  -- address of the object through tmp, pushed
  obtain ⟨s5, r5, ax5, same5⟩ := via_load hds m (toff kt)
  rw [tmp4, hap] at ax5
  obtain ⟨s6, r6, sp6, bp6, _, top6, spn6, mem6⟩ := push_rax s5 (by rw [same5.rsp]; omega)
  rw [same5.rsp] at sp6 spn6 mem6 top6
  rw [same5.rbp] at bp6
  rw [ax5] at top6
  have l6 : Lay σ0.tys off toff K B (s6.get .rbp) := by rw [bp6]; exact l
  have H6 : Holds off σ0 s6 := by
    have l5 : Lay σ0.tys off toff K B (s5.get .rbp) := by rw [same5.rbp]; exact l
    exact (hH.same same5).of_ge l5 (by rw [bp6, same5.rbp]) (fun x hxB => mem6 x (Or.inr (by omega)))
  have tmp6 : s6.read64 (addrOf (m.get .rbp) (toff kt)) = ap := by
    rw [← tmp4]
    refine (read64_keep hT.2 (fun x h1 _ => ?_)).trans (by rw [read64_keep hT.2 (fun x _ _ => congrFun same5.mem x)])
    exact mem6 x (Or.inr (by omega))
  -- B
  obtain ⟨s7, r7, p7, H7, u7⟩ := heB.2 s6 (n' + 1) B (by rw [bp6]; exact hP) l6 (by omega) (by rw [spn6]; omega) (by rw [spn6]; omega) H6
  have slotA : (m.get .rsp - 8).toNat = (m.get .rsp).toNat - 8 := by rw [← sp6]; exact spn6
  have keep7 : ∀ a : BitVec 64, (s6.get .rsp).toNat ≤ a.toNat → a.toNat + 8 ≤ 2 ^ 64 →
      (a.toNat + 8 ≤ B ∨ a = addrOf (m.get .rbp) (toff kt)) → s7.read64 a = s6.read64 a := by
    intro a ha1 ha2 ha3
    refine read64_keep ha2 (fun x h1 h2 => u7.mem x (by omega) ?_ ?_)
    · rcases ha3 with h | h
      · exact l6.not_inVar _ _ (by omega)
      · rintro ⟨j, tj, _, htj, hj1, hj2⟩
        have := l.var_tmp j tj kt htj hkt
        unfold sep at this; rw [bp6] at hj1 hj2; rw [h] at h1 h2; omega
    · rcases ha3 with h | h
      · exact l6.not_inTmp _ _ (by omega) _ (by omega)
      · rintro ⟨k, _, hk', hj1, hj2⟩
        have := l.tmp_tmp k kt (by omega) hkt (by omega)
        unfold sep at this; rw [bp6] at hj1 hj2; rw [h] at h1 h2; omega
  have tmp7 : s7.read64 (addrOf (m.get .rbp) (toff kt)) = ap := by
    rw [keep7 _ (by rw [spn6]; omega) hT.2 (Or.inr rfl)]; exact tmp6
  have top7 : s7.read64 (m.get .rsp - 8) = addrOf (m.get .rbp) (off i) := by
    rw [keep7 _ (by rw [spn6, slotA]; omega) (by rw [slotA]; omega) (Or.inl (by rw [slotA]; omega))]; exact top6
  -- its conversion, pushed
  obtain ⟨s7', r7', p7', same7⟩ := hcastB s7 p7
  obtain ⟨s8, r8, sp8, bp8, _, top8, spn8, mem8⟩ := push_rax s7' (by rw [same7.rsp, u7.rsp, spn6]; omega)
  have rsp7' : (s7'.get .rsp).toNat = (m.get .rsp).toNat - 8 := by rw [same7.rsp, u7.rsp, spn6]
  have bp8' : s8.get .rbp = m.get .rbp := by rw [bp8, same7.rbp, u7.rbp, bp6]
  have l7 : Lay σ1.tys off toff K B (s7.get .rbp) := by rw [heB.1, u7.rbp]; exact l6
  have H8 : Holds off σ1 s8 := by
    have l7' : Lay σ1.tys off toff K B (s7'.get .rbp) := by rw [same7.rbp]; exact l7
    exact (H7.same same7).of_ge l7' bp8 (fun x hxB => mem8 x (Or.inr (by omega)))
  have keep8 : ∀ a : BitVec 64, (m.get .rsp).toNat - 8 ≤ a.toNat → a.toNat + 8 ≤ 2 ^ 64 → s8.read64 a = s7.read64 a := by
    intro a ha1 ha2
    refine (read64_keep ha2 (fun x h1 _ => mem8 x (Or.inr (by omega)))).trans
      (read64_keep ha2 (fun x _ _ => congrFun same7.mem x))
  have tmp8 : s8.read64 (addrOf (s8.get .rbp) (toff kt)) = ap := by
    rw [bp8', keep8 _ (by omega) hT.2]; exact tmp7
  -- the object through tmp, loaded and converted
  obtain ⟨s9, r9, ax9, same9⟩ := via_load hds s8 (toff kt)
  rw [tmp8, hap] at ax9
  have hm9 : MemHolds ti s9 (s9.get .rax) x := by
    rw [ax9]
    have := H8 i ti x (by rw [heB.1]; exact hti) hx
    rw [bp8'] at this
    exact memHolds_congr ti s8 s9 _ x (fun _ _ => by rw [same9.mem]) this
  obtain ⟨s10, r10, p10, _⟩ := load_ok ti s9 x hm9
  have same10 := run_safe _ _ _ (loadSeq_safe ti) r10
  obtain ⟨s11, r11, p11, same11⟩ := cast_run ti t s10 x p10
  have same8_11 : Same s8 s11 := (same9.trans same10).trans same11
  -- pop, operator, conversion to the object's type
  obtain ⟨s12, r12, di12, sp12, bp12, ax12, mem12⟩ := pop_rdi s11
  have hdi : Rr (s12.get .rdi) := by
    rw [di12, same8_11.rsp, sp8]
    have : s11.read64 (s7'.get .rsp - 8) = s8.read64 (s7'.get .rsp - 8) :=
      read64_keep (by have := (s7'.get .rsp).isLt; rw [← sp8, spn8]; omega) (fun x _ _ => congrFun same8_11.mem x)
    rw [this, top8]; exact p7'
  obtain ⟨s13, r13, p13, same13⟩ := hop s12 (by rw [ax12]; exact p11) hdi
  obtain ⟨s14, r14, p14, same14⟩ := cast_run tres ti s13 y p13
  -- store through the pushed address
  have mem14 : s14.mem = s8.mem := by rw [same14.mem, same13.mem, mem12, same8_11.mem]
  have rsp14 : s14.get .rsp = m.get .rsp - 8 := by
    rw [same14.rsp, same13.rsp, sp12, same8_11.rsp, sp8, sub8_add8, same7.rsp, u7.rsp, sp6]
  have bp14 : s14.get .rbp = m.get .rbp := by rw [same14.rbp, same13.rbp, bp12, same8_11.rbp, bp8']
  have htop14 : s14.read64 (s14.get .rsp) = addrOf (m.get .rbp) (off i) := by
    rw [rsp14]
    have : s14.read64 (m.get .rsp - 8) = s8.read64 (m.get .rsp - 8) :=
      read64_keep (by rw [slotA]; omega) (fun x _ _ => by rw [mem14])
    rw [this, keep8 _ (by rw [slotA]; omega) (by rw [slotA]; omega)]; exact top7
  obtain ⟨s15, r15, hm15, ax15, sp15, bp15, mem15⟩ := store_run ti s14 _ (convert ti y) htop14 p14 hA.2
  have H14 : Holds off σ1 s14 := by
    have l8 : Lay σ1.tys off toff K B (s8.get .rbp) := by rw [heB.1, bp8']; exact l
    exact H8.of_ge l8 (by rw [bp14, bp8']) (fun x _ => by rw [mem14])
  have l14 : Lay σ1.tys off toff K B (s14.get .rbp) := by rw [heB.1, bp14]; exact l
  have H15 : Holds off (σ1.set i (convert ti y)) s15 :=
    H14.set l14 (by rw [heB.1]; exact hti) bp15 (by rw [bp14]; exact hm15)
      (fun x _ hx => mem15 x (by rw [bp14] at hx; exact hx))
  refine ⟨s15, ?_, by rw [ax15]; exact p14, H15, ?_⟩
  · unfold opAssignTail
    exact JRun.append (JRun.ins r5) (JRun.cons_ins (step_of_run_single r6) (JRun.append
      (JRun.append r7 (JRun.ins r7')) (JRun.cons_ins (step_of_run_single r8) (JRun.ins (run_append_some r9
        (run_append_some r10 (run_append_some r11 (run_cons_some (step_of_run_single r12) (run_append_some r13
          (run_append_some r14 r15))))))))))
  · refine ⟨?_, ?_, ?_⟩
    · rw [sp15, rsp14, sub8_add8]
    · rw [bp15, bp14]
    · intro z hz hv ht
      have hnotA : z.toNat < (addrOf (m.get .rbp) (off i)).toNat ∨ (addrOf (m.get .rbp) (off i)).toNat + ti.size ≤ z.toNat := by
        by_cases h1 : z.toNat < (addrOf (m.get .rbp) (off i)).toNat
        · exact Or.inl h1
        · by_cases h2 : (addrOf (m.get .rbp) (off i)).toNat + ti.size ≤ z.toNat
          · exact Or.inr h2
          · exact absurd ⟨i, ti, List.mem_cons_self, hti, by omega, by omega⟩ hv
      rw [mem15 z hnotA, mem14, mem8 z (Or.inr (by omega)), congrFun same7.mem z]
      rw [u7.mem z (by rw [spn6]; omega)
        (by rw [bp6]; exact fun hh => hv (inVar_mono hh (fun j hj => List.mem_cons_of_mem _ hj)))
        (by rw [bp6]; exact ht)]
      rw [mem6 z (Or.inr hz)]
      exact congrFun same5.mem z

theorem opAssignNFJ_eq (nk : NK) (ti t tres : ITy) (offA tmp : Int) (cB : List JI) (castB : List Ins) :
    opAssignNFJ nk ti t tres offA tmp cB castB =
      J ([iLea tmp, iPush, iLea offA] ++ storeSeq .u64) ++ opAssignTail nk ti t tres tmp [] cB castB := by
  simp [opAssignNFJ, opAssignTail]

/-- **`A op= B`** through the hidden pointer temporary `k1`, `B` possibly computed with jumps -/
theorem EvJ.opassign {cB : List JI} {castB : List Ins} {σ σ1 : Env} {W : List Nat} {k0 k1 d i : Nat} {ti tb t tres : ITy}
    {x vb y : Int} {nk : NK} {Rr : BitVec 64 → Prop}
    (hti : σ.tys[i]? = some ti)
    (heB : EvJ P off toff K cB σ σ1 (fun r => Represents tb r vb) W k0 k1 d)
    (hcastB : ∀ s, Represents tb (s.get .rax) vb → ∃ s', X86.run castB s = some s' ∧ Rr (s'.get .rax) ∧ Same s s')
    (hx : σ1.vals[i]? = some x)
    (hop : ∀ s, Represents t (s.get .rax) (convert t x) → Rr (s.get .rdi) →
      ∃ s', X86.run (opSeq nk t) s = some s' ∧ Represents tres (s'.get .rax) y ∧ Same s s')
    (hk0 : k0 ≤ k1) (hk1 : k1 < K) :
    EvJ P off toff K (opAssignNFJ nk ti t tres (off i) (toff k1) cB castB) σ (σ1.set i (convert ti y))
      (fun r => Represents ti r (convert ti y)) (i :: W) k0 (k1 + 1) (max (d + 1) 2) := by
  refine ⟨heB.1, ?_⟩
  intro m n B hP l hd hsp hB hH
  obtain ⟨n', rfl⟩ : ∃ n', n = n' + 2 := ⟨n - 2, by omega⟩
  have hT := l.tmp_lo k1 hk1
  -- tmp = &A
  obtain ⟨s4, r4, tmp4, sp4, bp4, mem4⟩ := tmp_store m (toff k1) (off i) (by omega) hT.2
  have H4 : Holds off σ s4 := hH.of_tmp l hk1 bp4 (fun x hxB hout => mem4 x (by omega) hout)
  -- *tmp = *tmp op B
  obtain ⟨m', r', p', H', u'⟩ := opassign_from (dsuf := []) (dd := 0) (kt := k1) hti heB hcastB hx hop DS.nil (Nat.le_refl _) hk1
    s4 n' B (by rw [bp4]; exact hP) (by rw [bp4]; exact l) (by omega) (by rw [sp4]; exact hsp) (by rw [sp4]; exact hB) H4
    (addrOf (m.get .rbp) (off i)) (by rw [bp4]; exact tmp4) (by rw [bp4]; simp)
  refine ⟨m', ?_, p', H', ?_⟩
  · rw [opAssignNFJ_eq]; exact JRun.append (JRun.ins r4) r'
  · refine ⟨by rw [u'.rsp, sp4], by rw [u'.rbp, bp4], ?_⟩
    intro z hz hv ht
    have hnotT : z.toNat < (addrOf (m.get .rbp) (toff k1)).toNat ∨ (addrOf (m.get .rbp) (toff k1)).toNat + 8 ≤ z.toNat := by
      by_cases h1 : z.toNat < (addrOf (m.get .rbp) (toff k1)).toNat
      · exact Or.inl h1
      · by_cases h2 : (addrOf (m.get .rbp) (toff k1)).toNat + 8 ≤ z.toNat
        · exact Or.inr h2
        · exact absurd ⟨k1, hk0, by omega, by omega, by omega⟩ ht
    rw [u'.mem z (by rw [sp4]; exact hz) (by rw [bp4]; exact hv)
      (by rw [bp4]; exact fun hh => ht (inTmp_mono hh (Nat.le_refl _) (by omega)))]
    exact mem4 z hz hnotT

end

/-! ### `cmp_zero` -/

theorem cmpZeroSeq_eq (t : ITy) :
    cmpZeroSeq t = [⟨"cmp", [.i 0, .r (if t.size = 8 then "%rax" else "%eax")]⟩] := by cases t <;> rfl

theorem b64_b2i_inj {c d : Bool} (h : Represents .i32 (b64 c) (b2i d)) : c = d := by
  cases c <;> cases d <;> simp [Represents, b64, b2i] at h ⊢

/-- the 32- or 64-bit zero test of `cmp_zero` decides `v = 0` for a register that represents `v` -/
theorem zero_test (t : ITy) (r : BitVec 64) (v : Int) (h : Represents t r v) :
    (if t.size = 8 then decide (r = 0) else decide (r.setWidth 32 = 0)) = decide (v = 0) := by
  cases t <;> exact b64_b2i_inj (lognot_computes _ r v h)

/-- **`cmp_zero(ty)`**: `cmp $0, %eax` (types of at most 4 bytes) / `cmp $0, %rax` leaves the flags defined with ZF set iff
    the value is 0, and changes nothing else -/
theorem cmpz_run (t : ITy) (s : State) (v : Int) (h : Represents t (s.get .rax) v) :
    ∃ s', X86.run (cmpZeroSeq t) s = some s' ∧ s'.flagsValid = true ∧ s'.zf = decide (v = 0) ∧ Same s s' ∧
      s'.get .rax = s.get .rax := by
  have hz := zero_test t (s.get .rax) v h
  rw [cmpZeroSeq_eq]
  by_cases h8 : t.size = 8
  · simp only [h8, if_true] at hz ⊢
    refine ⟨_, rfl, rfl, ?_, ⟨rfl, rfl, rfl⟩, rfl⟩
    rw [← hz]
    apply Bool.eq_iff_iff.mpr
    simp [State.flags, State.src, State.getW]
  · simp only [h8, if_false] at hz ⊢
    refine ⟨_, rfl, rfl, ?_, ⟨rfl, rfl, rfl⟩, rfl⟩
    rw [← hz]
    apply Bool.eq_iff_iff.mpr
    simp [State.flags, State.src, State.getW]

/-! ### `&&`, `||`, `?:` -/

section
variable {P : BitVec 64 → Prop} {off toff : Nat → Int} {K : Nat}

theorem mov_imm_same (v : Int) (t : ITy) (hr : t.inRange v) (s : State) :
    ∃ s', X86.run [iMovImm v] s = some s' ∧ Represents t (s'.get .rax) v ∧ Same s s' := by
  refine ⟨s.set .rax (BitVec.ofInt 64 (immOf v)), run_cons_some (movimm_step _ _) rfl, ?_, same_set _ _ _ rfl⟩
  rw [State.get_set_same]; exact lit_represents _ _ hr

/-- the tail of ND_LOGAND after the second `cmp_zero`, and of ND_LOGOR with the roles of 0 and 1 exchanged: from a state
    with defined flags, `jCC tgt; mov $a; jmp end; tgt: mov $b; end:` leaves `a` if the condition is false, `b` otherwise -/
theorem tail_run (cc : CC) (lt le : Lbl) (a b : Int) (ha : ITy.i32.inRange a) (hb : ITy.i32.inRange b) (s : State)
    (hv : s.flagsValid = true) :
    ∃ s', JRun [JI.jcc cc lt, JI.ins (iMovImm a), JI.jmp le, JI.lbl lt, JI.ins (iMovImm b), JI.lbl le] s s' ∧
      Represents .i32 (s'.get .rax) (if s.cond cc then b else a) ∧ Same s s' := by
  by_cases hc : s.cond cc = true
  · obtain ⟨s1, r1, p1, sm1⟩ := mov_imm_same b .i32 hb s
    refine ⟨s1, ?_, by simpa [hc] using p1, sm1⟩
    have j1 : JRun (JI.jcc cc lt :: ([JI.ins (iMovImm a), JI.jmp le] ++ [JI.lbl lt])) s s := JRun.jcc_skip lt _ hv hc
    have := JRun.append j1 (JRun.append (JRun.ins (is := [iMovImm b]) r1) (JRun.lbl le s1))
    simpa [J] using this
  · have hc' : s.cond cc = false := by simpa using hc
    obtain ⟨s1, r1, p1, sm1⟩ := mov_imm_same a .i32 ha s
    refine ⟨s1, ?_, by simpa [hc'] using p1, sm1⟩
    have j1 : JRun [JI.jcc cc lt] s s := JRun.jcc_fall lt hv hc'
    have j3 : JRun (JI.jmp le :: ([JI.lbl lt, JI.ins (iMovImm b)] ++ [JI.lbl le])) s1 s1 := JRun.jmp_skip le _ s1
    have := JRun.append j1 (JRun.append (JRun.ins (is := [iMovImm a]) r1) j3)
    simpa [J] using this

/-- ND_LOGAND, left operand 0: the right operand is skipped -/
theorem EvJ.land_short {ca cb : List JI} {ta tb : ITy} {σ σ1 : Env} {Wa : List Nat} {k0 k1 d c : Nat}
    (ha : EvJ P off toff K ca σ σ1 (fun r => Represents ta r 0) Wa k0 k1 d) :
    EvJ P off toff K (landCode c ta tb ca cb) σ σ1 (fun r => Represents .i32 r 0) Wa k0 k1 d := by
  unfold landCode
  refine ha.then_jrun (fun s hs => ?_)
  obtain ⟨s1, r1, v1, z1, sm1, _⟩ := cmpz_run ta s 0 hs
  obtain ⟨s2, r2, p2, sm2⟩ := mov_imm_same 0 .i32 (by decide) s1
  refine ⟨s2, ?_, p2, sm1.trans sm2⟩
  have hc : s1.cond .e = true := by simp [State.cond, z1]
  have j1 : JRun (JI.jcc .e ⟨.false_, c⟩ :: ((cb ++ (J (cmpZeroSeq tb) ++
      [JI.jcc .e ⟨.false_, c⟩, JI.ins (iMovImm 1), JI.jmp ⟨.end_, c⟩])) ++ [JI.lbl ⟨.false_, c⟩])) s1 s1 :=
    JRun.jcc_skip _ _ v1 hc
  have := JRun.append (JRun.ins r1) (JRun.append j1 (JRun.append (JRun.ins (is := [iMovImm 0]) r2) (JRun.lbl ⟨.end_, c⟩ s2)))
  simpa [J, List.append_assoc] using this

/-- ND_LOGAND, left operand not 0: the value is `b != 0` -/
theorem EvJ.land_full {ca cb : List JI} {ta tb : ITy} {va vb : Int} {σ σ1 σ2 : Env} {Wa Wb : List Nat}
    {k0 k1 ka0 ka1 kb0 kb1 da db c : Nat} (hva : va ≠ 0)
    (ha : EvJ P off toff K ca σ σ1 (fun r => Represents ta r va) Wa ka0 ka1 da)
    (hb : EvJ P off toff K cb σ1 σ2 (fun r => Represents tb r vb) Wb kb0 kb1 db)
    (hk : k0 ≤ ka0 ∧ ka1 ≤ k1 ∧ k0 ≤ kb0 ∧ kb1 ≤ k1) :
    EvJ P off toff K (landCode c ta tb ca cb) σ σ2 (fun r => Represents .i32 r (b2i (vb ≠ 0))) (Wa ++ Wb) k0 k1 (max da db) := by
  unfold landCode
  have h1 : EvJ P off toff K (ca ++ (J (cmpZeroSeq ta) ++ [JI.jcc .e ⟨.false_, c⟩])) σ σ1 (fun _ => True) Wa ka0 ka1 da := by
    refine ha.then_jrun (fun s hs => ?_)
    obtain ⟨s1, r1, v1, z1, sm1, _⟩ := cmpz_run ta s va hs
    have hc : s1.cond .e = false := by simp [State.cond, z1, hva]
    exact ⟨s1, JRun.append (JRun.ins r1) (JRun.jcc_fall _ v1 hc), trivial, sm1⟩
  have h2 : EvJ P off toff K (cb ++ (J (cmpZeroSeq tb) ++ [JI.jcc .e ⟨.false_, c⟩, JI.ins (iMovImm 1), JI.jmp ⟨.end_, c⟩,
      JI.lbl ⟨.false_, c⟩, JI.ins (iMovImm 0), JI.lbl ⟨.end_, c⟩])) σ1 σ2 (fun r => Represents .i32 r (b2i (vb ≠ 0))) Wb kb0 kb1 db := by
    refine hb.then_jrun (fun s hs => ?_)
    obtain ⟨s1, r1, v1, z1, sm1, _⟩ := cmpz_run tb s vb hs
    obtain ⟨s2, r2, p2, sm2⟩ := tail_run .e ⟨.false_, c⟩ ⟨.end_, c⟩ 1 0 (by decide) (by decide) s1 v1
    refine ⟨s2, JRun.append (JRun.ins r1) r2, ?_, sm1.trans sm2⟩
    have : (if s1.cond .e = true then (0 : Int) else 1) = b2i (vb ≠ 0) := by
      by_cases hz : vb = 0 <;> simp [State.cond, z1, hz, b2i]
    rw [← this]; exact p2
  have := EvJ.seq h1 h2 hk
  simpa [List.append_assoc] using this

/-- ND_LOGOR, left operand not 0: the right operand is skipped -/
theorem EvJ.lor_short {ca cb : List JI} {ta tb : ITy} {va : Int} {σ σ1 : Env} {Wa : List Nat} {k0 k1 d c : Nat} (hva : va ≠ 0)
    (ha : EvJ P off toff K ca σ σ1 (fun r => Represents ta r va) Wa k0 k1 d) :
    EvJ P off toff K (lorCode c ta tb ca cb) σ σ1 (fun r => Represents .i32 r 1) Wa k0 k1 d := by
  unfold lorCode
  refine ha.then_jrun (fun s hs => ?_)
  obtain ⟨s1, r1, v1, z1, sm1, _⟩ := cmpz_run ta s va hs
  obtain ⟨s2, r2, p2, sm2⟩ := mov_imm_same 1 .i32 (by decide) s1
  refine ⟨s2, ?_, p2, sm1.trans sm2⟩
  have hc : s1.cond .ne = true := by simp [State.cond, z1, hva]
  have j1 : JRun (JI.jcc .ne ⟨.true_, c⟩ :: ((cb ++ (J (cmpZeroSeq tb) ++
      [JI.jcc .ne ⟨.true_, c⟩, JI.ins (iMovImm 0), JI.jmp ⟨.end_, c⟩])) ++ [JI.lbl ⟨.true_, c⟩])) s1 s1 :=
    JRun.jcc_skip _ _ v1 hc
  have := JRun.append (JRun.ins r1) (JRun.append j1 (JRun.append (JRun.ins (is := [iMovImm 1]) r2) (JRun.lbl ⟨.end_, c⟩ s2)))
  simpa [J, List.append_assoc] using this

/-- ND_LOGOR, left operand 0: the value is `b != 0` -/
theorem EvJ.lor_full {ca cb : List JI} {ta tb : ITy} {vb : Int} {σ σ1 σ2 : Env} {Wa Wb : List Nat}
    {k0 k1 ka0 ka1 kb0 kb1 da db c : Nat}
    (ha : EvJ P off toff K ca σ σ1 (fun r => Represents ta r 0) Wa ka0 ka1 da)
    (hb : EvJ P off toff K cb σ1 σ2 (fun r => Represents tb r vb) Wb kb0 kb1 db)
    (hk : k0 ≤ ka0 ∧ ka1 ≤ k1 ∧ k0 ≤ kb0 ∧ kb1 ≤ k1) :
    EvJ P off toff K (lorCode c ta tb ca cb) σ σ2 (fun r => Represents .i32 r (b2i (vb ≠ 0))) (Wa ++ Wb) k0 k1 (max da db) := by
  unfold lorCode
  have h1 : EvJ P off toff K (ca ++ (J (cmpZeroSeq ta) ++ [JI.jcc .ne ⟨.true_, c⟩])) σ σ1 (fun _ => True) Wa ka0 ka1 da := by
    refine ha.then_jrun (fun s hs => ?_)
    obtain ⟨s1, r1, v1, z1, sm1, _⟩ := cmpz_run ta s 0 hs
    have hc : s1.cond .ne = false := by simp [State.cond, z1]
    exact ⟨s1, JRun.append (JRun.ins r1) (JRun.jcc_fall _ v1 hc), trivial, sm1⟩
  have h2 : EvJ P off toff K (cb ++ (J (cmpZeroSeq tb) ++ [JI.jcc .ne ⟨.true_, c⟩, JI.ins (iMovImm 0), JI.jmp ⟨.end_, c⟩,
      JI.lbl ⟨.true_, c⟩, JI.ins (iMovImm 1), JI.lbl ⟨.end_, c⟩])) σ1 σ2 (fun r => Represents .i32 r (b2i (vb ≠ 0))) Wb kb0 kb1 db := by
    refine hb.then_jrun (fun s hs => ?_)
    obtain ⟨s1, r1, v1, z1, sm1, _⟩ := cmpz_run tb s vb hs
    obtain ⟨s2, r2, p2, sm2⟩ := tail_run .ne ⟨.true_, c⟩ ⟨.end_, c⟩ 0 1 (by decide) (by decide) s1 v1
    refine ⟨s2, JRun.append (JRun.ins r1) r2, ?_, sm1.trans sm2⟩
    have : (if s1.cond .ne = true then (1 : Int) else 0) = b2i (vb ≠ 0) := by
      by_cases hz : vb = 0 <;> simp [State.cond, z1, hz, b2i]
    rw [← this]; exact p2
  have := EvJ.seq h1 h2 hk
  simpa [List.append_assoc] using this

/-- ND_COND, condition not 0: the second operand is evaluated, the third skipped -/
theorem EvJ.cond_then {cc ca cb : List JI} {tc : ITy} {vc : Int} {σ σ1 σ2 : Env} {R : BitVec 64 → Prop} {Wc Wa : List Nat}
    {k0 k1 kc0 kc1 ka0 ka1 dc da c : Nat} (hvc : vc ≠ 0)
    (hc : EvJ P off toff K cc σ σ1 (fun r => Represents tc r vc) Wc kc0 kc1 dc)
    (ha : EvJ P off toff K ca σ1 σ2 R Wa ka0 ka1 da)
    (hk : k0 ≤ kc0 ∧ kc1 ≤ k1 ∧ k0 ≤ ka0 ∧ ka1 ≤ k1) :
    EvJ P off toff K (condCode c tc cc ca cb) σ σ2 R (Wc ++ Wa) k0 k1 (max dc da) := by
  unfold condCode
  have h1 : EvJ P off toff K (cc ++ (J (cmpZeroSeq tc) ++ [JI.jcc .e ⟨.else_, c⟩])) σ σ1 (fun _ => True) Wc kc0 kc1 dc := by
    refine hc.then_jrun (fun s hs => ?_)
    obtain ⟨s1, r1, v1, z1, sm1, _⟩ := cmpz_run tc s vc hs
    have hcc : s1.cond .e = false := by simp [State.cond, z1, hvc]
    exact ⟨s1, JRun.append (JRun.ins r1) (JRun.jcc_fall _ v1 hcc), trivial, sm1⟩
  have h2 : EvJ P off toff K (ca ++ (JI.jmp ⟨.end_, c⟩ :: ((JI.lbl ⟨.else_, c⟩ :: cb) ++ [JI.lbl ⟨.end_, c⟩]))) σ1 σ2 R Wa ka0 ka1 da :=
    ha.then_jrun (fun s hs => ⟨s, JRun.jmp_skip _ _ s, hs, Same.refl s⟩)
  have := EvJ.seq h1 h2 hk
  simpa [List.append_assoc] using this

/-- ND_COND, condition 0: the second operand is skipped, the third evaluated -/
theorem EvJ.cond_else {cc ca cb : List JI} {tc : ITy} {σ σ1 σ2 : Env} {R : BitVec 64 → Prop} {Wc Wb : List Nat}
    {k0 k1 kc0 kc1 kb0 kb1 dc db c : Nat}
    (hc : EvJ P off toff K cc σ σ1 (fun r => Represents tc r 0) Wc kc0 kc1 dc)
    (hb : EvJ P off toff K cb σ1 σ2 R Wb kb0 kb1 db)
    (hk : k0 ≤ kc0 ∧ kc1 ≤ k1 ∧ k0 ≤ kb0 ∧ kb1 ≤ k1) :
    EvJ P off toff K (condCode c tc cc ca cb) σ σ2 R (Wc ++ Wb) k0 k1 (max dc db) := by
  unfold condCode
  have h1 : EvJ P off toff K (cc ++ (J (cmpZeroSeq tc) ++ (JI.jcc .e ⟨.else_, c⟩ :: ((ca ++ [JI.jmp ⟨.end_, c⟩]) ++ [JI.lbl ⟨.else_, c⟩]))))
      σ σ1 (fun _ => True) Wc kc0 kc1 dc := by
    refine hc.then_jrun (fun s hs => ?_)
    obtain ⟨s1, r1, v1, z1, sm1, _⟩ := cmpz_run tc s 0 hs
    have hcc : s1.cond .e = true := by simp [State.cond, z1]
    exact ⟨s1, JRun.append (JRun.ins r1) (JRun.jcc_skip _ _ v1 hcc), trivial, sm1⟩
  have h2 : EvJ P off toff K (cb ++ [JI.lbl ⟨.end_, c⟩]) σ1 σ2 R Wb kb0 kb1 db :=
    hb.then_jrun (fun s hs => ⟨s, JRun.lbl _ s, hs, Same.refl s⟩)
  have := EvJ.seq h1 h2 hk
  simpa [List.append_assoc] using this

end
end ChibiVerif.C01
