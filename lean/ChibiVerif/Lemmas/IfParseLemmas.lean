/-
Lemmas about Model/IfParse.lean, part 1: fuel `length + 1` suffices, results are located inside the input.
Core Lean only.
-/
import ChibiVerif.Model.IfParse

namespace ChibiVerif.IfParse
open ChibiVerif.PPExpr ChibiVerif.CondIncl
open ChibiVerif.Gen.C10IfParse

/-- well-behaved result for an input of `n` tokens: not the outcome "out of fuel", an `expected` diagnostic names `)` or `:`, and the tokens left over (after the tree /
    from the offending token on) are no more than the input -/
def EKok : EK → Bool
  | .fuel => false
  | .expected s => s == ")" || s == ":"
  | _ => true

def WB (r : Res) (n : Nat) : Prop :=
  match r with
  | .ok (_, rest) => rest.length ≤ n
  | .error (k, rest) => EKok k = true ∧ rest.length ≤ n

theorem WB.mono {r : Res} {n n' : Nat} (h : WB r n) (hn : n ≤ n') : WB r n' := by
  unfold WB at *
  split at h
  · exact Nat.le_trans h hn
  · exact ⟨h.1, Nat.le_trans h.2 hn⟩

/-- the recursive calls are well-behaved on every input shorter than `n` -/
def PrevOK (prev : Mode → List PTok → Res) (n : Nat) : Prop :=
  ∀ m ts, ts.length < n → WB (prev m ts) ts.length

theorem skipTok_ok {s : String} {ts r : List PTok} (h : skipTok s ts = .ok r) : ts = .punct s :: r := by
  unfold skipTok at h
  split at h
  · split at h
    · next heq => cases h; rw [heq]
    · cases h
  · cases h

theorem skipTok_err {s : String} {ts : List PTok} {e : EK × List PTok} (h : skipTok s ts = .error e) : e = (.expected s, ts) := by
  unfold skipTok at h
  split at h
  · split at h
    · cases h
    · cases h; rfl
  · cases h; rfl

section
variable (prev : Mode → List PTok → Res)

theorem primary_wb (ts : List PTok) (hp : PrevOK prev ts.length) : WB (primary prev ts) ts.length := by
  cases ts with
  | nil => exact ⟨by decide, Nat.le_refl _⟩
  | cons t r =>
    cases t with
    | num v u => exact Nat.le_succ _
    | other => exact ⟨by decide, Nat.le_refl _⟩
    | punct s =>
      unfold primary
      by_cases hs : s = "("
      · simp only [hs, if_true]
        split
        · exact ⟨by decide, Nat.le_refl _⟩
        · have h1 := hp .expr r (Nat.lt_succ_self _)
          generalize prev .expr r = res at h1
          match res, h1 with
          | .error (k, rest), h1 => exact ⟨h1.1, Nat.le_trans h1.2 (Nat.le_succ _)⟩
          | .ok (t', r'), h1 =>
            simp only
            generalize hsk : skipTok ")" r' = sk
            match sk, hsk with
            | .error e, hsk =>
              rw [skipTok_err hsk]
              exact ⟨by decide, Nat.le_trans h1 (Nat.le_succ _)⟩
            | .ok r'', hsk =>
              have := skipTok_ok hsk
              subst this
              simp only [WB, List.length_cons] at h1 ⊢
              omega
      · simp only [hs, if_false]
        exact ⟨by decide, Nat.le_refl _⟩

theorem postfixP_wb (ts : List PTok) (hp : PrevOK prev ts.length) : WB (postfixP prev ts) ts.length := by
  have h1 := primary_wb prev ts hp
  unfold postfixP
  generalize primary prev ts = res at h1
  match res, h1 with
  | .error (k, rest), h1 => exact h1
  | .ok (t, r), h1 =>
    simp only
    split
    · split
      · exact ⟨by decide, h1⟩
      · exact h1
    · exact h1

theorem unary_wb (ts : List PTok) (hp : PrevOK prev ts.length) : WB (unary prev ts) ts.length := by
  unfold unary
  split
  · next s r =>
    split
    · have h1 := hp (.lvl 0) r (Nat.lt_succ_self _)
      generalize prev (.lvl 0) r = res at h1
      match res, h1 with
      | .error (k, rest), h1 => exact ⟨h1.1, Nat.le_trans h1.2 (Nat.le_succ _)⟩
      | .ok (t, r'), h1 => exact Nat.le_trans h1 (Nat.le_succ _)
    · split
      · exact ⟨by decide, Nat.le_refl _⟩
      · exact postfixP_wb prev _ hp
  · exact postfixP_wb prev _ hp

theorem loopAt_wb (d : Nat) (node : PT) (ts : List PTok) (hp : PrevOK prev ts.length) : WB (loopAt prev d node ts) ts.length := by
  unfold loopAt
  split
  · next s r =>
    split
    · next op sw _ =>
      have h1 := hp (.lvl (d - 1)) r (Nat.lt_succ_self _)
      generalize prev (.lvl (d - 1)) r = res at h1
      match res, h1 with
      | .error (k, rest), h1 => exact ⟨h1.1, Nat.le_trans h1.2 (Nat.le_succ _)⟩
      | .ok (rhs, r'), h1 =>
        simp only
        have h2 := hp (.loop d (mkNode op sw node rhs)) r' (Nat.lt_succ_of_le h1)
        exact h2.mono (Nat.le_trans h1 (Nat.le_succ _))
    · exact Nat.le_refl _
  · exact Nat.le_refl _

theorem lvlD_wb (d : Nat) (ts : List PTok) (hp : PrevOK prev ts.length) : WB (lvlD prev d ts) ts.length := by
  induction d with
  | zero => exact unary_wb prev ts hp
  | succ d ih =>
    unfold lvlD
    generalize lvlD prev d ts = res at ih
    match res, ih with
    | .error (k, rest), ih => exact ih
    | .ok (node, r), ih =>
      simp only
      exact (loopAt_wb prev (d+1) node r (fun m ts' h => hp m ts' (Nat.lt_of_lt_of_le h ih))).mono ih

theorem condAt_wb (ts : List PTok) (hp : PrevOK prev ts.length) : WB (condAt prev ts) ts.length := by
  have h0 := lvlD_wb prev top ts hp
  unfold condAt
  generalize lvlD prev top ts = res at h0
  match res, h0 with
  | .error (k, rest), h0 => exact h0
  | .ok (c, r), h0 =>
    simp only
    split
    · next s r1 =>
      split
      · split
        · exact ⟨by decide, h0⟩
        · simp only [WB, List.length_cons] at h0
          have h1 := hp .expr r1 (by omega)
          generalize prev .expr r1 = res1 at h1
          match res1, h1 with
          | .error (k, rest), h1 => exact ⟨h1.1, by have := h1.2; omega⟩
          | .ok (a, r2), h1 =>
            simp only
            generalize hsk : skipTok ":" r2 = sk
            match sk, hsk with
            | .error e, hsk =>
              rw [skipTok_err hsk]
              exact ⟨by decide, by simp only [WB] at h1; omega⟩
            | .ok r3, hsk =>
              have := skipTok_ok hsk
              subst this
              simp only [WB, List.length_cons] at h1
              have h2 := hp .cond r3 (by omega)
              simp only
              generalize prev .cond r3 = res2 at h2
              match res2, h2 with
              | .error (k, rest), h2 => exact ⟨h2.1, by have := h2.2; omega⟩
              | .ok (b, r4), h2 => simp only [WB] at h2 ⊢; omega
      · exact h0
    · exact h0

theorem assignAt_wb (ts : List PTok) (hp : PrevOK prev ts.length) : WB (assignAt prev ts) ts.length := by
  have h0 := condAt_wb prev ts hp
  unfold assignAt
  generalize condAt prev ts = res at h0
  match res, h0 with
  | .error (k, rest), h0 => exact h0
  | .ok (a, r), h0 =>
    simp only
    split
    · split
      · exact ⟨by decide, h0⟩
      · exact h0
    · exact h0

theorem exprAt_wb (ts : List PTok) (hp : PrevOK prev ts.length) : WB (exprAt prev ts) ts.length := by
  have h0 := assignAt_wb prev ts hp
  unfold exprAt
  generalize assignAt prev ts = res at h0
  match res, h0 with
  | .error (k, rest), h0 => exact h0
  | .ok (a, r), h0 =>
    simp only
    split
    · next s r1 =>
      split
      · simp only [WB, List.length_cons] at h0
        have h1 := hp .expr r1 (by omega)
        generalize prev .expr r1 = res1 at h1
        match res1, h1 with
        | .error (k, rest), h1 => exact ⟨h1.1, by have := h1.2; omega⟩
        | .ok (b, r2), h1 => simp only [WB] at h1 ⊢; omega
      · exact h0
    · exact h0

theorem step_wb (m : Mode) (ts : List PTok) (hp : PrevOK prev ts.length) : WB (step prev m ts) ts.length := by
  cases m with
  | expr => exact exprAt_wb prev ts hp
  | cond => exact condAt_wb prev ts hp
  | lvl d => exact lvlD_wb prev d ts hp
  | loop d node => exact loopAt_wb prev d node ts hp

end

/-- fuel above the number of tokens suffices, for every entry point -/
theorem parseN_wb (f : Nat) : PrevOK (parseN f) f := by
  induction f with
  | zero => intro m ts h; exact absurd h (Nat.not_lt_zero _)
  | succ f ih =>
    intro m ts h
    show WB (step (parseN f) m ts) ts.length
    exact step_wb (parseN f) m ts (fun m' ts' h' => ih m' ts' (Nat.lt_of_lt_of_le h' (Nat.le_of_lt_succ h)))

end ChibiVerif.IfParse
