/-
C03 — the body of a `switch` seen as a list of labelled items (parsed side), and the agreement
between the specification's selection (`Spec.Ctl.select`: first item whose label prefix has a
matching `case`, else the item carrying `default`) and the ladder's (`selectLbl`: first
matching arm in `case_next` order) under the well-formedness conditions `switchOK`.
-/
import ChibiVerif.Lemmas.StmtMachine
import ChibiVerif.Lemmas.StmtLabels

set_option linter.unusedSimpArgs false
namespace ChibiVerif.Ctl
open ChibiVerif.Spec.Ctl

/-! ### the body of a switch as a list of items (parsed side) -/

def itemsT : Stmt → List Stmt
  | .skip => []
  | .seq a b => itemsT a ++ itemsT b
  | .block s => itemsT s
  | s => [s]

def genList : List Stmt → Nat → List CIns × Nat
  | [], c => ([], c)
  | a :: r, c => ((genStmt a c).1 ++ (genList r (genStmt a c).2).1, (genList r (genStmt a c).2).2)

theorem genList_append (xs ys : List Stmt) : ∀ c, genList (xs ++ ys) c =
    ((genList xs c).1 ++ (genList ys (genList xs c).2).1, (genList ys (genList xs c).2).2) := by
  induction xs with
  | nil => intro c; simp [genList]
  | cons a r ih => intro c; simp [genList, ih, List.append_assoc]

theorem gen_items (st : Stmt) : ∀ c, genStmt st c = genList (itemsT st) c := by
  induction st with
  | skip => intro c; rfl
  | seq a b iha ihb => intro c; simp only [genStmt, itemsT, genList_append, iha, ihb]
  | block s ih => intro c; simp only [genStmt, itemsT, ih]
  | _ => intro c; simp [itemsT, genList]

theorem items_erase (st : Stmt) : items (erase st) = (itemsT st).map erase := by
  induction st with
  | skip => rfl
  | seq a b iha ihb => simp only [erase, items, itemsT, iha, ihb, List.map_append]
  | block s ih => simp only [erase, items, itemsT, ih]
  | goto_ k t => cases k <;> rfl
  | _ => rfl

theorem bound_items {b c : Option Nat} (st : Stmt) : Bound b c st → ∀ it ∈ itemsT st, Bound b c it := by
  induction st with
  | skip => intro _ it h; simp [itemsT] at h
  | seq x y ihx ihy =>
    intro h it hit
    simp only [itemsT, List.mem_append] at hit
    rcases hit with hit | hit
    · exact ihx h.1 it hit
    · exact ihy h.2 it hit
  | block s ih => intro h it hit; exact ih h it hit
  | _ => intro h it hit; simp only [itemsT, List.mem_singleton] at hit; subst hit; exact h

theorem caseEnts_items (st : Stmt) : caseEnts st = (itemsT st).flatMap caseEnts ∧ dflts st = (itemsT st).flatMap dflts := by
  induction st with
  | seq x y ihx ihy => simp only [caseEnts, dflts, itemsT, List.flatMap_append, ihx.1, ihy.1, ihx.2, ihy.2, and_self]
  | block s ih => exact ih
  | _ => simp [itemsT, caseEnts, dflts]

/-! ### label prefix of an item -/

def pfxLabels : Stmt → List Nat
  | .case_ l _ _ s => l :: pfxLabels s
  | .default_ l s => l :: pfxLabels s
  | _ => []

def pfxEnts : Stmt → List CaseEnt
  | .case_ l lo hi s => ⟨l, lo, hi⟩ :: pfxEnts s
  | .default_ _ s => pfxEnts s
  | _ => []

def pfxDflts : Stmt → List Nat
  | .case_ _ _ _ s => pfxDflts s
  | .default_ l s => l :: pfxDflts s
  | _ => []

def coreT : Stmt → Stmt
  | .case_ _ _ _ s => coreT s
  | .default_ _ s => coreT s
  | s => s

theorem gen_prefix (it : Stmt) : ∀ c, genStmt it c =
    ((pfxLabels it).map (fun l => CIns.label (.u l)) ++ (genStmt (coreT it) c).1, (genStmt (coreT it) c).2) := by
  induction it with
  | case_ l lo hi s ih => intro c; simp only [genStmt, pfxLabels, coreT, List.map_cons, List.cons_append, ih c]
  | default_ l s ih => intro c; simp only [genStmt, pfxLabels, coreT, List.map_cons, List.cons_append, ih c]
  | _ => intro c; simp [pfxLabels, coreT]

theorem erase_core (it : Stmt) : erase (coreT it) = core (erase it) := by
  induction it with
  | case_ l lo hi s ih => simp only [coreT, erase, core, ih]
  | default_ l s ih => simp only [coreT, erase, core, ih]
  | goto_ k t => cases k <;> rfl
  | _ => rfl

theorem bound_core {b c : Option Nat} (it : Stmt) : Bound b c it → Bound b c (coreT it) := by
  induction it with
  | case_ l lo hi s ih => intro h; exact ih h
  | default_ l s ih => intro h; exact ih h
  | _ => intro h; exact h

theorem pfxEnts_sub (it : Stmt) : (∀ e ∈ pfxEnts it, e.lbl ∈ pfxLabels it) ∧ (∀ d ∈ pfxDflts it, d ∈ pfxLabels it) := by
  induction it with
  | case_ l lo hi s ih =>
    constructor
    · intro e he
      simp only [pfxEnts, List.mem_cons] at he
      simp only [pfxLabels, List.mem_cons]
      rcases he with rfl | he
      · exact Or.inl rfl
      · exact Or.inr (ih.1 e he)
    · intro d hd; simp only [pfxLabels, List.mem_cons]; exact Or.inr (ih.2 d hd)
  | default_ l s ih =>
    constructor
    · intro e he; simp only [pfxLabels, List.mem_cons]; exact Or.inr (ih.1 e he)
    · intro d hd
      simp only [pfxDflts, List.mem_cons] at hd
      simp only [pfxLabels, List.mem_cons]
      rcases hd with rfl | hd
      · exact Or.inl rfl
      · exact Or.inr (ih.2 d hd)
  | _ => exact ⟨by simp [pfxEnts], by simp [pfxDflts]⟩

theorem noFreeCase_caseEnts (st : Stmt) : noFreeCase (erase st) = true → caseEnts st = [] ∧ dflts st = [] := by
  induction st with
  | seq x y ihx ihy =>
    intro h
    simp only [erase, noFreeCase, Bool.and_eq_true] at h
    simp [caseEnts, dflts, ihx h.1, ihy h.2]
  | ifte k x y ihx ihy =>
    intro h
    simp only [erase, noFreeCase, Bool.and_eq_true] at h
    simp [caseEnts, dflts, ihx h.1, ihy h.2]
  | block s ih => intro h; exact ih h
  | for_ i c n b ct body ih => intro h; exact ih h
  | doWhile b ct body k ih => intro h; exact ih h
  | label l u s ih => intro h; exact ih h
  | case_ l lo hi s ih => intro h; simp [erase, noFreeCase] at h
  | default_ l s ih => intro h; simp [erase, noFreeCase] at h
  | _ => intro _; simp [caseEnts, dflts]

theorem caseEnts_prefix (it : Stmt) : caseEnts it = pfxEnts it ++ caseEnts (coreT it) ∧
    dflts it = pfxDflts it ++ dflts (coreT it) := by
  induction it with
  | case_ l lo hi s ih => simp only [caseEnts, dflts, pfxEnts, pfxDflts, coreT, ih.1, ih.2, List.cons_append, and_self]
  | default_ l s ih => simp only [caseEnts, dflts, pfxEnts, pfxDflts, coreT, ih.1, ih.2, List.cons_append, and_self]
  | _ => simp [pfxEnts, pfxDflts, coreT]

theorem hasCase_iff (w u : Bool) (v : Val) (it : Stmt) :
    hasCase w u v (erase it) = true ↔ ∃ e ∈ pfxEnts it, caseMatches w u e.lo e.hi v = true := by
  induction it with
  | case_ l lo hi s ih =>
    simp only [erase, hasCase, Bool.or_eq_true, ih, pfxEnts, List.mem_cons]
    constructor
    · rintro (h | ⟨e, he, hm⟩)
      · exact ⟨⟨l, lo, hi⟩, Or.inl rfl, h⟩
      · exact ⟨e, Or.inr he, hm⟩
    · rintro ⟨e, rfl | he, hm⟩
      · exact Or.inl hm
      · exact Or.inr ⟨e, he, hm⟩
  | default_ l s ih => simp only [erase, hasCase, ih, pfxEnts]
  | goto_ k t => cases k <;> simp [erase, hasCase, pfxEnts]
  | _ => simp [erase, hasCase, pfxEnts]

theorem hasDefault_iff (it : Stmt) : hasDefault (erase it) = true ↔ pfxDflts it ≠ [] := by
  induction it with
  | case_ l lo hi s ih => simp only [erase, hasDefault, ih, pfxDflts]
  | default_ l s ih => simp [erase, hasDefault, pfxDflts]
  | goto_ k t => cases k <;> simp [erase, hasDefault, pfxDflts]
  | _ => simp [erase, hasDefault, pfxDflts]

theorem prefixCases_erase (it : Stmt) : prefixCases (erase it) = (pfxEnts it).map (fun e => (e.lo, e.hi)) := by
  induction it with
  | case_ l lo hi s ih => simp only [erase, prefixCases, pfxEnts, List.map_cons, ih]
  | default_ l s ih => simp only [erase, prefixCases, pfxEnts, ih]
  | goto_ k t => cases k <;> rfl
  | _ => rfl

theorem prefixDefaults_erase (it : Stmt) : prefixDefaults (erase it) = (pfxDflts it).length := by
  induction it with
  | case_ l lo hi s ih => simp only [erase, prefixDefaults, pfxDflts, ih]
  | default_ l s ih => simp only [erase, prefixDefaults, pfxDflts, List.length_cons, ih]
  | goto_ k t => cases k <;> rfl
  | _ => rfl


theorem selectLbl_of_match {w : Bool} {v : Val} (d : Option Nat) (b : Nat) (e : CaseEnt) :
    ∀ cs : List CaseEnt, e ∈ cs → entMatches w e v = true →
      (∀ e' ∈ cs, entMatches w e' v = true → e'.lbl = e.lbl) → selectLbl w v cs d b = e.lbl := by
  intro cs
  induction cs with
  | nil => intro h; simp at h
  | cons x r ih =>
    intro hmem hm huniq
    simp only [selectLbl]
    by_cases hx : entMatches w x v = true
    · simp only [hx, if_true]; exact huniq x (by simp) hx
    · simp only [hx]
      have : e ∈ r := by
        rcases List.mem_cons.1 hmem with rfl | h
        · exact absurd hm hx
        · exact h
      exact ih this hm (fun e' he' => huniq e' (List.mem_cons_of_mem _ he'))

theorem selectLbl_none {w : Bool} {v : Val} (d : Option Nat) (b : Nat) :
    ∀ cs : List CaseEnt, (∀ e' ∈ cs, entMatches w e' v = false) →
      selectLbl w v cs d b = (match d with | some x => x | none => b) := by
  intro cs
  induction cs with
  | nil => intro _; cases d <;> rfl
  | cons x r ih =>
    intro h
    simp only [selectLbl, h x (by simp), Bool.false_eq_true, if_false]
    exact ih (fun e' he' => h e' (List.mem_cons_of_mem _ he'))

theorem disjoint_symm (w u : Bool) (a b : Val × Val) : disjoint w u a b = disjoint w u b a := by
  unfold disjoint; rw [Bool.or_comm]

theorem pairwise_map_disjoint (w u : Bool) {α : Type} (f : α → Val × Val) :
    ∀ L : List α, pairwiseDisjoint w u (L.map f) = true →
      ∀ a ∈ L, ∀ b ∈ L, a ≠ b → disjoint w u (f a) (f b) = true := by
  intro L
  induction L with
  | nil => intro _ a ha; simp at ha
  | cons x r ih =>
    intro h a ha b hb hab
    simp only [List.map_cons, pairwiseDisjoint, Bool.and_eq_true, List.all_eq_true, List.mem_map,
      forall_exists_index, and_imp, forall_apply_eq_imp_iff₂] at h
    rcases List.mem_cons.1 ha with rfl | ha' <;> rcases List.mem_cons.1 hb with rfl | hb'
    · exact absurd rfl hab
    · exact h.1 b hb'
    · rw [disjoint_symm]; exact h.1 a ha'
    · exact ih h.2 a ha' b hb' hab

theorem matches_not_disjoint (w u : Bool) (a b : Val × Val) (v : Val)
    (ha : caseMatches w u a.1 a.2 v = true) (hb : caseMatches w u b.1 b.2 v = true) :
    disjoint w u a b = false := by
  unfold caseMatches at ha hb
  unfold disjoint
  simp only [Bool.and_eq_true, decide_eq_true_eq] at ha hb
  simp only [Bool.or_eq_false_iff, decide_eq_false_iff_not]
  omega

theorem dropUntil_map {α : Type} (p : SStmt → Bool) (f : α → SStmt) :
    ∀ (its : List α) (r : List SStmt), dropUntil p (its.map f) = some r →
      ∃ pre x rest, its = pre ++ x :: rest ∧ r = (x :: rest).map f ∧ p (f x) = true ∧ ∀ y ∈ pre, p (f y) = false := by
  intro its
  induction its with
  | nil => intro r h; simp [dropUntil] at h
  | cons a t ih =>
    intro r h
    simp only [List.map_cons, dropUntil] at h
    by_cases hp : p (f a) = true
    · simp only [hp, if_true, Option.some.injEq] at h
      exact ⟨[], a, t, rfl, by simp [← h], hp, by simp⟩
    · simp only [hp] at h
      obtain ⟨pre, x, rest, h1, h2, h3, h4⟩ := ih r h
      refine ⟨a :: pre, x, rest, by simp [h1], h2, h3, ?_⟩
      intro y hy
      rcases List.mem_cons.1 hy with rfl | hy
      · simpa using hp
      · exact h4 y hy

theorem dropUntil_none {α : Type} (p : SStmt → Bool) (f : α → SStmt) :
    ∀ (its : List α), dropUntil p (its.map f) = none → ∀ y ∈ its, p (f y) = false := by
  intro its
  induction its with
  | nil => intro _ y hy; simp at hy
  | cons a t ih =>
    intro h y hy
    simp only [List.map_cons, dropUntil] at h
    by_cases hp : p (f a) = true
    · simp [hp] at h
    · simp only [hp] at h
      rcases List.mem_cons.1 hy with rfl | hy
      · simpa using hp
      · exact ih h y hy

/-! ### what `switchOK` gives, in terms of the parsed items -/

structure SwNorm (w u : Bool) (its : List Stmt) : Prop where
  cores : ∀ it ∈ its, caseEnts (coreT it) = [] ∧ dflts (coreT it) = []
  order : ∀ e ∈ its.flatMap pfxEnts, toT w u e.lo ≤ toT w u e.hi
  disj : pairwiseDisjoint w u ((its.flatMap pfxEnts).map (fun e => (e.lo, e.hi))) = true
  oneDflt : (its.map (fun it => (pfxDflts it).length)).sum ≤ 1

theorem flatMap_prefixCases (its : List Stmt) :
    (its.map erase).flatMap prefixCases = (its.flatMap pfxEnts).map (fun e => (e.lo, e.hi)) := by
  induction its with
  | nil => rfl
  | cons a r ih => simp only [List.map_cons, List.flatMap_cons, List.map_append, ih, prefixCases_erase]

theorem switchOK_norm (w u : Bool) (its : List Stmt) (h : switchOK w u (its.map erase) = true) :
    SwNorm w u its := by
  unfold switchOK at h
  simp only [Bool.and_eq_true, List.all_eq_true, decide_eq_true_eq] at h
  obtain ⟨⟨⟨h1, h2⟩, h3⟩, h4⟩ := h
  refine ⟨?_, ?_, ?_, ?_⟩
  · intro it hit
    have := h1 (erase it) (List.mem_map_of_mem hit)
    rw [← erase_core] at this
    exact noFreeCase_caseEnts _ this
  · intro e he
    rw [flatMap_prefixCases] at h2
    exact h2 (e.lo, e.hi) (List.mem_map_of_mem (f := fun e : CaseEnt => (e.lo, e.hi)) he)
  · rw [flatMap_prefixCases] at h3; exact h3
  · have : (its.map erase).map prefixDefaults = its.map (fun it => (pfxDflts it).length) := by
      rw [List.map_map]; apply List.map_congr_left; intro it _; exact prefixDefaults_erase it
    rw [this] at h4; exact h4

theorem flatMap_caseEnts_eq {w u : Bool} {its : List Stmt} (N : SwNorm w u its) :
    its.flatMap caseEnts = its.flatMap pfxEnts ∧ its.flatMap dflts = its.flatMap pfxDflts := by
  have hc := N.cores
  clear N
  induction its with
  | nil => exact ⟨rfl, rfl⟩
  | cons a r ih =>
    have ha := hc a (by simp)
    have hr := ih (fun it hit => hc it (List.mem_cons_of_mem _ hit))
    simp only [List.flatMap_cons, hr.1, hr.2, (caseEnts_prefix a).1, (caseEnts_prefix a).2, ha.1, ha.2,
      List.append_nil, and_self]

/-- a `case` of the switch selects `v`: the ladder goes to a label in the prefix of the item the specification selects -/
theorem select_case {w u : Bool} {v : Val} {its : List Stmt} {cases : List CaseEnt} (dflt : Option Nat) (brk : Nat)
    (N : SwNorm w u its) (hcases : ∀ e, e ∈ cases ↔ e ∈ its.flatMap caseEnts)
    {rest_s : List SStmt} (hsel : dropUntil (hasCase w u v) (its.map erase) = some rest_s) :
    ∃ pre it rest L, its = pre ++ it :: rest ∧ rest_s = (it :: rest).map erase ∧ L ∈ pfxLabels it ∧
      selectLbl w v cases dflt brk = L := by
  obtain ⟨pre, it, rest, hits, hrest, hp, _⟩ := dropUntil_map _ _ its rest_s hsel
  obtain ⟨e, he, hm⟩ := (hasCase_iff w u v it).1 hp
  have hEq := flatMap_caseEnts_eq N
  have heL : e ∈ its.flatMap pfxEnts := by
    rw [hits]; simp only [List.flatMap_append, List.flatMap_cons, List.mem_append]
    exact Or.inr (Or.inl he)
  have hecases : e ∈ cases := (hcases e).2 (by rw [hEq.1]; exact heL)
  have hme : entMatches w e v = true := by rw [entMatches_spec w u e v (N.order e heL)]; exact hm
  refine ⟨pre, it, rest, e.lbl, hits, hrest, (pfxEnts_sub it).1 e he, ?_⟩
  apply selectLbl_of_match dflt brk e cases hecases hme
  intro e' he' hm'
  have he'L : e' ∈ its.flatMap pfxEnts := by rw [← hEq.1]; exact (hcases e').1 he'
  rw [entMatches_spec w u e' v (N.order e' he'L)] at hm'
  by_cases hee : e' = e
  · rw [hee]
  · have hd := pairwise_map_disjoint w u (fun e : CaseEnt => (e.lo, e.hi)) _ N.disj e' he'L e heL hee
    have := matches_not_disjoint w u (e'.lo, e'.hi) (e.lo, e.hi) v hm' hm
    rw [this] at hd; cases hd

/-- no `case` selects `v` -/
theorem select_nocase {w u : Bool} {v : Val} {its : List Stmt} {cases : List CaseEnt}
    (N : SwNorm w u its) (hcases : ∀ e, e ∈ cases ↔ e ∈ its.flatMap caseEnts)
    (hsel : dropUntil (hasCase w u v) (its.map erase) = none) :
    ∀ e' ∈ cases, entMatches w e' v = false := by
  intro e' he'
  have hEq := flatMap_caseEnts_eq N
  have he'L : e' ∈ its.flatMap pfxEnts := by rw [← hEq.1]; exact (hcases e').1 he'
  rw [entMatches_spec w u e' v (N.order e' he'L)]
  obtain ⟨it, hit, hin⟩ := List.mem_flatMap.1 he'L
  have hno := dropUntil_none _ _ its hsel it hit
  cases hcm : caseMatches w u e'.lo e'.hi v with
  | false => rfl
  | true =>
    have := (hasCase_iff w u v it).2 ⟨e', hin, hcm⟩
    rw [this] at hno; cases hno

theorem sum_zero_of_le {l : List Nat} (h : l.sum = 0) : ∀ x ∈ l, x = 0 := by
  induction l with
  | nil => intro x hx; simp at hx
  | cons a r ih =>
    intro x hx
    simp only [List.sum_cons] at h
    rcases List.mem_cons.1 hx with rfl | hx
    · omega
    · exact ih (by omega) x hx

/-- no case selects `v` and the body has a `default` -/
theorem select_default {w u : Bool} {v : Val} {its : List Stmt} {cases : List CaseEnt} {dflt : Option Nat} (brk : Nat)
    (N : SwNorm w u its) (hcases : ∀ e, e ∈ cases ↔ e ∈ its.flatMap caseEnts)
    (hdflt : DfltOf dflt (its.flatMap dflts))
    (hsel : dropUntil (hasCase w u v) (its.map erase) = none)
    {rest_s : List SStmt} (hsel2 : dropUntil hasDefault (its.map erase) = some rest_s) :
    ∃ pre it rest L, its = pre ++ it :: rest ∧ rest_s = (it :: rest).map erase ∧ L ∈ pfxLabels it ∧
      selectLbl w v cases dflt brk = L := by
  obtain ⟨pre, it, rest, hits, hrest, hp, hpre⟩ := dropUntil_map _ _ its rest_s hsel2
  have hne : pfxDflts it ≠ [] := (hasDefault_iff it).1 hp
  have hEq := flatMap_caseEnts_eq N
  have hsum := N.oneDflt
  rw [hits] at hsum
  simp only [List.map_append, List.map_cons, List.sum_append, List.sum_cons] at hsum
  have hpos : 0 < (pfxDflts it).length := List.length_pos_iff.2 hne
  have hpre0 := sum_zero_of_le (l := pre.map (fun it => (pfxDflts it).length)) (by omega)
  have hrest0 := sum_zero_of_le (l := rest.map (fun it => (pfxDflts it).length)) (by omega)
  have hnil : ∀ l : List Stmt, (∀ x ∈ l.map (fun it => (pfxDflts it).length), x = 0) → l.flatMap pfxDflts = [] := by
    intro l hl
    induction l with
    | nil => rfl
    | cons a r ih =>
      have ha := hl (pfxDflts a).length (by simp)
      have : pfxDflts a = [] := List.eq_nil_of_length_eq_zero ha
      simp only [List.flatMap_cons, this, List.nil_append]
      exact ih (fun x hx => hl x (by simp only [List.map_cons, List.mem_cons]; exact Or.inr hx))
  have hall : its.flatMap dflts = pfxDflts it := by
    rw [hEq.2, hits]
    simp only [List.flatMap_append, List.flatMap_cons, hnil pre hpre0, hnil rest hrest0, List.nil_append, List.append_nil]
  rw [hall] at hdflt
  cases dflt with
  | none => exact absurd hdflt hne
  | some d =>
    refine ⟨pre, it, rest, d, hits, hrest, (pfxEnts_sub it).2 d hdflt, ?_⟩
    rw [selectLbl_none (some d) brk cases (select_nocase N hcases hsel)]

/-- no case selects `v` and the body has no `default`: the ladder jumps to the break label -/
theorem select_neither {w u : Bool} {v : Val} {its : List Stmt} {cases : List CaseEnt} {dflt : Option Nat} (brk : Nat)
    (N : SwNorm w u its) (hcases : ∀ e, e ∈ cases ↔ e ∈ its.flatMap caseEnts)
    (hdflt : DfltOf dflt (its.flatMap dflts))
    (hsel : dropUntil (hasCase w u v) (its.map erase) = none)
    (hsel2 : dropUntil hasDefault (its.map erase) = none) :
    selectLbl w v cases dflt brk = brk := by
  have hEq := flatMap_caseEnts_eq N
  have hno := dropUntil_none _ _ its hsel2
  have hnil : its.flatMap pfxDflts = [] := by
    rw [List.flatMap_eq_nil_iff]
    intro it hit
    have := hno it hit
    cases hd : pfxDflts it with
    | nil => rfl
    | cons a r =>
      have h1 := (hasDefault_iff it).2 (by rw [hd]; simp)
      rw [h1] at this; cases this
  rw [hEq.2, hnil] at hdflt
  cases dflt with
  | some d => simp [DfltOf] at hdflt
  | none => rw [selectLbl_none none brk cases (select_nocase N hcases hsel)]

end ChibiVerif.Ctl
