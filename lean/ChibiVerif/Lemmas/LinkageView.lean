/-
Helper lemmas for C15: what `declAll` records about each function (`is_static`, `is_inline`, `is_root`,
`is_definition`, `refs`), read through `find_func`, as a function of the declaration sequence.

Layer 1: every parser step acts on the table `T st : Name → Option FV` as the pure function `stepT` does.
Layer 2 (Props/C15.lean uses it): closed form of folding `stepT` over the declarations.
-/
import ChibiVerif.Lemmas.LinkageParse
import ChibiVerif.Lemmas.LinkageEmit
import ChibiVerif.Spec.LinkageSpec

namespace ChibiVerif.Linkage
open ChibiVerif.Spec.Linkage (initFnRefs bodyFnRefs)

variable [Rules]

/-- the fields of a function object the liveness logic reads -/
structure FV where
  isStatic : Bool
  isInline : Bool
  isInlineDef : Bool
  isRoot : Bool
  isDefinition : Bool
  refs : List Name
  deriving DecidableEq, Repr

def fview (o : Obj) : FV := ⟨o.isStatic, o.isInline, o.isInlineDef, o.isRoot, o.isDefinition, o.refs⟩

/-- the function table of a parser state, through `find_func` -/
def T (gs : List Obj) : Name → Option FV := fun f => (findFunc gs f).map fview

def updT (t : Name → Option FV) (f : Name) (u : FV → FV) : Name → Option FV :=
  fun g => if g = f then (t f).map u else t g

/-! ### primitive mutations seen through `T` -/

omit [Rules] in
theorem T_cons_data {o : Obj} (h : o.isFunction = false) (gs : List Obj) : T (o :: gs) = T gs := by
  funext g
  simp [T, findFunc, List.find?, h]

omit [Rules] in
theorem T_cons_fn {o : Obj} {f : Name} (hf : o.isFunction = true) (hs : o.sym = .named f) (gs : List Obj) :
    T (o :: gs) = fun g => if g = f then some (fview o) else T gs g := by
  funext g
  by_cases hg : g = f
  · subst hg; simp [T, findFunc, List.find?, hf, hs]
  · have : (o.isFunction && o.sym == Sym.named g) = false := by
      simp only [hf, hs, Bool.true_and, beq_eq_false_iff_ne, ne_eq, Sym.named.injEq]
      exact fun e => hg e.symm
    simp [T, findFunc, List.find?, this, hg]

omit [Rules] in
/-- an update of `find_func(f)` that acts on the view as `v` -/
theorem T_updFunc {u : Obj → Obj} {v : FV → FV} (hu : KeepsId u) (huv : ∀ o, fview (u o) = v (fview o))
    (gs : List Obj) (f : Name) : T (updFunc gs f u) = updT (T gs) f v := by
  funext g
  simp only [T, updT, findFunc_updFunc hu]
  by_cases hg : g = f
  · simp only [hg, if_true, Option.map_map]
    congr 1
    funext o; exact huv o
  · simp [hg]

omit [Rules] in
/-- updating an object that is not a function does not change the table -/
theorem T_updFirst_data {p : Obj → Bool} {u : Obj → Obj} (hp : ∀ o, p o = true → o.isFunction = false)
    (hu : KeepsId u) (gs : List Obj) : T (updFirst p u gs) = T gs := by
  funext g
  simp only [T]
  congr 1
  induction gs with
  | nil => rfl
  | cons a as ih =>
    unfold updFirst
    by_cases hpa : p a = true
    · have hfa := hp a hpa
      rw [if_pos hpa]
      simp [findFunc, List.find?, (hu a).1, hfa]
    · rw [if_neg hpa]
      simp only [findFunc, List.find?] at ih ⊢
      rw [ih]

omit [Rules] in
theorem updT_id (t : Name → Option FV) (f : Name) : updT t f (fun v => v) = t := by
  funext g
  by_cases hg : g = f
  · subst hg; simp [updT]
  · simp [updT, hg]

omit [Rules] in
theorem updT_updT (t : Name → Option FV) (f : Name) (u1 u2 : FV → FV) :
    updT (updT t f u1) f u2 = updT t f (fun v => u2 (u1 v)) := by
  funext g
  by_cases hg : g = f
  · subst hg; simp [updT, Option.map_map, Function.comp_def]
  · simp [updT, hg]

def addRefs (l : List Name) : FV → FV := fun v => { v with refs := v.refs ++ l }
def setRoot : FV → FV := fun v => { v with isRoot := true }
def rootIf : FV → FV := fun v =>
  if Rules.flagsFollow then v else (if !(v.isStatic && v.isInline) then { v with isRoot := true } else v)
/-- `redeclFlags` on the view -/
def redeclV (isExtern isInline : Bool) : FV → FV := fun v =>
  if Rules.flagsFollow then
    let v1 : FV := if v.isInlineDef && (!isInline || isExtern) then { v with isInlineDef := false, isStatic := false } else v
    if v1.isStatic && !v1.isInlineDef && isInline && !v1.isDefinition then { v1 with isInline := true } else v1
  else v
/-- the view of a function object `function()` creates -/
def newFV (s e i b : Bool) : FV := ⟨s || (i && !e), i, Rules.flagsFollow && i && !s && !e, false, b, []⟩
def orDef (b : Bool) : FV → FV := fun v => { v with isDefinition := v.isDefinition || b }

/-- mark every function named in `l` as a root -/
def rootAll (t : Name → Option FV) (l : List Name) : Name → Option FV :=
  fun g => (t g).map (fun v => if g ∈ l then setRoot v else v)

omit [Rules] in
theorem rootAll_nil (t : Name → Option FV) : rootAll t [] = t := by
  funext g
  simp [rootAll]

omit [Rules] in
theorem addRefs_nil : addRefs [] = fun v => v := by
  funext v; simp [addRefs]

omit [Rules] in
theorem addRefs_addRefs (a b : List Name) : (fun v => addRefs b (addRefs a v)) = addRefs (a ++ b) := by
  funext v; simp [addRefs, List.append_assoc]

/-! ### the parser's steps -/

theorem T_newAnon (cur : Option Name) (st : PState) (ty : ObjTy) (hi : Bool) (uses : List Sym) :
    T (newAnon cur st ty hi uses).1.globals = T st.globals :=
  T_cons_data rfl _

omit [Rules] in
theorem T_recordFnRef_some {f : Name} {st st' : PState} {g : Name} (h : recordFnRef (some f) st g = .ok st') :
    T st'.globals = updT (T st.globals) f (addRefs [g]) := by
  unfold recordFnRef at h
  split at h
  · cases h
  · cases h
    dsimp only
    refine T_updFunc (v := addRefs [g]) ?_ ?_ _ _
    · exact fun _ => ⟨rfl, rfl⟩
    · exact fun _ => rfl

omit [Rules] in
theorem T_recordFnRef_none {st st' : PState} {g : Name} (h : recordFnRef none st g = .ok st') :
    T st'.globals = updT (T st.globals) g setRoot := by
  unfold recordFnRef at h
  split at h
  · cases h
  · cases h
    dsimp only
    refine T_updFunc (v := setRoot) ?_ ?_ _ _
    · exact fun _ => ⟨rfl, rfl⟩
    · exact fun _ => rfl

/-- references recorded by an initializer inside the body of `f` -/
theorem T_initItems_some {f : Name} : ∀ (items : List InitItem) {st st' : PState} {ss : List Sym},
    initItems (some f) st items = .ok (st', ss) → T st'.globals = updT (T st.globals) f (addRefs (initFnRefs items)) := by
  intro items
  induction items with
  | nil =>
    intro st st' ss h
    simp only [initItems, pure, Except.pure, Except.ok.injEq, Prod.mk.injEq] at h
    rw [← h.1]
    simp [initFnRefs, addRefs_nil, updT_id]
  | cons it rest ih =>
    intro st st' ss h
    cases it with
    | ref r =>
      simp only [initItems, bind, Except.bind] at h
      split at h
      · cases h
      · rename_i p1 h1
        split at h
        · cases h
        · rename_i p2 h2
          simp only [pure, Except.pure, Except.ok.injEq, Prod.mk.injEq] at h
          rw [← h.1]
          have ih' := ih (st := p1.1) (st' := p2.1) (ss := p2.2) (by simpa using h2)
          rw [ih']
          cases r with
          | fn g =>
            simp only [useRef, bind, Except.bind] at h1
            split at h1
            · cases h1
            · rename_i st1 hr
              simp only [pure, Except.pure, Except.ok.injEq] at h1
              have : p1.1 = st1 := by rw [← h1]
              rw [this, T_recordFnRef_some hr, updT_updT, addRefs_addRefs]
              simp [initFnRefs]
          | obj x =>
            simp only [useRef] at h1
            split at h1
            · cases h1
            · simp only [pure, Except.pure, Except.ok.injEq] at h1
              have : p1.1 = st := by rw [← h1]
              rw [this]
              simp [initFnRefs]
    | str n =>
      simp only [initItems, bind, Except.bind] at h
      split at h
      · cases h
      · rename_i p2 h2
        simp only [pure, Except.pure, Except.ok.injEq, Prod.mk.injEq] at h
        rw [← h.1]
        have ih' := ih (st := (newAnon _ st (strTy n) true).1) (st' := p2.1) (ss := p2.2) (by simpa using h2)
        rw [ih', T_newAnon]
        simp [initFnRefs]

omit [Rules] in
theorem setRoot_idem (v : FV) : setRoot (setRoot v) = setRoot v := rfl

omit [Rules] in
theorem rootAll_cons (t : Name → Option FV) (g : Name) (l : List Name) :
    rootAll (updT t g setRoot) l = rootAll t (g :: l) := by
  funext h
  by_cases hg : h = g
  · subst hg
    simp only [rootAll, updT, if_true, Option.map_map, List.mem_cons, true_or]
    congr 1
    funext v
    simp only [Function.comp]
    split <;> rfl
  · simp [rootAll, updT, hg]

/-- references in a file-scope initializer make roots -/
theorem T_initItems_none : ∀ (items : List InitItem) {st st' : PState} {ss : List Sym},
    initItems none st items = .ok (st', ss) → T st'.globals = rootAll (T st.globals) (initFnRefs items) := by
  intro items
  induction items with
  | nil =>
    intro st st' ss h
    simp only [initItems, pure, Except.pure, Except.ok.injEq, Prod.mk.injEq] at h
    rw [← h.1]
    simp [initFnRefs, rootAll_nil]
  | cons it rest ih =>
    intro st st' ss h
    cases it with
    | ref r =>
      simp only [initItems, bind, Except.bind] at h
      split at h
      · cases h
      · rename_i p1 h1
        split at h
        · cases h
        · rename_i p2 h2
          simp only [pure, Except.pure, Except.ok.injEq, Prod.mk.injEq] at h
          rw [← h.1]
          have ih' := ih (st := p1.1) (st' := p2.1) (ss := p2.2) (by simpa using h2)
          rw [ih']
          cases r with
          | fn g =>
            simp only [useRef, bind, Except.bind] at h1
            split at h1
            · cases h1
            · rename_i st1 hr
              simp only [pure, Except.pure, Except.ok.injEq] at h1
              have : p1.1 = st1 := by rw [← h1]
              rw [this, T_recordFnRef_none hr, rootAll_cons]
              simp [initFnRefs]
          | obj x =>
            simp only [useRef] at h1
            split at h1
            · cases h1
            · simp only [pure, Except.pure, Except.ok.injEq] at h1
              have : p1.1 = st := by rw [← h1]
              rw [this]
              simp [initFnRefs]
    | str n =>
      simp only [initItems, bind, Except.bind] at h
      split at h
      · cases h
      · rename_i p2 h2
        simp only [pure, Except.pure, Except.ok.injEq, Prod.mk.injEq] at h
        rw [← h.1]
        have ih' := ih (st := (newAnon _ st (strTy n) true).1) (st' := p2.1) (ss := p2.2) (by simpa using h2)
        rw [ih', T_newAnon]
        simp [initFnRefs]

omit [Rules] in
theorem data_pred (s : Sym) : ∀ o : Obj, (o.sym == s && !o.isFunction) = true → o.isFunction = false := by
  intro o h
  simp only [Bool.and_eq_true, Bool.not_eq_true'] at h
  exact h.2

/-- one body item: the function references it records are appended to `f`'s list -/
theorem T_bodyItem {f : Name} {st st' : PState} {b : BodyItem} {us : List Sym}
    (h : bodyItem f st b = .ok (st', us)) :
    T st'.globals = updT (T st.globals) f (addRefs (bodyFnRefs [b])) := by
  cases b with
  | ref r =>
    simp only [bodyItem, bind, Except.bind] at h
    split at h
    · cases h
    · rename_i p1 h1
      simp only [pure, Except.pure, Except.ok.injEq, Prod.mk.injEq] at h
      rw [← h.1]
      cases r with
      | fn g =>
        simp only [useRef, bind, Except.bind] at h1
        split at h1
        · cases h1
        · rename_i st1 hr
          simp only [pure, Except.pure, Except.ok.injEq] at h1
          have : p1.1 = st1 := by rw [← h1]
          rw [this, T_recordFnRef_some hr]
          simp [bodyFnRefs]
      | obj x =>
        simp only [useRef] at h1
        split at h1
        · cases h1
        · simp only [pure, Except.pure, Except.ok.injEq] at h1
          have : p1.1 = st := by rw [← h1]
          rw [this]
          simp [bodyFnRefs, addRefs_nil, updT_id]
  | staticLocal tls ty init =>
    cases init with
    | none =>
      simp only [bodyItem, pure, Except.pure, Except.ok.injEq, Prod.mk.injEq] at h
      rw [← h.1]
      dsimp only
      rw [T_updFirst_data (u := fun o => { o with isTls := tls }) (data_pred _) (fun _ => ⟨rfl, rfl⟩), T_newAnon]
      simp [bodyFnRefs, addRefs_nil, updT_id]
    | some items =>
      simp only [bodyItem, bind, Except.bind] at h
      split at h
      · cases h
      · rename_i p1 h1
        simp only [pure, Except.pure, Except.ok.injEq, Prod.mk.injEq] at h
        rw [← h.1]
        dsimp only
        have h1' := T_initItems_some items (st' := p1.1) (ss := p1.2) (by simpa using h1)
        dsimp only at h1'
        rw [T_updFirst_data (u := fun o => { o with isTls := tls }) (data_pred _) (fun _ => ⟨rfl, rfl⟩), T_newAnon] at h1'
        unfold setUses
        rw [T_updFirst_data (u := fun o => { o with uses := p1.2 }) (data_pred _) (fun _ => ⟨rfl, rfl⟩), h1']
        simp [bodyFnRefs]
  | str n =>
    simp only [bodyItem, pure, Except.pure, Except.ok.injEq, Prod.mk.injEq] at h
    rw [← h.1, T_newAnon]
    simp [bodyFnRefs, addRefs_nil, updT_id]
  | externObj x tls ty =>
    simp only [bodyItem, pure, Except.pure, Except.ok.injEq, Prod.mk.injEq] at h
    rw [← h.1]
    dsimp only
    rw [T_cons_data rfl]
    simp [bodyFnRefs, addRefs_nil, updT_id]

omit [Rules] in
theorem bodyFnRefs_cons (b : BodyItem) (rest : List BodyItem) :
    bodyFnRefs (b :: rest) = bodyFnRefs [b] ++ bodyFnRefs rest := by
  simp [bodyFnRefs]

theorem T_bodyItems {f : Name} : ∀ (items : List BodyItem) {st st' : PState} {us : List Sym},
    bodyItems f st items = .ok (st', us) → T st'.globals = updT (T st.globals) f (addRefs (bodyFnRefs items)) := by
  intro items
  induction items with
  | nil =>
    intro st st' us h
    simp only [bodyItems, pure, Except.pure, Except.ok.injEq, Prod.mk.injEq] at h
    rw [← h.1]
    simp [bodyFnRefs, addRefs_nil, updT_id]
  | cons b rest ih =>
    intro st st' us h
    simp only [bodyItems, bind, Except.bind] at h
    split at h
    · cases h
    · rename_i p1 h1
      split at h
      · cases h
      · rename_i p2 h2
        simp only [pure, Except.pure, Except.ok.injEq, Prod.mk.injEq] at h
        rw [← h.1]
        have e1 := T_bodyItem (st' := p1.1) (us := p1.2) (by simpa using h1)
        have e2 := ih (st := p1.1) (st' := p2.1) (us := p2.2) (by simpa using h2)
        rw [e2, e1, updT_updT, addRefs_addRefs, ← bodyFnRefs_cons]

/-! ### the abstract step on the function table -/

/-- what one file-scope declaration does to the function table -/
def stepT (t : Name → Option FV) : Decl → (Name → Option FV)
  | .func f _ s e i body =>
    let t1 : Name → Option FV := match t f with
      | some _ => updT t f (fun v => orDef body.isSome (redeclV e i v))
      | none => fun g => if g = f then some (newFV s e i body.isSome) else t g
    let t2 := updT t1 f rootIf
    match body with
    | none => t2
    | some b => updT t2 f (addRefs (bodyFnRefs b))
  | .obj _ _ _ _ _ init =>
    match init with
    | none => t
    | some items => rootAll t (initFnRefs items)

theorem fview_rootIf (o : Obj) : fview (rootIfO o) = rootIf (fview o) := by
  unfold rootIf rootIfO
  cases Rules.flagsFollow
  · simp only [Bool.false_eq_true, if_false]
    by_cases h : (!(o.isStatic && o.isInline)) = true
    · simp only [h, if_true, fview]
    · simp only [h, fview]; rfl
  · rfl

theorem fview_redecl (e i : Bool) (o : Obj) : fview (redeclFlags e i o) = redeclV e i (fview o) := by
  unfold redeclV redeclFlags
  cases Rules.flagsFollow
  · rfl
  · obtain ⟨sym, isFn, isDef, isSt, isInl, isInlDef, _, _, _, _, _, _, _, _, _⟩ := o
    cases isInlDef <;> cases i <;> cases e <;> cases isSt <;> cases isDef <;> rfl

theorem keepsId_rootIfO : KeepsId rootIfO := by
  intro o
  unfold rootIfO
  split
  · exact ⟨rfl, rfl⟩
  · split <;> exact ⟨rfl, rfl⟩

theorem keepsId_redecl (e i : Bool) : KeepsId (redeclFlags e i) := by
  intro o
  unfold redeclFlags
  split
  · dsimp only
    split <;> split <;> exact ⟨rfl, rfl⟩
  · exact ⟨rfl, rfl⟩

omit [Rules] in
theorem T_none_iff (gs : List Obj) (f : Name) : T gs f = none ↔ findFunc gs f = none := by
  simp [T]

theorem T_declFunctionHead {st st' : PState} {f : Name} {s e i b : Bool}
    (h : declFunctionHead st f s e i b = .ok st') :
    T st'.globals = updT (match T st.globals f with
      | some _ => updT (T st.globals) f (fun v => orDef b (redeclV e i v))
      | none => fun g => if g = f then some (newFV s e i b) else T st.globals g) f rootIf := by
  unfold declFunctionHead at h
  split at h
  · rename_i fn hfn
    have hT : T st.globals f = some (fview fn) := by simp [T, hfn]
    split at h
    · cases h
    · split at h
      · cases h
      · cases h
        dsimp only
        rw [hT]
        dsimp only
        rw [T_updFunc (u := rootIfO) (v := rootIf) keepsId_rootIfO fview_rootIf,
            T_updFunc (u := fun o => { o with isDefinition := o.isDefinition || b }) (v := orDef b) (fun _ => ⟨rfl, rfl⟩) (fun _ => rfl),
            T_updFunc (u := redeclFlags e i) (v := redeclV e i) (keepsId_redecl e i) (fview_redecl e i)]
        simp only [updT_updT]
  · rename_i hfn
    have hT : T st.globals f = none := by simp [T, hfn]
    cases h
    dsimp only
    rw [hT]
    dsimp only
    rw [T_updFunc (u := rootIfO) (v := rootIf) keepsId_rootIfO fview_rootIf]
    rw [T_cons_fn rfl rfl]
    rfl

theorem T_declStep {st st' : PState} {d : Decl} (h : declStep st d = .ok st') :
    T st'.globals = stepT (T st.globals) d := by
  cases d with
  | func f n s e i body =>
    simp only [declStep, declFunction] at h
    split at h
    · cases h
    · rename_i st1 h1
      have e1 := T_declFunctionHead h1
      cases body with
      | none =>
        cases h
        simp only [stepT]
        rw [e1]
      | some items =>
        simp only at h
        split at h
        · cases h
        · rename_i st2 uses hp
          cases h
          dsimp only
          rw [T_updFunc (u := fun o => { o with uses := uses }) (v := fun v => v) (fun _ => ⟨rfl, rfl⟩) (fun _ => rfl), updT_id,
              T_bodyItems items hp, T_newAnon, T_newAnon, e1]
          simp only [stepT]
  | obj x s e t ty init =>
    simp only [declStep, declObject] at h
    cases init with
    | none =>
      simp only [pure, Except.pure, Except.ok.injEq] at h
      rw [← h]
      dsimp only
      rw [T_cons_data rfl]
      rfl
    | some items =>
      simp only [bind, Except.bind] at h
      split at h
      · cases h
      · rename_i p hp
        simp only [pure, Except.pure, Except.ok.injEq] at h
        rw [← h]
        dsimp only
        rw [T_updFirst_data (u := fun o => { o with uses := p.2 })
              (p := fun o => o.sym == .named x && !o.isFunction) (data_pred _) (fun _ => ⟨rfl, rfl⟩)]
        have := T_initItems_none items (st' := p.1) (ss := p.2) (by simpa using hp)
        rw [this]
        dsimp only
        rw [T_cons_data rfl]
        rfl

/-- folding `stepT` -/
def foldT (t : Name → Option FV) : List Decl → (Name → Option FV)
  | [] => t
  | d :: ds => foldT (stepT t d) ds

theorem T_declAll : ∀ (ds : List Decl) {st st' : PState}, declAll st ds = .ok st' →
    T st'.globals = foldT (T st.globals) ds := by
  intro ds
  induction ds with
  | nil =>
    intro st st' h
    simp only [declAll, pure, Except.pure, Except.ok.injEq] at h
    rw [← h]; rfl
  | cons d rest ih =>
    intro st st' h
    simp only [declAll, bind, Except.bind] at h
    split at h
    · cases h
    · rename_i st1 h1
      rw [ih h, T_declStep h1]
      rfl

/-! ### layer 2: the entry of one name evolves by itself -/

theorem rootIf_isStatic (v : FV) : (rootIf v).isStatic = v.isStatic := by
  unfold rootIf; split; · rfl
  split <;> rfl
theorem rootIf_isInline (v : FV) : (rootIf v).isInline = v.isInline := by
  unfold rootIf; split; · rfl
  split <;> rfl
theorem rootIf_isInlineDef (v : FV) : (rootIf v).isInlineDef = v.isInlineDef := by
  unfold rootIf; split; · rfl
  split <;> rfl
theorem rootIf_refs (v : FV) : (rootIf v).refs = v.refs := by
  unfold rootIf; split; · rfl
  split <;> rfl
theorem rootIf_isDefinition (v : FV) : (rootIf v).isDefinition = v.isDefinition := by
  unfold rootIf; split; · rfl
  split <;> rfl
theorem rootIf_isRoot (v : FV) : (rootIf v).isRoot = (v.isRoot || (!Rules.flagsFollow && !(v.isStatic && v.isInline))) := by
  unfold rootIf
  cases Rules.flagsFollow
  · simp only [Bool.false_eq_true, if_false, Bool.not_false, Bool.true_and]
    by_cases h : (!(v.isStatic && v.isInline)) = true
    · simp only [h, if_true, Bool.or_true]
    · simp only [h]
      simp only [Bool.not_eq_true] at h
      simp [h]
  · simp

theorem redeclV_refs (e i : Bool) (v : FV) : (redeclV e i v).refs = v.refs := by
  unfold redeclV; split
  · dsimp only; split <;> split <;> rfl
  · rfl
theorem redeclV_isRoot (e i : Bool) (v : FV) : (redeclV e i v).isRoot = v.isRoot := by
  unfold redeclV; split
  · dsimp only; split <;> split <;> rfl
  · rfl
theorem redeclV_noB (h : Rules.flagsFollow = false) (e i : Bool) (v : FV) : redeclV e i v = v := by
  unfold redeclV; simp [h]

/-- what a declaration does to the table entry of `f`, given only that entry -/
def stepFV (d : Decl) (f : Name) (cur : Option FV) : Option FV :=
  match d with
  | .func g _ s e i body =>
    if f = g then
      let v1 : FV := match cur with
        | some v => orDef body.isSome (redeclV e i v)
        | none => newFV s e i body.isSome
      let v2 := rootIf v1
      some (match body with | none => v2 | some b => addRefs (bodyFnRefs b) v2)
    else cur
  | .obj _ _ _ _ _ init =>
    match init with
    | none => cur
    | some items => cur.map (fun v => if f ∈ initFnRefs items then setRoot v else v)

theorem stepT_eq (t : Name → Option FV) (d : Decl) (f : Name) : stepT t d f = stepFV d f (t f) := by
  cases d with
  | func g n s e i body =>
    simp only [stepT, stepFV]
    by_cases hfg : f = g
    · subst hfg
      simp only [if_true]
      cases ht : t f with
      | none => cases body <;> simp [updT]
      | some v => cases body <;> simp [updT, ht]
    · simp only [hfg, if_false]
      cases ht : t g with
      | none => cases body <;> simp [updT, hfg]
      | some v => cases body <;> simp [updT, hfg]
  | obj x s e t' ty init =>
    cases init with
    | none => rfl
    | some items => rfl

theorem foldT_eq : ∀ (ds : List Decl) (t : Name → Option FV) (f : Name),
    foldT t ds f = ds.foldl (fun cur d => stepFV d f cur) (t f)
  | [], _, _ => rfl
  | d :: ds, t, f => by
    simp only [foldT, List.foldl_cons]
    rw [foldT_eq ds (stepT t d) f, stepT_eq]

/-- the entry of `f` after the declarations `ds`, starting from `cur` -/
def evolve (ds : List Decl) (f : Name) (cur : Option FV) : Option FV := ds.foldl (fun cur d => stepFV d f cur) cur

def declares (ds : List Decl) (f : Name) : Bool := ds.any (fun d => match d with | .func g .. => g == f | _ => false)

/-- the references recorded in all bodies of `f` (a valid unit has at most one) -/
def allBodyRefs (ds : List Decl) (f : Name) : List Name :=
  ds.flatMap (fun d => match d with | .func g _ _ _ _ (some b) => if g = f then bodyFnRefs b else [] | _ => [])

/-- `f` is named in a file-scope initializer at a point where it is declared -/
def fileRooted : List Decl → Bool → Name → Bool
  | [], _, _ => false
  | .func g _ _ _ _ _ :: ds, dcl, f => fileRooted ds (dcl || g == f) f
  | .obj _ _ _ _ _ init :: ds, dcl, f =>
    (dcl && (match init with | some items => (initFnRefs items).contains f | none => false)) || fileRooted ds dcl f

/-- the flags `function` gives a new object -/
def firstFlags (ds : List Decl) (f : Name) : Option (Bool × Bool) :=
  ds.findSome? (fun d => match d with
    | .func g _ s e i _ => if g = f then some (s || (i && !e), i) else none
    | _ => none)

/-! #### the linkage flags of one function as an automaton over its declarations -/

/-- `is_static`, `is_inline`, `is_inline_def`, `is_definition` -/
structure Flags where
  isStatic : Bool
  isInline : Bool
  isInlineDef : Bool
  isDefinition : Bool
  deriving DecidableEq, Repr

def flagsOf (v : FV) : Flags := ⟨v.isStatic, v.isInline, v.isInlineDef, v.isDefinition⟩

/-- a redeclaration `[extern] [inline] f(..) [body]` -/
def redeclF (e i b : Bool) (q : Flags) : Flags :=
  let q0 : Flags :=
    if Rules.flagsFollow then
      let q1 : Flags := if q.isInlineDef && (!i || e) then { q with isInlineDef := false, isStatic := false } else q
      if q1.isStatic && !q1.isInlineDef && i && !q1.isDefinition then { q1 with isInline := true } else q1
    else q
  { q0 with isDefinition := q0.isDefinition || b }

def newFlags (s e i b : Bool) : Flags := ⟨s || (i && !e), i, Rules.flagsFollow && i && !s && !e, b⟩

def stepFlags (d : Decl) (f : Name) (cur : Option Flags) : Option Flags :=
  match d with
  | .func g _ s e i body =>
    if f = g then some (match cur with | some q => redeclF e i body.isSome q | none => newFlags s e i body.isSome) else cur
  | .obj .. => cur

def flagsAfter (ds : List Decl) (f : Name) (cur : Option Flags) : Option Flags := ds.foldl (fun cur d => stepFlags d f cur) cur

/-- **the flags `parse` ends up with**: (`is_static`, `is_inline`) of `find_func(f)` after all declarations.
    Without `Rules.flagsFollow` these are the flags of the first declaration (`firstFlags`). -/
def fnFlags (ds : List Decl) (f : Name) : Option (Bool × Bool) := (flagsAfter ds f none).map (fun q => (q.isStatic, q.isInline))

theorem flagsOf_redecl (e i b : Bool) (v : FV) : flagsOf (orDef b (redeclV e i v)) = redeclF e i b (flagsOf v) := by
  unfold redeclV redeclF orDef flagsOf
  cases Rules.flagsFollow
  · rfl
  · obtain ⟨st, inl, idf, _, df, _⟩ := v
    cases idf <;> cases i <;> cases e <;> cases st <;> cases df <;> rfl

theorem flagsOf_rootIf (v : FV) : flagsOf (rootIf v) = flagsOf v := by
  simp [flagsOf, rootIf_isStatic, rootIf_isInline, rootIf_isInlineDef, rootIf_isDefinition]

theorem flagsOf_stepFV (d : Decl) (f : Name) (cur : Option FV) : (stepFV d f cur).map flagsOf = stepFlags d f (cur.map flagsOf) := by
  cases d with
  | func g n s e i body =>
    simp only [stepFV, stepFlags]
    by_cases hfg : f = g
    · simp only [hfg, if_true, Option.map_some, Option.some.injEq]
      have hadd : ∀ (b : List Name) (v : FV), flagsOf (addRefs b v) = flagsOf v := fun _ _ => rfl
      cases cur with
      | none =>
        cases body with
        | none => simp only [Option.map_none, flagsOf_rootIf]; rfl
        | some b => simp only [Option.map_none, hadd, flagsOf_rootIf]; rfl
      | some v =>
        cases body with
        | none => simp only [Option.map_some, flagsOf_rootIf, flagsOf_redecl]
        | some b => simp only [Option.map_some, hadd, flagsOf_rootIf, flagsOf_redecl]
    · simp only [hfg, if_false]
  | obj x s e t ty init =>
    cases init with
    | none => rfl
    | some items =>
      simp only [stepFV, stepFlags, Option.map_map]
      congr 1
      funext v
      simp only [Function.comp]
      split <;> rfl

theorem flagsOf_evolve : ∀ (ds : List Decl) (f : Name) (cur : Option FV),
    (evolve ds f cur).map flagsOf = flagsAfter ds f (cur.map flagsOf)
  | [], _, _ => rfl
  | d :: ds, f, cur => by
    have := flagsOf_evolve ds f (stepFV d f cur)
    simp only [evolve, flagsAfter, List.foldl_cons] at this ⊢
    rw [this, flagsOf_stepFV]

theorem redeclF_noB (h : Rules.flagsFollow = false) (e i b : Bool) (q : Flags) :
    (redeclF e i b q).isStatic = q.isStatic ∧ (redeclF e i b q).isInline = q.isInline := by
  simp [redeclF, h]

theorem flagsAfter_some_noB (h : Rules.flagsFollow = false) : ∀ (ds : List Decl) (f : Name) (q : Flags),
    ∃ q', flagsAfter ds f (some q) = some q' ∧ q'.isStatic = q.isStatic ∧ q'.isInline = q.isInline
  | [], _, q => ⟨q, rfl, rfl, rfl⟩
  | d :: ds, f, q => by
    cases d with
    | func g n s e i body =>
      by_cases hfg : f = g
      · obtain ⟨q', h', hs, hi⟩ := flagsAfter_some_noB h ds f (redeclF e i body.isSome q)
        refine ⟨q', ?_, hs.trans (redeclF_noB h _ _ _ _).1, hi.trans (redeclF_noB h _ _ _ _).2⟩
        simp only [flagsAfter, List.foldl_cons, stepFlags, hfg, if_true] at h' ⊢
        exact h'
      · obtain ⟨q', h', hs, hi⟩ := flagsAfter_some_noB h ds f q
        refine ⟨q', ?_, hs, hi⟩
        simp only [flagsAfter, List.foldl_cons, stepFlags, hfg, if_false] at h' ⊢
        exact h'
    | obj x s e t ty init =>
      obtain ⟨q', h', hs, hi⟩ := flagsAfter_some_noB h ds f q
      exact ⟨q', by simpa only [flagsAfter, List.foldl_cons, stepFlags] using h', hs, hi⟩

theorem flagsAfter_some_isSome : ∀ (ds : List Decl) (f : Name) (q : Flags), (flagsAfter ds f (some q)).isSome = true
  | [], _, _ => rfl
  | d :: ds, f, q => by
    cases d with
    | func g n s e i body =>
      by_cases hfg : f = g
      · simp only [flagsAfter, List.foldl_cons, stepFlags, hfg, if_true]
        exact flagsAfter_some_isSome ds g _
      · simp only [flagsAfter, List.foldl_cons, stepFlags, hfg, if_false]
        exact flagsAfter_some_isSome ds f q
    | obj x s e t ty init =>
      simp only [flagsAfter, List.foldl_cons, stepFlags]
      exact flagsAfter_some_isSome ds f q

/-- a function has flags iff it is declared -/
theorem fnFlags_isSome : ∀ (ds : List Decl) (f : Name), (fnFlags ds f).isSome = (firstFlags ds f).isSome
  | [], _ => rfl
  | d :: ds, f => by
    cases d with
    | func g n s e i body =>
      by_cases hfg : f = g
      · subst hfg
        have : (firstFlags (.func f n s e i body :: ds) f).isSome = true := by simp [firstFlags, List.findSome?]
        rw [this]
        simp only [fnFlags, flagsAfter, List.foldl_cons, stepFlags, if_true, Option.isSome_map]
        exact flagsAfter_some_isSome ds f _
      · have hne : g ≠ f := fun e => hfg e.symm
        have h1 : firstFlags (.func g n s e i body :: ds) f = firstFlags ds f := by simp [firstFlags, List.findSome?, hne]
        have h2 : fnFlags (.func g n s e i body :: ds) f = fnFlags ds f := by
          simp only [fnFlags, flagsAfter, List.foldl_cons, stepFlags, hfg, if_false]
        rw [h1, h2]; exact fnFlags_isSome ds f
    | obj x s e t ty init =>
      have h1 : firstFlags (.obj x s e t ty init :: ds) f = firstFlags ds f := by simp [firstFlags, List.findSome?]
      have h2 : fnFlags (.obj x s e t ty init :: ds) f = fnFlags ds f := by
        simp only [fnFlags, flagsAfter, List.foldl_cons, stepFlags]
      rw [h1, h2]; exact fnFlags_isSome ds f

/-- without `Rules.flagsFollow` the flags are those of the first declaration -/
theorem fnFlags_noB (h : Rules.flagsFollow = false) : ∀ (ds : List Decl) (f : Name), fnFlags ds f = firstFlags ds f
  | [], _ => rfl
  | d :: ds, f => by
    cases d with
    | func g n s e i body =>
      by_cases hfg : f = g
      · subst hfg
        have : firstFlags (.func f n s e i body :: ds) f = some (s || (i && !e), i) := by simp [firstFlags, List.findSome?]
        rw [this]
        obtain ⟨q', h', hs, hi⟩ := flagsAfter_some_noB h ds f (newFlags s e i body.isSome)
        simp only [fnFlags, flagsAfter, List.foldl_cons, stepFlags, if_true] at h' ⊢
        rw [h']
        simp [hs, hi, newFlags]
      · have hne : g ≠ f := fun e => hfg e.symm
        have h1 : firstFlags (.func g n s e i body :: ds) f = firstFlags ds f := by simp [firstFlags, List.findSome?, hne]
        have h2 : fnFlags (.func g n s e i body :: ds) f = fnFlags ds f := by
          simp only [fnFlags, flagsAfter, List.foldl_cons, stepFlags, hfg, if_false]
        rw [h1, h2]; exact fnFlags_noB h ds f
    | obj x s e t ty init =>
      have h1 : firstFlags (.obj x s e t ty init :: ds) f = firstFlags ds f := by simp [firstFlags, List.findSome?]
      have h2 : fnFlags (.obj x s e t ty init :: ds) f = fnFlags ds f := by
        simp only [fnFlags, flagsAfter, List.foldl_cons, stepFlags]
      rw [h1, h2]; exact fnFlags_noB h ds f

/-- the condition of the root loop on the view -/
def effRootV (v : FV) : Bool := v.isRoot || (Rules.flagsFollow && !(v.isStatic && v.isInline))

theorem effRoot_fview (o : Obj) : effRoot o = effRootV (fview o) := rfl

theorem evolve_some_flags : ∀ (ds : List Decl) (f : Name) (v : FV),
    ∃ v', evolve ds f (some v) = some v' ∧
      (Rules.flagsFollow = false → v'.isStatic = v.isStatic ∧ v'.isInline = v.isInline) ∧
      v'.refs = v.refs ++ allBodyRefs ds f ∧
      v'.isRoot = (v.isRoot || (!Rules.flagsFollow && declares ds f && !(v.isStatic && v.isInline)) || fileRooted ds true f)
  | [], f, v => ⟨v, rfl, fun _ => ⟨rfl, rfl⟩, by simp [allBodyRefs], by simp [declares, fileRooted]⟩
  | d :: ds, f, v => by
    cases d with
    | func g n s e i body =>
      by_cases hfg : f = g
      · subst hfg
        -- the entry after this declaration
        have hstep : ∃ v1, stepFV (.func f n s e i body) f (some v) = some v1 ∧
            (Rules.flagsFollow = false → v1.isStatic = v.isStatic ∧ v1.isInline = v.isInline) ∧
            v1.refs = v.refs ++ (match body with | some b => bodyFnRefs b | none => []) ∧
            v1.isRoot = (v.isRoot || (!Rules.flagsFollow && !(v.isStatic && v.isInline))) := by
          simp only [stepFV, if_true]
          cases hB : Rules.flagsFollow
          · cases body with
            | none =>
              refine ⟨_, rfl, fun _ => ⟨?_, ?_⟩, ?_, ?_⟩ <;>
                simp [rootIf_isStatic, rootIf_isInline, rootIf_refs, rootIf_isRoot, orDef, redeclV_noB hB, hB]
            | some b =>
              refine ⟨_, rfl, fun _ => ⟨?_, ?_⟩, ?_, ?_⟩ <;>
                simp [rootIf_isStatic, rootIf_isInline, rootIf_refs, rootIf_isRoot, orDef, addRefs, redeclV_noB hB, hB]
          · cases body with
            | none =>
              refine ⟨_, rfl, (fun h => absurd h (by decide)), ?_, ?_⟩ <;>
                simp [rootIf_refs, rootIf_isRoot, orDef, redeclV_refs, redeclV_isRoot, hB]
            | some b =>
              refine ⟨_, rfl, (fun h => absurd h (by decide)), ?_, ?_⟩ <;>
                simp [rootIf_refs, rootIf_isRoot, orDef, addRefs, redeclV_refs, redeclV_isRoot, hB]
        obtain ⟨v1, h1, hf1, hr1, hroot1⟩ := hstep
        obtain ⟨v', h', hf', hr', hroot'⟩ := evolve_some_flags ds f v1
        refine ⟨v', ?_, fun hB => ⟨((hf' hB).1).trans (hf1 hB).1, ((hf' hB).2).trans (hf1 hB).2⟩, ?_, ?_⟩
        · simp only [evolve, List.foldl_cons] at h' ⊢
          rw [h1]; exact h'
        · rw [hr', hr1]
          cases body <;> simp [allBodyRefs, List.append_assoc]
        · rw [hroot', hroot1]
          simp only [declares, List.any_cons, beq_self_eq_true, Bool.true_or, Bool.true_and, fileRooted, Bool.or_true]
          cases hB : Rules.flagsFollow
          · rw [(hf1 hB).1, (hf1 hB).2]
            cases v.isRoot <;> cases (!(v.isStatic && v.isInline)) <;> simp [declares]
          · simp
      · obtain ⟨v', h', hf', hr', hroot'⟩ := evolve_some_flags ds f v
        refine ⟨v', ?_, hf', ?_, ?_⟩
        · simp only [evolve, List.foldl_cons, stepFV, hfg, if_false] at h' ⊢
          exact h'
        · rw [hr']
          have : g ≠ f := fun e => hfg e.symm
          cases body <;> simp [allBodyRefs, this]
        · rw [hroot']
          have : (g == f) = false := by simp; exact fun e => hfg e.symm
          simp [declares, fileRooted, this]
    | obj x s e t ty init =>
      cases init with
      | none =>
        obtain ⟨v', h', hf', hr', hroot'⟩ := evolve_some_flags ds f v
        refine ⟨v', ?_, hf', ?_, ?_⟩
        · simp only [evolve, List.foldl_cons, stepFV] at h' ⊢; exact h'
        · rw [hr']; simp [allBodyRefs]
        · rw [hroot']; simp [declares, fileRooted]
      | some items =>
        let v1 : FV := if f ∈ initFnRefs items then setRoot v else v
        obtain ⟨v', h', hf', hr', hroot'⟩ := evolve_some_flags ds f v1
        have hs1 : v1.isStatic = v.isStatic := by simp only [v1]; split <;> rfl
        have hi1 : v1.isInline = v.isInline := by simp only [v1]; split <;> rfl
        have hr1 : v1.refs = v.refs := by simp only [v1]; split <;> rfl
        have hroot1 : v1.isRoot = (v.isRoot || (initFnRefs items).contains f) := by
          simp only [v1]
          by_cases hm : f ∈ initFnRefs items
          · simp [hm, setRoot]
          · simp [hm]
        refine ⟨v', ?_, fun hB => ⟨((hf' hB).1).trans hs1, ((hf' hB).2).trans hi1⟩, ?_, ?_⟩
        · simp only [evolve, List.foldl_cons, stepFV, Option.map_some] at h' ⊢; exact h'
        · rw [hr', hr1]; simp [allBodyRefs]
        · rw [hroot', hroot1, hs1, hi1]
          simp only [declares, List.any_cons, fileRooted, Bool.true_and, Bool.false_or]
          cases v.isRoot <;> cases (initFnRefs items).contains f <;> simp

theorem stepFV_create (f : Name) (n : Nat) (s e i : Bool) (body : Option (List BodyItem)) :
    ∃ v1, stepFV (.func f n s e i body) f none = some v1 ∧ v1.isStatic = (s || (i && !e)) ∧ v1.isInline = i ∧
      v1.refs = (match body with | some b => bodyFnRefs b | none => []) ∧
      v1.isRoot = (!Rules.flagsFollow && !((s || (i && !e)) && i)) := by
  cases body with
  | none =>
    exact ⟨rootIf (newFV s e i false), by simp [stepFV], by simp [rootIf_isStatic, newFV],
      by simp [rootIf_isInline, newFV], by simp [rootIf_refs, newFV], by simp [rootIf_isRoot, newFV]⟩
  | some b =>
    exact ⟨addRefs (bodyFnRefs b) (rootIf (newFV s e i true)), by simp [stepFV],
      by simp [addRefs, rootIf_isStatic, newFV], by simp [addRefs, rootIf_isInline, newFV], by simp [addRefs, rootIf_refs, newFV],
      by simp [addRefs, rootIf_isRoot, newFV]⟩

/-- the entry of `f` in terms of the flags of its first declaration (raw form) -/
theorem evolve_none_raw : ∀ (ds : List Decl) (f : Name),
    (firstFlags ds f = none → evolve ds f none = none) ∧
    (∀ st inl, firstFlags ds f = some (st, inl) → ∃ v', evolve ds f none = some v' ∧
      (Rules.flagsFollow = false → v'.isStatic = st ∧ v'.isInline = inl) ∧
      v'.refs = allBodyRefs ds f ∧ v'.isRoot = ((!Rules.flagsFollow && !(st && inl)) || fileRooted ds false f))
  | [], f => ⟨fun _ => rfl, fun _ _ h => by simp [firstFlags] at h⟩
  | d :: ds, f => by
    have ih := evolve_none_raw ds f
    cases d with
    | func g n s e i body =>
      by_cases hfg : f = g
      · subst hfg
        have hff : firstFlags (.func f n s e i body :: ds) f = some (s || (i && !e), i) := by
          simp [firstFlags, List.findSome?]
        refine ⟨fun h => ?_, fun st inl h => ?_⟩
        · rw [hff] at h; cases h
        rw [hff] at h
        simp only [Option.some.injEq, Prod.mk.injEq] at h
        obtain ⟨rfl, rfl⟩ := h
        obtain ⟨v1, hstep, hs1, hi1, hr1, hroot1⟩ := stepFV_create f n s e i body
        obtain ⟨v', h', hf', hr', hroot'⟩ := evolve_some_flags ds f v1
        refine ⟨v', ?_, fun hB => ⟨((hf' hB).1).trans hs1, ((hf' hB).2).trans hi1⟩, ?_, ?_⟩
        · simp only [evolve, List.foldl_cons] at h' ⊢
          rw [hstep]; exact h'
        · rw [hr', hr1]
          cases body <;> simp [allBodyRefs]
        · rw [hroot', hroot1, hs1, hi1]
          simp only [fileRooted, Bool.false_or, beq_self_eq_true]
          cases Rules.flagsFollow <;> cases (!((s || (i && !e)) && i)) <;> simp
      · have hstep : stepFV (.func g n s e i body) f none = none := by simp [stepFV, hfg]
        have hne : g ≠ f := fun e => hfg e.symm
        have hff : firstFlags (.func g n s e i body :: ds) f = firstFlags ds f := by
          simp [firstFlags, List.findSome?, hne]
        have hfr : fileRooted (.func g n s e i body :: ds) false f = fileRooted ds false f := by
          have : (g == f) = false := by simp [hne]
          simp [fileRooted, this]
        have hab : allBodyRefs (.func g n s e i body :: ds) f = allBodyRefs ds f := by
          cases body <;> simp [allBodyRefs, hne]
        rw [hff, hfr, hab]
        have hev : evolve (.func g n s e i body :: ds) f none = evolve ds f none := by
          simp only [evolve, List.foldl_cons, hstep]
        rw [hev]; exact ih
    | obj x s e t ty init =>
      have hstep : stepFV (.obj x s e t ty init) f none = none := by cases init <;> simp [stepFV]
      have hff : firstFlags (.obj x s e t ty init :: ds) f = firstFlags ds f := by
        simp [firstFlags, List.findSome?]
      have hfr : fileRooted (.obj x s e t ty init :: ds) false f = fileRooted ds false f := by
        simp [fileRooted]
      have hab : allBodyRefs (.obj x s e t ty init :: ds) f = allBodyRefs ds f := by
        simp [allBodyRefs]
      rw [hff, hfr, hab]
      have hev : evolve (.obj x s e t ty init :: ds) f none = evolve ds f none := by
        simp only [evolve, List.foldl_cons, hstep]
      rw [hev]; exact ih

/-- **the entry of `f` after all declarations**, in terms of its final flags `fnFlags ds f`: the flags, the recorded
    references, and the condition of the root loop (`effRootV`): not `static inline` by the final flags, or named in a
    file-scope initializer after its declaration -/
theorem evolve_none (ds : List Decl) (f : Name) :
    (firstFlags ds f = none → evolve ds f none = none) ∧
    (∀ st inl, fnFlags ds f = some (st, inl) → ∃ v', evolve ds f none = some v' ∧ v'.isStatic = st ∧
      v'.isInline = inl ∧ v'.refs = allBodyRefs ds f ∧ effRootV v' = (!(st && inl) || fileRooted ds false f)) := by
  obtain ⟨hnone, hsome⟩ := evolve_none_raw ds f
  refine ⟨hnone, fun st inl hfl => ?_⟩
  have hsm : (firstFlags ds f).isSome = true := by rw [← fnFlags_isSome, hfl]; rfl
  cases hff : firstFlags ds f with
  | none => rw [hff] at hsm; cases hsm
  | some p =>
    obtain ⟨st0, inl0⟩ := p
    obtain ⟨v', hv', hnoB, hrefs, hroot⟩ := hsome st0 inl0 hff
    have hfo := flagsOf_evolve ds f none
    rw [hv'] at hfo
    simp only [Option.map_some, Option.map_none] at hfo
    have hfl' : some (v'.isStatic, v'.isInline) = some (st, inl) := by
      rw [← hfl, fnFlags, ← hfo]; rfl
    simp only [Option.some.injEq, Prod.mk.injEq] at hfl'
    refine ⟨v', hv', hfl'.1, hfl'.2, hrefs, ?_⟩
    unfold effRootV
    rw [hroot, hfl'.1, hfl'.2]
    cases hB : Rules.flagsFollow
    · obtain ⟨h1, h2⟩ := hnoB hB
      rw [← h1, ← h2, hfl'.1, hfl'.2]
      simp
    · cases (!(st && inl)) <;> simp

/-- the function table after parsing `ds` from the empty state -/
theorem T_parse {ds : List Decl} {st : PState} (h : declAll {} ds = .ok st) (f : Name) :
    T st.globals f = evolve ds f none := by
  rw [T_declAll ds h, foldT_eq]
  rfl

omit [Rules] in
theorem allBodyRefs_cons (d : Decl) (ds : List Decl) (f : Name) :
    allBodyRefs (d :: ds) f =
      (match d with | .func g _ _ _ _ (some b) => if g = f then bodyFnRefs b else [] | _ => []) ++ allBodyRefs ds f := by
  simp [allBodyRefs, List.flatMap_cons]

omit [Rules] in
theorem allBodyRefs_undeclared : ∀ (ds : List Decl) (f : Name), firstFlags ds f = none → allBodyRefs ds f = []
  | [], _, _ => rfl
  | d :: ds, f, h => by
    rw [allBodyRefs_cons]
    cases d with
    | func g n s e i body =>
      by_cases hgf : g = f
      · simp [firstFlags, List.findSome?, hgf] at h
      · have h' : firstFlags ds f = none := by simpa [firstFlags, List.findSome?, hgf] using h
        rw [allBodyRefs_undeclared ds f h']
        cases body <;> simp [hgf]
    | obj x s e t ty init =>
      have h' : firstFlags ds f = none := by simpa [firstFlags, List.findSome?] using h
      rw [allBodyRefs_undeclared ds f h']
      rfl

omit [Rules] in
theorem isFn_eq_T (gs : List Obj) (f : Name) : isFn gs f = (T gs f).isSome := by
  simp [isFn, T]

omit [Rules] in
theorem refsOf_eq_T (gs : List Obj) (f : Name) : refsOf gs f = ((T gs f).map (·.refs)).getD [] := by
  unfold refsOf T
  cases findFunc gs f <;> rfl

theorem mem_rootNames_iff_T {gs : List Obj} (hn : (fnNamesOf gs).Nodup) (f : Name) :
    f ∈ rootNames gs ↔ ∃ v, T gs f = some v ∧ effRootV v = true := by
  constructor
  · intro h
    obtain ⟨o, ho, hfun, hs, hr⟩ := of_mem_rootNames h
    refine ⟨fview o, ?_, by rw [← effRoot_fview]; exact hr⟩
    simp [T, findFunc_of_mem hn ho hfun hs]
  · rintro ⟨v, hv, hr⟩
    unfold T at hv
    cases hf : findFunc gs f with
    | none => simp [hf] at hv
    | some o =>
      simp only [hf, Option.map_some, Option.some.injEq] at hv
      have ho := List.mem_of_find?_eq_some hf
      have hp := List.find?_some hf
      simp only [Bool.and_eq_true, beq_iff_eq] at hp
      exact mem_rootNames ho hp.1 hp.2 (by rw [effRoot_fview, hv]; exact hr)

end ChibiVerif.Linkage
