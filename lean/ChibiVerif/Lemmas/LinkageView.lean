/-
Helper lemmas for C15: what `declAll` records about each function (`is_static`, `is_inline`, `is_root`,
`is_definition`, `refs`), read through `find_func`, as a function of the declaration sequence.

Layer 1: every parser step acts on the table `T st : Name → Option FV` as the pure function `stepT` does.
Layer 2 (Props/C15.lean uses it): closed form of folding `stepT` over the declarations.
-/
import ChibiVerif.Lemmas.LinkageParse
import ChibiVerif.Spec.LinkageSpec

namespace ChibiVerif.Linkage
open ChibiVerif.Spec.Linkage (initFnRefs bodyFnRefs)

/-- the fields of a function object the liveness logic reads -/
structure FV where
  isStatic : Bool
  isInline : Bool
  isRoot : Bool
  isDefinition : Bool
  refs : List Name
  deriving DecidableEq, Repr

def fview (o : Obj) : FV := ⟨o.isStatic, o.isInline, o.isRoot, o.isDefinition, o.refs⟩

/-- the function table of a parser state, through `find_func` -/
def T (gs : List Obj) : Name → Option FV := fun f => (findFunc gs f).map fview

def updT (t : Name → Option FV) (f : Name) (u : FV → FV) : Name → Option FV :=
  fun g => if g = f then (t f).map u else t g

/-! ### primitive mutations seen through `T` -/

theorem T_cons_data {o : Obj} (h : o.isFunction = false) (gs : List Obj) : T (o :: gs) = T gs := by
  funext g
  simp [T, findFunc, List.find?, h]

theorem T_cons_fn {o : Obj} {f : Name} (hf : o.isFunction = true) (hs : o.sym = .named f) (gs : List Obj) :
    T (o :: gs) = fun g => if g = f then some (fview o) else T gs g := by
  funext g
  by_cases hg : g = f
  · subst hg; simp [T, findFunc, List.find?, hf, hs]
  · have : (o.isFunction && o.sym == Sym.named g) = false := by
      simp only [hf, hs, Bool.true_and, beq_eq_false_iff_ne, ne_eq, Sym.named.injEq]
      exact fun e => hg e.symm
    simp [T, findFunc, List.find?, this, hg]

/-- an update of `find_func(f)` that acts on the view as `v` -/
theorem T_updFunc {u : Obj → Obj} {v : FV → FV} (hu : KeepsId u) (huv : ∀ o, fview (u o) = v (fview o))
    (gs : List Obj) (f : Name) : T (updFunc gs f u) = updT (T gs) f v := by
  funext g
  simp only [T, updT, findFunc_updFunc hu]
  by_cases hg : g = f
  · simp only [hg, if_true, Option.map_map]
    congr 1
    funext o; exact huv o
  · simp [hg]

/-- updating an object that is not a function does not change the table -/
theorem T_updFirst_data {p : Obj → Bool} {u : Obj → Obj} (hp : ∀ o, p o = true → o.isFunction = false)
    (hu : KeepsId u) (gs : List Obj) : T (updFirst p u gs) = T gs := by
  funext g
  simp only [T]
  congr 1
  induction gs with
  | nil => rfl
  | cons a as ih =>
    unfold updFirst
    by_cases hpa : p a = true
    · have hfa := hp a hpa
      rw [if_pos hpa]
      simp [findFunc, List.find?, (hu a).1, hfa]
    · rw [if_neg hpa]
      simp only [findFunc, List.find?] at ih ⊢
      rw [ih]

theorem updT_id (t : Name → Option FV) (f : Name) : updT t f (fun v => v) = t := by
  funext g
  by_cases hg : g = f
  · subst hg; simp [updT]
  · simp [updT, hg]

theorem updT_updT (t : Name → Option FV) (f : Name) (u1 u2 : FV → FV) :
    updT (updT t f u1) f u2 = updT t f (fun v => u2 (u1 v)) := by
  funext g
  by_cases hg : g = f
  · subst hg; simp [updT, Option.map_map, Function.comp_def]
  · simp [updT, hg]

def addRefs (l : List Name) : FV → FV := fun v => { v with refs := v.refs ++ l }
def setRoot : FV → FV := fun v => { v with isRoot := true }
def rootIf : FV → FV := fun v => if !(v.isStatic && v.isInline) then { v with isRoot := true } else v
def orDef (b : Bool) : FV → FV := fun v => { v with isDefinition := v.isDefinition || b }

/-- mark every function named in `l` as a root -/
def rootAll (t : Name → Option FV) (l : List Name) : Name → Option FV :=
  fun g => (t g).map (fun v => if g ∈ l then setRoot v else v)

theorem rootAll_nil (t : Name → Option FV) : rootAll t [] = t := by
  funext g
  simp [rootAll]

theorem addRefs_nil : addRefs [] = fun v => v := by
  funext v; simp [addRefs]

theorem addRefs_addRefs (a b : List Name) : (fun v => addRefs b (addRefs a v)) = addRefs (a ++ b) := by
  funext v; simp [addRefs, List.append_assoc]

/-! ### the parser's steps -/

theorem T_newAnon (st : PState) (ty : ObjTy) (hi : Bool) (uses : List Sym) :
    T (newAnon st ty hi uses).1.globals = T st.globals :=
  T_cons_data rfl _

theorem T_recordFnRef_some {f : Name} {st st' : PState} {g : Name} (h : recordFnRef (some f) st g = .ok st') :
    T st'.globals = updT (T st.globals) f (addRefs [g]) := by
  unfold recordFnRef at h
  split at h
  · cases h
  · cases h
    dsimp only
    refine T_updFunc (v := addRefs [g]) ?_ ?_ _ _
    · exact fun _ => ⟨rfl, rfl⟩
    · exact fun _ => rfl

theorem T_recordFnRef_none {st st' : PState} {g : Name} (h : recordFnRef none st g = .ok st') :
    T st'.globals = updT (T st.globals) g setRoot := by
  unfold recordFnRef at h
  split at h
  · cases h
  · cases h
    dsimp only
    refine T_updFunc (v := setRoot) ?_ ?_ _ _
    · exact fun _ => ⟨rfl, rfl⟩
    · exact fun _ => rfl

/-- references recorded by an initializer inside the body of `f` -/
theorem T_initItems_some {f : Name} : ∀ (items : List InitItem) {st st' : PState} {ss : List Sym},
    initItems (some f) st items = .ok (st', ss) → T st'.globals = updT (T st.globals) f (addRefs (initFnRefs items)) := by
  intro items
  induction items with
  | nil =>
    intro st st' ss h
    simp only [initItems, pure, Except.pure, Except.ok.injEq, Prod.mk.injEq] at h
    rw [← h.1]
    simp [initFnRefs, addRefs_nil, updT_id]
  | cons it rest ih =>
    intro st st' ss h
    cases it with
    | ref r =>
      simp only [initItems, bind, Except.bind] at h
      split at h
      · cases h
      · rename_i p1 h1
        split at h
        · cases h
        · rename_i p2 h2
          simp only [pure, Except.pure, Except.ok.injEq, Prod.mk.injEq] at h
          rw [← h.1]
          have ih' := ih (st := p1.1) (st' := p2.1) (ss := p2.2) (by simpa using h2)
          rw [ih']
          cases r with
          | fn g =>
            simp only [useRef, bind, Except.bind] at h1
            split at h1
            · cases h1
            · rename_i st1 hr
              simp only [pure, Except.pure, Except.ok.injEq] at h1
              have : p1.1 = st1 := by rw [← h1]
              rw [this, T_recordFnRef_some hr, updT_updT, addRefs_addRefs]
              simp [initFnRefs]
          | obj x =>
            simp only [useRef] at h1
            split at h1
            · cases h1
            · simp only [pure, Except.pure, Except.ok.injEq] at h1
              have : p1.1 = st := by rw [← h1]
              rw [this]
              simp [initFnRefs]
    | str n =>
      simp only [initItems, bind, Except.bind] at h
      split at h
      · cases h
      · rename_i p2 h2
        simp only [pure, Except.pure, Except.ok.injEq, Prod.mk.injEq] at h
        rw [← h.1]
        have ih' := ih (st := (newAnon st (strTy n) true).1) (st' := p2.1) (ss := p2.2) (by simpa using h2)
        rw [ih', T_newAnon]
        simp [initFnRefs]

theorem setRoot_idem (v : FV) : setRoot (setRoot v) = setRoot v := rfl

theorem rootAll_cons (t : Name → Option FV) (g : Name) (l : List Name) :
    rootAll (updT t g setRoot) l = rootAll t (g :: l) := by
  funext h
  by_cases hg : h = g
  · subst hg
    simp only [rootAll, updT, if_true, Option.map_map, List.mem_cons, true_or]
    congr 1
    funext v
    simp only [Function.comp]
    split <;> rfl
  · simp [rootAll, updT, hg]

/-- references in a file-scope initializer make roots -/
theorem T_initItems_none : ∀ (items : List InitItem) {st st' : PState} {ss : List Sym},
    initItems none st items = .ok (st', ss) → T st'.globals = rootAll (T st.globals) (initFnRefs items) := by
  intro items
  induction items with
  | nil =>
    intro st st' ss h
    simp only [initItems, pure, Except.pure, Except.ok.injEq, Prod.mk.injEq] at h
    rw [← h.1]
    simp [initFnRefs, rootAll_nil]
  | cons it rest ih =>
    intro st st' ss h
    cases it with
    | ref r =>
      simp only [initItems, bind, Except.bind] at h
      split at h
      · cases h
      · rename_i p1 h1
        split at h
        · cases h
        · rename_i p2 h2
          simp only [pure, Except.pure, Except.ok.injEq, Prod.mk.injEq] at h
          rw [← h.1]
          have ih' := ih (st := p1.1) (st' := p2.1) (ss := p2.2) (by simpa using h2)
          rw [ih']
          cases r with
          | fn g =>
            simp only [useRef, bind, Except.bind] at h1
            split at h1
            · cases h1
            · rename_i st1 hr
              simp only [pure, Except.pure, Except.ok.injEq] at h1
              have : p1.1 = st1 := by rw [← h1]
              rw [this, T_recordFnRef_none hr, rootAll_cons]
              simp [initFnRefs]
          | obj x =>
            simp only [useRef] at h1
            split at h1
            · cases h1
            · simp only [pure, Except.pure, Except.ok.injEq] at h1
              have : p1.1 = st := by rw [← h1]
              rw [this]
              simp [initFnRefs]
    | str n =>
      simp only [initItems, bind, Except.bind] at h
      split at h
      · cases h
      · rename_i p2 h2
        simp only [pure, Except.pure, Except.ok.injEq, Prod.mk.injEq] at h
        rw [← h.1]
        have ih' := ih (st := (newAnon st (strTy n) true).1) (st' := p2.1) (ss := p2.2) (by simpa using h2)
        rw [ih', T_newAnon]
        simp [initFnRefs]

theorem data_pred (s : Sym) : ∀ o : Obj, (o.sym == s && !o.isFunction) = true → o.isFunction = false := by
  intro o h
  simp only [Bool.and_eq_true, Bool.not_eq_true'] at h
  exact h.2

/-- one body item: the function references it records are appended to `f`'s list -/
theorem T_bodyItem {f : Name} {st st' : PState} {b : BodyItem} {us : List Sym}
    (h : bodyItem f st b = .ok (st', us)) :
    T st'.globals = updT (T st.globals) f (addRefs (bodyFnRefs [b])) := by
  cases b with
  | ref r =>
    simp only [bodyItem, bind, Except.bind] at h
    split at h
    · cases h
    · rename_i p1 h1
      simp only [pure, Except.pure, Except.ok.injEq, Prod.mk.injEq] at h
      rw [← h.1]
      cases r with
      | fn g =>
        simp only [useRef, bind, Except.bind] at h1
        split at h1
        · cases h1
        · rename_i st1 hr
          simp only [pure, Except.pure, Except.ok.injEq] at h1
          have : p1.1 = st1 := by rw [← h1]
          rw [this, T_recordFnRef_some hr]
          simp [bodyFnRefs]
      | obj x =>
        simp only [useRef] at h1
        split at h1
        · cases h1
        · simp only [pure, Except.pure, Except.ok.injEq] at h1
          have : p1.1 = st := by rw [← h1]
          rw [this]
          simp [bodyFnRefs, addRefs_nil, updT_id]
  | staticLocal tls ty init =>
    cases init with
    | none =>
      simp only [bodyItem, pure, Except.pure, Except.ok.injEq, Prod.mk.injEq] at h
      rw [← h.1]
      dsimp only
      rw [T_updFirst_data (u := fun o => { o with isTls := tls }) (data_pred _) (fun _ => ⟨rfl, rfl⟩), T_newAnon]
      simp [bodyFnRefs, addRefs_nil, updT_id]
    | some items =>
      simp only [bodyItem, bind, Except.bind] at h
      split at h
      · cases h
      · rename_i p1 h1
        simp only [pure, Except.pure, Except.ok.injEq, Prod.mk.injEq] at h
        rw [← h.1]
        dsimp only
        have h1' := T_initItems_some items (st' := p1.1) (ss := p1.2) (by simpa using h1)
        dsimp only at h1'
        rw [T_updFirst_data (u := fun o => { o with isTls := tls }) (data_pred _) (fun _ => ⟨rfl, rfl⟩), T_newAnon] at h1'
        unfold setUses
        rw [T_updFirst_data (u := fun o => { o with uses := p1.2 }) (data_pred _) (fun _ => ⟨rfl, rfl⟩), h1']
        simp [bodyFnRefs]
  | str n =>
    simp only [bodyItem, pure, Except.pure, Except.ok.injEq, Prod.mk.injEq] at h
    rw [← h.1, T_newAnon]
    simp [bodyFnRefs, addRefs_nil, updT_id]
  | externObj x tls ty =>
    simp only [bodyItem, pure, Except.pure, Except.ok.injEq, Prod.mk.injEq] at h
    rw [← h.1]
    dsimp only
    rw [T_cons_data rfl]
    simp [bodyFnRefs, addRefs_nil, updT_id]

theorem bodyFnRefs_cons (b : BodyItem) (rest : List BodyItem) :
    bodyFnRefs (b :: rest) = bodyFnRefs [b] ++ bodyFnRefs rest := by
  simp [bodyFnRefs]

theorem T_bodyItems {f : Name} : ∀ (items : List BodyItem) {st st' : PState} {us : List Sym},
    bodyItems f st items = .ok (st', us) → T st'.globals = updT (T st.globals) f (addRefs (bodyFnRefs items)) := by
  intro items
  induction items with
  | nil =>
    intro st st' us h
    simp only [bodyItems, pure, Except.pure, Except.ok.injEq, Prod.mk.injEq] at h
    rw [← h.1]
    simp [bodyFnRefs, addRefs_nil, updT_id]
  | cons b rest ih =>
    intro st st' us h
    simp only [bodyItems, bind, Except.bind] at h
    split at h
    · cases h
    · rename_i p1 h1
      split at h
      · cases h
      · rename_i p2 h2
        simp only [pure, Except.pure, Except.ok.injEq, Prod.mk.injEq] at h
        rw [← h.1]
        have e1 := T_bodyItem (st' := p1.1) (us := p1.2) (by simpa using h1)
        have e2 := ih (st := p1.1) (st' := p2.1) (us := p2.2) (by simpa using h2)
        rw [e2, e1, updT_updT, addRefs_addRefs, ← bodyFnRefs_cons]

/-! ### the abstract step on the function table -/

/-- what one file-scope declaration does to the function table -/
def stepT (t : Name → Option FV) : Decl → (Name → Option FV)
  | .func f _ s e i body =>
    let t1 : Name → Option FV := match t f with
      | some _ => updT t f (orDef body.isSome)
      | none => fun g => if g = f then some ⟨s || (i && !e), i, false, body.isSome, []⟩ else t g
    let t2 := updT t1 f rootIf
    match body with
    | none => t2
    | some b => updT t2 f (addRefs (bodyFnRefs b))
  | .obj _ _ _ _ _ init =>
    match init with
    | none => t
    | some items => rootAll t (initFnRefs items)

theorem fview_rootIf (o : Obj) :
    fview (if !(o.isStatic && o.isInline) then { o with isRoot := true } else o) = rootIf (fview o) := by
  unfold rootIf fview
  by_cases h : (!(o.isStatic && o.isInline)) = true
  · simp only [h, if_true]
  · simp only [h]; rfl

theorem T_none_iff (gs : List Obj) (f : Name) : T gs f = none ↔ findFunc gs f = none := by
  simp [T]

theorem T_declFunctionHead {st st' : PState} {f : Name} {s e i b : Bool}
    (h : declFunctionHead st f s e i b = .ok st') :
    T st'.globals = updT (match T st.globals f with
      | some _ => updT (T st.globals) f (orDef b)
      | none => fun g => if g = f then some ⟨s || (i && !e), i, false, b, []⟩ else T st.globals g) f rootIf := by
  unfold declFunctionHead at h
  split at h
  · rename_i fn hfn
    have hT : T st.globals f = some (fview fn) := by simp [T, hfn]
    split at h
    · cases h
    · split at h
      · cases h
      · cases h
        dsimp only
        rw [hT]
        dsimp only
        rw [T_updFunc (u := fun o => if !(o.isStatic && o.isInline) then { o with isRoot := true } else o) (v := rootIf),
            T_updFunc (u := fun o => { o with isDefinition := o.isDefinition || b }) (v := orDef b)]
        · exact fun _ => ⟨rfl, rfl⟩
        · exact fun _ => rfl
        · intro o; dsimp only; split <;> exact ⟨rfl, rfl⟩
        · exact fview_rootIf
  · rename_i hfn
    have hT : T st.globals f = none := by simp [T, hfn]
    cases h
    dsimp only
    rw [hT]
    dsimp only
    rw [T_updFunc (u := fun o => if !(o.isStatic && o.isInline) then { o with isRoot := true } else o) (v := rootIf)]
    · rw [T_cons_fn rfl rfl]
      rfl
    · intro o; dsimp only; split <;> exact ⟨rfl, rfl⟩
    · exact fview_rootIf

theorem T_declStep {st st' : PState} {d : Decl} (h : declStep st d = .ok st') :
    T st'.globals = stepT (T st.globals) d := by
  cases d with
  | func f n s e i body =>
    simp only [declStep, declFunction] at h
    split at h
    · cases h
    · rename_i st1 h1
      have e1 := T_declFunctionHead h1
      cases body with
      | none =>
        cases h
        simp only [stepT]
        rw [e1]
      | some items =>
        simp only at h
        split at h
        · cases h
        · rename_i st2 uses hp
          cases h
          dsimp only
          rw [T_updFunc (u := fun o => { o with uses := uses }) (v := fun v => v) (fun _ => ⟨rfl, rfl⟩) (fun _ => rfl), updT_id,
              T_bodyItems items hp, T_newAnon, T_newAnon, e1]
          simp only [stepT]
  | obj x s e t ty init =>
    simp only [declStep, declObject] at h
    cases init with
    | none =>
      simp only [pure, Except.pure, Except.ok.injEq] at h
      rw [← h]
      dsimp only
      rw [T_cons_data rfl]
      rfl
    | some items =>
      simp only [bind, Except.bind] at h
      split at h
      · cases h
      · rename_i p hp
        simp only [pure, Except.pure, Except.ok.injEq] at h
        rw [← h]
        dsimp only
        rw [T_updFirst_data (u := fun o => { o with uses := p.2 })
              (p := fun o => o.sym == .named x && !o.isFunction) (data_pred _) (fun _ => ⟨rfl, rfl⟩)]
        have := T_initItems_none items (st' := p.1) (ss := p.2) (by simpa using hp)
        rw [this]
        dsimp only
        rw [T_cons_data rfl]
        rfl

/-- folding `stepT` -/
def foldT (t : Name → Option FV) : List Decl → (Name → Option FV)
  | [] => t
  | d :: ds => foldT (stepT t d) ds

theorem T_declAll : ∀ (ds : List Decl) {st st' : PState}, declAll st ds = .ok st' →
    T st'.globals = foldT (T st.globals) ds := by
  intro ds
  induction ds with
  | nil =>
    intro st st' h
    simp only [declAll, pure, Except.pure, Except.ok.injEq] at h
    rw [← h]; rfl
  | cons d rest ih =>
    intro st st' h
    simp only [declAll, bind, Except.bind] at h
    split at h
    · cases h
    · rename_i st1 h1
      rw [ih h, T_declStep h1]
      rfl

/-! ### layer 2: the entry of one name evolves by itself -/

theorem rootIf_isStatic (v : FV) : (rootIf v).isStatic = v.isStatic := by
  unfold rootIf; by_cases h : (!(v.isStatic && v.isInline)) = true <;> simp [h]
theorem rootIf_isInline (v : FV) : (rootIf v).isInline = v.isInline := by
  unfold rootIf; by_cases h : (!(v.isStatic && v.isInline)) = true <;> simp [h]
theorem rootIf_refs (v : FV) : (rootIf v).refs = v.refs := by
  unfold rootIf; by_cases h : (!(v.isStatic && v.isInline)) = true <;> simp [h]
theorem rootIf_isDefinition (v : FV) : (rootIf v).isDefinition = v.isDefinition := by
  unfold rootIf; by_cases h : (!(v.isStatic && v.isInline)) = true <;> simp [h]
theorem rootIf_isRoot (v : FV) : (rootIf v).isRoot = (v.isRoot || !(v.isStatic && v.isInline)) := by
  unfold rootIf
  by_cases h : (!(v.isStatic && v.isInline)) = true
  · simp only [h, if_true, Bool.or_true]
  · simp only [h]
    simp only [Bool.not_eq_true] at h
    simp [h]

/-- what a declaration does to the table entry of `f`, given only that entry -/
def stepFV (d : Decl) (f : Name) (cur : Option FV) : Option FV :=
  match d with
  | .func g _ s e i body =>
    if f = g then
      let v1 : FV := match cur with
        | some v => orDef body.isSome v
        | none => ⟨s || (i && !e), i, false, body.isSome, []⟩
      let v2 := rootIf v1
      some (match body with | none => v2 | some b => addRefs (bodyFnRefs b) v2)
    else cur
  | .obj _ _ _ _ _ init =>
    match init with
    | none => cur
    | some items => cur.map (fun v => if f ∈ initFnRefs items then setRoot v else v)

theorem stepT_eq (t : Name → Option FV) (d : Decl) (f : Name) : stepT t d f = stepFV d f (t f) := by
  cases d with
  | func g n s e i body =>
    simp only [stepT, stepFV]
    by_cases hfg : f = g
    · subst hfg
      simp only [if_true]
      cases ht : t f with
      | none => cases body <;> simp [updT]
      | some v => cases body <;> simp [updT, ht]
    · simp only [hfg, if_false]
      cases ht : t g with
      | none => cases body <;> simp [updT, hfg]
      | some v => cases body <;> simp [updT, hfg]
  | obj x s e t' ty init =>
    cases init with
    | none => rfl
    | some items => rfl

theorem foldT_eq : ∀ (ds : List Decl) (t : Name → Option FV) (f : Name),
    foldT t ds f = ds.foldl (fun cur d => stepFV d f cur) (t f)
  | [], _, _ => rfl
  | d :: ds, t, f => by
    simp only [foldT, List.foldl_cons]
    rw [foldT_eq ds (stepT t d) f, stepT_eq]

/-- the entry of `f` after the declarations `ds`, starting from `cur` -/
def evolve (ds : List Decl) (f : Name) (cur : Option FV) : Option FV := ds.foldl (fun cur d => stepFV d f cur) cur

def declares (ds : List Decl) (f : Name) : Bool := ds.any (fun d => match d with | .func g .. => g == f | _ => false)

/-- the references recorded in all bodies of `f` (a valid unit has at most one) -/
def allBodyRefs (ds : List Decl) (f : Name) : List Name :=
  ds.flatMap (fun d => match d with | .func g _ _ _ _ (some b) => if g = f then bodyFnRefs b else [] | _ => [])

/-- `f` is named in a file-scope initializer at a point where it is declared -/
def fileRooted : List Decl → Bool → Name → Bool
  | [], _, _ => false
  | .func g _ _ _ _ _ :: ds, dcl, f => fileRooted ds (dcl || g == f) f
  | .obj _ _ _ _ _ init :: ds, dcl, f =>
    (dcl && (match init with | some items => (initFnRefs items).contains f | none => false)) || fileRooted ds dcl f

/-- the flags `function` gives a new object -/
def firstFlags (ds : List Decl) (f : Name) : Option (Bool × Bool) :=
  ds.findSome? (fun d => match d with
    | .func g _ s e i _ => if g = f then some (s || (i && !e), i) else none
    | _ => none)

theorem evolve_some_flags : ∀ (ds : List Decl) (f : Name) (v : FV),
    ∃ v', evolve ds f (some v) = some v' ∧ v'.isStatic = v.isStatic ∧ v'.isInline = v.isInline ∧
      v'.refs = v.refs ++ allBodyRefs ds f ∧
      v'.isRoot = (v.isRoot || (declares ds f && !(v.isStatic && v.isInline)) || fileRooted ds true f)
  | [], f, v => ⟨v, rfl, rfl, rfl, by simp [allBodyRefs], by simp [declares, fileRooted]⟩
  | d :: ds, f, v => by
    cases d with
    | func g n s e i body =>
      by_cases hfg : f = g
      · subst hfg
        -- the entry after this declaration
        have hstep : ∃ v1, stepFV (.func f n s e i body) f (some v) = some v1 ∧ v1.isStatic = v.isStatic ∧
            v1.isInline = v.isInline ∧
            v1.refs = v.refs ++ (match body with | some b => bodyFnRefs b | none => []) ∧
            v1.isRoot = (v.isRoot || !(v.isStatic && v.isInline)) := by
          simp only [stepFV, if_true]
          cases body with
          | none =>
            refine ⟨_, rfl, ?_, ?_, ?_, ?_⟩ <;>
              simp [rootIf_isStatic, rootIf_isInline, rootIf_refs, rootIf_isRoot, orDef]
          | some b =>
            refine ⟨_, rfl, ?_, ?_, ?_, ?_⟩ <;>
              simp [rootIf_isStatic, rootIf_isInline, rootIf_refs, rootIf_isRoot, orDef, addRefs]
        obtain ⟨v1, h1, hs1, hi1, hr1, hroot1⟩ := hstep
        obtain ⟨v', h', hs', hi', hr', hroot'⟩ := evolve_some_flags ds f v1
        refine ⟨v', ?_, hs'.trans hs1, hi'.trans hi1, ?_, ?_⟩
        · simp only [evolve, List.foldl_cons] at h' ⊢
          rw [h1]; exact h'
        · rw [hr', hr1]
          cases body <;> simp [allBodyRefs, List.append_assoc]
        · rw [hroot', hroot1, hs1, hi1]
          simp only [declares, List.any_cons, beq_self_eq_true, Bool.true_or, Bool.true_and, fileRooted, Bool.or_true]
          cases v.isRoot <;> cases (!(v.isStatic && v.isInline)) <;> simp [declares]
      · obtain ⟨v', h', hs', hi', hr', hroot'⟩ := evolve_some_flags ds f v
        refine ⟨v', ?_, hs', hi', ?_, ?_⟩
        · simp only [evolve, List.foldl_cons, stepFV, hfg, if_false] at h' ⊢
          exact h'
        · rw [hr']
          have : g ≠ f := fun e => hfg e.symm
          cases body <;> simp [allBodyRefs, this]
        · rw [hroot']
          have : (g == f) = false := by simp; exact fun e => hfg e.symm
          simp [declares, fileRooted, this]
    | obj x s e t ty init =>
      cases init with
      | none =>
        obtain ⟨v', h', hs', hi', hr', hroot'⟩ := evolve_some_flags ds f v
        refine ⟨v', ?_, hs', hi', ?_, ?_⟩
        · simp only [evolve, List.foldl_cons, stepFV] at h' ⊢; exact h'
        · rw [hr']; simp [allBodyRefs]
        · rw [hroot']; simp [declares, fileRooted]
      | some items =>
        let v1 : FV := if f ∈ initFnRefs items then setRoot v else v
        obtain ⟨v', h', hs', hi', hr', hroot'⟩ := evolve_some_flags ds f v1
        have hs1 : v1.isStatic = v.isStatic := by simp only [v1]; split <;> rfl
        have hi1 : v1.isInline = v.isInline := by simp only [v1]; split <;> rfl
        have hr1 : v1.refs = v.refs := by simp only [v1]; split <;> rfl
        have hroot1 : v1.isRoot = (v.isRoot || (initFnRefs items).contains f) := by
          simp only [v1]
          by_cases hm : f ∈ initFnRefs items
          · simp [hm, setRoot]
          · simp [hm]
        refine ⟨v', ?_, hs'.trans hs1, hi'.trans hi1, ?_, ?_⟩
        · simp only [evolve, List.foldl_cons, stepFV, Option.map_some] at h' ⊢; exact h'
        · rw [hr', hr1]; simp [allBodyRefs]
        · rw [hroot', hroot1, hs1, hi1]
          simp only [declares, List.any_cons, fileRooted, Bool.true_and, Bool.false_or]
          cases v.isRoot <;> cases (initFnRefs items).contains f <;> simp

theorem stepFV_create (f : Name) (n : Nat) (s e i : Bool) (body : Option (List BodyItem)) :
    ∃ v1, stepFV (.func f n s e i body) f none = some v1 ∧ v1.isStatic = (s || (i && !e)) ∧ v1.isInline = i ∧
      v1.refs = (match body with | some b => bodyFnRefs b | none => []) ∧
      v1.isRoot = !((s || (i && !e)) && i) := by
  cases body with
  | none =>
    exact ⟨rootIf ⟨s || (i && !e), i, false, false, []⟩, by simp [stepFV], by simp [rootIf_isStatic],
      by simp [rootIf_isInline], by simp [rootIf_refs], by simp [rootIf_isRoot]⟩
  | some b =>
    exact ⟨addRefs (bodyFnRefs b) (rootIf ⟨s || (i && !e), i, false, true, []⟩), by simp [stepFV],
      by simp [addRefs, rootIf_isStatic], by simp [addRefs, rootIf_isInline], by simp [addRefs, rootIf_refs],
      by simp [addRefs, rootIf_isRoot]⟩

theorem evolve_none : ∀ (ds : List Decl) (f : Name),
    (firstFlags ds f = none → evolve ds f none = none) ∧
    (∀ st inl, firstFlags ds f = some (st, inl) → ∃ v', evolve ds f none = some v' ∧ v'.isStatic = st ∧
      v'.isInline = inl ∧ v'.refs = allBodyRefs ds f ∧ v'.isRoot = (!(st && inl) || fileRooted ds false f))
  | [], f => ⟨fun _ => rfl, fun _ _ h => by simp [firstFlags] at h⟩
  | d :: ds, f => by
    have ih := evolve_none ds f
    cases d with
    | func g n s e i body =>
      by_cases hfg : f = g
      · subst hfg
        have hff : firstFlags (.func f n s e i body :: ds) f = some (s || (i && !e), i) := by
          simp [firstFlags, List.findSome?]
        refine ⟨fun h => ?_, fun st inl h => ?_⟩
        · rw [hff] at h; cases h
        rw [hff] at h
        simp only [Option.some.injEq, Prod.mk.injEq] at h
        obtain ⟨rfl, rfl⟩ := h
        obtain ⟨v1, hstep, hs1, hi1, hr1, hroot1⟩ := stepFV_create f n s e i body
        obtain ⟨v', h', hs', hi', hr', hroot'⟩ := evolve_some_flags ds f v1
        refine ⟨v', ?_, hs'.trans hs1, hi'.trans hi1, ?_, ?_⟩
        · simp only [evolve, List.foldl_cons] at h' ⊢
          rw [hstep]; exact h'
        · rw [hr', hr1]
          cases body <;> simp [allBodyRefs]
        · rw [hroot', hroot1, hs1, hi1]
          simp only [fileRooted, Bool.false_or, beq_self_eq_true]
          cases (!((s || (i && !e)) && i)) <;> simp
      · have hstep : stepFV (.func g n s e i body) f none = none := by simp [stepFV, hfg]
        have hne : g ≠ f := fun e => hfg e.symm
        have hff : firstFlags (.func g n s e i body :: ds) f = firstFlags ds f := by
          simp [firstFlags, List.findSome?, hne]
        have hfr : fileRooted (.func g n s e i body :: ds) false f = fileRooted ds false f := by
          have : (g == f) = false := by simp [hne]
          simp [fileRooted, this]
        have hab : allBodyRefs (.func g n s e i body :: ds) f = allBodyRefs ds f := by
          cases body <;> simp [allBodyRefs, hne]
        rw [hff, hfr, hab]
        have hev : evolve (.func g n s e i body :: ds) f none = evolve ds f none := by
          simp only [evolve, List.foldl_cons, hstep]
        rw [hev]; exact ih
    | obj x s e t ty init =>
      have hstep : stepFV (.obj x s e t ty init) f none = none := by cases init <;> simp [stepFV]
      have hff : firstFlags (.obj x s e t ty init :: ds) f = firstFlags ds f := by
        simp [firstFlags, List.findSome?]
      have hfr : fileRooted (.obj x s e t ty init :: ds) false f = fileRooted ds false f := by
        simp [fileRooted]
      have hab : allBodyRefs (.obj x s e t ty init :: ds) f = allBodyRefs ds f := by
        simp [allBodyRefs]
      rw [hff, hfr, hab]
      have hev : evolve (.obj x s e t ty init :: ds) f none = evolve ds f none := by
        simp only [evolve, List.foldl_cons, hstep]
      rw [hev]; exact ih

/-- the function table after parsing `ds` from the empty state -/
theorem T_parse {ds : List Decl} {st : PState} (h : declAll {} ds = .ok st) (f : Name) :
    T st.globals f = evolve ds f none := by
  rw [T_declAll ds h, foldT_eq]
  rfl

theorem allBodyRefs_cons (d : Decl) (ds : List Decl) (f : Name) :
    allBodyRefs (d :: ds) f =
      (match d with | .func g _ _ _ _ (some b) => if g = f then bodyFnRefs b else [] | _ => []) ++ allBodyRefs ds f := by
  simp [allBodyRefs, List.flatMap_cons]

theorem allBodyRefs_undeclared : ∀ (ds : List Decl) (f : Name), firstFlags ds f = none → allBodyRefs ds f = []
  | [], _, _ => rfl
  | d :: ds, f, h => by
    rw [allBodyRefs_cons]
    cases d with
    | func g n s e i body =>
      by_cases hgf : g = f
      · simp [firstFlags, List.findSome?, hgf] at h
      · have h' : firstFlags ds f = none := by simpa [firstFlags, List.findSome?, hgf] using h
        rw [allBodyRefs_undeclared ds f h']
        cases body <;> simp [hgf]
    | obj x s e t ty init =>
      have h' : firstFlags ds f = none := by simpa [firstFlags, List.findSome?] using h
      rw [allBodyRefs_undeclared ds f h']
      rfl

theorem isFn_eq_T (gs : List Obj) (f : Name) : isFn gs f = (T gs f).isSome := by
  simp [isFn, T]

theorem refsOf_eq_T (gs : List Obj) (f : Name) : refsOf gs f = ((T gs f).map (·.refs)).getD [] := by
  unfold refsOf T
  cases findFunc gs f <;> rfl

theorem mem_rootNames_iff_T {gs : List Obj} (hn : (fnNamesOf gs).Nodup) (f : Name) :
    f ∈ rootNames gs ↔ ∃ v, T gs f = some v ∧ v.isRoot = true := by
  constructor
  · intro h
    unfold rootNames at h
    rw [List.mem_filterMap] at h
    obtain ⟨o, ho, hh⟩ := h
    cases hs : o.sym with
    | anon k => simp [hs] at hh
    | named n =>
      simp only [hs] at hh
      split at hh
      · rename_i hc
        simp only [Bool.and_eq_true] at hc
        simp only [Option.some.injEq] at hh
        subst hh
        refine ⟨fview o, ?_, hc.2⟩
        simp [T, findFunc_of_mem hn ho hc.1 hs]
      · cases hh
  · rintro ⟨v, hv, hr⟩
    unfold T at hv
    cases hf : findFunc gs f with
    | none => simp [hf] at hv
    | some o =>
      simp only [hf, Option.map_some, Option.some.injEq] at hv
      have ho := List.mem_of_find?_eq_some hf
      have hp := List.find?_some hf
      simp only [Bool.and_eq_true, beq_iff_eq] at hp
      unfold rootNames
      rw [List.mem_filterMap]
      refine ⟨o, ho, ?_⟩
      have : o.isRoot = true := by rw [← hv] at hr; exact hr
      simp [hp.2, hp.1, this]

end ChibiVerif.Linkage
