/-
Helper lemmas for C15: what `declAll` records about each function (`is_static`, `is_inline`, `is_root`,
`is_definition`, `refs`), read through `find_func`, as a function of the declaration sequence.

Layer 1: every parser step acts on the table `T st : Name → Option FV` as the pure function `stepT` does.
Layer 2 (Props/C15.lean uses it): closed form of folding `stepT` over the declarations.
-/
import ChibiVerif.Lemmas.LinkageParse
import ChibiVerif.Spec.LinkageSpec

namespace ChibiVerif.Linkage
open ChibiVerif.Spec.Linkage (initFnRefs bodyFnRefs)

/-- the fields of a function object the liveness logic reads -/
structure FV where
  isStatic : Bool
  isInline : Bool
  isRoot : Bool
  isDefinition : Bool
  refs : List Name
  deriving DecidableEq, Repr

def fview (o : Obj) : FV := ⟨o.isStatic, o.isInline, o.isRoot, o.isDefinition, o.refs⟩

/-- the function table of a parser state, through `find_func` -/
def T (gs : List Obj) : Name → Option FV := fun f => (findFunc gs f).map fview

def updT (t : Name → Option FV) (f : Name) (u : FV → FV) : Name → Option FV :=
  fun g => if g = f then (t f).map u else t g

/-! ### primitive mutations seen through `T` -/

theorem T_cons_data {o : Obj} (h : o.isFunction = false) (gs : List Obj) : T (o :: gs) = T gs := by
  funext g
  simp [T, findFunc, List.find?, h]

theorem T_cons_fn {o : Obj} {f : Name} (hf : o.isFunction = true) (hs : o.sym = .named f) (gs : List Obj) :
    T (o :: gs) = fun g => if g = f then some (fview o) else T gs g := by
  funext g
  by_cases hg : g = f
  · subst hg; simp [T, findFunc, List.find?, hf, hs]
  · have : (o.isFunction && o.sym == Sym.named g) = false := by
      simp only [hf, hs, Bool.true_and, beq_eq_false_iff_ne, ne_eq, Sym.named.injEq]
      exact fun e => hg e.symm
    simp [T, findFunc, List.find?, this, hg]

/-- an update of `find_func(f)` that acts on the view as `v` -/
theorem T_updFunc {u : Obj → Obj} {v : FV → FV} (hu : KeepsId u) (huv : ∀ o, fview (u o) = v (fview o))
    (gs : List Obj) (f : Name) : T (updFunc gs f u) = updT (T gs) f v := by
  funext g
  simp only [T, updT, findFunc_updFunc hu]
  by_cases hg : g = f
  · simp only [hg, if_true, Option.map_map]
    congr 1
    funext o; exact huv o
  · simp [hg]

/-- updating an object that is not a function does not change the table -/
theorem T_updFirst_data {p : Obj → Bool} {u : Obj → Obj} (hp : ∀ o, p o = true → o.isFunction = false)
    (hu : KeepsId u) (gs : List Obj) : T (updFirst p u gs) = T gs := by
  funext g
  simp only [T]
  congr 1
  induction gs with
  | nil => rfl
  | cons a as ih =>
    unfold updFirst
    by_cases hpa : p a = true
    · have hfa := hp a hpa
      rw [if_pos hpa]
      simp [findFunc, List.find?, (hu a).1, hfa]
    · rw [if_neg hpa]
      simp only [findFunc, List.find?] at ih ⊢
      rw [ih]

theorem updT_id (t : Name → Option FV) (f : Name) : updT t f (fun v => v) = t := by
  funext g
  by_cases hg : g = f
  · subst hg; simp [updT]
  · simp [updT, hg]

theorem updT_updT (t : Name → Option FV) (f : Name) (u1 u2 : FV → FV) :
    updT (updT t f u1) f u2 = updT t f (fun v => u2 (u1 v)) := by
  funext g
  by_cases hg : g = f
  · subst hg; simp [updT, Option.map_map, Function.comp_def]
  · simp [updT, hg]

def addRefs (l : List Name) : FV → FV := fun v => { v with refs := v.refs ++ l }
def setRoot : FV → FV := fun v => { v with isRoot := true }
def rootIf : FV → FV := fun v => if !(v.isStatic && v.isInline) then { v with isRoot := true } else v
def orDef (b : Bool) : FV → FV := fun v => { v with isDefinition := v.isDefinition || b }

/-- mark every function named in `l` as a root -/
def rootAll (t : Name → Option FV) (l : List Name) : Name → Option FV :=
  fun g => (t g).map (fun v => if g ∈ l then setRoot v else v)

theorem rootAll_nil (t : Name → Option FV) : rootAll t [] = t := by
  funext g
  simp [rootAll]

theorem addRefs_nil : addRefs [] = fun v => v := by
  funext v; simp [addRefs]

theorem addRefs_addRefs (a b : List Name) : (fun v => addRefs b (addRefs a v)) = addRefs (a ++ b) := by
  funext v; simp [addRefs, List.append_assoc]

/-! ### the parser's steps -/

theorem T_newAnon (st : PState) (ty : ObjTy) (hi : Bool) (uses : List Sym) :
    T (newAnon st ty hi uses).1.globals = T st.globals :=
  T_cons_data rfl _

theorem T_recordFnRef_some {f : Name} {st st' : PState} {g : Name} (h : recordFnRef (some f) st g = .ok st') :
    T st'.globals = updT (T st.globals) f (addRefs [g]) := by
  unfold recordFnRef at h
  split at h
  · cases h
  · cases h
    exact T_updFunc (fun _ => ⟨rfl, rfl⟩) (fun _ => rfl) _ _

theorem T_recordFnRef_none {st st' : PState} {g : Name} (h : recordFnRef none st g = .ok st') :
    T st'.globals = updT (T st.globals) g setRoot := by
  unfold recordFnRef at h
  split at h
  · cases h
  · cases h
    exact T_updFunc (fun _ => ⟨rfl, rfl⟩) (fun _ => rfl) _ _

/-- references recorded by an initializer inside the body of `f` -/
theorem T_initItems_some {f : Name} : ∀ (items : List InitItem) {st st' : PState} {ss : List Sym},
    initItems (some f) st items = .ok (st', ss) → T st'.globals = updT (T st.globals) f (addRefs (initFnRefs items)) := by
  intro items
  induction items with
  | nil =>
    intro st st' ss h
    simp only [initItems, pure, Except.pure, Except.ok.injEq, Prod.mk.injEq] at h
    rw [← h.1]
    simp [initFnRefs, addRefs_nil, updT_id]
  | cons it rest ih =>
    intro st st' ss h
    cases it with
    | ref r =>
      simp only [initItems, bind, Except.bind] at h
      split at h
      · cases h
      · rename_i p1 h1
        split at h
        · cases h
        · rename_i p2 h2
          simp only [pure, Except.pure, Except.ok.injEq, Prod.mk.injEq] at h
          rw [← h.1]
          have ih' := ih (st := p1.1) (st' := p2.1) (ss := p2.2) (by simpa using h2)
          rw [ih']
          cases r with
          | fn g =>
            simp only [useRef, bind, Except.bind] at h1
            split at h1
            · cases h1
            · rename_i st1 hr
              simp only [pure, Except.pure, Except.ok.injEq] at h1
              have : p1.1 = st1 := by rw [← h1]
              rw [this, T_recordFnRef_some hr, updT_updT, addRefs_addRefs]
              simp [initFnRefs]
          | obj x =>
            simp only [useRef] at h1
            split at h1
            · cases h1
            · simp only [pure, Except.pure, Except.ok.injEq] at h1
              have : p1.1 = st := by rw [← h1]
              rw [this]
              simp [initFnRefs]
    | str n =>
      simp only [initItems, bind, Except.bind] at h
      split at h
      · cases h
      · rename_i p2 h2
        simp only [pure, Except.pure, Except.ok.injEq, Prod.mk.injEq] at h
        rw [← h.1]
        have ih' := ih (st := (newAnon st (strTy n) true).1) (st' := p2.1) (ss := p2.2) (by simpa using h2)
        rw [ih', T_newAnon]
        simp [initFnRefs]

end ChibiVerif.Linkage
