/-
C03 × C01: freshness of the labels of a whole function (`compileFn_fresh`).

`Key c0 c1 u0 u1 l`: the label `l` carries a `count()` number in `[c0, c1)` (the families `.L.else.` `.L.end.` `.L.false.`
`.L.true.` `.L.begin.`) or a `new_unique_name()` number in `[u0, u1)` (`.L..N`).  `Seg c0 c1 u0 u1 L`: the labels `L` all have
such keys and are pairwise distinct.  Segments over adjacent ranges concatenate (`Seg.append`); the code of an expression is a
segment by C01's `compileJ_facts` (`Seg.of_expr`); the labels a statement defines are, up to their order in the code, the
statement's own labels followed by the segments of its parts in the order the counters were handed out (`List.Perm`, decided
by counting).
-/
import ChibiVerif.Model.C03Fun
import ChibiVerif.Lemmas.C01JumpCompile

namespace ChibiVerif.C03Fun
open ChibiVerif.Asm ChibiVerif.Spec.IntSpec ChibiVerif.C01 ChibiVerif.X86 ChibiVerif.X86J

def Key (c0 c1 u0 u1 : Nat) : FL → Prop
  | .x l => c0 ≤ l.n ∧ l.n < c1
  | .s (.begin_ n) => c0 ≤ n ∧ n < c1
  | .s (.uniq n) => u0 ≤ n ∧ n < u1
  | .s .ret => False

theorem Key.mono {c0 c1 u0 u1 c0' c1' u0' u1' : Nat} {l : FL} (h : Key c0 c1 u0 u1 l) (h0 : c0' ≤ c0) (h1 : c1 ≤ c1')
    (h2 : u0' ≤ u0) (h3 : u1 ≤ u1') : Key c0' c1' u0' u1' l := by
  cases l with
  | x l => exact ⟨by have := h.1; omega, by have := h.2; omega⟩
  | s l =>
    cases l with
    | begin_ n => exact ⟨by have := h.1; omega, by have := h.2; omega⟩
    | uniq n => exact ⟨by have := h.1; omega, by have := h.2; omega⟩
    | ret => exact h

/-- keys over ranges that lie one after the other belong to different labels -/
theorem Key.ne {c0 c1 u0 u1 c2 u2 : Nat} {a b : FL} (ha : Key c0 c1 u0 u1 a) (hb : Key c1 c2 u1 u2 b) : a ≠ b := by
  intro e
  subst e
  cases a with
  | x l => have := ha.2; have := hb.1; omega
  | s l =>
    cases l with
    | begin_ n => have := ha.2; have := hb.1; omega
    | uniq n => have := ha.2; have := hb.1; omega
    | ret => exact ha

structure Seg (c0 c1 u0 u1 : Nat) (L : List FL) : Prop where
  c : c0 ≤ c1
  u : u0 ≤ u1
  keys : ∀ l ∈ L, Key c0 c1 u0 u1 l
  nodup : L.Nodup

theorem Seg.nil {c0 c1 u0 u1 : Nat} (hc : c0 ≤ c1) (hu : u0 ≤ u1) : Seg c0 c1 u0 u1 [] :=
  ⟨hc, hu, fun _ h => by simp at h, List.nodup_nil⟩

theorem Seg.append {c0 c1 c2 u0 u1 u2 : Nat} {A B : List FL} (ha : Seg c0 c1 u0 u1 A) (hb : Seg c1 c2 u1 u2 B) :
    Seg c0 c2 u0 u2 (A ++ B) := by
  have := ha.c; have := hb.c; have := ha.u; have := hb.u
  refine ⟨by omega, by omega, ?_, ?_⟩
  · intro l hl
    rcases List.mem_append.1 hl with h | h
    · exact (ha.keys l h).mono (Nat.le_refl _) (by omega) (Nat.le_refl _) (by omega)
    · exact (hb.keys l h).mono (by omega) (Nat.le_refl _) (by omega) (Nat.le_refl _)
  · exact List.nodup_append.2 ⟨ha.nodup, hb.nodup, fun a ha' b hb' => (ha.keys a ha').ne (hb.keys b hb')⟩

theorem Seg.perm {c0 c1 u0 u1 : Nat} {A B : List FL} (h : Seg c0 c1 u0 u1 A) (p : B.Perm A) : Seg c0 c1 u0 u1 B :=
  ⟨h.c, h.u, fun l hl => h.keys l (p.mem_iff.1 hl), p.nodup_iff.2 h.nodup⟩

/-- the labels of an expression: C01's `compileJ_facts` -/
theorem Seg.of_expr {tys : List ITy} {off toff : Nat → Int} {k0 c0 : Nat} {e : E} {t : ITy} {code : List JI} {k1 c1 : Nat}
    (h : compileJ tys off toff k0 c0 e = some (t, code, k1, c1)) (u : Nat) :
    c1 = c0 + nlbl e ∧ Seg c0 c1 u u ((defs code).map FL.x) := by
  have f := compileJ_facts tys off toff e k0 c0 t code k1 c1 h
  refine ⟨f.c, by have := f.c; omega, Nat.le_refl _, ?_, ?_⟩
  · intro l hl
    obtain ⟨l0, hl0, rfl⟩ := List.mem_map.1 hl
    exact f.rng l0 hl0
  · have := f.nodup
    unfold List.Nodup at this ⊢
    rw [List.pairwise_map]
    exact this.imp (fun hne e => hne (FL.x.inj e))

theorem Seg.of_opt {tys : List ITy} {off toff : Nat → Int} {k0 c0 : Nat} {oe : Option E} {code : List JI} {k1 c1 : Nat}
    (h : compileOpt tys off toff k0 c0 oe = some (code, k1, c1)) (u : Nat) :
    c1 = c0 + nlblO oe ∧ Seg c0 c1 u u ((defs code).map FL.x) := by
  cases oe with
  | none =>
    simp only [compileOpt, Option.some.injEq, Prod.mk.injEq] at h
    obtain ⟨rfl, _, rfl⟩ := h
    exact ⟨rfl, Seg.nil (Nat.le_refl _) (Nat.le_refl _)⟩
  | some e =>
    simp only [compileOpt, Option.map_eq_some_iff, Prod.mk.injEq] at h
    obtain ⟨⟨t, cd, k1', c1'⟩, hc, rfl, _, rfl⟩ := h
    exact Seg.of_expr hc u

/-! ### `defsF` of the pieces -/

theorem defsF_append (a b : List FI) : defsF (a ++ b) = defsF a ++ defsF b := by
  induction a with
  | nil => rfl
  | cons x r ih => cases x <;> simp [defsF, ih]

theorem defsF_embs (c : List JI) : defsF (embs c) = (defs c).map FL.x := by
  induction c with
  | nil => rfl
  | cons x r ih =>
    simp only [embs, List.map_cons] at ih ⊢
    cases x <;> simp [emb, defsF, defs, ih]

theorem defsF_condJump (cc : CC) (t : ITy) (l : FL) : defsF (condJump cc t l) = [] := by
  simp [condJump, defsF_append, defsF_embs, defs_J, defsF]

theorem defsF_cons_lbl (l : FL) (r : List FI) : defsF (FI.lbl l :: r) = l :: defsF r := rfl
theorem defsF_cons_jmp (l : FL) (r : List FI) : defsF (FI.jmp l :: r) = defsF r := rfl
theorem defsF_nil : defsF [] = [] := rfl

/-- the own labels of a loop: `.L.begin.c`, break label `.L..u`, continue label `.L..(u+1)` -/
theorem Seg.loop_heads (c u : Nat) : Seg c (c + 1) u (u + 2) [FL.s (.begin_ c), FL.s (.uniq u), FL.s (.uniq (u + 1))] := by
  refine ⟨by omega, by omega, ?_, by simp⟩
  intro l hl
  simp only [List.mem_cons, List.mem_nil_iff, or_false] at hl
  rcases hl with rfl | rfl | rfl <;> simp only [Key] <;> omega

/-- the own labels of an `if`: `.L.else.c`, `.L.end.c` -/
theorem Seg.if_heads (c u : Nat) : Seg c (c + 1) u u [FL.x ⟨.else_, c⟩, FL.x ⟨.end_, c⟩] := by
  refine ⟨by omega, by omega, ?_, by simp⟩
  intro l hl
  simp only [List.mem_cons, List.mem_nil_iff, or_false] at hl
  rcases hl with rfl | rfl <;> simp only [Key] <;> omega

theorem defsF_cons_jcc (c : CC) (l : FL) (r : List FI) : defsF (FI.jcc c l :: r) = defsF r := rfl
theorem defsF_cons_ins (i : Ins) (r : List FI) : defsF (FI.ins i :: r) = defsF r := rfl

theorem defsF_map_ins (is : List Ins) : defsF (is.map FI.ins) = [] := by
  induction is with
  | nil => rfl
  | cons i r ih => simpa [defsF] using ih

theorem defsF_caseTest (t : ITy) (lo hi : Int) (l : Nat) : defsF (caseTest t lo hi l) = [] := by
  unfold caseTest
  repeat' split
  all_goals rfl

theorem defsF_rungs (t : ITy) (ents : List (Option (Int × Int) × Nat)) : defsF (rungs t ents) = [] := by
  induction ents with
  | nil => rfl
  | cons x r ih =>
    obtain ⟨o, l⟩ := x
    cases o with
    | none => simpa [rungs] using ih
    | some cv => obtain ⟨lo, hi⟩ := cv; simp [rungs, defsF_append, ih, defsF_caseTest]

theorem defsF_ladder (t : ITy) (ents : List (Option (Int × Int) × Nat)) (brk : Nat) : defsF (ladder t ents brk) = [] := by
  unfold ladder
  rw [defsF_append, defsF_rungs, defsF_append]
  cases lastDefault ents <;> rfl

/-- the own label of a `switch` (its break label) / of a `case` / `default` -/
theorem Seg.uniq_head (c u : Nat) : Seg c c u (u + 1) [FL.s (.uniq u)] := by
  refine ⟨Nat.le_refl _, by omega, ?_, by simp⟩
  intro l hl
  simp only [List.mem_cons, List.mem_nil_iff, or_false] at hl
  subst hl
  simp only [Key]; omega

/-! ### the induction -/

theorem compileF_fresh (tys : List ITy) (off toff : Nat → Int) (R : ITy) (s : FStmt) :
    ∀ (ctx : JCtx) (k0 c0 u0 : Nat) (code : List FI) (k1 c1 u1 : Nat),
      compileF tys off toff R ctx k0 c0 u0 s = some (code, k1, c1, u1) →
      c1 = c0 + nlblF s ∧ Seg c0 c1 u0 u1 (defsF code) := by
  induction s with
  | skip =>
    intro ctx k0 c0 u0 code k1 c1 u1 h
    simp only [compileF, Option.some.injEq, Prod.mk.injEq] at h
    obtain ⟨rfl, _, rfl, rfl⟩ := h
    exact ⟨rfl, Seg.nil (Nat.le_refl _) (Nat.le_refl _)⟩
  | expr e =>
    intro ctx k0 c0 u0 code k1 c1 u1 h
    simp only [compileF, Option.map_eq_some_iff, Prod.mk.injEq] at h
    obtain ⟨⟨t, cd, k1', c1'⟩, hc, rfl, _, rfl, rfl⟩ := h
    rw [defsF_embs]
    exact Seg.of_expr hc u0
  | ret e =>
    intro ctx k0 c0 u0 code k1 c1 u1 h
    simp only [compileF, Option.map_eq_some_iff, Prod.mk.injEq] at h
    obtain ⟨⟨t, cd, k1', c1'⟩, hc, rfl, _, rfl, rfl⟩ := h
    have := Seg.of_expr hc u0
    simpa [defsF_append, defsF_embs, defsF, nlbl, nlblF] using this
  | brk =>
    intro ctx k0 c0 u0 code k1 c1 u1 h
    simp only [compileF, Option.map_eq_some_iff, Prod.mk.injEq] at h
    obtain ⟨_, _, rfl, _, rfl, rfl⟩ := h
    exact ⟨rfl, Seg.nil (Nat.le_refl _) (Nat.le_refl _)⟩
  | cont =>
    intro ctx k0 c0 u0 code k1 c1 u1 h
    simp only [compileF, Option.map_eq_some_iff, Prod.mk.injEq] at h
    obtain ⟨_, _, rfl, _, rfl, rfl⟩ := h
    exact ⟨rfl, Seg.nil (Nat.le_refl _) (Nat.le_refl _)⟩
  | case_ lo hi s ih =>
    intro ctx k0 c0 u0 code k1 c1 u1 h
    simp only [compileF] at h
    split at h
    · simp only [Option.map_eq_some_iff, Prod.mk.injEq] at h
      obtain ⟨⟨cs, ks, c1s, u1s⟩, hs, rfl, _, hc1, hu1⟩ := h
      have hc1 : c1s = c1 := hc1
      have hu1 : u1s = u1 := hu1
      subst hc1 hu1
      obtain ⟨es, ss⟩ := ih _ _ _ _ _ _ _ _ hs
      exact ⟨by simp only [nlblF]; omega, (Seg.uniq_head c0 u0).append ss⟩
    · simp at h
  | default_ s ih =>
    intro ctx k0 c0 u0 code k1 c1 u1 h
    simp only [compileF] at h
    split at h
    · simp only [Option.map_eq_some_iff, Prod.mk.injEq] at h
      obtain ⟨⟨cs, ks, c1s, u1s⟩, hs, rfl, _, hc1, hu1⟩ := h
      have hc1 : c1s = c1 := hc1
      have hu1 : u1s = u1 := hu1
      subst hc1 hu1
      obtain ⟨es, ss⟩ := ih _ _ _ _ _ _ _ _ hs
      exact ⟨by simp only [nlblF]; omega, (Seg.uniq_head c0 u0).append ss⟩
    · simp at h
  | switch_ e body ihb =>
    intro ctx k0 c0 u0 code k1 c1 u1 h
    simp only [compileF] at h
    cases he : compileJ tys off toff k0 c0 e with
    | none => simp [he] at h
    | some re =>
      obtain ⟨te, ce, ke, c1e⟩ := re
      simp only [he, Option.map_eq_some_iff, Prod.mk.injEq] at h
      obtain ⟨⟨cb, kb, c1b, u1b⟩, hb, rfl, _, hc1, hu1⟩ := h
      have hc1 : c1b = c1 := hc1
      have hu1 : u1b = u1 := hu1
      subst hc1 hu1
      obtain ⟨ee, se⟩ := Seg.of_expr he (u0 + 1)
      obtain ⟨eb, sb⟩ := ihb _ _ _ _ _ _ _ _ hb
      refine ⟨by simp only [nlblF]; omega, ?_⟩
      have key := (Seg.uniq_head c0 u0).append (se.append sb)
      refine key.perm ?_
      rw [List.perm_iff_count]
      intro a
      simp only [defsF_append, defsF_embs, defsF_ladder, defsF_cons_lbl, defsF_nil, List.count_append,
        List.count_cons, List.count_nil, List.nil_append]
      omega
  | seq a b iha ihb =>
    intro ctx k0 c0 u0 code k1 c1 u1 h
    simp only [compileF] at h
    cases ha : compileF tys off toff R ctx k0 c0 u0 a with
    | none => simp [ha] at h
    | some ra =>
      obtain ⟨ca, ka, c1a, u1a⟩ := ra
      simp only [ha, Option.map_eq_some_iff, Prod.mk.injEq] at h
      obtain ⟨⟨cb, kb, c1b, u1b⟩, hb, rfl, _, hc1, hu1⟩ := h
      have hc1 : c1b = c1 := hc1
      have hu1 : u1b = u1 := hu1
      subst hc1 hu1
      obtain ⟨ea, sa⟩ := iha _ _ _ _ _ _ _ _ ha
      obtain ⟨eb, sb⟩ := ihb _ _ _ _ _ _ _ _ hb
      rw [defsF_append]
      exact ⟨by simp only [nlblF]; omega, sa.append sb⟩
  | ifte e t f iht ihf =>
    intro ctx k0 c0 u0 code k1 c1 u1 h
    simp only [compileF] at h
    cases he : compileJ tys off toff k0 (c0 + 1) e with
    | none => simp [he] at h
    | some re =>
      obtain ⟨te, ce, ke, c1e⟩ := re
      simp only [he] at h
      cases ht : compileF tys off toff R ctx ke c1e u0 t with
      | none => simp [ht] at h
      | some rt =>
        obtain ⟨ct, kt, c1t, u1t⟩ := rt
        simp only [ht, Option.map_eq_some_iff, Prod.mk.injEq] at h
        obtain ⟨⟨cf, kf, c1f, u1f⟩, hf, rfl, _, hc1, hu1⟩ := h
        have hc1 : c1f = c1 := hc1
        have hu1 : u1f = u1 := hu1
        subst hc1 hu1
        obtain ⟨ee, se⟩ := Seg.of_expr he u0
        obtain ⟨et, st⟩ := iht _ _ _ _ _ _ _ _ ht
        obtain ⟨ef, sf⟩ := ihf _ _ _ _ _ _ _ _ hf
        refine ⟨by simp only [nlblF]; omega, ?_⟩
        have key := (Seg.if_heads c0 u0).append (se.append (st.append sf))
        refine key.perm ?_
        rw [List.perm_iff_count]
        intro a
        simp only [defsF_append, defsF_embs, defsF_condJump, defsF_cons_lbl, defsF_cons_jmp, defsF_nil, List.count_append,
          List.count_cons, List.count_nil, List.nil_append]
        omega
  | for_ init e inc body ihb =>
    intro ctx k0 c0 u0 code k1 c1 u1 h
    simp only [compileF] at h
    cases h0 : compileOpt tys off toff k0 (c0 + 1) init with
    | none => simp [h0] at h
    | some r0 =>
      obtain ⟨c0i, ka, ca⟩ := r0
      simp only [h0] at h
      cases he : compileJ tys off toff ka ca e with
      | none => simp [he] at h
      | some re =>
        obtain ⟨te, ce, ke, c1e⟩ := re
        simp only [he] at h
        cases hi : compileOpt tys off toff ke (c1e + nlblF body) inc with
        | none => simp [hi] at h
        | some ri =>
          obtain ⟨ci, ki, c1i⟩ := ri
          simp only [hi, Option.map_eq_some_iff, Prod.mk.injEq] at h
          obtain ⟨⟨cb, kb, c1b, u1b⟩, hb, rfl, _, hc1, hu1⟩ := h
          have hc1 : c1i = c1 := hc1
          have hu1 : u1b = u1 := hu1
          subst hc1 hu1
          obtain ⟨e0, s0⟩ := Seg.of_opt h0 (u0 + 2)
          obtain ⟨ee, se⟩ := Seg.of_expr he (u0 + 2)
          obtain ⟨eb, sb⟩ := ihb _ _ _ _ _ _ _ _ hb
          obtain ⟨ei, si⟩ := Seg.of_opt hi u1b
          rw [← eb] at ei si
          refine ⟨by simp only [nlblF]; omega, ?_⟩
          have key := (Seg.loop_heads c0 u0).append (s0.append (se.append (sb.append si)))
          refine key.perm ?_
          rw [List.perm_iff_count]
          intro a
          simp only [defsF_append, defsF_embs, defsF_condJump, defsF_cons_lbl, defsF_cons_jmp, defsF_nil, List.count_append,
            List.count_cons, List.count_nil, List.nil_append]
          omega
  | doWhile body e ihb =>
    intro ctx k0 c0 u0 code k1 c1 u1 h
    simp only [compileF] at h
    cases hb : compileF tys off toff R ⟨some u0, some (u0 + 1), ctx.sw⟩ k0 (c0 + 1) (u0 + 2) body with
    | none => simp [hb] at h
    | some rb =>
      obtain ⟨cb, kb, c1b, u1b⟩ := rb
      simp only [hb, Option.map_eq_some_iff, Prod.mk.injEq] at h
      obtain ⟨⟨te, ce, ke, c1e⟩, he, rfl, _, hc1, hu1⟩ := h
      have hc1 : c1e = c1 := hc1
      have hu1 : u1b = u1 := hu1
      subst hc1 hu1
      obtain ⟨eb, sb⟩ := ihb _ _ _ _ _ _ _ _ hb
      obtain ⟨ee, se⟩ := Seg.of_expr he u1b
      refine ⟨by simp only [nlblF]; omega, ?_⟩
      have key := (Seg.loop_heads c0 u0).append (sb.append se)
      refine key.perm ?_
      rw [List.perm_iff_count]
      intro a
      simp only [defsF_append, defsF_embs, defsF_condJump, defsF_cons_lbl, defsF_cons_jmp, defsF_nil, List.count_append,
        List.count_cons, List.count_nil, List.nil_append]
      omega

/-- **every label of a function is defined exactly once** -/
theorem compileFn_fresh (tys : List ITy) (off toff : Nat → Int) (R : ITy) (c0 u0 : Nat) (body : FStmt)
    (prog : List FI) (K c1 u1 : Nat) (hc : compileFn tys off toff R c0 u0 body = some (prog, K, c1, u1)) :
    (defsF prog).Nodup ∧ c1 = c0 + nlblF body ∧ u0 ≤ u1 := by
  simp only [compileFn, Option.map_eq_some_iff, Prod.mk.injEq] at hc
  obtain ⟨⟨code, K', c1', u1'⟩, hcF, rfl, _, hc1, hu1⟩ := hc
  have hc1 : c1' = c1 := hc1
  have hu1 : u1' = u1 := hu1
  subst hc1 hu1
  obtain ⟨ec, sc⟩ := compileF_fresh tys off toff R body ⟨none, none, false⟩ 0 c0 u0 code K' c1' u1' hcF
  refine ⟨?_, ec, sc.u⟩
  rw [defsF_append, List.nodup_append]
  refine ⟨sc.nodup, by simp [defsF], ?_⟩
  intro a ha b hb
  simp only [defsF, List.mem_cons, List.mem_nil_iff, or_false] at hb
  subst hb
  intro e
  subst e
  exact sc.keys _ ha

end ChibiVerif.C03Fun
