/-
C01: the composition theorem for the FULL expression type (`C01_value_full` in Props/C01.lean): `value_j`, by induction on
the expression over the combinators of Lemmas/C01JumpMachine.lean.  The leaves and `++` / `--` are `value_x`
(Lemmas/C01EffectsValue.lean) transported by `EvJ.of_EvX`; `swap_eval_all` (Lemmas/C01EffectsFull.lean) bridges the
evaluation order of `evalE` (left operand first) and of `gen_expr` (right operand first) for operands that contain `&&`,
`||`, `?:`.
-/
import ChibiVerif.Lemmas.C01JumpMachine
import ChibiVerif.Lemmas.C01JumpCompile
import ChibiVerif.Lemmas.C01EffectsFull

namespace ChibiVerif.C01
open ChibiVerif.X86 ChibiVerif.Asm ChibiVerif.Spec.IntSpec ChibiVerif.Gen.CommonType ChibiVerif.C01Codegen ChibiVerif.X86J

section
variable {P : BitVec 64 → Prop} {off toff : Nat → Int} {K : Nat}

/-- a binary node that is not a shift, right node `b` (evaluated first), left node `a`; operands may contain jumps -/
theorem EvJ.bin_arith {op : BinOp} {ta tb : ITy} {va vb x : Int} (hx : binop op ta tb va vb = some x) (k : NK)
    (hop : specOp k = some op) (hns : op.isShift = false)
    {cr cl : List JI} {σ σr σl : Env} {Wr Wl : List Nat} {k0 k1 kr0 kr1 kl0 kl1 dr dl : Nat}
    (Er : EvJ P off toff K cr σ σr (fun r => Represents tb r vb) Wr kr0 kr1 dr)
    (El : EvJ P off toff K cl σr σl (fun r => Represents ta r va) Wl kl0 kl1 dl)
    (hk : k0 ≤ kr0 ∧ kr1 ≤ k1 ∧ k0 ≤ kl0 ∧ kl1 ≤ k1) (hK : k1 ≤ K) :
    EvJ P off toff K ((cr ++ J (castSeq tb (binopOperandType op ta tb))) ++ (JI.ins iPush ::
      ((cl ++ J (castSeq ta (binopOperandType op ta tb))) ++ (JI.ins iPopRdi :: J (opSeq k (binopOperandType op ta tb))))))
      σ σl (fun r => Represents (binopType op ta tb) r x) (Wr ++ Wl) k0 k1 (max dr (dl + 1)) :=
  EvJ.bin
    (Er.then_same (R2 := fun r => Represents (binopOperandType op ta tb) r (convert (binopOperandType op ta tb) vb))
      (fun s hs => cast_run tb _ s vb hs))
    (El.then_same (R2 := fun r => Represents (binopOperandType op ta tb) r (convert (binopOperandType op ta tb) va))
      (fun s hs => cast_run ta _ s va hs))
    (Rres := fun r => Represents (binopType op ta tb) r x)
    (fun s h1 h2 => arith_step k op hop hns ta tb va vb x hx s h1 h2) hk hK

/-- a shift: the right node is not converted -/
theorem EvJ.bin_shift {op : BinOp} {ta tb : ITy} {va vb x : Int} (hx : binop op ta tb va vb = some x) (k : NK)
    (hop : specOp k = some op) (hs : op.isShift = true)
    {cr cl : List JI} {σ σr σl : Env} {Wr Wl : List Nat} {k0 k1 kr0 kr1 kl0 kl1 dr dl : Nat}
    (Er : EvJ P off toff K cr σ σr (fun r => Represents tb r vb) Wr kr0 kr1 dr)
    (El : EvJ P off toff K cl σr σl (fun r => Represents ta r va) Wl kl0 kl1 dl)
    (hk : k0 ≤ kr0 ∧ kr1 ≤ k1 ∧ k0 ≤ kl0 ∧ kl1 ≤ k1) (hK : k1 ≤ K) :
    EvJ P off toff K (cr ++ (JI.ins iPush :: ((cl ++ J (castSeq ta (binopOperandType op ta tb))) ++
      (JI.ins iPopRdi :: J (opSeq k (binopOperandType op ta tb))))))
      σ σl (fun r => Represents (binopType op ta tb) r x) (Wr ++ Wl) k0 k1 (max dr (dl + 1)) :=
  EvJ.bin Er
    (El.then_same (R2 := fun r => Represents (binopOperandType op ta tb) r (convert (binopOperandType op ta tb) va))
      (fun s hs => cast_run ta _ s va hs))
    (Rres := fun r => Represents (binopType op ta tb) r x)
    (fun s h1 h2 => shift_step k op hop hs ta tb va vb x hx s h1 h2) hk hK

end

theorem mem_append_mid {a b c : List Nat} : ∀ i, i ∈ a ++ b → i ∈ a ++ (b ++ c) := by
  intro i hi; simp only [List.mem_append] at hi ⊢; rcases hi with h | h <;> simp [h]

theorem mem_append_skip {a b c : List Nat} : ∀ i, i ∈ a ++ c → i ∈ a ++ (b ++ c) := by
  intro i hi; simp only [List.mem_append] at hi ⊢; rcases hi with h | h <;> simp [h]

/-- **the induction**: every expression of the full type `E` that `compileJ` assembles -/
theorem value_j (P : BitVec 64 → Prop) (off toff : Nat → Int) (K : Nat) (e : E) :
    ∀ (σ : Env) (t : ITy) (code : List JI) (v : Int) (σ' : Env) (k0 k1 c0 c1 : Nat),
      compileJ σ.tys off toff k0 c0 e = some (t, code, k1, c1) → evalE σ e = some (v, σ') → noConflict e = true → k1 ≤ K →
      EvJ P off toff K code σ σ' (fun r => Represents t r v) (wr e) k0 k1 (depthJ e) := by
  induction e with
  | lit t0 v0 =>
    intro σ t code v σ' k0 k1 c0 c1 hc hv hn hK
    have hx : compileX σ.tys off toff k0 (.lit t0 v0) = some (t, [iMovImm v0], k1) := by
      simp only [compileJ, Option.some.injEq, Prod.mk.injEq] at hc
      obtain ⟨rfl, _, rfl, _⟩ := hc; rfl
    have hcode : code = J [iMovImm v0] := by
      simp only [compileJ, Option.some.injEq, Prod.mk.injEq] at hc; exact hc.2.1.symm
    rw [hcode]
    exact EvJ.of_EvX (value_x off toff K _ σ t _ v σ' k0 k1 hx hv hn hK)
  | var i =>
    intro σ t code v σ' k0 k1 c0 c1 hc hv hn hK
    simp only [compileJ, Option.map_eq_some_iff, Prod.mk.injEq] at hc
    obtain ⟨t0, h0, rfl, rfl, rfl, rfl⟩ := hc
    have hx : compileX σ.tys off toff k0 (.var i) = some (t0, iLea (off i) :: loadSeq t0, k0) := by simp [compileX, h0]
    exact EvJ.of_EvX (value_x off toff K _ σ t0 _ v σ' k0 k0 hx hv hn hK)
  | preinc i =>
    intro σ t code v σ' k0 k1 c0 c1 hc hv hn hK
    obtain ⟨cd, hx, rfl, rfl⟩ := leaf_of_map (e := .preinc i) hc
    exact EvJ.of_EvX (value_x off toff K _ σ t cd v σ' k0 k1 hx hv hn hK)
  | predec i =>
    intro σ t code v σ' k0 k1 c0 c1 hc hv hn hK
    obtain ⟨cd, hx, rfl, rfl⟩ := leaf_of_map (e := .predec i) hc
    exact EvJ.of_EvX (value_x off toff K _ σ t cd v σ' k0 k1 hx hv hn hK)
  | postinc i =>
    intro σ t code v σ' k0 k1 c0 c1 hc hv hn hK
    obtain ⟨cd, hx, rfl, rfl⟩ := leaf_of_map (e := .postinc i) hc
    exact EvJ.of_EvX (value_x off toff K _ σ t cd v σ' k0 k1 hx hv hn hK)
  | postdec i =>
    intro σ t code v σ' k0 k1 c0 c1 hc hv hn hK
    obtain ⟨cd, hx, rfl, rfl⟩ := leaf_of_map (e := .postdec i) hc
    exact EvJ.of_EvX (value_x off toff K _ σ t cd v σ' k0 k1 hx hv hn hK)
  | cast t0 e ih =>
    intro σ t code v σ' k0 k1 c0 c1 hc hv hn hK
    simp only [compileJ, Option.map_eq_some_iff, Prod.mk.injEq] at hc
    obtain ⟨⟨te, c, k, cc⟩, h0, rfl, rfl, rfl, rfl⟩ := hc
    simp only [evalE, Option.bind_eq_bind, Option.bind_eq_some_iff] at hv
    obtain ⟨⟨v1, σ1⟩, he, hv⟩ := hv
    simp only [Option.some.injEq, Prod.mk.injEq] at hv
    obtain ⟨rfl, rfl⟩ := hv
    exact (ih σ te c v1 σ1 k0 k c0 cc h0 he hn hK).then_same (fun s hs => cast_run te t0 s v1 hs)
  | un op e ih =>
    intro σ t code v σ' k0 k1 c0 c1 hc hv hn hK
    simp only [compileJ, Option.map_eq_some_iff] at hc
    obtain ⟨⟨te, c, k, cc⟩, h0, h1⟩ := hc
    have hty := (compileJ_facts σ.tys off toff e k0 c0 te c k cc h0).ty σ rfl
    simp only [evalE, hty, Option.bind_eq_bind, Option.bind_eq_some_iff, Option.some.injEq, exists_eq_left'] at hv
    obtain ⟨⟨v1, σ1⟩, he, x, hx, hv⟩ := hv
    simp only [Prod.mk.injEq] at hv
    obtain ⟨rfl, rfl⟩ := hv
    cases op with
    | plus =>
      simp only [Prod.mk.injEq] at h1
      obtain ⟨rfl, rfl, rfl, rfl⟩ := h1
      have E := ih σ te c v1 σ1 k0 k c0 cc h0 he hn hK
      simp only [unop, Option.some.injEq] at hx
      subst hx
      exact E.then_same (fun s hs => cast_run te _ s v1 hs)
    | lognot =>
      simp only [Prod.mk.injEq] at h1
      obtain ⟨rfl, rfl, rfl, rfl⟩ := h1
      have E := ih σ te c v1 σ1 k0 k c0 cc h0 he hn hK
      simp only [unop, Option.some.injEq] at hx
      subst hx
      exact E.then_same (fun s hs => lognot_run te s v1 hs)
    | neg =>
      simp only [Prod.mk.injEq] at h1
      obtain ⟨rfl, rfl, rfl, rfl⟩ := h1
      have E := ih σ te c v1 σ1 k0 k c0 cc h0 he hn hK
      rw [unop_promote .neg (by decide)] at hx
      have := (E.then_same (R2 := fun r => Represents (promote te) r (convert (promote te) v1))
        (fun s hs => cast_run te _ s v1 hs)).then_same (c2 := unSeq .ND_NEG (promote te))
        (R2 := fun r => Represents (promote te) r x) (fun s hs => neg_run _ (promote_mem te) s _ x hs hx)
      simpa [J_append, List.append_assoc, wr, depthJ] using this
    | bitnot =>
      simp only [Prod.mk.injEq] at h1
      obtain ⟨rfl, rfl, rfl, rfl⟩ := h1
      have E := ih σ te c v1 σ1 k0 k c0 cc h0 he hn hK
      rw [unop_promote .bitnot (by decide)] at hx
      have := (E.then_same (R2 := fun r => Represents (promote te) r (convert (promote te) v1))
        (fun s hs => cast_run te _ s v1 hs)).then_same (c2 := unSeq .ND_BITNOT (promote te))
        (R2 := fun r => Represents (promote te) r x) (fun s hs => bitnot_run _ (promote_mem te) s _ x hs hx)
      simpa [J_append, List.append_assoc, wr, depthJ] using this
  | comma a b iha ihb =>
    intro σ t code v σ' k0 k1 c0 c1 hc hv hn hK
    simp only [noConflict, Bool.and_eq_true] at hn
    simp only [compileJ] at hc
    cases ha : compileJ σ.tys off toff k0 c0 a with
    | none => simp [ha] at hc
    | some pa =>
      obtain ⟨ta, ca, ka, cca⟩ := pa
      simp only [ha, Option.map_eq_some_iff, Prod.mk.injEq] at hc
      obtain ⟨⟨tb, cb, kb, ccb⟩, hb, h1, h2, h3, h4⟩ := hc
      simp only at h1 h2 h3 h4
      subst h1 h2 h3 h4
      simp only [evalE, Option.bind_eq_bind, Option.bind_eq_some_iff] at hv
      obtain ⟨⟨va, σ1⟩, hea, heb⟩ := hv
      simp only at heb
      have fa := compileJ_facts σ.tys off toff a k0 c0 ta ca ka cca ha
      have fb := compileJ_facts σ.tys off toff b ka cca tb cb kb ccb hb
      have f1 := evalE_frm_all a σ va σ1 hea
      have Ea := iha σ ta ca va σ1 k0 ka c0 cca ha hea hn.1 (by have := fb.k; omega)
      have Eb := ihb σ1 tb cb v σ' ka kb cca ccb (by rw [f1.tys]; exact hb) heb hn.2 hK
      have := EvJ.seq (k0 := k0) (k1 := kb) Ea Eb ⟨Nat.le_refl _, fb.k, fa.k, Nat.le_refl _⟩
      simpa [depthJ, wr] using this
  | assign i e ih =>
    intro σ t code v σ' k0 k1 c0 c1 hc hv hn hK
    simp only [noConflict] at hn
    simp only [compileJ] at hc
    cases hti : σ.tys[i]? with
    | none => simp [hti] at hc
    | some ti =>
      cases he : compileJ σ.tys off toff k0 c0 e with
      | none => simp [hti, he] at hc
      | some pe =>
        obtain ⟨te, c, k, cc⟩ := pe
        simp only [hti, he, Option.some.injEq, Prod.mk.injEq] at hc
        obtain ⟨rfl, rfl, rfl, rfl⟩ := hc
        simp only [evalE, Env.ty?, hti, Option.bind_eq_bind, Option.bind_eq_some_iff, Option.some.injEq, exists_eq_left'] at hv
        obtain ⟨⟨v1, σ1⟩, hev, hv⟩ := hv
        simp only [Option.some.injEq, Prod.mk.injEq] at hv
        obtain ⟨rfl, rfl⟩ := hv
        have E := (ih σ te c v1 σ1 k0 k c0 cc he hev hn hK).then_same (R2 := fun r => Represents ti r (convert ti v1))
          (fun s hs => cast_run te ti s v1 hs)
        have := EvJ.assign hti E hK
        simpa [depthJ, wr] using this
  | bin op a b iha ihb =>
    intro σ t code v σ' k0 k1 c0 c1 hc hv hn hK
    simp only [noConflict, Bool.and_eq_true] at hn
    obtain ⟨⟨⟨hd1, hd2⟩, hna⟩, hnb⟩ := hn
    simp only [compileJ] at hc
    cases ha : compileJ σ.tys off toff k0 (if (nodeOf op).2 = true then c0 else c0 + nlbl b) a with
    | none => simp [ha] at hc
    | some pa =>
      obtain ⟨ta, ca, ka, cca⟩ := pa
      simp only [ha] at hc
      cases hb : compileJ σ.tys off toff ka (if (nodeOf op).2 = true then c0 + nlbl a else c0) b with
      | none => simp [hb] at hc
      | some pb =>
        obtain ⟨tb, cb, kb, ccb⟩ := pb
        simp only [hb, Option.some.injEq, Prod.mk.injEq] at hc
        have fa := compileJ_facts σ.tys off toff a k0 _ ta ca ka cca ha
        have fb := compileJ_facts σ.tys off toff b ka _ tb cb kb ccb hb
        simp only [evalE, fa.ty σ rfl, fb.ty σ rfl, Option.bind_eq_bind, Option.bind_eq_some_iff, Option.some.injEq,
          exists_eq_left'] at hv
        obtain ⟨⟨va, σ1⟩, hea, ⟨vb, σ2⟩, heb, x, hx, hv⟩ := hv
        simp only [Prod.mk.injEq] at hv heb hx
        obtain ⟨rfl, rfl⟩ := hv
        obtain ⟨rfl, rfl, rfl, rfl⟩ := hc
        have f1 := evalE_frm_all a σ va σ1 hea
        -- machine order = evalE order (a first): used by `>` `>=`
        have EaF := iha σ ta ca va σ1 k0 ka _ cca ha hea hna (by have := fb.k; omega)
        have EbF := ihb σ1 tb cb vb σ2 ka kb _ ccb (by rw [f1.tys]; exact hb) heb hnb hK
        -- machine order b first
        obtain ⟨σb, heb', hea'⟩ := swap_eval_all a b σ σ1 σ2 va vb hd1 hd2 hea heb
        have fbf := evalE_frm_all b σ vb σb heb'
        have EbS := ihb σ tb cb vb σb ka kb _ ccb hb heb' hnb hK
        have EaS := iha σb ta ca va σ2 k0 ka _ cca (by rw [fbf.tys]; exact ha) hea' hna (by have := fb.k; omega)
        have hkS : k0 ≤ ka ∧ kb ≤ kb ∧ k0 ≤ k0 ∧ ka ≤ kb := ⟨fa.k, Nat.le_refl _, Nat.le_refl _, fb.k⟩
        have hkF : k0 ≤ k0 ∧ ka ≤ kb ∧ k0 ≤ ka ∧ kb ≤ kb := ⟨Nat.le_refl _, fb.k, fa.k, Nat.le_refl _⟩
        cases op
        case gt =>
          have hx' : binop .lt tb ta vb va = some x := by
            simpa [binop, binopOperandType, BinOp.isShift, usualArith_comm tb ta, arith] using hx
          have := EvJ.bin_arith hx' .ND_LT rfl rfl EaF EbF hkF hK
          simpa [nodeOf, BinOp.isShift, binopOperandType, binopType, BinOp.isRel, depthJ, wr, List.append_assoc] using this
        case ge =>
          have hx' : binop .le tb ta vb va = some x := by
            simpa [binop, binopOperandType, BinOp.isShift, usualArith_comm tb ta, arith] using hx
          have := EvJ.bin_arith hx' .ND_LE rfl rfl EaF EbF hkF hK
          simpa [nodeOf, BinOp.isShift, binopOperandType, binopType, BinOp.isRel, depthJ, wr, List.append_assoc] using this
        case shl =>
          have := (EvJ.bin_shift hx .ND_SHL rfl rfl EbS EaS hkS hK).weaken
              perm_mem (Nat.le_refl _) (Nat.le_refl _) (Nat.le_refl _)
          simpa [nodeOf, BinOp.isShift, depthJ, wr, List.append_assoc] using this
        case shr =>
          have := (EvJ.bin_shift hx .ND_SHR rfl rfl EbS EaS hkS hK).weaken
              perm_mem (Nat.le_refl _) (Nat.le_refl _) (Nat.le_refl _)
          simpa [nodeOf, BinOp.isShift, depthJ, wr, List.append_assoc] using this
        all_goals
          have := (EvJ.bin_arith hx _ (specOp_nodeOf _ rfl) rfl EbS EaS hkS hK).weaken
              perm_mem (Nat.le_refl _) (Nat.le_refl _) (Nat.le_refl _)
          simpa [nodeOf, BinOp.isShift, depthJ, wr, List.append_assoc] using this
  | opassign op i e ih =>
    intro σ t code v σ' k0 k1 c0 c1 hc hv hn hK
    simp only [noConflict] at hn
    simp only [compileJ] at hc
    cases hti : σ.tys[i]? with
    | none => simp [hti] at hc
    | some ti =>
      cases he : compileJ σ.tys off toff k0 c0 e with
      | none => simp [hti, he] at hc
      | some pe =>
        obtain ⟨te, c, k, cc⟩ := pe
        simp only [hti, he] at hc
        split at hc
        · rename_i hcomp
          simp only [Option.some.injEq, Prod.mk.injEq] at hc
          obtain ⟨rfl, rfl, rfl, rfl⟩ := hc
          have fe := compileJ_facts σ.tys off toff e k0 c0 te c k cc he
          simp only [evalE, Env.ty?, Env.val?, hti, fe.ty σ rfl, Option.bind_eq_bind, Option.bind_eq_some_iff,
            Option.some.injEq, exists_eq_left'] at hv
          obtain ⟨⟨vb, σ1⟩, hev, x, hx, r, hr, hv⟩ := hv
          simp only [Prod.mk.injEq] at hv hx hr
          obtain ⟨rfl, rfl⟩ := hv
          simp only [compound, Option.map_eq_some_iff] at hr
          obtain ⟨y, hy, rfl⟩ := hr
          have E := ih σ te c vb σ1 k0 k c0 cc he hev hn (by omega)
          rw [opAssignCodeJ_eq]
          have hrel : op.isRel = false := by simpa [compoundable] using hcomp
          have hsw : (nodeOf op).2 = false := by cases op <;> simp [BinOp.isRel] at hrel <;> rfl
          by_cases hs : op.isShift = true
          · simp only [hs, if_true]
            have := EvJ.opassign (castB := []) (Rr := fun r => Represents te r vb) (t := binopOperandType op ti te)
              (tres := binopType op ti te) (y := y) (nk := (nodeOf op).1) hti E (fun s h => ⟨s, rfl, h, Same.refl s⟩) hx
              (fun s h1 h2 => shift_step _ op (specOp_nodeOf op hsw) hs ti te x vb y hy s h1 h2) fe.k (by omega)
            simpa [depthJ, wr] using this
          · have hs' : op.isShift = false := by simpa using hs
            simp only [hs', Bool.false_eq_true, if_false]
            have := EvJ.opassign (castB := castSeq te (binopOperandType op ti te))
              (Rr := fun r => Represents (binopOperandType op ti te) r (convert (binopOperandType op ti te) vb))
              (t := binopOperandType op ti te) (tres := binopType op ti te) (y := y) (nk := (nodeOf op).1) hti E
              (fun s h => cast_run te _ s vb h) hx
              (fun s h1 h2 => arith_step _ op (specOp_nodeOf op hsw) hs' ti te x vb y hy s h1 h2) fe.k (by omega)
            simpa [depthJ, wr] using this
        · simp at hc
  | land a b iha ihb =>
    intro σ t code v σ' k0 k1 c0 c1 hc hv hn hK
    simp only [noConflict, Bool.and_eq_true] at hn
    simp only [compileJ] at hc
    cases ha : compileJ σ.tys off toff k0 (c0 + 1) a with
    | none => simp [ha] at hc
    | some pa =>
      obtain ⟨ta, ca, ka, cca⟩ := pa
      simp only [ha, Option.map_eq_some_iff, Prod.mk.injEq] at hc
      obtain ⟨⟨tb, cb, kb, ccb⟩, hb, h1, h2, h3, h4⟩ := hc
      simp only at h1 h2 h3 h4
      subst h1 h2 h3 h4
      have fa := compileJ_facts σ.tys off toff a k0 _ ta ca ka cca ha
      have fb := compileJ_facts σ.tys off toff b ka cca tb cb kb ccb hb
      simp only [evalE, Option.bind_eq_bind, Option.bind_eq_some_iff] at hv
      obtain ⟨⟨va, σ1⟩, hea, hv⟩ := hv
      simp only at hv
      have f1 := evalE_frm_all a σ va σ1 hea
      have Ea := iha σ ta ca va σ1 k0 ka _ cca ha hea hn.1 (by have := fb.k; omega)
      by_cases hz : va = 0
      · rw [if_pos hz] at hv
        simp only [Option.some.injEq, Prod.mk.injEq] at hv
        obtain ⟨rfl, rfl⟩ := hv
        rw [hz] at Ea
        exact (EvJ.land_short (tb := tb) (cb := cb) (c := c0) Ea).weaken (fun i hi => by simp [wr, hi]) (Nat.le_refl _) fb.k
          (by simp [depthJ]; omega)
      · rw [if_neg hz] at hv
        simp only [Option.bind_eq_some_iff] at hv
        obtain ⟨⟨vb, σ2⟩, heb, hv⟩ := hv
        simp only [Option.some.injEq, Prod.mk.injEq] at hv
        obtain ⟨rfl, rfl⟩ := hv
        have Eb := ihb σ1 tb cb vb σ2 ka kb cca ccb (by rw [f1.tys]; exact hb) heb hn.2 hK
        have := EvJ.land_full (c := c0) (k0 := k0) (k1 := kb) hz Ea Eb ⟨Nat.le_refl _, fb.k, fa.k, Nat.le_refl _⟩
        simpa [depthJ, wr] using this
  | lor a b iha ihb =>
    intro σ t code v σ' k0 k1 c0 c1 hc hv hn hK
    simp only [noConflict, Bool.and_eq_true] at hn
    simp only [compileJ] at hc
    cases ha : compileJ σ.tys off toff k0 (c0 + 1) a with
    | none => simp [ha] at hc
    | some pa =>
      obtain ⟨ta, ca, ka, cca⟩ := pa
      simp only [ha, Option.map_eq_some_iff, Prod.mk.injEq] at hc
      obtain ⟨⟨tb, cb, kb, ccb⟩, hb, h1, h2, h3, h4⟩ := hc
      simp only at h1 h2 h3 h4
      subst h1 h2 h3 h4
      have fa := compileJ_facts σ.tys off toff a k0 _ ta ca ka cca ha
      have fb := compileJ_facts σ.tys off toff b ka cca tb cb kb ccb hb
      simp only [evalE, Option.bind_eq_bind, Option.bind_eq_some_iff] at hv
      obtain ⟨⟨va, σ1⟩, hea, hv⟩ := hv
      simp only at hv
      have f1 := evalE_frm_all a σ va σ1 hea
      have Ea := iha σ ta ca va σ1 k0 ka _ cca ha hea hn.1 (by have := fb.k; omega)
      by_cases hz : va ≠ 0
      · rw [if_pos hz] at hv
        simp only [Option.some.injEq, Prod.mk.injEq] at hv
        obtain ⟨rfl, rfl⟩ := hv
        exact (EvJ.lor_short (tb := tb) (cb := cb) (c := c0) hz Ea).weaken (fun i hi => by simp [wr, hi]) (Nat.le_refl _) fb.k
          (by simp [depthJ]; omega)
      · rw [if_neg hz] at hv
        simp only [Option.bind_eq_some_iff] at hv
        obtain ⟨⟨vb, σ2⟩, heb, hv⟩ := hv
        simp only [Option.some.injEq, Prod.mk.injEq] at hv
        obtain ⟨rfl, rfl⟩ := hv
        have hz0 : va = 0 := by simpa using hz
        rw [hz0] at Ea
        have Eb := ihb σ1 tb cb vb σ2 ka kb cca ccb (by rw [f1.tys]; exact hb) heb hn.2 hK
        have := EvJ.lor_full (c := c0) (k0 := k0) (k1 := kb) Ea Eb ⟨Nat.le_refl _, fb.k, fa.k, Nat.le_refl _⟩
        simpa [depthJ, wr] using this
  | cond cnd a b ihc iha ihb =>
    intro σ t code v σ' k0 k1 c0 c1 hc hv hn hK
    simp only [noConflict, Bool.and_eq_true] at hn
    obtain ⟨⟨hnc, hna⟩, hnb⟩ := hn
    simp only [compileJ] at hc
    cases hcc : compileJ σ.tys off toff k0 (c0 + 1) cnd with
    | none => simp [hcc] at hc
    | some pc =>
      obtain ⟨tc, cc, kc, ccc⟩ := pc
      simp only [hcc] at hc
      cases ha : compileJ σ.tys off toff kc ccc a with
      | none => simp [ha] at hc
      | some pa =>
        obtain ⟨ta, ca, ka, cca⟩ := pa
        simp only [ha, Option.map_eq_some_iff, Prod.mk.injEq] at hc
        obtain ⟨⟨tb, cb, kb, ccb⟩, hb, h1, h2, h3, h4⟩ := hc
        simp only at h1 h2 h3 h4
        subst h1 h2 h3 h4
        have fc := compileJ_facts σ.tys off toff cnd k0 _ tc cc kc ccc hcc
        have fa := compileJ_facts σ.tys off toff a kc ccc ta ca ka cca ha
        have fb := compileJ_facts σ.tys off toff b ka cca tb cb kb ccb hb
        have hty : typeOf σ (.cond cnd a b) = some (usualArith ta tb) := by simp [typeOf, fa.ty σ rfl, fb.ty σ rfl]
        simp only [evalE, hty, Option.bind_eq_bind, Option.bind_eq_some_iff, Option.some.injEq, exists_eq_left'] at hv
        obtain ⟨⟨vc, σ1⟩, hec, hv⟩ := hv
        simp only at hv
        have f1 := evalE_frm_all cnd σ vc σ1 hec
        have Ec := ihc σ tc cc vc σ1 k0 kc _ ccc hcc hec hnc (by have := fa.k; have := fb.k; omega)
        by_cases hz : vc ≠ 0
        · rw [if_pos hz] at hv
          simp only [Option.bind_eq_some_iff] at hv
          obtain ⟨⟨x, σ2⟩, hea, hv⟩ := hv
          simp only [Option.some.injEq, Prod.mk.injEq] at hv
          obtain ⟨rfl, rfl⟩ := hv
          have Ea := (iha σ1 ta ca x σ2 kc ka ccc cca (by rw [f1.tys]; exact ha) hea hna (by have := fb.k; omega)).then_same
            (R2 := fun r => Represents (usualArith ta tb) r (convert (usualArith ta tb) x)) (fun s hs => cast_run ta _ s x hs)
          have := EvJ.cond_then (cb := cb ++ J (castSeq tb (usualArith ta tb))) (c := c0) (k0 := k0) (k1 := kb) hz Ec Ea
            ⟨Nat.le_refl _, by have := fa.k; have := fb.k; omega, fc.k, fb.k⟩
          exact this.weaken mem_append_mid (Nat.le_refl _) (Nat.le_refl _) (by simp [depthJ]; omega)
        · rw [if_neg hz] at hv
          simp only [Option.bind_eq_some_iff] at hv
          obtain ⟨⟨x, σ2⟩, heb, hv⟩ := hv
          simp only [Option.some.injEq, Prod.mk.injEq] at hv
          obtain ⟨rfl, rfl⟩ := hv
          have hz0 : vc = 0 := by simpa using hz
          rw [hz0] at Ec
          have f1a : σ1.tys = σ.tys := f1.tys
          have Eb := (ihb σ1 tb cb x σ2 ka kb cca ccb (by rw [f1a]; exact hb) heb hnb hK).then_same
            (R2 := fun r => Represents (usualArith ta tb) r (convert (usualArith ta tb) x)) (fun s hs => cast_run tb _ s x hs)
          have := EvJ.cond_else (ca := ca ++ J (castSeq ta (usualArith ta tb))) (c := c0) (k0 := k0) (k1 := kb) Ec Eb
            ⟨Nat.le_refl _, by have := fa.k; have := fb.k; omega, by have := fc.k; have := fa.k; omega, Nat.le_refl _⟩
          exact this.weaken mem_append_skip (Nat.le_refl _) (Nat.le_refl _) (by simp [depthJ]; omega)

end ChibiVerif.C01
