/-
Helper lemmas for C15_symbols_partial: the labels emitted code and data mention are the Spec's `usedNames`;
what the output defines is what the Spec says is defined; the two symbol tables have the same entries.
-/
import ChibiVerif.Lemmas.LinkageFnSym

namespace ChibiVerif.Linkage
open ChibiVerif.Spec.Linkage

variable [Rules]

/-! ### small membership facts -/

omit [Rules] in
theorem mem_namedOf {l : List Sym} {n : Name} : n ∈ namedOf l ↔ Sym.named n ∈ l := by
  unfold namedOf
  rw [List.mem_filterMap]
  constructor
  · rintro ⟨s, hs, hh⟩
    cases s with
    | named m => simp only [Option.some.injEq] at hh; subst hh; exact hs
    | anon k => cases hh
  · intro h
    exact ⟨_, h, rfl⟩

omit [Rules] in
theorem mem_directRefs {b : List BodyItem} {n : Name} :
    n ∈ directRefs b ↔ BodyItem.ref (.fn n) ∈ b ∨ BodyItem.ref (.obj n) ∈ b := by
  unfold directRefs
  rw [List.mem_filterMap]
  constructor
  · rintro ⟨it, hit, hh⟩
    cases it with
    | ref r =>
      cases r with
      | fn g => simp only [Option.some.injEq] at hh; subst hh; exact Or.inl hit
      | obj x => simp only [Option.some.injEq] at hh; subst hh; exact Or.inr hit
    | staticLocal => cases hh
    | str => cases hh
    | externObj => cases hh
  · rintro (h | h)
    · exact ⟨_, h, rfl⟩
    · exact ⟨_, h, rfl⟩

omit [Rules] in
theorem named_mem_initLabels : ∀ {items : List InitItem} {k : Nat} {n : Name},
    Sym.named n ∈ initLabels k items ↔ n ∈ initFnRefs items ∨ n ∈ initObjRefs items
  | [], _, _ => by simp [initLabels, initFnRefs, initObjRefs]
  | .ref (.fn g) :: rest, k, n => by
    have ih := named_mem_initLabels (items := rest) (k := k) (n := n)
    simp only [initLabels, symOfRef, List.mem_cons, Sym.named.injEq, ih, initFnRefs, initObjRefs, List.filterMap_cons]
    constructor
    · rintro (h | h | h)
      · exact Or.inl (Or.inl h)
      · exact Or.inl (Or.inr h)
      · exact Or.inr h
    · rintro ((h | h) | h)
      · exact Or.inl h
      · exact Or.inr (Or.inl h)
      · exact Or.inr (Or.inr h)
  | .ref (.obj x) :: rest, k, n => by
    have ih := named_mem_initLabels (items := rest) (k := k) (n := n)
    simp only [initLabels, symOfRef, List.mem_cons, Sym.named.injEq, ih, initFnRefs, initObjRefs, List.filterMap_cons]
    constructor
    · rintro (h | h | h)
      · exact Or.inr (Or.inl h)
      · exact Or.inl h
      · exact Or.inr (Or.inr h)
    · rintro (h | h | h)
      · exact Or.inr (Or.inl h)
      · exact Or.inl h
      · exact Or.inr (Or.inr h)
  | .str m :: rest, k, n => by
    have ih := named_mem_initLabels (items := rest) (k := k + 1) (n := n)
    simp only [initLabels, List.mem_cons, reduceCtorEq, false_or, ih, initFnRefs, initObjRefs, List.filterMap_cons]

omit [Rules] in
theorem initRefs_any {items : List InitItem} {n : Name} (h : n ∈ initFnRefs items ∨ n ∈ initObjRefs items) :
    items.any (fun j => match j with | .ref _ => true | _ => false) = true := by
  rw [List.any_eq_true]
  rcases h with h | h
  · simp only [initFnRefs, List.mem_filterMap] at h
    obtain ⟨it, hit, hh⟩ := h
    cases it with
    | ref r => exact ⟨_, hit, rfl⟩
    | str => cases hh
  · simp only [initObjRefs, List.mem_filterMap] at h
    obtain ⟨it, hit, hh⟩ := h
    cases it with
    | ref r => exact ⟨_, hit, rfl⟩
    | str => cases hh

def emittedP (gs : List Obj) (o : Obj) : Bool :=
  if o.isFunction then o.isDefinition && o.isLive else o.isDefinition && ownerLive gs o

omit [Rules] in
theorem mem_emittedUses {gs : List Obj} {s : Sym} :
    s ∈ emittedUses gs ↔ ∃ o, o ∈ gs ∧ emittedP gs o = true ∧ s ∈ o.uses := by
  unfold emittedUses
  rw [List.mem_flatMap]
  constructor
  · rintro ⟨o, ho, hs⟩
    rw [List.mem_filter] at ho
    exact ⟨o, ho.1, ho.2, hs⟩
  · rintro ⟨o, ho, hp, hs⟩
    exact ⟨o, List.mem_filter.mpr ⟨ho, hp⟩, hs⟩

omit [Rules] in
theorem mem_usedNames {ds : List Decl} {n : Name} :
    n ∈ usedNames ds ↔ n ∈ fileFnRefs ds ∨ n ∈ fileObjRefs ds ∨
      ∃ f, f ∈ fnNames ds ∧ fnEmitted ds f = true ∧
        (n ∈ bodyFnRefs (fnBody (fnDecls ds f)) ∨ n ∈ bodyObjRefs (fnBody (fnDecls ds f))) := by
  unfold usedNames
  simp only [List.mem_append, List.mem_flatMap, List.mem_filter]
  constructor
  · rintro ((h | h) | ⟨f, ⟨hf, he⟩, h⟩)
    · exact Or.inl h
    · exact Or.inr (Or.inl h)
    · exact Or.inr (Or.inr ⟨f, hf, he, h⟩)
  · rintro (h | h | ⟨f, hf, he, h⟩)
    · exact Or.inl (Or.inl h)
    · exact Or.inl (Or.inr h)
    · exact Or.inr ⟨f, ⟨hf, he⟩, h⟩

omit [Rules] in
theorem mem_deadStaticLocalRefs {ds : List Decl} {n : Name} :
    n ∈ deadStaticLocalRefs ds ↔ ∃ f, f ∈ fnNames ds ∧ fnDefined (fnDecls ds f) = true ∧ fnEmitted ds f = false ∧
      ∃ tls ty items, BodyItem.staticLocal tls ty (some items) ∈ fnBody (fnDecls ds f) ∧
        (n ∈ initFnRefs items ∨ n ∈ initObjRefs items) := by
  unfold deadStaticLocalRefs
  rw [List.mem_flatMap]
  constructor
  · rintro ⟨f, hf, hn⟩
    split at hn
    · rename_i hc
      simp only [Bool.and_eq_true, Bool.not_eq_true'] at hc
      rw [List.mem_flatMap] at hn
      obtain ⟨it, hit, hn⟩ := hn
      cases it with
      | staticLocal tls ty init =>
        cases init with
        | none => simp at hn
        | some items => exact ⟨f, hf, hc.1, hc.2, tls, ty, items, hit, List.mem_append.mp hn⟩
      | ref => simp at hn
      | str => simp at hn
      | externObj => simp at hn
    · cases hn
  · rintro ⟨f, hf, hd, he, tls, ty, items, hit, hn⟩
    refine ⟨f, hf, ?_⟩
    simp only [hd, he, Bool.not_false, Bool.and_self, if_true]
    rw [List.mem_flatMap]
    exact ⟨_, hit, List.mem_append.mpr hn⟩

section
variable {ds : List Decl} (u : UnitOK ds) {st : PState} {gs1 gs : List Obj} (p : Parsed ds st gs1 gs)
include u p

omit u in
theorem fn_exists {f : Name} (hf : f ∈ fnNames ds) : ∃ o0, findFunc st.globals f = some o0 := by
  have := (recorded p.hst f).1
  rw [firstFlags_isSome.mpr hf] at this
  unfold isFn at this
  cases h : findFunc st.globals f with
  | none => rw [h] at this; cases this
  | some o0 => exact ⟨o0, rfl⟩

omit u in
theorem fn_declared_of_find {f : Name} {o0 : Obj} (h0 : findFunc st.globals f = some o0) : f ∈ fnNames ds := by
  have := (recorded p.hst f).1
  unfold isFn at this
  rw [h0] at this
  exact firstFlags_isSome.mp this.symm

theorem fnEmitted_iff {f : Name} {o0 : Obj} (h0 : findFunc st.globals f = some o0) :
    fnEmitted ds f = true ↔ o0.isDefinition = true ∧ liveFn gs1 f = true := by
  rw [isDefinition_parse p.hst h0]
  unfold fnEmitted
  cases hD : fnDefined (fnDecls ds f)
  · simp
  · simp only [Bool.true_and, true_and]
    rw [u.live_iff_needed p hD]
    simp

omit u in
/-- `var->owner->is_live` for a datum of the body of `f`, in Spec terms -/
theorem ownerLive_of_owner {o : Obj} {f : Name} (ho : o.owner = some f) : ownerLive gs o = liveFn gs1 f := by
  simp only [ownerLive, liveFn, ho]
  rw [p.findFunc_gs]
  cases findFunc gs1 f <;> rfl

omit u p in
theorem ownerOf_some (f : Name) : ownerOf (some f) = if Rules.ownedData then some f else none := rfl

/-- **the identifiers mentioned by what is printed are the Spec's `usedNames`** (for the code without `Rules.ownedData`:
    and those in initializers of static locals of functions that are not emitted) -/
theorem uses_iff (n : Name) : Sym.named n ∈ emittedUses gs ↔
    n ∈ usedNames ds ∨ (Rules.ownedData = false ∧ n ∈ deadStaticLocalRefs ds) := by
  rw [mem_emittedUses, mem_usedNames]
  constructor
  · rintro ⟨o, ho, hP, hn⟩
    cases hf : o.isFunction
    · -- a datum
      obtain ⟨a, ha, _, _, T, rfl⟩ := p.data_of_mem ho hf
      have hn' : Sym.named n ∈ a.uses := hn
      cases allNews_kind ds 0 a ha with
      | @var x s e t ty init k pre post hd =>
        have hd := mem_of_split hd
        rw [varObj_uses] at hn'
        cases init with
        | none => cases hn'
        | some items =>
          rcases named_mem_initLabels.mp hn' with h | h
          · exact Or.inl (Or.inl (mem_fileFnRefs.mpr ⟨x, s, e, t, ty, items, hd, h⟩))
          · exact Or.inl (Or.inr (Or.inl (mem_fileObjRefs.mpr ⟨x, s, e, t, ty, items, hd, h⟩)))
      | ext stc hd hb => simp [externO] at hn'
      | @sl f m s e i b tls ty init k hd hb =>
        cases init with
        | none => simp [slObj] at hn'
        | some items =>
          have hrefs := named_mem_initLabels.mp (show Sym.named n ∈ initLabels (k + 1) items from hn')
          have hmem : (⟨s, e, i, some b⟩ : FnDecl) ∈ fnDecls ds f := mem_fnDecls.mpr ⟨m, hd⟩
          have hbody : b = fnBody (fnDecls ds f) := body_unique (u.oneBody f) hmem rfl
          have hfn : f ∈ fnNames ds := mem_fnNames_of_mem hd
          have hdef : fnDefined (fnDecls ds f) = true := by
            unfold fnDefined; rw [List.any_eq_true]; exact ⟨_, hmem, rfl⟩
          cases hem : fnEmitted ds f
          · -- a static local of a function that is not emitted
            cases hD : Rules.ownedData
            · right
              exact ⟨rfl, mem_deadStaticLocalRefs.mpr ⟨f, hfn, hdef, hem, tls, ty, items, by rw [← hbody]; exact hb, hrefs⟩⟩
            · -- the repaired code does not print the datum
              exfalso
              have hown : ({ slObj f k tls ty (some items) with ty := T } : Obj).owner = some f := by
                simp [slObj, ownerOf_some, hD]
              have hP' : ownerLive gs { slObj f k tls ty (some items) with ty := T } = true := by
                cases hol : ownerLive gs { slObj f k tls ty (some items) with ty := T }
                · exfalso
                  unfold emittedP at hP
                  rw [if_neg (by rw [hf]; simp), hol, Bool.and_false] at hP
                  cases hP
                · rfl
              rw [ownerLive_of_owner p hown] at hP'
              obtain ⟨o0, h0⟩ := fn_exists p hfn
              have := (fnEmitted_iff u p h0).mpr ⟨by rw [isDefinition_parse p.hst h0]; exact hdef, hP'⟩
              rw [hem] at this; cases this
          · refine Or.inl (Or.inr (Or.inr ⟨f, hfn, hem, ?_⟩))
            rw [← hbody]
            rcases hrefs with h | h
            · exact Or.inl (mem_bodyFnRefs.mpr (Or.inr ⟨tls, ty, items, hb, h⟩))
            · exact Or.inr (mem_bodyObjRefs.mpr (Or.inr ⟨tls, ty, items, hb, h⟩))
      | str => simp [strObj] at hn'
    · -- a function
      obtain ⟨f, o0, h0, rfl⟩ := p.fn_of_mem ho hf
      have hP' : (o0.isDefinition && liveFn gs1 f) = true := by
        have : o0.isFunction = true := hf
        simpa [emittedP, this] using hP
      simp only [Bool.and_eq_true] at hP'
      have hem := (fnEmitted_iff u p h0).mpr hP'
      have hfn := fn_declared_of_find p h0
      have hdef : fnDefined (fnDecls ds f) = true := by rw [← isDefinition_parse p.hst h0]; exact hP'.1
      have hNU := NU_parse p.hst f (u.oneBody f) hdef
      simp only [NU, U, h0, Option.map_some, Option.some.injEq] at hNU
      have : n ∈ directRefs (fnBody (fnDecls ds f)) := by rw [← hNU]; exact mem_namedOf.mpr hn
      refine Or.inl (Or.inr (Or.inr ⟨f, hfn, hem, ?_⟩))
      rcases mem_directRefs.mp this with h | h
      · exact Or.inl (mem_bodyFnRefs.mpr (Or.inl h))
      · exact Or.inr (mem_bodyObjRefs.mpr (Or.inl h))
  · -- every used name is mentioned by an emitted object
    have fromVar : ∀ x s e t ty items, Decl.obj x s e t ty (some items) ∈ ds → (n ∈ initFnRefs items ∨ n ∈ initObjRefs items) →
        ∃ o, o ∈ gs ∧ emittedP gs o = true ∧ Sym.named n ∈ o.uses := by
      intro x s e t ty items hd hr
      obtain ⟨k, stc, hk⟩ := var_mem_allNews ds 0 env0 hd
      obtain ⟨T2, hT2⟩ := preOne_same gs1 (varObj k x stc e t ty (some items))
      refine ⟨_, p.mem_of_data_nt hk rfl, ?_, ?_⟩
      · rw [hT2]; simp [emittedP, varObj, ownerLive]
      · rw [hT2]; exact named_mem_initLabels.mpr hr
    -- a static local of `f`, printed if `f` is live or the datum has no owner
    have viaSL' : ∀ f, fnDefined (fnDecls ds f) = true → (Rules.ownedData = false ∨ liveFn gs1 f = true) → ∀ tls ty items,
        BodyItem.staticLocal tls ty (some items) ∈ fnBody (fnDecls ds f) →
        (n ∈ initFnRefs items ∨ n ∈ initObjRefs items) → ∃ o, o ∈ gs ∧ emittedP gs o = true ∧ Sym.named n ∈ o.uses := by
      intro f hdef hlive tls ty items hb hr
      obtain ⟨d, hd, hbd⟩ := mem_fnBody hdef
      obtain ⟨m, hm⟩ := mem_fnDecls.mp hd
      rw [hbd] at hm
      obtain ⟨k, hk⟩ := sl_mem_allNews ds 0 env0 hm hb
      obtain ⟨T2, hT2⟩ := preOne_same gs1 (slObj f k tls ty (some items))
      refine ⟨_, p.mem_of_data_nt hk rfl, ?_, ?_⟩
      · rw [hT2]
        have hfo : ({ slObj f k tls ty (some items) with ty := T2 } : Obj).isFunction = false := rfl
        have hdo : ({ slObj f k tls ty (some items) with ty := T2 } : Obj).isDefinition = true := rfl
        simp only [emittedP, hfo, hdo, Bool.false_eq_true, if_false, Bool.true_and]
        cases hD : Rules.ownedData
        · have : ({ slObj f k tls ty (some items) with ty := T2 } : Obj).owner = none := by simp [slObj, ownerOf_some, hD]
          exact ownerLive_of_noOwner gs this
        · have hown : ({ slObj f k tls ty (some items) with ty := T2 } : Obj).owner = some f := by simp [slObj, ownerOf_some, hD]
          rw [ownerLive_of_owner p hown]
          rcases hlive with h | h
          · rw [hD] at h; cases h
          · exact h
      · rw [hT2]; exact named_mem_initLabels.mpr hr
    rintro ((h | h | ⟨f, hfn, hem, h⟩) | ⟨hD, hdead⟩)
    rotate_left 3
    · obtain ⟨f, _, hdef, _, tls, ty, items, hb, hr⟩ := mem_deadStaticLocalRefs.mp hdead
      exact viaSL' f hdef (Or.inl hD) tls ty items hb hr
    · obtain ⟨x, s, e, t, ty, items, hd, hg⟩ := mem_fileFnRefs.mp h
      exact fromVar x s e t ty items hd (Or.inl hg)
    · obtain ⟨x, s, e, t, ty, items, hd, hg⟩ := mem_fileObjRefs.mp h
      exact fromVar x s e t ty items hd (Or.inr hg)
    · obtain ⟨o0, h0⟩ := fn_exists p hfn
      have hP := (fnEmitted_iff u p h0).mp hem
      have hdef : fnDefined (fnDecls ds f) = true := by rw [← isDefinition_parse p.hst h0]; exact hP.1
      -- direct mention or static local
      have direct : (BodyItem.ref (.fn n) ∈ fnBody (fnDecls ds f) ∨ BodyItem.ref (.obj n) ∈ fnBody (fnDecls ds f)) →
          ∃ o, o ∈ gs ∧ emittedP gs o = true ∧ Sym.named n ∈ o.uses := by
        intro hd
        have hNU := NU_parse p.hst f (u.oneBody f) hdef
        simp only [NU, U, h0, Option.map_some, Option.some.injEq] at hNU
        have hp' := List.find?_some h0
        simp only [Bool.and_eq_true, beq_iff_eq] at hp'
        refine ⟨_, p.mem_of_fn h0, ?_, ?_⟩
        · simp [emittedP, hp'.1, hP.1, hP.2]
        · show Sym.named n ∈ o0.uses
          rw [← mem_namedOf, hNU]
          exact mem_directRefs.mpr hd
      have viaSL := viaSL' f hdef (Or.inr hP.2)
      rcases h with h | h
      · rcases mem_bodyFnRefs.mp h with h | ⟨tls, ty, items, hb, hg⟩
        · exact direct (Or.inl h)
        · exact viaSL tls ty items hb (Or.inl hg)
      · rcases mem_bodyObjRefs.mp h with h | ⟨tls, ty, items, hb, hg⟩
        · exact direct (Or.inr h)
        · exact viaSL tls ty items hb (Or.inr hg)

omit u in
/-- a defined data object with an identifier is a file-scope variable -/
theorem data_def_objName {o : Obj} {x : Name} (ho : o ∈ gs) (hf : o.isFunction = false) (hd : o.isDefinition = true)
    (hs : o.sym = .named x) : x ∈ objNames ds := by
  obtain ⟨a, ha, _, _, T, rfl⟩ := p.data_of_mem ho hf
  rcases (allNews_kind ds 0 a ha).named hs with ⟨s, e, t, ty, init, k, pre, post, hdd, _⟩ | ⟨f, n, s, e, i, b, tls, ty, stc, _, _, rfl⟩
  · exact mem_objNames_of_mem (mem_of_split hdd)
  · cases hd

/-- what the output defines is what the Spec says is defined -/
def specDefined (ds : List Decl) (n : Name) : Prop :=
  (n ∈ objNames ds ∧ objDefined (objDecls ds n) = true) ∨ (n ∈ fnNames ds ∧ fnEmitted ds n = true)

omit [Rules] u p in
theorem definedHere_iff (n : Name) : definedHere ds n = true ↔ specDefined ds n := by
  simp [definedHere, specDefined]

theorem defined_iff (n : Name) :
    (∃ o, o ∈ gs ∧ o.sym = .named n ∧ ((o.isFunction = false ∧ o.isDefinition = true ∧ ownerLive gs o = true) ∨
      (o.isFunction = true ∧ o.isDefinition = true ∧ o.isLive = true))) ↔ specDefined ds n := by
  constructor
  · rintro ⟨o, ho, hs, (⟨hf, hd, _⟩ | ⟨hf, hd, hl⟩)⟩
    · have hx := data_def_objName p ho hf hd hs
      exact Or.inl ⟨hx, (data_entry p (u.objs n hx) true ho hf hd hs).1⟩
    · obtain ⟨f, o0, h0, rfl⟩ := p.fn_of_mem ho hf
      have hp' := List.find?_some h0
      simp only [Bool.and_eq_true, beq_iff_eq] at hp'
      have : f = n := by
        have hs' : o0.sym = .named n := hs
        rw [hp'.2] at hs'
        cases hs'; rfl
      subst this
      exact Or.inr ⟨fn_declared_of_find p h0, (fnEmitted_iff u p h0).mpr ⟨hd, hl⟩⟩
  · rintro (⟨hx, hD⟩ | ⟨hf, hem⟩)
    · obtain ⟨o, ho, hfo, hdo, hso⟩ := data_exists p (u.objs n hx) hD
      have hown := (data_entry p (u.objs n hx) true ho hfo hdo hso).2.1
      exact ⟨o, ho, hso, Or.inl ⟨hfo, hdo, ownerLive_of_noOwner gs hown⟩⟩
    · obtain ⟨o0, h0⟩ := fn_exists p hf
      have hP := (fnEmitted_iff u p h0).mp hem
      have hp' := List.find?_some h0
      simp only [Bool.and_eq_true, beq_iff_eq] at hp'
      exact ⟨_, p.mem_of_fn h0, hp'.2, Or.inr ⟨hp'.1, hP.1, hP.2⟩⟩

omit p in
/-- every identifier that is used is declared -/
theorem used_declared {n : Name} (h : n ∈ usedNames ds) :
    n ∈ fnNames ds ∨ n ∈ objNames ds ∨ n ∈ blockExternNames ds := by
  obtain ⟨r1, r2, r3, r4⟩ := refsOrdered_declared ds [] [] u.ordered
  rcases mem_usedNames.mp h with h | h | ⟨f, hfn, hem, h⟩
  · rcases r1 n h with h' | h'
    · cases h'
    · exact Or.inl h'
  · rcases r3 n h with h' | h'
    · cases h'
    · exact Or.inr (Or.inl h')
  · have hdef : fnDefined (fnDecls ds f) = true := by
      unfold fnEmitted at hem
      simp only [Bool.and_eq_true] at hem
      exact hem.1
    obtain ⟨d, hd, hbd⟩ := mem_fnBody hdef
    obtain ⟨m, hm⟩ := mem_fnDecls.mp hd
    rw [hbd] at hm
    rcases h with h | h
    · rcases r2 f m _ _ _ _ hm n h with h' | h'
      · cases h'
      · exact Or.inl h'
    · rcases r4 f m _ _ _ _ hm n h with h' | h' | ⟨tls, ty, h'⟩
      · cases h'
      · exact Or.inr (Or.inl h')
      · exact Or.inr (Or.inr (mem_blockExternNames.mpr ⟨f, m, _, _, _, _, tls, ty, hm, h'⟩))

omit p in
/-- a function that is used is needed -/
theorem used_needed {n : Name} (hfn : n ∈ fnNames ds) (h : n ∈ usedNames ds) : n ∈ neededList ds := by
  obtain ⟨_, _, r3, r4⟩ := refsOrdered_declared ds [] [] u.ordered
  have hdis := u.disjoint hfn
  rcases mem_usedNames.mp h with h | h | ⟨f, _, hem, h⟩
  · exact (u.mem_needed n).mpr ⟨n, Or.inr h, ReachS.refl⟩
  · rcases r3 n h with h' | h'
    · cases h'
    · exact absurd h' hdis.1
  · unfold fnEmitted at hem
    simp only [Bool.and_eq_true] at hem
    have hneeded : f ∈ neededList ds := by simpa using hem.2
    rcases h with h | h
    · obtain ⟨r, hr, hreach⟩ := (u.mem_needed f).mp hneeded
      exact (u.mem_needed n).mpr ⟨r, hr, ReachS.step hreach h⟩
    · obtain ⟨d, hd, hbd⟩ := mem_fnBody hem.1
      obtain ⟨m, hm⟩ := mem_fnDecls.mp hd
      rw [hbd] at hm
      rcases r4 f m _ _ _ _ hm n h with h' | h' | ⟨tls, ty, h'⟩
      · cases h'
      · exact absurd h' hdis.1
      · exact absurd (mem_blockExternNames.mpr ⟨f, m, _, _, _, _, tls, ty, hm, h'⟩) hdis.2

end

/-! ### the two tables -/

def undefEntry (s : Sym) : SymEntry := ⟨s, .global, .undef, none, 0⟩

omit [Rules] in
theorem asmView_sym (e : SymEntry) : (asmView e).sym = e.sym := by
  unfold asmView; split <;> rfl

omit [Rules] in
theorem emit_defined {fc : Bool} {gs : List Obj} {s : Sym} :
    (emit fc gs).any (fun e => e.sym == s) = true ↔
      ∃ o, o ∈ gs ∧ o.sym = s ∧ ((o.isFunction = false ∧ o.isDefinition = true ∧ ownerLive gs o = true) ∨
        (o.isFunction = true ∧ o.isDefinition = true ∧ o.isLive = true)) := by
  unfold emit emitData emitText
  rw [List.any_append, Bool.or_eq_true, List.any_eq_true, List.any_eq_true]
  constructor
  · rintro (⟨e, he, hs⟩ | ⟨e, he, hs⟩)
    · rw [List.mem_filterMap] at he
      obtain ⟨o, ho, hoe⟩ := he
      rw [List.mem_filter] at ho
      have h1 := emitDataVar_isSome fc o
      rw [hoe] at h1
      simp only [Option.isSome_some, Bool.true_eq, Bool.and_eq_true, Bool.not_eq_true'] at h1
      have h2 := emitDataVar_sym hoe
      exact ⟨o, ho.1, by rw [← h2]; simpa using hs, Or.inl ⟨h1.1, h1.2, ho.2⟩⟩
    · rw [List.mem_filterMap] at he
      obtain ⟨o, ho, hoe⟩ := he
      unfold emitTextFn at hoe
      split at hoe
      · cases hoe
      · split at hoe
        · cases hoe
        · rename_i h1 h2
          simp only [Option.some.injEq] at hoe
          subst hoe
          simp only [Bool.or_eq_true, Bool.not_eq_true', not_or, Bool.not_eq_false] at h1 h2
          exact ⟨o, ho, by simpa using hs, Or.inr ⟨h1.1, h1.2, h2⟩⟩
  · rintro ⟨o, ho, hs, (⟨hf, hd, hol⟩ | ⟨hf, hd, hl⟩)⟩
    · left
      have h1 := emitDataVar_isSome fc o
      rw [hf, hd] at h1
      cases hoe : emitDataVar fc o with
      | none => rw [hoe] at h1; cases h1
      | some e =>
        exact ⟨e, List.mem_filterMap.mpr ⟨o, List.mem_filter.mpr ⟨ho, hol⟩, hoe⟩, by rw [emitDataVar_sym hoe, hs]; simp⟩
    · right
      refine ⟨⟨o.sym, bindingOf o, .text, none, 0⟩, List.mem_filterMap.mpr ⟨o, ho, ?_⟩, by simp [hs]⟩
      simp [emitTextFn, hf, hd, hl]

omit [Rules] in
theorem mem_undefs {fc : Bool} {gs : List Obj} {s : Sym} :
    s ∈ undefs fc gs ↔ s ∈ emittedUses gs ∧ (emit fc gs).any (fun e => e.sym == s) = false := by
  unfold undefs
  rw [mem_dedup, List.mem_filter]
  simp

omit [Rules] in
theorem mem_objectSymbols {fc : Bool} {gs : List Obj} {e : SymEntry} :
    e ∈ objectSymbols fc gs ↔ (∃ n, e.sym = .named n) ∧
      ((∃ o, o ∈ gs ∧ ownerLive gs o = true ∧ (emitDataVar fc o).map asmView = some e) ∨ (∃ o, o ∈ gs ∧ emitTextFn o = some e) ∨
       (∃ s, s ∈ undefs fc gs ∧ e = undefEntry s)) := by
  unfold objectSymbols
  rw [List.mem_filter, List.mem_append, List.mem_map, List.mem_map]
  constructor
  · rintro ⟨h, hn⟩
    have hn' : ∃ n, e.sym = .named n := by
      cases hes : e.sym with
      | named n => exact ⟨n, rfl⟩
      | anon k => rw [hes] at hn; cases hn
    refine ⟨hn', ?_⟩
    rcases h with ⟨e', he', rfl⟩ | ⟨s, hs, rfl⟩
    · unfold emit emitData emitText at he'
      rw [List.mem_append, List.mem_filterMap, List.mem_filterMap] at he'
      rcases he' with ⟨o, ho, hoe⟩ | ⟨o, ho, hoe⟩
      · rw [List.mem_filter] at ho
        exact Or.inl ⟨o, ho.1, ho.2, by rw [hoe]; rfl⟩
      · right; left
        refine ⟨o, ho, ?_⟩
        rw [hoe]
        -- a text entry is not a common symbol
        unfold emitTextFn at hoe
        split at hoe
        · cases hoe
        · split at hoe
          · cases hoe
          · simp only [Option.some.injEq] at hoe
            subst hoe
            rfl
    · exact Or.inr (Or.inr ⟨s, hs, rfl⟩)
  · rintro ⟨⟨n, hn⟩, h⟩
    refine ⟨?_, by rw [hn]⟩
    rcases h with ⟨o, ho, hol, hoe⟩ | ⟨o, ho, hoe⟩ | ⟨s, hs, rfl⟩
    · left
      cases hd : emitDataVar fc o with
      | none => rw [hd] at hoe; cases hoe
      | some e' =>
        rw [hd] at hoe
        simp only [Option.map_some, Option.some.injEq] at hoe
        refine ⟨e', ?_, hoe⟩
        unfold emit emitData
        exact List.mem_append_left _ (List.mem_filterMap.mpr ⟨o, List.mem_filter.mpr ⟨ho, hol⟩, hd⟩)
    · left
      refine ⟨e, ?_, ?_⟩
      · unfold emit emitText
        exact List.mem_append_right _ (List.mem_filterMap.mpr ⟨o, ho, hoe⟩)
      · unfold emitTextFn at hoe
        split at hoe
        · cases hoe
        · split at hoe
          · cases hoe
          · simp only [Option.some.injEq] at hoe
            subst hoe
            rfl
    · exact Or.inr ⟨s, hs, rfl⟩

omit [Rules] in
theorem mem_symbols {fc : Bool} {ds : List Decl} {e : SymEntry} :
    e ∈ symbols fc ds ↔ (∃ f, f ∈ fnNames ds ∧ fnSymbol ds f = some e) ∨ (∃ x, x ∈ objNames ds ∧ objSymbol fc ds x = some e) ∨
      (∃ x, x ∈ blockExternNames ds ∧ x ∉ objNames ds ∧ x ∈ usedNames ds ∧ e = undefEntry (.named x)) := by
  unfold symbols
  simp only [List.mem_append, List.mem_filterMap, List.mem_map, List.mem_filter, mem_dedup, Bool.and_eq_true,
    Bool.not_eq_true', List.contains_eq_mem, decide_eq_false_iff_not, decide_eq_true_eq, undefEntry]
  constructor
  · rintro ((h | h) | ⟨x, ⟨hx, hno, hu⟩, rfl⟩)
    · exact Or.inl h
    · exact Or.inr (Or.inl h)
    · exact Or.inr (Or.inr ⟨x, hx, hno, hu, rfl⟩)
  · rintro (h | h | ⟨x, hx, hno, hu, rfl⟩)
    · exact Or.inl (Or.inl h)
    · exact Or.inl (Or.inr h)
    · exact Or.inr ⟨x, ⟨hx, hno, hu⟩, rfl⟩

/-- **the symbol table of the output has exactly the entries of `Spec.symbols`** -/
theorem symbols_iff {ds : List Decl} (u : UnitOK ds) {st : PState} {gs1 gs : List Obj} (p : Parsed ds st gs1 gs)
    (fc : Bool) (e : SymEntry) : e ∈ objectSymbols fc gs ↔ e ∈ symbols fc ds := by
  rw [mem_objectSymbols, mem_symbols]
  -- "defined in the output" in Spec terms
  have hdefd : ∀ n, (emit fc gs).any (fun e => e.sym == Sym.named n) = true ↔ specDefined ds n :=
    fun n => emit_defined.trans (defined_iff u p n)
  constructor
  · rintro ⟨⟨n, hsym⟩, h⟩
    rcases h with ⟨o, ho, _, hoe⟩ | ⟨o, ho, hoe⟩ | ⟨s, hs, rfl⟩
    · -- a datum
      cases hd : emitDataVar fc o with
      | none => rw [hd] at hoe; cases hoe
      | some e' =>
        have h1 := emitDataVar_isSome fc o
        rw [hd] at h1
        simp only [Option.isSome_some, Bool.true_eq, Bool.and_eq_true, Bool.not_eq_true'] at h1
        have hs : o.sym = .named n := by
          rw [hd] at hoe
          simp only [Option.map_some, Option.some.injEq] at hoe
          rw [← emitDataVar_sym hd, ← asmView_sym, hoe, hsym]
        have hx := data_def_objName p ho h1.1 h1.2 hs
        obtain ⟨hD, _, hent⟩ := data_entry p (u.objs n hx) fc ho h1.1 h1.2 hs
        rw [hoe] at hent
        exact Or.inr (Or.inl ⟨n, hx, by rw [objSymbol_defined hD, hent]⟩)
    · -- a function
      have hfo : o.isFunction = true := by
        unfold emitTextFn at hoe
        split at hoe
        · cases hoe
        · rename_i h1
          simp only [Bool.or_eq_true, Bool.not_eq_true', not_or, Bool.not_eq_false] at h1
          exact h1.1
      obtain ⟨f, o0, h0, rfl⟩ := p.fn_of_mem ho hfo
      have hent := u.fn_entry p h0
      rw [hoe] at hent
      cases hD : fnDefined (fnDecls ds f)
      · rw [hD] at hent; cases hent
      · rw [hD] at hent
        simp only [if_true] at hent
        exact Or.inl ⟨f, fn_declared_of_find p h0, by rw [u.fnSymbol_defined p.hst h0 hD]; exact hent.symm⟩
    · -- an undefined reference
      obtain ⟨hu, hnd⟩ := mem_undefs.mp hs
      have hsn : s = .named n := hsym
      subst hsn
      have hnot : ¬ specDefined ds n := by
        intro hsd
        rw [(hdefd n).mpr hsd] at hnd; cases hnd
      have hused : n ∈ usedNames ds := by
        rcases (uses_iff u p n).mp hu with h | ⟨hD0, h⟩
        · exact h
        · -- named only by a static local of a dead function: outside the region it is used or defined anyway
          have hr : deadStaticLocalVisibleRegion ds = false := by
            rcases u.noDeadSL with h' | h'
            · rw [hD0] at h'; cases h'
            · exact h'
          unfold deadStaticLocalVisibleRegion at hr
          rw [List.any_eq_false] at hr
          have := hr n h
          simp only [Bool.and_eq_true, Bool.not_eq_true', List.contains_eq_mem, decide_eq_false_iff_not, not_and,
            Bool.not_eq_false] at this
          by_cases hun : n ∈ usedNames ds
          · exact hun
          · exact absurd ((definedHere_iff n).mp (this hun)) hnot
      by_cases hfn : n ∈ fnNames ds
      · left
        refine ⟨n, hfn, ?_⟩
        cases hD : fnDefined (fnDecls ds n)
        · simp [fnSymbol, hD, hused, undefEntry]
        · exfalso
          apply hnot
          refine Or.inr ⟨hfn, ?_⟩
          unfold fnEmitted
          rw [hD]
          simpa using used_needed u hfn hused
      · by_cases hon : n ∈ objNames ds
        · right; left
          refine ⟨n, hon, ?_⟩
          cases hD : objDefined (objDecls ds n)
          · simp [objSymbol, hD, hused, undefEntry]
          · exact absurd (Or.inl ⟨hon, hD⟩) hnot
        · right; right
          rcases used_declared u hused with h | h | h
          · exact absurd h hfn
          · exact absurd h hon
          · exact ⟨n, h, hon, hused, rfl⟩
  · rintro (⟨f, hfn, hfs⟩ | ⟨x, hx, hos⟩ | ⟨x, hbx, hno, hused, rfl⟩)
    · obtain ⟨o0, h0⟩ := fn_exists p hfn
      cases hD : fnDefined (fnDecls ds f)
      · -- undefined: an undefined reference if used
        unfold fnSymbol at hfs
        simp only [hD, Bool.false_eq_true, if_false] at hfs
        split at hfs
        · rename_i hc
          simp only [Option.some.injEq] at hfs
          subst hfs
          have hused : f ∈ usedNames ds := by simpa using hc
          refine ⟨⟨f, rfl⟩, Or.inr (Or.inr ⟨.named f, mem_undefs.mpr ⟨(uses_iff u p f).mpr (Or.inl hused), ?_⟩, rfl⟩)⟩
          cases hany : (emit fc gs).any (fun e => e.sym == Sym.named f)
          · rfl
          · exfalso
            rcases (hdefd f).mp hany with ⟨hon, _⟩ | ⟨_, hem⟩
            · exact (u.disjoint hfn).1 hon
            · unfold fnEmitted at hem
              rw [hD] at hem; cases hem
        · cases hfs
      · rw [u.fnSymbol_defined p.hst h0 hD] at hfs
        have hent := u.fn_entry p h0
        rw [hD] at hent
        simp only [if_true] at hent
        rw [hfs] at hent
        have hsym : e.sym = .named f := by
          split at hfs
          · simp only [Option.some.injEq] at hfs; subst hfs; rfl
          · cases hfs
        exact ⟨⟨f, hsym⟩, Or.inr (Or.inl ⟨_, p.mem_of_fn h0, hent⟩)⟩
    · have ok := u.objs x hx
      cases hD : objDefined (objDecls ds x)
      · unfold objSymbol at hos
        simp only [hD, Bool.false_eq_true, if_false] at hos
        split at hos
        · rename_i hc
          simp only [Option.some.injEq] at hos
          subst hos
          have hused : x ∈ usedNames ds := by simpa using hc
          refine ⟨⟨x, rfl⟩, Or.inr (Or.inr ⟨.named x, mem_undefs.mpr ⟨(uses_iff u p x).mpr (Or.inl hused), ?_⟩, rfl⟩)⟩
          cases hany : (emit fc gs).any (fun e => e.sym == Sym.named x)
          · rfl
          · exfalso
            rcases (hdefd x).mp hany with ⟨_, hD'⟩ | ⟨hfn, _⟩
            · rw [hD] at hD'; cases hD'
            · exact ok.noFn hfn
        · cases hos
      · rw [objSymbol_defined hD] at hos
        simp only [Option.some.injEq] at hos
        subst hos
        obtain ⟨o, ho, hfo, hdo, hso⟩ := data_exists p ok hD
        obtain ⟨_, hown, hent⟩ := data_entry p ok fc ho hfo hdo hso
        exact ⟨⟨x, rfl⟩, Or.inl ⟨o, ho, ownerLive_of_noOwner gs hown, hent⟩⟩
    · refine ⟨⟨x, rfl⟩, Or.inr (Or.inr ⟨.named x, mem_undefs.mpr ⟨(uses_iff u p x).mpr (Or.inl hused), ?_⟩, rfl⟩)⟩
      cases hany : (emit fc gs).any (fun e => e.sym == Sym.named x)
      · rfl
      · exfalso
        rcases (hdefd x).mp hany with ⟨hon, _⟩ | ⟨hfn, _⟩
        · exact hno hon
        · exact (u.disjoint hfn).2 hbx

/-! ### from the decidable hypotheses of the theorem -/


theorem unitOK_of {ds : List Decl} (hsc : symbolsScope ds = true) : UnitOK ds := by
  simp only [symbolsScope, Bool.and_eq_true, Bool.or_eq_true, Bool.not_eq_true'] at hsc
  obtain ⟨⟨⟨⟨hv, hf⟩, hd⟩, hc⟩, he⟩ := hsc
  obtain ⟨_, hobj, hdis, _, _, hblk⟩ := valid_parts hv
  refine ⟨hv, fun x hx => ?_, hf, hd⟩
  refine ⟨hobj x hx, fun hfn => (hdis x hfn).1 hx, fun ty hb hk => ?_, ?_, ?_⟩
  · unfold blockExternsAgree at hblk
    rw [List.all_eq_true] at hblk
    have := hblk (x, ty) hb
    have hc' : (objNames ds).contains x = true := by simpa using hx
    simp only [hc', Bool.not_true, Bool.false_or, Bool.and_eq_true, Bool.or_eq_true, beq_iff_eq] at this
    rcases this.2 with h | h
    · rw [hk] at h; cases h
    · exact h
  · rcases he with he | he
    · exact Or.inl he
    · right
      intro hh
      unfold externInitAfterStaticRegion at he
      rw [List.any_eq_false] at he
      have := he x hx
      simp only [hh.1, hh.2, Bool.and_self] at this
      exact this trivial
  · rcases hc with hc | hc
    · exact Or.inl hc
    · right
      intro hh
      unfold compositeSizeRegion at hc
      rw [List.any_eq_false] at hc
      have := hc x hx
      simp only [hh.1, hh.2.1, hh.2.2.1, hh.2.2.2, Bool.not_false, Bool.and_self] at this
      exact this trivial

/-- **C15_symbols, outside the regions of the known findings the code still has** (lemma form) -/
theorem symbols_partial_lemma (fcommon : Bool) {ds : List Decl} (hsc : symbolsScope ds = true) :
    ∃ gs, parseUnit ds = .ok gs ∧ (∀ e, e ∈ objectSymbols fcommon gs ↔ e ∈ symbols fcommon ds) := by
  have u := unitOK_of hsc
  obtain ⟨st, hst⟩ := parse_ok u.valid
  obtain ⟨gs1, p⟩ := parsed_of_declAll hst
  exact ⟨scanGlobals gs1, p.parseUnit, fun e => symbols_iff u p fcommon e⟩

end ChibiVerif.Linkage
