/-
Helper lemmas for C15_symbols_perm_partial: no symbol appears twice, neither in the symbol table of the output nor
in `Spec.symbols`.  Together with `symbols_iff` (same entries) the two tables are permutations of each other.

* the labels `.L..k` of the unit are `k = 0 .. n-1`, each used once (`anonIdx_allNews`);
* at most one declaration of an object has an initializer (`objValid`), so at most one non-tentative definition
  of a name is in the list; `scan_globals` leaves at most one definition per name (Lemmas/LinkageTent);
* function objects have distinct names (`WF.nodup`);
* functions, objects and block-scope externs use different identifiers (`valid`).
-/
import ChibiVerif.Lemmas.LinkageSym

namespace ChibiVerif.Linkage
open ChibiVerif.Spec.Linkage

variable [Rules]

/-! ### generic list facts -/

omit [Rules] in
theorem nodup_dedup {α : Type} [DecidableEq α] : ∀ (l : List α), (dedup l).Nodup
  | [] => List.nodup_nil
  | a :: as => by
    unfold dedup
    by_cases h : a ∈ as
    · simp only [h, if_true]; exact nodup_dedup as
    · simp only [h, if_false]
      exact List.nodup_cons.mpr ⟨fun hm => h (mem_dedup.mp hm), nodup_dedup as⟩

omit [Rules] in
theorem nodup_reverse' {α : Type} {l : List α} (h : l.Nodup) : l.reverse.Nodup := by
  unfold List.Nodup at h ⊢
  rw [List.pairwise_reverse]
  exact h.imp (fun hab => fun e => hab e.symm)

omit [Rules] in
/-- a mapped list has no duplicates if every value has at most one source -/
theorem nodup_map_of_count {α : Type} (f : α → Sym) : ∀ (l : List α),
    (∀ s, (l.filter (fun e => f e == s)).length ≤ 1) → (l.map f).Nodup
  | [], _ => List.nodup_nil
  | a :: as, h => by
    rw [List.map_cons, List.nodup_cons]
    refine ⟨fun hm => ?_, nodup_map_of_count f as (fun s => ?_)⟩
    · rw [List.mem_map] at hm
      obtain ⟨b, hb, hfb⟩ := hm
      have := h (f a)
      simp only [List.filter_cons, beq_self_eq_true, if_true, List.length_cons] at this
      have hpos : 0 < (as.filter (fun e => f e == f a)).length :=
        List.length_pos_of_mem (List.mem_filter.mpr ⟨hb, by simp [hfb]⟩)
      omega
    · have := h s
      simp only [List.filter_cons] at this
      split at this
      · simp only [List.length_cons] at this; omega
      · exact this

omit [Rules] in
theorem sublist_filterMap_map {α β γ : Type} {g : α → Option β} {h : β → γ} {k : α → γ}
    (hg : ∀ a e, g a = some e → h e = k a) : ∀ l : List α, ((l.filterMap g).map h).Sublist (l.map k)
  | [] => List.Sublist.slnil
  | a :: as => by
    simp only [List.filterMap_cons, List.map_cons]
    cases hga : g a with
    | none => exact List.Sublist.cons _ (sublist_filterMap_map hg as)
    | some e =>
      simp only [List.map_cons]
      rw [hg a e hga]
      exact List.Sublist.cons_cons _ (sublist_filterMap_map hg as)

/-! ### the labels `.L..k` are used once -/

def anonIdx (l : List Obj) : List Nat := l.filterMap (fun o => match o.sym with | .anon j => some j | .named _ => none)

omit [Rules] in
theorem anonIdx_append (a b : List Obj) : anonIdx (a ++ b) = anonIdx a ++ anonIdx b := by
  simp [anonIdx, List.filterMap_append]

omit [Rules] in
/-- `(range' k n).reverse`, built by appending at the end -/
theorem range_rev_succ (k n : Nat) : (List.range' k (n + 1)).reverse = (List.range' (k + 1) n).reverse ++ [k] := by
  rw [List.range'_succ, List.reverse_cons]

omit [Rules] in
theorem range_rev_append (k m n : Nat) :
    (List.range' (k + m) n).reverse ++ (List.range' k m).reverse = (List.range' k (m + n)).reverse := by
  rw [← List.reverse_append, List.range'_append_1]

theorem anonIdx_initNews (cur : Option Name) : ∀ (items : List InitItem) (k : Nat), anonIdx (initNews cur k items) = (List.range' k (initCount items)).reverse
  | [], _ => rfl
  | .ref _ :: r, k => by simp only [initNews, initCount]; exact anonIdx_initNews cur r k
  | .str n :: r, k => by
    simp only [initNews, initCount, anonIdx_append, anonIdx_initNews cur r (k + 1)]
    rw [range_rev_succ]
    rfl

theorem anonIdx_bodyItemNews (f : Name) (env : SEnv) (k : Nat) (b : BodyItem) : anonIdx (bodyItemNews f env k b) = (List.range' k (bodyItemCount b)).reverse := by
  cases b with
  | ref r => rfl
  | staticLocal tls ty init =>
    cases init with
    | none => rfl
    | some items =>
      simp only [bodyItemNews, bodyItemCount, anonIdx_append, anonIdx_initNews]
      rw [Nat.add_comm 1, range_rev_succ]
      rfl
  | str n => rfl
  | externObj x tls ty => rfl

theorem anonIdx_bodyNews (f : Name) : ∀ (b : List BodyItem) (env : SEnv) (k : Nat), anonIdx (bodyNews f env k b) = (List.range' k (bodyCount b)).reverse
  | [], _, _ => rfl
  | i :: rest, env, k => by
    simp only [bodyNews, bodyCount, anonIdx_append, anonIdx_bodyNews f rest, anonIdx_bodyItemNews]
    exact range_rev_append k _ _

theorem anonIdx_declNews (k : Nat) (env : SEnv) (d : Decl) : anonIdx (declNews k env d) = (List.range' k (declCount d)).reverse := by
  cases d with
  | func f n s e i body =>
    cases body with
    | none => rfl
    | some b =>
      simp only [declNews, declCount, anonIdx_append, anonIdx_bodyNews]
      have : anonIdx [strObj (some f) (k + 1) (n + 1), strObj (some f) k (n + 1)] = (List.range' k 2).reverse := rfl
      rw [this]
      exact range_rev_append k 2 _
  | obj x s e t ty init =>
    cases init with
    | none => rfl
    | some items =>
      simp only [declNews, declCount, anonIdx_append, anonIdx_initNews]
      have : anonIdx [varObj k x (varStatic env x s e) e t ty (some items)] = [] := rfl
      rw [this, List.append_nil]

def totalCount : List Decl → Nat
  | [] => 0
  | d :: ds => declCount d + totalCount ds

theorem anonIdx_allNews : ∀ (ds : List Decl) (k : Nat) (env : SEnv), anonIdx (allNews k env ds) = (List.range' k (totalCount ds)).reverse
  | [], _, _ => rfl
  | d :: ds, k, env => by
    simp only [allNews, totalCount, anonIdx_append, anonIdx_allNews ds, anonIdx_declNews]
    exact range_rev_append k _ _

theorem nodup_anonIdx_allNews (ds : List Decl) (k : Nat) (env : SEnv) : (anonIdx (allNews k env ds)).Nodup := by
  rw [anonIdx_allNews]
  exact nodup_reverse' List.nodup_range'

omit [Rules] in
theorem count_anon_le_one : ∀ (l : List Obj) (j : Nat), (anonIdx l).Nodup → (l.filter (fun o => o.sym == .anon j)).length ≤ 1
  | [], _, _ => Nat.zero_le _
  | a :: as, j, h => by
    simp only [List.filter_cons]
    cases hs : a.sym with
    | named n =>
      have : anonIdx (a :: as) = anonIdx as := by simp [anonIdx, hs]
      rw [this] at h
      simpa using count_anon_le_one as j h
    | anon i =>
      have hidx : anonIdx (a :: as) = i :: anonIdx as := by simp [anonIdx, hs]
      rw [hidx, List.nodup_cons] at h
      by_cases hij : i = j
      · subst hij
        simp only [beq_self_eq_true, if_true, List.length_cons]
        have : as.filter (fun o => o.sym == .anon i) = [] := by
          rw [List.filter_eq_nil_iff]
          intro o ho hso
          apply h.1
          simp only [anonIdx, List.mem_filterMap]
          exact ⟨o, ho, by simp only [beq_iff_eq] at hso; rw [hso]⟩
        rw [this]; exact Nat.le_refl _
      · have : (Sym.anon i == Sym.anon j) = false := by simp [hij]
        simp only [this, Bool.false_eq_true, if_false]
        exact count_anon_le_one as j h.2

/-! ### at most one non-tentative definition per object name -/

theorem realDef_bodyNews {f : Name} {b : List BodyItem} {env : SEnv} {k : Nat} {x : Name} : (bodyNews f env k b).filter (realDefOf (.named x)) = [] := by
  rw [List.filter_eq_nil_iff]
  intro o ho
  rcases bodyNews_kind f b env k o ho with ⟨cur, j, n, rfl⟩ | ⟨y, tls, ty, stc, _, rfl⟩ | ⟨tls, ty, init, j, _, rfl⟩ <;>
    simp [realDefOf, strObj, externO, slObj]

theorem realDef_initNews {cur : Option Name} {items : List InitItem} {k : Nat} {x : Name} : (initNews cur k items).filter (realDefOf (.named x)) = [] := by
  rw [List.filter_eq_nil_iff]
  intro o ho
  obtain ⟨j, n, rfl⟩ := initNews_str ho
  simp [realDefOf, strObj]

theorem realDef_count_allNews (x : Name) : ∀ (ds : List Decl) (k : Nat) (env : SEnv),
    ((allNews k env ds).filter (realDefOf (.named x))).length = ((objDecls ds x).filter (fun d => d.init.isSome)).length
  | [], _, _ => rfl
  | d :: ds, k, env => by
    simp only [allNews, List.filter_append, List.length_append, realDef_count_allNews x ds]
    cases d with
    | func f n s e i body =>
      have hD : objDecls (.func f n s e i body :: ds) x = objDecls ds x := by simp [objDecls]
      rw [hD]
      cases body with
      | none => simp [declNews]
      | some b =>
        simp only [declNews, List.filter_append, realDef_bodyNews, List.nil_append]
        simp [realDefOf, strObj]
    | obj y s e t ty init =>
      cases init with
      | none =>
        have h0 : (declNews k env (.obj y s e t ty none)).filter (realDefOf (.named x)) = [] := by
          simp only [declNews, List.filter_eq_nil_iff, List.mem_singleton]
          intro o ho; subst ho
          cases e <;> simp [realDefOf, varObj]
        rw [h0]
        by_cases hy : y = x
        · simp [objDecls, hy]
        · simp [objDecls, hy]
      | some items =>
        simp only [declNews, List.filter_append, realDef_initNews, List.nil_append]
        by_cases hy : y = x
        · subst hy
          simp [objDecls, realDefOf, varObj]
        · have : (Sym.named y == Sym.named x) = false := by simp [hy]
          simp [objDecls, realDefOf, varObj, hy, this]

/-! ### the output -/

section
variable {ds : List Decl} (u : UnitOK ds) {st : PState} {gs1 gs : List Obj} (p : Parsed ds st gs1 gs)
include u p

omit u in
theorem fnNamed1 : FnNamed gs1 := by
  intro o ho hf
  obtain ⟨o0, ho0, hh⟩ := p.ext.upd.mem ho
  have hf0 : o0.isFunction = true := by rcases hh with rfl | rfl <;> exact hf
  obtain ⟨f, hs0⟩ := fnNamed_declAll p.hst o0 ho0 hf0
  exact ⟨f, by rcases hh with rfl | rfl <;> exact hs0⟩

omit u in
theorem filter_data1 (q : Obj → Bool) (hq : ∀ o, o ∈ gs1 → q o = true → o.isFunction = false) :
    gs1.filter q = (allNews 0 env0 ds).filter q := by
  rw [← p.data1]
  unfold dataOf
  rw [List.filter_filter]
  apply List.filter_congr
  intro o ho
  cases hqo : q o
  · rfl
  · simp [hq o ho hqo]

omit u in
theorem tentDef1 : ∀ o, o ∈ gs1 → o.isTentative = true → o.isDefinition = true := by
  intro o ho ht
  have hf : o.isFunction = false := by
    cases hf : o.isFunction
    · rfl
    · rw [p.fnNotTent1 o ho hf] at ht; cases ht
  have ha : o ∈ allNews 0 env0 ds := by rw [← p.data1]; exact mem_dataOf.mpr ⟨ho, hf⟩
  cases allNews_kind ds 0 o ha with
  | @var x s e t ty init k pre post hd =>
    rw [varObj_isTentative] at ht
    rw [varObj_isDefinition]
    cases init <;> simp_all
  | ext => cases ht
  | sl => cases ht
  | str => cases ht

omit u p in
/-- the hypotheses of C15_tentative survive the pass in front of `scan_globals` (it changes types only) -/
theorem nameOK_preScan {l : List Obj} {s : Sym} (h : NameOK l s) : NameOK (preScan l) s := by
  refine ⟨fun o ho hs => ?_, ?_, fun o ho ht => ?_⟩
  · obtain ⟨a, ha, rfl⟩ := mem_preScan.mp ho
    obtain ⟨T, hT⟩ := preOne_same l a
    rw [hT] at hs ⊢
    exact h.noFn a ha hs
  · rw [(preScan_tyRel l).filter_length (tyBlind_realDefOf s)]
    exact h.oneReal
  · obtain ⟨a, ha, rfl⟩ := mem_preScan.mp ho
    obtain ⟨T, hT⟩ := preOne_same l a
    rw [hT] at ht ⊢
    exact h.tentDef a ha ht

/-- at most one definition of any label among the data `emit_data` prints -/
theorem data_count_le_one (fc : Bool) (s : Sym) : ((emitData fc gs).filter (fun e => e.sym == s)).length ≤ 1 := by
  have hle : ((emitData fc gs).filter (fun e => e.sym == s)).length ≤
      ((gs.filterMap (emitDataVar fc)).filter (fun e => e.sym == s)).length := by
    unfold emitData
    exact ((List.filter_sublist.filterMap _).filter _).length_le
  refine Nat.le_trans hle ?_
  rw [emitDataVar_count, p.hgs]
  unfold scanGlobals
  rw [(scanCore_tyRel (preScan gs1)).filter_length (tyBlind_dataDefOf s)]
  cases s with
  | anon j =>
    refine scanPure_count_le_one (nameOK_preScan ⟨fun o ho hs => ?_, ?_, tentDef1 p⟩)
    · cases hf : o.isFunction
      · rfl
      · obtain ⟨f, hsf⟩ := fnNamed1 p o ho hf
        rw [hsf] at hs; cases hs
    · have hle : (gs1.filter (realDefOf (.anon j))).length ≤ (gs1.filter (fun o => o.sym == .anon j)).length :=
        length_filter_le_of_imp (fun o ho => by
          simp only [realDefOf, Bool.and_eq_true] at ho; exact ho.2) gs1
      rw [filter_data1 p (fun o => o.sym == .anon j) (fun o ho hs => by
        cases hf : o.isFunction
        · rfl
        · obtain ⟨f, hsf⟩ := fnNamed1 p o ho hf
          simp only [beq_iff_eq] at hs
          rw [hsf] at hs; cases hs)] at hle
      exact Nat.le_trans hle (count_anon_le_one _ j (nodup_anonIdx_allNews ds 0 env0))
  | named x =>
    by_cases hfn : x ∈ fnNames ds
    · -- a function name: no datum carries it
      have : (scanPure (preScan gs1) (preScan gs1)).filter (dataDefOf (.named x)) = [] := by
        rw [List.filter_eq_nil_iff]
        intro o ho hd
        simp only [dataDefOf, Bool.and_eq_true, Bool.not_eq_true', beq_iff_eq] at hd
        obtain ⟨a, ha1, rfl⟩ := mem_preScan.mp (scanPure_sub _ _ o ho)
        obtain ⟨T, hT⟩ := preOne_same gs1 a
        rw [hT] at hd
        have ha : a ∈ allNews 0 env0 ds := by rw [← p.data1]; exact mem_dataOf.mpr ⟨ha1, hd.1.1⟩
        rcases (allNews_kind ds 0 a ha).named hd.2 with ⟨s, e, t, ty, init, k, pre, post, hdd, _⟩ | ⟨f, n, s, e, i, b, tls, ty, stc, _, _, rfl⟩
        · exact (u.disjoint hfn).1 (mem_objNames_of_mem (mem_of_split hdd))
        · have := hd.1.2; cases this
      rw [this]; exact Nat.zero_le _
    · refine scanPure_count_le_one (nameOK_preScan ⟨fun o ho hs => ?_, ?_, tentDef1 p⟩)
      · cases hf : o.isFunction
        · rfl
        · exact absurd (firstFlags_isSome.mp (p.fn_declared ho hf hs)) hfn
      · rw [filter_data1 p (realDefOf (.named x)) (fun o ho hr => by
          simp only [realDefOf, Bool.and_eq_true, beq_iff_eq] at hr
          cases hf : o.isFunction
          · rfl
          · exact absurd (firstFlags_isSome.mp (p.fn_declared ho hf hr.2)) hfn), realDef_count_allNews]
        by_cases hx : x ∈ objNames ds
        · have := (u.objs x hx).valid
          simp only [objValid, Bool.and_eq_true, decide_eq_true_eq] at this
          exact this.1.1.1.1.1
        · rw [mem_objNames, Classical.not_not] at hx
          rw [hx]; exact Nat.zero_le _

omit [Rules] u p in
theorem text_syms_sublist : ∀ (l : List Obj), FnNamed l →
    ((l.filterMap emitTextFn).map (·.sym)).Sublist ((fnNamesOf l).map Sym.named)
  | [], _ => List.Sublist.slnil
  | a :: as, h => by
    have ih := text_syms_sublist as (fun o ho => h o (List.mem_cons_of_mem _ ho))
    simp only [List.filterMap_cons, fnNamesOf]
    cases hf : a.isFunction
    · have h1 : emitTextFn a = none := by simp [emitTextFn, hf]
      have h2 : fnName a = none := by simp [fnName, hf]
      rw [h1, h2]; exact ih
    · obtain ⟨f, hs⟩ := h a List.mem_cons_self hf
      have h2 : fnName a = some f := by simp [fnName, hf, hs]
      rw [h2]
      cases he : emitTextFn a with
      | none => exact List.Sublist.cons _ ih
      | some e =>
        have : e.sym = .named f := by
          unfold emitTextFn at he
          split at he
          · cases he
          · split at he
            · cases he
            · simp only [Option.some.injEq] at he; subst he; exact hs
        simp only [List.map_cons, this]
        exact List.Sublist.cons_cons _ ih

omit u in
theorem text_nodup : ((emitText gs).map (·.sym)).Nodup := by
  rw [p.hgs]
  unfold scanGlobals
  rw [emitText_scanCore p.fnNotTent2, emitText_preScan]
  refine (text_syms_sublist gs1 (fnNamed1 p)).nodup ?_
  have := p.nodup1
  unfold List.Nodup at this ⊢
  rw [List.pairwise_map]
  exact this.imp (fun hab => fun e => hab (by cases e; rfl))

/-- **no label is defined or referenced twice in the output** -/
theorem objectSymbols_nodup (fc : Bool) : ((objectSymbols fc gs).map (·.sym)).Nodup := by
  have hsub : ((objectSymbols fc gs).map (·.sym)).Sublist ((emit fc gs).map (·.sym) ++ undefs fc gs) := by
    unfold objectSymbols
    refine (List.filter_sublist.map _).trans ?_
    rw [List.map_append, List.map_map, List.map_map]
    have h1 : ((fun e : SymEntry => e.sym) ∘ asmView) = (fun e => e.sym) := by funext e; exact asmView_sym e
    have h2 : ((fun e : SymEntry => e.sym) ∘ fun s => (⟨s, .global, .undef, none, 0⟩ : SymEntry)) = id := by funext s; rfl
    rw [h1, h2, List.map_id]
    exact List.Sublist.refl _
  refine hsub.nodup ?_
  rw [List.nodup_append]
  refine ⟨?_, ?_, ?_⟩
  · -- defined labels
    unfold emit
    rw [List.map_append, List.nodup_append]
    refine ⟨nodup_map_of_count _ _ (data_count_le_one u p fc), text_nodup p, ?_⟩
    intro a ha b hb hab
    subst hab
    rw [List.mem_map] at ha hb
    obtain ⟨e1, he1, hs1⟩ := ha
    obtain ⟨e2, he2, hs2⟩ := hb
    unfold emitData at he1
    unfold emitText at he2
    rw [List.mem_filterMap] at he1 he2
    obtain ⟨o1, ho1', hoe1⟩ := he1
    have ho1 := (List.mem_filter.mp ho1').1
    obtain ⟨o2, ho2, hoe2⟩ := he2
    have hd1 := emitDataVar_isSome fc o1
    rw [hoe1] at hd1
    simp only [Option.isSome_some, Bool.true_eq, Bool.and_eq_true, Bool.not_eq_true'] at hd1
    have hf2 : o2.isFunction = true ∧ e2.sym = o2.sym := by
      unfold emitTextFn at hoe2
      split at hoe2
      · cases hoe2
      · rename_i h1
        split at hoe2
        · cases hoe2
        · simp only [Option.some.injEq] at hoe2
          subst hoe2
          simp only [Bool.or_eq_true, Bool.not_eq_true', not_or, Bool.not_eq_false] at h1
          exact ⟨h1.1, rfl⟩
    obtain ⟨f, o0, h0, rfl⟩ := p.fn_of_mem ho2 hf2.1
    have hp' := List.find?_some h0
    simp only [Bool.and_eq_true, beq_iff_eq] at hp'
    have hsym1 : o1.sym = .named f := by
      rw [← emitDataVar_sym hoe1, hs1, ← hs2, hf2.2]; exact hp'.2
    have hx := data_def_objName p ho1 hd1.1 hd1.2 hsym1
    exact (u.disjoint (fn_declared_of_find p h0)).1 hx
  · exact nodup_dedup _
  · intro a ha b hb hab
    subst hab
    have := (mem_undefs.mp hb).2
    rw [List.any_eq_false] at this
    rw [List.mem_map] at ha
    obtain ⟨e, he, hs⟩ := ha
    exact this e he (by simp [hs])

end

/-! ### the Spec -/

omit [Rules] in
theorem fnSymbol_sym {ds : List Decl} {f : Name} {e : SymEntry} (h : fnSymbol ds f = some e) : e.sym = .named f := by
  unfold fnSymbol at h
  dsimp only at h
  cases hD : fnDefined (fnDecls ds f)
  · rw [hD] at h
    simp only [Bool.false_eq_true, if_false] at h
    by_cases hu : (usedNames ds).contains f = true
    · rw [if_pos hu] at h; cases h; rfl
    · rw [if_neg hu] at h; cases h
  · rw [hD] at h
    simp only [if_true] at h
    cases hc : fnClass (fnDecls ds f) <;> rw [hc] at h <;> simp only at h
    · cases h; rfl
    · cases h; rfl
    · by_cases hn : (neededList ds).contains f = true
      · rw [if_pos hn] at h; cases h; rfl
      · rw [if_neg hn] at h; cases h

omit [Rules] in
theorem objSymbol_sym {fc : Bool} {ds : List Decl} {x : Name} {e : SymEntry} (h : objSymbol fc ds x = some e) : e.sym = .named x := by
  unfold objSymbol at h
  dsimp only at h
  cases hD : objDefined (objDecls ds x)
  · rw [hD] at h
    simp only [Bool.false_eq_true, if_false] at h
    by_cases hu : (usedNames ds).contains x = true
    · rw [if_pos hu] at h; cases h; rfl
    · rw [if_neg hu] at h; cases h
  · rw [hD] at h
    simp only [if_true] at h
    cases h; rfl

omit [Rules] in
theorem nodup_names_map {l : List Name} (h : l.Nodup) : (l.map Sym.named).Nodup := by
  unfold List.Nodup at h ⊢
  rw [List.pairwise_map]
  exact h.imp (fun hab => fun e => hab (by cases e; rfl))

omit [Rules] in
theorem nodup_fnNames (ds : List Decl) : (fnNames ds).Nodup := nodup_reverse' (nodup_dedup _)
omit [Rules] in
theorem nodup_objNames (ds : List Decl) : (objNames ds).Nodup := nodup_reverse' (nodup_dedup _)

omit [Rules] in
/-- **no symbol appears twice in `Spec.symbols`** (for a valid unit) -/
theorem symbols_nodup (fc : Bool) {ds : List Decl} (hv : valid ds = true) : ((symbols fc ds).map (·.sym)).Nodup := by
  have hdis : ∀ f, f ∈ fnNames ds → f ∉ objNames ds ∧ f ∉ blockExternNames ds := (valid_parts hv).2.2.1
  unfold symbols
  rw [List.map_append, List.map_append, List.nodup_append, List.nodup_append]
  have s1 := sublist_filterMap_map (g := fnSymbol ds) (h := fun e => e.sym) (k := Sym.named) (fun a e h => fnSymbol_sym h) (fnNames ds)
  have s2 := sublist_filterMap_map (g := objSymbol fc ds) (h := fun e => e.sym) (k := Sym.named) (fun a e h => objSymbol_sym h) (objNames ds)
  have mem1 : ∀ s, s ∈ ((fnNames ds).filterMap (fnSymbol ds)).map (·.sym) → ∃ f, f ∈ fnNames ds ∧ s = .named f := by
    intro s hs
    have := s1.subset hs
    rw [List.mem_map] at this
    obtain ⟨f, hf, rfl⟩ := this
    exact ⟨f, hf, rfl⟩
  have mem2 : ∀ s, s ∈ ((objNames ds).filterMap (objSymbol fc ds)).map (·.sym) → ∃ x, x ∈ objNames ds ∧ s = .named x := by
    intro s hs
    have := s2.subset hs
    rw [List.mem_map] at this
    obtain ⟨x, hx, rfl⟩ := this
    exact ⟨x, hx, rfl⟩
  refine ⟨⟨s1.nodup (nodup_names_map (nodup_fnNames ds)), s2.nodup (nodup_names_map (nodup_objNames ds)), ?_⟩, ?_, ?_⟩
  · intro a ha b hb hab
    subst hab
    obtain ⟨f, hf, rfl⟩ := mem1 _ ha
    obtain ⟨x, hx, hfx⟩ := mem2 _ hb
    cases hfx
    exact (hdis f hf).1 hx
  · rw [List.map_map]
    have : ((fun e : SymEntry => e.sym) ∘ fun x => (⟨.named x, .global, .undef, none, 0⟩ : SymEntry)) = Sym.named := by
      funext x; rfl
    rw [this]
    exact nodup_names_map ((nodup_dedup _).sublist List.filter_sublist)
  · intro a ha b hb hab
    subst hab
    rw [List.map_map, List.mem_map] at hb
    obtain ⟨x, hx, rfl⟩ := hb
    rw [List.mem_filter, mem_dedup] at hx
    simp only [Bool.and_eq_true, Bool.not_eq_true', List.contains_eq_mem, decide_eq_false_iff_not] at hx
    rcases List.mem_append.mp ha with ha | ha
    · obtain ⟨f, hf, hfx⟩ := mem1 _ ha
      have hfx' : x = f := by simpa using hfx
      subst hfx'
      exact (hdis x hf).2 hx.1
    · obtain ⟨y, hy, hyx⟩ := mem2 _ ha
      have hyx' : x = y := by simpa using hyx
      subst hyx'
      exact hx.2.1 hy

/-- **C15_symbols, outside the regions of the known findings the code still has, with multiplicities**: the symbol
    table of the output is a permutation of `Spec.symbols` -/
theorem symbols_perm_lemma (fcommon : Bool) {ds : List Decl} (hsc : symbolsScope ds = true) :
    ∃ gs, parseUnit ds = .ok gs ∧ (objectSymbols fcommon gs).Perm (symbols fcommon ds) := by
  have u := unitOK_of hsc
  obtain ⟨st, hst⟩ := parse_ok u.valid
  obtain ⟨gs1, p⟩ := parsed_of_declAll hst
  refine ⟨scanGlobals gs1, p.parseUnit, ?_⟩
  have n1 : (objectSymbols fcommon (scanGlobals gs1)).Nodup :=
    List.Pairwise.of_map (fun e => e.sym) (fun a b hab e => hab (by rw [e])) (objectSymbols_nodup u p fcommon)
  have n2 : (symbols fcommon ds).Nodup :=
    List.Pairwise.of_map (fun e => e.sym) (fun a b hab e => hab (by rw [e])) (symbols_nodup fcommon u.valid)
  exact (List.perm_ext_iff_of_nodup n1 n2).mpr (fun e => symbols_iff u p fcommon e)

end ChibiVerif.Linkage
