/-
C05, parser = specification: facts about the specification alone (Spec/InitSpec.lean).

* `Imp x y`        — "if the run `x` of the specification succeeds outside every region, `y` is the same result": the relation the
                     simulation composes.
* `initItem`       — one initializer of a list with the rest of the list (`initItemWith` applied to `initList g`).
* flags are monotone, a list that is at its end or at a designator does not look at its cursor, `next` after the `i`-th child is
  the cursor at child `i+1` (`cursorIn`), `descend`/`desigPaths` only extend paths.
-/
import ChibiVerif.Lemmas.InitPathLemmas
import ChibiVerif.Lemmas.InitFuelLemmas
import ChibiVerif.Lemmas.InitBracedStr

namespace ChibiVerif.InitSpec
open ChibiVerif.Init

/-! ### `Except` -/

theorem bind_eq_ok {α β : Type} {x : Except Fail α} {k : α → Except Fail β} {b : β} (h : (x >>= k) = .ok b) :
    ∃ a, x = .ok a ∧ k a = .ok b := by
  cases x with
  | error e => cases h
  | ok a => exact ⟨a, rfl, h⟩

theorem ok_bind {α β : Type} (a : α) (k : α → Except Fail β) : ((Except.ok a : Except Fail α) >>= k) = k a := rfl
theorem error_bind {α β : Type} (e : Fail) (k : α → Except Fail β) : ((Except.error e : Except Fail α) >>= k) = .error e := rfl
theorem pure_bind' {α β : Type} (a : α) (k : α → Except Fail β) : ((pure a : Except Fail α) >>= k) = k a := rfl

theorem bind_ok {α β : Type} {x : Except Fail α} {k : α → Except Fail β} {a : α} (h : x = .ok a) : (x >>= k) = k a := by
  subst h; rfl

/-! ### flags -/

theorem Flags.join_none (a : Flags) : a.join Flags.none = a := by
  cases a; simp [Flags.join, Flags.none]

theorem Flags.join_false (a : Flags) : a.join ⟨false, false, false, false⟩ = a := by
  cases a; simp [Flags.join]

theorem Flags.clean_join {a b : Flags} (h : (a.join b).clean = true) : a.clean = true ∧ b.clean = true := by
  cases a; cases b
  simp only [Flags.join, Flags.clean, Bool.and_eq_true, Bool.not_eq_true', Bool.or_eq_false_iff] at h ⊢
  exact ⟨⟨⟨⟨h.1.1.1.1, h.1.1.2.1⟩, h.1.2.1⟩, h.2.1⟩, ⟨⟨⟨h.1.1.1.2, h.1.1.2.2⟩, h.1.2.2⟩, h.2.2⟩⟩

theorem Flags.clean_mk {a b c : Bool} (h : (Flags.mk a b c false).clean = true) : a = false ∧ b = false ∧ c = false := by
  simpa [Flags.clean, and_assoc] using h

/-- the flags the list adds for one initializer: region `FlexReinit` -/
def reinitFl (ty : Ty) (top : Bool) (obj : Init) (desg : Bool) (paths : List (List Nat)) : Flags :=
  ⟨false, false, false, reinitAt ty top obj desg paths⟩

theorem reinitFl_clean {ty : Ty} {top : Bool} {obj : Init} {desg : Bool} {paths : List (List Nat)}
    (h : (reinitFl ty top obj desg paths).clean = true) : reinitFl ty top obj desg paths = Flags.none := by
  simp only [reinitFl, Flags.clean, Bool.not_false, Bool.true_and, Bool.not_eq_true'] at h
  simp [reinitFl, h, Flags.none]

theorem reinitFl_none_of {ty : Ty} {top : Bool} {obj : Init} {desg : Bool} {paths : List (List Nat)}
    (h : reinitAt ty top obj desg paths = false) : reinitFl ty top obj desg paths = Flags.none := by
  simp [reinitFl, h, Flags.none]

/-- `r` succeeded outside every region ⇒ `y` is that result -/
def Imp (x y : Except Fail Result) : Prop := ∀ r, x = .ok r → r.fl.clean = true → y = .ok r

theorem Imp.refl (x : Except Fail Result) : Imp x x := fun _ h _ => h
theorem Imp.trans {x y z : Except Fail Result} (h1 : Imp x y) (h2 : Imp y z) : Imp x z :=
  fun r hr hc => h2 r (h1 r hr hc) hc
theorem Imp.of_eq {x y : Except Fail Result} (h : x = y) : Imp x y := h ▸ Imp.refl x
theorem Imp.of_error {x y : Except Fail Result} {e : Fail} (h : x = .error e) : Imp x y := by
  intro r hr; rw [h] at hr; cases hr

/-! ### unfolding `initList` -/

/-- one initializer for the subobjects `paths`, then the rest of the list -/
def initItem (g : Nat) (ty : Ty) (top : Bool) (obj : Init) (paths : List (List Nat)) (toks : List ITok) (fl : Flags) :
    Except Fail Result :=
  initItemWith (initList g) ty top obj paths toks fl

theorem initList_zero (ty : Ty) (top : Bool) (obj : Init) (cur : Option (List Nat)) (toks : List ITok) (first : Bool) (fl : Flags) :
    initList 0 ty top obj cur toks first fl = .error .fuel := rfl

theorem initList_rbrace (g : Nat) (ty : Ty) (top : Bool) (obj : Init) (cur : Option (List Nat)) (r : List ITok) (first : Bool)
    (fl : Flags) : initList (g+1) ty top obj cur (.rbrace :: r) first fl = .ok ⟨obj, r, fl⟩ := by
  rw [initList]

theorem initList_comma_rbrace (g : Nat) (ty : Ty) (top : Bool) (obj : Init) (cur : Option (List Nat)) (r : List ITok) (first : Bool)
    (fl : Flags) : initList (g+1) ty top obj cur (.comma :: .rbrace :: r) first fl = .ok ⟨obj, r, fl⟩ := by
  rw [initList]

theorem initList_end (g : Nat) (ty : Ty) (top : Bool) (obj : Init) (cur : Option (List Nat)) (toks rest : List ITok) (first : Bool)
    (fl : Flags) (h : consumeEnd toks = some rest) : initList (g+1) ty top obj cur toks first fl = .ok ⟨obj, rest, fl⟩ := by
  unfold consumeEnd at h
  split at h
  · cases h; exact initList_rbrace ..
  · cases h; exact initList_comma_rbrace ..
  · cases h

theorem initList_item (g : Nat) (ty : Ty) (top : Bool) (obj : Init) (cur : Option (List Nat)) (toks : List ITok) (first : Bool)
    (fl : Flags) (h : consumeEnd toks = none) :
    initList (g+1) ty top obj cur toks first fl =
      ((if first then pure toks else skipTok .comma "," toks) >>= fun toks =>
        pathsOf ty top cur toks >>= fun pt =>
          initItem g ty top obj pt.1 pt.2 (fl.join (reinitFl ty top obj (isDesg toks) pt.1))) := by
  unfold consumeEnd at h
  rw [initList]
  · cases first <;> rfl
  · intro r hr; subst hr; simp at h
  · intro r hr; subst hr; simp at h

theorem consumeEnd_none_of_isEnd {toks : List ITok} (h : isEnd toks = false) : consumeEnd toks = none := by
  unfold isEnd at h; unfold consumeEnd
  split at h <;> simp_all

theorem isEnd_of_consumeEnd_none {toks : List ITok} (h : consumeEnd toks = none) : isEnd toks = false := by
  unfold consumeEnd at h; unfold isEnd
  split at h <;> simp_all

theorem consumeEnd_some_isEnd {toks rest : List ITok} (h : consumeEnd toks = some rest) : isEnd toks = true := by
  unfold consumeEnd at h; unfold isEnd
  split at h <;> simp_all


/-! ### flags only grow -/

theorem initTokWith_clean (rec : Ty → Bool → Init → Option (List Nat) → List ITok → Bool → Flags → Except Fail Result)
    (hrec : ∀ ty top obj cur toks first fl r, rec ty top obj cur toks first fl = .ok r → r.fl.clean = true → fl.clean = true)
    (ty : Ty) (top : Bool) (obj : Init) (paths : List (List Nat)) (tok : ITok) (r0 : List ITok) (fl : Flags) (r : Result)
    (h : initTokWith rec ty top obj paths tok r0 fl = .ok r) (hc : r.fl.clean = true) : fl.clean = true := by
  unfold initTokWith at h
  obtain ⟨_, _, h⟩ := bind_eq_ok h
  obtain ⟨_, _, h⟩ := bind_eq_ok h
  exact (Flags.clean_join (hrec _ _ _ _ _ _ _ _ h hc)).1

theorem initItemWith_clean (rec : Ty → Bool → Init → Option (List Nat) → List ITok → Bool → Flags → Except Fail Result)
    (hrec : ∀ ty top obj cur toks first fl r, rec ty top obj cur toks first fl = .ok r → r.fl.clean = true → fl.clean = true)
    (ty : Ty) (top : Bool) (obj : Init) (paths : List (List Nat)) (toks : List ITok) (fl : Flags) (r : Result)
    (h : initItemWith rec ty top obj paths toks fl = .ok r) (hc : r.fl.clean = true) : fl.clean = true := by
  unfold initItemWith at h
  split at h
  · obtain ⟨_, _, h⟩ := bind_eq_ok h
    exact hrec _ _ _ _ _ _ _ _ h hc
  · split at h
    · obtain ⟨_, _, h⟩ := bind_eq_ok h
      try simp only at h
      split at h
      · exact initTokWith_clean rec hrec _ _ _ _ _ _ _ _ h hc
      · obtain ⟨_, _, h⟩ := bind_eq_ok h
        obtain ⟨_, _, h⟩ := bind_eq_ok h
        exact (Flags.clean_join (Flags.clean_join (hrec _ _ _ _ _ _ _ _ h hc)).1).1
    · exact initTokWith_clean rec hrec _ _ _ _ _ _ _ _ h hc
    · cases h

theorem initList_clean : ∀ (g : Nat) (ty : Ty) (top : Bool) (obj : Init) (cur : Option (List Nat)) (toks : List ITok)
    (first : Bool) (fl : Flags) (r : Result), initList g ty top obj cur toks first fl = .ok r → r.fl.clean = true → fl.clean = true
  | 0, _, _, _, _, _, _, _, _, h, _ => by cases h
  | g+1, ty, top, obj, cur, toks, first, fl, r, h, hc => by
    cases he : consumeEnd toks with
    | some rest =>
      rw [initList_end _ _ _ _ _ _ _ _ _ he] at h
      cases h; exact hc
    | none =>
      rw [initList_item _ _ _ _ _ _ _ _ he] at h
      obtain ⟨_, _, h⟩ := bind_eq_ok h
      obtain ⟨_, _, h⟩ := bind_eq_ok h
      exact (Flags.clean_join (initItemWith_clean (initList g) (initList_clean g) _ _ _ _ _ _ _ h hc)).1

theorem initItem_clean {g : Nat} {ty : Ty} {top : Bool} {obj : Init} {paths : List (List Nat)} {toks : List ITok} {fl : Flags}
    {r : Result} (h : initItem g ty top obj paths toks fl = .ok r) (hc : r.fl.clean = true) : fl.clean = true :=
  initItemWith_clean (initList g) (initList_clean g) _ _ _ _ _ _ _ h hc

/-- outside the regions the list adds no flag for the initializer: the unfolding in the form the simulation uses -/
theorem initList_item_imp (g : Nat) (ty : Ty) (top : Bool) (obj : Init) (cur : Option (List Nat)) (toks : List ITok) (first : Bool)
    (fl : Flags) (h : consumeEnd toks = none) {r : Result} (hr : initList (g+1) ty top obj cur toks first fl = .ok r)
    (hc : r.fl.clean = true) :
    ((if first then pure toks else skipTok .comma "," toks) >>= fun toks =>
        pathsOf ty top cur toks >>= fun pt => initItem g ty top obj pt.1 pt.2 fl) = .ok r := by
  rw [initList_item _ _ _ _ _ _ _ _ h] at hr
  cases hx : (if first then pure toks else skipTok .comma "," toks : Except Fail (List ITok)) with
  | error e => rw [hx] at hr; cases hr
  | ok toks1 =>
    rw [hx] at hr
    simp only [ok_bind] at hr ⊢
    cases hp : pathsOf ty top cur toks1 with
    | error e => rw [hp] at hr; cases hr
    | ok pt =>
      rw [hp] at hr
      simp only [ok_bind] at hr ⊢
      have hcl := (Flags.clean_join (initItem_clean hr hc)).2
      rw [reinitFl_clean hcl, Flags.join_none] at hr
      exact hr

theorem Imp.of_item {g : Nat} {ty : Ty} {top : Bool} {obj : Init} {cur : Option (List Nat)} {toks : List ITok} {first : Bool}
    {fl : Flags} {y : Except Fail Result} (h : consumeEnd toks = none)
    (hy : Imp ((if first then pure toks else skipTok .comma "," toks) >>= fun toks =>
        pathsOf ty top cur toks >>= fun pt => initItem g ty top obj pt.1 pt.2 fl) y) :
    Imp (initList (g+1) ty top obj cur toks first fl) y :=
  fun r hr hc => hy r (initList_item_imp g ty top obj cur toks first fl h hr hc) hc

/-- a run that starts inside a region proves nothing and is related to everything -/
theorem Imp.of_dirty_list {g : Nat} {ty : Ty} {top : Bool} {obj : Init} {cur : Option (List Nat)} {toks : List ITok} {first : Bool}
    {fl : Flags} {y : Except Fail Result} (h : fl.clean = false) : Imp (initList g ty top obj cur toks first fl) y := by
  intro r hr hc
  rw [initList_clean _ _ _ _ _ _ _ _ _ hr hc] at h; cases h

/-! ### a list at its end, or at a designator, does not look at its cursor -/

/-- the parser's elided loops return to the enclosing braces: the list ends, or a comma and a designator follow -/
def Stopped (toks : List ITok) : Prop := isEnd toks = true ∨ ∃ r, toks = .comma :: r ∧ isDesg r = true

theorem pathsOf_desg (ty : Ty) (top : Bool) (cur cur' : Option (List Nat)) (toks : List ITok) (h : isDesg toks = true) :
    pathsOf ty top cur toks = pathsOf ty top cur' toks := by
  simp [pathsOf, h]

theorem initList_stopped (g : Nat) (ty : Ty) (top : Bool) (obj : Init) (cur cur' : Option (List Nat)) (toks : List ITok)
    (fl : Flags) (h : Stopped toks) :
    initList g ty top obj cur toks false fl = initList g ty top obj cur' toks false fl := by
  cases g with
  | zero => rfl
  | succ g =>
    rcases h with h | ⟨r, rfl, hd⟩
    · cases he : consumeEnd toks with
      | some rest => rw [initList_end _ _ _ _ _ _ _ _ _ he, initList_end _ _ _ _ _ _ _ _ _ he]
      | none => rw [isEnd_of_consumeEnd_none he] at h; cases h
    · cases he : consumeEnd (.comma :: r) with
      | some rest => rw [initList_end _ _ _ _ _ _ _ _ _ he, initList_end _ _ _ _ _ _ _ _ _ he]
      | none =>
        rw [initList_item _ _ _ _ _ _ _ _ he, initList_item _ _ _ _ _ _ _ _ he]
        simp only [Bool.false_eq_true, ↓reduceIte, skipTok]
        rw [ok_bind, ok_bind, pathsOf_desg ty top cur cur' r hd]


/-! ### the cursor -/

/-- the cursor "at child `i` of the aggregate at `p`": that child if it exists (for a struct: the next member at or after `i` that
    takes part), otherwise whatever follows the aggregate -/
def cursorIn (root : Ty) (top : Bool) (p : List Nat) (i : Nat) : Option (List Nat) :=
  match subTy root p with
  | some (.array _ len) => if i < len || growable root top p then some (p ++ [i]) else next root top p.reverse
  | some (.inc _) => some (p ++ [i])
  | some (.struct ms _ _) =>
    match nextNamed ms ms.length i with
    | some j => some (p ++ [j])
    | none => next root top p.reverse
  | some (.union _ _ _) => next root top p.reverse
  | _ => none

theorem next_snoc (root : Ty) (top : Bool) (p : List Nat) (i : Nat) :
    next root top (i :: p.reverse) = cursorIn root top p (i + 1) := by
  rw [next]
  simp only [List.reverse_reverse, cursorIn]
  cases subTy root p with
  | none => rfl
  | some t => cases t <;> rfl

theorem next_nil (root : Ty) (top : Bool) : next root top [] = none := by rw [next]

/-! ### `descend` -/

theorem descend_bad {root : Ty} {top : Bool} {tok : ITok} {p : List Nat} (f : Nat) (ht : subTy root p = none) :
    ∃ e, descend root top tok f p = .error e := by
  cases f with
  | zero => exact ⟨_, rfl⟩
  | succ f => rw [descend]; simp [ht]

theorem descend_stop {root : Ty} {top : Bool} {tok : ITok} {p : List Nat} {t : Ty} (f : Nat) (ht : subTy root p = some t)
    (hs : stopsAt t tok = true) : descend root top tok (f+1) p = .ok p := by
  rw [descend]; simp [ht, hs]

theorem descend_step {root : Ty} {top : Bool} {tok : ITok} {p : List Nat} {t : Ty} {k : Nat} (f : Nat) (ht : subTy root p = some t)
    (hs : stopsAt t tok = false) (hk : firstSub root top p t = some k) :
    descend root top tok (f+1) p = descend root top tok f (p ++ [k]) := by
  rw [descend]; simp [ht, hs, hk]

theorem descend_none {root : Ty} {top : Bool} {tok : ITok} {p : List Nat} {t : Ty} (f : Nat) (ht : subTy root p = some t)
    (hs : stopsAt t tok = false) (hk : firstSub root top p t = none) :
    ∃ e, descend root top tok f p = .error e := by
  cases f with
  | zero => exact ⟨_, rfl⟩
  | succ f => rw [descend]; simp [ht, hs, hk]

/-- case analysis of one step of a successful descent -/
theorem descend_ok_cases {root : Ty} {top : Bool} {tok : ITok} {f : Nat} {p q : List Nat}
    (h : descend root top tok (f+1) p = .ok q) :
    ∃ t, subTy root p = some t ∧
      ((stopsAt t tok = true ∧ q = p) ∨
       (stopsAt t tok = false ∧ ∃ k, firstSub root top p t = some k ∧ descend root top tok f (p ++ [k]) = .ok q)) := by
  cases ht : subTy root p with
  | none => obtain ⟨e, he⟩ := descend_bad (top := top) (tok := tok) (f+1) ht; rw [he] at h; cases h
  | some t =>
    refine ⟨t, rfl, ?_⟩
    cases hs : stopsAt t tok with
    | true => rw [descend_stop f ht hs] at h; cases h; exact Or.inl ⟨rfl, rfl⟩
    | false =>
      cases hk : firstSub root top p t with
      | none => obtain ⟨e, he⟩ := descend_none (f+1) ht hs hk; rw [he] at h; cases h
      | some k => rw [descend_step f ht hs hk] at h; exact Or.inr ⟨rfl, k, rfl, h⟩

theorem descend_mono (root : Ty) (top : Bool) (tok : ITok) : ∀ (f : Nat) (p q : List Nat),
    descend root top tok f p = .ok q → descend root top tok (f+1) p = .ok q
  | 0, _, _, h => by cases h
  | f+1, p, q, h => by
    obtain ⟨t, ht, h1 | ⟨hs, k, hk, h2⟩⟩ := descend_ok_cases h
    · rw [descend_stop _ ht h1.1, h1.2]
    · rw [descend_step _ ht hs hk]; exact descend_mono root top tok f _ q h2

theorem descend_mono_le (root : Ty) (top : Bool) (tok : ITok) {f f' : Nat} (hle : f ≤ f') {p q : List Nat}
    (h : descend root top tok f p = .ok q) : descend root top tok f' p = .ok q := by
  induction hle with
  | refl => exact h
  | step _ ih => exact descend_mono root top tok _ p q ih

theorem descend_prefix (root : Ty) (top : Bool) (tok : ITok) : ∀ (f : Nat) (p q : List Nat),
    descend root top tok f p = .ok q → ∃ s, q = p ++ s
  | 0, _, _, h => by cases h
  | f+1, p, q, h => by
    obtain ⟨t, ht, h1 | ⟨hs, k, hk, h2⟩⟩ := descend_ok_cases h
    · exact ⟨[], by simp [h1.2]⟩
    · obtain ⟨s, hs⟩ := descend_prefix root top tok f _ q h2
      exact ⟨k :: s, by simp [hs]⟩

/-- a successful descent from `p` that does not stop at `p` goes strictly below `p` -/
theorem descend_below {root : Ty} {top : Bool} {tok : ITok} {f : Nat} {p q : List Nat} {t : Ty} (ht : subTy root p = some t)
    (hs : stopsAt t tok = false) (h : descend root top tok f p = .ok q) : ∃ k s, q = p ++ k :: s := by
  cases f with
  | zero => cases h
  | succ f =>
    obtain ⟨t', ht', h1 | ⟨_, k, hk, h2⟩⟩ := descend_ok_cases h
    · rw [ht] at ht'; cases ht'; rw [hs] at h1; cases h1.1
    · obtain ⟨s, hs⟩ := descend_prefix root top tok f _ q h2
      exact ⟨k, s, by simp [hs]⟩

/-! ### one initializer for one subobject -/

def isStrTok : ITok → Bool
  | .str .. => true
  | _ => false

/-- the regions an initializer without braces that lands at `q` enters -/
def tokFlags (root : Ty) (obj : Init) (tok : ITok) (q : List Nat) : Flags :=
  ⟨(isStrTok tok && (match subTy root q with | some (.scalar ..) => false | _ => touched obj q)) || switchesUnion obj q,
   exprAbove obj q, false, false⟩

theorem initItem_tok (g : Nat) (root : Ty) (top : Bool) (obj : Init) (p : List Nat) (tok : ITok) (r : List ITok) (fl : Flags)
    (hb : tok ≠ .lbrace) :
    initItem g root top obj [p] (tok :: r) fl =
      (descend root top tok (p.length + root.nodes + 2) p >>= fun q =>
        modifyAt root top (storeTok root top tok q) root [] q obj >>= fun obj' =>
          initList g root top obj' (next root top q.reverse) r false (fl.join (tokFlags root obj tok q))) := by
  unfold initItem initItemWith initTokWith
  cases hd : descend root top tok (p.length + root.nodes + 2) p with
  | error e => cases tok <;> first | exact absurd rfl hb | simp [hd, error_bind, List.mapM_cons, bind, Except.bind]
  | ok q =>
    cases tok <;> first | exact absurd rfl hb |
      (simp [hd, ok_bind, List.mapM_cons, tokFlags, isStrTok, bind, Except.bind, pure, Except.pure]
       cases modifyAt root top (storeTok root top _ q) root [] q obj <;> rfl)


theorem initItem_brace (g : Nat) (root : Ty) (top : Bool) (obj : Init) (p : List Nat) (inner : List ITok) (fl : Flags) {t : Ty}
    (ht : subTy root p = some t) (hg : growable root top p = false) (hbl : bracedLit t inner = none) :
    initItem g root top obj [p] (.lbrace :: inner) fl =
      (initList g t false (braceStart t) (firstCursor t) inner true Flags.none >>= fun sub =>
        modifyAt root top (fun _ _ => pure (defaultMember t (unflex sub.obj))) root [] p obj >>= fun obj' =>
          initList g root top obj' (next root top p.reverse) sub.rest false
            ((fl.join ⟨touched obj p, exprAbove obj p, false, false⟩).join sub.fl)) := by
  unfold initItem initItemWith
  simp only [ht, hg, Bool.false_eq_true, ↓reduceIte, pure_bind', hbl]
  cases initList g t false (braceStart t) (firstCursor t) inner true Flags.none with
  | error e => rfl
  | ok sub =>
    simp only [ok_bind, List.any_cons, List.any_nil, Bool.or_false, List.length_singleton, Nat.lt_irrefl, decide_false,
      List.foldlM_cons, List.foldlM_nil]
    cases modifyAt root top (fun _ _ => pure (defaultMember t (unflex sub.obj))) root [] p obj <;> rfl

theorem bracedLit_str {t : Ty} {inner : List ITok} {tok : ITok} {r : List ITok} (hbl : bracedLit t inner = some (tok, r)) :
    ∃ id bytes esz, tok = .str id bytes esz := by
  unfold bracedLit at hbl
  split at hbl <;> first | (split at hbl <;> first | (cases hbl; exact ⟨_, _, _, rfl⟩) | cases hbl) | cases hbl

/-- p14/p15: a string literal in braces for a character array is that string literal (the braces are optional) -/
theorem initItem_bracedLit (g : Nat) (root : Ty) (top : Bool) (obj : Init) (p0 : List Nat) (rest : List (List Nat))
    (inner : List ITok) (fl : Flags) {t : Ty} {tok : ITok} {r : List ITok}
    (ht : subTy root p0 = some t) (hg : growable root top p0 = false) (hbl : bracedLit t inner = some (tok, r)) :
    initItem g root top obj (p0 :: rest) (.lbrace :: inner) fl = initItem g root top obj (p0 :: rest) (tok :: r) fl := by
  obtain ⟨id, bytes, esz, rfl⟩ := bracedLit_str hbl
  unfold initItem initItemWith
  simp only [ht, hg, Bool.false_eq_true, ↓reduceIte, pure_bind', hbl]

theorem chrFits_eq (e : Ty) (esz : Nat) : chrFits e esz = (e.isIntNotBool && e.size == (esz : Int)) := by
  cases e with
  | scalar n k => cases k <;> simp [chrFits, strFits, Ty.isInteger, Ty.isIntNotBool]
  | _ => simp [chrFits, strFits, Ty.isInteger, Ty.isIntNotBool]

theorem chrFits_strFits {e : Ty} {esz : Nat} (h : chrFits e esz = true) : strFits e esz = true := by
  simp only [chrFits, Bool.and_eq_true] at h; exact h.1

/-- the parser's guard `bracedStr` is the specification's `bracedLit` (p14/p15) for an array with that element type -/
theorem bracedLit_of_bracedStr {t elem : Ty} {inner : List ITok} {id : Nat} {bytes : List Nat} {esz : Nat} {rest : List ITok}
    (ht : t.elem? = some elem) (h : bracedStr elem inner = some (id, bytes, esz, rest)) :
    bracedLit t inner = some (.str id bytes esz, rest) := by
  obtain ⟨tail, rfl, hce, hi, hsz⟩ := bracedStr_some h
  have hc : chrFits elem esz = true := by rw [chrFits_eq]; simp [hi, hsz]
  unfold consumeEnd at hce
  split at hce
  · cases hce
    cases t <;> simp [Ty.elem?] at ht <;> subst ht <;> simp [bracedLit, hc]
  · cases hce
    cases t <;> simp [Ty.elem?] at ht <;> subst ht <;> simp [bracedLit, hc]
  · cases hce

theorem bracedLit_none_of_bracedStr {t elem : Ty} {inner : List ITok} (ht : t.elem? = some elem)
    (h : bracedStr elem inner = none) : bracedLit t inner = none := by
  unfold bracedLit
  split
  all_goals first
    | rfl
    | (simp only [Ty.elem?, Option.some.injEq] at ht
       subst ht
       simp only [bracedStr, consumeEnd, ← chrFits_eq] at h
       split at h
       · cases h
       · rename_i hn; simp [hn])

theorem bracedLit_non_array {t : Ty} (inner : List ITok) (ht : t.elem? = none) : bracedLit t inner = none := by
  cases t <;> first | rfl | simp [Ty.elem?] at ht

/-- the literal of `bracedLit` stops at the array it was found for -/
theorem bracedLit_stops {t : Ty} {inner : List ITok} {tok : ITok} {r : List ITok} (h : bracedLit t inner = some (tok, r)) :
    stopsAt t tok = true ∧ tok ≠ .lbrace := by
  unfold bracedLit at h
  split at h <;> first
    | cases h
    | (split at h
       · rename_i hc; cases h; exact ⟨by simp [stopsAt, chrFits_strFits hc], by simp⟩
       · cases h)

theorem bracedStr_none_of_bracedLit {t elem : Ty} {inner : List ITok} (ht : t.elem? = some elem)
    (h : bracedLit t inner = none) : bracedStr elem inner = none := by
  cases hbs : bracedStr elem inner with
  | none => rfl
  | some x =>
    obtain ⟨id, bytes, esz, rest⟩ := x
    rw [bracedLit_of_bracedStr ht hbs] at h; cases h

/-- the parser on `{ "…" }` for a character array is the parser on the literal alone -/
theorem init2_bracedLit_eq {f : Nat} {t : Ty} {inner : List ITok} {tok : ITok} {r : List ITok} (c : Init)
    (hbl : bracedLit t inner = some (tok, r)) :
    initializer2 f t (.lbrace :: inner) c = initializer2 f t (tok :: r) c := by
  cases f with
  | zero => simp [initializer2]
  | succ f =>
    cases t with
    | scalar => rw [bracedLit_non_array inner rfl] at hbl; cases hbl
    | struct => rw [bracedLit_non_array inner rfl] at hbl; cases hbl
    | union => rw [bracedLit_non_array inner rfl] at hbl; cases hbl
    | array e n =>
      cases hbs : bracedStr e inner with
      | none => rw [bracedLit_none_of_bracedStr rfl hbs] at hbl; cases hbl
      | some x =>
        obtain ⟨id, bytes, esz, rest⟩ := x
        rw [bracedLit_of_bracedStr rfl hbs] at hbl; cases hbl
        exact initializer2_array_bracedStr c hbs
    | inc e =>
      cases hbs : bracedStr e inner with
      | none => rw [bracedLit_none_of_bracedStr rfl hbs] at hbl; cases hbl
      | some x =>
        obtain ⟨id, bytes, esz, rest⟩ := x
        rw [bracedLit_of_bracedStr rfl hbs] at hbl; cases hbl
        exact initializer2_inc_bracedStr c hbs

theorem initItem_excess (g : Nat) (root : Ty) (top : Bool) (obj : Init) (toks : List ITok) (fl : Flags) :
    initItem g root top obj [] toks fl =
      (skipExcess (toks.length + 1) toks >>= fun r => initList g root top obj none r false fl) := rfl

theorem initItem_nil (g : Nat) (root : Ty) (top : Bool) (obj : Init) (p : List Nat) (fl : Flags) :
    initItem g root top obj [p] [] fl = .error (.diag "expected an expression") := rfl

/-- p20, one level: an initializer without braces that does not fit the aggregate at `p` as a whole goes to its first subobject -/
theorem initItem_descend_step {g : Nat} {root : Ty} {top : Bool} {obj : Init} {p : List Nat} {tok : ITok} {r : List ITok} {fl : Flags}
    {t : Ty} {k : Nat} (hb : tok ≠ .lbrace) (ht : subTy root p = some t) (hs : stopsAt t tok = false)
    (hk : firstSub root top p t = some k) :
    Imp (initItem g root top obj [p] (tok :: r) fl) (initItem g root top obj [p ++ [k]] (tok :: r) fl) := by
  intro res hres _
  rw [initItem_tok _ _ _ _ _ _ _ _ hb] at hres ⊢
  obtain ⟨q, hq, hres⟩ := bind_eq_ok hres
  have h1 : descend root top tok (p.length + root.nodes + 1) (p ++ [k]) = .ok q := by
    rw [← descend_step _ ht hs hk]; exact hq
  have h2 : descend root top tok ((p ++ [k]).length + root.nodes + 2) (p ++ [k]) = .ok q :=
    descend_mono_le root top tok (by simp; omega) h1
  rw [h2, ok_bind]; exact hres

theorem initItem_descend_none {g : Nat} {root : Ty} {top : Bool} {obj : Init} {p : List Nat} {tok : ITok} {r : List ITok} {fl : Flags}
    {t : Ty} (hb : tok ≠ .lbrace) (ht : subTy root p = some t) (hs : stopsAt t tok = false)
    (hk : firstSub root top p t = none) : ∃ e, initItem g root top obj [p] (tok :: r) fl = .error e := by
  rw [initItem_tok _ _ _ _ _ _ _ _ hb]
  obtain ⟨e, he⟩ := descend_none (p.length + root.nodes + 2) ht hs hk
  exact ⟨e, by rw [he]; rfl⟩

/-- an initializer that stops at `p` itself -/
theorem initItem_stop {g : Nat} {root : Ty} {top : Bool} {obj : Init} {p : List Nat} {tok : ITok} {r : List ITok} {fl : Flags}
    {t : Ty} (hb : tok ≠ .lbrace) (ht : subTy root p = some t) (hs : stopsAt t tok = true) :
    initItem g root top obj [p] (tok :: r) fl =
      (modifyAt root top (storeTok root top tok p) root [] p obj >>= fun obj' =>
          initList g root top obj' (next root top p.reverse) r false (fl.join (tokFlags root obj tok p))) := by
  rw [initItem_tok _ _ _ _ _ _ _ _ hb, show p.length + root.nodes + 2 = (p.length + root.nodes + 1) + 1 from rfl,
    descend_stop _ ht hs, ok_bind]

/-! ### tokens that cannot start an initializer -/

def startable : ITok → Bool
  | .expr _ => true
  | .str .. => true
  | .lbrace => true
  | _ => false

theorem bind_error_of {α β : Type} {x : Except Fail α} (k : α → Except Fail β) (h : ∃ e, x = .error e) :
    ∃ e, (x >>= k) = .error e := by
  obtain ⟨e, he⟩ := h; exact ⟨e, by rw [he]; rfl⟩

theorem modifyAt_error (root : Ty) (top : Bool) (f : Ty → Init → Except Fail Init) (hf : ∀ t old, ∃ e, f t old = .error e) :
    ∀ (q : List Nat) (t0 : Ty) (done : List Nat) (obj : Init), ∃ e, modifyAt root top f t0 done q obj = .error e
  | [], t0, done, obj => by rw [modifyAt]; exact hf t0 obj
  | k :: p, t0, done, obj => by
    have ih := fun t => modifyAt_error root top f hf p t (done ++ [k])
    unfold modifyAt
    cases t0 with
    | scalar => exact ⟨_, rfl⟩
    | array e len =>
      simp only
      repeat' split
      all_goals first | exact ⟨_, rfl⟩ | exact bind_error_of _ (ih _ _)
    | inc e =>
      simp only
      repeat' split
      all_goals first | exact ⟨_, rfl⟩ | exact bind_error_of _ (ih _ _)
    | struct ms sz fl =>
      simp only
      repeat' split
      all_goals first | exact ⟨_, rfl⟩ | exact bind_error_of _ (ih _ _)
    | union ms sz fl =>
      simp only
      repeat' split
      all_goals first | exact ⟨_, rfl⟩ | exact bind_error_of _ (ih _ _)

theorem storeTok_not_startable (root : Ty) (top : Bool) (tok : ITok) (q : List Nat) (h : startable tok = false) (t : Ty) (old : Init) :
    ∃ e, storeTok root top tok q t old = .error e := by
  cases tok <;> simp [startable] at h <;> cases t <;> exact ⟨_, rfl⟩

theorem initItem_not_startable (g : Nat) (root : Ty) (top : Bool) (obj : Init) (p : List Nat) (tok : ITok) (r : List ITok) (fl : Flags)
    (h : startable tok = false) : ∃ e, initItem g root top obj [p] (tok :: r) fl = .error e := by
  have hb : tok ≠ .lbrace := by intro he; subst he; simp [startable] at h
  rw [initItem_tok _ _ _ _ _ _ _ _ hb]
  cases hd : descend root top tok (p.length + root.nodes + 2) p with
  | error e => exact ⟨e, rfl⟩
  | ok q =>
    obtain ⟨e, he⟩ := modifyAt_error root top (storeTok root top tok q) (storeTok_not_startable root top tok q h) q root [] obj
    exact ⟨e, by rw [ok_bind, he]; rfl⟩


/-! ### `touched`, `exprAbove` -/

theorem touched_union_some {cs : List Init} {k : Nat} {c : Init} (e : Option Expr) (m : Nat) (p : List Nat)
    (h : cs[k]? = some c) : touched (.union e (some m) cs) (k :: p) = if m = k then touched c p else true := by
  rw [touched]; simp [h]

theorem touched_other {obj : Init} {k : Nat} {c : Init} (p : List Nat) (h : obj.children[k]? = some c)
    (hn : ∀ e m cs, obj ≠ .union e (some m) cs) : touched obj (k :: p) = touched c p := by
  rw [touched]
  · simp [h]
  · intro e m cs he; exact hn e m cs he

/-- a subobject that no initializer has touched holds no expression, and reaching it switches no union -/
theorem touched_false : ∀ (p : List Nat) (obj c : Init), getAt obj p = some c → touched obj p = false →
    hasExpr c = false ∧ switchesUnion obj p = false
  | [], obj, c, hg, ht => by
    simp [getAt] at hg; subst hg
    rw [touched] at ht
    exact ⟨ht, by rw [switchesUnion]⟩
  | k :: p, obj, c, hg, ht => by
    obtain ⟨ck, hk, hg'⟩ := getAt_cons_some hg
    by_cases hu : ∃ e m cs, obj = .union e (some m) cs
    · obtain ⟨e, m, cs, rfl⟩ := hu
      simp only [Init.children] at hk
      rw [touched_union_some e m p hk] at ht
      rw [switchesUnion_union_some e m p hk]
      split at ht
      · rename_i hmk
        simp only [hmk, ↓reduceIte]
        exact touched_false p ck c hg' ht
      · cases ht
    · have hn : ∀ e m cs, obj ≠ .union e (some m) cs := fun e m cs he => hu ⟨e, m, cs, he⟩
      rw [touched_other p hk hn] at ht
      rw [switchesUnion_other p hk hn]
      exact touched_false p ck c hg' ht

theorem exprAbove_cons {obj : Init} {k : Nat} {c : Init} (p : List Nat) (h : obj.children[k]? = some c) :
    exprAbove obj (k :: p) = (hasAggExpr obj || exprAbove c p) := by
  rw [exprAbove]; simp [h]

theorem exprAbove_of_agg (obj : Init) (k : Nat) (p : List Nat) (h : hasAggExpr obj = true) : exprAbove obj (k :: p) = true := by
  rw [exprAbove]; simp [h]

theorem exprAbove_append : ∀ (p q : List Nat) (obj c : Init), getAt obj p = some c →
    exprAbove obj (p ++ q) = (exprAbove obj p || exprAbove c q)
  | [], q, obj, c, hg => by
    simp [getAt] at hg; subst hg
    simp [exprAbove]
  | k :: p, q, obj, c, hg => by
    obtain ⟨ck, hk, hg'⟩ := getAt_cons_some hg
    rw [List.cons_append, exprAbove_cons _ hk, exprAbove_cons _ hk, exprAbove_append p q ck c hg', Bool.or_assoc]

/-- below a node that carries an aggregate-valued expression every path is flagged -/
theorem exprAbove_below {obj c : Init} {p : List Nat} (hg : getAt obj p = some c) (ha : hasAggExpr c = true) (k : Nat) (s : List Nat) :
    exprAbove obj (p ++ k :: s) = true := by
  rw [exprAbove_append p (k :: s) obj c hg, exprAbove_of_agg c k s ha, Bool.or_true]

/-- no aggregate-valued expression above `p ++ k :: s` ⇒ none at `p` -/
theorem hasAggExpr_of_exprAbove {obj c : Init} {p : List Nat} {k : Nat} {s : List Nat} (hg : getAt obj p = some c)
    (h : exprAbove obj (p ++ k :: s) = false) : hasAggExpr c = false := by
  cases ha : hasAggExpr c with
  | false => rfl
  | true => rw [exprAbove_below hg ha] at h; cases h

/-! ### `skipExcess`: fuel -/

theorem skipExcess_le (toks : List ITok) : ∀ (f f' : Nat), f ≤ f' → Le (skipExcess f toks) (skipExcess f' toks) := by
  intro f f' h
  induction h with
  | refl => exact Le.refl _
  | step _ ih => exact ih.trans (skipExcess_mono _ toks)

theorem skipExcess_fuel {toks r r' : List ITok} {f f' : Nat} (h : skipExcess f toks = .ok r) (h' : skipExcess f' toks = .ok r') :
    r = r' := by
  have h1 := skipExcess_le toks f (max f f') (Nat.le_max_left _ _)
  have h2 := skipExcess_le toks f' (max f f') (Nat.le_max_right _ _)
  rcases h1 with h1 | h1
  · rw [h] at h1; cases h1
  · rcases h2 with h2 | h2
    · rw [h'] at h2; cases h2
    · rw [h] at h1; rw [h', ← h1] at h2; cases h2; rfl


/-! ### designator lists -/

/-- the designated subobjects are known; one initializer follows -/
def afterDesg (g : Nat) (root : Ty) (top : Bool) (obj : Init) (fl : Flags) (x : Except Fail (List (List Nat) × List ITok)) :
    Except Fail Result :=
  x >>= fun pt => initItem g root top obj pt.1 pt.2 fl

theorem desigPaths_eq (root : Ty) (top : Bool) (f : Nat) (ps : List (List Nat)) (r : List ITok) :
    desigPaths root top (f+1) ps (.eq :: r) = .ok (ps, r) := by
  rw [desigPaths]

theorem desigPaths_plain (root : Ty) (top : Bool) (f : Nat) (ps : List (List Nat)) (toks : List ITok)
    (h : isDesg toks = false) (h2 : ∀ r, toks ≠ .eq :: r) : desigPaths root top (f+1) ps toks = .ok (ps, toks) := by
  rw [desigPaths]
  · intro n r hr; subst hr; simp [isDesg] at h
  · intro a r hr; subst hr; simp [isDesg] at h
  · intro a b r hr; subst hr; simp [isDesg] at h
  · intro r hr; exact h2 r hr

theorem desigPaths_dot {root : Ty} {top : Bool} {p : List Nat} {t : Ty} {n : String} {mp : List Nat} (f : Nat) (r : List ITok)
    (ht : subTy root p = some t) (hm : findMember t n = some mp) (ha : t.isAgg = true) :
    desigPaths root top (f+1) [p] (.dot n :: r) = desigPaths root top f [p ++ mp] r := by
  rw [desigPaths]; simp [headTy, ht, hm, ha]

theorem desigPaths_idx_arr {root : Ty} {top : Bool} {p : List Nat} {e : Ty} {len : Nat} {a : Int} (f : Nat) (r : List ITok)
    (ht : subTy root p = some (.array e len)) (hg : growable root top p = false) (h0 : 0 ≤ a) (h1 : a < len) :
    desigPaths root top (f+1) [p] (.idx a :: r) = desigPaths root top f [p ++ [a.toNat]] r := by
  rw [desigPaths]
  simp [headTy, growableAt, ht, hg]
  intro hc; exfalso; omega

theorem desigPaths_idx_inc {root : Ty} {top : Bool} {p : List Nat} {e : Ty} {a : Int} (f : Nat) (r : List ITok)
    (ht : subTy root p = some (.inc e)) (h0 : 0 ≤ a) :
    desigPaths root top (f+1) [p] (.idx a :: r) = desigPaths root top f [p ++ [a.toNat]] r := by
  rw [desigPaths]
  have h3 : ¬ (a < 0) := by omega
  simp [headTy, ht, h3]

theorem desigPaths_range_arr {root : Ty} {top : Bool} {p : List Nat} {e : Ty} {len : Nat} {a b : Int} (f : Nat) (r : List ITok)
    (ht : subTy root p = some (.array e len)) (hg : growable root top p = false) (h0 : 0 ≤ a) (h1 : a ≤ b) (h2 : b < len) :
    desigPaths root top (f+1) [p] (.range a b :: r) =
      desigPaths root top f ((List.range' a.toNat (b.toNat + 1 - a.toNat)).map (fun k => p ++ [k])) r := by
  rw [desigPaths]
  simp [headTy, growableAt, ht, hg]
  intro hc; exfalso; omega

theorem desigPaths_range_inc {root : Ty} {top : Bool} {p : List Nat} {e : Ty} {a b : Int} (f : Nat) (r : List ITok)
    (ht : subTy root p = some (.inc e)) (h0 : 0 ≤ a) (h1 : a ≤ b) :
    desigPaths root top (f+1) [p] (.range a b :: r) =
      desigPaths root top f ((List.range' a.toNat (b.toNat + 1 - a.toNat)).map (fun k => p ++ [k])) r := by
  rw [desigPaths]
  have h3 : ¬ (a < 0 ∨ b < a) := by omega
  simp [headTy, ht, h3]

/-- designators only extend paths, and never lose one -/
theorem desigPaths_inv (root : Ty) (top : Bool) : ∀ (f : Nat) (ps : List (List Nat)) (toks : List ITok) (ps' : List (List Nat))
    (t' : List ITok), desigPaths root top f ps toks = .ok (ps', t') →
    ps.length ≤ ps'.length ∧ ∀ q ∈ ps', ∃ p ∈ ps, ∃ s, q = p ++ s
  | 0, _, _, _, _, h => by cases h
  | f+1, ps, toks, ps', t', h => by
    have base : ps.length ≤ ps.length ∧ ∀ q ∈ ps, ∃ p ∈ ps, ∃ s, q = p ++ s :=
      ⟨Nat.le_refl _, fun q hq => ⟨q, hq, [], by simp⟩⟩
    have mapc : ∀ (x : List Nat) (r : List ITok), desigPaths root top f (ps.map (· ++ x)) r = .ok (ps', t') →
        ps.length ≤ ps'.length ∧ ∀ q ∈ ps', ∃ p ∈ ps, ∃ s, q = p ++ s := by
      intro x r hx
      obtain ⟨h1, h2⟩ := desigPaths_inv root top f _ _ ps' t' hx
      refine ⟨by simpa using h1, fun q hq => ?_⟩
      obtain ⟨p', hp', s, hs⟩ := h2 q hq
      simp only [List.mem_map] at hp'
      obtain ⟨p, hp, rfl⟩ := hp'
      exact ⟨p, hp, x ++ s, by simp [hs]⟩
    have flatc : ∀ (a b : Int) (r : List ITok), ¬ (b < a) → ¬ (a < 0) →
        desigPaths root top f (ps.flatMap (fun p => (List.range' a.toNat (b.toNat + 1 - a.toNat)).map (fun k => p ++ [k]))) r =
          .ok (ps', t') →
        ps.length ≤ ps'.length ∧ ∀ q ∈ ps', ∃ p ∈ ps, ∃ s, q = p ++ s := by
      intro a b r hab ha hx
      obtain ⟨h1, h2⟩ := desigPaths_inv root top f _ _ ps' t' hx
      refine ⟨Nat.le_trans ?_ h1, fun q hq => ?_⟩
      · have hn : 1 ≤ b.toNat + 1 - a.toNat := by omega
        clear h1 h2 hx base mapc h
        induction ps with
        | nil => simp
        | cons p ps ih => simp only [List.flatMap_cons, List.length_append, List.length_map, List.length_range', List.length_cons]; omega
      · obtain ⟨p', hp', s, hs⟩ := h2 q hq
        simp only [List.mem_flatMap, List.mem_map] at hp'
        obtain ⟨p, hp, k, _, rfl⟩ := hp'
        exact ⟨p, hp, k :: s, by simp [hs]⟩
    unfold desigPaths at h
    split at h
    · -- .dot
      split at h
      · split at h
        · split at h
          · exact mapc _ _ h
          · cases h
        · split at h <;> cases h
      · cases h
    · -- .idx
      split at h
      · split at h
        · cases h
        · exact mapc _ _ h
      · split at h
        · cases h
        · exact mapc _ _ h
      · cases h
    · -- .range
      split at h
      · split at h
        · cases h
        · rename_i hc
          exact flatc _ _ _ (by omega) (by omega) h
      · split at h
        · cases h
        · rename_i hc
          exact flatc _ _ _ (by omega) (by omega) h
      · cases h
    · cases h; exact base
    · cases h; exact base


/-! ### runs that enter a region -/

theorem mapM_cons_ok {α β : Type} {f : α → Except Fail β} {a : α} {as : List α} {bs : List β}
    (h : (a :: as).mapM f = .ok bs) : ∃ b bs', f a = .ok b ∧ as.mapM f = .ok bs' ∧ bs = b :: bs' := by
  rw [List.mapM_cons] at h
  obtain ⟨b, hb, h⟩ := bind_eq_ok h
  obtain ⟨bs', hbs, h⟩ := bind_eq_ok h
  cases h
  exact ⟨b, bs', hb, hbs, rfl⟩

theorem initTok_wide_dirty {g : Nat} {root : Ty} {top : Bool} {obj : Init} {p0 : List Nat} {rest : List (List Nat)} {tok : ITok}
    {r : List ITok} {fl : Flags} {res : Result} (hw' : 0 < rest.length) (hns : siblings (p0 :: rest) = false)
    (hr : initTokWith (initList g) root top obj (p0 :: rest) tok r fl = .ok res) (hc : res.fl.clean = true) : False := by
  unfold initTokWith at hr
  obtain ⟨_, _, hr⟩ := bind_eq_ok hr
  obtain ⟨_, _, hr⟩ := bind_eq_ok hr
  have := (Flags.clean_mk (Flags.clean_join (initList_clean _ _ _ _ _ _ _ _ _ hr hc)).2).2.2
  simp [hns, hw'] at this

theorem initItem_wide_dirty {g : Nat} {root : Ty} {top : Bool} {obj : Init} {paths : List (List Nat)} {toks : List ITok} {fl : Flags}
    {res : Result} (hw : 1 < paths.length) (hns : siblings paths = false)
    (hr : initItem g root top obj paths toks fl = .ok res) : res.fl.clean = false := by
  cases hc : res.fl.clean with
  | false => rfl
  | true =>
    exfalso
    cases paths with
    | nil => simp at hw
    | cons p0 rest =>
      have hw' : 0 < rest.length := by simpa using hw
      unfold initItem initItemWith at hr
      simp only at hr
      split at hr
      · obtain ⟨_, _, hr⟩ := bind_eq_ok hr
        try simp only at hr
        split at hr
        · exact initTok_wide_dirty hw' hns hr hc
        · obtain ⟨_, _, hr⟩ := bind_eq_ok hr
          obtain ⟨_, _, hr⟩ := bind_eq_ok hr
          have := (Flags.clean_mk (Flags.clean_join (Flags.clean_join (initList_clean _ _ _ _ _ _ _ _ _ hr hc)).1).2).2.2
          simp [hns, hw'] at this
      · exact initTok_wide_dirty hw' hns hr hc
      · cases hr

theorem initTok_xover_dirty {g : Nat} {root : Ty} {top : Bool} {obj : Init} {p0 : List Nat} {rest : List (List Nat)} {tok : ITok}
    {r : List ITok} {fl : Flags} {res : Result} (hx : ∀ q ∈ p0 :: rest, ∀ s, exprAbove obj (q ++ s) = true)
    (hr : initTokWith (initList g) root top obj (p0 :: rest) tok r fl = .ok res) (hc : res.fl.clean = true) : False := by
  unfold initTokWith at hr
  obtain ⟨targets, ht, hr⟩ := bind_eq_ok hr
  obtain ⟨_, _, hr⟩ := bind_eq_ok hr
  obtain ⟨q0, ts, hq0, _, rfl⟩ := mapM_cons_ok ht
  obtain ⟨s, rfl⟩ := descend_prefix _ _ _ _ _ _ hq0
  have := (Flags.clean_mk (Flags.clean_join (initList_clean _ _ _ _ _ _ _ _ _ hr hc)).2).2.1
  simp [hx p0 (by simp) s] at this

theorem initItem_xover_dirty {g : Nat} {root : Ty} {top : Bool} {obj : Init} {paths : List (List Nat)} {toks : List ITok} {fl : Flags}
    {res : Result} (hne : paths ≠ []) (hx : ∀ q ∈ paths, ∀ s, exprAbove obj (q ++ s) = true)
    (hr : initItem g root top obj paths toks fl = .ok res) : res.fl.clean = false := by
  cases hc : res.fl.clean with
  | false => rfl
  | true =>
    exfalso
    unfold initItem initItemWith at hr
    split at hr
    · exact hne rfl
    · rename_i p0 rest
      have h0 : exprAbove obj p0 = true := by simpa using hx p0 (by simp) []
      split at hr
      · obtain ⟨_, _, hr⟩ := bind_eq_ok hr
        try simp only at hr
        split at hr
        · exact initTok_xover_dirty hx hr hc
        · obtain ⟨_, _, hr⟩ := bind_eq_ok hr
          obtain ⟨_, _, hr⟩ := bind_eq_ok hr
          have := (Flags.clean_mk (Flags.clean_join (Flags.clean_join (initList_clean _ _ _ _ _ _ _ _ _ hr hc)).1).2).2.1
          simp [h0] at this
      · exact initTok_xover_dirty hx hr hc
      · cases hr

theorem touched_switch (e : Option Expr) {m k : Nat} (cs : List Init) (s : List Nat) (hm : m ≠ k) :
    touched (.union e (some m) cs) (k :: s) = true := by
  rw [touched]; simp [hm]

theorem switchesUnion_switch (e : Option Expr) {m k : Nat} (cs : List Init) (s : List Nat) (hm : m ≠ k) :
    switchesUnion (.union e (some m) cs) (k :: s) = true := by
  rw [switchesUnion]; simp [hm]

/-- an initializer for another member of the union that is the current object than the one initialised so far: the run enters
    the region `over` (6.7.9p19 makes the new member the initialised one, from zero; `touched` / `switchesUnion` see it) -/
theorem initTok_switch_dirty {g : Nat} {root : Ty} {top : Bool} {e : Option Expr} {m k : Nat} {cs : List Init}
    {s0 : List Nat} {rest : List (List Nat)} {tok : ITok} {r : List ITok} {fl : Flags} {res : Result} (hm : m ≠ k)
    (hr : initTokWith (initList g) root top (.union e (some m) cs) ((k :: s0) :: rest) tok r fl = .ok res)
    (hc : res.fl.clean = true) : False := by
  unfold initTokWith at hr
  obtain ⟨targets, ht, hr⟩ := bind_eq_ok hr
  obtain ⟨_, _, hr⟩ := bind_eq_ok hr
  obtain ⟨q0, ts, hq0, _, rfl⟩ := mapM_cons_ok ht
  obtain ⟨s, rfl⟩ := descend_prefix _ _ _ _ _ _ hq0
  have := (Flags.clean_mk (Flags.clean_join (initList_clean _ _ _ _ _ _ _ _ _ hr hc)).2).1
  simp [switchesUnion_switch e cs (s0 ++ s) hm] at this

theorem initItem_switch_dirty {g : Nat} {root : Ty} {top : Bool} {e : Option Expr} {m k : Nat} {cs : List Init}
    {paths : List (List Nat)} {toks : List ITok} {fl : Flags} {res : Result} (hne : paths ≠ []) (hm : m ≠ k)
    (hx : ∀ q ∈ paths, ∃ s, q = k :: s)
    (hr : initItem g root top (.union e (some m) cs) paths toks fl = .ok res) : res.fl.clean = false := by
  cases hc : res.fl.clean with
  | false => rfl
  | true =>
    exfalso
    unfold initItem initItemWith at hr
    split at hr
    · exact hne rfl
    · rename_i p0 rest
      obtain ⟨s0, hp0⟩ := hx p0 (by simp)
      subst hp0
      split at hr
      · obtain ⟨_, _, hr⟩ := bind_eq_ok hr
        try simp only at hr
        split at hr
        · exact initTok_switch_dirty hm hr hc
        · obtain ⟨_, _, hr⟩ := bind_eq_ok hr
          obtain ⟨_, _, hr⟩ := bind_eq_ok hr
          have := (Flags.clean_mk (Flags.clean_join (Flags.clean_join (initList_clean _ _ _ _ _ _ _ _ _ hr hc)).1).2).1
          simp [touched_switch e cs s0 hm] at this
      · exact initTok_switch_dirty hm hr hc
      · cases hr

mutual
  theorem findMember_ne_nil : ∀ (t : Ty) (n : String), findMember t n ≠ some []
    | .struct ms _ _, n => by rw [findMember]; exact findMemberMs_ne_nil ms n 0
    | .union ms _ _, n => by rw [findMember]; exact findMemberMs_ne_nil ms n 0
    | .scalar _ _, _ => by simp [findMember]
    | .array _ _, _ => by simp [findMember]
    | .inc _, _ => by simp [findMember]
  theorem findMemberMs_ne_nil : ∀ (ms : Members) (n : String) (i : Nat), findMemberMs ms n i ≠ some []
    | [], _, _ => by simp [findMemberMs]
    | (mi, t) :: r, n, i => by
      rw [findMemberMs]
      split
      · split
        · simp
        · exact findMemberMs_ne_nil r n (i+1)
      · split
        · simp
        · exact findMemberMs_ne_nil r n (i+1)
end

/-- paths that differ before position `m + 1` and all go beyond it -/
def Spread (m : Nat) (ps : List (List Nat)) : Prop :=
  (∀ q ∈ ps, m + 1 ≤ q.length) ∧ ∃ q1 ∈ ps, ∃ q2 ∈ ps, q1.take (m + 1) ≠ q2.take (m + 1)

theorem take_append_of_le {α : Type} (a b : List α) (n : Nat) (h : n ≤ a.length) : (a ++ b).take n = a.take n := by
  rw [List.take_append_of_le_length h]

theorem Spread.map_append {m : Nat} {ps : List (List Nat)} (h : Spread m ps) (x : List Nat) : Spread m (ps.map (· ++ x)) := by
  obtain ⟨h1, q1, hq1, q2, hq2, hne⟩ := h
  refine ⟨fun q hq => ?_, q1 ++ x, List.mem_map_of_mem hq1, q2 ++ x, List.mem_map_of_mem hq2, ?_⟩
  · simp only [List.mem_map] at hq
    obtain ⟨q0, hq0, rfl⟩ := hq
    have := h1 q0 hq0
    simp; omega
  · rw [take_append_of_le _ _ _ (h1 q1 hq1), take_append_of_le _ _ _ (h1 q2 hq2)]
    exact hne

theorem Spread.flatMap_range {m : Nat} {ps : List (List Nat)} (h : Spread m ps) (a n : Nat) (hn : 1 ≤ n) :
    Spread m (ps.flatMap (fun p => (List.range' a n).map (fun k => p ++ [k]))) := by
  obtain ⟨h1, q1, hq1, q2, hq2, hne⟩ := h
  have hmem : ∀ q ∈ ps, q ++ [a] ∈ ps.flatMap (fun p => (List.range' a n).map (fun k => p ++ [k])) := by
    intro q hq
    simp only [List.mem_flatMap, List.mem_map, List.mem_range']
    exact ⟨q, hq, a, ⟨0, by omega, by simp⟩, rfl⟩
  refine ⟨fun q hq => ?_, q1 ++ [a], hmem q1 hq1, q2 ++ [a], hmem q2 hq2, ?_⟩
  · simp only [List.mem_flatMap, List.mem_map] at hq
    obtain ⟨q0, hq0, k, _, rfl⟩ := hq
    have := h1 q0 hq0
    simp; omega
  · rw [take_append_of_le _ _ _ (h1 q1 hq1), take_append_of_le _ _ _ (h1 q2 hq2)]
    exact hne

/-- spread paths stay spread under further designators, and one more designator makes every path longer -/
theorem desigPaths_spread (root : Ty) (top : Bool) (m : Nat) : ∀ (f : Nat) (ps : List (List Nat)) (toks : List ITok)
    (ps' : List (List Nat)) (t' : List ITok), desigPaths root top f ps toks = .ok (ps', t') → Spread m ps →
    Spread m ps' ∧ (isDesg toks = true → ∀ q ∈ ps', m + 2 ≤ q.length)
  | 0, _, _, _, _, h, _ => by cases h
  | f+1, ps, toks, ps', t', h, hsp => by
    have longer : ∀ {qs : List (List Nat)} {r : List ITok}, desigPaths root top f qs r = .ok (ps', t') → Spread m qs →
        (∀ q ∈ qs, m + 2 ≤ q.length) → Spread m ps' ∧ (isDesg toks = true → ∀ q ∈ ps', m + 2 ≤ q.length) := by
      intro qs r hx hs hl
      obtain ⟨h1, _⟩ := desigPaths_spread root top m f qs r ps' t' hx hs
      refine ⟨h1, fun _ q hq => ?_⟩
      obtain ⟨_, h2⟩ := desigPaths_inv root top f qs r ps' t' hx
      obtain ⟨p, hp, s, rfl⟩ := h2 q hq
      have := hl p hp
      simp; omega
    have mapc : ∀ (x : List Nat) (r : List ITok), 1 ≤ x.length → desigPaths root top f (ps.map (· ++ x)) r = .ok (ps', t') →
        Spread m ps' ∧ (isDesg toks = true → ∀ q ∈ ps', m + 2 ≤ q.length) := by
      intro x r hx hh
      refine longer hh (hsp.map_append x) (fun q hq => ?_)
      simp only [List.mem_map] at hq
      obtain ⟨q0, hq0, rfl⟩ := hq
      have := hsp.1 q0 hq0
      simp; omega
    have flatc : ∀ (a b : Int) (r : List ITok), ¬ (b < a) → ¬ (a < 0) →
        desigPaths root top f (ps.flatMap (fun p => (List.range' a.toNat (b.toNat + 1 - a.toNat)).map (fun k => p ++ [k]))) r =
          .ok (ps', t') → Spread m ps' ∧ (isDesg toks = true → ∀ q ∈ ps', m + 2 ≤ q.length) := by
      intro a b r hab ha hh
      refine longer hh (hsp.flatMap_range _ _ (by omega)) (fun q hq => ?_)
      simp only [List.mem_flatMap, List.mem_map] at hq
      obtain ⟨q0, hq0, k, _, rfl⟩ := hq
      have := hsp.1 q0 hq0
      simp; omega
    have base : Spread m ps ∧ (isDesg toks = true → ∀ q ∈ ps, m + 2 ≤ q.length) → True := fun _ => trivial
    unfold desigPaths at h
    split at h
    · -- .dot
      split at h
      · split at h
        · split at h
          · rename_i mp hm _
            cases mp with
            | nil => exact absurd hm (findMember_ne_nil _ _)
            | cons k mp' => exact mapc _ _ (by simp) h
          · cases h
        · split at h <;> cases h
      · cases h
    · -- .idx
      split at h
      · split at h
        · cases h
        · exact mapc _ _ (by simp) h
      · split at h
        · cases h
        · exact mapc _ _ (by simp) h
      · cases h
    · -- .range
      split at h
      · split at h
        · cases h
        · rename_i hc
          exact flatc _ _ _ (by omega) (by omega) h
      · split at h
        · cases h
        · rename_i hc
          exact flatc _ _ _ (by omega) (by omega) h
      · cases h
    · cases h; exact ⟨hsp, fun hd => by simp [isDesg] at hd⟩
    · rename_i hn1 hn2 hn3 hn4
      cases h
      refine ⟨hsp, fun hd => ?_⟩
      exfalso
      cases toks with
      | nil => simp [isDesg] at hd
      | cons t r => cases t <;> simp [isDesg] at hd <;> first | exact hn1 _ _ rfl | exact hn2 _ _ rfl | exact hn3 _ _ _ rfl

theorem siblings_false_of_spread {m : Nat} {ps : List (List Nat)} (hs : Spread m ps) (hl : ∀ q ∈ ps, m + 2 ≤ q.length) :
    siblings ps = false := by
  obtain ⟨_, q1, hq1, q2, hq2, hne⟩ := hs
  cases ps with
  | nil => simp at hq1
  | cons p0 rest =>
    cases hsb : siblings (p0 :: rest) with
    | false => rfl
    | true =>
      exfalso
      simp only [siblings, List.all_eq_true, beq_iff_eq] at hsb
      have e1 := hsb q1 hq1
      have e2 := hsb q2 hq2
      apply hne
      have t1 : q1.take (m+1) = q1.dropLast.take (m+1) := by
        rw [List.dropLast_eq_take, List.take_take]; congr 1; have := hl q1 hq1; omega
      have t2 : q2.take (m+1) = q2.dropLast.take (m+1) := by
        rw [List.dropLast_eq_take, List.take_take]; congr 1; have := hl q2 hq2; omega
      rw [t1, t2, e1, e2]

theorem spread_range (p : List Nat) (b n : Nat) (hn : 2 ≤ n) : Spread p.length ((List.range' b n).map (fun k => p ++ [k])) := by
  refine ⟨fun q hq => ?_, p ++ [b], ?_, p ++ [b+1], ?_, ?_⟩
  · simp only [List.mem_map] at hq
    obtain ⟨k, _, rfl⟩ := hq
    simp
  · simp only [List.mem_map, List.mem_range']; exact ⟨b, ⟨0, by omega, by simp⟩, rfl⟩
  · simp only [List.mem_map, List.mem_range']; exact ⟨b+1, ⟨1, by omega, by simp⟩, rfl⟩
  · have h1 : (p ++ [b]).take (p.length + 1) = p ++ [b] := List.take_of_length_le (by simp)
    have h2 : (p ++ [b+1]).take (p.length + 1) = p ++ [b+1] := List.take_of_length_le (by simp)
    rw [h1, h2]
    intro h
    have := List.append_cancel_left h
    simp only [List.cons.injEq, and_true] at this
    omega

/-- a range designator over several elements followed by a further designator: the run enters the region `WideRange` -/
theorem afterDesg_wide_dirty {g : Nat} {root : Ty} {top : Bool} {obj : Init} {fl : Flags} {f : Nat} {p : List Nat} {b n : Nat}
    {toks : List ITok} {res : Result} (hn : 2 ≤ n) (hd : isDesg toks = true)
    (hr : afterDesg g root top obj fl (desigPaths root top f ((List.range' b n).map (fun k => p ++ [k])) toks) = .ok res) :
    res.fl.clean = false := by
  unfold afterDesg at hr
  obtain ⟨⟨ps', t'⟩, hdp, hr⟩ := bind_eq_ok hr
  obtain ⟨hs, hl⟩ := desigPaths_spread root top p.length f _ toks ps' t' hdp (spread_range p b n hn)
  have h1 := (desigPaths_inv root top f _ toks ps' t' hdp).1
  simp only [List.length_map, List.length_range'] at h1
  exact initItem_wide_dirty (by omega) (siblings_false_of_spread hs (hl hd)) hr

theorem afterDesg_xover_dirty {g : Nat} {root : Ty} {top : Bool} {obj : Init} {fl : Flags} {f : Nat} {p : List Nat} {c : Init}
    {k : Nat} {s : List Nat} {toks : List ITok} {res : Result} (hg : getAt obj p = some c) (ha : hasAggExpr c = true)
    (hr : afterDesg g root top obj fl (desigPaths root top f [p ++ k :: s] toks) = .ok res) : res.fl.clean = false := by
  unfold afterDesg at hr
  obtain ⟨⟨ps', t'⟩, hd, hr⟩ := bind_eq_ok hr
  obtain ⟨h1, h2⟩ := desigPaths_inv root top f _ toks ps' t' hd
  refine initItem_xover_dirty ?_ ?_ hr
  · intro he; simp only at he; rw [he] at h1; simp at h1
  · intro q hq s'
    obtain ⟨p', hp', s2, rfl⟩ := h2 q hq
    simp only [List.mem_singleton] at hp'
    subst hp'
    rw [List.append_assoc, List.append_assoc, List.cons_append]
    exact exprAbove_below hg ha k _

end ChibiVerif.InitSpec
