/-
C05, parser = specification: facts about the specification alone (Spec/InitSpec.lean).

* `Imp x y`        — "if the run `x` of the specification succeeds outside every region, `y` is the same result": the relation the
                     simulation composes.
* `initItem`       — one initializer of a list with the rest of the list (`initItemWith` applied to `initList g`).
* flags are monotone, a list that is at its end or at a designator does not look at its cursor, `next` after the `i`-th child is
  the cursor at child `i+1` (`cursorIn`), `descend`/`desigPaths` only extend paths.
-/
import ChibiVerif.Lemmas.InitPathLemmas

namespace ChibiVerif.InitSpec
open ChibiVerif.Init

/-! ### `Except` -/

theorem bind_eq_ok {α β : Type} {x : Except Fail α} {k : α → Except Fail β} {b : β} (h : (x >>= k) = .ok b) :
    ∃ a, x = .ok a ∧ k a = .ok b := by
  cases x with
  | error e => cases h
  | ok a => exact ⟨a, rfl, h⟩

theorem ok_bind {α β : Type} (a : α) (k : α → Except Fail β) : ((Except.ok a : Except Fail α) >>= k) = k a := rfl
theorem error_bind {α β : Type} (e : Fail) (k : α → Except Fail β) : ((Except.error e : Except Fail α) >>= k) = .error e := rfl
theorem pure_bind' {α β : Type} (a : α) (k : α → Except Fail β) : ((pure a : Except Fail α) >>= k) = k a := rfl

theorem bind_ok {α β : Type} {x : Except Fail α} {k : α → Except Fail β} {a : α} (h : x = .ok a) : (x >>= k) = k a := by
  subst h; rfl

/-! ### flags -/

theorem Flags.join_none (a : Flags) : a.join Flags.none = a := by
  cases a; simp [Flags.join, Flags.none]

theorem Flags.join_false (a : Flags) : a.join ⟨false, false, false⟩ = a := by
  cases a; simp [Flags.join]

theorem Flags.clean_join {a b : Flags} (h : (a.join b).clean = true) : a.clean = true ∧ b.clean = true := by
  cases a; cases b
  simp only [Flags.join, Flags.clean, Bool.and_eq_true, Bool.not_eq_true', Bool.or_eq_false_iff] at h ⊢
  exact ⟨⟨⟨h.1.1.1, h.1.2.1⟩, h.2.1⟩, ⟨⟨h.1.1.2, h.1.2.2⟩, h.2.2⟩⟩

theorem Flags.clean_mk {a b c : Bool} (h : (Flags.mk a b c).clean = true) : a = false ∧ b = false ∧ c = false := by
  simpa [Flags.clean, and_assoc] using h

/-- `r` succeeded outside every region ⇒ `y` is that result -/
def Imp (x y : Except Fail Result) : Prop := ∀ r, x = .ok r → r.fl.clean = true → y = .ok r

theorem Imp.refl (x : Except Fail Result) : Imp x x := fun _ h _ => h
theorem Imp.trans {x y z : Except Fail Result} (h1 : Imp x y) (h2 : Imp y z) : Imp x z :=
  fun r hr hc => h2 r (h1 r hr hc) hc
theorem Imp.of_eq {x y : Except Fail Result} (h : x = y) : Imp x y := h ▸ Imp.refl x
theorem Imp.of_error {x y : Except Fail Result} {e : Fail} (h : x = .error e) : Imp x y := by
  intro r hr; rw [h] at hr; cases hr

/-! ### unfolding `initList` -/

/-- one initializer for the subobjects `paths`, then the rest of the list -/
def initItem (g : Nat) (ty : Ty) (top : Bool) (obj : Init) (paths : List (List Nat)) (toks : List ITok) (fl : Flags) :
    Except Fail Result :=
  initItemWith (initList g) ty top obj paths toks fl

theorem initList_zero (ty : Ty) (top : Bool) (obj : Init) (cur : Option (List Nat)) (toks : List ITok) (first : Bool) (fl : Flags) :
    initList 0 ty top obj cur toks first fl = .error .fuel := rfl

theorem initList_rbrace (g : Nat) (ty : Ty) (top : Bool) (obj : Init) (cur : Option (List Nat)) (r : List ITok) (first : Bool)
    (fl : Flags) : initList (g+1) ty top obj cur (.rbrace :: r) first fl = .ok ⟨obj, r, fl⟩ := by
  rw [initList]

theorem initList_comma_rbrace (g : Nat) (ty : Ty) (top : Bool) (obj : Init) (cur : Option (List Nat)) (r : List ITok) (first : Bool)
    (fl : Flags) : initList (g+1) ty top obj cur (.comma :: .rbrace :: r) first fl = .ok ⟨obj, r, fl⟩ := by
  rw [initList]

theorem initList_end (g : Nat) (ty : Ty) (top : Bool) (obj : Init) (cur : Option (List Nat)) (toks rest : List ITok) (first : Bool)
    (fl : Flags) (h : consumeEnd toks = some rest) : initList (g+1) ty top obj cur toks first fl = .ok ⟨obj, rest, fl⟩ := by
  unfold consumeEnd at h
  split at h
  · cases h; exact initList_rbrace ..
  · cases h; exact initList_comma_rbrace ..
  · cases h

theorem initList_item (g : Nat) (ty : Ty) (top : Bool) (obj : Init) (cur : Option (List Nat)) (toks : List ITok) (first : Bool)
    (fl : Flags) (h : consumeEnd toks = none) :
    initList (g+1) ty top obj cur toks first fl =
      ((if first then pure toks else skipTok .comma "," toks) >>= fun toks =>
        pathsOf ty top cur toks >>= fun pt => initItem g ty top obj pt.1 pt.2 fl) := by
  unfold consumeEnd at h
  rw [initList]
  · cases first <;> rfl
  · intro r hr; subst hr; simp at h
  · intro r hr; subst hr; simp at h

theorem consumeEnd_none_of_isEnd {toks : List ITok} (h : isEnd toks = false) : consumeEnd toks = none := by
  unfold isEnd at h; unfold consumeEnd
  split at h <;> simp_all

theorem isEnd_of_consumeEnd_none {toks : List ITok} (h : consumeEnd toks = none) : isEnd toks = false := by
  unfold consumeEnd at h; unfold isEnd
  split at h <;> simp_all

theorem consumeEnd_some_isEnd {toks rest : List ITok} (h : consumeEnd toks = some rest) : isEnd toks = true := by
  unfold consumeEnd at h; unfold isEnd
  split at h <;> simp_all


/-! ### flags only grow -/

theorem initItemWith_clean (rec : Ty → Bool → Init → Option (List Nat) → List ITok → Bool → Flags → Except Fail Result)
    (hrec : ∀ ty top obj cur toks first fl r, rec ty top obj cur toks first fl = .ok r → r.fl.clean = true → fl.clean = true)
    (ty : Ty) (top : Bool) (obj : Init) (paths : List (List Nat)) (toks : List ITok) (fl : Flags) (r : Result)
    (h : initItemWith rec ty top obj paths toks fl = .ok r) (hc : r.fl.clean = true) : fl.clean = true := by
  unfold initItemWith at h
  split at h
  · obtain ⟨_, _, h⟩ := bind_eq_ok h
    exact hrec _ _ _ _ _ _ _ _ h hc
  · split at h
    · obtain ⟨_, _, h⟩ := bind_eq_ok h
      obtain ⟨_, _, h⟩ := bind_eq_ok h
      obtain ⟨_, _, h⟩ := bind_eq_ok h
      exact (Flags.clean_join (Flags.clean_join (hrec _ _ _ _ _ _ _ _ h hc)).1).1
    · obtain ⟨_, _, h⟩ := bind_eq_ok h
      obtain ⟨_, _, h⟩ := bind_eq_ok h
      exact (Flags.clean_join (hrec _ _ _ _ _ _ _ _ h hc)).1
    · cases h

theorem initList_clean : ∀ (g : Nat) (ty : Ty) (top : Bool) (obj : Init) (cur : Option (List Nat)) (toks : List ITok)
    (first : Bool) (fl : Flags) (r : Result), initList g ty top obj cur toks first fl = .ok r → r.fl.clean = true → fl.clean = true
  | 0, _, _, _, _, _, _, _, _, h, _ => by cases h
  | g+1, ty, top, obj, cur, toks, first, fl, r, h, hc => by
    cases he : consumeEnd toks with
    | some rest =>
      rw [initList_end _ _ _ _ _ _ _ _ _ he] at h
      cases h; exact hc
    | none =>
      rw [initList_item _ _ _ _ _ _ _ _ he] at h
      obtain ⟨_, _, h⟩ := bind_eq_ok h
      obtain ⟨_, _, h⟩ := bind_eq_ok h
      exact initItemWith_clean (initList g) (initList_clean g) _ _ _ _ _ _ _ h hc

theorem initItem_clean {g : Nat} {ty : Ty} {top : Bool} {obj : Init} {paths : List (List Nat)} {toks : List ITok} {fl : Flags}
    {r : Result} (h : initItem g ty top obj paths toks fl = .ok r) (hc : r.fl.clean = true) : fl.clean = true :=
  initItemWith_clean (initList g) (initList_clean g) _ _ _ _ _ _ _ h hc

/-- a run that starts inside a region proves nothing and is related to everything -/
theorem Imp.of_dirty_list {g : Nat} {ty : Ty} {top : Bool} {obj : Init} {cur : Option (List Nat)} {toks : List ITok} {first : Bool}
    {fl : Flags} {y : Except Fail Result} (h : fl.clean = false) : Imp (initList g ty top obj cur toks first fl) y := by
  intro r hr hc
  rw [initList_clean _ _ _ _ _ _ _ _ _ hr hc] at h; cases h

/-! ### a list at its end, or at a designator, does not look at its cursor -/

/-- the parser's elided loops return to the enclosing braces: the list ends, or a comma and a designator follow -/
def Stopped (toks : List ITok) : Prop := isEnd toks = true ∨ ∃ r, toks = .comma :: r ∧ isDesg r = true

theorem pathsOf_desg (ty : Ty) (top : Bool) (cur cur' : Option (List Nat)) (toks : List ITok) (h : isDesg toks = true) :
    pathsOf ty top cur toks = pathsOf ty top cur' toks := by
  simp [pathsOf, h]

theorem initList_stopped (g : Nat) (ty : Ty) (top : Bool) (obj : Init) (cur cur' : Option (List Nat)) (toks : List ITok)
    (fl : Flags) (h : Stopped toks) :
    initList g ty top obj cur toks false fl = initList g ty top obj cur' toks false fl := by
  cases g with
  | zero => rfl
  | succ g =>
    rcases h with h | ⟨r, rfl, hd⟩
    · cases he : consumeEnd toks with
      | some rest => rw [initList_end _ _ _ _ _ _ _ _ _ he, initList_end _ _ _ _ _ _ _ _ _ he]
      | none => rw [isEnd_of_consumeEnd_none he] at h; cases h
    · cases he : consumeEnd (.comma :: r) with
      | some rest => rw [initList_end _ _ _ _ _ _ _ _ _ he, initList_end _ _ _ _ _ _ _ _ _ he]
      | none =>
        rw [initList_item _ _ _ _ _ _ _ _ he, initList_item _ _ _ _ _ _ _ _ he]
        simp only [Bool.false_eq_true, ↓reduceIte, skipTok]
        rw [ok_bind, ok_bind, pathsOf_desg ty top cur cur' r hd]


/-! ### the cursor -/

/-- the cursor "at child `i` of the aggregate at `p`": that child if it exists (for a struct: the next member at or after `i` that
    takes part), otherwise whatever follows the aggregate -/
def cursorIn (root : Ty) (top : Bool) (p : List Nat) (i : Nat) : Option (List Nat) :=
  match subTy root p with
  | some (.array _ len) => if i < len || growable root top p then some (p ++ [i]) else next root top p.reverse
  | some (.inc _) => some (p ++ [i])
  | some (.struct ms _ _) =>
    match nextNamed ms ms.length i with
    | some j => some (p ++ [j])
    | none => next root top p.reverse
  | some (.union _ _ _) => next root top p.reverse
  | _ => none

theorem next_snoc (root : Ty) (top : Bool) (p : List Nat) (i : Nat) :
    next root top (i :: p.reverse) = cursorIn root top p (i + 1) := by
  rw [next]
  simp only [List.reverse_reverse, cursorIn]
  cases subTy root p with
  | none => rfl
  | some t => cases t <;> rfl

theorem next_nil (root : Ty) (top : Bool) : next root top [] = none := by rw [next]

/-! ### `descend` -/

theorem descend_bad {root : Ty} {top : Bool} {tok : ITok} {p : List Nat} (f : Nat) (ht : subTy root p = none) :
    ∃ e, descend root top tok f p = .error e := by
  cases f with
  | zero => exact ⟨_, rfl⟩
  | succ f => rw [descend]; simp [ht]

theorem descend_stop {root : Ty} {top : Bool} {tok : ITok} {p : List Nat} {t : Ty} (f : Nat) (ht : subTy root p = some t)
    (hs : stopsAt t tok = true) : descend root top tok (f+1) p = .ok p := by
  rw [descend]; simp [ht, hs]

theorem descend_step {root : Ty} {top : Bool} {tok : ITok} {p : List Nat} {t : Ty} {k : Nat} (f : Nat) (ht : subTy root p = some t)
    (hs : stopsAt t tok = false) (hk : firstSub root top p t = some k) :
    descend root top tok (f+1) p = descend root top tok f (p ++ [k]) := by
  rw [descend]; simp [ht, hs, hk]

theorem descend_none {root : Ty} {top : Bool} {tok : ITok} {p : List Nat} {t : Ty} (f : Nat) (ht : subTy root p = some t)
    (hs : stopsAt t tok = false) (hk : firstSub root top p t = none) :
    ∃ e, descend root top tok f p = .error e := by
  cases f with
  | zero => exact ⟨_, rfl⟩
  | succ f => rw [descend]; simp [ht, hs, hk]

/-- case analysis of one step of a successful descent -/
theorem descend_ok_cases {root : Ty} {top : Bool} {tok : ITok} {f : Nat} {p q : List Nat}
    (h : descend root top tok (f+1) p = .ok q) :
    ∃ t, subTy root p = some t ∧
      ((stopsAt t tok = true ∧ q = p) ∨
       (stopsAt t tok = false ∧ ∃ k, firstSub root top p t = some k ∧ descend root top tok f (p ++ [k]) = .ok q)) := by
  cases ht : subTy root p with
  | none => obtain ⟨e, he⟩ := descend_bad (top := top) (tok := tok) (f+1) ht; rw [he] at h; cases h
  | some t =>
    refine ⟨t, rfl, ?_⟩
    cases hs : stopsAt t tok with
    | true => rw [descend_stop f ht hs] at h; cases h; exact Or.inl ⟨rfl, rfl⟩
    | false =>
      cases hk : firstSub root top p t with
      | none => obtain ⟨e, he⟩ := descend_none (f+1) ht hs hk; rw [he] at h; cases h
      | some k => rw [descend_step f ht hs hk] at h; exact Or.inr ⟨rfl, k, rfl, h⟩

theorem descend_mono (root : Ty) (top : Bool) (tok : ITok) : ∀ (f : Nat) (p q : List Nat),
    descend root top tok f p = .ok q → descend root top tok (f+1) p = .ok q
  | 0, _, _, h => by cases h
  | f+1, p, q, h => by
    obtain ⟨t, ht, h1 | ⟨hs, k, hk, h2⟩⟩ := descend_ok_cases h
    · rw [descend_stop _ ht h1.1, h1.2]
    · rw [descend_step _ ht hs hk]; exact descend_mono root top tok f _ q h2

theorem descend_mono_le (root : Ty) (top : Bool) (tok : ITok) {f f' : Nat} (hle : f ≤ f') {p q : List Nat}
    (h : descend root top tok f p = .ok q) : descend root top tok f' p = .ok q := by
  induction hle with
  | refl => exact h
  | step _ ih => exact descend_mono root top tok _ p q ih

theorem descend_prefix (root : Ty) (top : Bool) (tok : ITok) : ∀ (f : Nat) (p q : List Nat),
    descend root top tok f p = .ok q → ∃ s, q = p ++ s
  | 0, _, _, h => by cases h
  | f+1, p, q, h => by
    obtain ⟨t, ht, h1 | ⟨hs, k, hk, h2⟩⟩ := descend_ok_cases h
    · exact ⟨[], by simp [h1.2]⟩
    · obtain ⟨s, hs⟩ := descend_prefix root top tok f _ q h2
      exact ⟨k :: s, by simp [hs]⟩

/-- a successful descent from `p` that does not stop at `p` goes strictly below `p` -/
theorem descend_below {root : Ty} {top : Bool} {tok : ITok} {f : Nat} {p q : List Nat} {t : Ty} (ht : subTy root p = some t)
    (hs : stopsAt t tok = false) (h : descend root top tok f p = .ok q) : ∃ k s, q = p ++ k :: s := by
  cases f with
  | zero => cases h
  | succ f =>
    obtain ⟨t', ht', h1 | ⟨_, k, hk, h2⟩⟩ := descend_ok_cases h
    · rw [ht] at ht'; cases ht'; rw [hs] at h1; cases h1.1
    · obtain ⟨s, hs⟩ := descend_prefix root top tok f _ q h2
      exact ⟨k, s, by simp [hs]⟩

/-! ### one initializer for one subobject -/

def isStrTok : ITok → Bool
  | .str .. => true
  | _ => false

/-- the regions an initializer without braces that lands at `q` enters -/
def tokFlags (root : Ty) (obj : Init) (tok : ITok) (q : List Nat) : Flags :=
  ⟨(isStrTok tok && (match subTy root q with | some (.scalar ..) => false | _ => touched obj q)) || switchesUnion obj q,
   exprAbove obj q, false⟩

theorem initItem_tok (g : Nat) (root : Ty) (top : Bool) (obj : Init) (p : List Nat) (tok : ITok) (r : List ITok) (fl : Flags)
    (hb : tok ≠ .lbrace) :
    initItem g root top obj [p] (tok :: r) fl =
      (descend root top tok (p.length + root.nodes + 2) p >>= fun q =>
        modifyAt root top (storeTok root top tok q) root [] q obj >>= fun obj' =>
          initList g root top obj' (next root top q.reverse) r false (fl.join (tokFlags root obj tok q))) := by
  unfold initItem initItemWith
  cases hd : descend root top tok (p.length + root.nodes + 2) p with
  | error e => cases tok <;> first | exact absurd rfl hb | simp [hd, error_bind, List.mapM_cons, bind, Except.bind]
  | ok q =>
    cases tok <;> first | exact absurd rfl hb |
      (simp [hd, ok_bind, List.mapM_cons, tokFlags, isStrTok, bind, Except.bind, pure, Except.pure]
       cases modifyAt root top (storeTok root top _ q) root [] q obj <;> rfl)

end ChibiVerif.InitSpec
