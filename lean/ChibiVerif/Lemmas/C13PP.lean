/-
C13 — preprocessor components: which outcomes the models of `read_macro_args`, of the conditional-inclusion machine, of the
`#if` arithmetic and of the include machine can produce.  Core Lean only (imports the owners' models and lemmas read-only).
-/
import ChibiVerif.Lemmas.PPArgs
import ChibiVerif.Model.PPExpr
import ChibiVerif.Model.IncludeSearch

namespace ChibiVerif.C13PP

/-! ## read_macro_args -/
section Args
open ChibiVerif.PP

theorem skip_error {ts : List Tok} {s : String} {e : Err} (h : skip ts s = .error e) : e = .expected s := by
  unfold skip at h
  split at h
  · split at h
    · cases h
    · simp only [Except.error.injEq] at h; exact h.symm
  · simp only [Except.error.injEq] at h; exact h.symm

/-- the diagnostics of the argument reader: "premature end of input", `skip(tok, ",")`, `skip(tok, ")")` -/
def ArgDiag (e : Err) : Prop := e = .prematureEnd ∨ e = .expected "," ∨ e = .expected ")"

theorem readNamedArgs_error : ∀ (ps : List String) (first : Bool) (ts : List Tok) (e : Err),
    readNamedArgs ps first ts = .error e → ArgDiag e
  | [], first, ts, e, h => by simp [readNamedArgs] at h
  | p :: ps, first, ts, e, h => by
    simp only [readNamedArgs] at h
    cases hs : (if first = true then (Except.ok ts : Except Err (List Tok)) else skip ts ",") with
    | error e' =>
      rw [hs] at h
      simp only [Except.error.injEq] at h
      subst h
      cases first with
      | true => simp at hs
      | false =>
        simp only [Bool.false_eq_true, if_false] at hs
        exact Or.inr (Or.inl (skip_error hs))
    | ok ts1 =>
      rw [hs] at h
      simp only at h
      cases ha : readMacroArgOne false 0 ts1 with
      | error e' =>
        rw [ha] at h
        simp only [Except.error.injEq] at h
        subst h
        exact Or.inl (argOne_error false ts1 0 e' ha)
      | ok ar =>
        obtain ⟨a, r⟩ := ar
        rw [ha] at h
        simp only at h
        cases hr : readNamedArgs ps false r with
        | error e' =>
          rw [hr] at h
          simp only [Except.map, Except.error.injEq] at h
          subst h
          exact readNamedArgs_error ps false r e' hr
        | ok v => rw [hr] at h; simp [Except.map] at h

theorem fin_error (args : List MacroArg) (r : List Tok) (e : Err)
    (h : (match r with
          | t :: r' => if t.text == ")" then (Except.ok (args, t, r') : Except Err (List MacroArg × Tok × List Tok))
                       else .error (.expected ")")
          | [] => .error (.expected ")")) = .error e) : e = .expected ")" := by
  split at h
  · split at h
    · cases h
    · simp only [Except.error.injEq] at h; exact h.symm
  · simp only [Except.error.injEq] at h; exact h.symm

theorem readMacroArgs_error (ps : List String) (va : Option String) (ts : List Tok) (e : Err)
    (h : readMacroArgs ps va ts = .error e) : ArgDiag e := by
  unfold readMacroArgs at h
  cases hn : readNamedArgs ps true ts with
  | error e' =>
    rw [hn] at h
    simp only [Except.error.injEq] at h
    subst h
    exact readNamedArgs_error ps true ts e' hn
  | ok v =>
    obtain ⟨args, r⟩ := v
    rw [hn] at h
    simp only at h
    cases va with
    | none => exact Or.inr (Or.inr (fin_error _ _ _ h))
    | some vn =>
      simp only at h
      split at h
      · exact Or.inr (Or.inr (fin_error _ _ _ h))
      · cases hs : (if ps.isEmpty = true then (Except.ok r : Except Err (List Tok)) else skip r ",") with
        | error e' =>
          rw [hs] at h
          simp only [Except.error.injEq] at h
          subst h
          by_cases hp : ps.isEmpty = true
          · simp [hp] at hs
          · simp only [hp, if_false] at hs
            exact Or.inr (Or.inl (skip_error hs))
        | ok r1 =>
          rw [hs] at h
          simp only at h
          cases ha : readMacroArgOne true 0 r1 with
          | error e' =>
            rw [ha] at h
            simp only [Except.error.injEq] at h
            subst h
            exact Or.inl (argOne_error true r1 0 e' ha)
          | ok ar =>
            obtain ⟨a, r2⟩ := ar
            rw [ha] at h
            exact Or.inr (Or.inr (fin_error _ _ _ h))

/-- the reader never runs with a non-empty argument on an exhausted input: end of input inside an argument is the
    diagnostic (in C: `tok->kind == TK_EOF` is tested before `tok->next` is followed) -/
theorem readMacroArgOne_eof (rr : Bool) (lvl : Nat) : readMacroArgOne rr lvl [] = .error .prematureEnd := rfl

end Args

/-! ## the conditional-inclusion machine -/
section Cond
open ChibiVerif.CondIncl
variable {ε β : Type}

/-- diagnostics that the directive arms of the machine raise themselves -/
def CondDiag (d : Diag) : Prop :=
  d = .strayElif ∨ d = .strayElse ∨ d = .strayEndif ∨ d = .unterminated ∨ d = .errorDirective ∨ d = .badDirective

theorem procLine_error (ev : ε → Defs β → Except Diag Bool) (l : Line ε β) (s : St β) (d : Diag)
    (h : procLine ev l s = .error d) : CondDiag d ∨ ∃ c defs, ev c defs = .error d := by
  unfold procLine at h
  cases l with
  | plain p =>
    simp only [bind, Except.bind] at h
    cases p <;> simp [procPlain, pure, Except.pure] at h
    · left; subst h; simp [CondDiag]
    · left; subst h; simp [CondDiag]
  | opens hd =>
    simp only [bind, Except.bind] at h
    cases hv : evalHead ev hd s.obs.defs with
    | ok v => rw [hv] at h; simp [pure, Except.pure] at h
    | error d' =>
      rw [hv] at h
      simp only [Except.error.injEq] at h
      subst h
      cases hd with
      | ifE c => right; exact ⟨c, s.obs.defs, hv⟩
      | ifdef n x => simp [evalHead] at hv
      | ifndef n x => simp [evalHead] at hv
      | noName => simp only [evalHead, Except.error.injEq] at hv; left; subst hv; simp [CondDiag]
  | part ph =>
    cases ph with
    | elif c =>
      simp only at h
      cases hst : s.stack with
      | nil => rw [hst] at h; simp only [Except.error.injEq] at h; left; subst h; simp [CondDiag]
      | cons f st =>
        rw [hst] at h
        simp only at h
        split at h
        · simp only [Except.error.injEq] at h; left; subst h; simp [CondDiag]
        · split at h
          · simp [pure, Except.pure] at h
          · simp only [bind, Except.bind] at h
            cases hv : ev c s.obs.defs with
            | ok v => rw [hv] at h; cases v <;> simp [pure, Except.pure] at h
            | error d' =>
              rw [hv] at h
              simp only [Except.error.injEq] at h
              subst h
              right; exact ⟨c, s.obs.defs, hv⟩
    | els x =>
      simp only at h
      cases hst : s.stack with
      | nil => rw [hst] at h; simp only [Except.error.injEq] at h; left; subst h; simp [CondDiag]
      | cons f st =>
        rw [hst] at h
        simp only at h
        split at h
        · simp only [Except.error.injEq] at h; left; subst h; simp [CondDiag]
        · simp [pure, Except.pure] at h
  | endif x =>
    simp only at h
    cases hst : s.stack with
    | nil => rw [hst] at h; simp only [Except.error.injEq] at h; left; subst h; simp [CondDiag]
    | cons f st => rw [hst] at h; simp [pure, Except.pure] at h

theorem stepLine_error (ev : ε → Defs β → Except Diag Bool) (l : Line ε β) (m : Mode) (s : St β) (d : Diag)
    (h : stepLine ev l m s = .error d) : CondDiag d ∨ ∃ c defs, ev c defs = .error d := by
  unfold stepLine at h
  cases m with
  | proc => exact procLine_error ev l s d h
  | skip k =>
    cases k with
    | zero =>
      cases l with
      | opens _ => simp at h
      | plain _ => simp at h
      | part _ => exact procLine_error ev _ s d h
      | endif _ => exact procLine_error ev _ s d h
    | succ k => cases l <;> simp at h

theorem run_error (ev : ε → Defs β → Except Diag Bool) : ∀ (ls : List (Line ε β)) (m : Mode) (s : St β) (d : Diag),
    run ev ls m s = .error d → CondDiag d ∨ ∃ c defs, ev c defs = .error d
  | [], m, s, d, h => by simp [run] at h
  | l :: ls, m, s, d, h => by
    simp only [run] at h
    cases hs : stepLine ev l m s with
    | error d' =>
      rw [hs] at h
      simp only [Except.error.injEq] at h
      subst h
      exact stepLine_error ev l m s d' hs
    | ok r =>
      obtain ⟨s', m'⟩ := r
      rw [hs] at h
      exact run_error ev ls m' s' d h

theorem condMachine_error (ev : ε → Defs β → Except Diag Bool) (ls : List (Line ε β)) (defs : Defs β) (d : Diag)
    (h : condMachine ev ls defs = .error d) : CondDiag d ∨ ∃ c defs, ev c defs = .error d := by
  unfold condMachine finish at h
  cases hr : run ev ls .proc ⟨⟨defs, []⟩, []⟩ with
  | error d' =>
    rw [hr] at h
    simp only [Except.error.injEq] at h
    subst h
    exact run_error ev ls _ _ d' hr
  | ok r =>
    obtain ⟨s, m⟩ := r
    rw [hr] at h
    simp only at h
    split at h
    · cases h
    · simp only [Except.error.injEq] at h; left; subst h; simp [CondDiag]

end Cond

/-! ## `#if` arithmetic -/
section Expr
open ChibiVerif.PPExpr ChibiVerif.CondIncl

theorem arith_div_zero (strict : Bool) (a b : Val) (h : b.bits = 0#64) :
    arith strict .div a b = .error .divZero ∧ arith strict .mod a b = .error .divZero := by
  simp [arith, h]

/-- the shift count is outside [0, 64) -/
def badShift (op : BinOp) (b : Val) : Bool := (op == .shl || op == .shr) && (b.int < 0 || b.int ≥ 64)

theorem exists_ok_iff {r : Except PPErr Val} : (∃ v, r = .ok v) ↔ r.toBool = true := by
  cases r <;> simp [Except.toBool]

/-- chibicc's host arithmetic (`strict = false`) answers every operator other than `&&`/`||` with a value, except for a
    zero divisor (diagnostic) and a shift count outside [0, 64) (host-undefined; the campaign watches it as `ubsan_only`) -/
theorem arith_total (op : BinOp) (a b : Val) (hop : op ≠ .land ∧ op ≠ .lor) :
    (∃ v, arith false op a b = .ok v) ∨
    (arith false op a b = .error .divZero ∧ (op = .div ∨ op = .mod) ∧ b.bits = 0#64) ∨
    (arith false op a b = .error .undefinedBeh ∧ badShift op b = true) := by
  rw [exists_ok_iff]
  cases op with
  | land => exact absurd rfl hop.1
  | lor => exact absurd rfl hop.2
  | div =>
    by_cases hb : b.bits = 0#64
    · right; left; exact ⟨(arith_div_zero false a b hb).1, Or.inl rfl, hb⟩
    · left
      by_cases hu : (a.uns || b.uns) = true
      · simp [arith, hb, hu, Except.toBool]
      · simp [arith, hb, hu, Except.toBool]
  | mod =>
    by_cases hb : b.bits = 0#64
    · right; left; exact ⟨(arith_div_zero false a b hb).2, Or.inr rfl, hb⟩
    · left
      by_cases hu : (a.uns || b.uns) = true
      · simp [arith, hb, hu, Except.toBool]
      · simp [arith, hb, hu, Except.toBool]
  | shl =>
    by_cases hn : (b.int < 0 || b.int ≥ 64) = true
    · right; right; exact ⟨by simp only [arith, hn, if_true], by simp [badShift, hn]⟩
    · left
      by_cases hu : a.uns = true
      · simp only [arith, hn, hu, if_true]; simp [Except.toBool]
      · simp only [arith, hn, hu]; simp [Except.toBool]
  | shr =>
    by_cases hn : (b.int < 0 || b.int ≥ 64) = true
    · right; right; exact ⟨by simp only [arith, hn, if_true], by simp [badShift, hn]⟩
    · left
      by_cases hu : a.uns = true
      · simp only [arith, hn, hu, if_true]; simp [Except.toBool]
      · simp only [arith, hn, hu]; simp [Except.toBool]
  | mul => left; simp [arith, Except.toBool]
  | add => left; simp [arith, Except.toBool]
  | sub => left; simp [arith, Except.toBool]
  | lt => left; simp [arith, Except.toBool]
  | le => left; simp [arith, Except.toBool]
  | gt => left; simp [arith, Except.toBool]
  | ge => left; simp [arith, Except.toBool]
  | eq => left; simp [arith, Except.toBool]
  | ne => left; simp [arith, Except.toBool]
  | band => left; simp [arith, Except.toBool]
  | bxor => left; simp [arith, Except.toBool]
  | bor => left; simp [arith, Except.toBool]

/-- the evaluator the machine is run with maps every failure of a controlling expression to ONE diagnostic class -/
theorem evC_error (e : Expr) (defs : Defs Body) (d : Diag) (h : evC e defs = .error d) : d = .badExpr := by
  unfold evC toDiag at h
  split at h
  · cases h
  · simp only [Except.error.injEq] at h; exact h.symm

end Expr

/-! ## the include machine -/
section Incl
open ChibiVerif.CondIncl ChibiVerif.IncludeSearch
variable {ε β : Type}

/-- the line neither opens a file nor is `#pragma once` -/
def ILine.isPlain : ILine ε β → Bool
  | .c _ => true
  | _ => false

theorem stepInc_plain (ev : ε → Defs β → Except Diag Bool) (fs : FS ε β) (paths : List String) (g : Bool) (file : String)
    (l : Line ε β) (m : Mode) (s : IState β) :
    stepInc ev fs paths g file (.c l) m s =
      match stepLine ev l m s.st with
      | .error e => .error e
      | .ok (st', m') => .ok ([], { s with st := st' }, m') := by
  cases m <;> rfl

/-- without `#include` lines the step budget `length` is enough: the include machine is the conditional machine -/
theorem runInc_plain_no_fuel (ev : ε → Defs β → Except Diag Bool) (fs : FS ε β) (paths : List String) (g : Bool) :
    ∀ (fuel : Nat) (ls : List (String × ILine ε β)) (m : Mode) (s : IState β),
      (∀ x ∈ ls, ILine.isPlain x.2 = true) → ls.length ≤ fuel →
      runInc ev fs paths g fuel ls m s ≠ .error .outOfFuel ∨ ∃ c defs, ev c defs = .error .outOfFuel
  | _, [], m, s, _, _ => by left; simp [runInc]
  | 0, x :: ls, m, s, _, hl => by simp at hl
  | fuel + 1, (file, l) :: ls, m, s, hp, hl => by
    have h1 := hp (file, l) (List.mem_cons_self ..)
    cases l with
    | c l =>
      simp only [runInc, stepInc_plain]
      cases hs : stepLine ev l m s.st with
      | error e =>
        simp only
        by_cases he : e = .outOfFuel
        · subst he
          rcases stepLine_error ev l m s.st _ hs with hc | hc
          · rcases hc with h | h | h | h | h | h <;> cases h
          · right; exact hc
        · left; intro hh; simp only [Except.error.injEq] at hh; exact he hh
      | ok r =>
        obtain ⟨st', m'⟩ := r
        simp only [List.nil_append]
        exact runInc_plain_no_fuel ev fs paths g fuel ls m' _ (fun x hx => hp x (List.mem_cons_of_mem _ hx))
          (by simp at hl; omega)
    | incl _ _ => cases h1
    | includeNext _ => cases h1
    | pragmaOnce => cases h1

/-- the file system in which every path names the one-line file `#include "f"` -/
def selfFS : FS ε β := fun _ => some [.incl true "f"]

theorem selfFS_step (ev : ε → Defs β → Except Diag Bool) (paths : List String) (file : String) (s : IState β)
    (ho : s.once = []) (hg : s.guards = []) :
    ∃ path s', stepInc ev (selfFS : FS ε β) paths true file (.incl true "f") .proc s =
      .ok ([(path, .incl true "f")], s', .proc) ∧ s'.once = [] ∧ s'.guards = [] := by
  refine ⟨(resolveInclude (selfFS : FS ε β).has paths s.cache file true "f").1,
    { s with cache := (resolveInclude (selfFS : FS ε β).has paths s.cache file true "f").2 }, ?_, ho, hg⟩
  simp only [stepInc, includeFile, ho, hg, guardOf, List.find?_nil, Option.map_none, List.contains_nil,
    Bool.false_eq_true, if_false, Bool.and_false, FS.get, selfFS, List.map_cons, List.map_nil, detectGuard, ILine.toLine]

/-- **include cycle**: a file that includes itself exhausts every step budget (cc1: recursion until the stack or the
    memory is exhausted — known finding C13-recursive-include) -/
theorem selfInclude_outOfFuel (ev : ε → Defs β → Except Diag Bool) (paths : List String) :
    ∀ (fuel : Nat) (file : String) (s : IState β), s.once = [] → s.guards = [] →
      runInc ev (selfFS : FS ε β) paths true fuel [(file, .incl true "f")] .proc s = .error .outOfFuel
  | 0, _, _, _, _ => rfl
  | fuel + 1, file, s, ho, hg => by
    obtain ⟨path, s', hs, ho', hg'⟩ := selfFS_step ev paths file s ho hg
    simp only [runInc, hs, List.append_nil]
    exact selfInclude_outOfFuel ev paths fuel path s' ho' hg'

end Incl

end ChibiVerif.C13PP
