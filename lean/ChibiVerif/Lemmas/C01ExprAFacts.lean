/-
C01: facts about `compileA` (Model/C01ExprA.lean) — the counterpart of `compileJ_facts`: counters, type, freshness of the labels.
The address code of the objects is straight-line, so the labels are those of `compileJ`.
-/
import ChibiVerif.Lemmas.C01LvalueRoot
import ChibiVerif.Model.C01ExprA

namespace ChibiVerif.C01
open ChibiVerif.X86 ChibiVerif.Asm ChibiVerif.Spec.IntSpec ChibiVerif.Gen.CommonType ChibiVerif.C01Codegen ChibiVerif.X86J

theorem defs_postCodeA (A : Acc) (ti : ITy) (i : Nat) (tmp addend : Int) : defs (postCodeA A ti i tmp addend) = [] := by
  simp [postCodeA, defs_append, defs_J, defs_cons_ins, defs_opAssignCodeL]

theorem compileA_facts (tys : List ITy) (toff : Nat → Int) (A : Acc) (e : E) : ∀ (k0 c0 : Nat) (t : ITy) (code : List JI) (k1 c1 : Nat),
    compileA tys toff A k0 c0 e = some (t, code, k1, c1) → CJ tys k0 c0 e t code k1 c1 := by
  induction e with
  | lit t0 v0 =>
    intro k0 c0 t code k1 c1 h
    simp only [compileA, Option.some.injEq, Prod.mk.injEq] at h
    obtain ⟨rfl, rfl, rfl, rfl⟩ := h
    exact CJ.of_J rfl (Nat.le_refl _) (fun σ _ => rfl)
  | var i =>
    intro k0 c0 t code k1 c1 h
    simp only [compileA, Option.map_eq_some_iff, Prod.mk.injEq] at h
    obtain ⟨t0, h0, rfl, rfl, rfl, rfl⟩ := h
    exact CJ.of_J rfl (Nat.le_refl _) (fun σ hσ => by simp [typeOf, Env.ty?, hσ, h0])
  | cast t0 e ih =>
    intro k0 c0 t code k1 c1 h
    simp only [compileA, Option.map_eq_some_iff, Prod.mk.injEq] at h
    obtain ⟨⟨te, cd, k, c⟩, h0, rfl, rfl, rfl, rfl⟩ := h
    have f := ih k0 c0 te cd k c h0
    exact ⟨f.k, by simpa [nlbl] using f.c, fun σ _ => by simp [typeOf], by simpa [defs_append, defs_J] using f.rng,
      by simpa [defs_append, defs_J] using f.nodup⟩
  | un op e ih =>
    intro k0 c0 t code k1 c1 h
    simp only [compileA, Option.map_eq_some_iff] at h
    obtain ⟨⟨te, cd, k, c⟩, h0, h1⟩ := h
    have f := ih k0 c0 te cd k c h0
    cases op <;> simp only [Prod.mk.injEq] at h1 <;> obtain ⟨rfl, rfl, rfl, rfl⟩ := h1 <;>
      exact ⟨f.k, by simpa [nlbl] using f.c, fun σ hσ => by simp [typeOf, f.ty σ hσ, unopType],
        by simpa [defs_append, defs_J] using f.rng, by simpa [defs_append, defs_J] using f.nodup⟩
  | bin op a b iha ihb =>
    intro k0 c0 t code k1 c1 h
    simp only [compileA] at h
    cases ha : compileA tys toff A k0 (if (nodeOf op).2 = true then c0 else c0 + nlbl b) a with
    | none => simp [ha] at h
    | some pa =>
      obtain ⟨ta, ca, ka, c1a⟩ := pa
      simp only [ha] at h
      cases hb : compileA tys toff A ka (if (nodeOf op).2 = true then c0 + nlbl a else c0) b with
      | none => simp [hb] at h
      | some pb =>
        obtain ⟨tb, cb, kb, c1b⟩ := pb
        simp only [hb, Option.some.injEq, Prod.mk.injEq] at h
        obtain ⟨rfl, rfl, rfl, rfl⟩ := h
        have fa := iha k0 _ ta ca ka c1a ha
        have fb := ihb ka _ tb cb kb c1b hb
        refine ⟨by have := fa.k; have := fb.k; omega, by simp [nlbl], fun σ hσ => by simp [typeOf, fa.ty σ hσ, fb.ty σ hσ], ?_, ?_⟩
        all_goals
          by_cases hs : (nodeOf op).2 = true
          · -- `a > b` is `b < a`: `a` is the right-hand node, generated first
            have ea := fa.c; have eb := fb.c
            simp only [hs, if_true] at ea eb fa fb ⊢
            have ra : InR c0 (c0 + nlbl a) (defs ca) := by have := fa.rng; rwa [ea] at this
            have rb : InR (c0 + nlbl a) (c0 + (nlbl a + nlbl b)) (defs cb) := by
              have := fb.rng; rw [eb] at this; rwa [Nat.add_assoc] at this
            first
            | (by_cases hsh : op.isShift = true <;>
                simp only [hsh, if_true, Bool.false_eq_true, if_false, defs_append, defs_J, defs_cons_ins, List.append_nil] <;>
                exact (ra.mono (Nat.le_refl _) (by omega)).append (rb.mono (by omega) (Nat.le_refl _)))
            | (by_cases hsh : op.isShift = true <;>
                simp only [hsh, if_true, Bool.false_eq_true, if_false, defs_append, defs_J, defs_cons_ins, List.append_nil] <;>
                exact nodup_append_InR fa.nodup fb.nodup ra rb)
          · have hs' : (nodeOf op).2 = false := by simpa using hs
            have ea := fa.c; have eb := fb.c
            simp only [hs', Bool.false_eq_true, if_false] at ea eb fa fb ⊢
            have rb : InR c0 (c0 + nlbl b) (defs cb) := by have := fb.rng; rwa [eb] at this
            have ra : InR (c0 + nlbl b) (c0 + (nlbl a + nlbl b)) (defs ca) := by
              have := fa.rng; rw [ea] at this
              exact this.mono (Nat.le_refl _) (by omega)
            first
            | (by_cases hsh : op.isShift = true <;>
                simp only [hsh, if_true, Bool.false_eq_true, if_false, defs_append, defs_J, defs_cons_ins, List.append_nil] <;>
                exact (rb.mono (Nat.le_refl _) (by omega)).append (ra.mono (by omega) (Nat.le_refl _)))
            | (by_cases hsh : op.isShift = true <;>
                simp only [hsh, if_true, Bool.false_eq_true, if_false, defs_append, defs_J, defs_cons_ins, List.append_nil] <;>
                exact nodup_append_InR fb.nodup fa.nodup rb ra)
  | comma a b iha ihb =>
    intro k0 c0 t code k1 c1 h
    simp only [compileA] at h
    cases ha : compileA tys toff A k0 c0 a with
    | none => simp [ha] at h
    | some pa =>
      obtain ⟨ta, ca, ka, c1a⟩ := pa
      simp only [ha, Option.map_eq_some_iff, Prod.mk.injEq] at h
      obtain ⟨⟨tb, cb, kb, c1b⟩, hb, h1, h2, h3, h4⟩ := h
      simp only at h1 h2 h3 h4
      subst h1 h2 h3 h4
      have fa := iha k0 c0 ta ca ka c1a ha
      have fb := ihb ka c1a tb cb kb c1b hb
      have ea := fa.c; have eb := fb.c
      refine ⟨by have := fa.k; have := fb.k; omega, by simp only [nlbl]; omega, fun σ hσ => by simp [typeOf, fb.ty σ hσ], ?_, ?_⟩
      · rw [defs_append]; exact (fa.rng.mono (Nat.le_refl _) (by omega)).append (fb.rng.mono (by omega) (Nat.le_refl _))
      · rw [defs_append]; exact nodup_append_InR fa.nodup fb.nodup fa.rng fb.rng
  | assign i e ih =>
    intro k0 c0 t code k1 c1 h
    simp only [compileA] at h
    cases hti : tys[i]? with
    | none => simp [hti] at h
    | some ti =>
      cases he : compileA tys toff A k0 c0 e with
      | none => simp [hti, he] at h
      | some pe =>
        obtain ⟨te, cd, k, c⟩ := pe
        simp only [hti, he, Option.some.injEq, Prod.mk.injEq] at h
        obtain ⟨rfl, rfl, rfl, rfl⟩ := h
        have f := ih k0 c0 te cd k c he
        exact ⟨f.k, by simpa [nlbl] using f.c, fun σ hσ => by simp [typeOf, Env.ty?, hσ, hti],
          by simpa [defs_append, defs_J, defs_cons_ins] using f.rng, by simpa [defs_append, defs_J, defs_cons_ins] using f.nodup⟩
  | opassign op i e ih =>
    intro k0 c0 t code k1 c1 h
    simp only [compileA] at h
    cases hti : tys[i]? with
    | none => simp [hti] at h
    | some ti =>
      cases he : compileA tys toff A k0 c0 e with
      | none => simp [hti, he] at h
      | some pe =>
        obtain ⟨te, cd, k, c⟩ := pe
        simp only [hti, he] at h
        split at h
        · simp only [Option.some.injEq, Prod.mk.injEq] at h
          obtain ⟨rfl, rfl, rfl, rfl⟩ := h
          have f := ih k0 c0 te cd k c he
          exact ⟨by have := f.k; omega, by simpa [nlbl] using f.c, fun σ hσ => by simp [typeOf, Env.ty?, hσ, hti],
            by rw [defs_opAssignCodeL, defs_J]; exact f.rng, by rw [defs_opAssignCodeL, defs_J]; exact f.nodup⟩
        · simp at h
  | preinc i =>
    intro k0 c0 t code k1 c1 h
    simp only [compileA, Option.map_eq_some_iff, Prod.mk.injEq] at h
    obtain ⟨ti, hti, rfl, rfl, rfl, rfl⟩ := h
    exact ⟨by omega, rfl, fun σ hσ => by simp [typeOf, Env.ty?, hσ, hti],
      by rw [defs_opAssignCodeL, defs_J, defs_J]; exact InR.nil _ _, by rw [defs_opAssignCodeL, defs_J, defs_J]; exact List.nodup_nil⟩
  | predec i =>
    intro k0 c0 t code k1 c1 h
    simp only [compileA, Option.map_eq_some_iff, Prod.mk.injEq] at h
    obtain ⟨ti, hti, rfl, rfl, rfl, rfl⟩ := h
    exact ⟨by omega, rfl, fun σ hσ => by simp [typeOf, Env.ty?, hσ, hti],
      by rw [defs_opAssignCodeL, defs_J, defs_J]; exact InR.nil _ _, by rw [defs_opAssignCodeL, defs_J, defs_J]; exact List.nodup_nil⟩
  | postinc i =>
    intro k0 c0 t code k1 c1 h
    simp only [compileA] at h
    cases hti : tys[i]? with
    | none => simp [hti] at h
    | some ti =>
      simp only [hti] at h
      split at h
      · simp at h
      · simp only [Option.some.injEq, Prod.mk.injEq] at h
        obtain ⟨rfl, rfl, rfl, rfl⟩ := h
        exact ⟨by omega, rfl, fun σ hσ => by simp [typeOf, Env.ty?, hσ, hti],
          by rw [defs_postCodeA]; exact InR.nil _ _, by rw [defs_postCodeA]; exact List.nodup_nil⟩
  | postdec i =>
    intro k0 c0 t code k1 c1 h
    simp only [compileA] at h
    cases hti : tys[i]? with
    | none => simp [hti] at h
    | some ti =>
      simp only [hti] at h
      split at h
      · simp at h
      · simp only [Option.some.injEq, Prod.mk.injEq] at h
        obtain ⟨rfl, rfl, rfl, rfl⟩ := h
        exact ⟨by omega, rfl, fun σ hσ => by simp [typeOf, Env.ty?, hσ, hti],
          by rw [defs_postCodeA]; exact InR.nil _ _, by rw [defs_postCodeA]; exact List.nodup_nil⟩
  | land a b iha ihb =>
    intro k0 c0 t code k1 c1 h
    simp only [compileA] at h
    cases ha : compileA tys toff A k0 (c0 + 1) a with
    | none => simp [ha] at h
    | some pa =>
      obtain ⟨ta, ca, ka, c1a⟩ := pa
      simp only [ha, Option.map_eq_some_iff, Prod.mk.injEq] at h
      obtain ⟨⟨tb, cb, kb, c1b⟩, hb, h1, h2, h3, h4⟩ := h
      simp only at h1 h2 h3 h4
      subst h1 h2 h3 h4
      have fa := iha k0 _ ta ca ka c1a ha
      have fb := ihb ka c1a tb cb kb c1b hb
      have ea := fa.c; have eb := fb.c
      refine ⟨by have := fa.k; have := fb.k; omega, by simp only [nlbl]; omega, fun σ _ => by simp [typeOf], ?_, ?_⟩
      · rw [defs_landCode]
        refine (fa.rng.mono (by omega) (by omega)).append ((fb.rng.mono (by omega) (Nat.le_refl _)).append ?_)
        intro l hl
        simp only [List.mem_cons, List.not_mem_nil, or_false] at hl
        rcases hl with rfl | rfl <;> simp only <;> omega
      · rw [defs_landCode]
        exact nodup_land (by decide) (by omega) fa.nodup fb.nodup fa.rng fb.rng
  | lor a b iha ihb =>
    intro k0 c0 t code k1 c1 h
    simp only [compileA] at h
    cases ha : compileA tys toff A k0 (c0 + 1) a with
    | none => simp [ha] at h
    | some pa =>
      obtain ⟨ta, ca, ka, c1a⟩ := pa
      simp only [ha, Option.map_eq_some_iff, Prod.mk.injEq] at h
      obtain ⟨⟨tb, cb, kb, c1b⟩, hb, h1, h2, h3, h4⟩ := h
      simp only at h1 h2 h3 h4
      subst h1 h2 h3 h4
      have fa := iha k0 _ ta ca ka c1a ha
      have fb := ihb ka c1a tb cb kb c1b hb
      have ea := fa.c; have eb := fb.c
      refine ⟨by have := fa.k; have := fb.k; omega, by simp only [nlbl]; omega, fun σ _ => by simp [typeOf], ?_, ?_⟩
      · rw [defs_lorCode]
        refine (fa.rng.mono (by omega) (by omega)).append ((fb.rng.mono (by omega) (Nat.le_refl _)).append ?_)
        intro l hl
        simp only [List.mem_cons, List.not_mem_nil, or_false] at hl
        rcases hl with rfl | rfl <;> simp only <;> omega
      · rw [defs_lorCode]
        exact nodup_land (by decide) (by omega) fa.nodup fb.nodup fa.rng fb.rng
  | cond cnd a b ihc iha ihb =>
    intro k0 c0 t code k1 c1 h
    simp only [compileA] at h
    cases hc : compileA tys toff A k0 (c0 + 1) cnd with
    | none => simp [hc] at h
    | some pc =>
      obtain ⟨tc, cc, kc, c1c⟩ := pc
      simp only [hc] at h
      cases ha : compileA tys toff A kc c1c a with
      | none => simp [ha] at h
      | some pa =>
        obtain ⟨ta, ca, ka, c1a⟩ := pa
        simp only [ha, Option.map_eq_some_iff, Prod.mk.injEq] at h
        obtain ⟨⟨tb, cb, kb, c1b⟩, hb, h1, h2, h3, h4⟩ := h
        simp only at h1 h2 h3 h4
        subst h1 h2 h3 h4
        have fc := ihc k0 _ tc cc kc c1c hc
        have fa := iha kc c1c ta ca ka c1a ha
        have fb := ihb ka c1a tb cb kb c1b hb
        have ec := fc.c; have ea := fa.c; have eb := fb.c
        refine ⟨by have := fc.k; have := fa.k; have := fb.k; omega, by simp only [nlbl]; omega,
          fun σ hσ => by simp [typeOf, fa.ty σ hσ, fb.ty σ hσ], ?_, ?_⟩
        · rw [defs_condCode]
          simp only [defs_append, defs_J, List.append_nil]
          refine (fc.rng.mono (by omega) (by omega)).append ((fa.rng.mono (by omega) (by omega)).append ?_)
          intro l hl
          simp only [List.mem_cons, List.mem_append, List.not_mem_nil, or_false] at hl
          rcases hl with rfl | hl | rfl
          · simp only; omega
          · have := fb.rng l hl; omega
          · simp only; omega
        · rw [defs_condCode]
          simp only [defs_append, defs_J, List.append_nil]
          exact nodup_cond (k1 := .else_) (k2 := .end_) (by decide) (by omega) (by omega) fc.nodup fa.nodup fb.nodup fc.rng fa.rng fb.rng


end ChibiVerif.C01
