/-
C01: expressions with side effects — facts about the specification `evalE` (Spec/IntSpec) needed by `C01_value_effects`.

* `evalE_frm` : an evaluation changes at most the variables in `wr e` (and never the types or the number of variables);
* `evalE_agree` : an evaluation depends only on the variables in `rd e`.
Together they let the induction swap the evaluation order of the two operands of a binary operator (chibicc evaluates the
right operand first; `evalE` the left one) under the C11 side condition `noConflict`.
-/
import ChibiVerif.Lemmas.C01Value

namespace ChibiVerif.C01
open ChibiVerif.X86 ChibiVerif.Asm ChibiVerif.Spec.IntSpec ChibiVerif.Gen.CommonType ChibiVerif.C01Codegen

/-- forms `evalE` handles without a jump in the compiled code (everything except `&&`, `||`, `?:`) -/
def straight : E → Bool
  | .lit _ _ | .var _ | .preinc _ | .predec _ | .postinc _ | .postdec _ => true
  | .un _ e | .cast _ e | .assign _ e | .opassign _ _ e => straight e
  | .bin _ a b | .comma a b => straight a && straight b
  | .land _ _ | .lor _ _ | .cond _ _ _ => false

theorem typeOf_congr (σ1 σ2 : Env) (h : σ1.tys = σ2.tys) (e : E) : typeOf σ1 e = typeOf σ2 e := by
  induction e with
  | lit t v => rfl
  | var i => simp [typeOf, Env.ty?, h]
  | un op e ih => simp [typeOf, ih]
  | bin op a b iha ihb => simp [typeOf, iha, ihb]
  | land a b => rfl
  | lor a b => rfl
  | cond c a b _ iha ihb => simp [typeOf, iha, ihb]
  | comma a b _ ihb => simp [typeOf, ihb]
  | cast t e => rfl
  | assign i e => simp [typeOf, Env.ty?, h]
  | opassign op i e => simp [typeOf, Env.ty?, h]
  | preinc i => simp [typeOf, Env.ty?, h]
  | predec i => simp [typeOf, Env.ty?, h]
  | postinc i => simp [typeOf, Env.ty?, h]
  | postdec i => simp [typeOf, Env.ty?, h]

/-- what an evaluation leaves alone -/
structure Frm (W : List Nat) (σ σ' : Env) : Prop where
  tys : σ'.tys = σ.tys
  len : σ'.vals.length = σ.vals.length
  same : ∀ i, i ∉ W → σ'.vals[i]? = σ.vals[i]?

theorem Frm.refl (W : List Nat) (σ : Env) : Frm W σ σ := ⟨rfl, rfl, fun _ _ => rfl⟩
theorem Frm.trans {W1 W2 : List Nat} {a b c : Env} (h1 : Frm W1 a b) (h2 : Frm W2 b c) : Frm (W1 ++ W2) a c :=
  ⟨h2.tys.trans h1.tys, h2.len.trans h1.len, fun i hi => by
    simp only [List.mem_append, not_or] at hi
    exact (h2.same i hi.2).trans (h1.same i hi.1)⟩
theorem Frm.set (σ : Env) (i : Nat) (v : Int) : Frm [i] σ (σ.set i v) :=
  ⟨rfl, by simp [Env.set], fun j hj => by
    simp only [List.mem_singleton] at hj
    simp [Env.set, List.getElem?_set_ne (Ne.symm hj)]⟩
theorem Frm.mono {W W' : List Nat} {a b : Env} (h : Frm W a b) (hs : ∀ i, i ∈ W → i ∈ W') : Frm W' a b :=
  ⟨h.tys, h.len, fun i hi => h.same i (fun hh => hi (hs i hh))⟩

theorem evalE_frm (e : E) : ∀ (σ : Env) (v : Int) (σ' : Env), straight e = true → evalE σ e = some (v, σ') → Frm (wr e) σ σ' := by
  induction e with
  | lit t v0 =>
    intro σ v σ' _ h
    simp only [evalE] at h
    split at h
    · simp only [Option.some.injEq, Prod.mk.injEq] at h; rw [← h.2]; exact Frm.refl _ _
    · simp at h
  | var i =>
    intro σ v σ' _ h
    simp only [evalE, Option.map_eq_some_iff, Prod.mk.injEq] at h
    obtain ⟨_, _, _, rfl⟩ := h
    exact Frm.refl _ _
  | un op e ih =>
    intro σ v σ' hs h
    simp only [evalE, Option.bind_eq_bind, Option.bind_eq_some_iff] at h
    obtain ⟨t, _, ⟨v1, σ1⟩, he, x, _, h⟩ := h
    simp only [Option.some.injEq, Prod.mk.injEq] at h
    rw [← h.2]; exact ih σ v1 σ1 hs he
  | cast t e ih =>
    intro σ v σ' hs h
    simp only [evalE, Option.bind_eq_bind, Option.bind_eq_some_iff] at h
    obtain ⟨⟨v1, σ1⟩, he, h⟩ := h
    simp only [Option.some.injEq, Prod.mk.injEq] at h
    rw [← h.2]; exact ih σ v1 σ1 hs he
  | bin op a b iha ihb =>
    intro σ v σ' hs h
    simp only [straight, Bool.and_eq_true] at hs
    simp only [evalE, Option.bind_eq_bind, Option.bind_eq_some_iff] at h
    obtain ⟨ta, _, tb, _, ⟨va, σ1⟩, hea, ⟨vb, σ2⟩, heb, x, _, h⟩ := h
    simp only [Option.some.injEq, Prod.mk.injEq] at h
    rw [← h.2]; exact (iha σ va σ1 hs.1 hea).trans (ihb σ1 vb σ2 hs.2 heb)
  | comma a b iha ihb =>
    intro σ v σ' hs h
    simp only [straight, Bool.and_eq_true] at hs
    simp only [evalE, Option.bind_eq_bind, Option.bind_eq_some_iff] at h
    obtain ⟨⟨va, σ1⟩, hea, h⟩ := h
    exact (iha σ va σ1 hs.1 hea).trans (ihb σ1 v σ' hs.2 h)
  | assign i e ih =>
    intro σ v σ' hs h
    simp only [evalE, Option.bind_eq_bind, Option.bind_eq_some_iff] at h
    obtain ⟨t, _, ⟨v1, σ1⟩, he, h⟩ := h
    simp only [Option.some.injEq, Prod.mk.injEq] at h
    rw [← h.2]
    exact ((ih σ v1 σ1 hs he).trans (Frm.set σ1 i _)).mono (fun j hj => by simp only [wr, List.mem_append, List.mem_cons, List.not_mem_nil, or_false] at hj ⊢; exact hj.symm)
  | opassign op i e ih =>
    intro σ v σ' hs h
    simp only [evalE, Option.bind_eq_bind, Option.bind_eq_some_iff] at h
    obtain ⟨tx, _, te, _, ⟨v1, σ1⟩, he, x, _, r, _, h⟩ := h
    simp only [Option.some.injEq, Prod.mk.injEq] at h
    rw [← h.2]
    exact ((ih σ v1 σ1 hs he).trans (Frm.set σ1 i _)).mono (fun j hj => by simp only [wr, List.mem_append, List.mem_cons, List.not_mem_nil, or_false] at hj ⊢; exact hj.symm)
  | preinc i =>
    intro σ v σ' _ h
    simp only [evalE, Option.bind_eq_bind, Option.bind_eq_some_iff] at h
    obtain ⟨tx, _, x, _, r, _, h⟩ := h
    simp only [Option.some.injEq, Prod.mk.injEq] at h
    rw [← h.2]; exact Frm.set σ i _
  | predec i =>
    intro σ v σ' _ h
    simp only [evalE, Option.bind_eq_bind, Option.bind_eq_some_iff] at h
    obtain ⟨tx, _, x, _, r, _, h⟩ := h
    simp only [Option.some.injEq, Prod.mk.injEq] at h
    rw [← h.2]; exact Frm.set σ i _
  | postinc i =>
    intro σ v σ' _ h
    simp only [evalE, Option.bind_eq_bind, Option.bind_eq_some_iff] at h
    obtain ⟨tx, _, x, _, r, _, h⟩ := h
    simp only [Option.some.injEq, Prod.mk.injEq] at h
    rw [← h.2]; exact Frm.set σ i _
  | postdec i =>
    intro σ v σ' _ h
    simp only [evalE, Option.bind_eq_bind, Option.bind_eq_some_iff] at h
    obtain ⟨tx, _, x, _, r, _, h⟩ := h
    simp only [Option.some.injEq, Prod.mk.injEq] at h
    rw [← h.2]; exact Frm.set σ i _
  | land a b => intro σ v σ' hs; simp [straight] at hs
  | lor a b => intro σ v σ' hs; simp [straight] at hs
  | cond c a b => intro σ v σ' hs; simp [straight] at hs

/-- two stores that agree on the variables an expression reads -/
structure Agr (R : List Nat) (σ1 σ2 : Env) : Prop where
  tys : σ1.tys = σ2.tys
  len : σ1.vals.length = σ2.vals.length
  on : ∀ i, i ∈ R → σ1.vals[i]? = σ2.vals[i]?

theorem Agr.mono {R R' : List Nat} {σ1 σ2 : Env} (h : Agr R σ1 σ2) (hs : ∀ i, i ∈ R' → i ∈ R) : Agr R' σ1 σ2 :=
  ⟨h.tys, h.len, fun i hi => h.on i (hs i hi)⟩

/-- after both stores went through an evaluation that modifies (at most) `W` and ends in agreement on `W` -/
theorem Agr.step {R Rb W : List Nat} {σ1 σ2 σ1a σ2a : Env} (hag : Agr R σ1 σ2) (f1 : Frm W σ1 σ1a) (f2 : Frm W σ2 σ2a)
    (hw : ∀ i, i ∈ W → σ1a.vals[i]? = σ2a.vals[i]?) (hsub : ∀ i, i ∈ Rb → i ∈ R) : Agr Rb σ1a σ2a := by
  refine ⟨f1.tys.trans (hag.tys.trans f2.tys.symm), f1.len.trans (hag.len.trans f2.len.symm), ?_⟩
  intro i hi
  by_cases h : i ∈ W
  · exact hw i h
  · rw [f1.same i h, f2.same i h]; exact hag.on i (hsub i hi)

theorem agree_comb {Wa Wb : List Nat} {σ1a σ2a σ1b σ2b : Env} (ha : ∀ i, i ∈ Wa → σ1a.vals[i]? = σ2a.vals[i]?)
    (f1 : Frm Wb σ1a σ1b) (f2 : Frm Wb σ2a σ2b) (hb : ∀ i, i ∈ Wb → σ1b.vals[i]? = σ2b.vals[i]?) :
    ∀ i, i ∈ Wa ++ Wb → σ1b.vals[i]? = σ2b.vals[i]? := by
  intro i hi
  by_cases h : i ∈ Wb
  · exact hb i h
  · rw [f1.same i h, f2.same i h]
    simp only [List.mem_append] at hi
    exact ha i (hi.resolve_right h)

theorem set_agree {W : List Nat} {σ1 σ2 : Env} (i : Nat) (v : Int) (hlen : σ1.vals.length = σ2.vals.length)
    (hw : ∀ j, j ∈ W → σ1.vals[j]? = σ2.vals[j]?) :
    ∀ j, j ∈ i :: W → (σ1.set i v).vals[j]? = (σ2.set i v).vals[j]? := by
  intro j hj
  simp only [Env.set, List.getElem?_set, hlen]
  by_cases h : i = j
  · simp [h]
  · simp only [h, if_false]
    simp only [List.mem_cons] at hj
    exact hw j (hj.resolve_left (fun hh => h hh.symm))

/-- **an evaluation depends only on the variables it reads**: from a store that agrees with `σ1` on `rd e`, `e` has the
    same value, and the resulting stores agree on `wr e` -/
theorem evalE_agree (e : E) : ∀ (σ1 σ2 : Env) (v : Int) (σ1' : Env), straight e = true → Agr (rd e) σ1 σ2 →
    evalE σ1 e = some (v, σ1') → ∃ σ2', evalE σ2 e = some (v, σ2') ∧ ∀ i, i ∈ wr e → σ1'.vals[i]? = σ2'.vals[i]? := by
  induction e with
  | lit t v0 =>
    intro σ1 σ2 v σ1' _ _ h
    simp only [evalE] at h ⊢
    split at h
    · rename_i hr
      simp only [Option.some.injEq, Prod.mk.injEq] at h
      exact ⟨σ2, by rw [← h.1]; simp [hr], fun i hi => by simp [wr] at hi⟩
    · simp at h
  | var i =>
    intro σ1 σ2 v σ1' _ hag h
    simp only [evalE, Env.val?, Option.map_eq_some_iff, Prod.mk.injEq] at h ⊢
    obtain ⟨v0, h0, rfl, rfl⟩ := h
    exact ⟨σ2, ⟨v0, by rw [← hag.on i (by simp [rd])]; exact h0, rfl, rfl⟩, fun i hi => by simp [wr] at hi⟩
  | un op e ih =>
    intro σ1 σ2 v σ1' hs hag h
    simp only [evalE, Option.bind_eq_bind, Option.bind_eq_some_iff] at h ⊢
    obtain ⟨t, ht, ⟨v1, σ1e⟩, he, x, hx, h⟩ := h
    simp only [Option.some.injEq, Prod.mk.injEq] at h
    obtain ⟨σ2e, he2, hw⟩ := ih σ1 σ2 v1 σ1e hs hag he
    refine ⟨σ2e, ⟨t, by rw [← typeOf_congr σ1 σ2 hag.tys]; exact ht, (v1, σ2e), he2, x, hx, by simp [h.1]⟩, ?_⟩
    rw [← h.2]; exact hw
  | cast t e ih =>
    intro σ1 σ2 v σ1' hs hag h
    simp only [evalE, Option.bind_eq_bind, Option.bind_eq_some_iff] at h ⊢
    obtain ⟨⟨v1, σ1e⟩, he, h⟩ := h
    simp only [Option.some.injEq, Prod.mk.injEq] at h
    obtain ⟨σ2e, he2, hw⟩ := ih σ1 σ2 v1 σ1e hs hag he
    refine ⟨σ2e, ⟨(v1, σ2e), he2, by simp [h.1]⟩, ?_⟩
    rw [← h.2]; exact hw
  | bin op a b iha ihb =>
    intro σ1 σ2 v σ1' hs hag h
    simp only [straight, Bool.and_eq_true] at hs
    simp only [evalE, Option.bind_eq_bind, Option.bind_eq_some_iff] at h ⊢
    obtain ⟨ta, hta, tb, htb, ⟨va, σ1a⟩, hea, ⟨vb, σ1b⟩, heb, x, hx, h⟩ := h
    simp only [Option.some.injEq, Prod.mk.injEq] at h heb hx
    obtain ⟨σ2a, hea2, hwa⟩ := iha σ1 σ2 va σ1a hs.1 (hag.mono (fun i hi => List.mem_append_left _ hi)) hea
    have f1a := evalE_frm a σ1 va σ1a hs.1 hea
    have f2a := evalE_frm a σ2 va σ2a hs.1 hea2
    have hagb : Agr (rd b) σ1a σ2a := hag.step f1a f2a hwa (fun i hi => List.mem_append_right _ hi)
    obtain ⟨σ2b, heb2, hwb⟩ := ihb σ1a σ2a vb σ1b hs.2 hagb heb
    have f1b := evalE_frm b σ1a vb σ1b hs.2 heb
    have f2b := evalE_frm b σ2a vb σ2b hs.2 heb2
    refine ⟨σ2b, ⟨ta, by rw [← typeOf_congr σ1 σ2 hag.tys]; exact hta, tb, by rw [← typeOf_congr σ1 σ2 hag.tys]; exact htb,
      (va, σ2a), hea2, (vb, σ2b), heb2, x, hx, by simp [h.1]⟩, ?_⟩
    rw [← h.2]; exact agree_comb hwa f1b f2b hwb
  | comma a b iha ihb =>
    intro σ1 σ2 v σ1' hs hag h
    simp only [straight, Bool.and_eq_true] at hs
    simp only [evalE, Option.bind_eq_bind, Option.bind_eq_some_iff] at h ⊢
    obtain ⟨⟨va, σ1a⟩, hea, heb⟩ := h
    simp only at heb
    obtain ⟨σ2a, hea2, hwa⟩ := iha σ1 σ2 va σ1a hs.1 (hag.mono (fun i hi => List.mem_append_left _ hi)) hea
    have f1a := evalE_frm a σ1 va σ1a hs.1 hea
    have f2a := evalE_frm a σ2 va σ2a hs.1 hea2
    have hagb : Agr (rd b) σ1a σ2a := hag.step f1a f2a hwa (fun i hi => List.mem_append_right _ hi)
    obtain ⟨σ2b, heb2, hwb⟩ := ihb σ1a σ2a v σ1' hs.2 hagb heb
    have f1b := evalE_frm b σ1a v σ1' hs.2 heb
    have f2b := evalE_frm b σ2a v σ2b hs.2 heb2
    exact ⟨σ2b, ⟨(va, σ2a), hea2, heb2⟩, agree_comb hwa f1b f2b hwb⟩
  | assign i e ih =>
    intro σ1 σ2 v σ1' hs hag h
    simp only [evalE, Option.bind_eq_bind, Option.bind_eq_some_iff] at h ⊢
    obtain ⟨t, ht, ⟨v1, σ1e⟩, he, h⟩ := h
    simp only [Option.some.injEq, Prod.mk.injEq] at h
    obtain ⟨σ2e, he2, hw⟩ := ih σ1 σ2 v1 σ1e hs hag he
    have f1 := evalE_frm e σ1 v1 σ1e hs he
    have f2 := evalE_frm e σ2 v1 σ2e hs he2
    refine ⟨σ2e.set i (convert t v1), ⟨t, by simpa [Env.ty?, ← hag.tys] using ht, (v1, σ2e), he2, by simp [h.1]⟩, ?_⟩
    rw [← h.2]
    exact set_agree i _ (f1.len.trans (hag.len.trans f2.len.symm)) hw
  | opassign op i e ih =>
    intro σ1 σ2 v σ1' hs hag h
    simp only [evalE, Option.bind_eq_bind, Option.bind_eq_some_iff] at h ⊢
    obtain ⟨tx, htx, te, hte, ⟨v1, σ1e⟩, he, x, hx, r, hr, h⟩ := h
    simp only [Option.some.injEq, Prod.mk.injEq] at h hx hr
    obtain ⟨σ2e, he2, hw⟩ := ih σ1 σ2 v1 σ1e hs (hag.mono (fun j hj => List.mem_cons_of_mem _ hj)) he
    have f1 := evalE_frm e σ1 v1 σ1e hs he
    have f2 := evalE_frm e σ2 v1 σ2e hs he2
    have hx2 : σ2e.val? i = some x := by
      have := (hag.step f1 f2 hw (Rb := [i]) (fun j hj => by simp only [List.mem_singleton] at hj; subst hj; exact List.mem_cons_self)).on i
        (List.mem_singleton.2 rfl)
      simp only [Env.val?] at hx ⊢
      rw [← this]; exact hx
    refine ⟨σ2e.set i r, ⟨tx, by simpa [Env.ty?, ← hag.tys] using htx, te, by rw [← typeOf_congr σ1 σ2 hag.tys]; exact hte,
      (v1, σ2e), he2, x, hx2, r, hr, by simp [h.1]⟩, ?_⟩
    rw [← h.2]
    exact set_agree i _ (f1.len.trans (hag.len.trans f2.len.symm)) hw
  | preinc i =>
    intro σ1 σ2 v σ1' _ hag h
    simp only [evalE, Option.bind_eq_bind, Option.bind_eq_some_iff] at h ⊢
    obtain ⟨tx, htx, x, hx, r, hr, h⟩ := h
    simp only [Option.some.injEq, Prod.mk.injEq] at h
    refine ⟨σ2.set i r, ⟨tx, by simpa [Env.ty?, ← hag.tys] using htx, x,
      by simp only [Env.val?] at hx ⊢; rw [← hag.on i (by simp [rd])]; exact hx, r, hr, by simp [h.1]⟩, ?_⟩
    rw [← h.2]
    exact set_agree (W := []) i _ hag.len (fun j hj => by simp at hj)
  | predec i =>
    intro σ1 σ2 v σ1' _ hag h
    simp only [evalE, Option.bind_eq_bind, Option.bind_eq_some_iff] at h ⊢
    obtain ⟨tx, htx, x, hx, r, hr, h⟩ := h
    simp only [Option.some.injEq, Prod.mk.injEq] at h
    refine ⟨σ2.set i r, ⟨tx, by simpa [Env.ty?, ← hag.tys] using htx, x,
      by simp only [Env.val?] at hx ⊢; rw [← hag.on i (by simp [rd])]; exact hx, r, hr, by simp [h.1]⟩, ?_⟩
    rw [← h.2]
    exact set_agree (W := []) i _ hag.len (fun j hj => by simp at hj)
  | postinc i =>
    intro σ1 σ2 v σ1' _ hag h
    simp only [evalE, Option.bind_eq_bind, Option.bind_eq_some_iff] at h ⊢
    obtain ⟨tx, htx, x, hx, r, hr, h⟩ := h
    simp only [Option.some.injEq, Prod.mk.injEq] at h
    refine ⟨σ2.set i r, ⟨tx, by simpa [Env.ty?, ← hag.tys] using htx, x,
      by simp only [Env.val?] at hx ⊢; rw [← hag.on i (by simp [rd])]; exact hx, r, hr, by simp [h.1]⟩, ?_⟩
    rw [← h.2]
    exact set_agree (W := []) i _ hag.len (fun j hj => by simp at hj)
  | postdec i =>
    intro σ1 σ2 v σ1' _ hag h
    simp only [evalE, Option.bind_eq_bind, Option.bind_eq_some_iff] at h ⊢
    obtain ⟨tx, htx, x, hx, r, hr, h⟩ := h
    simp only [Option.some.injEq, Prod.mk.injEq] at h
    refine ⟨σ2.set i r, ⟨tx, by simpa [Env.ty?, ← hag.tys] using htx, x,
      by simp only [Env.val?] at hx ⊢; rw [← hag.on i (by simp [rd])]; exact hx, r, hr, by simp [h.1]⟩, ?_⟩
    rw [← h.2]
    exact set_agree (W := []) i _ hag.len (fun j hj => by simp at hj)
  | land a b => intro σ1 σ2 v σ1' hs; simp [straight] at hs
  | lor a b => intro σ1 σ2 v σ1' hs; simp [straight] at hs
  | cond c a b => intro σ1 σ2 v σ1' hs; simp [straight] at hs

theorem env_ext {a b : Env} (ht : a.tys = b.tys) (hv : ∀ i : Nat, a.vals[i]? = b.vals[i]?) : a = b := by
  cases a; cases b
  simp only [Env.mk.injEq]
  exact ⟨ht, List.ext_getElem? hv⟩

theorem disjointL_spec {a b : List Nat} (h : disjointL a b = true) : ∀ i, i ∈ a → i ∉ b := by
  intro i hi
  simp only [disjointL, List.all_eq_true] at h
  have := h i hi
  simpa using this

/-- **unsequenced operands commute** (C11 6.5p2): if neither operand modifies what the other reads or modifies, evaluating
    the right operand first gives the same two values and the same final store -/
theorem swap_eval (a b : E) (hsa : straight a = true) (hsb : straight b = true) (σ σ1 σ2 : Env) (va vb : Int)
    (hd1 : disjointL (wr a) (rd b ++ wr b) = true) (hd2 : disjointL (wr b) (rd a ++ wr a) = true)
    (hea : evalE σ a = some (va, σ1)) (heb : evalE σ1 b = some (vb, σ2)) :
    ∃ σb, evalE σ b = some (vb, σb) ∧ evalE σb a = some (va, σ2) := by
  have d1 := disjointL_spec hd1
  have d2 := disjointL_spec hd2
  have fa := evalE_frm a σ va σ1 hsa hea
  have fb := evalE_frm b σ1 vb σ2 hsb heb
  -- b from σ instead of σ1
  have ag1 : Agr (rd b) σ1 σ := ⟨fa.tys, fa.len, fun i hi => fa.same i (fun hw => d1 i hw (List.mem_append_left _ hi))⟩
  obtain ⟨σb, heb', hwb⟩ := evalE_agree b σ1 σ vb σ2 hsb ag1 heb
  have fb' := evalE_frm b σ vb σb hsb heb'
  -- a from σb instead of σ
  have ag2 : Agr (rd a) σ σb := ⟨fb'.tys.symm, fb'.len.symm, fun i hi => (fb'.same i (fun hw => d2 i hw (List.mem_append_left _ hi))).symm⟩
  obtain ⟨σab, hea', hwa⟩ := evalE_agree a σ σb va σ1 hsa ag2 hea
  have fa' := evalE_frm a σb va σab hsa hea'
  refine ⟨σb, heb', ?_⟩
  have : σab = σ2 := by
    apply env_ext
    · rw [fa'.tys, fb'.tys, fb.tys, fa.tys]
    · intro i
      by_cases hia : i ∈ wr a
      · have hib : i ∉ wr b := fun hw => d1 i hia (List.mem_append_right _ hw)
        rw [← hwa i hia, fb.same i hib]
      · rw [fa'.same i hia]
        by_cases hib : i ∈ wr b
        · exact (hwb i hib).symm
        · rw [fb'.same i hib, fb.same i hib, fa.same i hia]
  rw [← this]; exact hea'

end ChibiVerif.C01
