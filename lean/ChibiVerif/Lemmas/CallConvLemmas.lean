/-
Helper lemmas for Props/C06.lean: the three loops of the caller (classification, stack offsets, pop phase) and the two
loops of the callee (assign_lvar_offsets, prologue stores) all compute the single left-to-right pass `refLoop`.
-/
import ChibiVerif.Model.CallConv

namespace ChibiVerif.CallConv
open ChibiVerif.Gen.Templates (GP_MAX FP_MAX)

theorem GP_MAX_eq : GP_MAX = 6 := rfl
theorem FP_MAX_eq : FP_MAX = 8 := rfl

/-- register pieces of an aggregate of at most 16 bytes when `gp`, `fp` registers are taken -/
def regsOf (ty : ATy) (gp fp : Nat) : List Reg :=
  if ty.size = 0 then [] else          -- a GNU empty struct takes no register
  let r1 := if hasFlonum1 ty then Reg.sse fp else Reg.gp gp
  let gp1 := if hasFlonum1 ty then gp else gp + 1
  let fp1 := if hasFlonum1 ty then fp + 1 else fp
  if ty.size > 8 then [r1, if hasFlonum2 ty then Reg.sse fp1 else Reg.gp gp1] else [r1]

/-- what both sides of chibicc compute, as one pass.  State: (gp, fp, byte offset of the next stack argument);
    gp and fp keep counting after the registers are exhausted, as `gp++ >= GP_MAX` does. -/
def refStep (st : Nat × Nat × Nat) (ty : ATy) : (Nat × Nat × Nat) × ArgLoc :=
  let (gp, fp, off) := st
  match ty with
  | .agg .. =>
    if ty.size ≤ 16 ∧ (structInRegs ty gp fp).1 = true then
      ((gp + (structInRegs ty gp fp).2.1, fp + (structInRegs ty gp fp).2.2, off), .regs (regsOf ty gp fp))
    else ((gp, fp, off + 8 * pushSlots ty), .stack off)
  | .flt | .dbl => if fp < FP_MAX then ((gp, fp + 1, off), .regs [.sse fp]) else ((gp, fp + 1, off + 8), .stack off)
  | .ldbl => ((gp, fp, off + 16), .stack off)
  | _ => if gp < GP_MAX then ((gp + 1, fp, off), .regs [.gp gp]) else ((gp + 1, fp, off + 8), .stack off)

def refLoop : (Nat × Nat × Nat) → List ATy → (Nat × Nat × Nat) × List ArgLoc
  | st, [] => (st, [])
  | st, t :: ts =>
    let r := refStep st t
    let r' := refLoop r.1 ts
    (r'.1, r.2 :: r'.2)

/-- sizes for which neither side reaches an abort site and both sides use the same number of stack slots: in an aggregate
    of 1..16 bytes an eightbyte stored with `movss`/`movsd` has 4 or 8 bytes (an empty aggregate is fine: it takes nothing),
    an integer-class scalar has 1..8 bytes, and the type is not an array (arrays are never passed by value) -/
def aggSizeOk (ty : ATy) : Bool :=
  match ty with
  | .agg _ sz _ _ =>
    !(decide (sz ≤ 16)) || decide (sz = 0) || ((!(hasFlonum1 ty) || decide (sz = 4) || decide (8 ≤ sz))
      && (!(decide (sz > 8) && hasFlonum2 ty) || decide (sz = 12) || decide (sz = 16)))
  | .int sz _ _ => decide (1 ≤ sz) && decide (sz ≤ 8)    -- one 8-byte slot / one register
  | .arr .. => false                                     -- not an argument type
  | _ => true

def sizesOk (s : Sig) : Bool :=
  s.params.all aggSizeOk && (match s.ret with | some t => aggSizeOk t | none => true)

theorem structInRegs_min (ty : ATy) (gp fp : Nat) :
    (structInRegs ty (min gp GP_MAX) (min fp FP_MAX)).1 = (structInRegs ty gp fp).1 ∧
    (structInRegs ty (min gp GP_MAX) (min fp FP_MAX)).2 = (structInRegs ty gp fp).2 := by
  simp only [structInRegs, GP_MAX_eq, FP_MAX_eq, b2n]
  by_cases hz : ty.size = 0
  · simp [hz]
  · simp only [hz, if_false]
    constructor
    · cases hasFlonum1 ty <;> cases hasFlonum2 ty <;> by_cases h : ty.size > 8 <;> simp [h]
      all_goals (first | omega | (rw [Bool.eq_iff_iff]; simp only [Bool.and_eq_true, decide_eq_true_eq]; omega))
    · trivial

theorem aggSizeOk_agg {u : Bool} {sz al : Nat} {ms : Members} (h : aggSizeOk (.agg u sz al ms) = true) (h16 : sz ≤ 16)
    (hpos : 0 < sz) :
    0 < sz ∧ (hasFlonum1 (.agg u sz al ms) = true → sz = 4 ∨ 8 ≤ sz) ∧
    (sz > 8 → hasFlonum2 (.agg u sz al ms) = true → sz = 12 ∨ sz = 16) := by
  simp only [aggSizeOk] at h
  have hz : ¬ sz = 0 := by omega
  generalize hasFlonum1 (.agg u sz al ms) = f1 at *
  generalize hasFlonum2 (.agg u sz al ms) = f2 at *
  cases f1 <;> cases f2 <;> simp [h16, hz] at h ⊢ <;> omega

theorem alignTo8_div (s : Nat) : alignTo s 8 / 8 = (s + 7) / 8 := by
  unfold alignTo; omega

theorem caller_step (t : ATy) (cgp cfp stk off : Nat) (hok : aggSizeOk t = true) :
    (classifyStep (cgp, cfp, stk) t).1.1 = (refStep (cgp, cfp, off) t).1.1 ∧
    (classifyStep (cgp, cfp, stk) t).1.2.1 = (refStep (cgp, cfp, off) t).1.2.1 ∧
    (popStep (min cgp GP_MAX, min cfp FP_MAX) t).1
      = (min (refStep (cgp, cfp, off) t).1.1 GP_MAX, min (refStep (cgp, cfp, off) t).1.2.1 FP_MAX) ∧
    ((classifyStep (cgp, cfp, stk) t).2 = true →
       (popStep (min cgp GP_MAX, min cfp FP_MAX) t).2 = [] ∧ (refStep (cgp, cfp, off) t).2 = .stack off ∧
       (refStep (cgp, cfp, off) t).1.2.2 = off + 8 * pushSlots t ∧ (classifyStep (cgp, cfp, stk) t).1.2.2 = stk + pushSlots t) ∧
    ((classifyStep (cgp, cfp, stk) t).2 = false →
       (popStep (min cgp GP_MAX, min cfp FP_MAX) t).2.length = pushSlots t ∧
       (refStep (cgp, cfp, off) t).2 = .regs ((popStep (min cgp GP_MAX, min cfp FP_MAX) t).2.map Pop.reg) ∧
       (refStep (cgp, cfp, off) t).1.2.2 = off ∧ (classifyStep (cgp, cfp, stk) t).1.2.2 = stk) := by
  cases t with
  | int sz u b =>
    simp only [classifyStep, popStep, refStep, GP_MAX_eq, FP_MAX_eq, pushSlots]
    by_cases h : cgp < 6
    · have : ¬ (cgp ≥ 6) := by omega
      have h2 : min cgp 6 < 6 := by omega
      simp [h, this, h2, Pop.reg]; omega
    · have : cgp ≥ 6 := by omega
      have h2 : ¬ (min cgp 6 < 6) := by omega
      simp [h, this, h2]; omega
  | flt =>
    simp only [classifyStep, popStep, refStep, GP_MAX_eq, FP_MAX_eq, pushSlots]
    by_cases h : cfp < 8
    · have : ¬ (cfp ≥ 8) := by omega
      have h2 : min cfp 8 < 8 := by omega
      simp [h, this, h2, Pop.reg]; omega
    · have : cfp ≥ 8 := by omega
      have h2 : ¬ (min cfp 8 < 8) := by omega
      simp [h, this, h2]; omega
  | dbl =>
    simp only [classifyStep, popStep, refStep, GP_MAX_eq, FP_MAX_eq, pushSlots]
    by_cases h : cfp < 8
    · have : ¬ (cfp ≥ 8) := by omega
      have h2 : min cfp 8 < 8 := by omega
      simp [h, this, h2, Pop.reg]; omega
    · have : cfp ≥ 8 := by omega
      have h2 : ¬ (min cfp 8 < 8) := by omega
      simp [h, this, h2]; omega
  | ldbl => simp [classifyStep, popStep, refStep, pushSlots]
  | arr e n =>
    simp only [classifyStep, popStep, refStep, GP_MAX_eq, FP_MAX_eq, pushSlots]
    by_cases h : cgp < 6
    · have : ¬ (cgp ≥ 6) := by omega
      have h2 : min cgp 6 < 6 := by omega
      simp [h, this, h2, Pop.reg]; omega
    · have : cgp ≥ 6 := by omega
      have h2 : ¬ (min cgp 6 < 6) := by omega
      simp [h, this, h2]; omega
  | agg u sz al ms =>
    have hmin := structInRegs_min (.agg u sz al ms) cgp cfp
    by_cases hz : sz = 0
    · subst hz
      simp [classifyStep, popStep, refStep, pushSlots, ATy.size, structInRegs, regsOf, alignTo]
    have hpos : 0 < sz := by omega
    simp only [classifyStep, popStep, refStep, pushSlots, ATy.size, hmin.1]
    by_cases h16 : sz > 16
    · have : ¬ (sz ≤ 16) := by omega
      simp [h16, this]
    · have h16' : sz ≤ 16 := by omega
      simp only [h16, h16', hz, or_self, if_false, true_and]
      cases hok' : (structInRegs (.agg u sz al ms) cgp cfp).1
      · simp
      · simp only [structInRegs, ATy.size, b2n, GP_MAX_eq, FP_MAX_eq, hz, if_false] at hok' ⊢
        clear hok
        simp only [regsOf, ATy.size, alignTo, hz, if_false]
        generalize hasFlonum1 (.agg u sz al ms) = f1 at *
        generalize hasFlonum2 (.agg u sz al ms) = f2 at *
        cases f1 <;> cases f2 <;> by_cases h8 : sz > 8 <;> simp [h8, h16', Pop.reg] at hok' ⊢ <;> omega


theorem classifyLoop_cons (st : Nat × Nat × Nat) (t : ATy) (ts : List ATy) :
    classifyLoop st (t :: ts) =
      ((classifyLoop (classifyStep st t).1 ts).1, (classifyStep st t).2 :: (classifyLoop (classifyStep st t).1 ts).2) := rfl

theorem popLoop_cons (st : Nat × Nat) (t : ATy) (ts : List ATy) :
    popLoop st (t :: ts) = ((popLoop (popStep st t).1 ts).1, (popStep st t).2 :: (popLoop (popStep st t).1 ts).2) := rfl

theorem refLoop_cons (st : Nat × Nat × Nat) (t : ATy) (ts : List ATy) :
    refLoop st (t :: ts) = ((refLoop (refStep st t).1 ts).1, (refStep st t).2 :: (refLoop (refStep st t).1 ts).2) := rfl

theorem caller_loop (ts : List ATy) : ∀ (cgp cfp stk off : Nat), ts.all aggSizeOk = true →
    combineCaller ts (stackOffsets off ts (classifyLoop (cgp, cfp, stk) ts).2) (popLoop (min cgp GP_MAX, min cfp FP_MAX) ts).2
      = .ok (refLoop (cgp, cfp, off) ts).2 ∧
    (classifyLoop (cgp, cfp, stk) ts).1.2.2 = stk + firstPassSlots ts (classifyLoop (cgp, cfp, stk) ts).2 ∧
    secondPassSlots ts (classifyLoop (cgp, cfp, stk) ts).2 = popCount (popLoop (min cgp GP_MAX, min cfp FP_MAX) ts).2 ∧
    (popLoop (min cgp GP_MAX, min cfp FP_MAX) ts).1.2 = min (refLoop (cgp, cfp, off) ts).1.2.1 FP_MAX := by
  induction ts with
  | nil => intro cgp cfp stk off _; simp [combineCaller, classifyLoop, popLoop, refLoop, firstPassSlots, secondPassSlots, popCount]
  | cons t ts ih =>
    intro cgp cfp stk off hok
    simp only [List.all_cons, Bool.and_eq_true] at hok
    obtain ⟨h1, h2, h3, h4, h5⟩ := caller_step t cgp cfp stk off hok.1
    rw [classifyLoop_cons, popLoop_cons, refLoop_cons]
    -- name the successor states
    have hc : (classifyStep (cgp, cfp, stk) t).1 =
        ((refStep (cgp, cfp, off) t).1.1, (refStep (cgp, cfp, off) t).1.2.1, (classifyStep (cgp, cfp, stk) t).1.2.2) :=
      Prod.ext h1 (Prod.ext h2 rfl)
    rw [hc, h3]
    cases hf : (classifyStep (cgp, cfp, stk) t).2
    · obtain ⟨p1, p2, p3, p4⟩ := h5 hf
      have ih' := ih (refStep (cgp, cfp, off) t).1.1 (refStep (cgp, cfp, off) t).1.2.1 stk off hok.2
      rw [p4]
      have hr : (refStep (cgp, cfp, off) t).1 =
          ((refStep (cgp, cfp, off) t).1.1, (refStep (cgp, cfp, off) t).1.2.1, off) := Prod.ext rfl (Prod.ext rfl p3)
      rw [hr]
      simp only [stackOffsets, combineCaller, firstPassSlots, secondPassSlots, popCount, List.map_cons, List.sum_cons,
        Bool.false_eq_true, if_false, p1, if_true, ih'.1, p2, Except.map]
      refine ⟨trivial, ?_, ?_, ih'.2.2.2⟩
      · rw [ih'.2.1]; omega
      · rw [ih'.2.2.1]; simp [popCount]
    · obtain ⟨p1, p2, p3, p4⟩ := h4 hf
      have ih' := ih (refStep (cgp, cfp, off) t).1.1 (refStep (cgp, cfp, off) t).1.2.1 (stk + pushSlots t) (off + 8 * pushSlots t) hok.2
      rw [p4]
      have hr : (refStep (cgp, cfp, off) t).1 =
          ((refStep (cgp, cfp, off) t).1.1, (refStep (cgp, cfp, off) t).1.2.1, off + 8 * pushSlots t) :=
        Prod.ext rfl (Prod.ext rfl p3)
      rw [hr]
      simp only [stackOffsets, combineCaller, firstPassSlots, secondPassSlots, popCount, List.map_cons, List.sum_cons,
        if_true, p1, List.isEmpty_nil, ih'.1, p2, Except.map, List.length_nil]
      refine ⟨trivial, ?_, ?_, ih'.2.2.2⟩
      · rw [ih'.2.1]; omega
      · rw [ih'.2.2.1]; simp [popCount]


theorem callerAssign_eq (s : Sig) (h : s.params.all aggSizeOk = true) :
    callerAssign s = .ok (refLoop (b2n (retLarge s.ret), 0, 0) s.params).2 := by
  have hb : min (b2n (retLarge s.ret)) GP_MAX = b2n (retLarge s.ret) := by
    simp only [b2n, GP_MAX_eq]; split <;> omega
  have h0 : min 0 FP_MAX = 0 := by simp
  have := (caller_loop s.params (b2n (retLarge s.ret)) 0 0 0 h).1
  rw [hb, h0] at this
  simpa [callerAssign, classifyArgs, popPhase] using this

/-! ### callee -/

theorem callee_step (t : ATy) (ogp ofp top off : Nat) (hok : aggSizeOk t = true) (hinv : alignTo top 8 = 16 + off) :
    (offsetStep (ogp, ofp, top) t).1.1 = (refStep (ogp, ofp, off) t).1.1 ∧
    (offsetStep (ogp, ofp, top) t).1.2.1 = (refStep (ogp, ofp, off) t).1.2.1 ∧
    alignTo (offsetStep (ogp, ofp, top) t).1.2.2 8 = 16 + (refStep (ogp, ofp, off) t).1.2.2 ∧
    (∀ v, (offsetStep (ogp, ofp, top) t).2 = some v → (refStep (ogp, ofp, off) t).2 = .stack (v - 16) ∧
      min (refStep (ogp, ofp, off) t).1.1 GP_MAX = min ogp GP_MAX ∧ min (refStep (ogp, ofp, off) t).1.2.1 FP_MAX = min ofp FP_MAX) ∧
    ((offsetStep (ogp, ofp, top) t).2 = none →
      ∃ ss, storeStep (min ogp GP_MAX, min ofp FP_MAX) t
          = .ok ((min (refStep (ogp, ofp, off) t).1.1 GP_MAX, min (refStep (ogp, ofp, off) t).1.2.1 FP_MAX), ss) ∧
        (refStep (ogp, ofp, off) t).2 = .regs (ss.map Store.reg)) := by
  unfold alignTo at hinv
  cases t with
  | int sz u b =>
    simp only [aggSizeOk, Bool.and_eq_true, decide_eq_true_eq] at hok
    simp only [offsetStep, storeStep, refStep, GP_MAX_eq, FP_MAX_eq, ATy.size, alignTo, storeGp]
    by_cases h : ogp < 6
    · have h2 : min ogp 6 < 6 := by omega
      simp [h, h2, Store.reg, bind, Except.bind, pure, Except.pure]
      refine ⟨by omega, _, ⟨by omega, rfl⟩, ?_⟩
      simp [Store.reg]; omega
    · simp [h]; omega
  | flt =>
    simp only [offsetStep, storeStep, refStep, GP_MAX_eq, FP_MAX_eq, ATy.size, alignTo, storeFp]
    by_cases h : ofp < 8
    · have h2 : min ofp 8 < 8 := by omega
      simp [h, h2, Store.reg, bind, Except.bind, pure, Except.pure]
      refine ⟨by omega, _, ⟨by omega, rfl⟩, ?_⟩
      simp [Store.reg]; omega
    · simp [h]; omega
  | dbl =>
    simp only [offsetStep, storeStep, refStep, GP_MAX_eq, FP_MAX_eq, ATy.size, alignTo, storeFp]
    by_cases h : ofp < 8
    · have h2 : min ofp 8 < 8 := by omega
      simp [h, h2, Store.reg, bind, Except.bind, pure, Except.pure]
      refine ⟨by omega, _, ⟨by omega, rfl⟩, ?_⟩
      simp [Store.reg]; omega
    · simp [h]; omega
  | ldbl =>
    simp [offsetStep, refStep, ATy.size, alignTo]; omega
  | arr e n => simp [aggSizeOk] at hok
  | agg u sz al ms =>
    have hmin := structInRegs_min (.agg u sz al ms) ogp ofp
    by_cases hz : sz = 0
    · subst hz
      simp [offsetStep, storeStep, refStep, pushSlots, ATy.size, alignTo, structInRegs, regsOf, pure, Except.pure]
      omega
    have hpos0 : 0 < sz := by omega
    simp only [offsetStep, storeStep, refStep, pushSlots, ATy.size, alignTo]
    by_cases h16 : sz ≤ 16
    · simp only [h16, if_true, true_and]
      cases hok' : (structInRegs (.agg u sz al ms) ogp ofp).1
      · simp; omega
      · obtain ⟨hpos, hf1, hf2⟩ := aggSizeOk_agg hok h16 hpos0
        simp only [↓reduceIte]
        simp only [structInRegs, ATy.size, b2n, GP_MAX_eq, FP_MAX_eq, hz, if_false] at hok' ⊢
        simp only [regsOf, ATy.size, storeFp, storeGp, hasFlonum1, hasFlonum2, hz, if_false] at hf1 hf2 ⊢
        simp only [hasFlonum1, hasFlonum2] at hok'
        by_cases e1 : hasFlonum (.agg u sz al ms) 0 8 0 = true <;>
          by_cases e2 : hasFlonum (.agg u sz al ms) 8 16 0 = true <;>
          by_cases h8 : sz > 8 <;>
          simp [e1, e2, h8, Store.reg, bind, Except.bind, pure, Except.pure] at hok' hf1 hf2 ⊢ <;>
          (refine ⟨by omega, ?_⟩
           repeat (rw [if_pos (by omega)])
           simp
           refine ⟨_, ⟨?_, rfl⟩, ?_⟩
           · first | omega | (constructor <;> omega)
           · simp [Store.reg]; omega)
    · simp [h16]; omega


theorem offsetLoop_cons (st : Nat × Nat × Nat) (t : ATy) (ts : List ATy) :
    offsetLoop st (t :: ts) =
      ((offsetLoop (offsetStep st t).1 ts).1, (offsetStep st t).2 :: (offsetLoop (offsetStep st t).1 ts).2) := rfl

theorem callee_loop (ts : List ATy) : ∀ (ogp ofp top off : Nat), ts.all aggSizeOk = true → alignTo top 8 = 16 + off →
    ∃ stores, storeLoop (min ogp GP_MAX, min ofp FP_MAX) ts (offsetLoop (ogp, ofp, top) ts).2 = .ok stores ∧
      combineCallee (offsetLoop (ogp, ofp, top) ts).2 stores = (refLoop (ogp, ofp, off) ts).2 := by
  induction ts with
  | nil => intro _ _ _ _ _ _; exact ⟨[], rfl, rfl⟩
  | cons t ts ih =>
    intro ogp ofp top off hok hinv
    simp only [List.all_cons, Bool.and_eq_true] at hok
    obtain ⟨h1, h2, h3, h4, h5⟩ := callee_step t ogp ofp top off hok.1 hinv
    rw [offsetLoop_cons, refLoop_cons]
    have ho : (offsetStep (ogp, ofp, top) t).1 =
        ((refStep (ogp, ofp, off) t).1.1, (refStep (ogp, ofp, off) t).1.2.1, (offsetStep (ogp, ofp, top) t).1.2.2) :=
      Prod.ext h1 (Prod.ext h2 rfl)
    have hr : (refStep (ogp, ofp, off) t).1 =
        ((refStep (ogp, ofp, off) t).1.1, (refStep (ogp, ofp, off) t).1.2.1, (refStep (ogp, ofp, off) t).1.2.2) := rfl
    rw [ho, hr]
    obtain ⟨stores, hs, hc⟩ := ih (refStep (ogp, ofp, off) t).1.1 (refStep (ogp, ofp, off) t).1.2.1
      (offsetStep (ogp, ofp, top) t).1.2.2 (refStep (ogp, ofp, off) t).1.2.2 hok.2 h3
    cases ho2 : (offsetStep (ogp, ofp, top) t).2 with
    | some v =>
      obtain ⟨hloc, hg, hf⟩ := h4 v ho2
      -- a stack parameter: the store loop skips it; the register counters do not move
      have hst : (min (refStep (ogp, ofp, off) t).1.1 GP_MAX, min (refStep (ogp, ofp, off) t).1.2.1 FP_MAX)
          = (min ogp GP_MAX, min ofp FP_MAX) := by rw [hg, hf]
      refine ⟨[] :: stores, ?_, ?_⟩
      · simp only [storeLoop]; rw [← hst, hs]; rfl
      · simp only [combineCallee, hc, hloc]
    | none =>
      obtain ⟨ss, hss, hloc⟩ := h5 ho2
      refine ⟨ss :: stores, ?_, ?_⟩
      · simp only [storeLoop, hss, hs, bind, Except.bind, pure, Except.pure]
      · simp only [combineCallee, hc, hloc]


theorem refLoop_take (ts : List ATy) : ∀ (n : Nat) (st : Nat × Nat × Nat),
    (refLoop st (ts.take n)).2 = (refLoop st ts).2.take n := by
  induction ts with
  | nil => intro n st; simp [refLoop]
  | cons t ts ih =>
    intro n st
    cases n with
    | zero => simp [refLoop]
    | succ n => simp only [List.take_succ_cons, refLoop_cons, ih]

theorem all_take {α : Type} (p : α → Bool) (l : List α) (n : Nat) (h : l.all p = true) : (l.take n).all p = true := by
  rw [List.all_eq_true] at h ⊢
  intro x hx
  exact h x (List.mem_of_mem_take hx)

theorem calleeAssign_eq (s : Sig) (h : s.params.all aggSizeOk = true) :
    calleeAssign s = .ok (refLoop (b2n (retLarge s.ret), 0, 0) s.named).2 := by
  have hn : s.named.all aggSizeOk = true := all_take _ _ _ h
  have hall : (calleeParams s).all aggSizeOk = true := by
    simp only [calleeParams]
    cases retLarge s.ret <;> simp [hn, aggSizeOk]
  have h16 : alignTo 16 8 = 16 + 0 := by decide
  obtain ⟨stores, hs, hc⟩ := callee_loop (calleeParams s) 0 0 16 0 hall h16
  have hs' : prologueStores s = .ok stores := by
    simpa [prologueStores, calleeOffsets] using hs
  simp only [calleeAssign, hs', bind, Except.bind, pure, Except.pure, calleeOffsets, hc]
  cases hl : retLarge s.ret
  · simp [calleeParams, hl, b2n]
  · simp [calleeParams, hl, b2n, refLoop_cons, refStep, GP_MAX_eq]


/-- at the `call` instruction exactly the padding and the first-pass pushes are on the stack: the second pass and the
    hidden pointer have been popped into registers, and the `stack` counter of the classification loop counted exactly
    what the first pass pushed -/
theorem depthAtCall_eq (depth : Nat) (s : Sig) (h : s.params.all aggSizeOk = true) :
    depthAtCall depth s = (depth : Int) + stackArgs depth s := by
  have hb : min (b2n (retLarge s.ret)) GP_MAX = b2n (retLarge s.ret) := by
    simp only [b2n, GP_MAX_eq]; split <;> omega
  have h0 : min 0 FP_MAX = 0 := by simp
  obtain ⟨_, h2, h3, _⟩ := caller_loop s.params (b2n (retLarge s.ret)) 0 0 0 h
  rw [hb, h0] at h3
  simp only [depthAtCall, stackArgs, classifyArgs, popPhase]
  rw [h2, h3]
  simp only [Nat.zero_add]
  omega

theorem stackArgs_parity (depth : Nat) (s : Sig) : (depth + stackArgs depth s) % 2 = 0 := by
  simp only [stackArgs, padSlots]
  split <;> omega

end ChibiVerif.CallConv
