/-
C03 × C01: the whole-function simulation.  `sim`: by induction on the fuel of the abstract machine `execF` — for every
statement of the fragment, wherever its code `compileF …` sits in the (label-renamed) program `q`, from a machine state whose
frame holds the store the machine reaches the position that belongs to the outcome (normal: the line after the code; break /
continue: the break / continue label of the innermost enclosing loop; return: `.L.return`), with the frame holding the final
store and, on return, `%rax` representing the returned value.  Every expression hole is discharged by C01's `value_j` (`hole`),
every truth test by `cmpz_run` (`je_reach`, `jne_reach`), every label by freshness (`findLbl_at`).  Loops: the jump back to
`.L.begin.c` re-enters the same code at the same position, where the induction hypothesis for the smaller fuel applies.
-/
import ChibiVerif.Lemmas.C03FunMachine

namespace ChibiVerif.C03Fun
open ChibiVerif.Asm ChibiVerif.Spec.IntSpec ChibiVerif.C01 ChibiVerif.X86 ChibiVerif.X86J

/-- what is fixed during a run of the function: the frame layout, the return type, the renamed program, where `.L.return`
    is, `%rsp` and `%rbp`, the lower end `B` of the objects, the free stack slots `D` -/
structure Cfg where
  tys : List ITy
  off : Nat → Int
  toff : Nat → Int
  K : Nat
  R : ITy
  C : Nat
  q : List JI
  retPos : Nat
  sp : BitVec 64
  bp : BitVec 64
  B : Nat
  D : Nat
  /-- a region of memory the function must not touch (e.g. everything at or above `%rbp`: the saved `%rbp`, the return
      address, the caller's frame), and what it holds -/
  keep : BitVec 64 → Prop
  mem0 : BitVec 64 → BitVec 8

structure Cfg.OK (g : Cfg) : Prop where
  nodup : (defs g.q).Nodup
  ret : g.q[g.retPos]? = some (.lbl (encL g.C (.s .ret)))
  lay : Lay g.tys g.off g.toff g.K g.B g.bp
  hsp : 8 * g.D ≤ g.sp.toNat
  hB : g.sp.toNat ≤ g.B
  keep_ok : ∀ a, g.keep a → g.sp.toNat ≤ a.toNat ∧ (∀ W, ¬ inVar g.tys g.off g.bp W a) ∧ ¬ inTmp g.toff g.bp 0 g.K a

/-- the machine state holds the store `σ` in the function's frame -/
def MInv (g : Cfg) (σ : Env) (m : State) : Prop :=
  σ.tys = g.tys ∧ m.get .rsp = g.sp ∧ m.get .rbp = g.bp ∧ Holds g.off σ m ∧ ∀ a, g.keep a → m.mem a = g.mem0 a

theorem MInv.same {g : Cfg} {σ : Env} {m m' : State} (h : MInv g σ m) (hs : Same m m') : MInv g σ m' :=
  ⟨h.1, hs.rsp.trans h.2.1, hs.rbp.trans h.2.2.1, h.2.2.2.1.same hs, fun a ha => by rw [hs.mem]; exact h.2.2.2.2 a ha⟩

/-- **an expression hole**: C01's `value_j` wherever the code of the expression sits in the function -/
theorem hole (g : Cfg) (ok : g.OK) {e : E} {σ σ' : Env} {t : ITy} {code : List JI} {v : Int} {k0 k1 c0 c1 pos : Nat} {m : State}
    (hc : compileJ g.tys g.off g.toff k0 c0 e = some (t, code, k1, c1)) (hv : evalE σ e = some (v, σ'))
    (hn : noConflict e = true) (hK : k1 ≤ g.K) (hd : depthJ e ≤ g.D) (hat : At g.q pos code) (hm : MInv g σ m) :
    ∃ m', Reach g.q (pos, m) (pos + code.length, m') ∧ MInv g σ' m' ∧ Represents t (m'.get .rax) v := by
  obtain ⟨hσ, hsp, hbp, hH, hkeep⟩ := hm
  have hk0 := (compileJ_facts g.tys g.off g.toff e k0 c0 t code k1 c1 hc).k
  obtain ⟨hty, hE⟩ := value_j (fun _ => True) g.off g.toff g.K e σ t code v σ' k0 k1 c0 c1 (by rw [hσ]; exact hc) hv hn hK
  obtain ⟨m', hrun, hrep, hH', hu⟩ := hE m g.D g.B trivial (by rw [hσ, hbp]; exact ok.lay) hd (by rw [hsp]; exact ok.hsp)
    (by rw [hsp]; exact ok.hB) hH
  refine ⟨m', reach_of_exec (hrun g.q pos hat ok.nodup), ⟨hty.trans hσ, hu.rsp.trans hsp, hu.rbp.trans hbp, hH', ?_⟩, hrep⟩
  intro a ha
  obtain ⟨h1, h2, h3⟩ := ok.keep_ok a ha
  rw [← hkeep a ha]
  refine hu.mem a (by rw [hsp]; exact h1) (by rw [hσ, hbp]; exact h2 _) ?_
  rw [hbp]
  exact fun hh => h3 (inTmp_mono hh (Nat.zero_le _) hK)

/-- the optional third clause of a `for` -/
theorem holeOpt (g : Cfg) (ok : g.OK) {oe : Option E} {σ σ' : Env} {code : List JI} {k0 k1 c0 c1 pos : Nat} {m : State}
    (hc : compileOpt g.tys g.off g.toff k0 c0 oe = some (code, k1, c1)) (hv : evalOpt σ oe = some σ')
    (hn : noConflictO oe = true) (hK : k1 ≤ g.K) (hd : depthO oe ≤ g.D) (hat : At g.q pos code) (hm : MInv g σ m) :
    ∃ m', Reach g.q (pos, m) (pos + code.length, m') ∧ MInv g σ' m' := by
  cases oe with
  | none =>
    simp only [compileOpt, Option.some.injEq, Prod.mk.injEq] at hc
    simp only [evalOpt, Option.some.injEq] at hv
    obtain ⟨rfl, _, _⟩ := hc
    subst hv
    exact ⟨m, Reach.refl _ _, hm⟩
  | some e =>
    simp only [compileOpt, Option.map_eq_some_iff, Prod.mk.injEq] at hc
    obtain ⟨⟨t, cd, k1', c1'⟩, hc, rfl, rfl, rfl⟩ := hc
    simp only [evalOpt, Option.map_eq_some_iff] at hv
    obtain ⟨⟨v, σ1⟩, hv, rfl⟩ := hv
    obtain ⟨m', r, hm', _⟩ := hole g ok hc hv hn hK hd hat hm
    exact ⟨m', r, hm'⟩

theorem compileOpt_k {tys : List ITy} {off toff : Nat → Int} {k0 c0 : Nat} {oe : Option E} {code : List JI} {k1 c1 : Nat}
    (h : compileOpt tys off toff k0 c0 oe = some (code, k1, c1)) : k0 ≤ k1 := by
  cases oe with
  | none => simp only [compileOpt, Option.some.injEq, Prod.mk.injEq] at h; omega
  | some e =>
    simp only [compileOpt, Option.map_eq_some_iff, Prod.mk.injEq] at h
    obtain ⟨⟨t, cd, k1', c1'⟩, hc, rfl, rfl, rfl⟩ := h
    exact (compileJ_facts tys off toff e k0 c0 t cd k1' c1' hc).k

/-- the temporaries are numbered upwards -/
theorem compileF_k (tys : List ITy) (off toff : Nat → Int) (R : ITy) (s : FStmt) :
    ∀ (ctx : JCtx) (k0 c0 u0 : Nat) (code : List FI) (k1 c1 u1 : Nat),
      compileF tys off toff R ctx k0 c0 u0 s = some (code, k1, c1, u1) → k0 ≤ k1 := by
  induction s with
  | skip => intro ctx k0 c0 u0 code k1 c1 u1 h; simp only [compileF, Option.some.injEq, Prod.mk.injEq] at h; omega
  | expr e =>
    intro ctx k0 c0 u0 code k1 c1 u1 h
    simp only [compileF, Option.map_eq_some_iff, Prod.mk.injEq] at h
    obtain ⟨⟨t, cd, k1', c1'⟩, hc, _, rfl, _, _⟩ := h
    exact (compileJ_facts tys off toff e k0 c0 t cd k1' c1' hc).k
  | seq a b iha ihb =>
    intro ctx k0 c0 u0 code k1 c1 u1 h
    simp only [compileF] at h
    cases ha : compileF tys off toff R ctx k0 c0 u0 a with
    | none => simp [ha] at h
    | some ra =>
      obtain ⟨ca, ka, c1a, u1a⟩ := ra
      simp only [ha, Option.map_eq_some_iff, Prod.mk.injEq] at h
      obtain ⟨⟨cb, kb, c1b, u1b⟩, hb, _, rfl, _, _⟩ := h
      exact Nat.le_trans (iha _ _ _ _ _ _ _ _ ha) (ihb _ _ _ _ _ _ _ _ hb)
  | ifte e t f iht ihf =>
    intro ctx k0 c0 u0 code k1 c1 u1 h
    simp only [compileF] at h
    cases he : compileJ tys off toff k0 (c0 + 1) e with
    | none => simp [he] at h
    | some re =>
      obtain ⟨te, ce, ke, c1e⟩ := re
      simp only [he] at h
      cases ht : compileF tys off toff R ctx ke c1e u0 t with
      | none => simp [ht] at h
      | some rt =>
        obtain ⟨ct, kt, c1t, u1t⟩ := rt
        simp only [ht, Option.map_eq_some_iff, Prod.mk.injEq] at h
        obtain ⟨⟨cf, kf, c1f, u1f⟩, hf, _, rfl, _, _⟩ := h
        have := (compileJ_facts tys off toff e _ _ _ _ _ _ he).k
        exact Nat.le_trans this (Nat.le_trans (iht _ _ _ _ _ _ _ _ ht) (ihf _ _ _ _ _ _ _ _ hf))
  | for_ init e inc body ihb =>
    intro ctx k0 c0 u0 code k1 c1 u1 h
    simp only [compileF] at h
    cases h0 : compileOpt tys off toff k0 (c0 + 1) init with
    | none => simp [h0] at h
    | some r0 =>
      obtain ⟨c0i, ka, ca⟩ := r0
      simp only [h0] at h
      cases he : compileJ tys off toff ka ca e with
      | none => simp [he] at h
      | some re =>
        obtain ⟨te, ce, ke, c1e⟩ := re
        simp only [he] at h
        cases hi : compileOpt tys off toff ke (c1e + nlblF body) inc with
        | none => simp [hi] at h
        | some ri =>
          obtain ⟨ci, ki, c1i⟩ := ri
          simp only [hi, Option.map_eq_some_iff, Prod.mk.injEq] at h
          obtain ⟨⟨cb, kb, c1b, u1b⟩, hb, _, rfl, _, _⟩ := h
          have := (compileJ_facts tys off toff e _ _ _ _ _ _ he).k
          exact Nat.le_trans (compileOpt_k h0) (Nat.le_trans this (Nat.le_trans (compileOpt_k hi) (ihb _ _ _ _ _ _ _ _ hb)))
  | doWhile body e ihb =>
    intro ctx k0 c0 u0 code k1 c1 u1 h
    simp only [compileF] at h
    cases hb : compileF tys off toff R ⟨some u0, some (u0 + 1), ctx.sw⟩ k0 (c0 + 1) (u0 + 2) body with
    | none => simp [hb] at h
    | some rb =>
      obtain ⟨cb, kb, c1b, u1b⟩ := rb
      simp only [hb, Option.map_eq_some_iff, Prod.mk.injEq] at h
      obtain ⟨⟨te, ce, ke, c1e⟩, he, _, rfl, _, _⟩ := h
      exact Nat.le_trans (ihb _ _ _ _ _ _ _ _ hb) (compileJ_facts tys off toff e _ _ _ _ _ _ he).k
  | brk =>
    intro ctx k0 c0 u0 code k1 c1 u1 h
    simp only [compileF, Option.map_eq_some_iff, Prod.mk.injEq] at h
    obtain ⟨_, _, _, rfl, _, _⟩ := h; exact Nat.le_refl _
  | cont =>
    intro ctx k0 c0 u0 code k1 c1 u1 h
    simp only [compileF, Option.map_eq_some_iff, Prod.mk.injEq] at h
    obtain ⟨_, _, _, rfl, _, _⟩ := h; exact Nat.le_refl _
  | case_ lo hi s ih =>
    intro ctx k0 c0 u0 code k1 c1 u1 h
    simp only [compileF] at h
    split at h
    · simp only [Option.map_eq_some_iff, Prod.mk.injEq] at h
      obtain ⟨⟨cs, ks, c1s, u1s⟩, hs, _, rfl, _, _⟩ := h
      exact ih _ _ _ _ _ _ _ _ hs
    · simp at h
  | default_ s ih =>
    intro ctx k0 c0 u0 code k1 c1 u1 h
    simp only [compileF] at h
    split at h
    · simp only [Option.map_eq_some_iff, Prod.mk.injEq] at h
      obtain ⟨⟨cs, ks, c1s, u1s⟩, hs, _, rfl, _, _⟩ := h
      exact ih _ _ _ _ _ _ _ _ hs
    · simp at h
  | switch_ e body ihb =>
    intro ctx k0 c0 u0 code k1 c1 u1 h
    simp only [compileF] at h
    cases he : compileJ tys off toff k0 c0 e with
    | none => simp [he] at h
    | some re =>
      obtain ⟨te, ce, ke, c1e⟩ := re
      simp only [he, Option.map_eq_some_iff, Prod.mk.injEq] at h
      obtain ⟨⟨cb, kb, c1b, u1b⟩, hb, _, rfl, _, _⟩ := h
      exact Nat.le_trans (compileJ_facts tys off toff e _ _ _ _ _ _ he).k (ihb _ _ _ _ _ _ _ _ hb)
  | ret e =>
    intro ctx k0 c0 u0 code k1 c1 u1 h
    simp only [compileF, Option.map_eq_some_iff, Prod.mk.injEq] at h
    obtain ⟨⟨t, cd, k1', c1'⟩, hc, _, rfl, _, _⟩ := h
    exact (compileJ_facts tys off toff _ k0 c0 t cd k1' c1' hc).k

/-! ### the simulation -/

/-- where control is after a statement with outcome `o` -/
def tgt (g : Cfg) (o : Out) (endPos brkPos contPos : Nat) : Nat :=
  match o with
  | .normal => endPos
  | .brk => brkPos
  | .cont => contPos
  | .ret _ => g.retPos

def RetOK (g : Cfg) (o : Out) (m : State) : Prop := ∀ v, o = .ret v → Represents g.R (m.get .rax) v

/-- the break / continue labels of the innermost enclosing loop are the lines `brkPos` / `contPos` -/
def CtxOK (g : Cfg) (ctx : JCtx) (brkPos contPos : Nat) : Prop :=
  (∀ b, ctx.brk = some b → g.q[brkPos]? = some (.lbl (encL g.C (.s (.uniq b))))) ∧
  (∀ ct, ctx.cont = some ct → g.q[contPos]? = some (.lbl (encL g.C (.s (.uniq ct)))))

def SimS (g : Cfg) (n : Nat) (s : FStmt) : Prop :=
  ∀ (σ : Env) (o : Out) (σ' : Env), execF g.R n s σ = .done o σ' →
  ∀ (ctx : JCtx) (k0 c0 u0 : Nat) (code : List FI) (k1 c1 u1 : Nat),
    compileF g.tys g.off g.toff g.R ctx k0 c0 u0 s = some (code, k1, c1, u1) →
    k1 ≤ g.K → noConflictF s = true → depthF s ≤ g.D →
  ∀ (pos brkPos contPos : Nat), At g.q pos (code.map (enc g.C)) → CtxOK g ctx brkPos contPos →
  ∀ m, MInv g σ m →
    ∃ m', Reach g.q (pos, m) (tgt g o (pos + code.length) brkPos contPos, m') ∧ MInv g σ' m' ∧ RetOK g o m'

def Sim (g : Cfg) (n : Nat) : Prop := ∀ s : FStmt, SimS g n s

theorem enc_condJump (C : Nat) (cc : CC) (t : ITy) (l : FL) :
    (condJump cc t l).map (enc C) = J (cmpZeroSeq t) ++ [JI.jcc cc (encL C l)] := by
  simp [condJump, enc_emb, enc]

theorem length_embs (c : List JI) : (embs c).length = c.length := by simp [embs]

theorem length_condJump (cc : CC) (t : ITy) (l : FL) : (condJump cc t l).length = 2 := by
  simp [condJump, length_embs, length_J, cmpZeroSeq_length]

theorem At_cons {p : List JI} {pos : Nat} {x : JI} {r : List JI} : At p pos (x :: r) ↔ p[pos]? = some x ∧ At p (pos + 1) r :=
  Iff.rfl

theorem reach_to {p : List JI} {x : Nat × State} {a b : Nat} {m : State} (h : Reach p x (a, m)) (e : a = b) : Reach p x (b, m) :=
  e ▸ h

theorem reach_from {p : List JI} {y : Nat × State} {a b : Nat} {m : State} (h : Reach p (a, m) y) (e : a = b) : Reach p (b, m) y :=
  e ▸ h

theorem retOK_of_ne {g : Cfg} {o : Out} {m : State} (h : ∀ v, o ≠ .ret v) : RetOK g o m := fun v e => absurd e (h v)


theorem sim_skip (g : Cfg) (n : Nat) : SimS g (n + 1) .skip := by
  intro σ o σ' hx ctx k0 c0 u0 code k1 c1 u1 hc hK hnc hd pos brkPos contPos hat hctx m hm
  simp only [execF, FRes.done.injEq] at hx
  obtain ⟨rfl, rfl⟩ := hx
  simp only [compileF, Option.some.injEq, Prod.mk.injEq] at hc
  obtain ⟨rfl, _, _, _⟩ := hc
  exact ⟨m, Reach.refl _ _, hm, retOK_of_ne (fun v => by simp)⟩

theorem sim_expr (g : Cfg) (ok : g.OK) (n : Nat) (e : E) : SimS g (n + 1) (.expr e) := by
  intro σ o σ' hx ctx k0 c0 u0 code k1 c1 u1 hc hK hnc hd pos brkPos contPos hat hctx m hm
  simp only [execF] at hx
  cases hv : evalE σ e with
  | none => simp [hv] at hx
  | some r =>
    obtain ⟨v, σ1⟩ := r
    simp only [hv, FRes.done.injEq] at hx
    obtain ⟨rfl, rfl⟩ := hx
    simp only [compileF, Option.map_eq_some_iff, Prod.mk.injEq] at hc
    obtain ⟨⟨t, cd, k1', c1'⟩, hc, rfl, rfl, _, _⟩ := hc
    rw [enc_emb] at hat
    obtain ⟨m', r, hm', _⟩ := hole g ok hc hv hnc hK hd hat hm
    rw [length_embs]
    exact ⟨m', r, hm', retOK_of_ne (fun v => by simp)⟩

theorem sim_ret (g : Cfg) (ok : g.OK) (n : Nat) (e : E) : SimS g (n + 1) (.ret e) := by
  intro σ o σ' hx ctx k0 c0 u0 code k1 c1 u1 hc hK hnc hd pos brkPos contPos hat hctx m hm
  simp only [execF] at hx
  cases hv : evalE σ (.cast g.R e) with
  | none => simp [hv] at hx
  | some r =>
    obtain ⟨v, σ1⟩ := r
    simp only [hv, FRes.done.injEq] at hx
    obtain ⟨rfl, rfl⟩ := hx
    simp only [compileF, Option.map_eq_some_iff, Prod.mk.injEq] at hc
    obtain ⟨⟨t, cd, k1', c1'⟩, hc, rfl, rfl, _, _⟩ := hc
    have hR : t = g.R := by
      simp only [compileJ, Option.map_eq_some_iff, Prod.mk.injEq] at hc
      obtain ⟨_, _, h, _⟩ := hc
      exact h.symm
    subst hR
    rw [List.map_append, enc_emb, At_append] at hat
    obtain ⟨m', r, hm', hrep⟩ := hole g ok hc hv (by simpa [noConflict, noConflictF] using hnc) hK (by simpa [depthJ, depthF] using hd) hat.1 hm
    have hj : g.q[pos + cd.length]? = some (JI.jmp (encL g.C (.s .ret))) := hat.2.1
    refine ⟨m', r.trans (jmp_to ok.nodup hj ok.ret m'), hm', ?_⟩
    intro v' hv'
    simp only [Out.ret.injEq] at hv'
    subst hv'
    exact hrep

theorem sim_brk (g : Cfg) (ok : g.OK) (n : Nat) : SimS g (n + 1) .brk := by
  intro σ o σ' hx ctx k0 c0 u0 code k1 c1 u1 hc hK hnc hd pos brkPos contPos hat hctx m hm
  simp only [execF, FRes.done.injEq] at hx
  obtain ⟨rfl, rfl⟩ := hx
  simp only [compileF, Option.map_eq_some_iff, Prod.mk.injEq] at hc
  obtain ⟨b, hctx', rfl, _, _, _⟩ := hc
  have hj : g.q[pos]? = some (JI.jmp (encL g.C (.s (.uniq b)))) := hat.1
  exact ⟨m, jmp_to ok.nodup hj (hctx.1 b hctx') m, hm, retOK_of_ne (fun v => by simp)⟩

theorem sim_cont (g : Cfg) (ok : g.OK) (n : Nat) : SimS g (n + 1) .cont := by
  intro σ o σ' hx ctx k0 c0 u0 code k1 c1 u1 hc hK hnc hd pos brkPos contPos hat hctx m hm
  simp only [execF, FRes.done.injEq] at hx
  obtain ⟨rfl, rfl⟩ := hx
  simp only [compileF, Option.map_eq_some_iff, Prod.mk.injEq] at hc
  obtain ⟨ct, hctx', rfl, _, _, _⟩ := hc
  have hj : g.q[pos]? = some (JI.jmp (encL g.C (.s (.uniq ct)))) := hat.1
  exact ⟨m, jmp_to ok.nodup hj (hctx.2 ct hctx') m, hm, retOK_of_ne (fun v => by simp)⟩

theorem sim_seq (g : Cfg) (n : Nat) (a b : FStmt) (iha : SimS g n a) (ihb : SimS g n b) : SimS g (n + 1) (.seq a b) := by
  intro σ o σ' hx ctx k0 c0 u0 code k1 c1 u1 hc hK hnc hd pos brkPos contPos hat hctx m hm
  simp only [compileF] at hc
  cases hca : compileF g.tys g.off g.toff g.R ctx k0 c0 u0 a with
  | none => simp [hca] at hc
  | some ra =>
    obtain ⟨ca, ka, c1a, u1a⟩ := ra
    simp only [hca, Option.map_eq_some_iff, Prod.mk.injEq] at hc
    obtain ⟨⟨cb, kb, c1b, u1b⟩, hcb, rfl, rfl, _, _⟩ := hc
    have hkb := compileF_k _ _ _ _ _ _ _ _ _ _ _ _ _ hcb
    have hK : kb ≤ g.K := hK
    simp only [noConflictF, Bool.and_eq_true] at hnc
    simp only [depthF] at hd
    rw [List.map_append, At_append, List.length_map] at hat
    simp only [execF] at hx
    cases hxa : execF g.R n a σ with
    | timeout => simp [hxa] at hx
    | undef => simp [hxa] at hx
    | unsupported => simp [hxa] at hx
    | done oa σ1 =>
      obtain ⟨m1, r1, hm1, hr1⟩ := iha σ oa σ1 hxa ctx k0 c0 u0 ca ka c1a u1a hca (by omega) hnc.1 (by omega) pos brkPos contPos
        hat.1 hctx m hm
      cases oa with
      | normal =>
        simp only [hxa] at hx
        obtain ⟨m2, r2, hm2, hr2⟩ := ihb σ1 o σ' hx ctx ka c1a u1a cb kb c1b u1b hcb hK hnc.2 (by omega) (pos + ca.length) brkPos
          contPos hat.2 hctx m1 hm1
        refine ⟨m2, r1.trans ?_, hm2, hr2⟩
        rw [List.length_append, ← Nat.add_assoc]
        exact r2
      | brk => simp only [hxa, FRes.done.injEq] at hx; obtain ⟨rfl, rfl⟩ := hx; exact ⟨m1, r1, hm1, hr1⟩
      | cont => simp only [hxa, FRes.done.injEq] at hx; obtain ⟨rfl, rfl⟩ := hx; exact ⟨m1, r1, hm1, hr1⟩
      | ret v => simp only [hxa, FRes.done.injEq] at hx; obtain ⟨rfl, rfl⟩ := hx; exact ⟨m1, r1, hm1, hr1⟩


theorem sim_ifte (g : Cfg) (ok : g.OK) (n : Nat) (e : E) (t f : FStmt) (iht : SimS g n t) (ihf : SimS g n f) :
    SimS g (n + 1) (.ifte e t f) := by
  intro σ o σ' hx ctx k0 c0 u0 code k1 c1 u1 hc hK hnc hd pos brkPos contPos hat hctx m hm
  simp only [compileF] at hc
  cases hce : compileJ g.tys g.off g.toff k0 (c0 + 1) e with
  | none => simp [hce] at hc
  | some re =>
    obtain ⟨te, ce, ke, c1e⟩ := re
    simp only [hce] at hc
    cases hct : compileF g.tys g.off g.toff g.R ctx ke c1e u0 t with
    | none => simp [hct] at hc
    | some rt =>
      obtain ⟨ct, kt, c1t, u1t⟩ := rt
      simp only [hct, Option.map_eq_some_iff, Prod.mk.injEq] at hc
      obtain ⟨⟨cf, kf, c1f, u1f⟩, hcf, rfl, rfl, _, _⟩ := hc
      have hK : kf ≤ g.K := hK
      have hkt := compileF_k _ _ _ _ _ _ _ _ _ _ _ _ _ hct
      have hkf := compileF_k _ _ _ _ _ _ _ _ _ _ _ _ _ hcf
      simp only [noConflictF, Bool.and_eq_true] at hnc
      simp only [depthF] at hd
      simp only [List.map_append, List.map_cons, List.map_nil, enc_emb, enc_condJump, enc, encL] at hat
      rw [At_append] at hat; obtain ⟨hat_e, hat⟩ := hat
      rw [At_append] at hat; obtain ⟨hat_j, hat⟩ := hat
      rw [At_append] at hat; obtain ⟨hat_t, hat⟩ := hat
      rw [At_cons, At_cons, At_append] at hat; obtain ⟨hjmp, hlelse, hat_f, hlend, _⟩ := hat
      simp only [List.length_append, length_J, cmpZeroSeq_length, List.length_cons, List.length_nil, List.length_map,
        Nat.zero_add, Nat.reduceAdd] at hat_t hjmp hlelse hat_f hlend
      have hlen : (embs ce ++ (condJump .e te (.x ⟨.else_, c0⟩) ++ (ct ++ (FI.jmp (.x ⟨.end_, c0⟩) :: FI.lbl (.x ⟨.else_, c0⟩) ::
          (cf ++ [FI.lbl (.x ⟨.end_, c0⟩)]))))).length = ce.length + 2 + ct.length + 1 + 1 + cf.length + 1 := by
        simp only [List.length_append, length_embs, length_condJump, List.length_cons, List.length_nil]; omega
      rw [hlen]
      simp only [execF] at hx
      cases hv : evalE σ e with
      | none => simp [hv] at hx
      | some r =>
        obtain ⟨v, σ1⟩ := r
        simp only [hv] at hx
        obtain ⟨m1, r1, hm1, hrep⟩ := hole g ok hce hv hnc.1 (by omega) (by omega) hat_e hm
        obtain ⟨m2, sm2, r2⟩ := je_reach ok.nodup te v m1 hat_j hlelse hrep
        have hm2 := hm1.same sm2
        by_cases hv0 : v = 0
        · simp only [hv0, ne_eq, not_true_eq_false, if_false] at hx
          simp only [hv0, if_true] at r2
          have r3 := lbl_step hlelse m2
          obtain ⟨m3, r4, hm3, hr3⟩ := ihf σ1 o σ' hx ctx kt c1t u1t cf kf c1f u1f hcf hK hnc.2.2 (by omega) _ brkPos contPos
            hat_f hctx m2 hm2
          have r14 := r1.trans (r2.trans (r3.trans r4))
          cases o with
          | normal =>
            refine ⟨m3, reach_to (r14.trans (lbl_step hlend m3)) ?_, hm3, hr3⟩
            simp only [tgt]; omega
          | brk => exact ⟨m3, r14, hm3, hr3⟩
          | cont => exact ⟨m3, r14, hm3, hr3⟩
          | ret w => exact ⟨m3, r14, hm3, hr3⟩
        · simp only [ne_eq, hv0, not_false_eq_true, if_true] at hx
          simp only [hv0, if_false] at r2
          obtain ⟨m3, r4, hm3, hr3⟩ := iht σ1 o σ' hx ctx ke c1e u0 ct kt c1t u1t hct (by omega) hnc.2.1 (by omega) _ brkPos contPos
            hat_t hctx m2 hm2
          have r14 := r1.trans (r2.trans r4)
          cases o with
          | normal =>
            refine ⟨m3, reach_to (r14.trans ((jmp_to ok.nodup hjmp hlend m3).trans (lbl_step hlend m3))) ?_, hm3, hr3⟩
            simp only [tgt]; omega
          | brk => exact ⟨m3, r14, hm3, hr3⟩
          | cont => exact ⟨m3, r14, hm3, hr3⟩
          | ret w => exact ⟨m3, r14, hm3, hr3⟩


theorem sim_for (g : Cfg) (ok : g.OK) (n : Nat) (init : Option E) (e : E) (inc : Option E) (body : FStmt)
    (ihb : ∀ k, k ≤ n → SimS g k body) : SimS g (n + 1) (.for_ init e inc body) := by
  intro σ o σ' hx ctx k0 c0 u0 code k1 c1 u1 hc hK hnc hd pos brkPos contPos hat hctx m hm
  simp only [compileF] at hc
  cases hc0 : compileOpt g.tys g.off g.toff k0 (c0 + 1) init with
  | none => simp [hc0] at hc
  | some r0 =>
    obtain ⟨c0i, ka, ca⟩ := r0
    simp only [hc0] at hc
    cases hce : compileJ g.tys g.off g.toff ka ca e with
    | none => simp [hce] at hc
    | some re =>
      obtain ⟨te, ce, ke, c1e⟩ := re
      simp only [hce] at hc
      cases hci : compileOpt g.tys g.off g.toff ke (c1e + nlblF body) inc with
      | none => simp [hci] at hc
      | some ri =>
        obtain ⟨ci, ki, c1i⟩ := ri
        simp only [hci, Option.map_eq_some_iff, Prod.mk.injEq] at hc
        obtain ⟨⟨cb, kb, c1b, u1b⟩, hcb, hcode, hk1, _, _⟩ := hc
        have hk1 : kb = k1 := hk1
        have hK : kb ≤ g.K := by omega
        have hka := compileOpt_k hc0
        have hke := (compileJ_facts _ _ _ _ _ _ _ _ _ _ hce).k
        have hki := compileOpt_k hci
        have hkb := compileF_k _ _ _ _ _ _ _ _ _ _ _ _ _ hcb
        simp only [noConflictF, Bool.and_eq_true] at hnc
        simp only [depthF] at hd
        subst hcode
        simp only [List.map_append, List.map_cons, List.map_nil, enc_emb, enc_condJump, enc] at hat
        rw [At_append] at hat; obtain ⟨hat_0, hat⟩ := hat
        rw [At_cons] at hat; obtain ⟨hlbegin, hat⟩ := hat
        rw [At_append] at hat; obtain ⟨hat_e, hat⟩ := hat
        rw [At_append] at hat; obtain ⟨hat_j, hat⟩ := hat
        rw [At_append] at hat; obtain ⟨hat_b, hat⟩ := hat
        rw [At_cons] at hat; obtain ⟨hlcont, hat⟩ := hat
        rw [At_append] at hat; obtain ⟨hat_i, hat⟩ := hat
        rw [At_cons, At_cons] at hat; obtain ⟨hjmp, hlbrk, _⟩ := hat
        simp only [List.length_append, length_J, cmpZeroSeq_length, List.length_cons, List.length_nil, List.length_map,
          Nat.zero_add, Nat.reduceAdd] at hat_b hlcont hat_i hjmp hlbrk
        have hlen : (embs c0i ++ (FI.lbl (.s (.begin_ c0)) :: (embs ce ++ (condJump .e te (.s (.uniq u0)) ++ (cb ++
            (FI.lbl (.s (.uniq (u0 + 1))) :: (embs ci ++ [FI.jmp (.s (.begin_ c0)), FI.lbl (.s (.uniq u0))]))))))).length =
            c0i.length + 1 + ce.length + 2 + cb.length + 1 + ci.length + 1 + 1 := by
          simp only [List.length_append, length_embs, length_condJump, List.length_cons, List.length_nil]; omega
        rw [hlen]
        have hctx' : CtxOK g ⟨some u0, some (u0 + 1), ctx.sw⟩ (pos + c0i.length + 1 + ce.length + 2 + cb.length + 1 + ci.length + 1)
            (pos + c0i.length + 1 + ce.length + 2 + cb.length) := by
          refine ⟨fun b h => ?_, fun ct h => ?_⟩
          · simp only [Option.some.injEq] at h; subst h; exact hlbrk
          · simp only [Option.some.injEq] at h; subst h; exact hlcont
        -- the loop proper, entered at `.L.begin.c`, for every fuel up to `n + 1`: inner induction on the fuel
        have loop : ∀ k, k ≤ n + 1 → ∀ (σ : Env) (m : State), execF g.R k (.for_ none e inc body) σ = .done o σ' → MInv g σ m →
            ∃ m', Reach g.q (pos + c0i.length, m)
              (tgt g o (pos + (c0i.length + 1 + ce.length + 2 + cb.length + 1 + ci.length + 1 + 1)) brkPos contPos, m') ∧
              MInv g σ' m' ∧ RetOK g o m' := by
          intro k
          induction k with
          | zero => intro _ σ m hx; simp [execF] at hx
          | succ k ihk =>
            intro hk σ m hx hm
            have ihk := ihk (by omega)
            -- the part after the body: continue label, inc, jump back, the loop again with less fuel
            have hnext : ∀ (σ2 σ3 : Env) (m3 : State), MInv g σ2 m3 → evalOpt σ2 inc = some σ3 →
                execF g.R k (.for_ none e inc body) σ3 = .done o σ' →
                ∃ m', Reach g.q (pos + c0i.length + 1 + ce.length + 2 + cb.length, m3)
                  (tgt g o (pos + (c0i.length + 1 + ce.length + 2 + cb.length + 1 + ci.length + 1 + 1)) brkPos contPos, m') ∧
                  MInv g σ' m' ∧ RetOK g o m' := by
              intro σ2 σ3 m3 hm3 hi hx'
              have r1 := lbl_step hlcont m3
              obtain ⟨m4, r2, hm4⟩ := holeOpt g ok hci hi hnc.2.2.1 (by omega) (by omega) hat_i hm3
              have r3 := jmp_to ok.nodup hjmp hlbegin m4
              obtain ⟨m5, r4, hm5, hr5⟩ := ihk σ3 m4 hx' hm4
              exact ⟨m5, r1.trans (r2.trans (r3.trans r4)), hm5, hr5⟩
            simp only [execF] at hx
            cases hv : evalE σ e with
            | none => simp [hv] at hx
            | some r =>
              obtain ⟨v, σ1⟩ := r
              simp only [hv] at hx
              have r0 := lbl_step hlbegin m
              obtain ⟨m1, r1, hm1, hrep⟩ := hole g ok hce hv hnc.2.1 (by omega) (by omega) hat_e hm
              obtain ⟨m2, sm2, r2⟩ := je_reach ok.nodup te v m1 hat_j hlbrk hrep
              have hm2 := hm1.same sm2
              by_cases hv0 : v = 0
              · simp only [hv0, if_true, FRes.done.injEq] at hx
                obtain ⟨rfl, rfl⟩ := hx
                simp only [hv0, if_true] at r2
                refine ⟨m2, reach_to (r0.trans (r1.trans (r2.trans (lbl_step hlbrk m2)))) ?_, hm2, retOK_of_ne (fun v => by simp)⟩
                simp only [tgt]; omega
              · simp only [hv0, if_false] at hx r2
                cases hb : execF g.R k body σ1 with
                | timeout => simp [hb] at hx
                | undef => simp [hb] at hx
                | unsupported => simp [hb] at hx
                | done ob σ2 =>
                  obtain ⟨m3, r3, hm3, hr3⟩ := ihb k (by omega) σ1 ob σ2 hb ⟨some u0, some (u0 + 1), ctx.sw⟩ ki c1e (u0 + 2) cb kb c1b u1b hcb hK
                    hnc.2.2.2 (by omega) _ _ _ hat_b hctx' m2 hm2
                  have r03 := r0.trans (r1.trans (r2.trans r3))
                  cases ob with
                  | normal =>
                    simp only [hb] at hx
                    cases hi : evalOpt σ2 inc with
                    | none => simp [hi] at hx
                    | some σ3 =>
                      simp only [hi] at hx
                      obtain ⟨m', r4, hm', hr'⟩ := hnext σ2 σ3 m3 hm3 hi hx
                      exact ⟨m', r03.trans r4, hm', hr'⟩
                  | cont =>
                    simp only [hb] at hx
                    cases hi : evalOpt σ2 inc with
                    | none => simp [hi] at hx
                    | some σ3 =>
                      simp only [hi] at hx
                      obtain ⟨m', r4, hm', hr'⟩ := hnext σ2 σ3 m3 hm3 hi hx
                      exact ⟨m', r03.trans r4, hm', hr'⟩
                  | brk =>
                    simp only [hb, FRes.done.injEq] at hx
                    obtain ⟨rfl, rfl⟩ := hx
                    refine ⟨m3, reach_to (r03.trans (lbl_step hlbrk m3)) ?_, hm3, retOK_of_ne (fun v => by simp)⟩
                    simp only [tgt]; omega
                  | ret w =>
                    simp only [hb, FRes.done.injEq] at hx
                    obtain ⟨rfl, rfl⟩ := hx
                    exact ⟨m3, r03, hm3, hr3⟩
        -- the first clause, then the loop
        cases init with
        | none =>
          simp only [compileOpt, Option.some.injEq, Prod.mk.injEq] at hc0
          obtain ⟨rfl, _, _⟩ := hc0
          exact loop (n + 1) (Nat.le_refl _) σ m hx hm
        | some i =>
          simp only [execF] at hx
          cases hv : evalE σ i with
          | none => simp [hv] at hx
          | some r =>
            obtain ⟨v, σ0⟩ := r
            simp only [hv] at hx
            obtain ⟨m0, r0, hm0⟩ := holeOpt g ok (σ' := σ0) hc0 (by simp [evalOpt, hv]) hnc.1 (by omega) (by omega) hat_0 hm
            obtain ⟨m', r1, hm', hr'⟩ := loop n (by omega) σ0 m0 hx hm0
            exact ⟨m', r0.trans r1, hm', hr'⟩

theorem sim_doWhile (g : Cfg) (ok : g.OK) (n : Nat) (body : FStmt) (e : E) (ihb : SimS g n body)
    (ihs : SimS g n (.doWhile body e)) : SimS g (n + 1) (.doWhile body e) := by
  intro σ o σ' hx ctx k0 c0 u0 code k1 c1 u1 hc hK hnc hd pos brkPos contPos hat hctx m hm
  have hc0 := hc
  have hat0 := hat
  have hnc0 := hnc
  have hd0 := hd
  have hK0 := hK
  simp only [compileF] at hc
  cases hcb : compileF g.tys g.off g.toff g.R ⟨some u0, some (u0 + 1), ctx.sw⟩ k0 (c0 + 1) (u0 + 2) body with
  | none => simp [hcb] at hc
  | some rb =>
    obtain ⟨cb, kb, c1b, u1b⟩ := rb
    simp only [hcb, Option.map_eq_some_iff, Prod.mk.injEq] at hc
    obtain ⟨⟨te, ce, ke, c1e⟩, hce, hcode, hk1, _, _⟩ := hc
    have hk1 : ke = k1 := hk1
    have hK : ke ≤ g.K := by omega
    have hke := (compileJ_facts _ _ _ _ _ _ _ _ _ _ hce).k
    simp only [noConflictF, Bool.and_eq_true] at hnc
    simp only [depthF] at hd
    subst hcode
    simp only [List.map_append, List.map_cons, List.map_nil, enc_emb, enc_condJump, enc] at hat
    rw [At_cons] at hat; obtain ⟨hlbegin, hat⟩ := hat
    rw [At_append] at hat; obtain ⟨hat_b, hat⟩ := hat
    rw [At_cons] at hat; obtain ⟨hlcont, hat⟩ := hat
    rw [At_append] at hat; obtain ⟨hat_e, hat⟩ := hat
    rw [At_append] at hat; obtain ⟨hat_j, hat⟩ := hat
    rw [At_cons] at hat; obtain ⟨hlbrk, _⟩ := hat
    simp only [List.length_append, length_J, cmpZeroSeq_length, List.length_cons, List.length_nil, List.length_map,
      Nat.zero_add, Nat.reduceAdd] at hlcont hat_e hat_j hlbrk
    have hlen : (FI.lbl (.s (.begin_ c0)) :: (cb ++ (FI.lbl (.s (.uniq (u0 + 1))) :: (embs ce ++
        (condJump .ne te (.s (.begin_ c0)) ++ [FI.lbl (.s (.uniq u0))]))))).length = 1 + cb.length + 1 + ce.length + 2 + 1 := by
      simp only [List.length_append, length_embs, length_condJump, List.length_cons, List.length_nil]; omega
    rw [hlen]
    have hctx' : CtxOK g ⟨some u0, some (u0 + 1), ctx.sw⟩ (pos + 1 + cb.length + 1 + ce.length + 2) (pos + 1 + cb.length) := by
      refine ⟨fun b h => ?_, fun ct h => ?_⟩
      · simp only [Option.some.injEq] at h; subst h; exact hlbrk
      · simp only [Option.some.injEq] at h; subst h; exact hlcont
    -- the part after the body: continue label, condition, `jne .L.begin`
    have htest : ∀ (σ2 σ3 : Env) (v : Int) (m3 : State), MInv g σ2 m3 → evalE σ2 e = some (v, σ3) →
        (if v ≠ 0 then execF g.R n (.doWhile body e) σ3 else .done .normal σ3) = .done o σ' →
        ∃ m', Reach g.q (pos + 1 + cb.length, m3) (tgt g o (pos + (1 + cb.length + 1 + ce.length + 2 + 1)) brkPos contPos, m') ∧
          MInv g σ' m' ∧ RetOK g o m' := by
      intro σ2 σ3 v m3 hm3 hv hx'
      have r1 := lbl_step hlcont m3
      obtain ⟨m4, r2, hm4, hrep⟩ := hole g ok hce hv hnc.2 hK (by omega) hat_e hm3
      obtain ⟨m5, sm5, r3⟩ := jne_reach ok.nodup te v m4 hat_j hlbegin hrep
      have hm5 := hm4.same sm5
      by_cases hv0 : v = 0
      · simp only [hv0, ne_eq, not_true_eq_false, if_false, FRes.done.injEq] at hx' r3
        obtain ⟨rfl, rfl⟩ := hx'
        refine ⟨m5, reach_to (r1.trans (r2.trans (r3.trans (lbl_step hlbrk m5)))) ?_, hm5, retOK_of_ne (fun v => by simp)⟩
        simp only [tgt]; omega
      · simp only [ne_eq, hv0, not_false_eq_true, if_true] at hx' r3
        obtain ⟨m6, r4, hm6, hr6⟩ := ihs σ3 o σ' hx' ctx k0 c0 u0 _ k1 c1 u1 hc0 hK0 hnc0 hd0 pos brkPos contPos hat0 hctx m5 hm5
        rw [hlen] at r4
        exact ⟨m6, r1.trans (r2.trans (r3.trans r4)), hm6, hr6⟩
    simp only [execF] at hx
    have r0 := lbl_step hlbegin m
    cases hb : execF g.R n body σ with
    | timeout => simp [hb] at hx
    | undef => simp [hb] at hx
    | unsupported => simp [hb] at hx
    | done ob σ2 =>
      obtain ⟨m3, r3, hm3, hr3⟩ := ihb σ ob σ2 hb ⟨some u0, some (u0 + 1), ctx.sw⟩ k0 (c0 + 1) (u0 + 2) cb kb c1b u1b hcb (by omega) hnc.1
        (by omega) _ _ _ hat_b hctx' m hm
      have r03 := r0.trans r3
      cases ob with
      | normal =>
        simp only [hb] at hx
        cases hv : evalE σ2 e with
        | none => simp [hv] at hx
        | some r =>
          obtain ⟨v, σ3⟩ := r
          simp only [hv] at hx
          obtain ⟨m', r4, hm', hr'⟩ := htest σ2 σ3 v m3 hm3 hv hx
          exact ⟨m', r03.trans r4, hm', hr'⟩
      | cont =>
        simp only [hb] at hx
        cases hv : evalE σ2 e with
        | none => simp [hv] at hx
        | some r =>
          obtain ⟨v, σ3⟩ := r
          simp only [hv] at hx
          obtain ⟨m', r4, hm', hr'⟩ := htest σ2 σ3 v m3 hm3 hv hx
          exact ⟨m', r03.trans r4, hm', hr'⟩
      | brk =>
        simp only [hb, FRes.done.injEq] at hx
        obtain ⟨rfl, rfl⟩ := hx
        refine ⟨m3, reach_to (r03.trans (lbl_step hlbrk m3)) ?_, hm3, retOK_of_ne (fun v => by simp)⟩
        simp only [tgt]; omega
      | ret w =>
        simp only [hb, FRes.done.injEq] at hx
        obtain ⟨rfl, rfl⟩ := hx
        exact ⟨m3, r03, hm3, hr3⟩

end ChibiVerif.C03Fun
