/-
C06, argument conversions: the machine side.  How a converted integer-class value travels from %rax to the callee's parameter
object: `push %rax` / `pop argreg64[r]` (register argument), `push %rax` (stack argument, read in place by the callee),
`store_gp` of the prologue, and what each side relies on.

`LowHolds t x w`: the low `sizeof t` bytes of the 8-byte register / stack slot `x` are the object representation of `w` — all
that a chibicc-compiled callee reads of an integer-class argument.
-/
import ChibiVerif.Model.C06Args
import ChibiVerif.Lemmas.C01MemLemmas

namespace ChibiVerif.C06Args
open ChibiVerif.X86 ChibiVerif.Asm ChibiVerif.Spec.IntSpec ChibiVerif.C01
open ChibiVerif.Gen.Templates (argreg8 argreg16 argreg32 argreg64)

/-- the r-th INTEGER argument register -/
def gpReg : Nat → Reg
  | 0 => .rdi | 1 => .rsi | 2 => .rdx | 3 => .rcx | 4 => .r8 | _ => .r9

/-- the generated `argreg` tables name the psABI registers rdi rsi rdx rcx r8 r9 at the four widths -/
theorem argreg_tables : ∀ r < 6,
    regOf (regName argreg64 r) = some (gpReg r, .w64) ∧ regOf (regName argreg32 r) = some (gpReg r, .w32) ∧
    regOf (regName argreg16 r) = some (gpReg r, .w16) ∧ regOf (regName argreg8 r) = some (gpReg r, .w8) ∧
    gpReg r ≠ .rsp ∧ gpReg r ≠ .rax ∧ gpReg r ≠ .rbp := by decide

def LowHolds (t : ITy) (x : BitVec 64) (w : Int) : Prop :=
  t.inRange w ∧ ((x.toNat % 2 ^ (8 * t.size) : Nat) : Int) = w % (2 ^ (8 * t.size) : Nat)

/-- the representation invariant of codegen.c implies what the callee needs -/
theorem represents_low (t : ITy) (x : BitVec 64) (w : Int) (h : Represents t x w) : LowHolds t x w := by
  refine ⟨h.1, ?_⟩
  have h2 := h.2
  cases t <;> simp [ITy.size] at * <;> omega

theorem get_write8 (s : State) (a : BitVec 64) (v : BitVec 8) (r : Reg) : (s.write8 a v).get r = s.get r := rfl
theorem get_write16 (s : State) (a : BitVec 64) (v : BitVec 16) (r : Reg) : (s.write16 a v).get r = s.get r := by
  simp only [State.write16, get_write8]
theorem get_write32 (s : State) (a : BitVec 64) (v : BitVec 32) (r : Reg) : (s.write32 a v).get r = s.get r := by
  simp only [State.write32, get_write16]
theorem get_write64 (s : State) (a v : BitVec 64) (r : Reg) : (s.write64 a v).get r = s.get r := by
  simp only [State.write64, get_write32]

theorem step_push_rax (s : State) :
    X86.step ⟨"push", [.r "%rax"]⟩ s = some ((s.set .rsp (s.get .rsp - 8)).write64 (s.get .rsp - 8) (s.get .rax)) := rfl

theorem step_pop_arg (r : Nat) (hr : r < 6) (s : State) :
    X86.step ⟨"pop", [.r (regName argreg64 r)]⟩ s = some ((s.set .rsp (s.get .rsp + 8)).set (gpReg r) (s.read64 (s.get .rsp))) := by
  have : r = 0 ∨ r = 1 ∨ r = 2 ∨ r = 3 ∨ r = 4 ∨ r = 5 := by omega
  rcases this with rfl | rfl | rfl | rfl | rfl | rfl <;> rfl

/-- the state after `push %rax` -/
def pushed (s : State) : State := (s.set .rsp (s.get .rsp - 8)).write64 (s.get .rsp - 8) (s.get .rax)

theorem pushed_rsp (s : State) : (pushed s).get .rsp = s.get .rsp - 8 := by
  simp [pushed, get_write64]

theorem pushed_slot (s : State) : (pushed s).read64 ((pushed s).get .rsp) = s.get .rax := by
  rw [pushed_rsp]; exact read64_write64 _ _ _

theorem pushed_get (s : State) (r : Reg) (h : r ≠ .rsp) : (pushed s).get r = s.get r := by
  simp [pushed, get_write64, State.get_set_ne _ _ _ _ h]

/-- `push %rax; pop argreg64[r]` after `code`: the register receives %rax unchanged, %rsp and %rbp are as before the push -/
theorem pass_reg (code : List Ins) (r : Nat) (hr : r < 6) (s s1 : State) (h : X86.run code s = some s1) :
    ∃ s', X86.run (passRegSeq code r) s = some s' ∧ s'.get (gpReg r) = s1.get .rax ∧ s'.get .rsp = s1.get .rsp ∧
      s'.get .rbp = s1.get .rbp := by
  obtain ⟨_, _, _, _, hsp, _, hbp⟩ := argreg_tables r hr
  refine ⟨((pushed s1).set .rsp ((pushed s1).get .rsp + 8)).set (gpReg r) ((pushed s1).read64 ((pushed s1).get .rsp)), ?_, ?_, ?_, ?_⟩
  · simp only [passRegSeq, run_append, h, Option.bind, X86.run, step_push_rax, step_pop_arg r hr]
    rfl
  · rw [State.get_set_same, pushed_slot]
  · rw [State.get_set_ne _ _ _ _ (Ne.symm hsp), State.get_set_same, pushed_rsp, BitVec.sub_add_cancel]
  · rw [State.get_set_ne _ _ _ _ (Ne.symm hbp), State.get_set_ne _ _ _ _ (by decide), pushed_get _ _ (by decide)]

/-- `push %rax` after `code`: the 8-byte slot at the new %rsp holds %rax -/
theorem pass_stack (code : List Ins) (s s1 : State) (h : X86.run code s = some s1) :
    ∃ s', X86.run (passStackSeq code) s = some s' ∧ s'.read64 (s'.get .rsp) = s1.get .rax ∧
      s'.get .rsp = s1.get .rsp - 8 := by
  refine ⟨pushed s1, ?_, pushed_slot s1, pushed_rsp s1⟩
  simp only [passStackSeq, run_append, h, Option.bind, X86.run, step_push_rax]
  rfl

/-! ### the callee -/

theorem step_store8 (r : Nat) (hr : r < 6) (off : Int) (c : State) :
    X86.step ⟨"mov", [.r (regName argreg8 r), .m off "%rbp"]⟩ c =
      some (c.write8 (c.ea off .rbp) ((c.get (gpReg r)).setWidth 8)) := by
  have : r = 0 ∨ r = 1 ∨ r = 2 ∨ r = 3 ∨ r = 4 ∨ r = 5 := by omega
  rcases this with rfl | rfl | rfl | rfl | rfl | rfl <;> rfl
theorem step_store16 (r : Nat) (hr : r < 6) (off : Int) (c : State) :
    X86.step ⟨"mov", [.r (regName argreg16 r), .m off "%rbp"]⟩ c =
      some (c.write16 (c.ea off .rbp) ((c.get (gpReg r)).setWidth 16)) := by
  have : r = 0 ∨ r = 1 ∨ r = 2 ∨ r = 3 ∨ r = 4 ∨ r = 5 := by omega
  rcases this with rfl | rfl | rfl | rfl | rfl | rfl <;> rfl
theorem step_store32 (r : Nat) (hr : r < 6) (off : Int) (c : State) :
    X86.step ⟨"mov", [.r (regName argreg32 r), .m off "%rbp"]⟩ c =
      some (c.write32 (c.ea off .rbp) ((c.get (gpReg r)).setWidth 32)) := by
  have : r = 0 ∨ r = 1 ∨ r = 2 ∨ r = 3 ∨ r = 4 ∨ r = 5 := by omega
  rcases this with rfl | rfl | rfl | rfl | rfl | rfl <;> rfl
theorem step_store64 (r : Nat) (hr : r < 6) (off : Int) (c : State) :
    X86.step ⟨"mov", [.r (regName argreg64 r), .m off "%rbp"]⟩ c =
      some (c.write64 (c.ea off .rbp) ((c.get (gpReg r)).setWidth 64)) := by
  have : r = 0 ∨ r = 1 ∨ r = 2 ∨ r = 3 ∨ r = 4 ∨ r = 5 := by omega
  rcases this with rfl | rfl | rfl | rfl | rfl | rfl <;> rfl

theorem run_store1 (r : Nat) (hr : r < 6) (off : Int) (c : State) :
    X86.run (storeGpSeq r off 1) c = some (c.write8 (c.ea off .rbp) ((c.get (gpReg r)).setWidth 8)) := by
  simp [storeGpSeq, X86.run, step_store8 r hr]
theorem run_store2 (r : Nat) (hr : r < 6) (off : Int) (c : State) :
    X86.run (storeGpSeq r off 2) c = some (c.write16 (c.ea off .rbp) ((c.get (gpReg r)).setWidth 16)) := by
  simp [storeGpSeq, X86.run, step_store16 r hr]
theorem run_store4 (r : Nat) (hr : r < 6) (off : Int) (c : State) :
    X86.run (storeGpSeq r off 4) c = some (c.write32 (c.ea off .rbp) ((c.get (gpReg r)).setWidth 32)) := by
  simp [storeGpSeq, X86.run, step_store32 r hr]
theorem run_store8 (r : Nat) (hr : r < 6) (off : Int) (c : State) :
    X86.run (storeGpSeq r off 8) c = some (c.write64 (c.ea off .rbp) ((c.get (gpReg r)).setWidth 64)) := by
  simp [storeGpSeq, X86.run, step_store64 r hr]

theorem regs_write8 (s : State) (a : BitVec 64) (v : BitVec 8) : (s.write8 a v).regs = s.regs := rfl
theorem regs_write16 (s : State) (a : BitVec 64) (v : BitVec 16) : (s.write16 a v).regs = s.regs := by
  simp only [State.write16, regs_write8]
theorem regs_write32 (s : State) (a : BitVec 64) (v : BitVec 32) : (s.write32 a v).regs = s.regs := by
  simp only [State.write32, regs_write16]
theorem regs_write64 (s : State) (a v : BitVec 64) : (s.write64 a v).regs = s.regs := by
  simp only [State.write64, regs_write32]

/-- **`store_gp`**: whatever else the register holds, if its low `sizeof t` bytes are the representation of `w`, the
    prologue's store makes the parameter object at `off(%rbp)` hold `w`; no register changes -/
theorem store_gp_ok (t : ITy) (r : Nat) (hr : r < 6) (off : Int) (c : State) (w : Int)
    (h : LowHolds t (c.get (gpReg r)) w) :
    ∃ c', X86.run (storeGpSeq r off t.size) c = some c' ∧ MemHolds t c' (c.ea off .rbp) w ∧ c'.regs = c.regs := by
  obtain ⟨hin, hlow⟩ := h
  have h1 := run_store1 r hr off c
  have h2 := run_store2 r hr off c
  have h4 := run_store4 r hr off c
  have h8 := run_store8 r hr off c
  cases t
  case bool => exact ⟨_, h1, ⟨hin, by rw [read8_write8_same]; simp [ITy.size] at hlow ⊢; omega⟩, regs_write8 _ _ _⟩
  case i8 => exact ⟨_, h1, ⟨hin, by rw [read8_write8_same]; simp [ITy.size] at hlow ⊢; omega⟩, regs_write8 _ _ _⟩
  case u8 => exact ⟨_, h1, ⟨hin, by rw [read8_write8_same]; simp [ITy.size] at hlow ⊢; omega⟩, regs_write8 _ _ _⟩
  case i16 => exact ⟨_, h2, ⟨hin, by rw [read16_write16]; simp [ITy.size] at hlow ⊢; omega⟩, regs_write16 _ _ _⟩
  case u16 => exact ⟨_, h2, ⟨hin, by rw [read16_write16]; simp [ITy.size] at hlow ⊢; omega⟩, regs_write16 _ _ _⟩
  case i32 => exact ⟨_, h4, ⟨hin, by rw [read32_write32]; simp [ITy.size] at hlow ⊢; omega⟩, regs_write32 _ _ _⟩
  case u32 => exact ⟨_, h4, ⟨hin, by rw [read32_write32]; simp [ITy.size] at hlow ⊢; omega⟩, regs_write32 _ _ _⟩
  case i64 => exact ⟨_, h8, ⟨hin, by rw [read64_write64]; simp [ITy.size] at hlow ⊢; omega⟩, regs_write64 _ _ _⟩
  case u64 => exact ⟨_, h8, ⟨hin, by rw [read64_write64]; simp [ITy.size] at hlow ⊢; omega⟩, regs_write64 _ _ _⟩

/-! ### a stack argument is read in place -/

theorem append_toNat {n m : Nat} (x : BitVec n) (y : BitVec m) : (x ++ y).toNat = x.toNat * 2 ^ m + y.toNat := by
  rw [BitVec.toNat_append, Nat.shiftLeft_eq, Nat.mul_comm, ← Nat.two_pow_add_eq_or_of_lt y.isLt, Nat.mul_comm]

theorem read16_nat (s : State) (a : BitVec 64) : (s.read16 a).toNat = (s.read8 (a + 1)).toNat * 256 + (s.read8 a).toNat := by
  simp only [State.read16, State.read8, append_toNat]
theorem read32_nat (s : State) (a : BitVec 64) : (s.read32 a).toNat = (s.read16 (a + 2)).toNat * 65536 + (s.read16 a).toNat := by
  simp only [State.read32, append_toNat]
theorem read64_nat (s : State) (a : BitVec 64) : (s.read64 a).toNat = (s.read32 (a + 4)).toNat * 4294967296 + (s.read32 a).toNat := by
  simp only [State.read64, append_toNat]

/-- the callee's parameter object *is* the low bytes of the 8-byte slot the caller pushed (little endian) -/
theorem slot_holds (t : ITy) (s : State) (a : BitVec 64) (w : Int) (h : LowHolds t (s.read64 a) w) : MemHolds t s a w := by
  obtain ⟨hin, hlow⟩ := h
  refine ⟨hin, ?_⟩
  have h8 := (s.read8 a).isLt
  have h16 := (s.read16 a).isLt
  have h32 := (s.read32 a).isLt
  have e64 := read64_nat s a
  have e32 := read32_nat s a
  have e16 := read16_nat s a
  cases t <;> simp [ITy.size] at hlow ⊢ <;> omega

/-! ### what the callee reads back -/

theorem memHolds_set (t : ITy) (s : State) (r : Reg) (x a : BitVec 64) (w : Int) (h : MemHolds t s a w) :
    MemHolds t (s.set r x) a w := h

/-- `lea off(%rbp), %rax; load`: a use of the parameter in the callee's body -/
theorem param_read_ok (t : ITy) (off : Int) (c : State) (w : Int) (h : MemHolds t c (c.ea off .rbp) w) :
    ∃ c', X86.run (paramReadSeq t off) c = some c' ∧ Represents t (c'.get .rax) w := by
  have hstep : X86.step ⟨"lea", [.m off "%rbp", .r "%rax"]⟩ c = some (c.set .rax (c.ea off .rbp)) := rfl
  have hm : MemHolds t (c.set .rax (c.ea off .rbp)) ((c.set .rax (c.ea off .rbp)).get .rax) w := by
    rw [State.get_set_same]; exact memHolds_set t c .rax _ _ w h
  obtain ⟨c', h1, h2, _⟩ := load_ok t _ w hm
  exact ⟨c', by simp only [paramReadSeq, X86.run, hstep]; exact h1, h2⟩

/-! ### `_Bool` -/

theorem represents_bool (x : BitVec 64) (w : Int) (h : Represents .bool x w) :
    (x = 0#64 ∨ x = 1#64) ∧ (x = 1#64 ↔ w ≠ 0) := by
  obtain ⟨⟨h0, h1⟩, h2⟩ := h
  simp [ITy.min, ITy.max, ITy.signed, ITy.bits] at h0 h1 h2
  have : w = 0 ∨ w = 1 := by omega
  rcases this with rfl | rfl
  · have : x = 0#64 := by apply BitVec.eq_of_toNat_eq; simp; omega
    subst this; simp
  · have : x = 1#64 := by apply BitVec.eq_of_toNat_eq; simp; omega
    subst this; simp

/-! ### which instructions the argument loop adds -/

/-- prototyped parameter of integer type, argument of integer type: exactly the cast-table sequence of C01 -/
theorem argSeq_int (frm to : ITy) (variadic : Bool) :
    argSeq variadic (some (descr to)) (descr frm) = some (castSeq frm to) := by
  cases frm <;> cases to <;> cases variadic <;> rfl

/-- trailing argument of integer type (variadic callee, or no prototype): no instruction -/
theorem argSeq_tail_int (frm : ITy) : argSeq true none (descr frm) = some [] := by
  cases frm <;> rfl

/-- the integer promotions change the type, not the register image -/
theorem represents_promote (t : ITy) (x : BitVec 64) (v : Int) (h : Represents t x v) : Represents (promote t) x v := by
  cases t <;> first | exact h | (unfold_spec; simp [promote, ITy.rank, ITy.min, ITy.max, ITy.signed, ITy.bits] at *; omega)

end ChibiVerif.C06Args
