/-
Lemmas about Model/IfParse.lean, part 2: every tree the parser delivers is derived by the C11 grammar of
Spec/IfGrammar.lean for exactly the tokens consumed.  Core Lean only.
-/
import ChibiVerif.Lemmas.IfParseLemmas
import ChibiVerif.Spec.IfGrammar

namespace ChibiVerif.IfParse
open ChibiVerif.PPExpr ChibiVerif.CondIncl ChibiVerif.Spec.IfGrammar
open ChibiVerif.Gen.C10IfParse

-- ------------------------------------------------------------------ the regenerated table against the C11 table

/-- the C11 operator a table entry stands for: a swapped `<` / `<=` is `>` / `>=` -/
def c11of (op : BinOp) (sw : Bool) : BinOp :=
  if sw then (match op with | .lt => .gt | .le => .ge | op => op) else op

/-- an entry is one the model understands: swapped only for `<` `<=`, and no unswapped `>` `>=` node kinds -/
def entryOK (op : BinOp) (sw : Bool) : Bool :=
  if sw then op == .lt || op == .le else op != .gt && op != .ge

/-- **the table regenerated from parse.c is the table of C11 6.5.5–6.5.14**: every operator the function of level `d` tests
    for is an operator of C11's level `d`, with the node kind (and operand order) that denotes it – and the table has exactly
    the ten levels -/
theorem table_c11 : top = 10 ∧
    ∀ d ∈ List.range 11, ∀ e ∈ opsAt d, (e.1, c11of e.2.1 e.2.2) ∈ c11Ops d ∧ entryOK e.2.1 e.2.2 = true := by decide

/-- … and conversely every operator of C11's level `d` is tested for at level `d` -/
theorem table_c11_complete : ∀ d ∈ List.range 11, ∀ e ∈ c11Ops d, ∃ x ∈ opsAt d, x.1 = e.1 ∧ c11of x.2.1 x.2.2 = e.2 := by decide

theorem unary_c11 : (∀ e ∈ unaryOps, e ∈ c11Unary) ∧ (∀ e ∈ c11Unary, e ∈ unaryOps) := by decide

theorem opsAt_large (d : Nat) (h : 10 < d) : opsAt d = [] := by
  cases d with
  | zero => rfl
  | succ d =>
    show ((chain.reverse[d]?).map (·.2)).getD [] = []
    have : chain.reverse[d]? = none := by
      apply List.getElem?_eq_none
      have : chain.reverse.length = 10 := by decide
      omega
    rw [this]; rfl

theorem mkNode_binTree (op : BinOp) (sw : Bool) (h : entryOK op sw = true) (a b : PT) :
    mkNode op sw a b = binTree (c11of op sw) a b := by
  cases sw <;> cases op <;> simp_all [entryOK, mkNode, binTree, c11of]

theorem lookupOp_c11 {d : Nat} {s : String} {op : BinOp} {sw : Bool} (h : lookupOp d s = some (op, sw)) :
    ∃ d', d = d' + 1 ∧ (s, c11of op sw) ∈ c11Ops (d' + 1) ∧ ∀ a b, mkNode op sw a b = binTree (c11of op sw) a b := by
  unfold lookupOp at h
  simp only [Option.map_eq_some_iff] at h
  obtain ⟨e, hf, he⟩ := h
  have hmem := List.mem_of_find?_eq_some hf
  have hs := List.find?_some hf
  simp only [beq_iff_eq] at hs
  by_cases hd : 10 < d
  · rw [opsAt_large d hd] at hmem; cases hmem
  · have hr : d ∈ List.range 11 := by simp only [List.mem_range]; omega
    have := table_c11.2 d hr e hmem
    obtain ⟨s', op', sw'⟩ := e
    simp only at hs he this
    cases he
    subst hs
    cases d with
    | zero => simp [opsAt] at hmem
    | succ d' => exact ⟨d', rfl, this.1, mkNode_binTree op sw this.2⟩

theorem lookupUn_c11 {s : String} {op : UnOp} (h : lookupUn s = some op) : (s, op) ∈ c11Unary := by
  unfold lookupUn at h
  simp only [Option.map_eq_some_iff] at h
  obtain ⟨e, hf, he⟩ := h
  have hmem := List.mem_of_find?_eq_some hf
  have hs := List.find?_some hf
  simp only [beq_iff_eq] at hs
  obtain ⟨s', op'⟩ := e
  simp only at hs he
  subst hs; subst he
  exact unary_c11.1 _ hmem

theorem mkUnary_unTree (op : UnOp) (e : PT) : mkUnary op e = unTree op e := by cases op <;> rfl

-- ------------------------------------------------------------------ soundness

/-- what a successful result of an entry point means -/
def Snd : Mode → Res → List PTok → Prop
  | .expr, r, ts => ∀ t rest, r = .ok (t, rest) → ∃ pre, ts = pre ++ rest ∧ Derives .expr pre t
  | .cond, r, ts => ∀ t rest, r = .ok (t, rest) → ∃ pre, ts = pre ++ rest ∧ Derives .cond pre t
  | .lvl d, r, ts => ∀ t rest, r = .ok (t, rest) → ∃ pre, ts = pre ++ rest ∧ Derives (.lvl d) pre t
  | .loop d node, r, ts => ∀ t rest, r = .ok (t, rest) → ∀ pre0, Derives (.lvl d) pre0 node →
      ∃ pre, ts = pre ++ rest ∧ Derives (.lvl d) (pre0 ++ pre) t

def PrevSnd (prev : Mode → List PTok → Res) : Prop := ∀ m ts, Snd m (prev m ts) ts

section
variable (prev : Mode → List PTok → Res) (hp : PrevSnd prev)
include hp

theorem primary_snd (ts : List PTok) : Snd (.lvl 0) (primary prev ts) ts := by
  intro t rest h
  cases ts with
  | nil => simp [primary] at h
  | cons x r =>
    cases x with
    | num v u =>
      simp only [primary, Except.ok.injEq, Prod.mk.injEq] at h
      obtain ⟨rfl, rfl⟩ := h
      exact ⟨[.num v u], rfl, .num v u⟩
    | other => simp [primary] at h
    | punct s =>
      unfold primary at h
      by_cases hs : s = "("
      · simp only [hs, if_true] at h
        split at h
        · cases h
        · have h1 := hp .expr r
          generalize prev .expr r = res at h h1
          match res, h1 with
          | .error e, _ => cases h
          | .ok (t', r'), h1 =>
            simp only at h
            generalize hsk : skipTok ")" r' = sk at h
            match sk, hsk with
            | .error e, _ => cases h
            | .ok r'', hsk =>
              simp only [Except.ok.injEq, Prod.mk.injEq] at h
              obtain ⟨rfl, rfl⟩ := h
              obtain ⟨pre, hpre, hd⟩ := h1 t' r' rfl
              have := skipTok_ok hsk
              subst this
              refine ⟨.punct "(" :: pre ++ [.punct ")"], ?_, .paren hd⟩
              rw [hs, hpre]; simp
      · simp only [hs, if_false] at h; cases h

theorem postfixP_snd (ts : List PTok) : Snd (.lvl 0) (postfixP prev ts) ts := by
  intro t rest h
  have h1 := primary_snd prev hp ts
  unfold postfixP at h
  generalize primary prev ts = res at h h1
  match res, h1 with
  | .error e, _ => cases h
  | .ok (t', r), h1 =>
    simp only at h
    split at h
    · split at h
      · cases h
      · exact h1 t rest h
    · exact h1 t rest h

theorem unary_snd (ts : List PTok) : Snd (.lvl 0) (unary prev ts) ts := by
  intro t rest h
  unfold unary at h
  split at h
  · next s r =>
    split at h
    · next op hop =>
      have h1 := hp (.lvl 0) r
      generalize prev (.lvl 0) r = res at h h1
      match res, h1 with
      | .error e, _ => cases h
      | .ok (t', r'), h1 =>
        simp only [Except.ok.injEq, Prod.mk.injEq] at h
        obtain ⟨rfl, rfl⟩ := h
        obtain ⟨pre, hpre, hd⟩ := h1 t' r' rfl
        refine ⟨.punct s :: pre, by rw [hpre]; rfl, ?_⟩
        rw [mkUnary_unTree]
        exact .unop (lookupUn_c11 hop) hd
    · split at h
      · cases h
      · exact postfixP_snd prev hp _ t rest h
  · exact postfixP_snd prev hp _ t rest h

theorem loopAt_snd (d : Nat) (node : PT) (ts : List PTok) : Snd (.loop d node) (loopAt prev d node ts) ts := by
  intro t rest h pre0 hnode
  unfold loopAt at h
  split at h
  · next s r =>
    split at h
    · next op sw hop =>
      obtain ⟨d', rfl, hmem, hmk⟩ := lookupOp_c11 hop
      have h1 := hp (.lvl (d' + 1 - 1)) r
      generalize prev (.lvl (d' + 1 - 1)) r = res at h h1
      match res, h1 with
      | .error e, _ => cases h
      | .ok (rhs, r'), h1 =>
        simp only at h
        obtain ⟨p1, hp1, hd1⟩ := h1 rhs r' rfl
        have hnode' : Derives (.lvl (d' + 1)) (pre0 ++ .punct s :: p1) (mkNode op sw node rhs) := by
          rw [hmk]; exact .binop hmem hnode (by simpa using hd1)
        obtain ⟨p2, hp2, hd2⟩ := hp (.loop (d' + 1) (mkNode op sw node rhs)) r' t rest h _ hnode'
        refine ⟨.punct s :: (p1 ++ p2), ?_, ?_⟩
        · rw [hp1, hp2]; simp
        · simpa using hd2
    · simp only [Except.ok.injEq, Prod.mk.injEq] at h
      obtain ⟨rfl, rfl⟩ := h
      exact ⟨[], rfl, by simpa using hnode⟩
  · simp only [Except.ok.injEq, Prod.mk.injEq] at h
    obtain ⟨rfl, rfl⟩ := h
    exact ⟨[], rfl, by simpa using hnode⟩

theorem lvlD_snd (d : Nat) (ts : List PTok) : Snd (.lvl d) (lvlD prev d ts) ts := by
  induction d with
  | zero => exact unary_snd prev hp ts
  | succ d ih =>
    intro t rest h
    unfold lvlD at h
    generalize lvlD prev d ts = res at h ih
    match res, ih with
    | .error e, _ => cases h
    | .ok (node, r), ih =>
      simp only at h
      obtain ⟨pre0, hpre0, hd0⟩ := ih node r rfl
      obtain ⟨pre, hpre, hd⟩ := loopAt_snd prev hp (d+1) node r t rest h pre0 (.up hd0)
      exact ⟨pre0 ++ pre, by rw [hpre0, hpre]; simp, hd⟩

theorem condAt_snd (ts : List PTok) : Snd .cond (condAt prev ts) ts := by
  intro t rest h
  have h0 := lvlD_snd prev hp top ts
  rw [table_c11.1] at h0
  unfold condAt at h
  rw [table_c11.1] at h
  generalize lvlD prev 10 ts = res at h h0
  match res, h0 with
  | .error e, _ => cases h
  | .ok (c, r), h0 =>
    simp only at h
    obtain ⟨pc, hpc, hdc⟩ := h0 c r rfl
    have plain : ∀ {t rest}, (Except.ok (c, r) : Res) = .ok (t, rest) → ∃ pre, ts = pre ++ rest ∧ Derives .cond pre t := by
      intro t rest h
      simp only [Except.ok.injEq, Prod.mk.injEq] at h
      obtain ⟨rfl, rfl⟩ := h
      exact ⟨pc, hpc, .condUp hdc⟩
    split at h
    · next s r1 =>
      split at h
      · next hs =>
        split at h
        · cases h
        · have h1 := hp .expr r1
          generalize prev .expr r1 = res1 at h h1
          match res1, h1 with
          | .error e, _ => cases h
          | .ok (a, r2), h1 =>
            simp only at h
            obtain ⟨pa, hpa, hda⟩ := h1 a r2 rfl
            generalize hsk : skipTok ":" r2 = sk at h
            match sk, hsk with
            | .error e, _ => cases h
            | .ok r3, hsk =>
              simp only at h
              have := skipTok_ok hsk
              subst this
              have h2 := hp .cond r3
              generalize prev .cond r3 = res2 at h h2
              match res2, h2 with
              | .error e, _ => cases h
              | .ok (b, r4), h2 =>
                simp only [Except.ok.injEq, Prod.mk.injEq] at h
                obtain ⟨rfl, rfl⟩ := h
                obtain ⟨pb, hpb, hdb⟩ := h2 b r4 rfl
                refine ⟨pc ++ .punct "?" :: (pa ++ .punct ":" :: pb), ?_, .cond hdc hda hdb⟩
                rw [hpc, hs, hpa, hpb]; simp
      · exact plain h
    · exact plain h

theorem assignAt_snd (ts : List PTok) : Snd .cond (assignAt prev ts) ts := by
  intro t rest h
  have h0 := condAt_snd prev hp ts
  unfold assignAt at h
  generalize condAt prev ts = res at h h0
  match res, h0 with
  | .error e, _ => cases h
  | .ok (a, r), h0 =>
    simp only at h
    split at h
    · split at h
      · cases h
      · exact h0 t rest h
    · exact h0 t rest h

theorem exprAt_snd (ts : List PTok) : Snd .expr (exprAt prev ts) ts := by
  intro t rest h
  have h0 := assignAt_snd prev hp ts
  unfold exprAt at h
  generalize assignAt prev ts = res at h h0
  match res, h0 with
  | .error e, _ => cases h
  | .ok (a, r), h0 =>
    simp only at h
    obtain ⟨pa, hpa, hda⟩ := h0 a r rfl
    have plain : ∀ {t rest}, (Except.ok (a, r) : Res) = .ok (t, rest) → ∃ pre, ts = pre ++ rest ∧ Derives .expr pre t := by
      intro t rest h
      simp only [Except.ok.injEq, Prod.mk.injEq] at h
      obtain ⟨rfl, rfl⟩ := h
      exact ⟨pa, hpa, .exprUp hda⟩
    split at h
    · next s r1 =>
      split at h
      · next hs =>
        have h1 := hp .expr r1
        generalize prev .expr r1 = res1 at h h1
        match res1, h1 with
        | .error e, _ => cases h
        | .ok (b, r2), h1 =>
          simp only [Except.ok.injEq, Prod.mk.injEq] at h
          obtain ⟨rfl, rfl⟩ := h
          obtain ⟨pb, hpb, hdb⟩ := h1 b r2 rfl
          refine ⟨pa ++ .punct "," :: pb, ?_, .comma hda hdb⟩
          rw [hpa, hs, hpb]; simp
      · exact plain h
    · exact plain h

theorem step_snd : PrevSnd (step prev) := by
  intro m ts
  cases m with
  | expr => exact exprAt_snd prev hp ts
  | cond => exact condAt_snd prev hp ts
  | lvl d => exact lvlD_snd prev hp d ts
  | loop d node => exact loopAt_snd prev hp d node ts

end

theorem parseN_snd (f : Nat) : PrevSnd (parseN f) := by
  induction f with
  | zero =>
    intro m ts
    cases m <;> (intro t rest h; cases h)
  | succ f ih => exact step_snd (parseN f) ih

end ChibiVerif.IfParse
