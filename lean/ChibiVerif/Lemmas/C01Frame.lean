/-
C01: frame lemmas for the composition theorem `C01_value`.

* `safeInstr` — a syntactic criterion on decoded instructions: does not write memory, `%rsp` or `%rbp`; `exec_safe`
  proves that such an instruction preserves all three, `run_safe` lifts it to sequences.  Every conversion / unary /
  operator / load sequence of the model satisfies it (`castSeq_safe`, `unSeq_safe`, `opSeq_safe`, `loadSeq_safe`: by
  evaluation over the classified sequences).
* `push %rax` / `pop %rdi` against byte-addressed memory: what they write, and that nothing at or above the old `%rsp`
  (in particular no object of the frame) is disturbed.
* `Keeps m m'`: `%rsp`, `%rbp` and every byte at or above `%rsp` unchanged — what evaluating a pure expression guarantees.
-/
import ChibiVerif.Lemmas.C01Compose

namespace ChibiVerif.C01
open ChibiVerif.X86 ChibiVerif.Asm ChibiVerif.Spec.IntSpec ChibiVerif.Gen.CommonType ChibiVerif.C01Codegen

/-! ### instructions that leave memory, `%rsp` and `%rbp` alone -/

def scratchReg (r : Reg) : Bool := r != .rsp && r != .rbp

/-- the instruction writes neither memory nor `%rsp` nor `%rbp` -/
def safeInstr : Instr → Bool
  | .mov _ _ (.reg r) => scratchReg r
  | .mov _ _ _ => false
  | .movsx _ _ _ r | .movzx _ _ _ r => scratchReg r
  | .alu op _ _ (.reg r) => !op.writes || scratchReg r
  | .alu op _ _ _ => !op.writes
  | .imul _ _ r | .neg _ r | .not _ r | .inc _ r | .dec _ r | .shiftCl _ _ r | .shiftImm _ _ _ r | .setcc _ r
  | .lea _ _ r => scratchReg r
  | .cdq | .cqo | .idiv _ _ | .div _ _ => true
  | .push _ | .pop _ => false

def safeIns (i : Ins) : Bool :=
  match decode i with
  | some d => safeInstr d
  | none => true

/-- memory, `%rsp`, `%rbp` unchanged -/
structure Same (s s' : State) : Prop where
  mem : s'.mem = s.mem
  rsp : s'.get .rsp = s.get .rsp
  rbp : s'.get .rbp = s.get .rbp

theorem Same.refl (s : State) : Same s s := ⟨rfl, rfl, rfl⟩
theorem Same.trans {a b c : State} (h1 : Same a b) (h2 : Same b c) : Same a c :=
  ⟨h2.mem.trans h1.mem, h2.rsp.trans h1.rsp, h2.rbp.trans h1.rbp⟩

theorem scratch_ne {r : Reg} (h : scratchReg r = true) : Reg.rsp ≠ r ∧ Reg.rbp ≠ r := by
  cases r <;> simp [scratchReg] at h ⊢

theorem same_set (s : State) (r : Reg) (v : BitVec 64) (h : scratchReg r = true) : Same s (s.set r v) :=
  ⟨rfl, State.get_set_ne _ _ _ _ (scratch_ne h).1, State.get_set_ne _ _ _ _ (scratch_ne h).2⟩

theorem same_setW (s : State) (r : Reg) (w : W) (v : BitVec w.bits) (h : scratchReg r = true) : Same s (s.setW r w v) := by
  cases w <;> exact same_set _ _ _ h

theorem same_flagsValid (s : State) (b : Bool) : Same s { s with flagsValid := b } := ⟨rfl, rfl, rfl⟩

theorem same_aluExec (op : Alu) (w : W) (s : State) (a b : BitVec w.bits) : Same s (aluExec op w s a b).2 := by
  cases op <;> exact ⟨rfl, rfl, rfl⟩

theorem exec_safe (i : Instr) (s s' : State) (hs : safeInstr i = true) (h : exec i s = some s') : Same s s' := by
  cases i with
  | mov w src dst =>
    cases dst with
    | reg r => simp only [exec, State.dst, Option.some.injEq] at h; subst h; exact same_setW _ _ _ _ hs
    | imm n => simp [safeInstr] at hs
    | mem d b => simp [safeInstr] at hs
  | movsx ws wd src dst => simp only [exec, Option.some.injEq] at h; subst h; exact same_setW _ _ _ _ hs
  | movzx ws wd src dst => simp only [exec, Option.some.injEq] at h; subst h; exact same_setW _ _ _ _ hs
  | alu op w src dst =>
    cases dst with
    | imm n => simp [exec] at h
    | reg r =>
      simp only [exec] at h
      by_cases hw : op.writes = true
      · simp only [hw, if_true, State.dst, Option.some.injEq] at h
        subst h
        simp [safeInstr, hw] at hs
        exact (same_aluExec op w s _ _).trans (same_setW _ _ _ _ hs)
      · have hw' : op.writes = false := by simpa using hw
        simp only [hw', Bool.false_eq_true, if_false, Option.some.injEq] at h
        subst h
        exact same_aluExec op w s _ _
    | mem d b =>
      simp only [exec] at h
      have hw : op.writes = false := by simpa [safeInstr] using hs
      simp only [hw, Bool.false_eq_true, if_false, Option.some.injEq] at h
      subst h
      exact same_aluExec op w s _ _
  | imul w src dst =>
    simp only [exec, Option.some.injEq] at h; subst h
    exact (same_setW _ _ _ _ hs).trans (same_flagsValid _ _)
  | neg w dst =>
    simp only [exec, Option.some.injEq] at h; subst h
    exact (same_setW s _ _ _ hs).trans ⟨rfl, rfl, rfl⟩
  | not w dst => simp only [exec, Option.some.injEq] at h; subst h; exact same_setW _ _ _ _ hs
  | inc w dst =>
    simp only [exec, Option.some.injEq] at h; subst h
    exact (same_setW s _ _ _ hs).trans ⟨rfl, rfl, rfl⟩
  | dec w dst =>
    simp only [exec, Option.some.injEq] at h; subst h
    exact (same_setW s _ _ _ hs).trans ⟨rfl, rfl, rfl⟩
  | cdq => simp only [exec, Option.some.injEq] at h; subst h; exact same_setW _ _ _ _ rfl
  | cqo => simp only [exec, Option.some.injEq] at h; subst h; exact same_set _ _ _ rfl
  | idiv w src =>
    cases w with
    | w8 => simp [exec] at h
    | w16 => simp [exec] at h
    | w32 =>
      simp only [exec] at h
      split at h
      · exact absurd h (fun h => by cases h)
      · split at h
        · exact absurd h (fun h => by cases h)
        · simp only [Option.some.injEq] at h; subst h
          exact ((same_setW s .rax .w32 _ rfl).trans (same_setW _ .rdx .w32 _ rfl)).trans (same_flagsValid _ _)
    | w64 =>
      simp only [exec] at h
      split at h
      · exact absurd h (fun h => by cases h)
      · split at h
        · exact absurd h (fun h => by cases h)
        · simp only [Option.some.injEq] at h; subst h
          exact ((same_set s .rax _ rfl).trans (same_set _ .rdx _ rfl)).trans (same_flagsValid _ _)
  | div w src =>
    cases w with
    | w8 => simp [exec] at h
    | w16 => simp [exec] at h
    | w32 =>
      simp only [exec] at h
      split at h
      · exact absurd h (fun h => by cases h)
      · split at h
        · exact absurd h (fun h => by cases h)
        · simp only [Option.some.injEq] at h; subst h
          exact ((same_setW s .rax .w32 _ rfl).trans (same_setW _ .rdx .w32 _ rfl)).trans (same_flagsValid _ _)
    | w64 =>
      simp only [exec] at h
      split at h
      · exact absurd h (fun h => by cases h)
      · split at h
        · exact absurd h (fun h => by cases h)
        · simp only [Option.some.injEq] at h; subst h
          exact ((same_set s .rax _ rfl).trans (same_set _ .rdx _ rfl)).trans (same_flagsValid _ _)
  | shiftCl op w dst =>
    simp only [exec, Option.some.injEq] at h; subst h
    exact (same_setW _ _ _ _ hs).trans (same_flagsValid _ _)
  | shiftImm op w n dst =>
    simp only [exec, Option.some.injEq] at h; subst h
    exact (same_setW _ _ _ _ hs).trans (same_flagsValid _ _)
  | setcc cc dst =>
    simp only [exec] at h
    split at h
    · simp only [Option.some.injEq] at h; subst h; exact same_setW _ _ _ _ hs
    · exact absurd h (fun h => by cases h)
  | push src => simp [safeInstr] at hs
  | pop dst => simp [safeInstr] at hs
  | lea d b dst => simp only [exec, Option.some.injEq] at h; subst h; exact same_set _ _ _ hs

theorem run_safe (is : List Ins) (s s' : State) (hs : is.all safeIns = true) (h : X86.run is s = some s') : Same s s' := by
  induction is generalizing s with
  | nil => simp [X86.run] at h; subst h; exact Same.refl _
  | cons i is ih =>
    simp only [List.all_cons, Bool.and_eq_true] at hs
    simp only [X86.run, X86.step] at h
    cases hd : decode i with
    | none => simp [hd] at h
    | some d =>
      simp only [hd] at h
      cases he : exec d s with
      | none => simp [he] at h
      | some s1 =>
        simp only [he] at h
        have h1 : safeInstr d = true := by have := hs.1; simpa [safeIns, hd] using this
        exact (exec_safe d s s1 h1 he).trans (ih s1 hs.2 h)

/-! ### the sequences of the model are safe -/

theorem castKind_safe (k : CastKind) : k.seq.all safeIns = true := by cases k <;> rfl
theorem opKind_safe (k : OpKind) : k.seq.all safeIns = true := by cases k <;> rfl
theorem unKind_safe (k : UnKind) : k.seq.all safeIns = true := by cases k <;> rfl

theorem castSeq_safe (f t : ITy) : (castSeq f t).all safeIns = true := by
  obtain ⟨k, hk⟩ := castSeq_classified f t
  rw [classify_sound hk]; exact castKind_safe k

theorem loadSeq_safe (t : ITy) : (loadSeq t).all safeIns = true := by cases t <;> rfl

theorem unSeq_not_eq (t : ITy) : unSeq .ND_NOT t = (if t.size = 8 then UnKind.lognot64 else UnKind.lognot32).seq := by
  cases t <;> rfl
theorem unSeq_neg_eq (t : ITy) (ht : t = .i32 ∨ t = .u32 ∨ t = .i64 ∨ t = .u64) : unSeq .ND_NEG t = UnKind.neg.seq := by
  rcases ht with rfl | rfl | rfl | rfl <;> rfl
theorem unSeq_bitnot_eq (t : ITy) (ht : t = .i32 ∨ t = .u32 ∨ t = .i64 ∨ t = .u64) : unSeq .ND_BITNOT t = UnKind.not.seq := by
  rcases ht with rfl | rfl | rfl | rfl <;> rfl

/-! ### the per-node facts, with what they leave alone -/

theorem cast_run (frm to : ITy) (s : State) (v : Int) (h : Represents frm (s.get .rax) v) :
    ∃ s', X86.run (castSeq frm to) s = some s' ∧ Represents to (s'.get .rax) (convert to v) ∧ Same s s' := by
  obtain ⟨k, hk⟩ := castSeq_classified frm to
  have hsafe := castSeq_safe frm to
  rw [classify_sound hk] at hsafe ⊢
  obtain ⟨s', h1, h2⟩ := k.effect s
  exact ⟨s', h1, h2 ▸ cast_arith frm to k hk _ _ h, run_safe _ _ _ hsafe h1⟩

theorem lognot_run (t : ITy) (s : State) (v : Int) (h : Represents t (s.get .rax) v) :
    ∃ s', X86.run (unSeq .ND_NOT t) s = some s' ∧ Represents .i32 (s'.get .rax) (b2i (v = 0)) ∧ Same s s' := by
  rw [unSeq_not_eq]
  obtain ⟨s', h1, h2⟩ := (if t.size = 8 then UnKind.lognot64 else UnKind.lognot32).effect s
  exact ⟨s', h1, h2 ▸ lognot_computes t _ _ h, run_safe _ _ _ (unKind_safe _) h1⟩

theorem neg_run (t : ITy) (ht : t = .i32 ∨ t = .u32 ∨ t = .i64 ∨ t = .u64) (s : State) (v x : Int)
    (h : Represents t (s.get .rax) v) (hx : unop .neg t v = some x) :
    ∃ s', X86.run (unSeq .ND_NEG t) s = some s' ∧ Represents t (s'.get .rax) x ∧ Same s s' := by
  rw [unSeq_neg_eq t ht]
  obtain ⟨s', h1, h2⟩ := UnKind.neg.effect s
  exact ⟨s', h1, h2 ▸ neg_computes t ht _ _ _ h hx, run_safe _ _ _ (unKind_safe _) h1⟩

theorem bitnot_run (t : ITy) (ht : t = .i32 ∨ t = .u32 ∨ t = .i64 ∨ t = .u64) (s : State) (v x : Int)
    (h : Represents t (s.get .rax) v) (hx : unop .bitnot t v = some x) :
    ∃ s', X86.run (unSeq .ND_BITNOT t) s = some s' ∧ Represents t (s'.get .rax) x ∧ Same s s' := by
  rw [unSeq_bitnot_eq t ht]
  obtain ⟨s', h1, h2⟩ := UnKind.not.effect s
  exact ⟨s', h1, h2 ▸ not_computes t ht _ _ _ h hx, run_safe _ _ _ (unKind_safe _) h1⟩

theorem binop_run (k : NK) (op : BinOp) (hop : specOp k = some op) (hns : op.isShift = false)
    (t : ITy) (ht : t = .i32 ∨ t = .u32 ∨ t = .i64 ∨ t = .u64)
    (s : State) (va vb x : Int)
    (ha : Represents t (s.get .rax) va) (hb : Represents t (s.get .rdi) vb)
    (hx : arith op t va vb = some x) :
    ∃ s', X86.run (opSeq k t) s = some s' ∧ Represents (binopType op t t) (s'.get .rax) x ∧ Same s s' := by
  obtain ⟨kind, hk, hc⟩ := binop_selected k op hop hns t ht
  rw [classifyOp_sound hk]
  obtain ⟨y, hy, hr⟩ := hc _ _ _ _ _ ha hb hx
  have he := kind.effect s
  simp only [hy] at he
  obtain ⟨s', h1, h2⟩ := he
  exact ⟨s', h1, h2 ▸ hr, run_safe _ _ _ (opKind_safe _) h1⟩

theorem shift_run (k : NK) (op : BinOp) (hop : specOp k = some op) (hs : op.isShift = true)
    (t : ITy) (ht : t = .i32 ∨ t = .u32 ∨ t = .i64 ∨ t = .u64) (t2 : ITy)
    (s : State) (va vb x : Int)
    (ha : Represents t (s.get .rax) va) (hb : Represents t2 (s.get .rdi) vb)
    (hx : arith op t va vb = some x) :
    ∃ s', X86.run (opSeq k t) s = some s' ∧ Represents t (s'.get .rax) x ∧ Same s s' := by
  obtain ⟨kind, hk, hc⟩ := shift_selected k op hop hs t ht
  rw [classifyOp_sound hk]
  obtain ⟨y, hy, hr⟩ := hc t2 _ _ _ _ _ ha hb hx
  have he := kind.effect s
  simp only [hy] at he
  obtain ⟨s', h1, h2⟩ := he
  exact ⟨s', h1, h2 ▸ hr, run_safe _ _ _ (opKind_safe _) h1⟩

/-! ### bytes -/

theorem toNat_add_ofNat (a : BitVec 64) (k : Nat) (h : a.toNat + k < 2 ^ 64) :
    (a + BitVec.ofNat 64 k).toNat = a.toNat + k := by
  rw [BitVec.toNat_add, BitVec.toNat_ofNat]
  have : k % 2 ^ 64 = k := Nat.mod_eq_of_lt (by omega)
  rw [this]; exact Nat.mod_eq_of_lt h

/-- a quadword write changes only its own eight bytes -/
theorem write64_mem (s : State) (a v x : BitVec 64) (h : ∀ k : Nat, k < 8 → x ≠ a + BitVec.ofNat 64 k) :
    (s.write64 a v).mem x = s.mem x := by
  have h0 := h 0 (by omega); have h1 := h 1 (by omega); have h2 := h 2 (by omega); have h3 := h 3 (by omega)
  have h4 := h 4 (by omega); have h5 := h 5 (by omega); have h6 := h 6 (by omega); have h7 := h 7 (by omega)
  simp at h0
  simp [State.write64, State.write32, State.write16, State.write8, BitVec.add_assoc, h0, h1, h2, h3, h4, h5, h6, h7]

theorem write8_regs (s : State) (a : BitVec 64) (v : BitVec 8) : (s.write8 a v).regs = s.regs := rfl
theorem write16_regs (s : State) (a : BitVec 64) (v : BitVec 16) : (s.write16 a v).regs = s.regs := by
  simp only [State.write16, write8_regs]
theorem write32_regs (s : State) (a : BitVec 64) (v : BitVec 32) : (s.write32 a v).regs = s.regs := by
  simp only [State.write32, write16_regs]
theorem write64_regs (s : State) (a : BitVec 64) (v : BitVec 64) : (s.write64 a v).regs = s.regs := by
  simp only [State.write64, write32_regs]
theorem write64_get (s : State) (a v : BitVec 64) (r : Reg) : (s.write64 a v).get r = s.get r := by
  simp only [State.get, write64_regs]

/-- the bytes of an object of at most eight bytes -/
theorem read_congr (s s' : State) (a : BitVec 64) (h : ∀ k : Nat, k < 8 → s'.mem (a + BitVec.ofNat 64 k) = s.mem (a + BitVec.ofNat 64 k)) :
    s'.read8 a = s.read8 a ∧ s'.read16 a = s.read16 a ∧ s'.read32 a = s.read32 a ∧ s'.read64 a = s.read64 a := by
  have h0 := h 0 (by omega); have h1 := h 1 (by omega); have h2 := h 2 (by omega); have h3 := h 3 (by omega)
  have h4 := h 4 (by omega); have h5 := h 5 (by omega); have h6 := h 6 (by omega); have h7 := h 7 (by omega)
  simp at h0
  simp [State.read64, State.read32, State.read16, State.read8, BitVec.add_assoc, h0, h1, h2, h3, h4, h5, h6, h7]

theorem memHolds_congr (t : ITy) (s s' : State) (a : BitVec 64) (v : Int)
    (h : ∀ k : Nat, k < 8 → s'.mem (a + BitVec.ofNat 64 k) = s.mem (a + BitVec.ofNat 64 k)) (hm : MemHolds t s a v) :
    MemHolds t s' a v := by
  obtain ⟨e8, e16, e32, e64⟩ := read_congr s s' a h
  unfold MemHolds at hm ⊢
  cases t <;> simp only [e8, e16, e32, e64] <;> exact hm

/-! ### `push %rax`, `pop %rdi` -/

theorem push_rax (s : State) (h8 : 8 ≤ (s.get .rsp).toNat) :
    ∃ s1, X86.run [⟨"push", [.r "%rax"]⟩] s = some s1 ∧ s1.get .rsp = s.get .rsp - 8 ∧ s1.get .rbp = s.get .rbp ∧
      s1.get .rax = s.get .rax ∧ s1.read64 (s.get .rsp - 8) = s.get .rax ∧
      (s1.get .rsp).toNat = (s.get .rsp).toNat - 8 ∧
      (∀ x : BitVec 64, (x.toNat < (s.get .rsp).toNat - 8 ∨ (s.get .rsp).toNat ≤ x.toNat) → s1.mem x = s.mem x) := by
  have hsub : (s.get .rsp - 8).toNat = (s.get .rsp).toNat - 8 := by
    have := (s.get .rsp).isLt
    rw [BitVec.toNat_sub]; simp; omega
  refine ⟨_, rfl, rfl, rfl, rfl, ?_, hsub, ?_⟩
  · exact read64_write64 _ _ _
  · intro x hx
    show (State.write64 _ (s.get .rsp - 8) _).mem x = _
    rw [write64_mem]
    · rfl
    · intro k hk heq
      have := congrArg BitVec.toNat heq
      rw [toNat_add_ofNat _ _ (by have := (s.get .rsp).isLt; omega)] at this
      omega

theorem pop_rdi (s : State) :
    ∃ s2, X86.run [⟨"pop", [.r "%rdi"]⟩] s = some s2 ∧ s2.get .rdi = s.read64 (s.get .rsp) ∧
      s2.get .rsp = s.get .rsp + 8 ∧ s2.get .rbp = s.get .rbp ∧ s2.get .rax = s.get .rax ∧ s2.mem = s.mem :=
  ⟨_, rfl, rfl, rfl, rfl, rfl, rfl⟩

/-! ### what evaluating a pure expression leaves alone -/

/-- `%rsp`, `%rbp` and every byte at or above `%rsp` are unchanged -/
structure Keeps (m m' : State) : Prop where
  rsp : m'.get .rsp = m.get .rsp
  rbp : m'.get .rbp = m.get .rbp
  mem : ∀ a : BitVec 64, (m.get .rsp).toNat ≤ a.toNat → m'.mem a = m.mem a

theorem Keeps.refl (m : State) : Keeps m m := ⟨rfl, rfl, fun _ _ => rfl⟩
theorem Keeps.trans {a b c : State} (h1 : Keeps a b) (h2 : Keeps b c) : Keeps a c :=
  ⟨h2.rsp.trans h1.rsp, h2.rbp.trans h1.rbp, fun x hx => (h2.mem x (h1.rsp ▸ hx)).trans (h1.mem x hx)⟩
theorem Same.keeps {a b : State} (h : Same a b) : Keeps a b := ⟨h.rsp, h.rbp, fun x _ => congrFun h.mem x⟩

theorem FrameHolds.mono {σ : Env} {off : Nat → Int} {n k : Nat} {m : State} (h : FrameHolds σ off n m) (hk : k ≤ n) :
    FrameHolds σ off k m := ⟨by have := h.1; omega, h.2⟩

theorem ea_eq {m m' : State} (h : m'.get .rbp = m.get .rbp) (d : Int) : m'.ea d .rbp = m.ea d .rbp := by
  simp [State.ea, h]

/-- the objects of the frame lie at or above `%rsp`: whatever keeps that region keeps the frame -/
theorem FrameHolds.keeps {σ : Env} {off : Nat → Int} {n : Nat} {m m' : State} (h : FrameHolds σ off n m) (hk : Keeps m m') :
    FrameHolds σ off n m' := by
  refine ⟨by rw [hk.rsp]; exact h.1, ?_⟩
  intro i t v ht hv
  obtain ⟨hm, hlo, hhi⟩ := h.2 i t v ht hv
  rw [ea_eq hk.rbp, hk.rsp]
  refine ⟨memHolds_congr t m m' _ v ?_ hm, hlo, hhi⟩
  intro k hk8
  apply hk.mem
  rw [toNat_add_ofNat _ _ (by omega)]; omega

end ChibiVerif.C01
