/-
Helper lemmas for the alloca family of C04: the rounded size, the ascending byte copy (correct whenever the destination
is not above the source), the invariant of the region below the locals, preservation of everything at or above `bottom`.
-/
import ChibiVerif.Model.Alloca
namespace ChibiVerif.Alloca
open ChibiVerif.Gen.C04

theorem mask_bits : ∀ i : Fin 32, (BitVec.ofNat 32 ALLOCA_MASK).getLsbD i.val = decide (4 ≤ i.val) := by decide

theorem and_mask_eq (x : BitVec 32) : x &&& BitVec.ofNat 32 ALLOCA_MASK = (x >>> 4) <<< 4 := by
  apply BitVec.eq_of_getLsbD_eq
  intro i hi
  have := mask_bits ⟨i, hi⟩
  simp only at this
  rw [BitVec.getLsbD_and, this, BitVec.getLsbD_shiftLeft, BitVec.getLsbD_ushiftRight]
  by_cases h : 4 ≤ i
  · have e : 4 + (i - 4) = i := by omega
    have h' : ¬ i < 4 := by omega
    simp [h, hi, e, h']
  · have h' : i < 4 := by omega
    simp [h, h']

theorem allocaSize_eq (n : BitVec 64) : allocaSize n = (n.toNat + 15) % 2 ^ 32 / 16 * 16 := by
  unfold allocaSize
  have h32 : ALLOCA_MASK_32BIT = true := rfl
  simp only [h32, if_true]
  rw [and_mask_eq]
  simp only [BitVec.toNat_shiftLeft, BitVec.toNat_ushiftRight, BitVec.toNat_setWidth, BitVec.toNat_add, BitVec.toNat_ofNat,
    Nat.shiftLeft_eq, Nat.shiftRight_eq_div_pow, ALLOCA_ROUND]
  omega

theorem allocaSize_mod (n : BitVec 64) : allocaSize n % 16 = 0 := by
  rw [allocaSize_eq]; omega

theorem allocaSize_ge (n : BitVec 64) (h : n.toNat + 15 < 2 ^ 32) : n.toNat ≤ allocaSize n ∧ allocaSize n < n.toNat + 16 := by
  rw [allocaSize_eq]; omega

theorem copyUp_spec : ∀ (cnt : Nat) (m : Mem) (src dst : Int), dst ≤ src →
    (∀ i : Nat, i < cnt → copyUp m src dst cnt (dst + i) = m (src + i)) ∧
    (∀ a : Int, a < dst ∨ dst + cnt ≤ a → copyUp m src dst cnt a = m a) := by
  intro cnt
  induction cnt with
  | zero => intro m src dst _; exact ⟨fun i hi => absurd hi (Nat.not_lt_zero _), fun a _ => rfl⟩
  | succ cnt ih =>
    intro m src dst hle
    obtain ⟨ih1, ih2⟩ := ih (fun a => if a = dst then m src else m a) (src + 1) (dst + 1) (by omega)
    constructor
    · intro i hi
      cases i with
      | zero =>
        simp only [copyUp]
        rw [ih2 _ (by left; omega)]
        simp
      | succ k =>
        simp only [copyUp]
        have e : dst + ((k + 1 : Nat) : Int) = dst + 1 + (k : Int) := by omega
        rw [e, ih1 k (by omega)]
        have : ¬ (src + 1 + (k : Int) = dst) := by omega
        simp only [this, if_false]
        have e2 : src + 1 + (k : Int) = src + ((k + 1 : Nat) : Int) := by omega
        rw [e2]
    · intro a ha
      simp only [copyUp]
      rw [ih2 a (by omega)]
      have : ¬ (a = dst) := by omega
      simp [this]


/-- what one `alloca` does, for a state whose temporaries lie below `bottom` -/
theorem alloca_step (s : State) (hinv : s.rsp ≤ s.bottom) (n : BitVec 64) :
    ∃ s' blk, step s (.alloca n) = .ok (s', some blk) ∧
      blk.addr = s'.bottom ∧ blk.addr + (blk.size : Int) = s.bottom ∧ blk.size = allocaSize n ∧
      s'.rsp ≤ s.rsp ∧ s'.bottom - s'.rsp = s.bottom - s.rsp ∧ s'.frameLow = s.frameLow ∧
      (∀ i : Nat, (i : Int) < s.bottom - s.rsp → s'.mem (s'.rsp + i) = s.mem (s.rsp + i)) ∧
      (∀ a : Int, s'.bottom ≤ a → s'.mem a = s.mem a) := by
  refine ⟨_, _, rfl, rfl, by simp only; omega, rfl, by simp only; omega, by simp only; omega, rfl, ?_, ?_⟩
  · intro i hi
    have h := (copyUp_spec (s.bottom - s.rsp).toNat s.mem s.rsp (s.rsp - (allocaSize n : Int)) (by omega)).1 i (by omega)
    exact h
  · intro a ha
    have h := (copyUp_spec (s.bottom - s.rsp).toNat s.mem s.rsp (s.rsp - (allocaSize n : Int)) (by omega)).2 a
    apply h
    right
    simp only at ha
    omega

/-- invariant of the region below the locals -/
structure Inv (s : State) : Prop where
  tmp : s.rsp ≤ s.bottom
  low : s.bottom ≤ s.frameLow
  al : s.bottom % 16 = 0

theorem step_inv (s : State) (hinv : Inv s) (op : Op) (s' : State) (b : Option Block) (h : step s op = .ok (s', b)) :
    Inv s' ∧ s'.bottom ≤ s.bottom ∧ s'.frameLow = s.frameLow ∧
    (∀ blk, b = some blk → blk.addr % 16 = 0 ∧ blk.addr = s'.bottom ∧ blk.addr + (blk.size : Int) = s.bottom) ∧
    (b = none → s'.bottom = s.bottom) := by
  obtain ⟨h1, h2, h3⟩ := hinv
  cases op with
  | push v =>
    simp only [step, Except.ok.injEq, Prod.mk.injEq] at h
    obtain ⟨rfl, rfl⟩ := h
    exact ⟨⟨by simp only; omega, h2, h3⟩, Int.le_refl _, rfl, (fun _ hb => by cases hb), fun _ => rfl⟩
  | pop =>
    simp only [step] at h
    split at h
    · simp only [Except.ok.injEq, Prod.mk.injEq] at h
      obtain ⟨rfl, rfl⟩ := h
      exact ⟨⟨by simp only; omega, h2, h3⟩, Int.le_refl _, rfl, (fun _ hb => by cases hb), fun _ => rfl⟩
    · cases h
  | write a v =>
    simp only [step, Except.ok.injEq, Prod.mk.injEq] at h
    obtain ⟨rfl, rfl⟩ := h
    exact ⟨⟨h1, h2, h3⟩, Int.le_refl _, rfl, (fun _ hb => by cases hb), fun _ => rfl⟩
  | alloca n =>
    simp only [step, Except.ok.injEq, Prod.mk.injEq] at h
    obtain ⟨rfl, rfl⟩ := h
    have hm := allocaSize_mod n
    refine ⟨⟨by simp only; omega, by simp only; omega, by simp only; omega⟩, by simp only; omega, rfl, ?_, fun hb => by cases hb⟩
    intro blk hb
    cases hb
    exact ⟨by simp only; omega, rfl, by simp only; omega⟩

theorem run_inv : ∀ (ops : List Op) (s : State), Inv s → ∀ s' bs, run s ops = .ok (s', bs) →
    Inv s' ∧ s'.bottom ≤ s.bottom ∧ s'.frameLow = s.frameLow ∧
    (∀ b ∈ bs, b.addr % 16 = 0 ∧ s'.bottom ≤ b.addr ∧ b.addr + (b.size : Int) ≤ s.bottom) ∧
    bs.Pairwise (fun a b => b.addr + (b.size : Int) ≤ a.addr) := by
  intro ops
  induction ops with
  | nil =>
    intro s hinv s' bs h
    simp only [run, Except.ok.injEq, Prod.mk.injEq] at h
    obtain ⟨rfl, rfl⟩ := h
    exact ⟨hinv, Int.le_refl _, rfl, (fun b hb => by cases hb), List.Pairwise.nil⟩
  | cons op ops ih =>
    intro s hinv s' bs h
    simp only [run] at h
    cases hs : step s op with
    | error e => rw [hs] at h; cases h
    | ok r =>
      obtain ⟨s1, b⟩ := r
      rw [hs] at h
      simp only at h
      cases hr : run s1 ops with
      | error e => rw [hr] at h; cases h
      | ok r2 =>
        obtain ⟨s2, bs2⟩ := r2
        rw [hr] at h
        simp only [Except.ok.injEq, Prod.mk.injEq] at h
        obtain ⟨rfl, rfl⟩ := h
        obtain ⟨i1, i2, i3, i4, i5⟩ := step_inv s hinv op s1 b hs
        obtain ⟨j1, j2, j3, j4, j5⟩ := ih s1 i1 s2 bs2 hr
        refine ⟨j1, by omega, by rw [j3, i3], ?_, ?_⟩
        · intro blk hblk
          rcases List.mem_append.mp hblk with hb | hb
          · cases b with
            | none => cases hb
            | some b0 =>
              simp only [Option.toList, List.mem_singleton] at hb
              subst hb
              obtain ⟨k1, k2, k3⟩ := i4 _ rfl
              exact ⟨k1, by omega, by omega⟩
          · obtain ⟨k1, k2, k3⟩ := j4 blk hb
            exact ⟨k1, k2, by omega⟩
        · cases b with
          | none => simpa using j5
          | some b0 =>
            simp only [Option.toList, List.singleton_append]
            refine List.pairwise_cons.mpr ⟨?_, j5⟩
            intro blk hblk
            obtain ⟨k1, k2, k3⟩ := i4 _ rfl
            obtain ⟨l1, l2, l3⟩ := j4 blk hblk
            omega

/-- nothing at or above `bottom` is written by pushes, pops and allocas -/
def Op.isWrite : Op → Bool
  | .write _ _ => true
  | _ => false

theorem step_preserves (s : State) (hinv : Inv s) (op : Op) (hop : op.isWrite = false) (s' : State) (b : Option Block)
    (h : step s op = .ok (s', b)) (a : Int) (ha : s.bottom ≤ a) : s'.mem a = s.mem a := by
  cases op with
  | push v =>
    simp only [step, Except.ok.injEq, Prod.mk.injEq] at h
    obtain ⟨rfl, _⟩ := h
    have := hinv.tmp
    have hn : ¬ (s.rsp - 8 ≤ a ∧ a < s.rsp - 8 + 8) := by omega
    simp only [write64, hn, if_false]
  | pop =>
    simp only [step] at h
    split at h
    · simp only [Except.ok.injEq, Prod.mk.injEq] at h
      obtain ⟨rfl, _⟩ := h
      rfl
    · cases h
  | write a' v => simp [Op.isWrite] at hop
  | alloca n =>
    obtain ⟨s1', blk, e, _, _, _, _, _, _, _, hmem⟩ := alloca_step s hinv.tmp n
    rw [e] at h
    simp only [Except.ok.injEq, Prod.mk.injEq] at h
    obtain ⟨rfl, _⟩ := h
    have := allocaSize_mod n
    exact hmem a (by simp only [step] at e; simp only [Except.ok.injEq, Prod.mk.injEq] at e; obtain ⟨rfl, _⟩ := e; simp only; omega)

theorem run_preserves : ∀ (ops : List Op) (s : State), Inv s → (∀ op ∈ ops, op.isWrite = false) →
    ∀ s' bs, run s ops = .ok (s', bs) → ∀ a : Int, s.bottom ≤ a → s'.mem a = s.mem a := by
  intro ops
  induction ops with
  | nil =>
    intro s _ _ s' bs h a _
    simp only [run, Except.ok.injEq, Prod.mk.injEq] at h
    obtain ⟨rfl, rfl⟩ := h
    rfl
  | cons op ops ih =>
    intro s hinv hnw s' bs h a ha
    simp only [run] at h
    cases hs : step s op with
    | error e => rw [hs] at h; cases h
    | ok r =>
      obtain ⟨s1, b⟩ := r
      rw [hs] at h
      simp only at h
      cases hr : run s1 ops with
      | error e => rw [hr] at h; cases h
      | ok r2 =>
        obtain ⟨s2, bs2⟩ := r2
        rw [hr] at h
        simp only [Except.ok.injEq, Prod.mk.injEq] at h
        obtain ⟨rfl, rfl⟩ := h
        obtain ⟨i1, i2, _, _, _⟩ := step_inv s hinv op s1 b hs
        rw [ih s1 i1 (fun o ho => hnw o (List.mem_cons_of_mem _ ho)) s2 bs2 hr a (by omega)]
        exact step_preserves s hinv op (hnw op List.mem_cons_self) s1 b hs a ha

end ChibiVerif.Alloca
