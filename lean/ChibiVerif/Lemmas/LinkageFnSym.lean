/-
Helper lemmas for C15_symbols_partial: functions.  What `parse` records in terms of the declarations
(`recorded`, `live_decl`: the lemma forms of C15_recorded / C15_live_decl), the Spec's `neededList` as a
closure, "live ↔ needed" for defined functions, and the entry `emit_text` prints.
-/
import ChibiVerif.Lemmas.LinkageFinal
import ChibiVerif.Lemmas.LinkageDecls
import ChibiVerif.Lemmas.LinkageClosure
import ChibiVerif.Lemmas.LinkageUses
import ChibiVerif.Lemmas.LinkageObjSym
import ChibiVerif.Lemmas.LinkageFlags

namespace ChibiVerif.Linkage
open ChibiVerif.Spec.Linkage

variable [Rules]

/-- what the theorem assumes about the unit -/
structure UnitOK (ds : List Decl) : Prop where
  valid : valid ds = true
  objs : ∀ x, x ∈ objNames ds → ObjOK ds x
  noFrozen : Rules.flagsFollow = true ∨ flagsFrozenDefRegion ds = false
  noDeadSL : Rules.ownedData = true ∨ deadStaticLocalVisibleRegion ds = false

section
variable {ds : List Decl} (u : UnitOK ds)
include u

theorem UnitOK.ordered : refsOrdered ds [] [] = true := valid_ordered u.valid

theorem UnitOK.fnValid {f : Name} (hf : f ∈ fnNames ds) : fnValid (fnDecls ds f) = true := (valid_parts u.valid).1 f hf

theorem UnitOK.oneBody (f : Name) : ((fnDecls ds f).filter (fun d => d.body.isSome)).length ≤ 1 := by
  by_cases hf : f ∈ fnNames ds
  · have := u.fnValid hf
    simp only [Spec.Linkage.fnValid, Bool.and_eq_true, decide_eq_true_eq] at this
    exact this.1.1
  · rw [mem_fnNames, Classical.not_not] at hf
    rw [hf]; exact Nat.zero_le _

theorem UnitOK.disjoint {f : Name} (hf : f ∈ fnNames ds) : f ∉ objNames ds ∧ f ∉ blockExternNames ds :=
  (valid_parts u.valid).2.2.1 f hf

/-- the recorded flags of a defined function encode its C11 class -/
theorem UnitOK.class_flags {f : Name} (hf : f ∈ fnNames ds) (hdef : fnDefined (fnDecls ds f) = true) {S I : Bool}
    (hfl : fnFlags ds f = some (S, I)) : classOf S I = fnClass (fnDecls ds f) := by
  refine fnFlags_class (u.fnValid hf) ?_ hfl
  rcases u.noFrozen with h | h
  · exact Or.inl h
  · right
    unfold flagsFrozenDefRegion at h
    rw [List.any_eq_false] at h
    have h' := h f hf
    rw [hdef] at h'
    simpa using h'

theorem UnitOK.succ_closed {x : Name} (_ : x ∈ fnNames ds) {y : Name} (hy : y ∈ succFns ds x) : y ∈ fnNames ds := by
  unfold succFns at hy
  cases hD : fnDefined (fnDecls ds x)
  · rw [fnBody_undefined hD] at hy; simp [bodyFnRefs] at hy
  · obtain ⟨d, hd, hb⟩ := mem_fnBody hD
    obtain ⟨n, hm⟩ := mem_fnDecls.mp hd
    rw [hb] at hm
    rcases (refsOrdered_declared ds [] [] u.ordered).2.1 x n _ _ _ _ hm y hy with h | h
    · cases h
    · exact h

theorem UnitOK.seeds_declared {x : Name} (hx : x ∈ dedup (alwaysEmitted ds ++ fileFnRefs ds)) : x ∈ fnNames ds := by
  rw [mem_dedup, List.mem_append] at hx
  rcases hx with hx | hx
  · exact (List.mem_filter.mp hx).1
  · rcases (refsOrdered_declared ds [] [] u.ordered).1 x hx with h | h
    · cases h
    · exact h

/-- **`neededList` is the closure of its seeds** -/
theorem UnitOK.mem_needed (f : Name) :
    f ∈ neededList ds ↔ ∃ r, (r ∈ alwaysEmitted ds ∨ r ∈ fileFnRefs ds) ∧ ReachS (succFns ds) r f := by
  unfold neededList
  rw [mem_closeRounds_iff (succFns ds) (fnNames ds) _ (fun x hx y hy => u.succ_closed hx hy) (fun x hx => u.seeds_declared hx)]
  constructor
  · rintro ⟨r, hr, h⟩
    rw [mem_dedup, List.mem_append] at hr
    exact ⟨r, hr, h⟩
  · rintro ⟨r, hr, h⟩
    exact ⟨r, by rw [mem_dedup, List.mem_append]; exact hr, h⟩

theorem UnitOK.allBodyRefs_succ (b : Name) : allBodyRefs ds b = succFns ds b := by
  rw [allBodyRefs_eq, flatMap_bodies_eq _ (u.oneBody b)]
  rfl

end

/-! ### what `parse` records, in terms of the declarations (lemma forms of C15_recorded / C15_live_decl) -/

theorem recorded {ds : List Decl} {st : PState} (h : declAll {} ds = .ok st) (f : Name) :
    isFn st.globals f = (firstFlags ds f).isSome ∧
    refsOf st.globals f = allBodyRefs ds f ∧
    (f ∈ rootNames st.globals ↔
      ∃ stc inl, fnFlags ds f = some (stc, inl) ∧ (!(stc && inl) || fileRooted ds false f) = true) ∧
    (∀ o, findFunc st.globals f = some o → fnFlags ds f = some (o.isStatic, o.isInline)) := by
  have hT := T_parse h f
  have hn := (wf_declAll h).nodup
  have hflags : ∀ o, findFunc st.globals f = some o → T st.globals f = some (fview o) := by
    intro o ho; simp [T, ho]
  rw [isFn_eq_T, refsOf_eq_T, mem_rootNames_iff_T hn]
  rw [hT] at hflags ⊢
  obtain ⟨hnone, hsome⟩ := evolve_none ds f
  cases hff : fnFlags ds f with
  | none =>
    have hff1 : firstFlags ds f = none := by
      have := fnFlags_isSome ds f
      rw [hff] at this
      cases h : firstFlags ds f with
      | none => rfl
      | some _ => rw [h] at this; cases this
    rw [hnone hff1] at hflags ⊢
    refine ⟨by rw [hff1]; rfl, ?_, ?_, ?_⟩
    · rw [allBodyRefs_undeclared ds f hff1]; rfl
    · constructor
      · rintro ⟨v, hv, _⟩; cases hv
      · rintro ⟨_, _, hx, _⟩; cases hx
    · intro o ho; cases hflags o ho
  | some p =>
    obtain ⟨stc, inl⟩ := p
    obtain ⟨v', hv', hs, hi, hr, hroot⟩ := hsome stc inl hff
    have hff1 : (firstFlags ds f).isSome = true := by rw [← fnFlags_isSome, hff]; rfl
    rw [hv'] at hflags ⊢
    refine ⟨by rw [hff1]; rfl, ?_, ?_, ?_⟩
    · simp [hr]
    · constructor
      · rintro ⟨v, hv, hvr⟩
        cases hv
        exact ⟨stc, inl, rfl, by rw [← hroot]; exact hvr⟩
      · rintro ⟨a, b, hab, hcond⟩
        cases hab
        exact ⟨v', rfl, by rw [hroot]; exact hcond⟩
    · intro o ho
      have := hflags o ho
      simp only [Option.some.injEq] at this
      rw [← hs, ← hi, this]
      rfl

/-- reachability through the function names mentioned in bodies -/
inductive ReachDL (ds : List Decl) : Name → Name → Prop where
  | refl {a} : (firstFlags ds a).isSome = true → ReachDL ds a a
  | step {a b c} : ReachDL ds a b → c ∈ allBodyRefs ds b → (firstFlags ds c).isSome = true → ReachDL ds a c

theorem live_decl {ds : List Decl} {st : PState} {gs1 gs : List Obj} (p : Parsed ds st gs1 gs) (f : Name) :
    liveFn gs1 f = true ↔
      ∃ r stc inl, fnFlags ds r = some (stc, inl) ∧ (!(stc && inl) || fileRooted ds false r) = true ∧ ReachDL ds r f := by
  have h := p.hst
  have conv : ∀ a b, Reach st.globals a b ↔ ReachDL ds a b := by
    intro a b
    constructor
    · intro hr
      induction hr with
      | refl hf => exact ReachDL.refl (by rw [← (recorded h _).1]; exact hf)
      | step _ hm hf ih =>
        exact ReachDL.step ih (by rw [← (recorded h _).2.1]; exact hm) (by rw [← (recorded h _).1]; exact hf)
    · intro hr
      induction hr with
      | refl hf => exact Reach.refl (by rw [(recorded h _).1]; exact hf)
      | step _ hm hf ih =>
        exact Reach.step ih (by rw [(recorded h _).2.1]; exact hm) (by rw [(recorded h _).1]; exact hf)
  rw [p.live]
  constructor
  · rintro ⟨r, hr, hreach⟩
    obtain ⟨stc, inl, hff, hc⟩ := ((recorded h r).2.2.1).mp hr
    exact ⟨r, stc, inl, hff, hc, (conv r f).mp hreach⟩
  · rintro ⟨r, stc, inl, hff, hc, hreach⟩
    exact ⟨r, ((recorded h r).2.2.1).mpr ⟨stc, inl, hff, hc⟩, (conv r f).mpr hreach⟩

/-! ### live ↔ needed -/

section
variable {ds : List Decl} (u : UnitOK ds)
include u

theorem UnitOK.reachDL_of_reachS {r x : Name} (hr : r ∈ fnNames ds) (h : ReachS (succFns ds) r x) :
    ReachDL ds r x ∧ x ∈ fnNames ds := by
  induction h with
  | refl => exact ⟨ReachDL.refl (firstFlags_isSome.mpr hr), hr⟩
  | step _ hm ih =>
    have hc := u.succ_closed ih.2 hm
    exact ⟨ReachDL.step ih.1 (by rw [u.allBodyRefs_succ]; exact hm) (firstFlags_isSome.mpr hc), hc⟩

theorem UnitOK.reachS_of_reachDL {r x : Name} (h : ReachDL ds r x) : ReachS (succFns ds) r x := by
  induction h with
  | refl _ => exact ReachS.refl
  | step _ hm _ ih => exact ReachS.step ih (by rw [← u.allBodyRefs_succ]; exact hm)

omit u in
theorem fnFlags_of_declared {r : Name} (hr : r ∈ fnNames ds) : ∃ S I, fnFlags ds r = some (S, I) := by
  have h1 := firstFlags_isSome.mpr hr
  rw [← fnFlags_isSome] at h1
  cases h : fnFlags ds r with
  | none => rw [h] at h1; cases h1
  | some p => exact ⟨p.1, p.2, rfl⟩

/-- a seed of the Spec's closure is a root of chibicc's -/
theorem UnitOK.root_of_seed {r : Name} (h : r ∈ alwaysEmitted ds ∨ r ∈ fileFnRefs ds) :
    r ∈ fnNames ds ∧ ∃ stc inl, fnFlags ds r = some (stc, inl) ∧ (!(stc && inl) || fileRooted ds false r) = true := by
  have hr : r ∈ fnNames ds := u.seeds_declared (by rw [mem_dedup, List.mem_append]; exact h)
  refine ⟨hr, ?_⟩
  obtain ⟨S, I, hff⟩ := fnFlags_of_declared (ds := ds) hr
  refine ⟨S, I, hff, ?_⟩
  rcases h with h | h
  · have := (List.mem_filter.mp h).2
    simp only [Bool.and_eq_true] at this
    rw [← u.class_flags hr this.1 hff, classOf_ne_ifNeeded] at this
    rw [this.2]; rfl
  · rw [fileRooted_eq ds [] [] false r u.ordered (fun h => by cases h)]
    have : (fileFnRefs ds).contains r = true := by simpa using h
    rw [this]; simp

/-- a root of chibicc's closure that is defined is a seed of the Spec's -/
theorem UnitOK.seed_of_root {r : Name} {stc inl : Bool} (hff : fnFlags ds r = some (stc, inl))
    (hc : (!(stc && inl) || fileRooted ds false r) = true) (hdef : fnDefined (fnDecls ds r) = true) :
    r ∈ alwaysEmitted ds ∨ r ∈ fileFnRefs ds := by
  have hr : r ∈ fnNames ds := firstFlags_isSome.mp (by rw [← fnFlags_isSome, hff]; rfl)
  simp only [Bool.or_eq_true] at hc
  rcases hc with hc | hc
  · left
    unfold alwaysEmitted
    rw [List.mem_filter]
    refine ⟨hr, ?_⟩
    rw [hdef, Bool.true_and, ← u.class_flags hr hdef hff, classOf_ne_ifNeeded]
    exact hc
  · right
    rw [fileRooted_eq ds [] [] false r u.ordered (fun h => by cases h)] at hc
    simpa using hc

/-- **live ↔ needed** for a defined function -/
theorem UnitOK.live_iff_needed {st : PState} {gs1 gs : List Obj} (p : Parsed ds st gs1 gs) {f : Name}
    (hdef : fnDefined (fnDecls ds f) = true) : liveFn gs1 f = true ↔ f ∈ neededList ds := by
  rw [live_decl p, u.mem_needed]
  constructor
  · rintro ⟨r, stc, inl, hff, hc, hreach⟩
    have hS := u.reachS_of_reachDL hreach
    cases hdr : fnDefined (fnDecls ds r)
    · -- an undefined root has no successors: the path is empty, but f is defined
      have h0 : succFns ds r = [] := by
        unfold succFns; rw [fnBody_undefined hdr]; rfl
      have := reachS_of_no_succ h0 hS
      rw [this, hdr] at hdef; cases hdef
    · exact ⟨r, u.seed_of_root hff hc hdr, hS⟩
  · rintro ⟨r, hseed, hreach⟩
    obtain ⟨hr, stc, inl, hff, hc⟩ := u.root_of_seed hseed
    exact ⟨r, stc, inl, hff, hc, (u.reachDL_of_reachS hr hreach).1⟩

/-- a function that is emitted whether referenced or not is needed -/
theorem UnitOK.always_needed {f : Name} (h : f ∈ alwaysEmitted ds) : f ∈ neededList ds :=
  (u.mem_needed f).mpr ⟨f, Or.inl h, ReachS.refl⟩

/-- **the entry of a function.**  For the function object of `f` in the result, `emit_text` prints exactly
    what the Spec's `fnSymbol` says when `f` is defined, and nothing when it is not. -/
theorem UnitOK.fn_entry {st : PState} {gs1 gs : List Obj} (p : Parsed ds st gs1 gs) {f : Name} {o0 : Obj}
    (h0 : findFunc st.globals f = some o0) :
    emitTextFn { o0 with isLive := liveFn gs1 f } =
      if fnDefined (fnDecls ds f) then
        (if (neededList ds).contains f then some ⟨.named f, if o0.isStatic then .local else .global, .text, none, 0⟩ else none)
      else none := by
  have hp := List.find?_some h0
  simp only [Bool.and_eq_true, beq_iff_eq] at hp
  have hdef := isDefinition_parse p.hst h0
  cases hD : fnDefined (fnDecls ds f)
  · simp [emitTextFn, hdef, hD]
  · have hl := u.live_iff_needed p hD
    simp only [if_true]
    by_cases hn : f ∈ neededList ds
    · have : (neededList ds).contains f = true := by simpa using hn
      rw [this]
      simp [emitTextFn, hdef, hD, hp.1, hp.2, hl.mpr hn, bindingOf]
    · have : (neededList ds).contains f = false := by simpa using hn
      rw [this]
      have hlf : liveFn gs1 f = false := by
        cases hlv : liveFn gs1 f
        · rfl
        · exact absurd (hl.mp hlv) hn
      simp [emitTextFn, hlf]

/-- the Spec's entry of a defined function, with the binding chibicc records -/
theorem UnitOK.fnSymbol_defined {st : PState} (hst : declAll {} ds = .ok st) {f : Name} {o0 : Obj}
    (h0 : findFunc st.globals f = some o0) (hD : fnDefined (fnDecls ds f) = true) :
    fnSymbol ds f =
      if (neededList ds).contains f then some ⟨.named f, if o0.isStatic then .local else .global, .text, none, 0⟩ else none := by
  have hff := (recorded hst f).2.2.2 o0 h0
  have hr : f ∈ fnNames ds := firstFlags_isSome.mp (by rw [← fnFlags_isSome, hff]; rfl)
  have hcls := u.class_flags hr hD hff
  unfold fnSymbol
  simp only [hD, if_true]
  rw [← hcls]
  -- a class other than localIfNeeded is always needed
  have halways : classOf o0.isStatic o0.isInline ≠ .localIfNeeded → (neededList ds).contains f = true := by
    intro hne
    have : f ∈ alwaysEmitted ds := by
      unfold alwaysEmitted
      rw [List.mem_filter]
      refine ⟨hr, ?_⟩
      rw [hD, ← hcls]
      simpa using hne
    simpa using u.always_needed this
  simp only [classOf] at halways ⊢
  generalize o0.isStatic = sst at halways ⊢
  generalize o0.isInline = inl at halways ⊢
  cases sst <;> cases inl
  · have : f ∈ neededList ds := by simpa using halways (by simp)
    simp [this]
  · have : f ∈ neededList ds := by simpa using halways (by simp)
    simp [this]
  · have : f ∈ neededList ds := by simpa using halways (by simp)
    simp [this]
  · simp

end

end ChibiVerif.Linkage
