/-
Termination measure for object-like definition sets (property C09, `C09_terminates_partial`).
-/
import ChibiVerif.Model.PP
import ChibiVerif.Lemmas.PPLemmas

namespace ChibiVerif.PP

/-! ## `subst` on an object-like replacement list (no arguments) -/

/-- outcome of `subst` for an object-like macro: no fuel error, state untouched, no more tokens than it read -/
def ObjRes (st : St) (bound : Nat) : Except Err (List Tok × List MacroArg × St) → Prop
  | .ok (out, args', st') => args' = [] ∧ st' = st ∧ out.length ≤ bound
  | .error e => e ≠ .fuel

theorem paste_error_ne_fuel {lx : String → LexOne} {a b : Tok} {e : Err} (h : paste lx a b = .error e) : e ≠ .fuel := by
  unfold paste at h
  dsimp only at h
  split at h <;> simp at h <;> simp [← h]

theorem findArg_nil (t : Option Tok) : findArg [] t = none := by cases t <;> simp [findArg]

theorem substLoop_obj (lx : String → LexOne) (pp : PreExpand) :
    ∀ (fuel : Nat) (st : St) (body acc : List Tok), body.length < fuel →
      ObjRes st (acc.length + body.length) (substLoop lx pp true fuel st [] body acc) := by
  intro fuel
  induction fuel with
  | zero => intro st body acc h; omega
  | succ n ih =>
    intro st body acc hlen
    cases body with
    | nil => simp [substLoop, ObjRes]
    | cons tok rest =>
      simp only [List.length_cons] at hlen
      have hrest : rest.length < n + 1 := by omega
      unfold substLoop
      simp only [Bool.not_true, Bool.and_false, Bool.false_eq_true, if_false, findArg_nil, Option.filter_none, ite_self]
      split
      · -- "##"
        cases acc with
        | nil => simp [ObjRes]
        | cons cur acc' =>
          cases rest with
          | nil => simp [ObjRes]
          | cons nxt rest' =>
            simp only
            cases hp : paste lx cur nxt with
            | error e =>
              simp only [ObjRes]
              exact paste_error_ne_fuel hp
            | ok p =>
              simp only
              have := ih st rest' (p :: acc') (by simp only [List.length_cons] at hlen hrest; omega)
              simp only [List.length_cons] at this ⊢
              have e : acc'.length + 1 + (rest'.length + 1 + 1) = acc'.length + 1 + rest'.length + 2 := by omega
              cases hres : substLoop lx pp true n st [] rest' (p :: acc') with
              | error e => rw [hres] at this; simpa [ObjRes] using this
              | ok v =>
                rw [hres] at this
                obtain ⟨o, a, s⟩ := v
                simp only [ObjRes] at this ⊢
                exact ⟨this.1, this.2.1, by omega⟩
      · split
        · -- __VA_OPT__ ( ... ) : dropped, there is no variable argument
          cases hone : readMacroArgOne true 0 (rest.drop 1) with
          | error e =>
            simp only [ObjRes]
            rw [argOne_error _ _ _ _ hone]; simp
          | ok v =>
            obtain ⟨content, r⟩ := v
            simp only [hasVarargs, List.find?_nil, Bool.false_eq_true, if_false]
            obtain ⟨h1, _, _, _⟩ := argOne_sound _ _ _ _ _ hone
            have hr : r.length ≤ rest.length := by
              have : (rest.drop 1).length = content.length + r.length := by rw [h1]; simp
              simp only [List.length_drop] at this
              omega
            have hd : (r.drop 1).length < n := by
              simp only [List.length_drop]; omega
            have := ih st (r.drop 1) acc hd
            cases hres : substLoop lx pp true n st [] (r.drop 1) acc with
            | error e => rw [hres] at this; simpa [ObjRes] using this
            | ok v =>
              rw [hres] at this
              obtain ⟨o, a, s⟩ := v
              simp only [ObjRes, List.length_drop, List.length_cons] at this ⊢
              exact ⟨this.1, this.2.1, by omega⟩
        · -- any other token
          have := ih st rest (tok :: acc) (by omega)
          cases hres : substLoop lx pp true n st [] rest (tok :: acc) with
          | error e => rw [hres] at this; simpa [ObjRes] using this
          | ok v =>
            rw [hres] at this
            obtain ⟨o, a, s⟩ := v
            simp only [ObjRes, List.length_cons] at this ⊢
            exact ⟨this.1, this.2.1, by omega⟩

theorem subst_obj (lx : String → LexOne) (pp : PreExpand) (st : St) (body : List Tok) :
    match subst lx pp st body [] true with
    | .ok (out, st') => st' = st ∧ out.length ≤ body.length
    | .error e => e ≠ .fuel := by
  have := substLoop_obj lx pp (body.length + 1) st body [] (by omega)
  unfold subst
  cases h : substLoop lx pp true (body.length + 1) st [] body [] with
  | error e => rw [h] at this; simpa [Except.map, ObjRes] using this
  | ok v =>
    rw [h] at this
    obtain ⟨o, a, s⟩ := v
    simp only [ObjRes, List.length_nil, Nat.zero_add] at this
    simp only [Except.map]
    exact ⟨this.2.1, this.2.2⟩

/-! ## the measure -/

/-- macros not yet hidden for this token -/
def rank (names : List String) (t : Tok) : Nat := (names.filter fun n => !hidesetContains t.hide n).length

/-- steps of `preprocess2` a token of rank `r` can cause when every replacement list has at most `L` tokens -/
def cost (L : Nat) : Nat → Nat
  | 0 => 1
  | r + 1 => 1 + L * cost L r

def tokCost (names : List String) (L : Nat) (t : Tok) : Nat :=
  if t.kind == .ident then cost L (rank names t) else 1

/-- **the fuel bound**: `bound(defs, input)` -/
def need (names : List String) (L : Nat) (ts : List Tok) : Nat := (ts.map (tokCost names L)).sum

theorem cost_pos (L r : Nat) : 1 ≤ cost L r := by cases r <;> simp [cost]

theorem cost_mono {L : Nat} (hL : 1 ≤ L) : ∀ {r r' : Nat}, r ≤ r' → cost L r ≤ cost L r' := by
  intro r r' h
  induction h with
  | refl => exact Nat.le_refl _
  | step _ ih =>
    rename_i m _
    have : cost L m ≤ 1 + L * cost L m := by
      have : cost L m ≤ L * cost L m := Nat.le_mul_of_pos_left _ hL
      omega
    exact Nat.le_trans ih this

theorem tokCost_pos (names : List String) (L : Nat) (t : Tok) : 1 ≤ tokCost names L t := by
  unfold tokCost; split
  · exact cost_pos _ _
  · exact Nat.le_refl _

theorem need_cons (names : List String) (L : Nat) (t : Tok) (ts : List Tok) :
    need names L (t :: ts) = tokCost names L t + need names L ts := by simp [need]

theorem need_append (names : List String) (L : Nat) (a b : List Tok) :
    need names L (a ++ b) = need names L a + need names L b := by simp [need]

theorem need_setHeadFlags (names : List String) (L : Nat) (ts : List Tok) (b s : Bool) :
    need names L (setHeadFlags ts b s) = need names L ts := by
  cases ts with
  | nil => rfl
  | cons t r => simp [setHeadFlags, need, tokCost, rank]

theorem need_le_of_forall {names : List String} {L c : Nat} : ∀ {ts : List Tok},
    (∀ t ∈ ts, tokCost names L t ≤ c) → need names L ts ≤ ts.length * c := by
  intro ts
  induction ts with
  | nil => intro _; simp [need]
  | cons t r ih =>
    intro h
    rw [need_cons]
    have h1 := h t (by simp)
    have h2 := ih (fun x hx => h x (by simp [hx]))
    simp only [List.length_cons, Nat.add_mul, Nat.one_mul]
    omega

theorem length_filter_lt {α : Type} (p q : α → Bool) : ∀ (l : List α) (x : α), x ∈ l → (∀ y, q y = true → p y = true) →
    p x = true → q x = false → (l.filter q).length < (l.filter p).length := by
  intro l
  induction l with
  | nil => intro x hx; simp at hx
  | cons a r ih =>
    intro x hx hsub hpx hqx
    have hle : ∀ (l : List α), (l.filter q).length ≤ (l.filter p).length := by
      intro l
      induction l with
      | nil => simp
      | cons b r ih =>
        simp only [List.filter_cons]
        by_cases hq : q b = true
        · simp [hq, hsub b hq]; exact ih
        · by_cases hp : p b = true
          · simp [hq, hp]; omega
          · simp [hq, hp]; exact ih
    simp only [List.mem_cons] at hx
    simp only [List.filter_cons]
    rcases hx with rfl | hx
    · simp [hpx, hqx]
      have := hle r; omega
    · have := ih x hx hsub hpx hqx
      by_cases hq : q a = true
      · simp [hq, hsub a hq]; exact this
      · by_cases hp : p a = true
        · simp [hq, hp]; omega
        · simp [hq, hp]; exact this

/-- a token produced by expanding `tok` has a smaller rank than `tok` -/
theorem rank_lt {names : List String} {tok t0 : Tok} {hs0 : Hideset} {t : Tok}
    (hname : tok.text ∈ names) (hnot : hidesetContains tok.hide tok.text = false)
    (hhide : t.hide = hidesetUnion t0.hide (hidesetUnion hs0 [tok.text]))
    (hs0 : ∀ x, hidesetContains tok.hide x = true → hidesetContains hs0 x = true) :
    rank names t < rank names tok := by
  unfold rank
  apply length_filter_lt _ _ names tok.text hname
  · intro y hy
    simp only [Bool.not_eq_true', hhide, hidesetContains_union, Bool.or_eq_false_iff] at hy ⊢
    cases hc : hidesetContains tok.hide y with
    | false => rfl
    | true => have := hs0 y hc; simp [this] at hy
  · simp [hnot]
  · simp [hhide, hidesetContains_iff, hidesetUnion]

/-! ## object-like definition sets -/

def Macro.isFn : Macro → Bool
  | .fn .. => true
  | _ => false

/-- the table defines no function-like macro -/
def ObjOnly (defs : List (String × Macro)) : Prop := ∀ d ∈ defs, d.2.isFn = false

instance (defs : List (String × Macro)) : Decidable (ObjOnly defs) := by unfold ObjOnly; infer_instance

/-- longest replacement list of the table (at least 1) -/
def bodyBound : List (String × Macro) → Nat
  | [] => 1
  | d :: ds => max (match d.2 with | .obj b => b.length | _ => 0) (bodyBound ds)

theorem bodyBound_pos : ∀ defs, 1 ≤ bodyBound defs := by
  intro defs
  induction defs with
  | nil => simp [bodyBound]
  | cons d ds ih => simp only [bodyBound]; omega

theorem bodyBound_ge : ∀ {defs : List (String × Macro)} {n : String} {b : List Tok},
    (n, Macro.obj b) ∈ defs → b.length ≤ bodyBound defs := by
  intro defs
  induction defs with
  | nil => intro n b h; simp at h
  | cons d ds ih =>
    intro n b h
    simp only [List.mem_cons] at h
    simp only [bodyBound]
    rcases h with rfl | h
    · simp only; omega
    · have := ih h; omega

theorem lookup_mem {α β : Type} [BEq α] [LawfulBEq α] : ∀ {l : List (α × β)} {k : α} {v : β},
    l.lookup k = some v → (k, v) ∈ l := by
  intro l
  induction l with
  | nil => intro k v h; simp [List.lookup] at h
  | cons a r ih =>
    intro k v h
    obtain ⟨k0, v0⟩ := a
    simp only [List.lookup] at h
    split at h
    · rename_i heq
      simp only [Option.some.injEq] at h
      simp only [beq_iff_eq] at heq
      simp [heq, h]
    · simp [ih h]

theorem findMacro_mem {defs : List (String × Macro)} {tok : Tok} {m : Macro} (h : findMacro defs tok = some m) :
    (tok.text, m) ∈ defs ∧ tok.kind = .ident := by
  unfold findMacro at h
  split at h
  · rename_i hk
    exact ⟨lookup_mem h, by simpa using hk⟩
  · simp at h

theorem two_le_cost {L r : Nat} (hL : 1 ≤ L) (hr : 1 ≤ r) : 2 ≤ cost L r := by
  cases r with
  | zero => omega
  | succ k =>
    simp only [cost]
    have := cost_pos L k
    have : L * cost L k ≥ 1 := Nat.mul_le_mul hL this
    omega

theorem rank_pos {names : List String} {tok : Tok} (hname : tok.text ∈ names)
    (hnot : hidesetContains tok.hide tok.text = false) : 1 ≤ rank names tok := by
  unfold rank
  have : tok.text ∈ names.filter fun n => !hidesetContains tok.hide n := by
    simp [List.mem_filter, hname, hnot]
  exact List.length_pos_of_mem this

theorem mem_setOrigin_addHideset {out : List Tok} {hs : Hideset} {tok t : Tok}
    (h : t ∈ setOrigin (addHideset out hs) tok) : ∃ t0 : Tok, t.hide = hidesetUnion t0.hide hs := by
  simp only [setOrigin, addHideset, List.mem_map] at h
  obtain ⟨t1, ⟨t0, _, rfl⟩, rfl⟩ := h
  exact ⟨t0, rfl⟩

/-- what `expand_macro` may answer on an object-like table: no fuel error, and an application lowers the measure -/
def ExpRes (names : List String) (L : Nat) (tok : Tok) (rest : List Tok) : Except Err (Option (List Tok × St)) → Prop
  | .error e => e ≠ .fuel
  | .ok none => True
  | .ok (some (ts', _)) => need names L ts' < need names L (tok :: rest)

/-- one macro application strictly lowers the measure (object-like tables) -/
theorem expandMacro_obj (lx : String → LexOne) (pp : PreExpand) (st : St) (tok : Tok) (rest : List Tok) (L : Nat)
    (hobj : ObjOnly st.defs) (hL : ∀ n b, (n, Macro.obj b) ∈ st.defs → b.length ≤ L) (hL1 : 1 ≤ L) :
    ExpRes (st.defs.map (·.1)) L tok rest (expandMacro lx pp st tok rest) := by
  unfold expandMacro
  by_cases hh : hidesetContains tok.hide tok.text = true
  · simp [hh, ExpRes]
  · have hnot : hidesetContains tok.hide tok.text = false := by simpa using hh
    rw [if_neg hh]
    cases hm : findMacro st.defs tok with
    | none => simp [ExpRes]
    | some m =>
      obtain ⟨hmem, hkind⟩ := findMacro_mem hm
      have hname : tok.text ∈ st.defs.map (·.1) := List.mem_map.2 ⟨_, hmem, rfl⟩
      cases m with
      | builtin b =>
        simp only [ExpRes]
        rw [need_cons, need_cons]
        have h1 : tokCost (st.defs.map (·.1)) L (runBuiltin st b tok).1 = 1 := by
          cases b <;> simp [runBuiltin, tokCost, newNumToken, newStrToken]
        have h2 : 2 ≤ tokCost (st.defs.map (·.1)) L tok := by
          simp only [tokCost, hkind, beq_self_eq_true, if_true]
          exact two_le_cost hL1 (rank_pos hname hnot)
        omega
      | obj body =>
        have hb := hL _ _ hmem
        have hs := subst_obj lx pp st body
        simp only
        cases hsub : subst lx pp st body [] true with
        | error e => rw [hsub] at hs; simpa [ExpRes] using hs
        | ok v =>
          rw [hsub] at hs
          obtain ⟨out, st1⟩ := v
          simp only [ExpRes] at hs ⊢
          obtain ⟨_, hlen⟩ := hs
          have hr1 := rank_pos hname hnot
          have hcost : tokCost (st.defs.map (·.1)) L tok = 1 + L * cost L (rank (st.defs.map (·.1)) tok - 1) := by
            simp only [tokCost, hkind, beq_self_eq_true, if_true]
            obtain ⟨k, hk⟩ : ∃ k, rank (st.defs.map (·.1)) tok = k + 1 := ⟨rank (st.defs.map (·.1)) tok - 1, by omega⟩
            rw [hk]; simp [cost]
          have hnew : ∀ t ∈ setOrigin (addHideset out (hidesetUnion tok.hide [tok.text])) tok,
              tokCost (st.defs.map (·.1)) L t ≤ cost L (rank (st.defs.map (·.1)) tok - 1) := by
            intro t ht
            obtain ⟨t0, hhide⟩ := mem_setOrigin_addHideset ht
            have hlt : rank (st.defs.map (·.1)) t < rank (st.defs.map (·.1)) tok :=
              rank_lt (t0 := t0) (hs0 := tok.hide) hname hnot hhide (fun _ h => h)
            unfold tokCost
            split
            · exact cost_mono hL1 (by omega)
            · exact cost_pos _ _
          have hneed := need_le_of_forall hnew
          have hlen' : (setOrigin (addHideset out (hidesetUnion tok.hide [tok.text])) tok).length ≤ L := by
            simp only [setOrigin, addHideset, List.length_map]; omega
          have hmul : (setOrigin (addHideset out (hidesetUnion tok.hide [tok.text])) tok).length *
              cost L (rank (st.defs.map (·.1)) tok - 1) ≤ L * cost L (rank (st.defs.map (·.1)) tok - 1) :=
            Nat.mul_le_mul_right _ hlen'
          rw [need_cons, hcost]
          by_cases hemp : (setOrigin (addHideset out (hidesetUnion tok.hide [tok.text])) tok).isEmpty = true
          · simp only [spliceBody, hemp, if_true]; omega
          · simp only [spliceBody, hemp, Bool.false_eq_true, if_false]
            rw [need_setHeadFlags, need_append]; omega
      | fn ps va b =>
        have := hobj _ hmem
        simp [Macro.isFn] at this

/-- **fuel bound for object-like tables**: `need` units of fuel are enough -/
theorem preprocess2_obj_fuel (lx : String → LexOne) (defs : List (String × Macro)) (L : Nat)
    (hobj : ObjOnly defs) (hL : ∀ n b, (n, Macro.obj b) ∈ defs → b.length ≤ L) (hL1 : 1 ≤ L) :
    ∀ (n : Nat) (st : St) (ts : List Tok), st.defs = defs → NoHash ts → need (defs.map (·.1)) L ts ≤ n →
      preprocess2 lx n st ts ≠ .error .fuel := by
  intro n
  induction n with
  | zero =>
    intro st ts _ _ hneed
    cases ts with
    | nil => simp [preprocess2]
    | cons t r =>
      rw [need_cons] at hneed
      have := tokCost_pos (defs.map (·.1)) L t
      omega
  | succ n ih =>
    intro st ts hdefs hnh hneed
    cases ts with
    | nil => simp [preprocess2]
    | cons tok rest =>
      have hrest : NoHash rest := fun t ht => hnh t (by simp [ht])
      simp only [preprocess2]
      have hexp := expandMacro_obj lx (fun st ts => preprocess2 lx n st ts) st tok rest L (hdefs ▸ hobj) (hdefs ▸ hL) hL1
      cases hres : expandMacro lx (fun st ts => preprocess2 lx n st ts) st tok rest with
      | error e =>
        rw [hres] at hexp
        simp only [ExpRes] at hexp ⊢
        intro h; exact hexp (by simpa using h)
      | ok o =>
        cases o with
        | none =>
          simp only [hnh tok (by simp), Bool.not_false, if_true]
          have hlt : need (defs.map (·.1)) L rest ≤ n := by
            rw [need_cons] at hneed
            have := tokCost_pos (defs.map (·.1)) L tok
            omega
          have := ih st rest hdefs hrest hlt
          cases hr : preprocess2 lx n st rest with
          | error e => rw [hr] at this; simpa [Except.map] using this
          | ok v => simp [Except.map]
        | some v =>
          obtain ⟨ts', st'⟩ := v
          rw [hres] at hexp
          simp only [ExpRes] at hexp ⊢
          obtain ⟨hd, hn⟩ := expandMacro_keeps (preprocess2_keeps lx n) hnh hres
          rw [hdefs] at hexp
          exact ih st' ts' (hd.trans hdefs) hn (by omega)

/-! ## the output is painted -/

theorem preprocess2_blue (lx : String → LexOne) : ∀ (n : Nat) (st : St) (ts out : List Tok) (st' : St),
    NoHash ts → preprocess2 lx n st ts = .ok (out, st') →
    ∀ t ∈ out, ∀ m, findMacro st.defs t = some m → hidesetContains t.hide t.text = true ∨ m.isFn = true := by
  intro n
  induction n with
  | zero =>
    intro st ts out st' _ h
    cases ts with
    | nil => simp only [preprocess2, Except.ok.injEq, Prod.mk.injEq] at h; rw [← h.1]; simp
    | cons t r => simp [preprocess2] at h
  | succ n ih =>
    intro st ts out st' hnh h
    cases ts with
    | nil => simp only [preprocess2, Except.ok.injEq, Prod.mk.injEq] at h; rw [← h.1]; simp
    | cons tok rest =>
      simp only [preprocess2] at h
      split at h
      · simp at h
      · rename_i ts1 st1 hexp
        obtain ⟨hd, hn⟩ := expandMacro_keeps (preprocess2_keeps lx n) hnh hexp
        have := ih st1 ts1 out st' hn h
        rw [hd] at this
        exact this
      · rename_i hexp
        have hne : isHash tok = false := hnh tok (by simp)
        simp only [hne, Bool.not_false, if_true, Except.map] at h
        split at h
        · simp at h
        · rename_i v hv
          simp only [Except.ok.injEq, Prod.mk.injEq] at h
          obtain ⟨rfl, rfl⟩ := h
          intro t ht m hm
          simp only [List.mem_cons] at ht
          rcases ht with rfl | ht
          · rcases expandMacro_none hexp with h1 | h1 | ⟨ps, va, b, h1, _⟩
            · exact Or.inl h1
            · rw [h1] at hm; simp at hm
            · rw [h1] at hm; simp only [Option.some.injEq] at hm; subst hm; exact Or.inr rfl
          · exact ih st rest v.1 v.2 (fun t ht => hnh t (by simp [ht])) hv t ht m hm

/-! ## `__COUNTER__` -/

theorem preprocess2_counter (lx : String → LexOne) (defs : List (String × Macro))
    (hdef : defs.lookup "__COUNTER__" = some (.builtin .counter)) :
    ∀ (ts : List Tok) (fuel : Nat) (st : St), st.defs = defs →
      (∀ t ∈ ts, t.kind = .ident ∧ t.text = "__COUNTER__" ∧ t.hide = []) → 2 * ts.length ≤ fuel →
      ∃ out st', preprocess2 lx fuel st ts = .ok (out, st') ∧ st'.counter = st.counter + ts.length ∧
        out.map (·.text) = (List.range ts.length).map (fun i => toString (st.counter + i)) := by
  intro ts
  induction ts with
  | nil => intro fuel st _ _ _; exact ⟨[], st, by simp [preprocess2], by simp, by simp⟩
  | cons tok rest ih =>
    intro fuel st hdefs hts hfuel
    obtain ⟨hk, htx, hh⟩ := hts tok (by simp)
    obtain ⟨f, rfl⟩ : ∃ f, fuel = f + 2 := ⟨fuel - 2, by simp only [List.length_cons] at hfuel; omega⟩
    have hfind : findMacro st.defs tok = some (.builtin .counter) := by
      simp [findMacro, hk, htx, hdefs, hdef]
    have hexp : expandMacro lx (fun st ts => preprocess2 lx (f + 1) st ts) st tok rest =
        .ok (some (newNumToken st.counter tok.line :: rest, { st with counter := st.counter + 1 })) := by
      simp [expandMacro, hh, hidesetContains, hfind, runBuiltin]
    have hnum : expandMacro lx (fun st ts => preprocess2 lx f st ts) { st with counter := st.counter + 1 }
        (newNumToken st.counter tok.line) rest = .ok none := by
      simp [expandMacro, newNumToken, hidesetContains, findMacro]
    have hnh : isHash (newNumToken st.counter tok.line) = false := by
      simp [isHash, newNumToken, repr_ne_hash]
    obtain ⟨out, st', hrec, hc, ho⟩ := ih f { st with counter := st.counter + 1 } hdefs
      (fun t ht => hts t (by simp [ht])) (by simp only [List.length_cons] at hfuel; omega)
    refine ⟨newNumToken st.counter tok.line :: out, st', ?_, ?_, ?_⟩
    · simp only [preprocess2, hexp, hnum, hnh, Bool.not_false, if_true, hrec, Except.map]
    · simp only [hc, List.length_cons]; omega
    · simp only [List.map_cons, ho, List.length_cons, List.range_succ_eq_map, List.map_cons, List.map_map]
      simp [newNumToken, Function.comp_def, Nat.add_assoc, Nat.add_comm 1]

end ChibiVerif.PP
