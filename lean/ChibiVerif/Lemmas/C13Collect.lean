/-
C13 — helper lemma for the collected no-crash corollaries of Props/C13Components.lean.

`convAll` (Model/IfParse.lean: convert_pp_tokens + the retyping loop of eval_const_expr) has one failure only: a token that is
not an integer constant (`unmodelled i`); it never produces the "out of fuel" outcome.
-/
import ChibiVerif.Model.IfParse

namespace ChibiVerif.Lemmas.C13Collect
open ChibiVerif.IfParse ChibiVerif.PPExpr ChibiVerif.CondIncl

theorem convAll_error (cv : Tok → Option PTok) (l : List Tok) (i : Nat) (e : PErr)
    (h : convAll cv l i = .error e) : ∃ j, e = .unmodelled j := by
  induction l generalizing i with
  | nil => simp [convAll] at h
  | cons t ts ih =>
    unfold convAll at h
    split at h
    · injection h with h; exact ⟨i, h.symm⟩
    · split at h
      · next e' he' => injection h with h; subst h; exact ih (i + 1) he'
      · cases h

end ChibiVerif.Lemmas.C13Collect
