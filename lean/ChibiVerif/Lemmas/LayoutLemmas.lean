/-
Helper lemmas for the layout part of C08 (Props/C08.lean):

* arithmetic: `roundUp` (Spec) is the least multiple ≥ n; chibicc's `align_to`/`align_down` on non-negative C ints
  (`Int`, truncating division) are `roundUp` / round-down; the straddle test of `struct_decl`
  `bits / (sz*8) != (bits + width - 1) / (sz*8)` is the psABI containment rule `bits % unit + width > unit`;
* `structStep_eq` / `structLoop_eq` : one member / all members of `struct_decl` against `Spec.allocate`;
* `unionLoop_inv` : `union_decl` against `Spec.specUnion` (the code takes the whole declared type of a named bit-field
  as its extent, the spec only its bits; equal after rounding to the alignment).

Core Lean only.
-/
import ChibiVerif.Model.Layout
import ChibiVerif.Spec.LayoutSpec

namespace ChibiVerif.Spec.Layout
open ChibiVerif.Layout

/-! ### scope: well-formed members and the known-finding regions -/

/-- what C11 and the target guarantee about a member (decidable):
    alignments are positive; a bit-field has an integer declared type (size = alignment > 0), no `_Alignas`
    (C11 6.7.5p2), width ≤ width of the type (6.7.2.1p4), and width > 0 if it has a name (6.7.2.1p12) -/
def SMem.WF (m : SMem) : Prop :=
  0 < m.tyAlign ∧
  match m.bitWidth with
  | none => True
  | some w => 0 < m.size ∧ m.alignas = 0 ∧ m.tyAlign = m.size ∧ w ≤ 8 * m.size ∧ (m.named = true → 0 < w)

instance (m : SMem) : Decidable m.WF := by
  unfold SMem.WF
  cases m.bitWidth <;> exact inferInstance

/-- region of known finding C08-packed-bitfield-straddle: packed struct with a bit-field of non-zero width -/
def PackedWithBitfield (packed : Bool) (ms : List SMem) : Bool :=
  packed && ms.any fun m => match m.bitWidth with | some w => w != 0 | none => false

/-- region of known finding C08-packed-member-alignas: packed aggregate with a member that carries `_Alignas` -/
def PackedWithMemberAlign (packed : Bool) (ms : List SMem) : Bool :=
  packed && ms.any fun m => m.alignas != 0

/-- region of known finding C08-packed-union-bitfield: packed union with a named bit-field -/
def PackedUnionBitfield (packed : Bool) (ms : List SMem) : Bool :=
  packed && ms.any fun m => m.bitWidth.isSome && m.named

/-- the model's view of a member -/
def SMem.toMem (m : SMem) : Mem :=
  { size := (m.size : Int)
    align := ((if m.alignas ≠ 0 then m.alignas else m.tyAlign : Nat) : Int)
    bitWidth := m.bitWidth.map fun w => (w : Int)
    named := m.named }

def SPlaced.toPlaced (p : SPlaced) : Placed := { offset := (p.unitOffset : Int), bitOffset := (p.bitInUnit : Int) }

def SLayout.toLayout (l : SLayout) : Layout :=
  { size := (l.size : Int), align := (l.align : Int), placed := l.placed.map SPlaced.toPlaced }

end ChibiVerif.Spec.Layout

namespace ChibiVerif.Layout
open ChibiVerif.Gen.Declspec ChibiVerif.Spec.Layout

/-! ### arithmetic -/

theorem roundUp_eq (n a : Nat) (ha : 0 < a) : roundUp n a = (n + a - 1) / a * a := by
  unfold roundUp
  have h1 := Nat.div_add_mod n a
  have h2 := Nat.mod_lt n ha
  split
  · have : (n + a - 1) / a = n / a := by
      apply Nat.div_eq_of_lt_le
      · rw [Nat.mul_comm]; omega
      · rw [Nat.add_mul, Nat.mul_comm]; omega
    rw [this, Nat.mul_comm]; omega
  · have : (n + a - 1) / a = n / a + 1 := by
      apply Nat.div_eq_of_lt_le
      · rw [Nat.add_mul, Nat.mul_comm]; omega
      · rw [Nat.add_mul, Nat.add_mul, Nat.mul_comm]; omega
    rw [this, Nat.add_mul, Nat.mul_comm]; omega

theorem roundUp_ge (n a : Nat) : n ≤ roundUp n a := by
  unfold roundUp; split <;> omega

theorem roundUp_lt (n a : Nat) (ha : 0 < a) : roundUp n a < n + a := by
  unfold roundUp
  have := Nat.mod_lt n ha
  split <;> omega

theorem roundUp_dvd (n a : Nat) (ha : 0 < a) : a ∣ roundUp n a := by
  rw [roundUp_eq n a ha]; exact Nat.dvd_mul_left ..

theorem roundUp_of_dvd {n a : Nat} (h : a ∣ n) : roundUp n a = n := by
  unfold roundUp; rw [Nat.mod_eq_zero_of_dvd h]; simp

/-- `roundUp n a` is the least multiple of `a` that is ≥ `n` -/
theorem roundUp_least {n a m : Nat} (ha : 0 < a) (hd : a ∣ m) (hn : n ≤ m) : roundUp n a ≤ m := by
  obtain ⟨k, rfl⟩ := hd
  have hlt := roundUp_lt n a ha
  obtain ⟨j, hj⟩ := roundUp_dvd n a ha
  rw [hj] at hlt ⊢
  -- a*j < n + a ≤ a*k + a = a*(k+1)  ⇒  j < k+1
  have : j < k + 1 := by
    apply Nat.lt_of_mul_lt_mul_left (a := a)
    rw [Nat.mul_add]; omega
  exact Nat.mul_le_mul_left a (by omega)

theorem roundUp_small {n a : Nat} (h0 : 0 < n) (h1 : n ≤ a) : roundUp n a = a := by
  unfold roundUp
  by_cases h : n = a
  · subst h; simp
  · have : n % a = n := Nat.mod_eq_of_lt (by omega)
    rw [this]; split <;> omega

theorem roundUp_zero (a : Nat) : roundUp 0 a = 0 := by simp [roundUp]

theorem alignTo_natCast (n a : Nat) (ha : 0 < a) : alignTo (n : Int) (a : Int) = ((roundUp n a : Nat) : Int) := by
  unfold alignTo
  have h : ((n : Int) + (a : Int) - 1) = ((n + a - 1 : Nat) : Int) := by omega
  rw [h, Int.tdiv_eq_ediv_of_nonneg (Int.natCast_nonneg _), ← Int.natCast_ediv, ← Int.natCast_mul, roundUp_eq n a ha]

theorem alignDown_natCast (n a : Nat) : alignDown (n : Int) (a : Int) = ((n / a * a : Nat) : Int) := by
  unfold alignDown alignTo
  have h : ((n : Int) - (a : Int) + 1 + (a : Int) - 1) = (n : Int) := by omega
  rw [h, Int.tdiv_eq_ediv_of_nonneg (Int.natCast_nonneg _), ← Int.natCast_ediv, ← Int.natCast_mul]

theorem tdiv_natCast (n a : Nat) : Int.tdiv (n : Int) (a : Int) = ((n / a : Nat) : Int) := by
  rw [Int.tdiv_eq_ediv_of_nonneg (Int.natCast_nonneg _), ← Int.natCast_ediv]

theorem tmod_natCast (n a : Nat) : Int.tmod (n : Int) (a : Int) = ((n % a : Nat) : Int) := by
  rw [Int.tmod_eq_emod_of_nonneg (Int.natCast_nonneg _)]; simp

/-- chibicc's straddle test is the psABI containment rule -/
theorem straddle_iff (cur w u : Nat) (hu : 0 < u) (hw : 0 < w) :
    cur / u ≠ (cur + w - 1) / u ↔ ¬ (cur % u + w ≤ u) := by
  have h1 := Nat.div_add_mod cur u
  have h2 := Nat.mod_lt cur hu
  constructor
  · intro hne hle
    apply hne
    symm
    apply Nat.div_eq_of_lt_le
    · rw [Nat.mul_comm]; omega
    · rw [Nat.add_mul, Nat.mul_comm]; omega
  · intro hgt heq
    have h3 := Nat.div_add_mod (cur + w - 1) u
    have h4 := Nat.mod_lt (cur + w - 1) hu
    rw [← heq] at h3
    omega

end ChibiVerif.Layout
