/-
Helper lemmas for the layout part of C08 (Props/C08.lean):

* arithmetic: `roundUp` (Spec) is the least multiple ≥ n; chibicc's `align_to`/`align_down` on non-negative C ints
  (`Int`, truncating division) are `roundUp` / round-down; the straddle test of `struct_decl`
  `bits / (sz*8) != (bits + width - 1) / (sz*8)` is the psABI containment rule `bits % unit + width > unit`;
* `structStep_eq` / `structLoop_eq` : one member / all members of `struct_decl` against `Spec.allocate`;
* `unionLoop_inv` : `union_decl` against `Spec.specUnion` (the code takes the whole declared type of a named bit-field
  as its extent, the spec only its bits; equal after rounding to the alignment).

Core Lean only.
-/
import ChibiVerif.Model.Layout
import ChibiVerif.Spec.LayoutSpec

namespace ChibiVerif.Spec.Layout
open ChibiVerif.Layout

/-! ### scope: well-formed members and the known-finding regions -/

/-- what C11 and the target guarantee about a member (decidable):
    alignments are positive; a bit-field has an integer declared type (size = alignment > 0), no `_Alignas`
    (C11 6.7.5p2), width ≤ width of the type (6.7.2.1p4), and width > 0 if it has a name (6.7.2.1p12) -/
def SMem.WF (m : SMem) : Prop :=
  0 < m.tyAlign ∧
  match m.bitWidth with
  | none => True
  | some w => 0 < m.size ∧ m.alignas = 0 ∧ m.tyAlign = m.size ∧ w ≤ 8 * m.size ∧ (m.named = true → 0 < w)

instance (m : SMem) : Decidable m.WF := by
  unfold SMem.WF
  cases m.bitWidth <;> exact inferInstance

/-- region of known finding C08-packed-bitfield-straddle: packed struct with a bit-field of non-zero width -/
def PackedWithBitfield (packed : Bool) (ms : List SMem) : Bool :=
  packed && ms.any fun m => match m.bitWidth with | some w => w != 0 | none => false

/-- region of known finding C08-packed-member-alignas: packed aggregate with a member that carries `_Alignas` -/
def PackedWithMemberAlign (packed : Bool) (ms : List SMem) : Bool :=
  packed && ms.any fun m => m.alignas != 0

/-- region of known finding C08-packed-union-bitfield: packed union with a named bit-field -/
def PackedUnionBitfield (packed : Bool) (ms : List SMem) : Bool :=
  packed && ms.any fun m => m.bitWidth.isSome && m.named

/-- the model's view of a member -/
def SMem.toMem (m : SMem) : Mem :=
  { size := (m.size : Int)
    align := ((if m.alignas ≠ 0 then m.alignas else m.tyAlign : Nat) : Int)
    bitWidth := (match m.bitWidth with | some w => some (w : Int) | none => none)
    named := m.named }

def SPlaced.toPlaced (p : SPlaced) : Placed := { offset := (p.unitOffset : Int), bitOffset := (p.bitInUnit : Int) }

def SLayout.toLayout (l : SLayout) : Layout :=
  { size := (l.size : Int), align := (l.align : Int), placed := l.placed.map SPlaced.toPlaced }

end ChibiVerif.Spec.Layout

namespace ChibiVerif.Layout
open ChibiVerif.Gen.Declspec ChibiVerif.Spec.Layout

/-! ### arithmetic -/

theorem roundUp_eq (n a : Nat) (ha : 0 < a) : roundUp n a = (n + a - 1) / a * a := by
  unfold roundUp
  have h1 := Nat.div_add_mod n a
  have h2 := Nat.mod_lt n ha
  split
  · have : (n + a - 1) / a = n / a := by
      apply Nat.div_eq_of_lt_le
      · rw [Nat.mul_comm]; omega
      · rw [Nat.add_mul, Nat.mul_comm]; omega
    rw [this, Nat.mul_comm]; omega
  · have : (n + a - 1) / a = n / a + 1 := by
      apply Nat.div_eq_of_lt_le
      · rw [Nat.add_mul, Nat.mul_comm]; omega
      · rw [Nat.add_mul, Nat.add_mul, Nat.mul_comm]; omega
    rw [this, Nat.add_mul, Nat.mul_comm]; omega

theorem roundUp_ge (n a : Nat) : n ≤ roundUp n a := by
  unfold roundUp; split <;> omega

theorem roundUp_lt (n a : Nat) (ha : 0 < a) : roundUp n a < n + a := by
  unfold roundUp
  have := Nat.mod_lt n ha
  split <;> omega

theorem roundUp_dvd (n a : Nat) (ha : 0 < a) : a ∣ roundUp n a := by
  rw [roundUp_eq n a ha]; exact Nat.dvd_mul_left ..

theorem roundUp_of_dvd {n a : Nat} (h : a ∣ n) : roundUp n a = n := by
  unfold roundUp; rw [Nat.mod_eq_zero_of_dvd h]; simp

/-- `roundUp n a` is the least multiple of `a` that is ≥ `n` -/
theorem roundUp_least {n a m : Nat} (ha : 0 < a) (hd : a ∣ m) (hn : n ≤ m) : roundUp n a ≤ m := by
  obtain ⟨k, rfl⟩ := hd
  have hlt := roundUp_lt n a ha
  obtain ⟨j, hj⟩ := roundUp_dvd n a ha
  rw [hj] at hlt ⊢
  -- a*j < n + a ≤ a*k + a = a*(k+1)  ⇒  j < k+1
  have : j < k + 1 := by
    apply Nat.lt_of_mul_lt_mul_left (a := a)
    rw [Nat.mul_add]; omega
  exact Nat.mul_le_mul_left a (by omega)

theorem roundUp_small {n a : Nat} (h0 : 0 < n) (h1 : n ≤ a) : roundUp n a = a := by
  unfold roundUp
  by_cases h : n = a
  · subst h; simp
  · have : n % a = n := Nat.mod_eq_of_lt (by omega)
    rw [this]; split <;> omega

theorem roundUp_zero (a : Nat) : roundUp 0 a = 0 := by simp [roundUp]

theorem alignTo_natCast (n a : Nat) (ha : 0 < a) : alignTo (n : Int) (a : Int) = ((roundUp n a : Nat) : Int) := by
  unfold alignTo
  have h : ((n : Int) + (a : Int) - 1) = ((n + a - 1 : Nat) : Int) := by omega
  rw [h, Int.tdiv_eq_ediv_of_nonneg (Int.natCast_nonneg _), ← Int.natCast_ediv, ← Int.natCast_mul, roundUp_eq n a ha]

theorem alignDown_natCast (n a : Nat) : alignDown (n : Int) (a : Int) = ((n / a * a : Nat) : Int) := by
  unfold alignDown alignTo
  have h : ((n : Int) - (a : Int) + 1 + (a : Int) - 1) = (n : Int) := by omega
  rw [h, Int.tdiv_eq_ediv_of_nonneg (Int.natCast_nonneg _), ← Int.natCast_ediv, ← Int.natCast_mul]

theorem tdiv_natCast (n a : Nat) : Int.tdiv (n : Int) (a : Int) = ((n / a : Nat) : Int) := by
  rw [Int.tdiv_eq_ediv_of_nonneg (Int.natCast_nonneg _), ← Int.natCast_ediv]

theorem tmod_natCast (n a : Nat) : Int.tmod (n : Int) (a : Int) = ((n % a : Nat) : Int) := by
  rw [Int.tmod_eq_emod_of_nonneg (Int.natCast_nonneg _)]; simp

/-- chibicc's straddle test is the psABI containment rule -/
theorem straddle_iff (cur w u : Nat) (hu : 0 < u) (hw : 0 < w) :
    cur / u ≠ (cur + w - 1) / u ↔ ¬ (cur % u + w ≤ u) := by
  have h1 := Nat.div_add_mod cur u
  have h2 := Nat.mod_lt cur hu
  constructor
  · intro hne hle
    apply hne
    symm
    apply Nat.div_eq_of_lt_le
    · rw [Nat.mul_comm]; omega
    · rw [Nat.add_mul, Nat.mul_comm]; omega
  · intro hgt heq
    have h3 := Nat.div_add_mod (cur + w - 1) u
    have h4 := Nat.mod_lt (cur + w - 1) hu
    rw [← heq] at h3
    omega

theorem alignToE_natCast (n a : Nat) (ha : 0 < a) : alignToE (n : Int) (a : Int) = .ok ((roundUp n a : Nat) : Int) := by
  unfold alignToE
  have : ¬ a = 0 := by omega
  simp [this, alignTo_natCast n a ha]

theorem tdiv_natCast8 (n : Nat) : Int.tdiv (n : Int) 8 = ((n / 8 : Nat) : Int) := tdiv_natCast n 8

/-- the member is outside the packed known-finding regions -/
def MemInScope (packed : Bool) (m : SMem) : Prop :=
  packed = true → m.alignas = 0 ∧ (m.bitWidth = none ∨ m.bitWidth = some 0)

theorem placeMember_eq (packed : Bool) (cur : Nat) (m : SMem) (hwf : m.WF) (hsc : MemInScope packed m) :
    placeMember packed cur m.toMem =
      .ok (((allocate packed cur m).2 : Nat), (placedAt m (allocate packed cur m).1).toPlaced) := by
  obtain ⟨size, tyAlign, alignas, bw, named⟩ := m
  obtain ⟨hta, hbf⟩ := hwf
  unfold MemInScope at hsc
  simp only at hta hbf hsc
  cases bw with
  | none =>
    cases packed with
    | false =>
      have hA : 0 < (if alignas ≠ 0 then alignas else tyAlign) := by split <;> omega
      simp only [placeMember, SMem.toMem, allocate, placedAt, SMem.reqAlign, Bool.false_eq_true, if_false]
      generalize (if alignas ≠ 0 then alignas else tyAlign) = A at hA ⊢
      have e1 : ((A : Int) * 8) = ((8 * A : Nat) : Int) := by omega
      rw [e1, alignToE_natCast _ _ (by omega)]
      simp only [SPlaced.toPlaced, Except.ok.injEq, Prod.mk.injEq, Placed.mk.injEq, tdiv_natCast8]
      refine ⟨by omega, by omega, rfl⟩
    | true =>
      have ⟨ha0, _⟩ := hsc rfl
      subst ha0
      simp only [placeMember, SMem.toMem, allocate, placedAt, SMem.reqAlign, if_true]
      simp only [ne_eq, not_true_eq_false, if_false, Nat.mul_one]
      have e8 : (8 : Int) = ((8 : Nat) : Int) := rfl
      rw [e8, alignToE_natCast _ _ (by omega)]
      simp only [SPlaced.toPlaced, Except.ok.injEq, Prod.mk.injEq, Placed.mk.injEq, tdiv_natCast]
      refine ⟨by omega, by omega, rfl⟩
  | some w =>
    obtain ⟨hsz, ha0, hts, hw8, hnm⟩ := hbf
    subst ha0
    subst hts
    have e1 : ((tyAlign : Int) * 8) = ((8 * tyAlign : Nat) : Int) := by omega
    by_cases hw : w = 0
    · subst hw
      simp only [placeMember, SMem.toMem, allocate, placedAt, if_true, Int.natCast_eq_zero]
      rw [e1, alignToE_natCast _ _ (by omega)]
      simp [SPlaced.toPlaced]
    · have hp : packed = false := by
        cases packed with
        | false => rfl
        | true => have := (hsc rfl).2; simp at this; exact absurd this hw
      subst hp
      have hwz : ¬ ((w : Int) = 0) := by omega
      have hu : ¬ ((8 * tyAlign : Nat) : Int) = 0 := by omega
      simp only [placeMember, SMem.toMem, allocate, placedAt, hw, hwz, if_false, Bool.false_eq_true]
      rw [e1]
      simp only [hu, if_false]
      have e2 : ((cur : Int) + (w : Int) - 1) = ((cur + w - 1 : Nat) : Int) := by omega
      rw [e2, tdiv_natCast, tdiv_natCast, alignTo_natCast _ _ (by omega)]
      have hst := straddle_iff cur w (8 * tyAlign) (by omega) (by omega)
      by_cases hfit : cur % (8 * tyAlign) + w ≤ 8 * tyAlign
      · have hno : ¬ (cur / (8 * tyAlign) ≠ (cur + w - 1) / (8 * tyAlign)) := fun h => (hst.mp h) hfit
        have hno' : ¬ (((cur / (8 * tyAlign) : Nat) : Int) ≠ ((cur + w - 1) / (8 * tyAlign) : Nat)) := by
          intro h; apply hno; intro h'; apply h; rw [h']
        rw [if_neg hno', if_pos hfit]
        rw [tdiv_natCast8, alignDown_natCast, tmod_natCast]
        simp only [SPlaced.toPlaced, Except.ok.injEq, Prod.mk.injEq, Placed.mk.injEq]
        refine ⟨by omega, ?_⟩
        simp [Nat.div_div_eq_div_mul]
      · have hyes : (((cur / (8 * tyAlign) : Nat) : Int) ≠ ((cur + w - 1) / (8 * tyAlign) : Nat)) := by
          intro h; exact (hst.mpr hfit) (by exact_mod_cast h)
        rw [if_pos hyes, if_neg hfit]
        rw [tdiv_natCast8, alignDown_natCast, tmod_natCast]
        simp only [SPlaced.toPlaced, Except.ok.injEq, Prod.mk.injEq, Placed.mk.injEq]
        refine ⟨by omega, ?_⟩
        simp [Nat.div_div_eq_div_mul]

theorem stepAlign_eq (packed : Bool) (al : Nat) (m : SMem) (hwf : m.WF) (hsc : MemInScope packed m) (hal : 0 < al) :
    stepAlign packed al m.toMem = ((max al (m.contrib packed) : Nat) : Int) := by
  obtain ⟨size, tyAlign, alignas, bw, named⟩ := m
  obtain ⟨hta, hbf⟩ := hwf
  unfold MemInScope at hsc
  simp only at hta hbf hsc
  cases bw with
  | none =>
    cases packed with
    | false =>
      simp only [stepAlign, Mem.unnamedBitfield, SMem.toMem, SMem.contrib, SMem.reqAlign, Option.isSome, Bool.false_and,
        Bool.false_eq_true, if_false, Bool.not_false, Bool.true_and, decide_eq_true_eq]
      generalize (if alignas ≠ 0 then alignas else tyAlign) = A
      simp only [Nat.max_def]
      split <;> split <;> omega
    | true =>
      have ⟨ha0, _⟩ := hsc rfl
      subst ha0
      simp only [stepAlign, Mem.unnamedBitfield, SMem.toMem, SMem.contrib, SMem.reqAlign, Option.isSome, Bool.false_and,
        Bool.false_eq_true, if_false, Bool.not_true, if_true, ne_eq, not_true_eq_false]
      simp only [Nat.max_def]
      split <;> omega
  | some w =>
    obtain ⟨hsz, ha0, hts, hw8, hnm⟩ := hbf
    subst ha0
    subst hts
    cases named <;> cases packed <;>
      simp only [stepAlign, Mem.unnamedBitfield, SMem.toMem, SMem.contrib, Option.isSome, Bool.true_and, Bool.not_false,
        Bool.not_true, if_true, if_false, Bool.false_eq_true, Bool.and_false, Bool.and_true, Bool.false_and, ne_eq,
        not_true_eq_false, decide_eq_true_eq, Nat.max_def] <;>
      (try split) <;> (try split) <;> omega

theorem allocateAll_cons (p : Bool) (cur : Nat) (m : SMem) (ms : List SMem) :
    allocateAll p cur (m :: ms) =
      ((allocateAll p (allocate p cur m).2 ms).1,
       placedAt m (allocate p cur m).1 :: (allocateAll p (allocate p cur m).2 ms).2) := rfl

theorem aggAlign_cons (p : Bool) (a : Nat) (m : SMem) (ms : List SMem) :
    aggAlign p a (m :: ms) = aggAlign p (max a (m.contrib p)) ms := rfl

theorem structLoop_eq (packed : Bool) (ms : List SMem) : ∀ (cur al : Nat), 0 < al → (∀ m ∈ ms, m.WF) →
    (∀ m ∈ ms, MemInScope packed m) →
    structLoop packed cur al (ms.map SMem.toMem) =
      .ok (((allocateAll packed cur ms).1 : Nat), ((aggAlign packed al ms : Nat) : Int),
           (allocateAll packed cur ms).2.map SPlaced.toPlaced) := by
  induction ms with
  | nil => intro cur al _ _ _; rfl
  | cons m ms ih =>
    intro cur al hal hwf hsc
    have hwm := hwf m (List.mem_cons_self ..)
    have hsm := hsc m (List.mem_cons_self ..)
    simp only [List.map_cons, structLoop, structStep, placeMember_eq packed cur m hwm hsm,
      stepAlign_eq packed al m hwm hsm hal]
    rw [ih (allocate packed cur m).2 (max al (m.contrib packed)) (by omega)
      (fun x hx => hwf x (List.mem_cons_of_mem _ hx)) (fun x hx => hsc x (List.mem_cons_of_mem _ hx))]
    rw [allocateAll_cons, aggAlign_cons]
    rfl

theorem aggAlign_ge (p : Bool) (ms : List SMem) : ∀ a, a ≤ aggAlign p a ms := by
  induction ms with
  | nil => intro a; exact Nat.le_refl _
  | cons m ms ih => intro a; rw [aggAlign_cons]; exact Nat.le_trans (Nat.le_max_left ..) (ih _)

theorem structLayout_eq (packed : Bool) (aligned : Option Nat) (ms : List SMem)
    (hal : ∀ n, aligned = some n → 0 < n) (hwf : ∀ m ∈ ms, m.WF) (hsc : ∀ m ∈ ms, MemInScope packed m) :
    structLayout packed ((aligned.getD STRUCT_INIT_ALIGN : Nat) : Int) (ms.map SMem.toMem) =
      .ok (specStruct packed aligned ms).toLayout := by
  have h1 : STRUCT_INIT_ALIGN = 1 := rfl
  have ha0 : 0 < aligned.getD 1 := by
    cases aligned with
    | none => simp
    | some n => simpa using hal n rfl
  unfold structLayout
  have := structLoop_eq packed ms 0 (aligned.getD 1) ha0 hwf hsc
  rw [h1]
  simp only [Int.natCast_zero] at this
  rw [this]
  simp only
  have hpos : 0 < aggAlign packed (aligned.getD 1) ms := Nat.lt_of_lt_of_le ha0 (aggAlign_ge ..)
  have e1 : ((aggAlign packed (aligned.getD 1) ms : Nat) : Int) * 8 = ((8 * aggAlign packed (aligned.getD 1) ms : Nat) : Int) := by omega
  rw [e1, alignToE_natCast _ _ (by omega)]
  simp only [tdiv_natCast8, specStruct, SLayout.toLayout]

/-- the union member is outside the packed known-finding regions -/
def UMemInScope (packed : Bool) (m : SMem) : Prop :=
  packed = true → m.alignas = 0 ∧ ¬ (m.bitWidth.isSome = true ∧ m.named = true)

/-- `ty->size` after one member, as `union_decl` computes it -/
def codeExtent (m : SMem) : Nat :=
  match m.bitWidth, m.named with
  | some w, false => (w + 7) / 8
  | _, _ => m.size

theorem unionStep_eq (packed : Bool) (sm a : Nat) (m : SMem) (hwf : m.WF) (hsc : UMemInScope packed m) (ha : 0 < a) :
    unionStep packed sm a m.toMem = (((max sm (codeExtent m) : Nat) : Int), ((max a (m.contrib packed) : Nat) : Int)) := by
  obtain ⟨size, tyAlign, alignas, bw, named⟩ := m
  obtain ⟨hta, hbf⟩ := hwf
  unfold UMemInScope at hsc
  simp only at hta hbf hsc
  have e7 : ∀ w : Nat, Int.tdiv ((w : Int) + 7) 8 = (((w + 7) / 8 : Nat) : Int) := by
    intro w
    have : ((w : Int) + 7) = ((w + 7 : Nat) : Int) := by omega
    rw [this, tdiv_natCast8]
  cases bw with
  | none =>
    cases packed with
    | false =>
      simp only [unionStep, SMem.toMem, codeExtent, SMem.contrib, SMem.reqAlign, Bool.not_false, Bool.true_and,
        decide_eq_true_eq, Bool.false_eq_true, if_false, Prod.mk.injEq]
      generalize (if alignas ≠ 0 then alignas else tyAlign) = A
      simp only [Nat.max_def]
      constructor <;> split <;> split <;> omega
    | true =>
      have ⟨ha0, _⟩ := hsc rfl
      subst ha0
      simp only [unionStep, SMem.toMem, codeExtent, SMem.contrib, SMem.reqAlign, Bool.not_true, Bool.false_and,
        Bool.false_eq_true, if_false, if_true, ne_eq, not_true_eq_false, Prod.mk.injEq, Nat.max_def]
      constructor <;> split <;> (try split) <;> omega
  | some w =>
    obtain ⟨hsz, ha0, hts, hw8, hnm⟩ := hbf
    subst ha0
    subst hts
    cases named with
    | false =>
      simp only [unionStep, SMem.toMem, codeExtent, SMem.contrib, e7, Bool.false_and, Bool.false_eq_true, if_false,
        Prod.mk.injEq, Nat.max_def]
      constructor <;> split <;> (try split) <;> omega
    | true =>
      have hp : packed = false := by
        cases packed with
        | false => rfl
        | true => exact absurd ⟨rfl, rfl⟩ (hsc rfl).2
      subst hp
      simp only [unionStep, SMem.toMem, codeExtent, SMem.contrib, Bool.not_false, Bool.true_and, Bool.and_true,
        decide_eq_true_eq, if_true, ne_eq, not_true_eq_false, if_false, Prod.mk.injEq, Nat.max_def]
      constructor <;> split <;> (try split) <;> omega

/-- what relates the running size of `union_decl` (`sm`) to the running extent of the spec (`ss`):
    they are equal, or both are positive and at most the alignment (then both round up to it) -/
def UInv (sm ss a : Nat) : Prop := ss ≤ sm ∧ (sm = ss ∨ (0 < ss ∧ sm ≤ a))

theorem UInv_step (packed : Bool) (sm ss a : Nat) (m : SMem) (hwf : m.WF) (hsc : UMemInScope packed m)
    (h : UInv sm ss a) :
    UInv (max sm (codeExtent m)) (max ss m.extent) (max a (m.contrib packed)) := by
  obtain ⟨size, tyAlign, alignas, bw, named⟩ := m
  obtain ⟨hta, hbf⟩ := hwf
  obtain ⟨h1, h2⟩ := h
  unfold UMemInScope at hsc
  simp only at hta hbf hsc
  cases bw with
  | none =>
    simp only [UInv, codeExtent, SMem.extent, Nat.max_def]
    constructor
    · split <;> split <;> omega
    · split <;> split <;> split <;> omega
  | some w =>
    obtain ⟨hsz, ha0, hts, hw8, hnm⟩ := hbf
    subst ha0
    subst hts
    cases named with
    | false =>
      simp only [UInv, codeExtent, SMem.extent, Nat.max_def]
      constructor
      · split <;> split <;> omega
      · split <;> split <;> split <;> omega
    | true =>
      have hp : packed = false := by
        cases packed with
        | false => rfl
        | true => exact absurd ⟨rfl, rfl⟩ (hsc rfl).2
      subst hp
      have hw0 := hnm rfl
      have hext : (w + 7) / 8 ≤ tyAlign := by omega
      have hext0 : 0 < (w + 7) / 8 := by omega
      simp only [UInv, codeExtent, SMem.extent, SMem.contrib, Bool.not_false, Bool.and_true, if_true, Nat.max_def]
      generalize (w + 7) / 8 = e at hext hext0 ⊢
      constructor
      · split <;> split <;> omega
      · split <;> split <;> split <;> omega


theorem unionLoop_eq (packed : Bool) (ms : List SMem) : ∀ (sm ss a : Nat), 0 < a → (∀ m ∈ ms, m.WF) →
    (∀ m ∈ ms, UMemInScope packed m) → UInv sm ss a →
    ∃ sm' : Nat, unionLoop packed sm a (ms.map SMem.toMem) = ((sm' : Int), ((aggAlign packed a ms : Nat) : Int)) ∧
      UInv sm' (ms.foldl (fun s m => max s m.extent) ss) (aggAlign packed a ms) := by
  induction ms with
  | nil => intro sm ss a _ _ _ h; exact ⟨sm, rfl, h⟩
  | cons m ms ih =>
    intro sm ss a ha hwf hsc h
    have hwm := hwf m (List.mem_cons_self ..)
    have hsm := hsc m (List.mem_cons_self ..)
    simp only [List.map_cons, unionLoop, unionStep_eq packed sm a m hwm hsm ha, List.foldl_cons, aggAlign_cons]
    exact ih _ _ _ (by omega) (fun x hx => hwf x (List.mem_cons_of_mem _ hx))
      (fun x hx => hsc x (List.mem_cons_of_mem _ hx)) (UInv_step packed sm ss a m hwm hsm h)

theorem unionLayout_eq (packed : Bool) (aligned : Option Nat) (ms : List SMem)
    (hal : ∀ n, aligned = some n → 0 < n) (hwf : ∀ m ∈ ms, m.WF) (hsc : ∀ m ∈ ms, UMemInScope packed m) :
    unionLayout packed ((aligned.getD STRUCT_INIT_ALIGN : Nat) : Int) (ms.map SMem.toMem) =
      .ok (specUnion packed aligned ms).toLayout := by
  have h1 : STRUCT_INIT_ALIGN = 1 := rfl
  have h0 : STRUCT_INIT_SIZE = 0 := rfl
  have ha0 : 0 < aligned.getD 1 := by
    cases aligned with
    | none => simp
    | some n => simpa using hal n rfl
  obtain ⟨sm', hloop, hle, hinv⟩ := unionLoop_eq packed ms 0 0 (aligned.getD 1) ha0 hwf hsc ⟨Nat.le_refl _, Or.inl rfl⟩
  have hpos : 0 < aggAlign packed (aligned.getD 1) ms := Nat.lt_of_lt_of_le ha0 (aggAlign_ge ..)
  unfold unionLayout
  rw [h1, h0]
  simp only [Int.natCast_zero] at hloop ⊢
  simp only [hloop, alignToE_natCast _ _ hpos]
  have hr : roundUp sm' (aggAlign packed (aligned.getD 1) ms) =
      roundUp (ms.foldl (fun s m => max s m.extent) 0) (aggAlign packed (aligned.getD 1) ms) := by
    rcases hinv with h | ⟨h2, h3⟩
    · rw [h]
    · rw [roundUp_small (by omega) h3, roundUp_small h2 (by omega)]
  simp only [hr, specUnion, SLayout.toLayout, List.map_map, Except.ok.injEq, Layout.mk.injEq, true_and]
  apply List.map_congr_left
  intro _ _; rfl

/-! ### regions ⇒ per-member scope -/

theorem memInScope_of_regions {packed : Bool} {ms : List SMem}
    (h1 : PackedWithBitfield packed ms = false) (h2 : PackedWithMemberAlign packed ms = false) :
    ∀ m ∈ ms, MemInScope packed m := by
  intro m hm hp
  subst hp
  simp only [PackedWithBitfield, PackedWithMemberAlign, Bool.true_and, List.any_eq_false] at h1 h2
  have a1 := h1 m hm
  have a2 := h2 m hm
  refine ⟨by simpa using a2, ?_⟩
  cases hb : m.bitWidth with
  | none => exact Or.inl rfl
  | some w =>
    rw [hb] at a1
    right
    have : w = 0 := by simpa using a1
    rw [this]

theorem uMemInScope_of_regions {packed : Bool} {ms : List SMem}
    (h1 : PackedUnionBitfield packed ms = false) (h2 : PackedWithMemberAlign packed ms = false) :
    ∀ m ∈ ms, UMemInScope packed m := by
  intro m hm hp
  subst hp
  simp only [PackedUnionBitfield, PackedWithMemberAlign, Bool.true_and, List.any_eq_false] at h1 h2
  have a1 := h1 m hm
  have a2 := h2 m hm
  refine ⟨by simpa using a2, ?_⟩
  rintro ⟨hb, hn⟩
  simp [hb, hn] at a1

end ChibiVerif.Layout
