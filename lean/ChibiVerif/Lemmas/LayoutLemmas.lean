/-
Helper lemmas for the layout part of C08 (Props/C08.lean):

* arithmetic: `roundUp` (Spec) is the least multiple ≥ n; chibicc's `align_to`/`align_down` on non-negative C ints
  (`Int`, truncating division) are `roundUp` / round-down; the straddle test of `struct_decl`
  `bits / (sz*8) != (bits + width - 1) / (sz*8)` is the psABI containment rule `bits % unit + width > unit`;
* `structStep_eq` / `structLoop_eq` : one member / all members of `struct_decl` against `Spec.allocate`;
* `unionLoop_inv` : `union_decl` against `Spec.specUnion` (the code takes the whole declared type of a named bit-field
  as its extent, the spec only its bits; equal after rounding to the alignment).

Core Lean only.
-/
import ChibiVerif.Model.Layout
import ChibiVerif.Spec.LayoutSpec
import ChibiVerif.Spec.LayoutRegions
import ChibiVerif.Lemmas.LayoutTotal

set_option linter.unusedSimpArgs false

namespace ChibiVerif.Spec.Layout
open ChibiVerif.Layout

/-! ### scope: well-formed members and the known-finding regions -/

/-- what C11 and the target guarantee about a member (decidable):
    alignments are positive; a bit-field has an integer declared type (size = alignment > 0), no `_Alignas`
    (C11 6.7.5p2), width ≤ width of the type (6.7.2.1p4), and width > 0 if it has a name (6.7.2.1p12) -/
def SMem.WF (m : SMem) : Prop :=
  0 < m.tyAlign ∧
  match m.bitWidth with
  | none => True
  | some w => 0 < m.size ∧ m.alignas = 0 ∧ m.tyAlign = m.size ∧ w ≤ 8 * m.size ∧ (m.named = true → 0 < w)

instance (m : SMem) : Decidable m.WF := by
  unfold SMem.WF
  cases m.bitWidth <;> exact inferInstance

/-- the model's view of a member -/
def SMem.toMem (m : SMem) : Mem :=
  { size := (m.size : Int)
    align := ((if m.alignas ≠ 0 then m.alignas else m.tyAlign : Nat) : Int)
    bitWidth := (match m.bitWidth with | some w => some (w : Int) | none => none)
    named := m.named }

def SPlaced.toPlaced (p : SPlaced) : Placed := { offset := (p.unitOffset : Int), bitOffset := (p.bitInUnit : Int) }

def SLayout.toLayout (l : SLayout) : Layout :=
  { size := (l.size : Int), align := (l.align : Int), placed := l.placed.map SPlaced.toPlaced }

end ChibiVerif.Spec.Layout

namespace ChibiVerif.Layout
open ChibiVerif.Gen.Declspec ChibiVerif.Spec.Layout

/-! ### arithmetic -/

theorem roundUp_eq (n a : Nat) (ha : 0 < a) : roundUp n a = (n + a - 1) / a * a := by
  unfold roundUp
  have h1 := Nat.div_add_mod n a
  have h2 := Nat.mod_lt n ha
  split
  · have : (n + a - 1) / a = n / a := by
      apply Nat.div_eq_of_lt_le
      · rw [Nat.mul_comm]; omega
      · rw [Nat.add_mul, Nat.mul_comm]; omega
    rw [this, Nat.mul_comm]; omega
  · have : (n + a - 1) / a = n / a + 1 := by
      apply Nat.div_eq_of_lt_le
      · rw [Nat.add_mul, Nat.mul_comm]; omega
      · rw [Nat.add_mul, Nat.add_mul, Nat.mul_comm]; omega
    rw [this, Nat.add_mul, Nat.mul_comm]; omega

theorem roundUp_ge (n a : Nat) : n ≤ roundUp n a := by
  unfold roundUp; split <;> omega

theorem roundUp_lt (n a : Nat) (ha : 0 < a) : roundUp n a < n + a := by
  unfold roundUp
  have := Nat.mod_lt n ha
  split <;> omega

theorem roundUp_dvd (n a : Nat) (ha : 0 < a) : a ∣ roundUp n a := by
  rw [roundUp_eq n a ha]; exact Nat.dvd_mul_left ..

theorem roundUp_of_dvd {n a : Nat} (h : a ∣ n) : roundUp n a = n := by
  unfold roundUp; rw [Nat.mod_eq_zero_of_dvd h]; simp

/-- `roundUp n a` is the least multiple of `a` that is ≥ `n` -/
theorem roundUp_least {n a m : Nat} (ha : 0 < a) (hd : a ∣ m) (hn : n ≤ m) : roundUp n a ≤ m := by
  obtain ⟨k, rfl⟩ := hd
  have hlt := roundUp_lt n a ha
  obtain ⟨j, hj⟩ := roundUp_dvd n a ha
  rw [hj] at hlt ⊢
  -- a*j < n + a ≤ a*k + a = a*(k+1)  ⇒  j < k+1
  have : j < k + 1 := by
    apply Nat.lt_of_mul_lt_mul_left (a := a)
    rw [Nat.mul_add]; omega
  exact Nat.mul_le_mul_left a (by omega)

theorem roundUp_small {n a : Nat} (h0 : 0 < n) (h1 : n ≤ a) : roundUp n a = a := by
  unfold roundUp
  by_cases h : n = a
  · subst h; simp
  · have : n % a = n := Nat.mod_eq_of_lt (by omega)
    rw [this]; split <;> omega

theorem roundUp_zero (a : Nat) : roundUp 0 a = 0 := by simp [roundUp]

theorem alignTo_natCast (n a : Nat) (ha : 0 < a) : alignTo (n : Int) (a : Int) = ((roundUp n a : Nat) : Int) := by
  unfold alignTo
  have h : ((n : Int) + (a : Int) - 1) = ((n + a - 1 : Nat) : Int) := by omega
  rw [h, Int.tdiv_eq_ediv_of_nonneg (Int.natCast_nonneg _), ← Int.natCast_ediv, ← Int.natCast_mul, roundUp_eq n a ha]

theorem alignDown_natCast (n a : Nat) : alignDown (n : Int) (a : Int) = ((n / a * a : Nat) : Int) := by
  unfold alignDown alignTo
  have h : ((n : Int) - (a : Int) + 1 + (a : Int) - 1) = (n : Int) := by omega
  rw [h, Int.tdiv_eq_ediv_of_nonneg (Int.natCast_nonneg _), ← Int.natCast_ediv, ← Int.natCast_mul]

theorem tdiv_natCast (n a : Nat) : Int.tdiv (n : Int) (a : Int) = ((n / a : Nat) : Int) := by
  rw [Int.tdiv_eq_ediv_of_nonneg (Int.natCast_nonneg _), ← Int.natCast_ediv]

theorem tmod_natCast (n a : Nat) : Int.tmod (n : Int) (a : Int) = ((n % a : Nat) : Int) := by
  rw [Int.tmod_eq_emod_of_nonneg (Int.natCast_nonneg _)]; simp

/-- chibicc's straddle test is the psABI containment rule -/
theorem straddle_iff (cur w u : Nat) (hu : 0 < u) (hw : 0 < w) :
    cur / u ≠ (cur + w - 1) / u ↔ ¬ (cur % u + w ≤ u) := by
  have h1 := Nat.div_add_mod cur u
  have h2 := Nat.mod_lt cur hu
  constructor
  · intro hne hle
    apply hne
    symm
    apply Nat.div_eq_of_lt_le
    · rw [Nat.mul_comm]; omega
    · rw [Nat.add_mul, Nat.mul_comm]; omega
  · intro hgt heq
    have h3 := Nat.div_add_mod (cur + w - 1) u
    have h4 := Nat.mod_lt (cur + w - 1) hu
    rw [← heq] at h3
    omega

theorem alignToE_natCast (n a : Nat) (ha : 0 < a) : alignToE (n : Int) (a : Int) = .ok ((roundUp n a : Nat) : Int) := by
  unfold alignToE
  have : ¬ a = 0 := by omega
  simp [this, alignTo_natCast n a ha]

theorem tdiv_natCast8 (n : Nat) : Int.tdiv (n : Int) 8 = ((n / 8 : Nat) : Int) := tdiv_natCast n 8

/-- the member, placed when the first free bit is `cur`, is outside the packed known-finding regions -/
def MemInScope (packed : Bool) (cur : Nat) (m : SMem) : Prop :=
  packed = true → m.alignas ≤ 1 ∧ ∀ w, m.bitWidth = some w → straddlesAt cur m.size w = false

theorem placeMember_eq (packed : Bool) (cur : Nat) (m : SMem) (hwf : m.WF) (hsc : MemInScope packed cur m) :
    placeMember packed cur m.toMem =
      .ok (((allocate packed cur m).2 : Nat), (placedAt m (allocate packed cur m).1).toPlaced) := by
  obtain ⟨size, tyAlign, alignas, bw, named⟩ := m
  obtain ⟨hta, hbf⟩ := hwf
  unfold MemInScope at hsc
  simp only at hta hbf hsc
  cases bw with
  | none =>
    cases packed with
    | false =>
      have hA : 0 < (if alignas ≠ 0 then alignas else tyAlign) := by split <;> omega
      simp only [placeMember, SMem.toMem, allocate, placedAt, SMem.reqAlign, Bool.false_eq_true, if_false]
      generalize (if alignas ≠ 0 then alignas else tyAlign) = A at hA ⊢
      have e1 : ((A : Int) * 8) = ((8 * A : Nat) : Int) := by omega
      rw [e1, alignToE_natCast _ _ (by omega)]
      simp only [SPlaced.toPlaced, Except.ok.injEq, Prod.mk.injEq, Placed.mk.injEq, tdiv_natCast8]
      refine ⟨by omega, by omega, rfl⟩
    | true =>
      have ⟨ha1, _⟩ := hsc rfl
      have hr : (if alignas ≠ 0 then alignas else 1) = 1 := by split <;> omega
      simp only [placeMember, SMem.toMem, allocate, placedAt, SMem.reqAlign, if_true, hr, Nat.mul_one]
      have e8 : (8 : Int) = ((8 : Nat) : Int) := rfl
      rw [e8, alignToE_natCast _ _ (by omega)]
      simp only [SPlaced.toPlaced, Except.ok.injEq, Prod.mk.injEq, Placed.mk.injEq, tdiv_natCast]
      refine ⟨by omega, by omega, rfl⟩
  | some w =>
    obtain ⟨hsz, ha0, hts, hw8, hnm⟩ := hbf
    subst ha0
    subst hts
    have e1 : ((tyAlign : Int) * 8) = ((8 * tyAlign : Nat) : Int) := by omega
    by_cases hw : w = 0
    · subst hw
      simp only [placeMember, SMem.toMem, allocate, placedAt, if_true, Int.natCast_eq_zero]
      rw [e1, alignToE_natCast _ _ (by omega)]
      simp [SPlaced.toPlaced]
    · have hwz : ¬ ((w : Int) = 0) := by omega
      have hu : ¬ ((8 * tyAlign : Nat) : Int) = 0 := by omega
      -- in a packed struct the field is in scope only if it fits: then the spec's `packed` arm and its `fits` arm coincide
      have hpk : packed = true → cur % (8 * tyAlign) + w ≤ 8 * tyAlign := by
        intro hp
        have := (hsc hp).2 w rfl
        simpa [straddlesAt, hw] using this
      have hal : allocate packed cur ⟨tyAlign, tyAlign, 0, some w, named⟩ =
          (if cur % (8 * tyAlign) + w ≤ 8 * tyAlign then (cur, cur + w)
           else (roundUp cur (8 * tyAlign), roundUp cur (8 * tyAlign) + w)) := by
        cases packed with
        | false => simp [allocate, hw]
        | true => simp [allocate, hw, hpk rfl]
      rw [hal]
      simp only [placeMember, SMem.toMem, placedAt, hw, hwz, if_false, Bool.false_eq_true]
      rw [e1]
      simp only [hu, if_false]
      have e2 : ((cur : Int) + (w : Int) - 1) = ((cur + w - 1 : Nat) : Int) := by omega
      rw [e2, tdiv_natCast, tdiv_natCast, alignTo_natCast _ _ (by omega)]
      have hst := straddle_iff cur w (8 * tyAlign) (by omega) (by omega)
      by_cases hfit : cur % (8 * tyAlign) + w ≤ 8 * tyAlign
      · have hno : ¬ (cur / (8 * tyAlign) ≠ (cur + w - 1) / (8 * tyAlign)) := fun h => (hst.mp h) hfit
        have hno' : ¬ (((cur / (8 * tyAlign) : Nat) : Int) ≠ ((cur + w - 1) / (8 * tyAlign) : Nat)) := by
          intro h; apply hno; intro h'; apply h; rw [h']
        rw [if_neg hno', if_pos hfit]
        rw [tdiv_natCast8, alignDown_natCast, tmod_natCast]
        simp only [SPlaced.toPlaced, Except.ok.injEq, Prod.mk.injEq, Placed.mk.injEq]
        refine ⟨by omega, ?_⟩
        simp [Nat.div_div_eq_div_mul]
      · have hyes : (((cur / (8 * tyAlign) : Nat) : Int) ≠ ((cur + w - 1) / (8 * tyAlign) : Nat)) := by
          intro h; exact (hst.mpr hfit) (by exact_mod_cast h)
        rw [if_pos hyes, if_neg hfit]
        rw [tdiv_natCast8, alignDown_natCast, tmod_natCast]
        simp only [SPlaced.toPlaced, Except.ok.injEq, Prod.mk.injEq, Placed.mk.injEq]
        refine ⟨by omega, ?_⟩
        simp [Nat.div_div_eq_div_mul]

theorem stepAlign_eq (packed : Bool) (al cur : Nat) (m : SMem) (hwf : m.WF) (hsc : MemInScope packed cur m) (hal : 0 < al) :
    stepAlign packed al m.toMem = ((max al (m.contrib packed) : Nat) : Int) := by
  obtain ⟨size, tyAlign, alignas, bw, named⟩ := m
  obtain ⟨hta, hbf⟩ := hwf
  unfold MemInScope at hsc
  simp only at hta hbf hsc
  cases bw with
  | none =>
    cases packed with
    | false =>
      simp only [stepAlign, Mem.unnamedBitfield, SMem.toMem, SMem.contrib, SMem.reqAlign, Option.isSome, Bool.false_and,
        Bool.false_eq_true, if_false, Bool.not_false, Bool.true_and, decide_eq_true_eq]
      generalize (if alignas ≠ 0 then alignas else tyAlign) = A
      simp only [Nat.max_def]
      split <;> split <;> omega
    | true =>
      have ⟨ha1, _⟩ := hsc rfl
      have hr : (if alignas ≠ 0 then alignas else 1) = 1 := by split <;> omega
      simp only [stepAlign, Mem.unnamedBitfield, SMem.toMem, SMem.contrib, SMem.reqAlign, Option.isSome, Bool.false_and,
        Bool.false_eq_true, if_false, Bool.not_true, if_true, hr]
      simp only [Nat.max_def]
      split <;> omega
  | some w =>
    obtain ⟨hsz, ha0, hts, hw8, hnm⟩ := hbf
    subst ha0
    subst hts
    cases named <;> cases packed <;>
      simp only [stepAlign, Mem.unnamedBitfield, SMem.toMem, SMem.contrib, Option.isSome, Bool.true_and, Bool.not_false,
        Bool.not_true, if_true, if_false, Bool.false_eq_true, Bool.and_false, Bool.and_true, Bool.false_and, ne_eq,
        not_true_eq_false, decide_eq_true_eq, Nat.max_def] <;>
      (try split) <;> (try split) <;> omega

theorem allocateAll_cons (p : Bool) (cur : Nat) (m : SMem) (ms : List SMem) :
    allocateAll p cur (m :: ms) =
      ((allocateAll p (allocate p cur m).2 ms).1,
       placedAt m (allocate p cur m).1 :: (allocateAll p (allocate p cur m).2 ms).2) := rfl

theorem aggAlign_cons (p : Bool) (a : Nat) (m : SMem) (ms : List SMem) :
    aggAlign p a (m :: ms) = aggAlign p (max a (m.contrib p)) ms := rfl

/-- every member of the list, placed where the allocation rule puts it, is in scope -/
def AllInScope (packed : Bool) : Nat → List SMem → Prop
  | _, [] => True
  | cur, m :: ms => MemInScope packed cur m ∧ AllInScope packed (allocate packed cur m).2 ms

theorem structLoop_eq (packed : Bool) (ms : List SMem) : ∀ (cur al : Nat), 0 < al → (∀ m ∈ ms, m.WF) →
    AllInScope packed cur ms →
    structLoop packed cur al (ms.map SMem.toMem) =
      .ok (((allocateAll packed cur ms).1 : Nat), ((aggAlign packed al ms : Nat) : Int),
           (allocateAll packed cur ms).2.map SPlaced.toPlaced) := by
  induction ms with
  | nil => intro cur al _ _ _; rfl
  | cons m ms ih =>
    intro cur al hal hwf hsc
    have hwm := hwf m (List.mem_cons_self ..)
    have hsm := hsc.1
    simp only [List.map_cons, structLoop, structStep, placeMember_eq packed cur m hwm hsm,
      stepAlign_eq packed al cur m hwm hsm hal]
    rw [ih (allocate packed cur m).2 (max al (m.contrib packed)) (by omega)
      (fun x hx => hwf x (List.mem_cons_of_mem _ hx)) hsc.2]
    rw [allocateAll_cons, aggAlign_cons]
    rfl

theorem aggAlign_ge (p : Bool) (ms : List SMem) : ∀ a, a ≤ aggAlign p a ms := by
  induction ms with
  | nil => intro a; exact Nat.le_refl _
  | cons m ms ih => intro a; rw [aggAlign_cons]; exact Nat.le_trans (Nat.le_max_left ..) (ih _)

theorem structLayout_eq (packed : Bool) (aligned : Option Nat) (ms : List SMem)
    (hal : ∀ n, aligned = some n → 0 < n) (hwf : ∀ m ∈ ms, m.WF) (hsc : AllInScope packed 0 ms) :
    structLayout packed ((aligned.getD STRUCT_INIT_ALIGN : Nat) : Int) (ms.map SMem.toMem) =
      .ok (specStruct packed aligned ms).toLayout := by
  have h1 : STRUCT_INIT_ALIGN = 1 := rfl
  have ha0 : 0 < aligned.getD 1 := by
    cases aligned with
    | none => simp
    | some n => simpa using hal n rfl
  unfold structLayout
  have := structLoop_eq packed ms 0 (aligned.getD 1) ha0 hwf hsc
  rw [h1]
  simp only [Int.natCast_zero] at this
  rw [this]
  simp only
  have hpos : 0 < aggAlign packed (aligned.getD 1) ms := Nat.lt_of_lt_of_le ha0 (aggAlign_ge ..)
  have e1 : ((aggAlign packed (aligned.getD 1) ms : Nat) : Int) * 8 = ((8 * aggAlign packed (aligned.getD 1) ms : Nat) : Int) := by omega
  rw [e1, alignToE_natCast _ _ (by omega)]
  simp only [tdiv_natCast8, specStruct, SLayout.toLayout]

/-- the union member is outside the packed known-finding regions -/
def UMemInScope (packed : Bool) (m : SMem) : Prop :=
  packed = true → m.alignas ≤ 1 ∧ ∀ w, m.bitWidth = some w → m.named = true → m.size ≤ (w + 7) / 8

/-- `ty->size` after one member, as `union_decl` computes it -/
def codeExtent (m : SMem) : Nat :=
  match m.bitWidth, m.named with
  | some w, false => (w + 7) / 8
  | _, _ => m.size

theorem unionStep_eq (packed : Bool) (sm a : Nat) (m : SMem) (hwf : m.WF) (hsc : UMemInScope packed m) (ha : 0 < a) :
    unionStep packed sm a m.toMem = (((max sm (codeExtent m) : Nat) : Int), ((max a (m.contrib packed) : Nat) : Int)) := by
  obtain ⟨size, tyAlign, alignas, bw, named⟩ := m
  obtain ⟨hta, hbf⟩ := hwf
  unfold UMemInScope at hsc
  simp only at hta hbf hsc
  have e7 : ∀ w : Nat, Int.tdiv ((w : Int) + 7) 8 = (((w + 7) / 8 : Nat) : Int) := by
    intro w
    have : ((w : Int) + 7) = ((w + 7 : Nat) : Int) := by omega
    rw [this, tdiv_natCast8]
  cases bw with
  | none =>
    cases packed with
    | false =>
      simp only [unionStep, SMem.toMem, codeExtent, SMem.contrib, SMem.reqAlign, Bool.not_false, Bool.true_and,
        decide_eq_true_eq, Bool.false_eq_true, if_false, Prod.mk.injEq]
      generalize (if alignas ≠ 0 then alignas else tyAlign) = A
      simp only [Nat.max_def]
      constructor <;> split <;> split <;> omega
    | true =>
      have ⟨ha1, _⟩ := hsc rfl
      have hr : (if alignas ≠ 0 then alignas else 1) = 1 := by split <;> omega
      simp only [unionStep, SMem.toMem, codeExtent, SMem.contrib, SMem.reqAlign, Bool.not_true, Bool.false_and,
        Bool.false_eq_true, if_false, if_true, hr, Prod.mk.injEq, Nat.max_def]
      constructor <;> split <;> (try split) <;> omega
  | some w =>
    obtain ⟨hsz, ha0, hts, hw8, hnm⟩ := hbf
    subst ha0
    subst hts
    cases named with
    | false =>
      simp only [unionStep, SMem.toMem, codeExtent, SMem.contrib, e7, Bool.false_and, Bool.false_eq_true, if_false,
        Prod.mk.injEq, Nat.max_def]
      constructor <;> split <;> (try split) <;> omega
    | true =>
      cases packed with
      | false =>
        simp only [unionStep, SMem.toMem, codeExtent, SMem.contrib, Bool.not_false, Bool.true_and, Bool.and_true,
          decide_eq_true_eq, if_true, ne_eq, not_true_eq_false, if_false, Prod.mk.injEq, Nat.max_def]
        constructor <;> split <;> (try split) <;> omega
      | true =>
        simp only [unionStep, SMem.toMem, codeExtent, SMem.contrib, Bool.not_true, Bool.false_and, Bool.and_false,
          Bool.false_eq_true, if_true, ne_eq, not_true_eq_false, if_false, Prod.mk.injEq, Nat.max_def]
        constructor <;> split <;> (try split) <;> omega

/-- what relates the running size of `union_decl` (`sm`) to the running extent of the spec (`ss`):
    they are equal, or both are positive and at most the alignment (then both round up to it) -/
def UInv (sm ss a : Nat) : Prop := ss ≤ sm ∧ (sm = ss ∨ (0 < ss ∧ sm ≤ a))

theorem UInv_step (packed : Bool) (sm ss a : Nat) (m : SMem) (hwf : m.WF) (hsc : UMemInScope packed m)
    (h : UInv sm ss a) :
    UInv (max sm (codeExtent m)) (max ss m.extent) (max a (m.contrib packed)) := by
  obtain ⟨size, tyAlign, alignas, bw, named⟩ := m
  obtain ⟨hta, hbf⟩ := hwf
  obtain ⟨h1, h2⟩ := h
  unfold UMemInScope at hsc
  simp only at hta hbf hsc
  cases bw with
  | none =>
    simp only [UInv, codeExtent, SMem.extent, Nat.max_def]
    constructor
    · split <;> split <;> omega
    · split <;> split <;> split <;> omega
  | some w =>
    obtain ⟨hsz, ha0, hts, hw8, hnm⟩ := hbf
    subst ha0
    subst hts
    cases named with
    | false =>
      simp only [UInv, codeExtent, SMem.extent, Nat.max_def]
      constructor
      · split <;> split <;> omega
      · split <;> split <;> split <;> omega
    | true =>
      have hw0 := hnm rfl
      have hext : (w + 7) / 8 ≤ tyAlign := by omega
      have hext0 : 0 < (w + 7) / 8 := by omega
      cases packed with
      | false =>
        simp only [UInv, codeExtent, SMem.extent, SMem.contrib, Bool.not_false, Bool.and_true, if_true, Nat.max_def]
        generalize (w + 7) / 8 = e at hext hext0 ⊢
        constructor
        · split <;> split <;> omega
        · split <;> split <;> split <;> omega
      | true =>
        -- in scope only if the field is as wide (in bytes) as its declared type: then the code's extent is the spec's
        have hge := (hsc rfl).2 w rfl rfl
        simp only [UInv, codeExtent, SMem.extent, SMem.contrib, Bool.not_true, Bool.and_false, Bool.false_eq_true, if_false,
          Nat.max_def]
        generalize (w + 7) / 8 = e at hext hext0 hge ⊢
        constructor
        · split <;> split <;> omega
        · split <;> split <;> split <;> omega


theorem unionLoop_eq (packed : Bool) (ms : List SMem) : ∀ (sm ss a : Nat), 0 < a → (∀ m ∈ ms, m.WF) →
    (∀ m ∈ ms, UMemInScope packed m) → UInv sm ss a →
    ∃ sm' : Nat, unionLoop packed sm a (ms.map SMem.toMem) = ((sm' : Int), ((aggAlign packed a ms : Nat) : Int)) ∧
      UInv sm' (ms.foldl (fun s m => max s m.extent) ss) (aggAlign packed a ms) := by
  induction ms with
  | nil => intro sm ss a _ _ _ h; exact ⟨sm, rfl, h⟩
  | cons m ms ih =>
    intro sm ss a ha hwf hsc h
    have hwm := hwf m (List.mem_cons_self ..)
    have hsm := hsc m (List.mem_cons_self ..)
    simp only [List.map_cons, unionLoop, unionStep_eq packed sm a m hwm hsm ha, List.foldl_cons, aggAlign_cons]
    exact ih _ _ _ (by omega) (fun x hx => hwf x (List.mem_cons_of_mem _ hx))
      (fun x hx => hsc x (List.mem_cons_of_mem _ hx)) (UInv_step packed sm ss a m hwm hsm h)

theorem unionLayout_eq (packed : Bool) (aligned : Option Nat) (ms : List SMem)
    (hal : ∀ n, aligned = some n → 0 < n) (hwf : ∀ m ∈ ms, m.WF) (hsc : ∀ m ∈ ms, UMemInScope packed m) :
    unionLayout packed ((aligned.getD STRUCT_INIT_ALIGN : Nat) : Int) (ms.map SMem.toMem) =
      .ok (specUnion packed aligned ms).toLayout := by
  have h1 : STRUCT_INIT_ALIGN = 1 := rfl
  have h0 : STRUCT_INIT_SIZE = 0 := rfl
  have ha0 : 0 < aligned.getD 1 := by
    cases aligned with
    | none => simp
    | some n => simpa using hal n rfl
  obtain ⟨sm', hloop, hle, hinv⟩ := unionLoop_eq packed ms 0 0 (aligned.getD 1) ha0 hwf hsc ⟨Nat.le_refl _, Or.inl rfl⟩
  have hpos : 0 < aggAlign packed (aligned.getD 1) ms := Nat.lt_of_lt_of_le ha0 (aggAlign_ge ..)
  unfold unionLayout
  rw [h1, h0]
  simp only [Int.natCast_zero] at hloop ⊢
  simp only [hloop, alignToE_natCast _ _ hpos]
  have hr : roundUp sm' (aggAlign packed (aligned.getD 1) ms) =
      roundUp (ms.foldl (fun s m => max s m.extent) 0) (aggAlign packed (aligned.getD 1) ms) := by
    rcases hinv with h | ⟨h2, h3⟩
    · rw [h]
    · rw [roundUp_small (by omega) h3, roundUp_small h2 (by omega)]
  simp only [hr, specUnion, SLayout.toLayout, List.map_map, Except.ok.injEq, Layout.mk.injEq, true_and]
  apply List.map_congr_left
  intro _ _; rfl

/-! ### regions ⇒ per-member scope -/

theorem allInScope_unpacked (ms : List SMem) : ∀ cur, AllInScope false cur ms := by
  induction ms with
  | nil => intro _; trivial
  | cons m ms ih => intro cur; exact ⟨fun h => Bool.noConfusion h, ih _⟩

theorem allInScope_packed (ms : List SMem) : ∀ cur, packedStraddle cur ms = false →
    (∀ m ∈ ms, m.alignas ≤ 1) → AllInScope true cur ms := by
  induction ms with
  | nil => intro _ _ _; trivial
  | cons m ms ih =>
    intro cur h1 h2
    simp only [packedStraddle, Bool.or_eq_false_iff] at h1
    refine ⟨fun _ => ⟨h2 m (List.mem_cons_self ..), ?_⟩, ih _ h1.2 (fun x hx => h2 x (List.mem_cons_of_mem _ hx))⟩
    intro w hw
    have := h1.1
    rw [hw] at this
    exact this

theorem memInScope_of_regions {packed : Bool} {ms : List SMem}
    (h1 : PackedWithBitfield packed ms = false) (h2 : PackedWithMemberAlign packed ms = false) :
    AllInScope packed 0 ms := by
  cases packed with
  | false => exact allInScope_unpacked ms 0
  | true =>
    simp only [PackedWithBitfield, PackedWithMemberAlign, Bool.true_and, List.any_eq_false, decide_eq_true_eq] at h1 h2
    exact allInScope_packed ms 0 h1 (fun m hm => by have := h2 m hm; omega)

theorem uMemInScope_of_regions {packed : Bool} {ms : List SMem}
    (h1 : PackedUnionBitfield packed ms = false) (h2 : PackedWithMemberAlign packed ms = false) :
    ∀ m ∈ ms, UMemInScope packed m := by
  intro m hm hp
  subst hp
  simp only [PackedUnionBitfield, PackedWithMemberAlign, Bool.true_and, List.any_eq_false, decide_eq_true_eq] at h1 h2
  have a1 := h1 m hm
  have a2 := h2 m hm
  refine ⟨by omega, ?_⟩
  intro w hw hn
  rw [hw, hn] at a1
  simp only [Bool.true_and, decide_eq_true_eq] at a1
  omega

/-! ### whole types (nested aggregates, arrays, pointers) -/

theorem isPow2le28_eq (n : Int) : isPow2le28 n = pow2le28 n := rfl

mutual
  /-- well-formed type description (C11 constraints on bit-fields, non-negative numbers); with `r = true` also:
      every aggregate is outside the three known-finding regions -/
  def Ty.ok (r : Bool) : Ty → Bool
    | .prim _ => true
    | .enum => true
    | .ptr => true
    | .arr e n => e.ok r && decide (0 ≤ n)
    | .flex e => e.ok r
    | .struct p al ms => ms.ok r && alignedOk al && (!r || (!PackedWithBitfield p (specMembers ms) && !PackedWithMemberAlign p (specMembers ms)))
    | .union p al ms => ms.ok r && alignedOk al && (!r || (!PackedUnionBitfield p (specMembers ms) && !PackedWithMemberAlign p (specMembers ms)))
  def Aligns.ok (r : Bool) : Aligns → Bool
    | .nil => true
    | .const n rest => (n == 0 || isPow2le28 n) && rest.ok r     -- C11 6.7.5p3: a valid alignment (power of two ≤ 2^28) or zero
    | .type t rest => t.ok r && rest.ok r
  def Members.ok (r : Bool) : Members → Bool
    | .nil => true
    | .cons d as ty rest =>
      ty.ok r && rest.ok r && as.ok r &&
      (match d.bitWidth with
       | none => true
       | some w => isBitfieldBase ty && specAligns as == 0 && decide (0 ≤ w) && decide (w ≤ 8 * (specSizeAlign ty).1) &&
                   (!d.named || decide (0 < w)))     -- no `_Alignas` on a bit-field (C11 6.7.5p2)
end

theorem prim_eq (t : TyName) : primSize t = ((psabiScalar t).1 : Nat) ∧ primAlign t = ((psabiScalar t).2 : Nat) ∧
    0 < (psabiScalar t).2 := by
  cases t <;> decide

theorem bitfieldBase_props {ty : Ty} (h : isBitfieldBase ty = true) :
    0 < (specSizeAlign ty).1 ∧ (specSizeAlign ty).2 = (specSizeAlign ty).1 := by
  cases ty with
  | prim t => cases t <;> first | (simp [isBitfieldBase] at h; done) | decide
  | enum => decide
  | _ => simp [isBitfieldBase] at h

/-- the declared types the specification allows for a bit-field are exactly those type.c `is_integer` accepts (the guard of
    struct_members' diagnostic "bit-field has non-integer type") -/
theorem isBitfieldBase_eq_isInteger (ty : Ty) : isBitfieldBase ty = ty.isInteger := by
  cases ty with
  | prim t => cases t <;> decide
  | enum => decide
  | ptr => decide
  | arr _ _ => exact (by decide : false = integerKinds.contains "TY_ARRAY")
  | flex _ => exact (by decide : false = integerKinds.contains "TY_ARRAY")
  | struct _ _ _ => exact (by decide : false = integerKinds.contains "TY_STRUCT")
  | union _ _ _ => exact (by decide : false = integerKinds.contains "TY_UNION")


theorem specSizeAlign_struct (p : Bool) (al : Option Int) (ms : Members) :
    specSizeAlign (.struct p al ms) =
      ((specStruct p (specAligned al) (specMembers ms)).size, (specStruct p (specAligned al) (specMembers ms)).align) := by
  simp [specSizeAlign]

theorem specSizeAlign_union (p : Bool) (al : Option Int) (ms : Members) :
    specSizeAlign (.union p al ms) =
      ((specUnion p (specAligned al) (specMembers ms)).size, (specUnion p (specAligned al) (specMembers ms)).align) := by
  simp [specSizeAlign]

theorem aligned_cast {al : Option Int} (h : alignedOk al = true) :
    alignAttr ((STRUCT_INIT_ALIGN : Nat) : Int) al = .ok ((((specAligned al).getD STRUCT_INIT_ALIGN : Nat)) : Int) ∧
    (∀ n, specAligned al = some n → 0 < n) := by
  rw [alignAttr_eq]
  cases al with
  | none => simp [specAligned]
  | some n =>
    simp only [alignedOk, isPow2le28_eq, Bool.or_eq_true, beq_iff_eq] at h
    by_cases h0 : n = 0
    · subst h0; simp [specAligned]
    · have hp : pow2le28 n = true := by
        rcases h with h | h
        · exact absurd h h0
        · exact h
      have hpos := pow2le28_pos hp
      simp only [h0, hp, if_false, if_true, specAligned, Option.getD_some, Option.some.injEq, Except.ok.injEq]
      refine ⟨by omega, ?_⟩
      intro m hm; omega

mutual
  theorem ty_eq : ∀ (t : Ty), t.ok true = true →
      t.sizeAlign = .ok (((specSizeAlign t).1 : Nat), ((specSizeAlign t).2 : Nat)) ∧ 0 < (specSizeAlign t).2
    | .prim t, _ => by
      have := prim_eq t
      simp only [Ty.sizeAlign, specSizeAlign, this.1, this.2.1]
      exact ⟨trivial, this.2.2⟩
    | .enum, _ => ⟨rfl, by decide⟩
    | .ptr, _ => ⟨rfl, by decide⟩
    | .arr e n, h => by
      simp only [Ty.ok, Bool.and_eq_true, decide_eq_true_eq] at h
      have ih := ty_eq e h.1
      simp only [Ty.sizeAlign, ih.1, bind, Except.bind, pure, Except.pure, specSizeAlign]
      refine ⟨?_, ih.2⟩
      have : ((n.toNat : Nat) : Int) = n := Int.toNat_of_nonneg h.2
      simp only [Except.ok.injEq, Prod.mk.injEq, and_true]
      rw [Int.natCast_mul, this]
    | .flex e, h => by
      simp only [Ty.ok] at h
      have ih := ty_eq e h
      simp only [Ty.sizeAlign, ih.1, bind, Except.bind, pure, Except.pure, specSizeAlign]
      refine ⟨?_, ih.2⟩
      simp
    | .struct p al ms, h => by
      simp only [Ty.ok, Bool.not_true, Bool.false_or, Bool.and_eq_true, Bool.not_eq_true'] at h
      obtain ⟨⟨hms, hal⟩, hB, hA⟩ := h
      have ih := ms_eq ms hms
      have hc := aligned_cast hal
      have := structLayout_eq p (specAligned al) (specMembers ms) hc.2 ih.2 (memInScope_of_regions hB hA)
      rw [specSizeAlign_struct]
      simp only [Ty.sizeAlign, ih.1, bind, Except.bind, hc.1, this, liftFail, pure, Except.pure, SLayout.toLayout]
      refine ⟨trivial, ?_⟩
      have ha0 : 0 < (specAligned al).getD 1 := by
        cases h' : specAligned al with
        | none => simp
        | some n => simpa using hc.2 n h'
      exact Nat.lt_of_lt_of_le ha0 (aggAlign_ge ..)
    | .union p al ms, h => by
      simp only [Ty.ok, Bool.not_true, Bool.false_or, Bool.and_eq_true, Bool.not_eq_true'] at h
      obtain ⟨⟨hms, hal⟩, hU, hA⟩ := h
      have ih := ms_eq ms hms
      have hc := aligned_cast hal
      have := unionLayout_eq p (specAligned al) (specMembers ms) hc.2 ih.2 (uMemInScope_of_regions hU hA)
      rw [specSizeAlign_union]
      simp only [Ty.sizeAlign, ih.1, bind, Except.bind, hc.1, this, liftFail, pure, Except.pure, SLayout.toLayout]
      refine ⟨trivial, ?_⟩
      have ha0 : 0 < (specAligned al).getD 1 := by
        cases h' : specAligned al with
        | none => simp
        | some n => simpa using hc.2 n h'
      exact Nat.lt_of_lt_of_le ha0 (aggAlign_ge ..)
  theorem as_eq : ∀ (as : Aligns), as.ok true = true → ∀ acc : Nat,
      as.eval (acc : Int) = .ok (((max acc (specAligns as) : Nat)) : Int)
    | .nil, _, acc => by simp [Aligns.eval, specAligns]
    | .const n rest, h, acc => by
      simp only [Aligns.ok, Bool.and_eq_true] at h
      have hgood : alignedAttrBad n = false := (alignedAttrBad_iff n).2 (by simpa [isPow2le28_eq] using h.1)
      have hn0 : 0 ≤ n := by
        rcases (alignedAttrBad_iff n).1 hgood with h0 | hp
        · omega
        · have := pow2le28_pos hp; omega
      replace h := And.intro hn0 h.2
      have hbad : ¬ alignasConstBad n = true := by rw [alignasConstBad_eq, hgood]; simp
      have ih := as_eq rest h.2 (max acc n.toNat)
      have hc : alignasCombine (acc : Int) (alignasOfConst n) = ((max acc n.toNat : Nat) : Int) := by
        simp only [alignasCombine, alignasOfConst, Nat.max_def]
        by_cases h1 : (acc : Int) < n <;> by_cases h2 : acc ≤ n.toNat <;> simp only [h1, h2, if_true, if_false] <;> omega
      simp only [Aligns.eval, hbad, Bool.false_eq_true, if_false, hc, ih, specAligns, Nat.max_assoc]
    | .type t rest, h, acc => by
      simp only [Aligns.ok, Bool.and_eq_true] at h
      have iht := ty_eq t h.1
      have ih := as_eq rest h.2 (max acc (specSizeAlign t).2)
      have hc : alignasCombine (acc : Int) (alignasOfType ((specSizeAlign t).1 : Nat) ((specSizeAlign t).2 : Nat)) =
          ((max acc (specSizeAlign t).2 : Nat) : Int) := by
        simp only [alignasCombine, alignasOfType, Nat.max_def]
        by_cases h1 : ((acc : Nat) : Int) < (((specSizeAlign t).2 : Nat) : Int) <;> by_cases h2 : acc ≤ (specSizeAlign t).2 <;>
          simp only [h1, h2, if_true, if_false] <;> omega
      simp only [Aligns.eval, iht.1, bind, Except.bind, hc, ih, specAligns, Nat.max_assoc]
  theorem ms_eq : ∀ (ms : Members), ms.ok true = true →
      ms.toMems = .ok ((specMembers ms).map SMem.toMem) ∧ ∀ m ∈ specMembers ms, m.WF
    | .nil, _ => by
      refine ⟨rfl, ?_⟩
      intro m hm
      simp [specMembers] at hm
    | .cons d as ty rest, h => by
      simp only [Members.ok, Bool.and_eq_true] at h
      obtain ⟨⟨⟨hty, hrest⟩, has⟩, hbf⟩ := h
      have ih1 := ty_eq ty hty
      have ih2 := ms_eq rest hrest
      have iha := as_eq as has 0
      simp only [Nat.zero_max, Int.natCast_zero] at iha
      have hsm : specMembers (.cons d as ty rest) =
          { size := (specSizeAlign ty).1, tyAlign := (specSizeAlign ty).2, alignas := specAligns as,
            bitWidth := d.bitWidth.map Int.toNat, named := d.named } :: specMembers rest := by
        simp [specMembers]
      have hal : memberAlign ((specAligns as : Nat) : Int) (((specSizeAlign ty).2 : Nat) : Int) =
          ((if specAligns as ≠ 0 then specAligns as else (specSizeAlign ty).2 : Nat) : Int) := by
        unfold memberAlign
        by_cases h0 : specAligns as = 0
        · simp [h0]
        · have : ¬ ((specAligns as : Nat) : Int) = 0 := by omega
          simp [h0, this]
      have hguard : (d.bitWidth.isSome && !ty.isInteger) = false := by
        cases hb : d.bitWidth with
        | none => rfl
        | some w =>
          rw [hb] at hbf
          simp only [Bool.and_eq_true] at hbf
          rw [← isBitfieldBase_eq_isInteger, hbf.1.1.1.1]; rfl
      constructor
      · simp only [Members.toMems, iha, ih1.1, ih2.1, bind, Except.bind, hguard, Bool.false_eq_true, if_false, pure, Except.pure, hsm,
          List.map_cons, SMem.toMem, Except.ok.injEq, List.cons.injEq, and_true, Mem.mk.injEq, hal, true_and]
        cases hb : d.bitWidth with
        | none => simp
        | some w =>
          rw [hb] at hbf
          simp only [Bool.and_eq_true, decide_eq_true_eq] at hbf
          have : ((w.toNat : Nat) : Int) = w := Int.toNat_of_nonneg hbf.1.1.2
          simp [this]
      · intro m hm
        rw [hsm] at hm
        rcases List.mem_cons.mp hm with rfl | hm'
        · refine ⟨ih1.2, ?_⟩
          cases hb : d.bitWidth with
          | none => simp
          | some w =>
            rw [hb] at hbf
            simp only [Bool.and_eq_true, decide_eq_true_eq, Bool.or_eq_true, Bool.not_eq_true', beq_iff_eq] at hbf
            obtain ⟨⟨⟨⟨hbase, ha0⟩, hw0⟩, hw8⟩, hnm⟩ := hbf
            have hp := bitfieldBase_props hbase
            simp only [Option.map_some]
            refine ⟨hp.1, ha0, hp.2, by omega, ?_⟩
            intro hn
            rcases hnm with hnm | hnm
            · rw [hn] at hnm; cases hnm
            · omega
        · exact ih2.2 m hm'
end

/-! ### the outcome class of the code is the specification's -/

theorem alignedAccepted_eq (al : Option Int) : alignedAccepted al = alignedOk al := by
  cases al <;> rfl

mutual
  theorem accepted_eq_ty : ∀ (t : Ty), t.accepted = specAccepted t
    | .prim _ => rfl
    | .enum => rfl
    | .ptr => rfl
    | .arr e _ => by simp only [Ty.accepted, specAccepted]; exact accepted_eq_ty e
    | .flex e => by simp only [Ty.accepted, specAccepted]; exact accepted_eq_ty e
    | .struct _ al ms => by simp only [Ty.accepted, specAccepted, alignedAccepted_eq, accepted_eq_ms ms]
    | .union _ al ms => by simp only [Ty.accepted, specAccepted, alignedAccepted_eq, accepted_eq_ms ms]
  theorem accepted_eq_as : ∀ (as : Aligns), as.accepted = specAcceptedAs as
    | .nil => rfl
    | .const n rest => by simp only [Aligns.accepted, specAcceptedAs, isPow2le28_eq, accepted_eq_as rest]
    | .type t rest => by simp only [Aligns.accepted, specAcceptedAs, accepted_eq_ty t, accepted_eq_as rest]
  theorem accepted_eq_ms : ∀ (ms : Members), ms.accepted = specAcceptedMs ms
    | .nil => rfl
    | .cons d as ty rest => by
      simp only [Members.accepted, specAcceptedMs, accepted_eq_as as, accepted_eq_ty ty, accepted_eq_ms rest,
        isBitfieldBase_eq_isInteger]
end

/-! ### well-formed descriptions are accepted (they get a layout, inside the known-finding regions too) -/

mutual
  theorem ok_accepted_ty : ∀ (r : Bool) (t : Ty), t.ok r = true → t.accepted = true
    | _, .prim _, _ => rfl
    | _, .enum, _ => rfl
    | _, .ptr, _ => rfl
    | r, .arr e n, h => by
      simp only [Ty.ok, Bool.and_eq_true] at h
      simp only [Ty.accepted]; exact ok_accepted_ty r e h.1
    | r, .flex e, h => by
      simp only [Ty.ok] at h
      simp only [Ty.accepted]; exact ok_accepted_ty r e h
    | r, .struct p al ms, h => by
      simp only [Ty.ok, Bool.and_eq_true] at h
      simp only [Ty.accepted, Bool.and_eq_true]
      exact ⟨h.1.2, ok_accepted_ms r ms h.1.1⟩
    | r, .union p al ms, h => by
      simp only [Ty.ok, Bool.and_eq_true] at h
      simp only [Ty.accepted, Bool.and_eq_true]
      exact ⟨h.1.2, ok_accepted_ms r ms h.1.1⟩
  theorem ok_accepted_as : ∀ (r : Bool) (as : Aligns), as.ok r = true → as.accepted = true
    | _, .nil, _ => rfl
    | r, .const n rest, h => by
      simp only [Aligns.ok, Bool.and_eq_true] at h
      simp only [Aligns.accepted, Bool.and_eq_true]
      exact ⟨by simpa [isPow2le28_eq] using h.1, ok_accepted_as r rest h.2⟩
    | r, .type t rest, h => by
      simp only [Aligns.ok, Bool.and_eq_true] at h
      simp only [Aligns.accepted, Bool.and_eq_true]
      exact ⟨ok_accepted_ty r t h.1, ok_accepted_as r rest h.2⟩
  theorem ok_accepted_ms : ∀ (r : Bool) (ms : Members), ms.ok r = true → ms.accepted = true
    | _, .nil, _ => rfl
    | r, .cons d as ty rest, h => by
      simp only [Members.ok, Bool.and_eq_true] at h
      obtain ⟨⟨⟨hty, hrest⟩, has⟩, hbf⟩ := h
      simp only [Members.accepted, Bool.and_eq_true, Bool.or_eq_true]
      refine ⟨⟨⟨ok_accepted_as r as has, ok_accepted_ty r ty hty⟩, ?_⟩, ok_accepted_ms r rest hrest⟩
      cases hb : d.bitWidth with
      | none => left; rfl
      | some w =>
        right
        rw [hb] at hbf
        simp only [Bool.and_eq_true] at hbf
        rw [← isBitfieldBase_eq_isInteger]; exact hbf.1.1.1.1
end

/-! ### which known-finding region a description touches (printed by `drv_c08 regions`; the check attributes a mismatch
    between chibicc and gcc to a known finding only inside these) -/

mutual
  /-- a well-formed description that touches none of the three regions is in the scope of `C08_types_partial` -/
  theorem ok_of_noRegion_ty : ∀ (t : Ty), t.ok false = true → (∀ k, k < 3 → t.inRegion k = false) → t.ok true = true
    | .prim _, _, _ => rfl
    | .enum, _, _ => rfl
    | .ptr, _, _ => rfl
    | .arr e n, h, hr => by
      simp only [Ty.ok, Bool.and_eq_true] at h ⊢
      exact ⟨ok_of_noRegion_ty e h.1 (fun k hk => by simpa [Ty.inRegion] using hr k hk), h.2⟩
    | .flex e, h, hr => by
      simp only [Ty.ok] at h ⊢
      exact ok_of_noRegion_ty e h (fun k hk => by simpa [Ty.inRegion] using hr k hk)
    | .struct p al ms, h, hr => by
      simp only [Ty.ok, Bool.and_eq_true] at h
      have h0 := hr 0 (by omega)
      have h1 := hr 1 (by omega)
      simp only [Ty.inRegion, nodeInRegion, Bool.or_eq_false_iff, Bool.true_and] at h0 h1
      have ih := ok_of_noRegion_ms ms h.1.1 (fun k hk => by
        have := hr k hk; simp only [Ty.inRegion, Bool.or_eq_false_iff] at this; exact this.2)
      simp only [Ty.ok, Bool.and_eq_true, ih, h.1.2, h0.1, h1.1, Bool.not_true, Bool.false_or, Bool.not_false, and_self]
    | .union p al ms, h, hr => by
      simp only [Ty.ok, Bool.and_eq_true] at h
      have h2 := hr 2 (by omega)
      have h1 := hr 1 (by omega)
      simp only [Ty.inRegion, nodeInRegion, Bool.or_eq_false_iff, Bool.not_false, Bool.true_and] at h2 h1
      have ih := ok_of_noRegion_ms ms h.1.1 (fun k hk => by
        have := hr k hk; simp only [Ty.inRegion, Bool.or_eq_false_iff] at this; exact this.2)
      simp only [Ty.ok, Bool.and_eq_true, ih, h.1.2, h2.1, h1.1, Bool.not_true, Bool.false_or, Bool.not_false, and_self]
  theorem ok_of_noRegion_as : ∀ (as : Aligns), as.ok false = true → (∀ k, k < 3 → as.inRegion k = false) → as.ok true = true
    | .nil, _, _ => rfl
    | .const n rest, h, hr => by
      simp only [Aligns.ok, Bool.and_eq_true] at h ⊢
      exact ⟨h.1, ok_of_noRegion_as rest h.2 (fun k hk => by simpa [Aligns.inRegion] using hr k hk)⟩
    | .type t rest, h, hr => by
      simp only [Aligns.ok, Bool.and_eq_true] at h ⊢
      have hr' : ∀ k, k < 3 → t.inRegion k = false ∧ rest.inRegion k = false := fun k hk => by
        have := hr k hk; simpa [Aligns.inRegion] using this
      exact ⟨ok_of_noRegion_ty t h.1 (fun k hk => (hr' k hk).1), ok_of_noRegion_as rest h.2 (fun k hk => (hr' k hk).2)⟩
  theorem ok_of_noRegion_ms : ∀ (ms : Members), ms.ok false = true → (∀ k, k < 3 → ms.inRegion k = false) → ms.ok true = true
    | .nil, _, _ => rfl
    | .cons d as ty rest, h, hr => by
      simp only [Members.ok, Bool.and_eq_true] at h ⊢
      have hr' : ∀ k, k < 3 → (as.inRegion k = false ∧ ty.inRegion k = false) ∧ rest.inRegion k = false := fun k hk => by
        have := hr k hk; simpa [Members.inRegion] using this
      exact ⟨⟨⟨ok_of_noRegion_ty ty h.1.1.1 (fun k hk => (hr' k hk).1.2), ok_of_noRegion_ms rest h.1.1.2 (fun k hk => (hr' k hk).2)⟩,
        ok_of_noRegion_as as h.1.2 (fun k hk => (hr' k hk).1.1)⟩, h.2⟩
end

/-- whole types: the layout the model computes for a well-formed, in-scope type description is the spec's -/
theorem layout_eq (t : Ty) (h : t.ok true = true) : t.layout = .ok (specTy t).toLayout := by
  cases t with
  | struct p al ms =>
    simp only [Ty.ok, Bool.not_true, Bool.false_or, Bool.and_eq_true, Bool.not_eq_true'] at h
    obtain ⟨⟨hms, hal⟩, hB, hA⟩ := h
    have ih := ms_eq ms hms
    have hc := aligned_cast hal
    simp only [Ty.layout, ih.1, bind, Except.bind, hc.1, specTy,
      structLayout_eq p (specAligned al) (specMembers ms) hc.2 ih.2 (memInScope_of_regions hB hA), liftFail]
  | union p al ms =>
    simp only [Ty.ok, Bool.not_true, Bool.false_or, Bool.and_eq_true, Bool.not_eq_true'] at h
    obtain ⟨⟨hms, hal⟩, hU, hA⟩ := h
    have ih := ms_eq ms hms
    have hc := aligned_cast hal
    simp only [Ty.layout, ih.1, bind, Except.bind, hc.1, specTy,
      unionLayout_eq p (specAligned al) (specMembers ms) hc.2 ih.2 (uMemInScope_of_regions hU hA), liftFail]
  | prim t => have := (ty_eq (.prim t) h).1; simp only [Ty.layout, this, bind, Except.bind, pure, Except.pure, specTy, SLayout.toLayout, List.map_nil]
  | enum => have := (ty_eq .enum h).1; simp only [Ty.layout, this, bind, Except.bind, pure, Except.pure, specTy, SLayout.toLayout, List.map_nil]
  | ptr => have := (ty_eq .ptr h).1; simp only [Ty.layout, this, bind, Except.bind, pure, Except.pure, specTy, SLayout.toLayout, List.map_nil]
  | arr e n => have := (ty_eq (.arr e n) h).1; simp only [Ty.layout, this, bind, Except.bind, pure, Except.pure, specTy, SLayout.toLayout, List.map_nil]
  | flex e => have := (ty_eq (.flex e) h).1; simp only [Ty.layout, this, bind, Except.bind, pure, Except.pure, specTy, SLayout.toLayout, List.map_nil]

end ChibiVerif.Layout

/-! ### what the spec's allocation rule means, declaratively (psABI 3.1.2) -/

namespace ChibiVerif.Spec.Layout
open ChibiVerif.Layout

/-- bits a struct member occupies -/
def SMem.bits (m : SMem) : Nat :=
  match m.bitWidth with
  | some w => w
  | none => 8 * m.size

/-- `s` is the least multiple of `a` that is ≥ `cur` -/
def LeastAligned (a cur s : Nat) : Prop := a ∣ s ∧ cur ≤ s ∧ ∀ s', a ∣ s' → cur ≤ s' → s ≤ s'

theorem leastAligned_roundUp (a cur : Nat) (ha : 0 < a) : LeastAligned a cur (roundUp cur a) :=
  ⟨roundUp_dvd cur a ha, roundUp_ge cur a, fun _ hd hc => roundUp_least ha hd hc⟩

/-- the allocation rule, declaratively (psABI 3.1.2), for one member of a struct that is not packed -/
theorem allocate_sound (cur : Nat) (m : SMem) (hwf : m.WF) :
    cur ≤ (allocate false cur m).1 ∧ (allocate false cur m).2 = (allocate false cur m).1 + m.bits ∧
    (m.bitWidth = none → LeastAligned (8 * m.reqAlign false) cur (allocate false cur m).1) ∧
    (m.bitWidth = some 0 → LeastAligned (8 * m.size) cur (allocate false cur m).1) ∧
    (∀ w, m.bitWidth = some w → 0 < w →
      -- the field lies inside one naturally aligned storage unit of its declared type …
      (allocate false cur m).1 / (8 * m.size) = ((allocate false cur m).1 + w - 1) / (8 * m.size) ∧
      -- … and it starts at the next free bit unless that would cross a unit boundary, then at the next boundary
      ((cur % (8 * m.size) + w ≤ 8 * m.size ∧ (allocate false cur m).1 = cur) ∨
       (¬ cur % (8 * m.size) + w ≤ 8 * m.size ∧ LeastAligned (8 * m.size) cur (allocate false cur m).1))) := by
  obtain ⟨size, tyAlign, alignas, bw, named⟩ := m
  obtain ⟨hta, hbf⟩ := hwf
  simp only at hta hbf
  cases bw with
  | none =>
    have hA : 0 < (if alignas ≠ 0 then alignas else tyAlign) := by split <;> omega
    have hr : SMem.reqAlign false ⟨size, tyAlign, alignas, none, named⟩ = (if alignas ≠ 0 then alignas else tyAlign) := by
      simp [SMem.reqAlign]
    have hpos : 0 < 8 * SMem.reqAlign false ⟨size, tyAlign, alignas, none, named⟩ := by rw [hr]; omega
    refine ⟨roundUp_ge .., rfl, fun _ => leastAligned_roundUp _ _ hpos, ?_, ?_⟩
    · intro h; cases h
    · intro w h; cases h
  | some w =>
    obtain ⟨hsz, ha0, hts, hw8, hnm⟩ := hbf
    by_cases hw : w = 0
    · subst hw
      have hal : allocate false cur ⟨size, tyAlign, alignas, some 0, named⟩ = (roundUp cur (8 * size), roundUp cur (8 * size)) := by
        simp [allocate]
      rw [hal]
      have hpos : 0 < 8 * size := by omega
      refine ⟨roundUp_ge .., rfl, ?_, fun _ => leastAligned_roundUp _ _ hpos, ?_⟩
      · intro h; cases h
      · intro w' h hw'; cases h; omega
    · by_cases hfit : cur % (8 * size) + w ≤ 8 * size
      · have hal : allocate false cur ⟨size, tyAlign, alignas, some w, named⟩ = (cur, cur + w) := by
          simp [allocate, hw, hfit]
        rw [hal]
        refine ⟨Nat.le_refl _, rfl, ?_, ?_, ?_⟩
        · intro h; cases h
        · intro h; cases h; exact absurd rfl hw
        · intro w' h hw'
          cases h
          refine ⟨?_, Or.inl ⟨hfit, rfl⟩⟩
          have := straddle_iff cur w (8 * size) (by omega) hw'
          exact Classical.not_not.mp (fun hne => (this.mp hne) hfit)
      · have hal : allocate false cur ⟨size, tyAlign, alignas, some w, named⟩ =
            (roundUp cur (8 * size), roundUp cur (8 * size) + w) := by
          simp [allocate, hw, hfit]
        rw [hal]
        refine ⟨roundUp_ge .., rfl, ?_, ?_, ?_⟩
        · intro h; cases h
        · intro h; cases h; exact absurd rfl hw
        · intro w' h hw'
          cases h
          have hpos : 0 < 8 * size := by omega
          refine ⟨?_, Or.inr ⟨hfit, leastAligned_roundUp _ _ hpos⟩⟩
          obtain ⟨k, hk⟩ := roundUp_dvd cur (8 * size) (by omega)
          show roundUp cur (8 * size) / (8 * size) = (roundUp cur (8 * size) + w - 1) / (8 * size)
          rw [hk]
          have h1 : 8 * size * k / (8 * size) = k := Nat.mul_div_cancel_left k (by omega)
          rw [h1]
          symm
          apply Nat.div_eq_of_lt_le
          · rw [Nat.mul_comm]; omega
          · rw [Nat.add_mul, Nat.mul_comm]; omega

/-- members in declaration order, pairwise disjoint, all before `e` -/
def InOrder : Nat → List SMem → List SPlaced → Nat → Prop
  | cur, [], [], e => cur = e
  | cur, m :: ms, p :: ps, e => cur ≤ p.firstBit ∧ InOrder (p.firstBit + m.bits) ms ps e
  | _, _, _, _ => False

theorem placedAt_firstBit (m : SMem) (s : Nat) : (placedAt m s).firstBit = s := by
  unfold placedAt
  cases m.bitWidth with
  | none => rfl
  | some w => by_cases h : w = 0 <;> simp [h]

theorem allocateAll_inOrder (ms : List SMem) : ∀ cur, (∀ m ∈ ms, m.WF) →
    InOrder cur ms (allocateAll false cur ms).2 (allocateAll false cur ms).1 := by
  induction ms with
  | nil => intro cur _; rfl
  | cons m ms ih =>
    intro cur hwf
    have hs := allocate_sound cur m (hwf m (List.mem_cons_self ..))
    rw [allocateAll_cons]
    simp only [InOrder, placedAt_firstBit]
    refine ⟨hs.1, ?_⟩
    rw [← hs.2.1]
    exact ih _ (fun x hx => hwf x (List.mem_cons_of_mem _ hx))

theorem inOrder_le {ms : List SMem} : ∀ {cur ps e}, InOrder cur ms ps e → cur ≤ e := by
  induction ms with
  | nil => intro cur ps e h; cases ps with
    | nil => simp only [InOrder] at h; omega
    | cons => simp [InOrder] at h
  | cons m ms ih => intro cur ps e h; cases ps with
    | nil => simp [InOrder] at h
    | cons p ps => simp only [InOrder] at h; have := ih h.2; omega

theorem contrib_le_aggAlign (p : Bool) (ms : List SMem) : ∀ a, ∀ m ∈ ms, m.contrib p ≤ aggAlign p a ms := by
  induction ms with
  | nil => intro a m hm; cases hm
  | cons x xs ih =>
    intro a m hm
    rw [aggAlign_cons]
    rcases List.mem_cons.mp hm with rfl | h
    · exact Nat.le_trans (Nat.le_max_right ..) (aggAlign_ge ..)
    · exact ih _ m h

/-- size and alignment of the struct: the size is a multiple of the alignment, covers every member, and is the
    least such; the alignment is at least that of every contributing member -/
theorem specStruct_size (aligned : Option Nat) (ms : List SMem) (hal : ∀ n, aligned = some n → 0 < n) :
    let l := specStruct false aligned ms
    l.align ∣ l.size ∧ (allocateAll false 0 ms).1 ≤ 8 * l.size ∧ 8 * l.size < (allocateAll false 0 ms).1 + 8 * l.align ∧
    (∀ m ∈ ms, m.contrib false ≤ l.align) ∧ (∀ n, aligned = some n → n ≤ l.align) := by
  have ha0 : 0 < aligned.getD 1 := by
    cases aligned with
    | none => simp
    | some n => simpa using hal n rfl
  have hpos : 0 < aggAlign false (aligned.getD 1) ms := Nat.lt_of_lt_of_le ha0 (aggAlign_ge ..)
  have hc := contrib_le_aggAlign false ms (aligned.getD 1)
  have hg := aggAlign_ge false ms (aligned.getD 1)
  simp only [specStruct]
  generalize aggAlign false (aligned.getD 1) ms = al at hpos hc hg
  generalize (allocateAll false 0 ms).1 = e
  obtain ⟨k, hk⟩ := roundUp_dvd e (8 * al) (by omega)
  have hge := roundUp_ge e (8 * al)
  have hlt := roundUp_lt e (8 * al) (by omega)
  have hdiv : roundUp e (8 * al) / 8 = al * k := by
    rw [hk, Nat.mul_assoc]; exact Nat.mul_div_cancel_left _ (by omega)
  refine ⟨⟨k, hdiv⟩, ?_, ?_, ?_, ?_⟩
  · rw [hdiv]; rw [hk, Nat.mul_assoc] at hge; exact hge
  · rw [hdiv]; rw [hk, Nat.mul_assoc] at hlt; exact hlt
  · exact hc
  · intro n hn; subst hn; exact hg

end ChibiVerif.Spec.Layout
