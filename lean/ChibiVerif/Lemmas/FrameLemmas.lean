/-
Helper lemmas for the frame family of C04: `align_to` rounds up to a multiple; invariants of the two loops of
assign_lvar_offsets (`assignParams_spec`, `assignLocals_spec`), by induction over the variable lists.
-/
import ChibiVerif.Model.Frame
namespace ChibiVerif.Frame
open ChibiVerif.Gen.C04
open ChibiVerif.Gen.Declspec (alignTo)

/-- `align_to` rounds a non-negative number up to the next multiple of a positive alignment -/
theorem alignTo_spec (n a : Int) (hn : 0 ≤ n) (ha : 0 < a) :
    n ≤ alignTo n a ∧ alignTo n a < n + a ∧ alignTo n a % a = 0 := by
  unfold alignTo
  have h0 : 0 ≤ n + a - 1 := by omega
  rw [Int.tdiv_eq_ediv_of_nonneg h0]
  have h1 := Int.mul_ediv_add_emod (n + a - 1) a
  have h2 := Int.emod_nonneg (n + a - 1) (by omega : a ≠ 0)
  have h3 := Int.emod_lt_of_pos (n + a - 1) ha
  have h4 : (n + a - 1) / a * a = a * ((n + a - 1) / a) := Int.mul_comm _ _
  refine ⟨by omega, by omega, ?_⟩
  exact Int.mul_emod_left _ _

theorem localAlign_pos (isArray : Bool) (size align : Int) (ha : 0 < align) : 0 < localAlign isArray size align := by
  unfold localAlign; split <;> omega

theorem localAlign_ge (isArray : Bool) (size align : Int) : align ≤ localAlign isArray size align := by
  unfold localAlign; split <;> omega


/-- hypotheses on the input of the second loop: what the first loop established for the stack parameters -/
structure StackOK (l : List (Var × Int)) : Prop where
  wf : ∀ e ∈ l, 0 ≤ e.1.size ∧ 0 < e.1.align
  ge : ∀ e ∈ l, e.2 ≠ 0 → 16 ≤ e.2 ∧ e.2 % 8 = 0
  ord : l.Pairwise fun a b => a.2 ≠ 0 → b.2 ≠ 0 → a.2 + a.1.size ≤ b.2

theorem StackOK.tail {e : Var × Int} {l : List (Var × Int)} (h : StackOK (e :: l)) : StackOK l :=
  ⟨fun x hx => h.wf x (List.mem_cons_of_mem _ hx), fun x hx => h.ge x (List.mem_cons_of_mem _ hx), (List.pairwise_cons.mp h.ord).2⟩

theorem assignLocals_spec : ∀ (l : List (Var × Int)) (b0 : Int), 0 ≤ b0 → StackOK l →
    b0 ≤ (assignLocals b0 l).2 ∧
    (slotsOf l (assignLocals b0 l).1).Pairwise Slot.Disjoint ∧
    ∀ s ∈ slotsOf l (assignLocals b0 l).1,
      (s.stack = true → 16 ≤ s.off ∧ s.off % 8 = 0 ∧ ∃ e ∈ l, e.2 ≠ 0 ∧ e.2 = s.off ∧ e.1.size = s.size) ∧
      (s.stack = false → -(assignLocals b0 l).2 ≤ s.off ∧ s.off + s.size ≤ -b0 ∧ s.off % s.align = 0 ∧ 0 ≤ s.size) := by
  intro l
  induction l with
  | nil => intro b0 _ _; simp [assignLocals, slotsOf]
  | cons e l ih =>
    intro b0 hb0 hok
    obtain ⟨v, off⟩ := e
    have hv : 0 ≤ v.size ∧ 0 < v.align := hok.wf (v, off) List.mem_cons_self
    by_cases hoff : off ≠ 0
    · -- stack parameter: passes through
      have hge := hok.ge (v, off) List.mem_cons_self hoff
      obtain ⟨ih1, ih2, ih3⟩ := ih b0 hb0 hok.tail
      have hord := (List.pairwise_cons.mp hok.ord).1
      simp only [assignLocals, hoff, if_true, slotsOf, ne_eq, not_false_eq_true, decide_true]
      refine ⟨ih1, List.pairwise_cons.mpr ⟨?_, ih2⟩, ?_⟩
      · intro s hs
        obtain ⟨hst, hfr⟩ := ih3 s hs
        cases hs' : s.stack
        · obtain ⟨_, h2, _, _⟩ := hfr hs'
          right; simp only; omega
        · obtain ⟨_, _, e', he', hne, heq, hsz⟩ := hst hs'
          have := hord e' he' hoff hne
          left; simp only at this ⊢; omega
      · intro s hs
        rcases List.mem_cons.mp hs with rfl | hs
        · simp only [true_implies, Bool.true_eq_false, false_implies, and_true]
          exact ⟨hge.1, hge.2, (v, off), List.mem_cons_self, hoff, rfl, rfl⟩
        · obtain ⟨hst, hfr⟩ := ih3 s hs
          refine ⟨fun h => ?_, hfr⟩
          obtain ⟨a, b, e', he', r⟩ := hst h
          exact ⟨a, b, e', List.mem_cons_of_mem _ he', r⟩
    · -- placed in the frame
      have hoff0 : off = 0 := by omega
      subst hoff0
      have hal := localAlign_pos v.isArray v.size v.align hv.2
      obtain ⟨a1, a2, a3⟩ := alignTo_spec (b0 + v.size) (localAlign v.isArray v.size v.align) (by omega) hal
      have hb : 0 ≤ localBottom b0 v.size (localAlign v.isArray v.size v.align) := by unfold localBottom; omega
      obtain ⟨ih1, ih2, ih3⟩ := ih _ hb hok.tail
      simp only [assignLocals, ne_eq, not_true_eq_false, if_false, slotsOf, decide_false]
      unfold localBottom at ih1 ih2 ih3 hb ⊢
      refine ⟨by omega, List.pairwise_cons.mpr ⟨?_, ih2⟩, ?_⟩
      · intro s hs
        obtain ⟨hst, hfr⟩ := ih3 s hs
        cases hs' : s.stack
        · obtain ⟨_, h2, _, _⟩ := hfr hs'
          right; simp only; omega
        · obtain ⟨h16, _⟩ := hst hs'
          left; simp only; omega
      · intro s hs
        rcases List.mem_cons.mp hs with rfl | hs
        · simp only [Bool.false_eq_true, false_implies, true_implies, true_and]
          refine ⟨by omega, by omega, ?_, hv.1⟩
          simp only [Var.frameAlign]
          exact Int.emod_eq_zero_of_dvd (Int.dvd_neg.mpr (Int.dvd_of_emod_eq_zero a3))
        · obtain ⟨hst, hfr⟩ := ih3 s hs
          refine ⟨fun h => ?_, fun h => ?_⟩
          · obtain ⟨a, b, e', he', r⟩ := hst h
            exact ⟨a, b, e', List.mem_cons_of_mem _ he', r⟩
          · obtain ⟨c1, c2, c3, c4⟩ := hfr h
            exact ⟨c1, by omega, c3, c4⟩


theorem assignParams_spec : ∀ (ps : List Var) (top : Int), 0 ≤ top → (∀ v ∈ ps, 0 ≤ v.size ∧ 0 < v.align) →
    top ≤ (assignParams top ps).2 ∧
    (ps.zip (assignParams top ps).1).length = ps.length ∧
    (∀ e ∈ ps.zip (assignParams top ps).1,
      (e.2 ≠ 0 → top ≤ e.2 ∧ e.2 % 8 = 0 ∧ e.2 + e.1.size ≤ (assignParams top ps).2 ∧ e.1.byStack = true) ∧
      (e.1.byStack = false → e.2 = 0)) ∧
    (ps.zip (assignParams top ps).1).Pairwise fun a b => a.2 ≠ 0 → b.2 ≠ 0 → a.2 + a.1.size ≤ b.2 := by
  intro ps
  induction ps with
  | nil => intro top _ _; simp [assignParams]
  | cons v ps ih =>
    intro top htop hwf
    have hv := hwf v List.mem_cons_self
    have hwf' : ∀ x ∈ ps, 0 ≤ x.size ∧ 0 < x.align := fun x hx => hwf x (List.mem_cons_of_mem _ hx)
    cases hbs : v.byStack
    · obtain ⟨i1, i2, i3, i4⟩ := ih top htop hwf'
      simp only [assignParams, hbs, Bool.false_eq_true, if_false, List.zip_cons_cons, List.length_cons]
      refine ⟨i1, by omega, ?_, List.pairwise_cons.mpr ⟨fun b _ h => absurd rfl h, i4⟩⟩
      intro e he
      rcases List.mem_cons.mp he with rfl | he
      · simp
      · exact i3 e he
    · obtain ⟨a1, a2, a3⟩ := alignTo_spec top 8 htop (by decide)
      have ht' : 0 ≤ stackParamOffset top + v.size := by unfold stackParamOffset; omega
      obtain ⟨i1, i2, i3, i4⟩ := ih _ ht' hwf'
      simp only [assignParams, hbs, if_true, List.zip_cons_cons, List.length_cons]
      unfold stackParamOffset at i1 i2 i3 i4 ht' ⊢
      refine ⟨by omega, by omega, ?_, List.pairwise_cons.mpr ⟨?_, i4⟩⟩
      · intro e he
        rcases List.mem_cons.mp he with rfl | he
        · simp only [hbs, Bool.true_eq_false, false_implies, and_true]
          intro _
          exact ⟨by omega, a3, by omega⟩
        · obtain ⟨j1, j2⟩ := i3 e he
          refine ⟨fun h => ?_, j2⟩
          obtain ⟨k1, k2, k3, k4⟩ := j1 h
          exact ⟨by omega, k2, k3, k4⟩
      · intro e he _ hne
        obtain ⟨j1, _⟩ := i3 e he
        obtain ⟨k1, _⟩ := j1 hne
        simp only; omega

theorem loopInput_ok (body params : List Var) (hwf : ∀ v ∈ body ++ params, 0 ≤ v.size ∧ 0 < v.align) :
    StackOK (loopInput body params) := by
  have hp : ∀ v ∈ params, 0 ≤ v.size ∧ 0 < v.align := fun v hv => hwf v (List.mem_append_right _ hv)
  obtain ⟨p1, p2, p3, p4⟩ := assignParams_spec params FRAME_TOP0 (by decide) hp
  refine ⟨?_, ?_, ?_⟩
  · intro e he
    rcases List.mem_append.mp he with he | he
    · obtain ⟨v, hv, rfl⟩ := List.mem_map.mp he
      exact hwf v (List.mem_append_left _ hv)
    · exact hp e.1 (List.of_mem_zip he).1
  · intro e he hne
    rcases List.mem_append.mp he with he | he
    · obtain ⟨v, hv, rfl⟩ := List.mem_map.mp he
      exact absurd rfl hne
    · obtain ⟨k1, k2, _, _⟩ := (p3 e he).1 hne
      have : FRAME_TOP0 = 16 := rfl
      exact ⟨by omega, k2⟩
  · refine List.pairwise_append.mpr ⟨?_, p4, ?_⟩
    · refine List.Pairwise.imp_of_mem (R := fun _ _ => True) ?_ (List.pairwise_of_forall (fun _ _ => trivial))
      intro a b ha _ _ hne
      obtain ⟨v, _, rfl⟩ := List.mem_map.mp ha
      exact absurd rfl hne
    · intro a ha b _ hne
      obtain ⟨v, _, rfl⟩ := List.mem_map.mp ha
      exact absurd rfl hne


theorem slotsOf_length : ∀ (l : List (Var × Int)) (b : Int), (slotsOf l (assignLocals b l).1).length = l.length := by
  intro l
  induction l with
  | nil => intro b; simp [slotsOf, assignLocals]
  | cons e l ih =>
    intro b
    obtain ⟨v, off⟩ := e
    by_cases h : off ≠ 0
    · simp [assignLocals, h, slotsOf, ih]
    · have : off = 0 := by omega
      subst this
      simp [assignLocals, slotsOf, ih]

theorem slotsOf_sizes : ∀ (l : List (Var × Int)) (b : Int),
    (slotsOf l (assignLocals b l).1).map (·.size) = l.map (·.1.size) := by
  intro l
  induction l with
  | nil => intro b; simp [slotsOf, assignLocals]
  | cons e l ih =>
    intro b
    obtain ⟨v, off⟩ := e
    by_cases h : off ≠ 0
    · simp [assignLocals, h, slotsOf, ih]
    · have : off = 0 := by omega
      subst this
      simp [assignLocals, slotsOf, ih]

theorem assignParams_length : ∀ (ps : List Var) (top : Int), (assignParams top ps).1.length = ps.length := by
  intro ps
  induction ps with
  | nil => intro top; simp [assignParams]
  | cons v ps ih => intro top; cases h : v.byStack <;> simp [assignParams, h, ih]

theorem loopInput_sizes (body params : List Var) :
    (loopInput body params).map (·.1.size) = (body ++ params).map (·.size) := by
  unfold loopInput
  rw [List.map_append, List.map_append, List.map_map]
  congr 1
  have : (params.zip (assignParams FRAME_TOP0 params).1).map (·.1) = params :=
    List.map_fst_zip (by rw [assignParams_length]; exact Nat.le_refl _)
  calc List.map (fun x => x.fst.size) (params.zip (assignParams FRAME_TOP0 params).fst)
      = List.map (fun v : Var => v.size) (List.map (fun x => x.fst) (params.zip (assignParams FRAME_TOP0 params).fst)) := by
        rw [List.map_map]; rfl
    _ = _ := by rw [this]

end ChibiVerif.Frame

/-! ### absolute alignment: what `%rbp ≡ 0 (mod 16)` and an offset that is a multiple of the alignment give -/
namespace ChibiVerif.Frame
open ChibiVerif.Gen.C04
open ChibiVerif.Gen.Declspec (alignTo)

/-- a multiple of `2^k` with `k ≥ 4` is a multiple of 16 -/
theorem mod16_of_mod_pow (off : Int) (k : Nat) (hk : 4 ≤ k) (h : off % (2 : Int) ^ k = 0) : off % 16 = 0 := by
  obtain ⟨c, hc⟩ := Int.dvd_of_emod_eq_zero h
  obtain ⟨j, rfl⟩ : ∃ j, k = 4 + j := ⟨k - 4, by omega⟩
  have e : (2 : Int) ^ (4 + j) = 16 * 2 ^ j := by rw [Int.pow_add]; rfl
  rw [e, Int.mul_assoc] at hc
  omega

theorem pow_ge_16 (k : Nat) (hk : 4 ≤ k) : (16 : Int) ≤ 2 ^ k := by
  obtain ⟨j, rfl⟩ : ∃ j, k = 4 + j := ⟨k - 4, by omega⟩
  have e : (2 : Int) ^ (4 + j) = 16 * 2 ^ j := by rw [Int.pow_add]; rfl
  have : (0 : Int) < 2 ^ j := Int.pow_pos (by decide)
  rw [e]; omega

/-- the address `rbp + off` of an object whose offset is a multiple of its alignment `A = 2^k` (or of `max 16 A`, the
    alignment assign_lvar_offsets gives an array of at least 16 bytes) is a multiple of `min A 16` when `%rbp` is a multiple
    of 16 — and of 16 itself for such an array -/
theorem addr_aligned (rbp off A F : Int) (k : Nat) (hA : A = 2 ^ k) (hF : F = A ∨ F = max 16 A) (hrbp : rbp % 16 = 0)
    (hoff : off % F = 0) : (rbp + off) % min A 16 = 0 ∧ (F = max 16 A → (rbp + off) % 16 = 0) := by
  by_cases hk : 4 ≤ k
  · have hge := pow_ge_16 k hk
    have hF' : F = A := by rcases hF with h | h <;> omega
    rw [hF', hA] at hoff
    have h16 := mod16_of_mod_pow off k hk hoff
    have hmin : min A 16 = 16 := by omega
    rw [hmin]
    exact ⟨by omega, fun _ => by omega⟩
  · have hk' : k = 0 ∨ k = 1 ∨ k = 2 ∨ k = 3 := by omega
    rcases hk' with rfl | rfl | rfl | rfl <;> (try simp at hA) <;> subst hA <;>
      (rcases hF with rfl | rfl <;> simp [Int.min_def, Int.max_def] at hoff ⊢ <;> omega)

/-- each slot of the second loop next to the variable it was computed from -/
theorem slotsOf_zip : ∀ (l : List (Var × Int)) (os : List Int), ∀ p ∈ l.zip (slotsOf l os),
    p.2.size = p.1.1.size ∧ p.2.stack = decide (p.1.2 ≠ 0) ∧ p.2.align = (if p.1.2 ≠ 0 then 8 else p.1.1.frameAlign) := by
  intro l
  induction l with
  | nil => intro os p hp; simp at hp
  | cons e l ih =>
    intro os p hp
    obtain ⟨v, off⟩ := e
    cases os with
    | nil => simp [slotsOf] at hp
    | cons o os =>
      simp only [slotsOf, List.zip_cons_cons, List.mem_cons] at hp
      rcases hp with rfl | hp
      · exact ⟨rfl, rfl, rfl⟩
      · exact ih os p hp

theorem map_fst_zero (bs : List Var) : List.map ((fun x : Var × Int => x.fst) ∘ fun v => (v, (0 : Int))) bs = bs := by
  induction bs with
  | nil => rfl
  | cons b bs ih => simp only [List.map_cons, Function.comp, ih]

/-- the objects of a function's frame paired with their variables, in the order of `fn->locals` -/
theorem frame_zip (body params : List Var) : ∀ p ∈ (body ++ params).zip (frameSlots body params),
    p.2 ∈ frameSlots body params ∧ p.2.size = p.1.size ∧
    (p.2.stack = false → p.2.align = p.1.frameAlign) ∧ (p.2.stack = true → p.1.byStack = true) := by
  intro p hp
  have hl : (loopInput body params).map (·.1) = body ++ params := by
    unfold loopInput
    rw [List.map_append, List.map_map]
    have : (params.zip (assignParams FRAME_TOP0 params).1).map (·.1) = params :=
      List.map_fst_zip (by rw [assignParams_length]; exact Nat.le_refl _)
    rw [this]
    rw [map_fst_zero]
  rw [← hl, List.zip_map_left] at hp
  obtain ⟨q, hq, rfl⟩ := List.mem_map.mp hp
  obtain ⟨⟨v, off⟩, sl⟩ := q
  dsimp only [Prod.map, id]
  have hz := slotsOf_zip (loopInput body params) (assignLvarOffsets body params).offsets _ hq
  simp only at hz
  have hmem : sl ∈ frameSlots body params := (List.of_mem_zip hq).2
  have hin : (v, off) ∈ loopInput body params := (List.of_mem_zip hq).1
  refine ⟨hmem, hz.1, ?_, ?_⟩
  · intro hs
    have : ¬ (off ≠ 0) := by
      intro h; rw [hz.2.1] at hs; simp [h] at hs
    rw [hz.2.2, if_neg this]
  · intro hs
    have hoff : off ≠ 0 := by
      intro h; rw [hz.2.1] at hs; simp [h] at hs
    unfold loopInput at hin
    rcases List.mem_append.mp hin with hb | hpz
    · obtain ⟨b, _, hb⟩ := List.mem_map.mp hb
      simp only [Prod.mk.injEq] at hb
      exact absurd hb.2.symm hoff
    · have hp' : ∀ v ∈ params, True := fun _ _ => trivial
      -- a non-zero offset was written by the first loop only for `byStack` parameters
      have key : ∀ (ps : List Var) (top : Int) (e : Var × Int), e ∈ ps.zip (assignParams top ps).1 → e.1.byStack = false → e.2 = 0 := by
        intro ps
        induction ps with
        | nil => intro top e he; simp at he
        | cons x xs ih =>
          intro top e he hbs
          cases hx : x.byStack
          · simp only [assignParams, hx, Bool.false_eq_true, if_false, List.zip_cons_cons, List.mem_cons] at he
            rcases he with rfl | he
            · rfl
            · exact ih top e he hbs
          · simp only [assignParams, hx, if_true, List.zip_cons_cons, List.mem_cons] at he
            rcases he with rfl | he
            · simp [hx] at hbs
            · exact ih _ e he hbs
      cases hbs : v.byStack
      · exact absurd (key params FRAME_TOP0 (v, off) hpz hbs) hoff
      · rfl

end ChibiVerif.Frame
