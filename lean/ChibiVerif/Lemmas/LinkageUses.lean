/-
Helper lemmas for C15_symbols_partial: the labels the emitted text of a function mentions (`fn->uses` in the
model: what `gen_expr` prints for the identifiers, static locals and string literals of the body), as a
function of the declaration sequence.
-/
import ChibiVerif.Lemmas.LinkageExact
import ChibiVerif.Lemmas.LinkageView

namespace ChibiVerif.Linkage
open ChibiVerif.Spec.Linkage

variable [Rules]

/-- `find_func(g)->uses` -/
def U (gs : List Obj) (g : Name) : Option (List Sym) := (findFunc gs g).map (·.uses)

omit [Rules] in
theorem findFunc_data_append {l1 : List Obj} (h : ∀ o, o ∈ l1 → o.isFunction = false) (gs : List Obj) (g : Name) :
    findFunc (l1 ++ gs) g = findFunc gs g := by
  induction l1 with
  | nil => rfl
  | cons a as ih =>
    have ha : a.isFunction = false := h a List.mem_cons_self
    simp only [List.cons_append, findFunc, List.find?, ha, Bool.false_and]
    exact ih (fun o ho => h o (List.mem_cons_of_mem _ ho))

omit [Rules] in
theorem findFunc_cons_data {o : Obj} (h : o.isFunction = false) (gs : List Obj) (g : Name) :
    findFunc (o :: gs) g = findFunc gs g := by
  simp [findFunc, List.find?, h]

omit [Rules] in
/-- an update of a function object that leaves `uses` alone -/
theorem U_updFunc {u : Obj → Obj} (hu : KeepsId u) (hk : ∀ o, (u o).uses = o.uses) (gs : List Obj) (f : Name) :
    U (updFunc gs f u) = U gs := by
  funext g
  simp only [U, findFunc_updFunc hu]
  by_cases hg : g = f
  · subst hg
    simp only [if_true, Option.map_map]
    congr 1
    funext o
    exact hk o
  · simp [hg]

omit [Rules] in
theorem U_fnEffect (cur : Option Name) (gs : List Obj) (l : List Name) : U (fnEffect cur gs l) = U gs := by
  cases cur with
  | some f => exact U_updFunc (u := addRefsO l) (fun _ => ⟨rfl, rfl⟩) (fun _ => rfl) gs f
  | none =>
    simp only [fnEffect]
    induction l generalizing gs with
    | nil => rfl
    | cons g rest ih =>
      simp only [List.foldl_cons]
      rw [ih, U_updFunc (u := setRootO) (fun _ => ⟨rfl, rfl⟩) (fun _ => rfl)]

omit [Rules] in
theorem U_data_append {l1 : List Obj} (h : ∀ o, o ∈ l1 → o.isFunction = false) (gs : List Obj) : U (l1 ++ gs) = U gs := by
  funext g
  simp only [U, findFunc_data_append h]

omit [Rules] in
theorem U_cons_data {o : Obj} (h : o.isFunction = false) (gs : List Obj) : U (o :: gs) = U gs := by
  funext g
  simp only [U, findFunc_cons_data h]

/-- what one declaration does to `find_func(g)->uses` when the label counter is `k` -/
def stepU (d : Decl) (k : Nat) (g : Name) (cur : Option (List Sym)) : Option (List Sym) :=
  match d with
  | .func f _ _ _ _ none => if g = f then some (cur.getD []) else cur
  | .func f _ _ _ _ (some b) => if g = f then some (bodyLabels (k + 2) b) else cur
  | .obj .. => cur

theorem rootIfO_uses (o : Obj) : (rootIfO o).uses = o.uses := by
  unfold rootIfO; split
  · rfl
  · split <;> rfl

theorem redeclFlags_uses (e i : Bool) (o : Obj) : (redeclFlags e i o).uses = o.uses := by
  unfold redeclFlags; split
  · dsimp only; split <;> split <;> rfl
  · rfl

theorem U_declFunctionHead {st st' : PState} {f : Name} {s e i b : Bool}
    (h : declFunctionHead st f s e i b = .ok st') (g : Name) :
    U st'.globals g = if g = f then some ((U st.globals f).getD []) else U st.globals g := by
  unfold declFunctionHead at h
  split at h
  · rename_i fn hfn
    split at h
    · cases h
    · split at h
      · cases h
      · cases h
        dsimp only
        rw [U_updFunc keepsId_rootIf rootIfO_uses,
          U_updFunc (u := fun o => { o with isDefinition := o.isDefinition || b }) (fun _ => ⟨rfl, rfl⟩) (fun _ => rfl),
          U_updFunc (keepsId_redeclFlags e i) (redeclFlags_uses e i)]
        by_cases hg : g = f
        · subst hg; simp [U, hfn]
        · simp [hg]
  · rename_i hfn
    cases h
    dsimp only
    rw [U_updFunc keepsId_rootIf rootIfO_uses]
    by_cases hg : g = f
    · subst hg
      rw [show U st.globals g = none from by simp [U, hfn]]
      simp [U, findFunc, List.find?]
    · have : ((Sym.named f == Sym.named g) = false) := by
        simp only [beq_eq_false_iff_ne, ne_eq, Sym.named.injEq]; exact fun e' => hg e'.symm
      simp [U, hg, findFunc, List.find?, this]

theorem U_declStep {st st' : PState} {d : Decl} (h : declStep st d = .ok st') (g : Name) :
    U st'.globals g = stepU d st.nextAnon g (U st.globals g) := by
  cases d with
  | func f n s e i body =>
    simp only [declStep, declFunction] at h
    split at h
    · cases h
    · rename_i st1 h1
      have e1 := U_declFunctionHead h1 g
      have n1 := (dataOf_declFunctionHead h1).2.1
      cases body with
      | none =>
        cases h
        simp only [stepU]
        rw [e1]
        by_cases hg : g = f
        · subst hg; simp
        · simp [hg]
      | some items =>
        simp only at h
        split at h
        · cases h
        · rename_i st2 uses hp
          cases h
          obtain ⟨g2, n2, l2, _⟩ := bodyItems_exact items hp
          dsimp only
          simp only [stepU]
          -- `find_func(f)` succeeds in st2
          have hU2 : ∀ g', U st2.globals g' = U st1.globals g' := by
            intro g'
            rw [g2, U_data_append (bodyNews_data _ _ _ _)]
            simp only [newAnon]
            rw [U_updFunc (u := addRefsO (bodyFnRefs items)) (fun _ => ⟨rfl, rfl⟩) (fun _ => rfl),
              U_cons_data rfl, U_cons_data rfl]
          by_cases hg : g = f
          · subst hg
            simp only [if_true]
            have hsome : (findFunc st2.globals g).isSome = true := by
              have := hU2 g
              rw [U_declFunctionHead h1 g] at this
              simp only [if_true, U] at this
              cases hf : findFunc st2.globals g with
              | none => simp [hf] at this
              | some _ => rfl
            simp only [U, findFunc_updFunc (u := fun o => { o with uses := uses }) (fun _ => ⟨rfl, rfl⟩), if_true,
              Option.map_map]
            cases hf : findFunc st2.globals g with
            | none => simp [hf] at hsome
            | some o =>
              simp only [Option.map_some, Function.comp]
              rw [l2]
              simp only [newAnon, n1]
          · have : U (updFunc st2.globals f fun o => { o with uses := uses }) g = U st2.globals g := by
              simp only [U, findFunc_updFunc (u := fun o => { o with uses := uses }) (fun _ => ⟨rfl, rfl⟩), hg, if_false]
            rw [this, hU2, e1]
            simp [hg]
  | obj x s e t ty init =>
    simp only [declStep, declObject] at h
    cases init with
    | none =>
      simp only [pure, Except.pure, Except.ok.injEq] at h
      rw [← h]
      simp only [stepU]
      rw [U_cons_data rfl]
    | some items =>
      simp only [bind, Except.bind] at h
      split at h
      · cases h
      · rename_i p hp
        simp only [pure, Except.pure, Except.ok.injEq] at h
        obtain ⟨g1, _, _⟩ := initItems_exact items (st' := p.1) (ss := p.2) (by simpa using hp)
        rw [← h]
        dsimp only at g1 ⊢
        simp only [stepU]
        -- the update of `uses` hits a datum
        have hupd : ∀ (l : List Obj) (p : Obj → Bool) (u : Obj → Obj), (∀ o, p o = true → o.isFunction = false) → KeepsId u →
            ∀ g, findFunc (updFirst p u l) g = findFunc l g := by
          intro l p u hp' hu g
          have := congrFun (T_updFirst_data (p := p) (u := u) hp' hu l) g
          induction l with
          | nil => rfl
          | cons a as ih =>
            unfold updFirst
            by_cases hpa : p a = true
            · rw [if_pos hpa]
              simp [findFunc, List.find?, (hu a).1, hp' a hpa]
            · rw [if_neg hpa]
              simp only [findFunc, List.find?]
              cases hq : (a.isFunction && a.sym == Sym.named g)
              · exact ih (congrFun (T_updFirst_data (p := p) (u := u) hp' hu as) g)
              · rfl
        simp only [U]
        rw [hupd _ _ (fun o => { o with uses := p.2 }) (data_pred _) (fun _ => ⟨rfl, rfl⟩), g1,
          findFunc_data_append (fun o ho => (initNews_spec items _ o ho).1)]
        have := congrFun (U_fnEffect none (varObj 0 x (s || (Rules.externInherits && e && prevStatic st.globals x)) e t ty (some []) :: st.globals) (initFnRefs items)) g
        simp only [U] at this
        rw [show (varObj 0 x (s || (Rules.externInherits && e && prevStatic st.globals x)) e t ty (some []) : Obj) =
          { sym := Sym.named x, isStatic := s || (Rules.externInherits && e && prevStatic st.globals x), isTls := t, hasInit := true, ty := ty } from rfl] at this
        rw [this, findFunc_cons_data rfl]

/-! ### the identifiers among the labels -/

def namedOf (l : List Sym) : List Name := l.filterMap (fun s => match s with | .named n => some n | .anon _ => none)

/-- the identifiers (functions and objects with linkage) a body mentions in expressions -/
def directRefs (b : List BodyItem) : List Name :=
  b.filterMap (fun i => match i with | .ref (.fn g) => some g | .ref (.obj x) => some x | _ => none)

omit [Rules] in
theorem namedOf_append (a b : List Sym) : namedOf (a ++ b) = namedOf a ++ namedOf b := by
  simp [namedOf, List.filterMap_append]

omit [Rules] in
theorem namedOf_bodyLabels : ∀ (b : List BodyItem) (k : Nat), namedOf (bodyLabels k b) = directRefs b
  | [], _ => rfl
  | i :: rest, k => by
    simp only [bodyLabels, namedOf_append, namedOf_bodyLabels rest]
    cases i with
    | ref r => cases r <;> simp [bodyItemLabels, namedOf, directRefs, symOfRef]
    | staticLocal tls ty init => simp [bodyItemLabels, namedOf, directRefs]
    | str n => simp [bodyItemLabels, namedOf, directRefs]
    | externObj x tls ty => simp [bodyItemLabels, namedOf, directRefs]

omit [Rules] in
theorem namedOf_initLabels : ∀ (items : List InitItem) (k : Nat),
    namedOf (initLabels k items) = items.filterMap (fun i => match i with | .ref (.fn g) => some g | .ref (.obj x) => some x | _ => none)
  | [], _ => rfl
  | i :: rest, k => by
    cases i with
    | ref r =>
      cases r <;> simp [initLabels, namedOf, symOfRef] <;> exact namedOf_initLabels rest k
    | str n =>
      simp only [initLabels, namedOf, List.filterMap_cons]
      exact namedOf_initLabels rest (k + 1)

/-- `find_func(g)->uses`, identifiers only -/
def NU (gs : List Obj) (g : Name) : Option (List Name) := (U gs g).map namedOf

def stepNU (d : Decl) (g : Name) (cur : Option (List Name)) : Option (List Name) :=
  match d with
  | .func f _ _ _ _ none => if g = f then some (cur.getD []) else cur
  | .func f _ _ _ _ (some b) => if g = f then some (directRefs b) else cur
  | .obj .. => cur

theorem NU_declStep {st st' : PState} {d : Decl} (h : declStep st d = .ok st') (g : Name) :
    NU st'.globals g = stepNU d g (NU st.globals g) := by
  simp only [NU, U_declStep h g]
  cases d with
  | func f n s e i body =>
    cases body with
    | none =>
      simp only [stepU, stepNU]
      by_cases hg : g = f
      · simp only [hg, if_true, Option.map_some]
        cases U st.globals f <;> simp [namedOf]
      · simp [hg]
    | some b =>
      simp only [stepU, stepNU]
      by_cases hg : g = f
      · simp [hg, namedOf_bodyLabels]
      · simp [hg]
  | obj x s e t ty init => rfl

def foldNU (ds : List Decl) (g : Name) (cur : Option (List Name)) : Option (List Name) :=
  ds.foldl (fun cur d => stepNU d g cur) cur

theorem NU_declAll : ∀ (ds : List Decl) {st st' : PState}, declAll st ds = .ok st' → ∀ g,
    NU st'.globals g = foldNU ds g (NU st.globals g) := by
  intro ds
  induction ds with
  | nil =>
    intro st st' h g
    simp only [declAll, pure, Except.pure, Except.ok.injEq] at h
    rw [← h]; rfl
  | cons d rest ih =>
    intro st st' h g
    simp only [declAll, bind, Except.bind] at h
    split at h
    · cases h
    · rename_i st1 h1
      rw [ih h g, NU_declStep h1 g]
      rfl

omit [Rules] in
theorem foldNU_cons (d : Decl) (ds : List Decl) (g : Name) (cur : Option (List Name)) :
    foldNU (d :: ds) g cur = foldNU ds g (stepNU d g cur) := rfl

omit [Rules] in
theorem foldNU_noBody : ∀ (ds : List Decl) (g : Name) (v : List Name),
    (fnDecls ds g).all (fun d => d.body.isNone) = true → foldNU ds g (some v) = some v
  | [], _, _, _ => rfl
  | d :: ds, g, v, h => by
    cases d with
    | func f n s e i body =>
      by_cases hg : f = g
      · subst hg
        simp only [fnDecls, List.filterMap_cons, if_true, List.all_cons, Bool.and_eq_true] at h
        cases body with
        | some b => simp at h
        | none =>
          rw [foldNU_cons]
          simp only [stepNU, if_true, Option.getD_some]
          exact foldNU_noBody ds f v h.2
      · have hg' : ¬ g = f := fun e' => hg e'.symm
        simp only [fnDecls, List.filterMap_cons, hg, if_false] at h
        cases body <;> (rw [foldNU_cons]; simp only [stepNU, hg', if_false]; exact foldNU_noBody ds g v h)
    | obj x s e t ty init =>
      simp only [fnDecls, List.filterMap_cons] at h
      rw [foldNU_cons]
      simp only [stepNU]
      exact foldNU_noBody ds g v h

omit [Rules] in
/-- a function with exactly one body: its `uses` are the identifiers of that body -/
theorem foldNU_defined : ∀ (ds : List Decl) (g : Name) (cur : Option (List Name)),
    ((fnDecls ds g).filter (fun d => d.body.isSome)).length ≤ 1 → fnDefined (fnDecls ds g) = true →
    foldNU ds g cur = some (directRefs (fnBody (fnDecls ds g)))
  | [], _, _, _, h => by simp [fnDecls, fnDefined] at h
  | d :: ds, g, cur, h1, h2 => by
    cases d with
    | func f n s e i body =>
      by_cases hg : f = g
      · subst hg
        have hD : fnDecls (.func f n s e i body :: ds) f = ⟨s, e, i, body⟩ :: fnDecls ds f := by
          simp [fnDecls]
        rw [hD] at h1 h2 ⊢
        cases body with
        | some b =>
          simp only [List.filter_cons, Option.isSome_some, if_true, List.length_cons] at h1
          have h0 : ((fnDecls ds f).filter (fun d => d.body.isSome)).length = 0 := by omega
          rw [List.length_eq_zero_iff, List.filter_eq_nil_iff] at h0
          have hall : (fnDecls ds f).all (fun d => d.body.isNone) = true := by
            rw [List.all_eq_true]
            intro x hx
            have := h0 x hx
            cases hxb : x.body <;> simp_all
          rw [foldNU_cons]
          simp only [stepNU, if_true]
          rw [foldNU_noBody ds f (directRefs b) hall]
          simp [fnBody, List.findSome?]
        | none =>
          simp only [List.filter_cons, Option.isSome_none, Bool.false_eq_true, if_false] at h1
          simp only [fnDefined, List.any_cons, Option.isSome_none, Bool.false_or] at h2
          rw [foldNU_cons]
          simp only [stepNU, if_true]
          rw [foldNU_defined ds f (some (cur.getD [])) h1 h2]
          simp [fnBody, List.findSome?]
      · have hg' : ¬ g = f := fun e' => hg e'.symm
        have hD : fnDecls (.func f n s e i body :: ds) g = fnDecls ds g := by
          simp [fnDecls, hg]
        rw [hD] at h1 h2 ⊢
        have := foldNU_defined ds g cur h1 h2
        cases body <;> (rw [foldNU_cons]; simp only [stepNU, hg', if_false]; exact this)
    | obj x s e t ty init =>
      have hD : fnDecls (.obj x s e t ty init :: ds) g = fnDecls ds g := by
        simp [fnDecls]
      rw [hD] at h1 h2 ⊢
      have := foldNU_defined ds g cur h1 h2
      rw [foldNU_cons]
      simp only [stepNU]
      exact this

/-- **`uses` of a defined function** after `parse` -/
theorem NU_parse {ds : List Decl} {st : PState} (h : declAll {} ds = .ok st) (g : Name)
    (h1 : ((fnDecls ds g).filter (fun d => d.body.isSome)).length ≤ 1) (h2 : fnDefined (fnDecls ds g) = true) :
    NU st.globals g = some (directRefs (fnBody (fnDecls ds g))) := by
  rw [NU_declAll ds h g]
  exact foldNU_defined ds g _ h1 h2

end ChibiVerif.Linkage
