/-
C02: `a op b` with operands of two arithmetic types and a floating common type (usual arithmetic conversions, C11 6.3.1.8).

`gen_expr` evaluates the operands under the `ND_CAST` nodes `usual_arith_conv` put on them, in one of two orders:
TY_LDOUBLE `gen_expr(lhs); gen_expr(rhs); op` (both on the x87 stack), TY_FLOAT / TY_DOUBLE `gen_expr(rhs); pushf(); gen_expr(lhs);
popf(1); op` (the right operand waits on the machine stack while the left one is evaluated and converted).  This file composes
`link` (= C02_select / C01_cast: each operand is converted by the cell of (its type, common type)), `pushf`/`popf`, and
`arith_f32/f64/f80` (= C02_arith: operand order) into the value of the whole expression.

What makes the SSE order sound is a frame fact proved here for all 22 cells involved (`cast_sse_mem`): a conversion to float /
double from anything but long double uses registers only, so the saved operand is still at (%rsp) when `popf(1)` reads it.
-/
import ChibiVerif.Lemmas.FpChainLemmas
import ChibiVerif.Lemmas.FpOpLemmas
namespace ChibiVerif.Fp
open ChibiVerif.Asm ChibiVerif.X86 ChibiVerif.Spec.Fpu ChibiVerif.FpCodegen ChibiVerif.Spec.FpC11
open ChibiVerif.Spec.IntSpec ChibiVerif.Gen.CommonType ChibiVerif.Gen.CastTable

/-! ### the conversions to float / double from anything but long double use registers only -/

theorem memf_u64f32 (F : FpuSpec) (s : FState) : ∃ s', run F u64f32.instrs s = some s' ∧ s'.x.mem = s.x.mem := by
  obtain ⟨x, xmm0, xmm1, st, cw⟩ := s
  cases h : (x.get .rax).msb with
  | false =>
    have hsf : ((x.get Reg.rax) &&& (x.get Reg.rax)).msb = false := by simpa using h
    refine ⟨?w0, ?hrun0, ?rest0⟩
    case hrun0 =>
      simp only [Fp.run, u64f32, Line.instrs]
      rw [runFrom_step F _ _ _ _ rfl rfl rfl]
      rw [runFrom_jcc F _ _ _ true _ "1f" "1:" rfl rfl (fun _ => rfl) rfl]
      dsimp only
      simp only [State.flags, State.src, State.getW, W.bits, BitVec.setWidth_eq, hsf, Bool.false_eq_true, if_false]
      rfl
    case rest0 => rfl
  | true =>
    have hsf : ((x.get Reg.rax) &&& (x.get Reg.rax)).msb = true := by simpa using h
    refine ⟨?w1, ?hrun1, ?rest1⟩
    case hrun1 =>
      simp only [Fp.run, u64f32, Line.instrs]
      rw [runFrom_step F _ _ _ _ rfl rfl rfl]
      rw [runFrom_jcc F _ _ _ true _ "1f" "1:" rfl rfl (fun _ => rfl) rfl]
      dsimp only
      simp only [State.flags, State.src, State.getW, W.bits, BitVec.setWidth_eq, hsf, if_true]
      rfl
    case rest1 => rfl

theorem memf_u64f64 (F : FpuSpec) (s : FState) : ∃ s', run F u64f64.instrs s = some s' ∧ s'.x.mem = s.x.mem := by
  obtain ⟨x, xmm0, xmm1, st, cw⟩ := s
  cases h : (x.get .rax).msb with
  | false =>
    have hsf : ((x.get Reg.rax) &&& (x.get Reg.rax)).msb = false := by simpa using h
    refine ⟨?w2, ?hrun2, ?rest2⟩
    case hrun2 =>
      simp only [Fp.run, u64f64, Line.instrs]
      rw [runFrom_step F _ _ _ _ rfl rfl rfl]
      rw [runFrom_jcc F _ _ _ true _ "1f" "1:" rfl rfl (fun _ => rfl) rfl]
      dsimp only
      simp only [State.flags, State.src, State.getW, W.bits, BitVec.setWidth_eq, hsf, Bool.false_eq_true, if_false]
      rfl
    case rest2 => rfl
  | true =>
    have hsf : ((x.get Reg.rax) &&& (x.get Reg.rax)).msb = true := by simpa using h
    refine ⟨?w3, ?hrun3, ?rest3⟩
    case hrun3 =>
      simp only [Fp.run, u64f64, Line.instrs]
      rw [runFrom_step F _ _ _ _ rfl rfl rfl]
      rw [runFrom_jcc F _ _ _ true _ "1f" "1:" rfl rfl (fun _ => rfl) rfl]
      dsimp only
      simp only [State.flags, State.src, State.getW, W.bits, BitVec.setWidth_eq, hsf, if_true]
      rfl
    case rest3 => rfl

/-- `cast(from, float|double)` with `from` ≠ long double: no store -/
theorem cast_sse_mem (F : FpuSpec) (frm to : ATy) (hto : to = .f32 ∨ to = .f64) (hf : frm ≠ .f80) (s : FState) :
    ∃ s', run F (castSeq frm to) s = some s' ∧ s'.x.mem = s.x.mem := by
  rcases hto with rfl | rfl
  · cases frm with
    | int t =>
      cases t with
      | bool => exact memf_u64f32 F s
      | u64 => exact memf_u64f32 F s
      | _ => exact ⟨_, rfl, rfl⟩
    | f32 => exact ⟨_, rfl, rfl⟩
    | f64 => exact ⟨_, rfl, rfl⟩
    | f80 => simp at hf
  · cases frm with
    | int t =>
      cases t with
      | bool => exact memf_u64f64 F s
      | u64 => exact memf_u64f64 F s
      | _ => exact ⟨_, rfl, rfl⟩
    | f32 => exact ⟨_, rfl, rfl⟩
    | f64 => exact ⟨_, rfl, rfl⟩
    | f80 => simp at hf

/-! ### `pushf()` / `popf(1)` -/

theorem pushf_eff (F : FpuSpec) (s : FState) :
    ∃ s', run F (instrsOf pushf) s = some s' ∧ s'.x.read64 (s'.x.get .rsp) = s.xmm0 ∧ s'.x.get .rsp = s.x.get .rsp - 8 ∧
      s'.st = s.st ∧ s'.cw = s.cw := by
  obtain ⟨x, xmm0, xmm1, st, cw⟩ := s
  refine ⟨_, rfl, ?_, ?_, rfl, rfl⟩
  · simp only [State.ea]
    have : ∀ (y : State), (y.write64 (y.get .rsp + BitVec.ofInt 64 0) xmm0).read64
        ((y.write64 (y.get .rsp + BitVec.ofInt 64 0) xmm0).get .rsp) = xmm0 := by
      intro y
      rw [State.get_write64]
      have : y.get .rsp + BitVec.ofInt 64 0 = y.get .rsp := by simp
      rw [this]; exact State.read64_write64 _ _ _
    exact this _
  · simp only [State.ea]
    rw [State.get_write64]
    simp [State.src, State.setW, State.getW, State.flags, State.get, State.set]

theorem popf1_eff (F : FpuSpec) (s : FState) :
    ∃ s', run F (instrsOf popf1) s = some s' ∧ s'.xmm1 = s.x.read64 (s.x.get .rsp) ∧ s'.xmm0 = s.xmm0 ∧
      s'.x.get .rsp = s.x.get .rsp + 8 ∧ s'.st = s.st ∧ s'.cw = s.cw := by
  obtain ⟨x, xmm0, xmm1, st, cw⟩ := s
  refine ⟨_, rfl, ?_, rfl, ?_, rfl, rfl⟩
  · simp [State.ea]
  · simp [State.src, State.setW, State.getW, State.flags, State.get, State.set]


theorem read64_congr (s t : State) (h : s.mem = t.mem) (a : BitVec 64) : s.read64 a = t.read64 a := by
  simp [State.read64, State.read32, State.read16, h]

/-! ### `a op b` with a floating common type: `gen_expr`'s two orders of evaluation -/

/-- the code of one operand of `a op b`: the global, its load, and the conversion to the type `c` -/
def operandCode (var : List Line) (t c : ATy) : List Line := var ++ load (descr t) ++ FpCodegen.cast (descr t) (descr c)

/-- operand code that yields the value `x` of type `t` from **every** state, and writes neither memory nor %rsp, the x87 control
    word or the x87 stack below its result (e.g. a constant being materialised, a register copy) -/
def Yields (F : FpuSpec) (code : List Ins) (t : ATy) (x : AVal) : Prop :=
  ∀ s, ∃ s', run F code s = some s' ∧ Holds t s' x ∧ s'.x.mem = s.x.mem ∧ s'.x.get .rsp = s.x.get .rsp ∧ s'.cw = s.cw ∧
    stBelow t s' = s.st

/-- the instructions of `a op b` (arithmetic `op`, operands of types `a`, `b`, common type `c`, operand codes `codeA`, `codeB`):
    TY_LDOUBLE: `gen_expr(lhs); gen_expr(rhs); op`; TY_FLOAT / TY_DOUBLE: `gen_expr(rhs); pushf(); gen_expr(lhs); popf(1); op`,
    where `lhs`/`rhs` are the operands under the `ND_CAST` to the common type that `usual_arith_conv` inserted -/
def binarySeq (c : ATy) (op : FOp) (a b : ATy) (codeA codeB : List Ins) : List Ins :=
  if c = .f80 then (codeA ++ castSeq a c) ++ ((codeB ++ castSeq b c) ++ instrsOf (x87Op op))
  else (codeB ++ castSeq b c) ++ (instrsOf pushf ++ ((codeA ++ castSeq a c) ++ (instrsOf popf1 ++ instrsOf (sseOp (c == .f32) op))))

theorem not_x87arith_sse (t c : ATy) (hc : c = .f32 ∨ c = .f64) : usesX87Arith t c = false := by
  rcases hc with rfl | rfl <;> cases t <;> simp [usesX87Arith]

theorem run_unique {F : FpuSpec} {is : List Ins} {s a b : FState} (h1 : run F is s = some a) (h2 : run F is s = some b) : a = b :=
  Option.some.inj (h1.symm.trans h2)

/-- after `gen_expr(rhs)`: convert, save, evaluate and convert the left operand, restore into %xmm1 -/
theorem sse_operands (F : FpuSpec) (a b c : ATy) (hc : c = .f32 ∨ c = .f64) (ha : a ≠ .f80) (hb : b ≠ .f80)
    (codeA : List Ins) (x y x' y' : AVal) (s : FState)
    (hy : Holds b s y) (hx : Yields F codeA a x)
    (cy : convert F s.cw c y = some y') (cx : convert F s.cw c x = some x') :
    ∃ s1 s5, Holds c s1 y' ∧
      run F (castSeq b c ++ (instrsOf pushf ++ ((codeA ++ castSeq a c) ++ instrsOf popf1))) s = some s5 ∧
      Holds c s5 x' ∧ s5.xmm1 = s1.xmm0 ∧ s5.x.get .rsp = s.x.get .rsp ∧ s5.cw = s.cw ∧ s5.st = s.st := by
  obtain ⟨s1, r1, h1, cw1, st1, rsp1⟩ := link F b c s y y' hy cy (by simp [not_x87arith_sse b c hc])
  obtain ⟨s2, r2, m2, rsp2, st2, cw2⟩ := pushf_eff F s1
  obtain ⟨s3, r3, h3, m3, rsp3, cw3, st3⟩ := hx s2
  have cwe : s3.cw = s.cw := by rw [cw3, cw2, cw1]
  obtain ⟨s4, r4, h4, cw4, st4, rsp4⟩ := link F a c s3 x x' h3 (by rw [cwe]; exact cx) (by simp [not_x87arith_sse a c hc])
  obtain ⟨s4', r4', m4⟩ := cast_sse_mem F a c hc ha s3
  have e4 := run_unique r4 r4'; subst e4
  obtain ⟨s5, r5, x1, x0, rsp5, st5, cw5⟩ := popf1_eff F s4
  have hcf : c ≠ .f80 := by rcases hc with rfl | rfl <;> simp
  have stb : ∀ (t : ATy) (u : FState), t ≠ .f80 → stBelow t u = u.st := by intro t u h; simp [stBelow, h]
  refine ⟨s1, s5, h1, ?_, ?_, ?_, ?_, by rw [cw5, cw4, cwe], ?_⟩
  · rw [run_append F _ _ s s1 r1, run_append F _ _ s1 s2 r2, run_append F _ _ s2 s4, r5]
    rw [run_append F _ _ s2 s3 r3, r4]
  · rcases hc with rfl | rfl
    · cases x' <;> simp_all [Holds]
    · cases x' <;> simp_all [Holds]
  · rw [x1, rsp4, rsp3, read64_congr s4.x s2.x (by rw [m4, m3]) _, m2]
  · rw [rsp5, rsp4, rsp3, rsp2, rsp1]; bv_omega
  · rw [st5, ← stb c s4 hcf, st4, stb a s3 ha, ← stb a s3 ha, st3, st2, ← stb c s1 hcf, st1, stb b s hb]


/-- the value of `x op y` in a floating type, relative to `F`: one application of the FPU's operation, left operand first -/
def arithVal (F : FpuSpec) (cw : BitVec 16) (op : FOp) : AVal → AVal → Option AVal
  | .f32 p, .f32 q => some (.f32 (sseArith32 F op p q))
  | .f64 p, .f64 q => some (.f64 (sseArith64 F op p q))
  | .f80 p, .f80 q => some (.f80 (x87Arith F cw op p q))
  | _, _ => none

theorem binary_sse (F : FpuSpec) (op : FOp) (hop : op.isCmp = false) (a b c : ATy) (hc : c = .f32 ∨ c = .f64)
    (ha : a ≠ .f80) (hb : b ≠ .f80) (codeA codeB : List Ins) (x y x' y' z : AVal) (s0 s : FState)
    (hrunB : run F codeB s0 = some s) (hy : Holds b s y) (hx : Yields F codeA a x)
    (cy : convert F s.cw c y = some y') (cx : convert F s.cw c x = some x') (hz : arithVal F s.cw op x' y' = some z) :
    ∃ s', run F (binarySeq c op a b codeA codeB) s0 = some s' ∧ Holds c s' z ∧
      s'.x.get .rsp = s.x.get .rsp ∧ s'.cw = s.cw ∧ s'.st = s.st := by
  obtain ⟨s1, s5, h1, r5, h5, x1, rsp5, cw5, st5⟩ := sse_operands F a b c hc ha hb codeA x y x' y' s hy hx cy cx
  have hcf : c ≠ .f80 := by rcases hc with rfl | rfl <;> simp
  have hseq : binarySeq c op a b codeA codeB =
      codeB ++ ((castSeq b c ++ (instrsOf pushf ++ ((codeA ++ castSeq a c) ++ instrsOf popf1))) ++
        instrsOf (sseOp (c == .f32) op)) := by
    simp [binarySeq, hcf, List.append_assoc]
  rw [hseq, run_append F _ _ s0 s hrunB, run_append F _ _ s s5 r5]
  rcases hc with rfl | rfl
  · obtain ⟨s6, r6, v6, st6, cw6, rsp6⟩ := arith_f32 F op hop s5
    refine ⟨s6, r6, ?_, by rw [rsp6, rsp5], by rw [cw6, cw5], by rw [st6, st5]⟩
    cases x' <;> cases y' <;> simp_all [Holds, arithVal]
    subst hz; simp
  · obtain ⟨s6, r6, v6, st6, cw6, rsp6⟩ := arith_f64 F op hop s5
    refine ⟨s6, r6, ?_, by rw [rsp6, rsp5], by rw [cw6, cw5], by rw [st6, st5]⟩
    cases x' <;> cases y' <;> simp_all [Holds, arithVal]
    subst hz; simp

theorem binary_x87 (F : FpuSpec) (op : FOp) (hop : op.isCmp = false) (a b : ATy)
    (codeA codeB : List Ins) (x y x' y' z : AVal) (s0 s : FState)
    (hrunA : run F codeA s0 = some s) (hx : Holds a s x) (hy : Yields F codeB b y)
    (cx : convert F s.cw .f80 x = some x') (cy : convert F s.cw .f80 y = some y') (hz : arithVal F s.cw op x' y' = some z)
    (hpc : (usesX87Arith a .f80 || usesX87Arith b .f80) = true → pc s.cw = 3#2) :
    ∃ s', run F (binarySeq .f80 op a b codeA codeB) s0 = some s' ∧ Holds .f80 s' z ∧
      s'.x.get .rsp = s.x.get .rsp ∧ s'.cw = s.cw ∧ stBelow .f80 s' = stBelow a s := by
  obtain ⟨s1, r1, h1, cw1, st1, rsp1⟩ := link F a .f80 s x x' hx cx (fun h => hpc (by simp [h]))
  obtain ⟨s2, r2, h2, m2, rsp2, cw2, st2⟩ := hy s1
  have cwe : s2.cw = s.cw := by rw [cw2, cw1]
  obtain ⟨s3, r3, h3, cw3, st3, rsp3⟩ := link F b .f80 s2 y y' h2 (by rw [cwe]; exact cy)
    (fun h => by rw [cwe]; exact hpc (by simp [h]))
  cases x' with
  | f80 p =>
    cases y' with
    | f80 q =>
      obtain ⟨rest1, e1⟩ := h1
      obtain ⟨rest3, e3⟩ := h3
      have hb3 : stBelow .f80 s3 = s1.st := by rw [st3, st2]
      have hr3 : rest3 = p :: rest1 := by simpa [stBelow, e3, e1] using hb3
      subst hr3
      obtain ⟨s4, r4, st4, cw4, rsp4⟩ := arith_f80 F op hop s3 p q rest1 e3
      have hzz : z = .f80 (x87Arith F s.cw op p q) := by simpa [arithVal] using hz.symm
      subst hzz
      refine ⟨s4, ?_, ⟨rest1, by rw [st4, cw3, cwe]⟩, by rw [rsp4, rsp3, rsp2, rsp1], by rw [cw4, cw3, cwe], ?_⟩
      · simp only [binarySeq, if_true]
        rw [run_append F _ _ s0 s1 (by rw [run_append F _ _ s0 s hrunA, r1])]
        rw [run_append F _ _ s1 s3 (by rw [run_append F _ _ s1 s2 r2, r3]), r4]
      · have : stBelow .f80 s1 = rest1 := by simp [stBelow, e1]
        rw [← st1, this]; simp [stBelow, st4]
    | _ => exact absurd h3 (by simp [Holds])
  | _ => exact absurd h1 (by simp [Holds])


/-- a constant in %rax is such an operand (the shape of `ND_NUM` for integer types: `mov $n, %rax`) -/
theorem yields_mov (F : FpuSpec) (n : Int) (hn : ITy.i64.inRange n) :
    Yields F [⟨"mov", [.i n, .r "%rax"]⟩] (.int .i64) (.int n) := by
  intro s
  refine ⟨_, rfl, ?_, rfl, rfl, rfl, rfl⟩
  refine ⟨hn, ?_⟩
  simp [ITy.inRange, ITy.min, ITy.max, ITy.signed, ITy.bits] at hn
  show (((s.x.setW .rax .w64 (BitVec.ofInt 64 n)).get .rax).toNat : Int) = n % 18446744073709551616
  simp [State.setW, BitVec.toNat_ofInt]
  omega

end ChibiVerif.Fp
