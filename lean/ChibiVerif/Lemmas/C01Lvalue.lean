/-
C01: lvalues other than variables (Model/C01Lvalue.lean) — `gen_addr` computes the address C11 gives the lvalue (`addr_ev`), and
reading, assigning and compound-assigning through it behaves as on the variable the lvalue designates (`EvJ.loadL`,
`EvJ.assignL`, `EvJ.opassignL`).

The store may now hold absolute addresses of the frame (a pointer variable pointing at another variable), so the judgment is
used with machine states whose `%rbp` is a fixed `bp0` (`AtBp bp0`).
-/
import ChibiVerif.Lemmas.C01ValueFull
import ChibiVerif.Lemmas.C01PointerAssign
import ChibiVerif.Model.C01Lvalue

namespace ChibiVerif.C01
open ChibiVerif.X86 ChibiVerif.Asm ChibiVerif.Spec.IntSpec ChibiVerif.Gen.CommonType ChibiVerif.C01Codegen ChibiVerif.X86J

/-- the machine states whose frame pointer is `bp0` -/
def AtBp (bp0 : BitVec 64) : BitVec 64 → Prop := fun b => b = bp0

theorem frameAddr_eq (bp : BitVec 64) (d : Int) : frameAddr bp d = addrOf bp d := rfl

/-- `add $d, %rax` -/
theorem addimm_run (d : Int) : DS [iAddImm d] d := by
  intro s
  refine ⟨_, rfl, ?_, ?_⟩
  · simp [State.dst, State.setW, State.src, State.getW, aluExec, State.flags, State.get, State.set, BitVec.add_comm]
  · exact ⟨rfl, rfl, rfl⟩

section
variable {P : BitVec 64 → Prop} {bp0 : BitVec 64} {off toff : Nat → Int} {K : Nat}

/-- `lea off(%rbp), %rax`: the address of variable `i` (also of an array or a struct placed there) -/
theorem EvJ.lea (σ : Env) (d : Int) (k : Nat) :
    EvJ (AtBp bp0) off toff K (J [iLea d]) σ σ (fun r => r = addrOf bp0 d) [] k k 0 := by
  refine ⟨rfl, ?_⟩
  intro m n B hP l _ _ _ hH
  have hs : Same m (m.set .rax (m.ea d .rbp)) := same_set _ _ _ rfl
  refine ⟨_, JRun.ins (run_cons_some (lea_step _ _) rfl), ?_, hH.same hs, hs.unch _ _ _⟩
  rw [State.get_set_same, ea_rbp, hP]

/-- a pointer variable: `lea; mov (%rax), %rax` leaves its value -/
theorem EvJ.ptrvar (σ : Env) (j : Nat) (p : Int) (hj : σ.tys[j]? = some .u64) (hp : σ.vals[j]? = some p) (k : Nat) :
    EvJ P off toff K (J (iLea (off j) :: loadSeq .u64)) σ σ (fun r => r = BitVec.ofInt 64 p) [] k k 0 :=
  (EvJ.of_EvX (EvX.var σ j .u64 p hj hp k)).post (fun r h => rep_u64_eq r p h)

/-- **the scaled index** with an index that may contain jumps and side effects -/
theorem EvJ.scale {ci : List JI} {σ σ1 : Env} {W : List Nat} {k0 k1 d : Nat} (ti : ITy) (size vi : Int)
    (hs : ITy.i64.inRange size) (hi : EvJ P off toff K ci σ σ1 (fun r => Represents ti r vi) W k0 k1 d) (hk : k0 ≤ k1)
    (hK : k1 ≤ K) :
    EvJ P off toff K (scaleCodeJ ti size ci) σ σ1 (fun r => r = BitVec.ofInt 64 (vi * size)) W k0 k1 (d + 1) := by
  have htm := usualArith_i64 ti
  have hr := (EvJ.of_EvX (P := P) (EvX.lit (off := off) (toff := toff) (K := K) σ .i64 size hs k0)).then_same
    (R2 := fun r => Represents (usualArith ti .i64) r (convert (usualArith ti .i64) size)) (fun s h => cast_run .i64 _ s size h)
  have hl := hi.then_same (R2 := fun r => Represents (usualArith ti .i64) r (convert (usualArith ti .i64) vi))
    (fun s h => cast_run ti _ s vi h)
  have := EvJ.bin (k0 := k0) (k1 := k1) hr hl (cop := opSeq .ND_MUL (usualArith ti .i64))
    (Rres := fun r => r = BitVec.ofInt 64 (vi * size))
    (fun s hax hdi => by
      rw [opSeq_mul64 _ htm]
      obtain ⟨s', h1, h2, h3⟩ := mul64_run s
      refine ⟨s', h1, ?_, h3⟩
      rw [h2, rep64_eq _ htm _ _ hax, rep64_eq _ htm _ _ hdi, BitVec.ofInt_mul])
    ⟨Nat.le_refl _, hk, Nat.le_refl _, Nat.le_refl _⟩ hK
  simpa [scaleCodeJ, J_append, J_cons, J_nil, List.append_assoc] using this

/-- **`p + i`**: the scaled index, `push`, the pointer, `pop`, 64-bit add -/
theorem EvJ.ptradd {ci cp : List JI} {σ σ1 σ2 : Env} {W Wp : List Nat} {k0 k1 kp0 kp1 d dp : Nat} (ti : ITy) (size vi : Int)
    (pa : BitVec 64) (hs : ITy.i64.inRange size) (hi : EvJ P off toff K ci σ σ1 (fun r => Represents ti r vi) W k0 k1 d)
    (hp : EvJ P off toff K cp σ1 σ2 (fun r => r = pa) Wp kp0 kp1 dp) (hk : k0 ≤ k1 ∧ k0 ≤ kp0 ∧ kp1 ≤ k1) (hK : k1 ≤ K) :
    EvJ P off toff K (ptrAddCodeJ ti size ci cp) σ σ2 (fun r => r = pa + BitVec.ofInt 64 (vi * size)) (W ++ Wp) k0 k1
      (max (d + 1) (dp + 1)) := by
  have := EvJ.bin (k0 := k0) (k1 := k1) (EvJ.scale ti size vi hs hi hk.1 hK) hp (cop := opSeq .ND_ADD .u64)
    (Rres := fun r => r = pa + BitVec.ofInt 64 (vi * size))
    (fun s hax hdi => by
      obtain ⟨s', h1, h2, h3⟩ := add64_run s
      exact ⟨s', h1, by rw [h2, hax, hdi], h3⟩)
    ⟨Nat.le_refl _, Nat.le_refl _, hk.2.1, hk.2.2⟩ hK
  simpa [ptrAddCodeJ] using this

end

/-! ### facts about `addrCode` -/

/-- what `addrCode` guarantees about its result -/
structure AJ (k0 c0 : Nat) (ca : List JI) (k1 c1 : Nat) : Prop where
  k : k0 ≤ k1
  c : c0 ≤ c1
  rng : InR c0 c1 (defs ca)
  nodup : (defs ca).Nodup

theorem defs_scaleCodeJ (ti : ITy) (size : Int) (ci : List JI) : defs (scaleCodeJ ti size ci) = defs ci := by
  simp [scaleCodeJ, defs_append, defs_J, defs_cons_ins]

theorem defs_ptrAddCodeJ (ti : ITy) (size : Int) (ci : List JI) (cp : List Ins) :
    defs (ptrAddCodeJ ti size ci (J cp)) = defs ci := by
  simp [ptrAddCodeJ, defs_scaleCodeJ, defs_append, defs_J, defs_cons_ins]

theorem addrCode_facts (tys : List ITy) (off toff : Nat → Int) (lv : LVal) : ∀ (k0 c0 : Nat) (ca : List JI) (k1 c1 : Nat),
    addrCode tys off toff k0 c0 lv = some (ca, k1, c1) → AJ k0 c0 ca k1 c1 := by
  induction lv with
  | var i =>
    intro k0 c0 ca k1 c1 h
    simp only [addrCode, Option.some.injEq, Prod.mk.injEq] at h
    obtain ⟨rfl, rfl, rfl⟩ := h
    exact ⟨Nat.le_refl _, Nat.le_refl _, by rw [defs_J]; exact InR.nil _ _, by rw [defs_J]; exact List.nodup_nil⟩
  | deref j =>
    intro k0 c0 ca k1 c1 h
    simp only [addrCode, Option.some.injEq, Prod.mk.injEq] at h
    obtain ⟨rfl, rfl, rfl⟩ := h
    exact ⟨Nat.le_refl _, Nat.le_refl _, by rw [defs_J]; exact InR.nil _ _, by rw [defs_J]; exact List.nodup_nil⟩
  | member l d ih =>
    intro k0 c0 ca k1 c1 h
    simp only [addrCode, Option.map_eq_some_iff, Prod.mk.injEq] at h
    obtain ⟨⟨cd, k, c⟩, h0, h1, h2, h3⟩ := h
    simp only at h1 h2 h3
    subst h1 h2 h3
    have f := ih k0 c0 cd k c h0
    exact ⟨f.k, f.c, by simpa [defs_append, defs_J] using f.rng, by simpa [defs_append, defs_J] using f.nodup⟩
  | index i0 esz ie =>
    intro k0 c0 ca k1 c1 h
    simp only [addrCode, Option.map_eq_some_iff, Prod.mk.injEq] at h
    obtain ⟨⟨ti, ci, k, c⟩, h0, h1, h2, h3⟩ := h
    simp only at h1 h2 h3
    subst h1 h2 h3
    have f := compileJ_facts tys off toff ie k0 c0 ti ci k c h0
    exact ⟨f.k, by have := f.c; omega, by rw [defs_ptrAddCodeJ]; exact f.rng, by rw [defs_ptrAddCodeJ]; exact f.nodup⟩
  | pindex j esz ie =>
    intro k0 c0 ca k1 c1 h
    simp only [addrCode, Option.map_eq_some_iff, Prod.mk.injEq] at h
    obtain ⟨⟨ti, ci, k, c⟩, h0, h1, h2, h3⟩ := h
    simp only at h1 h2 h3
    subst h1 h2 h3
    have f := compileJ_facts tys off toff ie k0 c0 ti ci k c h0
    exact ⟨f.k, by have := f.c; omega, by rw [defs_ptrAddCodeJ]; exact f.rng, by rw [defs_ptrAddCodeJ]; exact f.nodup⟩

/-! ### `gen_addr` computes the address of the lvalue -/

theorem addr_ev (bp0 : BitVec 64) (off toff : Nat → Int) (K : Nat) (lv : LVal) :
    ∀ (σ : Env) (ca : List JI) (a : BitVec 64) (σ0 : Env) (k0 k1 c0 c1 : Nat),
      addrCode σ.tys off toff k0 c0 lv = some (ca, k1, c1) → lvAddr bp0 off σ lv = some (a, σ0) → noConflictL lv = true →
      wfL lv = true → k1 ≤ K →
      EvJ (AtBp bp0) off toff K ca σ σ0 (fun r => r = a) (wrL lv) k0 k1 (depthL lv) := by
  induction lv with
  | var i =>
    intro σ ca a σ0 k0 k1 c0 c1 hc ha _ _ _
    simp only [addrCode, Option.some.injEq, Prod.mk.injEq] at hc
    obtain ⟨rfl, rfl, rfl⟩ := hc
    simp only [lvAddr, Option.some.injEq, Prod.mk.injEq] at ha
    obtain ⟨rfl, rfl⟩ := ha
    exact EvJ.lea σ (off i) k0
  | deref j =>
    intro σ ca a σ0 k0 k1 c0 c1 hc ha _ _ _
    simp only [addrCode, Option.some.injEq, Prod.mk.injEq] at hc
    obtain ⟨rfl, rfl, rfl⟩ := hc
    simp only [lvAddr] at ha
    split at ha
    · rename_i hj
      simp only [Option.map_eq_some_iff, Prod.mk.injEq] at ha
      obtain ⟨p, hp, rfl, rfl⟩ := ha
      exact EvJ.ptrvar σ j p hj hp k0
    · simp at ha
  | member l d ih =>
    intro σ ca a σ0 k0 k1 c0 c1 hc ha hn hw hK
    simp only [addrCode, Option.map_eq_some_iff, Prod.mk.injEq] at hc
    obtain ⟨⟨cd, k, c⟩, h0, h1, h2, h3⟩ := hc
    simp only at h1 h2 h3
    subst h1 h2 h3
    simp only [lvAddr, Option.map_eq_some_iff, Prod.mk.injEq] at ha
    obtain ⟨⟨a0, σ'⟩, hl, h1, h2⟩ := ha
    simp only at h1 h2
    subst h1 h2
    have E := ih σ cd a0 σ' k0 k c0 c h0 hl hn hw hK
    exact E.then_same (R2 := fun r => r = a0 + BitVec.ofInt 64 d) (fun s hs => by
      obtain ⟨s', r, hax, sm⟩ := addimm_run d s
      exact ⟨s', r, by rw [hax, hs], sm⟩)
  | index i0 esz ie =>
    intro σ ca a σ0 k0 k1 c0 c1 hc ha hn hw hK
    simp only [addrCode, Option.map_eq_some_iff, Prod.mk.injEq] at hc
    obtain ⟨⟨ti, ci, k, c⟩, h0, h1, h2, h3⟩ := hc
    simp only at h1 h2 h3
    subst h1 h2 h3
    simp only [lvAddr, Option.map_eq_some_iff, Prod.mk.injEq] at ha
    obtain ⟨⟨vi, σ'⟩, he, h1, h2⟩ := ha
    simp only at h1 h2
    subst h1 h2
    have hs : ITy.i64.inRange esz := by simpa [wfL] using hw
    have fk := (compileJ_facts σ.tys off toff ie k0 c0 ti ci k c h0).k
    have E := value_j (AtBp bp0) off toff K ie σ ti ci vi σ' k0 k c0 c h0 he hn hK
    have := EvJ.ptradd ti esz vi (addrOf bp0 (off i0)) hs E (EvJ.lea σ' (off i0) k) ⟨fk, fk, Nat.le_refl _⟩ hK
    simpa [wrL, depthL, frameAddr_eq] using this
  | pindex j esz ie =>
    intro σ ca a σ0 k0 k1 c0 c1 hc ha hn hw hK
    simp only [addrCode, Option.map_eq_some_iff, Prod.mk.injEq] at hc
    obtain ⟨⟨ti, ci, k, c⟩, h0, h1, h2, h3⟩ := hc
    simp only at h1 h2 h3
    subst h1 h2 h3
    simp only [lvAddr, Option.bind_eq_some_iff] at ha
    obtain ⟨⟨vi, σ'⟩, he, ha⟩ := ha
    simp only at ha
    split at ha
    · rename_i hj
      simp only [Option.map_eq_some_iff, Prod.mk.injEq] at ha
      obtain ⟨p, hp, rfl, rfl⟩ := ha
      have hs : ITy.i64.inRange esz := by simpa [wfL] using hw
      have fk := (compileJ_facts σ.tys off toff ie k0 c0 ti ci k c h0).k
      have E := value_j (AtBp bp0) off toff K ie σ ti ci vi σ' k0 k c0 c h0 he hn hK
      have := EvJ.ptradd ti esz vi (BitVec.ofInt 64 p) hs E (EvJ.ptrvar (P := AtBp bp0) σ' j p hj hp k) ⟨fk, fk, Nat.le_refl _⟩ hK
      simpa [wrL, depthL] using this
    · simp at ha

/-! ### reading, assigning, compound-assigning through the address -/

section
variable {bp0 : BitVec 64} {off toff : Nat → Int} {K : Nat}

/-- **the value of an lvalue that designates variable `i`**: `gen_addr; load` -/
theorem EvJ.loadL {ca : List JI} {σ σ0 : Env} {W : List Nat} {k0 k1 d i : Nat} {t : ITy} {v : Int}
    (ha : EvJ (AtBp bp0) off toff K ca σ σ0 (fun r => r = addrOf bp0 (off i)) W k0 k1 d)
    (hti : σ0.tys[i]? = some t) (hv : σ0.vals[i]? = some v) :
    EvJ (AtBp bp0) off toff K (loadCodeL ca t) σ σ0 (fun r => Represents t r v) W k0 k1 d := by
  refine ⟨ha.1, ?_⟩
  intro m n B hP l hd hsp hB hH
  obtain ⟨m1, r1, p1, H1, u1⟩ := ha.2 m n B hP l hd hsp hB hH
  have hbp : m1.get .rbp = bp0 := by rw [u1.rbp]; exact hP
  have hm := H1 i t v hti hv
  rw [hbp, ← p1] at hm
  obtain ⟨m2, r2, p2, _⟩ := load_ok t m1 v hm
  have s2 := run_safe _ _ _ (loadSeq_safe t) r2
  exact ⟨m2, JRun.append r1 (JRun.ins r2), p2, H1.same s2, u1.trans (s2.unch _ _ _)⟩

/-- **`lv = e`** for an lvalue that designates variable `i`: the address (with the side effects of its index expression),
    `push`, the converted value (with its side effects), `pop %rdi; mov` -/
theorem EvJ.assignL {ca c : List JI} {σ σ0 σ1 : Env} {Wa W : List Nat} {k0 k1 ka0 ka1 kc0 kc1 da d i : Nat} {ti : ITy} {v' : Int}
    (hti : σ.tys[i]? = some ti)
    (ha : EvJ (AtBp bp0) off toff K ca σ σ0 (fun r => r = addrOf bp0 (off i)) Wa ka0 ka1 da)
    (he : EvJ (AtBp bp0) off toff K c σ0 σ1 (fun r => Represents ti r v') W kc0 kc1 d)
    (hk : k0 ≤ ka0 ∧ ka1 ≤ k1 ∧ k0 ≤ kc0 ∧ kc1 ≤ k1) (hK : k1 ≤ K) :
    EvJ (AtBp bp0) off toff K (ca ++ (JI.ins iPush :: (c ++ J (storeSeq ti)))) σ (σ1.set i v')
      (fun r => Represents ti r v') (Wa ++ (i :: W)) k0 k1 (max da (d + 1)) := by
  refine ⟨he.1.trans ha.1, ?_⟩
  intro m n B hP l hd hsp hB hH
  obtain ⟨n', rfl⟩ : ∃ n', n = n' + 1 := ⟨n - 1, by omega⟩
  have hbp : m.get .rbp = bp0 := hP
  obtain ⟨m1, r1, p1, H1, u1⟩ := ha.2 m (n' + 1) B hP l (by omega) hsp hB hH
  have h8 : 8 ≤ (m1.get .rsp).toNat := by rw [u1.rsp]; omega
  obtain ⟨m2, r2, sp2, bp2, ax2, top2, spn2, mem2⟩ := push_rax m1 h8
  have l1 : Lay σ0.tys off toff K B (m1.get .rbp) := by rw [ha.1, u1.rbp]; exact l
  have H2 : Holds off σ0 m2 := H1.of_ge l1 bp2 (fun x hx => mem2 x (Or.inr (by rw [u1.rsp]; omega)))
  have l2 : Lay σ0.tys off toff K B (m2.get .rbp) := by rw [bp2]; exact l1
  obtain ⟨m3, r3, p3, H3, u3⟩ :=
    he.2 m2 n' B (by rw [bp2, u1.rbp]; exact hP) l2 (by omega) (by rw [spn2, u1.rsp]; omega) (by rw [spn2, u1.rsp]; omega) H2
  have htop : m3.read64 (m3.get .rsp) = addrOf bp0 (off i) := by
    rw [u3.rsp, sp2, ← p1, ← top2]
    refine (read_congr m2 m3 _ ?_).2.2.2
    intro k hk'
    have hx : ((m1.get .rsp - 8) + BitVec.ofNat 64 k).toNat = (m1.get .rsp).toNat - 8 + k := by
      rw [toNat_add_ofNat _ _ (by have := (m1.get .rsp).isLt; rw [← sp2, spn2]; omega), ← sp2, spn2]
    have hlt : ((m1.get .rsp - 8) + BitVec.ofNat 64 k).toNat < B := by rw [hx, u1.rsp]; omega
    exact u3.mem _ (by rw [hx, spn2]; omega) (l2.not_inVar _ _ hlt) (l2.not_inTmp _ _ (by omega) _ hlt)
  have hlo := l.var_lo i ti hti
  rw [hbp] at hlo
  obtain ⟨m4, r4, hm4, ax4, sp4, bp4, mem4⟩ := store_run ti m3 _ v' htop p3 hlo.2
  have l3 : Lay σ1.tys off toff K B (m3.get .rbp) := by rw [he.1, u3.rbp]; exact l2
  have hea : addrOf (m3.get .rbp) (off i) = addrOf bp0 (off i) := by rw [u3.rbp, bp2, u1.rbp, hbp]
  have H4 : Holds off (σ1.set i v') m4 :=
    H3.set l3 (by rw [he.1, ha.1]; exact hti) bp4 (by rw [hea]; exact hm4) (fun x _ hx => mem4 x (by rw [hea] at hx; exact hx))
  refine ⟨m4, JRun.append r1 (JRun.cons_ins (step_of_run_single r2) (JRun.append r3 (JRun.ins r4))),
    by rw [ax4]; exact p3, H4, ?_⟩
  refine ⟨?_, ?_, ?_⟩
  · rw [sp4, u3.rsp, sp2, u1.rsp, sub8_add8]
  · rw [bp4, u3.rbp, bp2, u1.rbp]
  · intro x hx hv ht
    have hnot : x.toNat < (addrOf bp0 (off i)).toNat ∨ (addrOf bp0 (off i)).toNat + ti.size ≤ x.toNat := by
      by_cases h1 : x.toNat < (addrOf bp0 (off i)).toNat
      · exact Or.inl h1
      · by_cases h2 : (addrOf bp0 (off i)).toNat + ti.size ≤ x.toNat
        · exact Or.inr h2
        · exact absurd ⟨i, ti, by simp, hti, by rw [hbp]; omega, by rw [hbp]; omega⟩ hv
    have hx1 : (m1.get .rsp).toNat ≤ x.toNat := by rw [u1.rsp]; exact hx
    rw [mem4 x hnot]
    rw [u3.mem x (by rw [spn2]; omega)
      (by rw [ha.1, bp2, u1.rbp]; exact fun hh => hv (inVar_mono hh (fun j hj => by simp [hj])))
      (by rw [bp2, u1.rbp]; exact fun hh => ht (inTmp_mono hh hk.2.2.1 hk.2.2.2))]
    rw [mem2 x (Or.inr hx1)]
    exact u1.mem x hx (fun hh => hv (inVar_mono hh (fun j hj => by simp [hj])))
      (fun hh => ht (inTmp_mono hh hk.1 hk.2.1))

/-- `tmp = &A`: `lea tmp; push; gen_addr(A); pop %rdi; mov %rax, (%rdi)` — the hidden temporary `kt` receives the address -/
theorem tmp_assignL {cp : List JI} {σ σ0 : Env} {W : List Nat} {k0 k1 kt d : Nat} {ap : BitVec 64}
    (hp : EvJ (AtBp bp0) off toff K cp σ σ0 (fun r => r = ap) W k0 k1 d) (hk : k1 ≤ kt) (hkt : kt < K)
    (m : State) (n' B : Nat) (hP : m.get .rbp = bp0) (l : Lay σ.tys off toff K B (m.get .rbp)) (hd : d ≤ n')
    (hsp : 8 * (n' + 1) ≤ (m.get .rsp).toNat) (hB : (m.get .rsp).toNat ≤ B) (hH : Holds off σ m) :
    ∃ m', JRun (J [iLea (toff kt), iPush] ++ (cp ++ J (storeSeq .u64))) m m' ∧
      m'.read64 (addrOf (m.get .rbp) (toff kt)) = ap ∧ Holds off σ0 m' ∧ m'.get .rsp = m.get .rsp ∧ m'.get .rbp = m.get .rbp ∧
      (∀ x : BitVec 64, (m.get .rsp).toNat ≤ x.toNat → ¬ inVar σ.tys off (m.get .rbp) W x → ¬ inTmp toff (m.get .rbp) k0 k1 x →
        (x.toNat < (addrOf (m.get .rbp) (toff kt)).toNat ∨ (addrOf (m.get .rbp) (toff kt)).toNat + 8 ≤ x.toNat) →
        m'.mem x = m.mem x) := by
  have hT := l.tmp_lo kt hkt
  have sa : Same m (m.set .rax (m.ea (toff kt) .rbp)) := same_set _ _ _ rfl
  obtain ⟨m2, r2, sp2, bp2, ax2, top2, spn2, mem2⟩ := push_rax (m.set .rax (m.ea (toff kt) .rbp)) (by rw [sa.rsp]; omega)
  rw [sa.rsp] at sp2 spn2 top2 mem2
  rw [sa.rbp] at bp2
  rw [State.get_set_same] at top2
  have H2 : Holds off σ m2 := hH.of_ge l bp2 (fun x hx => (mem2 x (Or.inr (by omega))).trans (congrFun sa.mem x))
  have l2 : Lay σ.tys off toff K B (m2.get .rbp) := by rw [bp2]; exact l
  obtain ⟨m3, r3, p3, H3, u3⟩ := hp.2 m2 n' B (by rw [bp2]; exact hP) l2 hd (by rw [spn2]; omega) (by rw [spn2]; omega) H2
  have htop : m3.read64 (m3.get .rsp) = m.ea (toff kt) .rbp := by
    rw [u3.rsp, sp2, ← top2]
    refine (read_congr m2 m3 _ ?_).2.2.2
    intro k hk'
    have hx : ((m.get .rsp - 8) + BitVec.ofNat 64 k).toNat = (m.get .rsp).toNat - 8 + k := by
      rw [toNat_add_ofNat _ _ (by have := (m.get .rsp).isLt; rw [← sp2, spn2]; omega), ← sp2, spn2]
    have hlt : ((m.get .rsp - 8) + BitVec.ofNat 64 k).toNat < B := by rw [hx]; omega
    exact u3.mem _ (by rw [hx, spn2]; omega) (l2.not_inVar _ _ hlt) (l2.not_inTmp _ _ (by omega) _ hlt)
  obtain ⟨m4, r4, hm4, _, sp4, bp4, mem4⟩ :=
    store_run .u64 m3 _ _ htop (by rw [p3]; exact rep_u64_ptr ap) (by rw [ea_rbp]; exact hT.2)
  have l3 : Lay σ0.tys off toff K B (m3.get .rbp) := by rw [hp.1, u3.rbp]; exact l2
  have hbp3 : m3.get .rbp = m.get .rbp := by rw [u3.rbp, bp2]
  refine ⟨m4, ?_, ?_, ?_, ?_, ?_, ?_⟩
  · exact JRun.append (JRun.ins (is := [iLea (toff kt), iPush]) (run_cons_some (lea_step _ _) r2)) (JRun.append r3 (JRun.ins r4))
  · have h2 := hm4.2
    simp only at h2
    rw [← ea_rbp]
    apply BitVec.eq_of_toNat_eq
    have := ap.isLt
    omega
  · exact H3.of_tmp l3 hkt bp4 (fun x _ hout => mem4 x (by rw [ea_rbp, ← hbp3]; simpa [ITy.size] using hout))
  · rw [sp4, u3.rsp, sp2, sub8_add8]
  · rw [bp4, hbp3]
  · intro x hx hv ht hout
    rw [mem4 x (by rw [ea_rbp]; simpa [ITy.size] using hout)]
    rw [u3.mem x (by rw [spn2]; omega) (by rw [bp2]; exact hv) (by rw [bp2]; exact ht)]
    rw [mem2 x (Or.inr hx)]
    exact congrFun sa.mem x

/-- the code of `opAssignCodeL` with the conversion of the right operand as a parameter -/
def opAssignNFL (nk : NK) (ti t tres : ITy) (tmp : Int) (cp : List JI) (dsuf : List Ins) (cB : List JI) (castB : List Ins) :
    List JI :=
  (J [iLea tmp, iPush] ++ (cp ++ J (storeSeq .u64))) ++ opAssignTail nk ti t tres tmp dsuf cB castB

theorem opAssignCodeL_eq (nk : NK) (op : BinOp) (ti tb : ITy) (tmp : Int) (cp : List JI) (dsuf : List Ins) (cB : List JI) :
    opAssignCodeL nk op ti tb tmp cp dsuf cB =
      opAssignNFL nk ti (binopOperandType op ti tb) (binopType op ti tb) tmp cp dsuf cB
        (if op.isShift then [] else castSeq tb (binopOperandType op ti tb)) := rfl

/-- **`lv op= e`** for an lvalue that designates variable `i`, through the hidden pointer temporary `kt`: the temporary
    receives the address of the lvalue (of its parent, for a member; `dsuf` adds the member offset `dd`), then
    `*tmp = *tmp op e` resp. `(*tmp).x = (*tmp).x op e` -/
theorem EvJ.opassignL {cp cB : List JI} {castB dsuf : List Ins} {σ σ0 σ1 : Env} {Wp W : List Nat}
    {k0 kp0 kp1 kb0 kb1 kt dp d i : Nat} {ti tb t tres : ITy} {x vb y dd : Int} {nk : NK} {Rr : BitVec 64 → Prop} {ap : BitVec 64}
    (hti : σ.tys[i]? = some ti)
    (hp : EvJ (AtBp bp0) off toff K cp σ σ0 (fun r => r = ap) Wp kp0 kp1 dp)
    (hap : ap + BitVec.ofInt 64 dd = addrOf bp0 (off i)) (hds : DS dsuf dd)
    (heB : EvJ (AtBp bp0) off toff K cB σ0 σ1 (fun r => Represents tb r vb) W kb0 kb1 d)
    (hcastB : ∀ s, Represents tb (s.get .rax) vb → ∃ s', X86.run castB s = some s' ∧ Rr (s'.get .rax) ∧ Same s s')
    (hx : σ1.vals[i]? = some x)
    (hop : ∀ s, Represents t (s.get .rax) (convert t x) → Rr (s.get .rdi) →
      ∃ s', X86.run (opSeq nk t) s = some s' ∧ Represents tres (s'.get .rax) y ∧ Same s s')
    (hk : k0 ≤ kp0 ∧ kp1 ≤ kt ∧ k0 ≤ kb0 ∧ kb1 ≤ kt) (hk0 : k0 ≤ kt) (hkt : kt < K) :
    EvJ (AtBp bp0) off toff K (opAssignNFL nk ti t tres (toff kt) cp dsuf cB castB) σ (σ1.set i (convert ti y))
      (fun r => Represents ti r (convert ti y)) (Wp ++ (i :: W)) k0 (kt + 1) (max (dp + 1) (max (d + 1) 2)) := by
  refine ⟨heB.1.trans hp.1, ?_⟩
  intro m n B hP l hd hsp hB hH
  obtain ⟨n', rfl⟩ : ∃ n', n = n' + 2 := ⟨n - 2, by omega⟩
  have hbp : m.get .rbp = bp0 := hP
  -- tmp = &A
  obtain ⟨s4, r4, tmp4, H4, sp4, bp4, mem4⟩ := tmp_assignL hp hk.2.1 hkt m (n' + 1) B hP l (by omega) (by omega) hB hH
  -- *tmp = *tmp op B
  have l4 : Lay σ0.tys off toff K B (s4.get .rbp) := by rw [hp.1, bp4]; exact l
  obtain ⟨m', r', p', H', u'⟩ := opassign_from (kt := kt) (by rw [hp.1]; exact hti) heB hcastB hx hop hds hk.2.2.2 hkt
    s4 n' B (by rw [bp4]; exact hP) l4 (by omega) (by rw [sp4]; exact hsp) (by rw [sp4]; exact hB) H4
    ap (by rw [bp4]; exact tmp4) (by rw [bp4, hbp]; exact hap)
  refine ⟨m', ?_, p', H', ?_⟩
  · unfold opAssignNFL; exact JRun.append r4 r'
  · refine ⟨by rw [u'.rsp, sp4], by rw [u'.rbp, bp4], ?_⟩
    intro z hz hv ht
    have hnotT : z.toNat < (addrOf (m.get .rbp) (toff kt)).toNat ∨ (addrOf (m.get .rbp) (toff kt)).toNat + 8 ≤ z.toNat := by
      by_cases h1 : z.toNat < (addrOf (m.get .rbp) (toff kt)).toNat
      · exact Or.inl h1
      · by_cases h2 : (addrOf (m.get .rbp) (toff kt)).toNat + 8 ≤ z.toNat
        · exact Or.inr h2
        · exact absurd ⟨kt, by omega, by omega, by omega, by omega⟩ ht
    rw [u'.mem z (by rw [sp4]; exact hz)
      (by rw [hp.1, bp4]; exact fun hh => hv (inVar_mono hh (fun j hj => by simp only [List.mem_append]; exact Or.inr hj)))
      (by rw [bp4]; exact fun hh => ht (inTmp_mono hh hk.2.2.1 (by omega)))]
    exact mem4 z hz (fun hh => hv (inVar_mono hh (fun j hj => by simp [hj])))
      (fun hh => ht (inTmp_mono hh hk.1 (by omega))) hnotT

end
end ChibiVerif.C01
