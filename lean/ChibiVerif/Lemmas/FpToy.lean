/-
A witness that the contract structure `FpuSpec` is satisfiable (so the theorems `∀ F : FpuSpec, …` of Props/C02.lean are
not vacuous), and the FPU on which the known findings are exhibited (Findings/C02.lean).

It is a *toy* FPU, not IEEE-754: a datum of 32 / 64 / 80 bits is  sign | 6-bit shift s | q  and denotes
(−1)^sign · q · 2^s  (25 / 57 / 73 bits of q: enough for every integer of at most 65 bits rounded to 24 / 53 / 64
significant bits).  There are no NaNs or infinities; the arithmetic operations, whose results no contract constrains,
return their first operand (except `addsd x, x`, which doubles exactly: the hypothesis of `C02_u64f64`).  All contracts hold (proved below); the real x87/SSE unit is validated against the same
contracts by checklib/C02.py on every run.
-/
import ChibiVerif.Spec.FpuSpec

namespace ChibiVerif.Spec.Fpu.Toy

theorem bitLen_lt (n : Nat) : n < 2 ^ bitLen n := by
  unfold bitLen
  split
  · subst_vars; simp
  · exact Nat.lt_log2_self

theorem bitLen_le (n : Nat) (hn : n ≤ 2 ^ 64) : bitLen n ≤ 65 := by
  unfold bitLen
  split
  · omega
  · rename_i h
    have := (Nat.log2_lt h).2 (show n < 2 ^ 65 by omega)
    omega

theorem roundQS_bounds (p n : Nat) (hp : p ≤ 64) (hn : n ≤ 2 ^ 64) :
    (roundQS p n).1 ≤ 2 ^ p ∧ (roundQS p n).2 ≤ 65 - p := by
  have hl := bitLen_lt n
  have hl2 := bitLen_le n hn
  unfold roundQS
  simp only
  split
  · rename_i h
    refine ⟨?_, by omega⟩
    have : 2 ^ bitLen n ≤ 2 ^ p := Nat.pow_le_pow_right (by omega) h
    simp; omega
  · rename_i h
    have hq : n / 2 ^ (bitLen n - p) < 2 ^ p := by
      rw [Nat.div_lt_iff_lt_mul (Nat.two_pow_pos _)]
      rw [← Nat.pow_add]
      have : p + (bitLen n - p) = bitLen n := by omega
      rw [this]; exact hl
    split <;> simp <;> omega

theorem same_refl_fin (n : Bool) (m : Nat) (e : Int) : Val.same (.fin n m e) (.fin n m e) = true := by
  simp [Val.same]

/-- sign | 6-bit shift | `qb`-bit q -/
def dec (qb : Nat) (b : Nat) : Val :=
  .fin (b / 2 ^ (qb + 6) % 2 = 1) (b % 2 ^ qb) ((b / 2 ^ qb % 64 : Nat) : Int)

def enc (qb : Nat) (neg : Bool) (q s : Nat) : Nat := (if neg then 2 ^ (qb + 6) else 0) + s * 2 ^ qb + q

/-- re-encode a datum with a wider q field -/
def widen (qb qb' : Nat) (b : Nat) : Nat := enc qb' (b / 2 ^ (qb + 6) % 2 = 1) (b % 2 ^ qb) (b / 2 ^ qb % 64)

/-- the integer `v` rounded to `p` significant bits, encoded (only the sign when |v| > 2^64) -/
def ofIntNat (qb p : Nat) (v : Int) : Nat :=
  if v.natAbs ≤ 2 ^ 64 then enc qb (decide (v < 0)) (roundQS p v.natAbs).1 (roundQS p v.natAbs).2
  else enc qb (decide (v < 0)) 0 0

theorem toInt_fin (neg : Bool) (q s : Nat) :
    (Val.fin neg q (s : Int)).toInt? = some (if neg then -((q * 2 ^ s : Nat) : Int) else ((q * 2 ^ s : Nat) : Int)) := by
  simp [Val.toInt?, Val.magTrunc]

theorem roundInt_eq (p : Nat) (v : Int) :
    roundInt p v = (if decide (v < 0) = true then -(((roundQS p v.natAbs).1 * 2 ^ (roundQS p v.natAbs).2 : Nat) : Int)
                    else (((roundQS p v.natAbs).1 * 2 ^ (roundQS p v.natAbs).2 : Nat) : Int)) := by
  simp [roundInt, roundNat]

/-! ### the 32-bit format: q has 25 bits, integers are rounded to 24 significant bits -/

theorem dec_enc32 (neg : Bool) (q s : Nat) (hq : q < 2 ^ 25) (hs : s < 64) : dec 25 (enc 25 neg q s) = .fin neg q s := by
  simp only [dec, enc]
  cases neg <;> simp <;> omega

theorem enc_lt32 (neg : Bool) (q s : Nat) (hq : q < 2 ^ 25) (hs : s < 64) : enc 25 neg q s < 2 ^ 32 := by
  simp only [enc]
  cases neg <;> simp <;> omega

theorem enc_msb32 (neg : Bool) (q s : Nat) (hq : q < 2 ^ 25) (hs : s < 64) : (BitVec.ofNat 32 (enc 25 neg q s)).msb = neg := by
  have := enc_lt32 neg q s hq hs
  simp only [BitVec.msb_eq_decide, BitVec.toNat_ofNat, enc] at *
  cases neg <;> simp <;> omega

def val32 (b : BitVec 32) : Val := dec 25 b.toNat
def ofInt32 (v : Int) : BitVec 32 := BitVec.ofNat 32 (ofIntNat 25 24 v)

theorem ofInt32_val (v : Int) (hv : v.natAbs ≤ 2 ^ 64) : (val32 (ofInt32 v)).toInt? = some (roundInt 24 v) := by
  obtain ⟨hq, hs⟩ := roundQS_bounds 24 v.natAbs (by decide) hv
  have hq' : (roundQS 24 v.natAbs).1 < 2 ^ 25 := by
    have : (2:Nat) ^ 24 < 2 ^ 25 := by decide
    omega
  have hs' : (roundQS 24 v.natAbs).2 < 64 := by omega
  have hlt := enc_lt32 (decide (v < 0)) _ _ hq' hs'
  simp only [val32, ofInt32, ofIntNat, hv, if_true, BitVec.toNat_ofNat, Nat.mod_eq_of_lt hlt]
  rw [dec_enc32 _ _ _ hq' hs', toInt_fin, roundInt_eq]

theorem ofInt32_sign (v : Int) : (ofInt32 v).msb = decide (v < 0) := by
  simp only [ofInt32, ofIntNat]
  split
  · rename_i hv
    obtain ⟨hq, hs⟩ := roundQS_bounds 24 v.natAbs (by decide) hv
    have hq' : (roundQS 24 v.natAbs).1 < 2 ^ 25 := by
      have : (2:Nat) ^ 24 < 2 ^ 25 := by decide
      omega
    exact enc_msb32 _ _ _ hq' (by omega)
  · exact enc_msb32 _ _ _ (by decide) (by decide)

/-! ### the 64-bit format: q has 57 bits, integers are rounded to 53 significant bits -/

theorem dec_enc64 (neg : Bool) (q s : Nat) (hq : q < 2 ^ 57) (hs : s < 64) : dec 57 (enc 57 neg q s) = .fin neg q s := by
  simp only [dec, enc]
  cases neg <;> simp <;> omega

theorem enc_lt64 (neg : Bool) (q s : Nat) (hq : q < 2 ^ 57) (hs : s < 64) : enc 57 neg q s < 2 ^ 64 := by
  simp only [enc]
  cases neg <;> simp <;> omega

theorem enc_msb64 (neg : Bool) (q s : Nat) (hq : q < 2 ^ 57) (hs : s < 64) : (BitVec.ofNat 64 (enc 57 neg q s)).msb = neg := by
  have := enc_lt64 neg q s hq hs
  simp only [BitVec.msb_eq_decide, BitVec.toNat_ofNat, enc] at *
  cases neg <;> simp <;> omega

def val64 (b : BitVec 64) : Val := dec 57 b.toNat
def ofInt64 (v : Int) : BitVec 64 := BitVec.ofNat 64 (ofIntNat 57 53 v)

theorem ofInt64_val (v : Int) (hv : v.natAbs ≤ 2 ^ 64) : (val64 (ofInt64 v)).toInt? = some (roundInt 53 v) := by
  obtain ⟨hq, hs⟩ := roundQS_bounds 53 v.natAbs (by decide) hv
  have hq' : (roundQS 53 v.natAbs).1 < 2 ^ 57 := by
    have : (2:Nat) ^ 53 < 2 ^ 57 := by decide
    omega
  have hs' : (roundQS 53 v.natAbs).2 < 64 := by omega
  have hlt := enc_lt64 (decide (v < 0)) _ _ hq' hs'
  simp only [val64, ofInt64, ofIntNat, hv, if_true, BitVec.toNat_ofNat, Nat.mod_eq_of_lt hlt]
  rw [dec_enc64 _ _ _ hq' hs', toInt_fin, roundInt_eq]

theorem ofInt64_sign (v : Int) : (ofInt64 v).msb = decide (v < 0) := by
  simp only [ofInt64, ofIntNat]
  split
  · rename_i hv
    obtain ⟨hq, hs⟩ := roundQS_bounds 53 v.natAbs (by decide) hv
    have hq' : (roundQS 53 v.natAbs).1 < 2 ^ 57 := by
      have : (2:Nat) ^ 53 < 2 ^ 57 := by decide
      omega
    exact enc_msb64 _ _ _ hq' (by omega)
  · exact enc_msb64 _ _ _ (by decide) (by decide)

/-! ### the 80-bit format: q has 73 bits, integers are rounded to 64 significant bits -/

theorem dec_enc80 (neg : Bool) (q s : Nat) (hq : q < 2 ^ 73) (hs : s < 64) : dec 73 (enc 73 neg q s) = .fin neg q s := by
  simp only [dec, enc]
  cases neg <;> simp <;> omega

theorem enc_lt80 (neg : Bool) (q s : Nat) (hq : q < 2 ^ 73) (hs : s < 64) : enc 73 neg q s < 2 ^ 80 := by
  simp only [enc]
  cases neg <;> simp <;> omega

theorem enc_msb80 (neg : Bool) (q s : Nat) (hq : q < 2 ^ 73) (hs : s < 64) : (BitVec.ofNat 80 (enc 73 neg q s)).msb = neg := by
  have := enc_lt80 neg q s hq hs
  simp only [BitVec.msb_eq_decide, BitVec.toNat_ofNat, enc] at *
  cases neg <;> simp <;> omega

def val80 (b : BitVec 80) : Val := dec 73 b.toNat
def ofInt80 (v : Int) : BitVec 80 := BitVec.ofNat 80 (ofIntNat 73 64 v)

theorem ofInt80_val (v : Int) (hv : v.natAbs ≤ 2 ^ 64) : (val80 (ofInt80 v)).toInt? = some (roundInt 64 v) := by
  obtain ⟨hq, hs⟩ := roundQS_bounds 64 v.natAbs (by decide) hv
  have hq' : (roundQS 64 v.natAbs).1 < 2 ^ 73 := by
    have : (2:Nat) ^ 64 < 2 ^ 73 := by decide
    omega
  have hs' : (roundQS 64 v.natAbs).2 < 64 := by omega
  have hlt := enc_lt80 (decide (v < 0)) _ _ hq' hs'
  simp only [val80, ofInt80, ofIntNat, hv, if_true, BitVec.toNat_ofNat, Nat.mod_eq_of_lt hlt]
  rw [dec_enc80 _ _ _ hq' hs', toInt_fin, roundInt_eq]

theorem ofInt80_sign (v : Int) : (ofInt80 v).msb = decide (v < 0) := by
  simp only [ofInt80, ofIntNat]
  split
  · rename_i hv
    obtain ⟨hq, hs⟩ := roundQS_bounds 64 v.natAbs (by decide) hv
    have hq' : (roundQS 64 v.natAbs).1 < 2 ^ 73 := by
      have : (2:Nat) ^ 64 < 2 ^ 73 := by decide
      omega
    exact enc_msb80 _ _ _ hq' (by omega)
  · exact enc_msb80 _ _ _ (by decide) (by decide)

/-! ### widening re-encodes exactly -/

theorem widen_32_64 (b : BitVec 32) : Val.same (val64 (BitVec.ofNat 64 (widen 25 57 b.toNat))) (val32 b) = true := by
  have hq : b.toNat % 2 ^ 25 < 2 ^ 57 := by omega
  have hs : b.toNat / 2 ^ 25 % 64 < 64 := by omega
  have hlt := enc_lt64 (b.toNat / 2 ^ (25 + 6) % 2 = 1) _ _ hq hs
  simp only [val64, val32, widen, BitVec.toNat_ofNat, Nat.mod_eq_of_lt hlt]
  rw [dec_enc64 _ _ _ hq hs]
  exact same_refl_fin _ _ _

theorem widen_32_80 (b : BitVec 32) : Val.same (val80 (BitVec.ofNat 80 (widen 25 73 b.toNat))) (val32 b) = true := by
  have hq : b.toNat % 2 ^ 25 < 2 ^ 73 := by omega
  have hs : b.toNat / 2 ^ 25 % 64 < 64 := by omega
  have hlt := enc_lt80 (b.toNat / 2 ^ (25 + 6) % 2 = 1) _ _ hq hs
  simp only [val80, val32, widen, BitVec.toNat_ofNat, Nat.mod_eq_of_lt hlt]
  rw [dec_enc80 _ _ _ hq hs]
  exact same_refl_fin _ _ _

theorem widen_64_80 (b : BitVec 64) : Val.same (val80 (BitVec.ofNat 80 (widen 57 73 b.toNat))) (val64 b) = true := by
  have hq : b.toNat % 2 ^ 57 < 2 ^ 73 := by omega
  have hs : b.toNat / 2 ^ 57 % 64 < 64 := by omega
  have hlt := enc_lt80 (b.toNat / 2 ^ (57 + 6) % 2 = 1) _ _ hq hs
  simp only [val80, val64, widen, BitVec.toNat_ofNat, Nat.mod_eq_of_lt hlt]
  rw [dec_enc80 _ _ _ hq hs]
  exact same_refl_fin _ _ _

/-! ### doubling a toy double (used for `addsd x, x`): shift + 1 -/

def dbl64 (b : BitVec 64) : BitVec 64 :=
  BitVec.ofNat 64 (enc 57 (b.toNat / 2 ^ (57 + 6) % 2 = 1) (b.toNat % 2 ^ 57) (b.toNat / 2 ^ 57 % 64 + 1))

theorem dbl64_ofInt (k : Int) (hk : k.natAbs ≤ 2 ^ 64) :
    (val64 (dbl64 (ofInt64 k))).toInt? = some (2 * roundInt 53 k) := by
  obtain ⟨hq, hs⟩ := roundQS_bounds 53 k.natAbs (by decide) hk
  have hq' : (roundQS 53 k.natAbs).1 < 2 ^ 57 := by
    have : (2:Nat) ^ 53 < 2 ^ 57 := by decide
    omega
  have hs' : (roundQS 53 k.natAbs).2 < 64 := by omega
  have hs'' : (roundQS 53 k.natAbs).2 + 1 < 64 := by omega
  have hlt := enc_lt64 (decide (k < 0)) _ _ hq' hs'
  have hlt2 := enc_lt64 (decide (k < 0)) _ _ hq' hs''
  have hdec := dec_enc64 (decide (k < 0)) _ _ hq' hs'
  simp only [dec, Val.fin.injEq] at hdec
  obtain ⟨h1, h2, h3⟩ := hdec
  have h3' : enc 57 (decide (k < 0)) (roundQS 53 k.natAbs).1 (roundQS 53 k.natAbs).2 / 2 ^ 57 % 64 = (roundQS 53 k.natAbs).2 := by
    exact Int.ofNat.inj h3
  simp only [val64, dbl64, ofInt64, ofIntNat, hk, if_true, BitVec.toNat_ofNat, Nat.mod_eq_of_lt hlt]
  rw [h1, h2, h3', Nat.mod_eq_of_lt hlt2, dec_enc64 _ _ _ hq' hs'', toInt_fin, roundInt_eq]
  have e : (roundQS 53 k.natAbs).1 * 2 ^ ((roundQS 53 k.natAbs).2 + 1) = 2 * ((roundQS 53 k.natAbs).1 * 2 ^ (roundQS 53 k.natAbs).2) := by
    rw [Nat.pow_succ, ← Nat.mul_assoc, Nat.mul_comm]
  rw [e]
  split <;> simp <;> omega

/-- **the toy FPU** -/
def toy : FpuSpec where
  val32 := val32
  val64 := val64
  val80 := val80
  addss := fun a _ => a
  subss := fun a _ => a
  mulss := fun a _ => a
  divss := fun a _ => a
  addsd := fun a b => if a = b then dbl64 a else a
  subsd := fun a _ => a
  mulsd := fun a _ => a
  divsd := fun a _ => a
  fadd := fun _ a _ => a
  fsub := fun _ a _ => a
  fmul := fun _ a _ => a
  fdiv := fun _ a _ => a
  fchs := fun x => x ^^^ (1#80 <<< 79)
  fldz := 0#80
  cvtsi2ss32 := fun x => ofInt32 x.toInt
  cvtsi2ss64 := fun x => ofInt32 x.toInt
  cvtsi2sd32 := fun x => ofInt64 x.toInt
  cvtsi2sd64 := fun x => ofInt64 x.toInt
  fild16 := fun x => ofInt80 x.toInt
  fild32 := fun x => ofInt80 x.toInt
  fild64 := fun x => ofInt80 x.toInt
  ofInt32 := ofInt32
  ofInt64 := ofInt64
  ofInt80 := ofInt80
  cvttss2si32 := fun x => truncTo 32 (val32 x)
  cvttss2si64 := fun x => truncTo 64 (val32 x)
  cvttsd2si32 := fun x => truncTo 32 (val64 x)
  cvttsd2si64 := fun x => truncTo 64 (val64 x)
  fistp16 := fun _ x => truncTo 16 (val80 x)
  fistp32 := fun _ x => truncTo 32 (val80 x)
  fistp64 := fun _ x => truncTo 64 (val80 x)
  cvtss2sd := fun x => BitVec.ofNat 64 (widen 25 57 x.toNat)
  cvtsd2ss := fun _ => 0#32
  fld32 := fun x => BitVec.ofNat 80 (widen 25 73 x.toNat)
  fld64 := fun x => BitVec.ofNat 80 (widen 57 73 x.toNat)
  fst32 := fun _ _ => 0#32
  fst64 := fun _ _ => 0#64
  ucomiss := fun a b => Val.cmp (val32 a) (val32 b)
  ucomisd := fun a b => Val.cmp (val64 a) (val64 b)
  fcomi := fun a b => Val.cmp (val80 a) (val80 b)
  val32_zero := by decide
  val64_zero := by decide
  val80_fldz := by decide
  ucomiss_spec := fun _ _ => rfl
  ucomisd_spec := fun _ _ => rfl
  fcomi_spec := fun _ _ => rfl
  cvttss2si32_spec := fun _ => rfl
  cvttss2si64_spec := fun _ => rfl
  cvttsd2si32_spec := fun _ => rfl
  cvttsd2si64_spec := fun _ => rfl
  fistp16_rz := fun _ _ _ => rfl
  fistp32_rz := fun _ _ _ => rfl
  fistp64_rz := fun _ _ _ => rfl
  cvtsi2ss32_spec := fun _ => rfl
  cvtsi2ss64_spec := fun _ => rfl
  cvtsi2sd32_spec := fun _ => rfl
  cvtsi2sd64_spec := fun _ => rfl
  fild16_spec := fun _ => rfl
  fild32_spec := fun _ => rfl
  fild64_spec := fun _ => rfl
  ofInt32_val := ofInt32_val
  ofInt64_val := ofInt64_val
  ofInt80_val := ofInt80_val
  ofInt32_sign := ofInt32_sign
  ofInt64_sign := ofInt64_sign
  ofInt80_sign := ofInt80_sign
  cvtss2sd_exact := widen_32_64
  fld32_exact := widen_32_80
  fld64_exact := widen_64_80
  fchs_spec := fun _ => rfl

end ChibiVerif.Spec.Fpu.Toy
