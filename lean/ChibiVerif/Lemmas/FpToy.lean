/-
A witness that the contract structure `FpuSpec` is satisfiable (so the theorems `∀ F : FpuSpec, …` of Props/C02.lean are
not vacuous), and the FPU on which the known findings are exhibited (Findings/C02.lean).

It is a *toy* FPU, not IEEE-754: a datum of 32 / 64 / 80 bits is  sign | 6-bit shift s | q  and denotes
(−1)^sign · q · 2^s  (25 / 57 / 73 bits of q: enough for every integer of at most 65 bits rounded to 24 / 53 / 64
significant bits).  There are no NaNs or infinities.  The two patterns the repaired fp → unsigned long cells materialise
(binary32 0x5f000000, binary64 0x43e0000000000000) are given the value the contract names (2^63) by a special case of
`val32`/`val64`; no other operation produces them.  The arithmetic operations return their first operand except where a
contract constrains them: `x + x` doubles exactly, `x − 2^63` is exact for 2^63 ≤ x < 2^64, `fadd` of the constant 2^64
to an integer datum is exact.  All contracts hold (proved below); the real x87/SSE unit is validated against the same
contracts by checklib/C02.py on every run.
-/
import ChibiVerif.Lemmas.FpRoundLemmas

namespace ChibiVerif.Spec.Fpu.Toy

theorem bitLen_lt (n : Nat) : n < 2 ^ bitLen n := by
  unfold bitLen
  split
  · subst_vars; simp
  · exact Nat.lt_log2_self

theorem bitLen_le (n : Nat) (hn : n ≤ 2 ^ 64) : bitLen n ≤ 65 := by
  unfold bitLen
  split
  · omega
  · rename_i h
    have := (Nat.log2_lt h).2 (show n < 2 ^ 65 by omega)
    omega

theorem roundQS_bounds (p n : Nat) (hp : p ≤ 64) (hn : n ≤ 2 ^ 64) :
    (roundQS p n).1 ≤ 2 ^ p ∧ (roundQS p n).2 ≤ 65 - p := by
  have hl := bitLen_lt n
  have hl2 := bitLen_le n hn
  unfold roundQS
  simp only
  split
  · rename_i h
    refine ⟨?_, by omega⟩
    have : 2 ^ bitLen n ≤ 2 ^ p := Nat.pow_le_pow_right (by omega) h
    simp; omega
  · rename_i h
    have hq : n / 2 ^ (bitLen n - p) < 2 ^ p := by
      rw [Nat.div_lt_iff_lt_mul (Nat.two_pow_pos _)]
      rw [← Nat.pow_add]
      have : p + (bitLen n - p) = bitLen n := by omega
      rw [this]; exact hl
    split <;> simp <;> omega

theorem same_refl_fin (n : Bool) (m : Nat) (e : Int) : Val.same (.fin n m e) (.fin n m e) = true := by
  simp [Val.same]

/-- sign | 6-bit shift | `qb`-bit q -/
def dec (qb : Nat) (b : Nat) : Val :=
  .fin (b / 2 ^ (qb + 6) % 2 = 1) (b % 2 ^ qb) ((b / 2 ^ qb % 64 : Nat) : Int)

def enc (qb : Nat) (neg : Bool) (q s : Nat) : Nat := (if neg then 2 ^ (qb + 6) else 0) + s * 2 ^ qb + q

/-- re-encode a datum with a wider q field -/
def widen (qb qb' : Nat) (b : Nat) : Nat := enc qb' (b / 2 ^ (qb + 6) % 2 = 1) (b % 2 ^ qb) (b / 2 ^ qb % 64)

/-- the integer `v` rounded to `p` significant bits, encoded (only the sign when |v| > 2^64).  The code is computed from the
    *rounded* magnitude, so that it is a function of the sign and of `roundNat p |v|` (contracts `ofInt*_congr`). -/
def ofIntNat (qb p : Nat) (v : Int) : Nat :=
  if v.natAbs ≤ 2 ^ 64 then
    enc qb (decide (v < 0)) (roundQS p (roundNat p v.natAbs)).1 (roundQS p (roundNat p v.natAbs)).2
  else enc qb (decide (v < 0)) 0 0

theorem roundInt_eq' (p : Nat) (v : Int) (hp : 1 ≤ p) :
    roundInt p v = (if decide (v < 0) = true
        then -(((roundQS p (roundNat p v.natAbs)).1 * 2 ^ (roundQS p (roundNat p v.natAbs)).2 : Nat) : Int)
        else (((roundQS p (roundNat p v.natAbs)).1 * 2 ^ (roundQS p (roundNat p v.natAbs)).2 : Nat) : Int)) := by
  have := roundNat_idem p v.natAbs hp
  simp only [roundNat] at this
  simp [roundInt, roundNat, this]

theorem toInt_fin (neg : Bool) (q s : Nat) :
    (Val.fin neg q (s : Int)).toInt? = some (if neg then -((q * 2 ^ s : Nat) : Int) else ((q * 2 ^ s : Nat) : Int)) := by
  simp [Val.toInt?, Val.magTrunc]

theorem roundInt_eq (p : Nat) (v : Int) :
    roundInt p v = (if decide (v < 0) = true then -(((roundQS p v.natAbs).1 * 2 ^ (roundQS p v.natAbs).2 : Nat) : Int)
                    else (((roundQS p v.natAbs).1 * 2 ^ (roundQS p v.natAbs).2 : Nat) : Int)) := by
  simp [roundInt, roundNat]

/-! ### the pieces of the special cases -/

theorem trunc_of_toInt (v : Val) (i : Int) (h : v.toInt? = some i) : v.trunc? = some i := by
  cases v with
  | nan => simp [Val.toInt?] at h
  | inf n => simp [Val.toInt?] at h
  | fin n m e =>
    simp only [Val.toInt?] at h
    split at h
    · simpa [Val.trunc?] using h
    · simp at h

/-- an integer of at most `p` bits is its own rounding -/
theorem roundInt_small (p : Nat) (v : Int) (h : v.natAbs < 2 ^ p) : roundInt p v = v := by
  have hb : bitLen v.natAbs ≤ p := by
    unfold bitLen
    split
    · omega
    · rename_i h0
      have := (Nat.log2_lt h0).2 h
      omega
  have e : roundNat p v.natAbs = v.natAbs := by simp [roundNat, roundQS, hb]
  simp only [roundInt, e]
  split <;> omega

/-- fields of a datum whose integer part lies in [2^63, 2^64): it is positive, and q·2^s − 2^63 = (q − 2^(63−s))·2^s -/
theorem dec_sub63 (qb b : Nat) (t : Int) (ht : (dec qb b).trunc? = some t)
    (h1 : 9223372036854775808 ≤ t) (h2 : t < 18446744073709551616) :
    (b / 2 ^ (qb + 6) % 2 = 1) = False ∧
    (((b % 2 ^ qb - 2 ^ (63 - b / 2 ^ qb % 64)) * 2 ^ (b / 2 ^ qb % 64) : Nat) : Int) = t - 9223372036854775808 ∧
    (b / 2 ^ qb % 64 = 47 → b % 2 ^ qb - 2 ^ (63 - b / 2 ^ qb % 64) < 2 ^ 17) := by
  simp only [dec, Val.trunc?, Val.magTrunc, Option.some.injEq] at ht
  have hs : b / 2 ^ qb % 64 < 64 := Nat.mod_lt _ (by decide)
  generalize b / 2 ^ qb % 64 = s at *
  generalize b % 2 ^ qb = q at *
  have h0 : (0:Int) ≤ (s:Int) := by omega
  rw [if_pos h0, Int.toNat_natCast] at ht
  have hneg : ¬ (b / 2 ^ (qb + 6) % 2 = 1) := by
    intro hn
    simp only [hn, decide_true, if_true] at ht
    have : (0:Int) ≤ ((q * 2 ^ s : Nat) : Int) := Int.natCast_nonneg _
    omega
  simp only [hneg, decide_false, Bool.false_eq_true, if_false] at ht
  have hpow : 2 ^ (63 - s) * 2 ^ s = 2 ^ 63 := by
    rw [← Nat.pow_add]; congr 1; omega
  have hqs : 2 ^ 63 ≤ q * 2 ^ s ∧ q * 2 ^ s < 2 ^ 64 := by omega
  have hle : 2 ^ (63 - s) ≤ q := by
    have hp : 0 < 2 ^ s := Nat.two_pow_pos s
    rw [← hpow] at hqs
    exact Nat.le_of_mul_le_mul_right hqs.1 hp
  refine ⟨by simpa using hneg, ?_, ?_⟩
  · rw [Nat.sub_mul, hpow]
    have : 2 ^ 63 ≤ q * 2 ^ s := hqs.1
    omega
  · intro h47
    subst h47
    have : q * 2 ^ 47 < 2 ^ 64 := hqs.2
    omega

/-! ### the 32-bit format: q has 25 bits, integers are rounded to 24 significant bits -/

theorem dec_enc32 (neg : Bool) (q s : Nat) (hq : q < 2 ^ 25) (hs : s < 64) : dec 25 (enc 25 neg q s) = .fin neg q s := by
  simp only [dec, enc]
  cases neg <;> simp <;> omega

theorem enc_lt32 (neg : Bool) (q s : Nat) (hq : q < 2 ^ 25) (hs : s < 64) : enc 25 neg q s < 2 ^ 32 := by
  simp only [enc]
  cases neg <;> simp <;> omega

theorem enc_msb32 (neg : Bool) (q s : Nat) (hq : q < 2 ^ 25) (hs : s < 64) : (BitVec.ofNat 32 (enc 25 neg q s)).msb = neg := by
  have := enc_lt32 neg q s hq hs
  simp only [BitVec.msb_eq_decide, BitVec.toNat_ofNat, enc] at *
  cases neg <;> simp <;> omega

/-- the binary32 pattern of 2^63 -/
def C32 : BitVec 32 := 0x5f000000#32

def val32 (b : BitVec 32) : Val := if b = C32 then .fin false 8388608 40 else dec 25 b.toNat
def ofInt32 (v : Int) : BitVec 32 := BitVec.ofNat 32 (ofIntNat 25 24 v)

/-- every code with a shift field other than 47, or a q field other than 2^24, is read by `dec` -/
theorem val32_mk (neg : Bool) (q s : Nat) (hq : q < 2 ^ 25) (hs : s < 64) (hne : s = 47 → q ≠ 16777216) :
    val32 (BitVec.ofNat 32 (enc 25 neg q s)) = .fin neg q s := by
  have hlt := enc_lt32 neg q s hq hs
  have hd := dec_enc32 neg q s hq hs
  have hnc : BitVec.ofNat 32 (enc 25 neg q s) ≠ C32 := by
    intro h
    have h' := congrArg BitVec.toNat h
    simp only [BitVec.toNat_ofNat, Nat.mod_eq_of_lt hlt] at h'
    rw [h'] at hd
    have hc : dec 25 C32.toNat = .fin false 16777216 47 := by decide
    rw [hc] at hd
    simp only [Val.fin.injEq] at hd
    obtain ⟨_, h2, h3⟩ := hd
    exact hne (by omega) h2.symm
  simp only [val32, hnc, if_false, BitVec.toNat_ofNat, Nat.mod_eq_of_lt hlt, hd]

theorem ofInt32_val (v : Int) (hv : v.natAbs ≤ 2 ^ 64) : (val32 (ofInt32 v)).toInt? = some (roundInt 24 v) := by
  have hm := roundNat_le64 24 v.natAbs (by decide) (by decide) hv
  obtain ⟨hq, hs⟩ := roundQS_bounds 24 (roundNat 24 v.natAbs) (by decide) hm
  have hq' : (roundQS 24 (roundNat 24 v.natAbs)).1 < 2 ^ 25 := by
    have : (2:Nat) ^ 24 < 2 ^ 25 := by decide
    omega
  have hs' : (roundQS 24 (roundNat 24 v.natAbs)).2 < 64 := by omega
  simp only [ofInt32, ofIntNat, hv, if_true]
  rw [val32_mk _ _ _ hq' hs' (by omega), toInt_fin, roundInt_eq' 24 v (by decide)]

theorem ofInt32_sign (v : Int) : (ofInt32 v).msb = decide (v < 0) := by
  simp only [ofInt32, ofIntNat]
  split
  · rename_i hv
    have hm := roundNat_le64 24 v.natAbs (by decide) (by decide) hv
    obtain ⟨hq, hs⟩ := roundQS_bounds 24 (roundNat 24 v.natAbs) (by decide) hm
    have hq' : (roundQS 24 (roundNat 24 v.natAbs)).1 < 2 ^ 25 := by
      have : (2:Nat) ^ 24 < 2 ^ 25 := by decide
      omega
    exact enc_msb32 _ _ _ hq' (by omega)
  · exact enc_msb32 _ _ _ (by decide) (by decide)

theorem ofInt32_congr (a b : Int) (ha : a.natAbs ≤ 2 ^ 64) (hb : b.natAbs ≤ 2 ^ 64) (hs : a < 0 ↔ b < 0)
    (h : roundInt 24 a = roundInt 24 b) : ofInt32 a = ofInt32 b := by
  have hn : roundNat 24 a.natAbs = roundNat 24 b.natAbs := by
    simp only [roundInt] at h
    by_cases h0 : a < 0
    · have h1 : b < 0 := hs.1 h0
      simp only [h0, h1, if_true] at h; omega
    · have h1 : ¬ b < 0 := fun x => h0 (hs.2 x)
      simp only [h0, h1, if_false] at h; omega
  have hd : decide (a < 0) = decide (b < 0) := by simp [hs]
  simp only [ofInt32, ofIntNat, ha, hb, if_true, hn, hd]

/-- `x − 2^63` on the fields -/
def sub63_32 (a : BitVec 32) : BitVec 32 :=
  if a = C32 then 0#32
  else BitVec.ofNat 32 (enc 25 false (a.toNat % 2 ^ 25 - 2 ^ (63 - a.toNat / 2 ^ 25 % 64)) (a.toNat / 2 ^ 25 % 64))

theorem sub63_32_spec (a : BitVec 32) (t : Int) (ht : (val32 a).trunc? = some t)
    (h1 : 9223372036854775808 ≤ t) (h2 : t < 18446744073709551616) :
    (val32 (sub63_32 a)).trunc? = some (t - 9223372036854775808) := by
  by_cases hc : a = C32
  · subst hc
    have : t = 9223372036854775808 := by
      have : (val32 C32).trunc? = some 9223372036854775808 := by decide
      rw [this] at ht; exact (Option.some.inj ht).symm
    subst this
    decide
  · simp only [val32, hc, if_false] at ht
    obtain ⟨_, hval, h47⟩ := dec_sub63 25 a.toNat t ht h1 h2
    have hs : a.toNat / 2 ^ 25 % 64 < 64 := Nat.mod_lt _ (by decide)
    have hq : a.toNat % 2 ^ 25 - 2 ^ (63 - a.toNat / 2 ^ 25 % 64) < 2 ^ 25 :=
      Nat.lt_of_le_of_lt (Nat.sub_le _ _) (Nat.mod_lt _ (by decide))
    simp only [sub63_32, hc, if_false]
    rw [val32_mk _ _ _ hq hs (fun h => by have := h47 h; omega)]
    simp only [Val.trunc?, Val.magTrunc, Bool.false_eq_true, if_false]
    have h0 : (0:Int) ≤ ((a.toNat / 2 ^ 25 % 64 : Nat) : Int) := Int.natCast_nonneg _
    rw [if_pos h0, Int.toNat_natCast, hval]

/-! ### the 64-bit format: q has 57 bits, integers are rounded to 53 significant bits -/

theorem dec_enc64 (neg : Bool) (q s : Nat) (hq : q < 2 ^ 57) (hs : s < 64) : dec 57 (enc 57 neg q s) = .fin neg q s := by
  simp only [dec, enc]
  cases neg <;> simp <;> omega

theorem enc_lt64 (neg : Bool) (q s : Nat) (hq : q < 2 ^ 57) (hs : s < 64) : enc 57 neg q s < 2 ^ 64 := by
  simp only [enc]
  cases neg <;> simp <;> omega

theorem enc_msb64 (neg : Bool) (q s : Nat) (hq : q < 2 ^ 57) (hs : s < 64) : (BitVec.ofNat 64 (enc 57 neg q s)).msb = neg := by
  have := enc_lt64 neg q s hq hs
  simp only [BitVec.msb_eq_decide, BitVec.toNat_ofNat, enc] at *
  cases neg <;> simp <;> omega

/-- the binary64 pattern of 2^63 -/
def C64 : BitVec 64 := 0x43e0000000000000#64

def val64 (b : BitVec 64) : Val := if b = C64 then .fin false 4503599627370496 11 else dec 57 b.toNat
def ofInt64 (v : Int) : BitVec 64 := BitVec.ofNat 64 (ofIntNat 57 53 v)

/-- every code whose q field is not that of `C64` (15·2^53) is read by `dec` -/
theorem val64_mk (neg : Bool) (q s : Nat) (hq : q < 2 ^ 57) (hs : s < 64) (hne : q ≠ 135107988821114880) :
    val64 (BitVec.ofNat 64 (enc 57 neg q s)) = .fin neg q s := by
  have hlt := enc_lt64 neg q s hq hs
  have hd := dec_enc64 neg q s hq hs
  have hnc : BitVec.ofNat 64 (enc 57 neg q s) ≠ C64 := by
    intro h
    have h' := congrArg BitVec.toNat h
    simp only [BitVec.toNat_ofNat, Nat.mod_eq_of_lt hlt] at h'
    rw [h'] at hd
    have hc : dec 57 C64.toNat = .fin false 135107988821114880 33 := by decide
    rw [hc] at hd
    simp only [Val.fin.injEq] at hd
    exact hne hd.2.1.symm
  simp only [val64, hnc, if_false, BitVec.toNat_ofNat, Nat.mod_eq_of_lt hlt, hd]

theorem ofInt64_val (v : Int) (hv : v.natAbs ≤ 2 ^ 64) : (val64 (ofInt64 v)).toInt? = some (roundInt 53 v) := by
  have hm := roundNat_le64 53 v.natAbs (by decide) (by decide) hv
  obtain ⟨hq, hs⟩ := roundQS_bounds 53 (roundNat 53 v.natAbs) (by decide) hm
  have hq' : (roundQS 53 (roundNat 53 v.natAbs)).1 < 2 ^ 57 := by
    have : (2:Nat) ^ 53 < 2 ^ 57 := by decide
    omega
  have hs' : (roundQS 53 (roundNat 53 v.natAbs)).2 < 64 := by omega
  simp only [ofInt64, ofIntNat, hv, if_true]
  rw [val64_mk _ _ _ hq' hs' (by omega), toInt_fin, roundInt_eq' 53 v (by decide)]

theorem ofInt64_sign (v : Int) : (ofInt64 v).msb = decide (v < 0) := by
  simp only [ofInt64, ofIntNat]
  split
  · rename_i hv
    have hm := roundNat_le64 53 v.natAbs (by decide) (by decide) hv
    obtain ⟨hq, hs⟩ := roundQS_bounds 53 (roundNat 53 v.natAbs) (by decide) hm
    have hq' : (roundQS 53 (roundNat 53 v.natAbs)).1 < 2 ^ 57 := by
      have : (2:Nat) ^ 53 < 2 ^ 57 := by decide
      omega
    exact enc_msb64 _ _ _ hq' (by omega)
  · exact enc_msb64 _ _ _ (by decide) (by decide)

theorem ofInt64_congr (a b : Int) (ha : a.natAbs ≤ 2 ^ 64) (hb : b.natAbs ≤ 2 ^ 64) (hs : a < 0 ↔ b < 0)
    (h : roundInt 53 a = roundInt 53 b) : ofInt64 a = ofInt64 b := by
  have hn : roundNat 53 a.natAbs = roundNat 53 b.natAbs := by
    simp only [roundInt] at h
    by_cases h0 : a < 0
    · have h1 : b < 0 := hs.1 h0
      simp only [h0, h1, if_true] at h; omega
    · have h1 : ¬ b < 0 := fun x => h0 (hs.2 x)
      simp only [h0, h1, if_false] at h; omega
  have hd : decide (a < 0) = decide (b < 0) := by simp [hs]
  simp only [ofInt64, ofIntNat, ha, hb, if_true, hn, hd]

def sub63_64 (a : BitVec 64) : BitVec 64 :=
  if a = C64 then 0#64
  else BitVec.ofNat 64 (enc 57 false (a.toNat % 2 ^ 57 - 2 ^ (63 - a.toNat / 2 ^ 57 % 64)) (a.toNat / 2 ^ 57 % 64))

theorem sub63_64_spec (a : BitVec 64) (t : Int) (ht : (val64 a).trunc? = some t)
    (h1 : 9223372036854775808 ≤ t) (h2 : t < 18446744073709551616) :
    (val64 (sub63_64 a)).trunc? = some (t - 9223372036854775808) := by
  by_cases hc : a = C64
  · subst hc
    have : t = 9223372036854775808 := by
      have : (val64 C64).trunc? = some 9223372036854775808 := by decide
      rw [this] at ht; exact (Option.some.inj ht).symm
    subst this
    decide
  · simp only [val64, hc, if_false] at ht
    obtain ⟨_, hval, _⟩ := dec_sub63 57 a.toNat t ht h1 h2
    have hs : a.toNat / 2 ^ 57 % 64 < 64 := Nat.mod_lt _ (by decide)
    have hqlt : a.toNat % 2 ^ 57 < 2 ^ 57 := Nat.mod_lt _ (by decide)
    have hq : a.toNat % 2 ^ 57 - 2 ^ (63 - a.toNat / 2 ^ 57 % 64) < 2 ^ 57 :=
      Nat.lt_of_le_of_lt (Nat.sub_le _ _) hqlt
    -- the result's q field is below 2^57 − 1 ≥ … and differs from 15·2^53: the value (q−2^(63−s))·2^s is below 2^63
    have hne : a.toNat % 2 ^ 57 - 2 ^ (63 - a.toNat / 2 ^ 57 % 64) ≠ 135107988821114880 := by
      intro he
      rw [he] at hval
      have hp : 1 ≤ 2 ^ (a.toNat / 2 ^ 57 % 64) := Nat.one_le_two_pow
      have : (135107988821114880 * 2 ^ (a.toNat / 2 ^ 57 % 64) : Nat) ≥ 135107988821114880 := Nat.le_mul_of_pos_right _ hp
      -- 15·2^53 ≥ 2^56 would need the minuend ≥ 2^56 + 2^(63−s); with s ≥ 7 … simply: minuend < 2^57 so s ≥ 7, product ≥ 15·2^60 > 2^63
      have hs7 : 7 ≤ a.toNat / 2 ^ 57 % 64 := by
        by_cases h7 : 7 ≤ a.toNat / 2 ^ 57 % 64
        · exact h7
        · exfalso
          have : 2 ^ 57 ≤ 2 ^ (63 - a.toNat / 2 ^ 57 % 64) := Nat.pow_le_pow_right (by omega) (by omega)
          omega
      have : 2 ^ 7 ≤ 2 ^ (a.toNat / 2 ^ 57 % 64) := Nat.pow_le_pow_right (by omega) hs7
      have : 135107988821114880 * 2 ^ 7 ≤ 135107988821114880 * 2 ^ (a.toNat / 2 ^ 57 % 64) := Nat.mul_le_mul_left _ this
      omega
    simp only [sub63_64, hc, if_false]
    rw [val64_mk _ _ _ hq hs hne]
    simp only [Val.trunc?, Val.magTrunc, Bool.false_eq_true, if_false]
    have h0 : (0:Int) ≤ ((a.toNat / 2 ^ 57 % 64 : Nat) : Int) := Int.natCast_nonneg _
    rw [if_pos h0, Int.toNat_natCast, hval]

/-! ### the 80-bit format: q has 73 bits, integers are rounded to 64 significant bits -/

theorem dec_enc80 (neg : Bool) (q s : Nat) (hq : q < 2 ^ 73) (hs : s < 64) : dec 73 (enc 73 neg q s) = .fin neg q s := by
  simp only [dec, enc]
  cases neg <;> simp <;> omega

theorem enc_lt80 (neg : Bool) (q s : Nat) (hq : q < 2 ^ 73) (hs : s < 64) : enc 73 neg q s < 2 ^ 80 := by
  simp only [enc]
  cases neg <;> simp <;> omega

theorem enc_msb80 (neg : Bool) (q s : Nat) (hq : q < 2 ^ 73) (hs : s < 64) : (BitVec.ofNat 80 (enc 73 neg q s)).msb = neg := by
  have := enc_lt80 neg q s hq hs
  simp only [BitVec.msb_eq_decide, BitVec.toNat_ofNat, enc] at *
  cases neg <;> simp <;> omega

def val80 (b : BitVec 80) : Val := dec 73 b.toNat
def ofInt80 (v : Int) : BitVec 80 := BitVec.ofNat 80 (ofIntNat 73 64 v)

theorem ofInt80_val (v : Int) (hv : v.natAbs ≤ 2 ^ 64) : (val80 (ofInt80 v)).toInt? = some (roundInt 64 v) := by
  have hm := roundNat_le64 64 v.natAbs (by decide) (by decide) hv
  obtain ⟨hq, hs⟩ := roundQS_bounds 64 (roundNat 64 v.natAbs) (by decide) hm
  have hq' : (roundQS 64 (roundNat 64 v.natAbs)).1 < 2 ^ 73 := by
    have : (2:Nat) ^ 64 < 2 ^ 73 := by decide
    omega
  have hs' : (roundQS 64 (roundNat 64 v.natAbs)).2 < 64 := by omega
  have hlt := enc_lt80 (decide (v < 0)) _ _ hq' hs'
  simp only [val80, ofInt80, ofIntNat, hv, if_true, BitVec.toNat_ofNat, Nat.mod_eq_of_lt hlt]
  rw [dec_enc80 _ _ _ hq' hs', toInt_fin, roundInt_eq' 64 v (by decide)]

theorem ofInt80_sign (v : Int) : (ofInt80 v).msb = decide (v < 0) := by
  simp only [ofInt80, ofIntNat]
  split
  · rename_i hv
    have hm := roundNat_le64 64 v.natAbs (by decide) (by decide) hv
    obtain ⟨hq, hs⟩ := roundQS_bounds 64 (roundNat 64 v.natAbs) (by decide) hm
    have hq' : (roundQS 64 (roundNat 64 v.natAbs)).1 < 2 ^ 73 := by
      have : (2:Nat) ^ 64 < 2 ^ 73 := by decide
      omega
    exact enc_msb80 _ _ _ hq' (by omega)
  · exact enc_msb80 _ _ _ (by decide) (by decide)

/-- the extended datum of 2^63 that `flds` of `C32` pushes -/
def T80 : BitVec 80 := BitVec.ofNat 80 (enc 73 false 9223372036854775808 0)

/-! ### widening re-encodes exactly (the two special patterns go to the special pattern / the extended 2^63) -/

def cvtss2sd (x : BitVec 32) : BitVec 64 := if x = C32 then C64 else BitVec.ofNat 64 (widen 25 57 x.toNat)
def fld32 (x : BitVec 32) : BitVec 80 := if x = C32 then T80 else BitVec.ofNat 80 (widen 25 73 x.toNat)
def fld64 (x : BitVec 64) : BitVec 80 := if x = C64 then T80 else BitVec.ofNat 80 (widen 57 73 x.toNat)

theorem widen_32_64 (b : BitVec 32) : Val.same (val64 (cvtss2sd b)) (val32 b) = true := by
  by_cases hc : b = C32
  · subst hc; decide
  · have hq : b.toNat % 2 ^ 25 < 2 ^ 57 := by omega
    have hs : b.toNat / 2 ^ 25 % 64 < 64 := by omega
    simp only [cvtss2sd, val32, hc, if_false, widen]
    rw [val64_mk _ _ _ hq hs (by omega)]
    exact same_refl_fin _ _ _

theorem widen_32_80 (b : BitVec 32) : Val.same (val80 (fld32 b)) (val32 b) = true := by
  by_cases hc : b = C32
  · subst hc; decide
  · have hq : b.toNat % 2 ^ 25 < 2 ^ 73 := by omega
    have hs : b.toNat / 2 ^ 25 % 64 < 64 := by omega
    have hlt := enc_lt80 (b.toNat / 2 ^ (25 + 6) % 2 = 1) _ _ hq hs
    simp only [fld32, val80, val32, hc, if_false, widen, BitVec.toNat_ofNat, Nat.mod_eq_of_lt hlt]
    rw [dec_enc80 _ _ _ hq hs]
    exact same_refl_fin _ _ _

theorem widen_64_80 (b : BitVec 64) : Val.same (val80 (fld64 b)) (val64 b) = true := by
  by_cases hc : b = C64
  · subst hc; decide
  · have hq : b.toNat % 2 ^ 57 < 2 ^ 73 := by omega
    have hs : b.toNat / 2 ^ 57 % 64 < 64 := by omega
    have hlt := enc_lt80 (b.toNat / 2 ^ (57 + 6) % 2 = 1) _ _ hq hs
    simp only [fld64, val80, val64, hc, if_false, widen, BitVec.toNat_ofNat, Nat.mod_eq_of_lt hlt]
    rw [dec_enc80 _ _ _ hq hs]
    exact same_refl_fin _ _ _

/-! ### narrowing: the inverse of the widening on its image (elsewhere: the fields re-encoded, q truncated) -/

def fst32 (_cw : BitVec 16) (y : BitVec 80) : BitVec 32 :=
  if y = T80 then C32
  else BitVec.ofNat 32 (enc 25 (y.toNat / 2 ^ (73 + 6) % 2 = 1) (y.toNat % 2 ^ 73 % 2 ^ 25) (y.toNat / 2 ^ 73 % 64))
def fst64 (_cw : BitVec 16) (y : BitVec 80) : BitVec 64 :=
  if y = T80 then C64
  else BitVec.ofNat 64 (enc 57 (y.toNat / 2 ^ (73 + 6) % 2 = 1) (y.toNat % 2 ^ 73 % 2 ^ 57) (y.toNat / 2 ^ 73 % 64))

theorem T80_fields : dec 73 T80.toNat = .fin false 9223372036854775808 0 := by decide

/-- the fields of an encoded datum, as numbers -/
theorem enc_fields80 (neg : Bool) (q s : Nat) (hq : q < 2 ^ 73) (hs : s < 64) :
    enc 73 neg q s % 2 ^ 73 = q ∧ enc 73 neg q s / 2 ^ 73 % 64 = s ∧ (enc 73 neg q s / 2 ^ (73 + 6) % 2 = 1 ↔ neg = true) := by
  simp only [enc]
  cases neg <;> simp <;> omega

theorem narrow32 (x : Nat) (hx : x < 2 ^ 32) (w : Nat) (neg : Bool) (hneg : neg = decide (x / 2 ^ (25 + 6) % 2 = 1))
    (f1 : w % 2 ^ 73 = x % 2 ^ 25) (f2 : w / 2 ^ 73 % 64 = x / 2 ^ 25 % 64) (f3 : w / 2 ^ (73 + 6) % 2 = 1 ↔ neg = true) :
    enc 25 (decide (w / 2 ^ (73 + 6) % 2 = 1)) (w % 2 ^ 73 % 2 ^ 25) (w / 2 ^ 73 % 64) = x := by
  rw [f1, f2]
  have hd : decide (w / 2 ^ (73 + 6) % 2 = 1) = neg := by cases neg <;> simp_all
  rw [hd, hneg]
  simp only [enc]
  by_cases h : x / 2 ^ (25 + 6) % 2 = 1 <;> simp [h] <;> omega

theorem narrow64 (x : Nat) (hx : x < 2 ^ 64) (w : Nat) (neg : Bool) (hneg : neg = decide (x / 2 ^ (57 + 6) % 2 = 1))
    (f1 : w % 2 ^ 73 = x % 2 ^ 57) (f2 : w / 2 ^ 73 % 64 = x / 2 ^ 57 % 64) (f3 : w / 2 ^ (73 + 6) % 2 = 1 ↔ neg = true) :
    enc 57 (decide (w / 2 ^ (73 + 6) % 2 = 1)) (w % 2 ^ 73 % 2 ^ 57) (w / 2 ^ 73 % 64) = x := by
  rw [f1, f2]
  have hd : decide (w / 2 ^ (73 + 6) % 2 = 1) = neg := by cases neg <;> simp_all
  rw [hd, hneg]
  simp only [enc]
  by_cases h : x / 2 ^ (57 + 6) % 2 = 1 <;> simp [h] <;> omega

theorem fst32_fld32 (cw : BitVec 16) (x : BitVec 32) : fst32 cw (fld32 x) = x := by
  by_cases hc : x = C32
  · subst hc; rfl
  · have hq : x.toNat % 2 ^ 25 < 2 ^ 73 := by omega
    have hs : x.toNat / 2 ^ 25 % 64 < 64 := by omega
    have hlt := enc_lt80 (x.toNat / 2 ^ (25 + 6) % 2 = 1) _ _ hq hs
    have hd := dec_enc80 (x.toNat / 2 ^ (25 + 6) % 2 = 1) _ _ hq hs
    obtain ⟨f1, f2, f3⟩ := enc_fields80 (x.toNat / 2 ^ (25 + 6) % 2 = 1) _ _ hq hs
    have hne : BitVec.ofNat 80 (widen 25 73 x.toNat) ≠ T80 := by
      intro h
      have h' := congrArg (fun b => dec 73 b.toNat) h
      simp only [widen, BitVec.toNat_ofNat, Nat.mod_eq_of_lt hlt, hd, T80_fields, Val.fin.injEq] at h'
      omega
    have hn := narrow32 x.toNat x.isLt _ _ rfl f1 f2 f3
    unfold fld32 fst32
    rw [if_neg hc, if_neg hne]
    simp only [widen, BitVec.toNat_ofNat, Nat.mod_eq_of_lt hlt]
    rw [hn]
    exact BitVec.eq_of_toNat_eq (by simp)

theorem fst64_fld64 (cw : BitVec 16) (x : BitVec 64) : fst64 cw (fld64 x) = x := by
  by_cases hc : x = C64
  · subst hc; rfl
  · have hq : x.toNat % 2 ^ 57 < 2 ^ 73 := by omega
    have hs : x.toNat / 2 ^ 57 % 64 < 64 := by omega
    have hlt := enc_lt80 (x.toNat / 2 ^ (57 + 6) % 2 = 1) _ _ hq hs
    have hd := dec_enc80 (x.toNat / 2 ^ (57 + 6) % 2 = 1) _ _ hq hs
    obtain ⟨f1, f2, f3⟩ := enc_fields80 (x.toNat / 2 ^ (57 + 6) % 2 = 1) _ _ hq hs
    have hne : BitVec.ofNat 80 (widen 57 73 x.toNat) ≠ T80 := by
      intro h
      have h' := congrArg (fun b => dec 73 b.toNat) h
      simp only [widen, BitVec.toNat_ofNat, Nat.mod_eq_of_lt hlt, hd, T80_fields, Val.fin.injEq] at h'
      omega
    have hn := narrow64 x.toNat x.isLt _ _ rfl f1 f2 f3
    unfold fld64 fst64
    rw [if_neg hc, if_neg hne]
    simp only [widen, BitVec.toNat_ofNat, Nat.mod_eq_of_lt hlt]
    rw [hn]
    exact BitVec.eq_of_toNat_eq (by simp)

/-! ### the constrained arithmetic -/

/-- `x + x`: exact doubling of an integer datum -/
def addss (a b : BitVec 32) : BitVec 32 :=
  if a = b then (match (val32 a).toInt? with | some i => ofInt32 (2 * i) | none => a) else a
def addsd (a b : BitVec 64) : BitVec 64 :=
  if a = b then (match (val64 a).toInt? with | some i => ofInt64 (2 * i) | none => a) else a

theorem addss_double (k : Int) (hk : k.natAbs < 2 ^ 63) : addss (ofInt32 k) (ofInt32 k) = ofInt32 (2 * roundInt 24 k) := by
  simp only [addss, if_true, ofInt32_val k (by omega)]

theorem addsd_double (k : Int) (hk : k.natAbs < 2 ^ 63) : addsd (ofInt64 k) (ofInt64 k) = ofInt64 (2 * roundInt 53 k) := by
  simp only [addsd, if_true, ofInt64_val k (by omega)]

def subss (a b : BitVec 32) : BitVec 32 := if b = C32 then sub63_32 a else a
def subsd (a b : BitVec 64) : BitVec 64 := if b = C64 then sub63_64 a else a

/-- x87 `st − 2^63` and `st + 2^64` on integer data (the toy has one precision: the control word is ignored) -/
def fsub (_cw : BitVec 16) (a b : BitVec 80) : BitVec 80 :=
  if b = T80 then (match (val80 a).trunc? with | some t => ofInt80 (t - 9223372036854775808) | none => a) else a
def fadd (_cw : BitVec 16) (a b : BitVec 80) : BitVec 80 :=
  if b = fld32 0x5f800000#32 then (match (val80 a).toInt? with | some i => ofInt80 (i + 18446744073709551616) | none => a) else a

theorem fsub_two63 (cw : BitVec 16) (a : BitVec 80) (t : Int) (ht : (val80 a).trunc? = some t)
    (h1 : 9223372036854775808 ≤ t) (h2 : t < 18446744073709551616) :
    (val80 (fsub cw a (fld32 0x5f000000#32))).trunc? = some (t - 9223372036854775808) := by
  have hb : fld32 0x5f000000#32 = T80 := by decide
  simp only [fsub, hb, if_true, ht]
  apply trunc_of_toInt
  rw [ofInt80_val _ (by omega), roundInt_small 64 _ (by omega)]

theorem fadd_two64 (cw : BitVec 16) (v : Int) (h1 : 9223372036854775808 ≤ v) (h2 : v < 18446744073709551616) :
    fadd cw (ofInt80 (v - 18446744073709551616)) (fld32 0x5f800000#32) = ofInt80 v := by
  simp only [fadd, if_true, ofInt80_val _ (show (v - 18446744073709551616).natAbs ≤ 2 ^ 64 by omega),
    roundInt_small 64 (v - 18446744073709551616) (by omega)]
  congr 1; omega

/-- **the toy FPU** -/
def toy : FpuSpec where
  val32 := val32
  val64 := val64
  val80 := val80
  addss := addss
  subss := subss
  mulss := fun a _ => a
  divss := fun a _ => a
  addsd := addsd
  subsd := subsd
  mulsd := fun a _ => a
  divsd := fun a _ => a
  fadd := fadd
  fsub := fsub
  fmul := fun _ a _ => a
  fdiv := fun _ a _ => a
  fchs := fun x => x ^^^ (1#80 <<< 79)
  fldz := 0#80
  cvtsi2ss32 := fun x => ofInt32 x.toInt
  cvtsi2ss64 := fun x => ofInt32 x.toInt
  cvtsi2sd32 := fun x => ofInt64 x.toInt
  cvtsi2sd64 := fun x => ofInt64 x.toInt
  fild16 := fun x => ofInt80 x.toInt
  fild32 := fun x => ofInt80 x.toInt
  fild64 := fun x => ofInt80 x.toInt
  ofInt32 := ofInt32
  ofInt64 := ofInt64
  ofInt80 := ofInt80
  cvttss2si32 := fun x => truncTo 32 (val32 x)
  cvttss2si64 := fun x => truncTo 64 (val32 x)
  cvttsd2si32 := fun x => truncTo 32 (val64 x)
  cvttsd2si64 := fun x => truncTo 64 (val64 x)
  fistp16 := fun _ x => truncTo 16 (val80 x)
  fistp32 := fun _ x => truncTo 32 (val80 x)
  fistp64 := fun _ x => truncTo 64 (val80 x)
  cvtss2sd := cvtss2sd
  cvtsd2ss := fun _ => 0#32
  fld32 := fld32
  fld64 := fld64
  fst32 := fst32
  fst64 := fst64
  ucomiss := fun a b => Val.cmp (val32 a) (val32 b)
  ucomisd := fun a b => Val.cmp (val64 a) (val64 b)
  fcomi := fun a b => Val.cmp (val80 a) (val80 b)
  comiss := fun a b => Val.cmp (val32 a) (val32 b)
  comisd := fun a b => Val.cmp (val64 a) (val64 b)
  val32_zero := by decide
  val64_zero := by decide
  val80_fldz := by decide
  ucomiss_spec := fun _ _ => rfl
  ucomisd_spec := fun _ _ => rfl
  fcomi_spec := fun _ _ => rfl
  cvttss2si32_spec := fun _ => rfl
  cvttss2si64_spec := fun _ => rfl
  cvttsd2si32_spec := fun _ => rfl
  cvttsd2si64_spec := fun _ => rfl
  fistp16_rz := fun _ _ _ => rfl
  fistp32_rz := fun _ _ _ => rfl
  fistp64_rz := fun _ _ _ => rfl
  cvtsi2ss32_spec := fun _ => rfl
  cvtsi2ss64_spec := fun _ => rfl
  cvtsi2sd32_spec := fun _ => rfl
  cvtsi2sd64_spec := fun _ => rfl
  fild16_spec := fun _ => rfl
  fild32_spec := fun _ => rfl
  fild64_spec := fun _ => rfl
  ofInt32_val := ofInt32_val
  ofInt64_val := ofInt64_val
  ofInt80_val := ofInt80_val
  ofInt32_sign := ofInt32_sign
  ofInt64_sign := ofInt64_sign
  ofInt80_sign := ofInt80_sign
  cvtss2sd_exact := widen_32_64
  fld32_exact := widen_32_80
  fld64_exact := widen_64_80
  fchs_spec := fun _ => rfl
  fst32_fld32 := fun cw x _ => fst32_fld32 cw x
  fst64_fld64 := fun cw x _ => fst64_fld64 cw x
  comiss_spec := fun _ _ => rfl
  comisd_spec := fun _ _ => rfl
  val32_two63 := by decide
  val64_two63 := by decide
  val80_two63 := by decide
  subss_two63 := fun a t ht h1 h2 => by
    show (val32 (subss a 0x5f000000#32)).trunc? = _
    simp only [subss, show (0x5f000000#32 : BitVec 32) = C32 from rfl, if_true]
    exact sub63_32_spec a t ht h1 h2
  subsd_two63 := fun a t ht h1 h2 => by
    show (val64 (subsd a 0x43e0000000000000#64)).trunc? = _
    simp only [subsd, show (0x43e0000000000000#64 : BitVec 64) = C64 from rfl, if_true]
    exact sub63_64_spec a t ht h1 h2
  fsub_two63 := fun cw a t _ ht h1 h2 => fsub_two63 cw a t ht h1 h2
  fadd_two64 := fun cw v _ h1 h2 => fadd_two64 cw v h1 h2
  addss_double := addss_double
  addsd_double := addsd_double
  ofInt32_congr := ofInt32_congr
  ofInt64_congr := ofInt64_congr

end ChibiVerif.Spec.Fpu.Toy
