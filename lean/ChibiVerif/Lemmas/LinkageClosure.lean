/-
Helper lemmas for C15_symbols_partial: the Spec's executable closure `closeRounds` (as many rounds as there are
function names) computes the reflexive-transitive closure of its seed set.
-/
import ChibiVerif.Spec.LinkageSpec

namespace ChibiVerif.Linkage
open ChibiVerif.Spec.Linkage

variable [Rules]

/-- reachability through `succ` -/
inductive ReachS (succ : Name → List Name) : Name → Name → Prop where
  | refl {a} : ReachS succ a a
  | step {a b c} : ReachS succ a b → c ∈ succ b → ReachS succ a c

def ClosedL (succ : Name → List Name) (s : List Name) : Prop := ∀ x, x ∈ s → ∀ y, y ∈ succ x → y ∈ s

def newOnes (succ : Name → List Name) (s : List Name) : List Name := (s.flatMap succ).filter (fun x => !s.contains x)

omit [Rules] in
theorem closeRounds_succ (succ : Name → List Name) (n : Nat) (s : List Name) :
    closeRounds succ (n + 1) s = closeRounds succ n (s ++ newOnes succ s) := rfl

omit [Rules] in
theorem mem_newOnes {succ : Name → List Name} {s : List Name} {y : Name} :
    y ∈ newOnes succ s ↔ (∃ x, x ∈ s ∧ y ∈ succ x) ∧ y ∉ s := by
  simp [newOnes, List.mem_filter, List.mem_flatMap]

omit [Rules] in
theorem closeRounds_sub (succ : Name → List Name) : ∀ (n : Nat) (s : List Name) (x : Name), x ∈ s → x ∈ closeRounds succ n s
  | 0, _, _, h => h
  | n + 1, s, x, h => by
    rw [closeRounds_succ]
    exact closeRounds_sub succ n _ x (List.mem_append_left _ h)

omit [Rules] in
theorem closeRounds_sound (succ : Name → List Name) : ∀ (n : Nat) (s : List Name) (x : Name), x ∈ closeRounds succ n s →
    ∃ r, r ∈ s ∧ ReachS succ r x
  | 0, _, x, h => ⟨x, h, ReachS.refl⟩
  | n + 1, s, x, h => by
    rw [closeRounds_succ] at h
    obtain ⟨r, hr, hreach⟩ := closeRounds_sound succ n _ x h
    rcases List.mem_append.mp hr with hr | hr
    · exact ⟨r, hr, hreach⟩
    · obtain ⟨⟨x0, hx0, hy⟩, _⟩ := mem_newOnes.mp hr
      refine ⟨x0, hx0, ?_⟩
      -- prepend the edge x0 → r
      have pre : ∀ {a b}, ReachS succ a b → a = r → ReachS succ x0 b := by
        intro a b hab
        induction hab with
        | refl => intro e; subst e; exact ReachS.step ReachS.refl hy
        | step _ hm ih => intro e; exact ReachS.step (ih e) hm
      exact pre hreach rfl

omit [Rules] in
theorem closed_of_newOnes_nil {succ : Name → List Name} {s : List Name} (h : newOnes succ s = []) : ClosedL succ s := by
  intro x hx y hy
  by_cases hys : y ∈ s
  · exact hys
  · have : y ∈ newOnes succ s := mem_newOnes.mpr ⟨⟨x, hx, hy⟩, hys⟩
    rw [h] at this; cases this

omit [Rules] in
theorem newOnes_nil_of_closed {succ : Name → List Name} {s : List Name} (h : ClosedL succ s) : newOnes succ s = [] := by
  rw [List.eq_nil_iff_forall_not_mem]
  intro y hy
  obtain ⟨⟨x, hx, hxy⟩, hn⟩ := mem_newOnes.mp hy
  exact hn (h x hx y hxy)

omit [Rules] in
theorem closeRounds_of_closed {succ : Name → List Name} : ∀ (n : Nat) {s : List Name}, ClosedL succ s → closeRounds succ n s = s
  | 0, _, _ => rfl
  | n + 1, s, h => by
    rw [closeRounds_succ, newOnes_nil_of_closed h, List.append_nil]
    exact closeRounds_of_closed n h

omit [Rules] in
theorem filter_length_lt {p p' : Name → Bool} (himp : ∀ x, p' x = true → p x = true) : ∀ (l : List Name) (y : Name),
    y ∈ l → p y = true → p' y = false → (l.filter p').length < (l.filter p).length
  | [], _, h, _, _ => by cases h
  | a :: as, y, h, hp, hp' => by
    have hle : ∀ l : List Name, (l.filter p').length ≤ (l.filter p).length := by
      intro l
      induction l with
      | nil => exact Nat.le_refl _
      | cons b bs ih =>
        simp only [List.filter_cons]
        cases hb' : p' b
        · cases hb : p b <;> simp <;> omega
        · simp [himp b hb', ih]
    rcases List.mem_cons.mp h with rfl | h
    · simp only [List.filter_cons, hp, hp', if_true, Bool.false_eq_true, if_false, List.length_cons]
      have := hle as
      omega
    · have ih := filter_length_lt himp as y h hp hp'
      simp only [List.filter_cons]
      cases ha' : p' a
      · cases ha : p a <;> simp <;> omega
      · simp [himp a ha', ih]

omit [Rules] in
/-- after at least as many rounds as there are names outside the seed set, nothing new can be added -/
theorem closeRounds_closed (succ : Name → List Name) (U : List Name) (hU : ∀ x, x ∈ U → ∀ y, y ∈ succ x → y ∈ U) :
    ∀ (n : Nat) (s : List Name), (∀ x, x ∈ s → x ∈ U) → (U.filter (fun x => !s.contains x)).length ≤ n →
      ClosedL succ (closeRounds succ n s)
  | 0, s, hs, hm => by
    intro x hx y hy
    have hyU : y ∈ U := hU x (hs x hx) y hy
    have h0 : U.filter (fun x => !s.contains x) = [] := List.length_eq_zero_iff.mp (Nat.le_zero.mp hm)
    rw [List.filter_eq_nil_iff] at h0
    have := h0 y hyU
    show y ∈ s
    simpa using this
  | n + 1, s, hs, hm => by
    by_cases hnew : newOnes succ s = []
    · rw [closeRounds_of_closed _ (closed_of_newOnes_nil hnew)]
      exact closed_of_newOnes_nil hnew
    · rw [closeRounds_succ]
      obtain ⟨y, hy⟩ := List.exists_mem_of_ne_nil _ hnew
      obtain ⟨⟨x, hx, hxy⟩, hys⟩ := mem_newOnes.mp hy
      have hyU : y ∈ U := hU x (hs x hx) y hxy
      apply closeRounds_closed succ U hU n
      · intro z hz
        rcases List.mem_append.mp hz with hz | hz
        · exact hs z hz
        · obtain ⟨⟨x', hx', hxz⟩, _⟩ := mem_newOnes.mp hz
          exact hU x' (hs x' hx') z hxz
      · have hlt := filter_length_lt (p := fun x => !s.contains x) (p' := fun x => !(s ++ newOnes succ s).contains x)
          (by intro z hz; simp only [Bool.not_eq_true', List.contains_eq_mem, List.mem_append, decide_eq_false_iff_not, not_or] at hz ⊢
              simpa using hz.1)
          U y hyU (by simpa using hys) (by simp [hy])
        omega

omit [Rules] in
theorem reachS_in_closed {succ : Name → List Name} {t : List Name} (hc : ClosedL succ t) {r x : Name} (hr : r ∈ t)
    (h : ReachS succ r x) : x ∈ t := by
  induction h with
  | refl => exact hr
  | step _ hm ih => exact hc _ ih _ hm

omit [Rules] in
/-- **`closeRounds` with enough rounds is the closure.** -/
theorem mem_closeRounds_iff (succ : Name → List Name) (U s : List Name) (hU : ∀ x, x ∈ U → ∀ y, y ∈ succ x → y ∈ U)
    (hs : ∀ x, x ∈ s → x ∈ U) (x : Name) :
    x ∈ closeRounds succ U.length s ↔ ∃ r, r ∈ s ∧ ReachS succ r x := by
  constructor
  · exact closeRounds_sound succ _ s x
  · rintro ⟨r, hr, hreach⟩
    exact reachS_in_closed (closeRounds_closed succ U hU U.length s hs (List.length_filter_le _ _))
      (closeRounds_sub succ _ s r hr) hreach

omit [Rules] in
theorem reachS_of_no_succ {succ : Name → List Name} {r x : Name} (h0 : succ r = []) (h : ReachS succ r x) : x = r := by
  induction h with
  | refl => rfl
  | step _ hm ih => rw [ih, h0] at hm; cases hm

end ChibiVerif.Linkage
