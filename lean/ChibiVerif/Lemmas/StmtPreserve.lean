/-
C03 — forward simulation: every statement form, by induction on the fuel of `Spec.exec`.
-/
import ChibiVerif.Lemmas.StmtSim

set_option linter.unusedSimpArgs false
namespace ChibiVerif.Ctl
open ChibiVerif.Spec.Ctl

theorem sim_succ (ω : Nat → Val) (n : Nat) (IH : ∀ m, m ≤ n → SimStmt ω m) : SimStmt ω (n + 1) := by
  unfold SimStmt
  intro st σ P p c0 b ct hcode hu hb HB HC HR
  cases st with
  | skip =>
    simp only [erase, exec, genStmt, List.length_nil, Nat.add_zero]
    exact Runs.refl ω P _
  | marker k =>
    simp only [erase, exec, genStmt, List.length_singleton]
    exact Runs.callM hcode.head
  | block s =>
    simp only [erase, exec, genStmt]
    exact IH n (Nat.le_refl _) s σ P p c0 b ct hcode hu hb HB HC HR
  | seq x y =>
    simp only [erase, exec, genStmt, List.length_append] at hcode ⊢
    have hx := IH n (Nat.le_refl _) x σ P p c0 b ct hcode.left hu hb.1 HB HC HR
    cases hr : exec ω n (erase x) σ with
    | unsupported => trivial
    | timeout σ' => rw [hr] at hx; exact hx
    | done o σ1 =>
      rw [hr] at hx
      cases o with
      | normal =>
        have hy := IH n (Nat.le_refl _) y σ1 P (p + (genStmt x c0).1.length) (genStmt x c0).2 b ct hcode.right hu hb.2 HB HC HR
        rw [Nat.add_assoc] at hy
        exact SimRes.prepend hx hy
      | brk => exact hx
      | cont => exact hx
      | ret => exact hx
  | ret =>
    simp only [erase, exec, genStmt] at hcode ⊢
    obtain ⟨q, hq⟩ := HR
    exact ⟨q, hq, Runs.jmp hcode.head (findLabel_of_unique hu hq)⟩
  | goto_ k t =>
    cases k with
    | brk =>
      simp only [erase, exec, genStmt] at hcode ⊢
      obtain ⟨q, hq⟩ := HB t hb
      exact ⟨t, q, hb, hq, Runs.jmp hcode.head (findLabel_of_unique hu hq)⟩
    | cont =>
      simp only [erase, exec, genStmt] at hcode ⊢
      obtain ⟨q, hq⟩ := HC t hb
      exact ⟨t, q, hb, hq, Runs.jmp hcode.head (findLabel_of_unique hu hq)⟩
    | user l => simp only [erase, exec]; trivial
  | gotoN l => simp only [erase, exec]; trivial
  | gotoVal l t => simp only [erase, exec]; trivial
  | gotoValN l => simp only [erase, exec]; trivial
  | case_ l lo hi s =>
    simp only [erase, exec, genStmt, List.length_cons] at hcode ⊢
    have h1 := IH n (Nat.le_refl _) s σ P (p + 1) c0 b ct hcode.tail hu hb HB HC HR
    rw [show p + 1 + (genStmt s c0).1.length = p + ((genStmt s c0).1.length + 1) by omega] at h1
    exact SimRes.prepend (Runs.label hcode.head) h1
  | default_ l s =>
    simp only [erase, exec, genStmt, List.length_cons] at hcode ⊢
    have h1 := IH n (Nat.le_refl _) s σ P (p + 1) c0 b ct hcode.tail hu hb HB HC HR
    rw [show p + 1 + (genStmt s c0).1.length = p + ((genStmt s c0).1.length + 1) by omega] at h1
    exact SimRes.prepend (Runs.label hcode.head) h1
  | label l u s =>
    simp only [erase, exec, genStmt, List.length_cons] at hcode ⊢
    have h1 := IH n (Nat.le_refl _) s σ P (p + 1) c0 b ct hcode.tail hu hb HB HC HR
    rw [show p + 1 + (genStmt s c0).1.length = p + ((genStmt s c0).1.length + 1) by omega] at h1
    exact SimRes.prepend (Runs.label hcode.head) h1
  | ifte k t e =>
    simp only [erase, exec, genStmt] at hcode ⊢
    -- code layout
    have hT : CodeAt P p [.call (.c k), cmpZero, .je (.else_ c0)] := hcode.left.left.left.left
    have hX : CodeAt P (p + 3) (genStmt t (c0 + 1)).1 := hcode.left.left.left.right
    have hJ : CodeAt P (p + 3 + (genStmt t (c0 + 1)).1.length) [.jmp (.end_ c0), .label (.else_ c0)] :=
      hcode.left.left.right.cast (by simp only [List.length_append, List.length_cons, List.length_nil]; omega)
    have hY : CodeAt P (p + 3 + (genStmt t (c0 + 1)).1.length + 2) (genStmt e (genStmt t (c0 + 1)).2).1 :=
      hcode.left.right.cast (by simp only [List.length_append, List.length_cons, List.length_nil]; omega)
    have hE : CodeAt P (p + 3 + (genStmt t (c0 + 1)).1.length + 2 + (genStmt e (genStmt t (c0 + 1)).2).1.length)
        [.label (.end_ c0)] :=
      hcode.right.cast (by simp only [List.length_append, List.length_cons, List.length_nil]; omega)
    have hlen : ([CIns.call (Event.c k), cmpZero, CIns.je (Lbl.else_ c0)] ++ (genStmt t (c0 + 1)).1 ++
        [CIns.jmp (Lbl.end_ c0), CIns.label (Lbl.else_ c0)] ++ (genStmt e (genStmt t (c0 + 1)).2).1 ++
        [CIns.label (Lbl.end_ c0)]).length =
        3 + (genStmt t (c0 + 1)).1.length + 2 + (genStmt e (genStmt t (c0 + 1)).2).1.length + 1 := by
      simp only [List.length_append, List.length_cons, List.length_nil]
    rw [hlen]
    generalize hlx : (genStmt t (c0 + 1)).1.length = lx at *
    generalize hly : (genStmt e (genStmt t (c0 + 1)).2).1.length = ly at *
    have hElse : P[p + 3 + lx + 1]? = some (.label (.else_ c0)) := by
      have := hJ.get 1 (by simp); simpa using this
    have hEnd : P[p + 3 + lx + 2 + ly]? = some (.label (.end_ c0)) := hE.head
    have hJmp : P[p + 3 + lx]? = some (.jmp (.end_ c0)) := hJ.head
    have hTest := Runs.testJe (ω := ω) (σ := σ) hT (findLabel_of_unique hu hElse)
    -- the tail after either branch: to the end label and over it
    have hTailEnd : ∀ σ', Runs ω P (p + 3 + lx + 2 + ly, σ') (p + (3 + lx + 2 + ly + 1), σ') := by
      intro σ'
      have := Runs.label (ω := ω) (σ := σ') hEnd
      rwa [show p + 3 + lx + 2 + ly + 1 = p + (3 + lx + 2 + ly + 1) by omega] at this
    by_cases htr : truth (σ.call ω (.c k)).1 = true
    · simp only [htr, if_true] at hTest ⊢
      have hx := IH n (Nat.le_refl _) t (σ.call ω (.c k)).2 P (p + 3) (c0 + 1) b ct hX hu hb.1 HB HC HR
      rw [hlx] at hx
      refine SimRes.prepend hTest (SimRes.extend ?_ hx)
      intro σ'
      exact (Runs.jmp hJmp (findLabel_of_unique hu hEnd)).trans (hTailEnd σ')
    · simp only [htr] at hTest ⊢
      have hy := IH n (Nat.le_refl _) e (σ.call ω (.c k)).2 P (p + 3 + lx + 2) (genStmt t (c0 + 1)).2 b ct hY hu hb.2 HB HC HR
      rw [hly] at hy
      refine SimRes.prepend (hTest.trans ?_) (SimRes.extend hTailEnd hy)
      have := Runs.label (ω := ω) (σ := (σ.call ω (.c k)).2) hElse
      rwa [show p + 3 + lx + 1 + 1 = p + 3 + lx + 2 by omega] at this
  | for_ i cnd inc brk cont body =>
    cases i with
    | some i =>
      simp only [erase, exec]
      have hre : (genStmt (.for_ (some i) cnd inc brk cont body) c0).1 =
          [.call (.m i)] ++ (genStmt (.for_ none cnd inc brk cont body) c0).1 := by
        simp [genStmt, callOpt, List.append_assoc]
      rw [hre] at hcode ⊢
      have h1 := IH n (Nat.le_refl _) (.for_ none cnd inc brk cont body) (σ.emit (.m i)) P (p + 1) c0 b ct
        hcode.right hu hb HB HC HR
      simp only [erase] at h1
      rw [List.length_append, List.length_singleton,
        show p + (1 + (genStmt (.for_ none cnd inc brk cont body) c0).1.length) =
          p + 1 + (genStmt (.for_ none cnd inc brk cont body) c0).1.length by omega]
      exact SimRes.prepend (Runs.callM hcode.left.head) h1
    | none =>
      have hself := fun σ' => IH n (Nat.le_refl _) (.for_ none cnd inc brk cont body) σ' P p c0 b ct hcode hu hb HB HC HR
      simp only [erase] at hself
      simp only [erase, exec]
      -- layout
      have hgen : (genStmt (.for_ none cnd inc brk cont body) c0).1 =
          [.label (.begin_ c0)] ++ (match cnd with
            | some k => [.call (.c k), cmpZero, .je (.u brk)]
            | none => []) ++ (genStmt body (c0 + 1)).1 ++ [.label (.u cont)] ++ callOpt inc ++
            [.jmp (.begin_ c0), .label (.u brk)] := by
        cases cnd <;> simp [genStmt, callOpt]
      rw [hgen] at hcode hself ⊢
      generalize hcc : (match cnd with
            | some k => [CIns.call (Event.c k), cmpZero, CIns.je (Lbl.u brk)]
            | none => []) = cc at *
      have hBegin : P[p]? = some (.label (.begin_ c0)) := hcode.left.left.left.left.left.head
      have hCC : CodeAt P (p + 1) cc := hcode.left.left.left.left.right
      have hX : CodeAt P (p + 1 + cc.length) (genStmt body (c0 + 1)).1 :=
        hcode.left.left.left.right.cast (by simp only [List.length_append, List.length_cons, List.length_nil]; omega)
      have hCont : P[p + 1 + cc.length + (genStmt body (c0 + 1)).1.length]? = some (.label (.u cont)) :=
        (hcode.left.left.right.cast (by simp only [List.length_append, List.length_cons, List.length_nil]; omega)).head
      have hInc : CodeAt P (p + 1 + cc.length + (genStmt body (c0 + 1)).1.length + 1) (callOpt inc) :=
        hcode.left.right.cast (by simp only [List.length_append, List.length_cons, List.length_nil]; omega)
      have hTail : CodeAt P (p + 1 + cc.length + (genStmt body (c0 + 1)).1.length + 1 + (callOpt inc).length)
          [.jmp (.begin_ c0), .label (.u brk)] :=
        hcode.right.cast (by simp only [List.length_append, List.length_cons, List.length_nil]; omega)
      have hlen : ([CIns.label (Lbl.begin_ c0)] ++ cc ++ (genStmt body (c0 + 1)).1 ++ [CIns.label (Lbl.u cont)] ++
          callOpt inc ++ [CIns.jmp (Lbl.begin_ c0), CIns.label (Lbl.u brk)]).length =
          1 + cc.length + (genStmt body (c0 + 1)).1.length + 1 + (callOpt inc).length + 2 := by
        simp only [List.length_append, List.length_cons, List.length_nil]
      rw [hlen] at hself ⊢
      generalize hlx : (genStmt body (c0 + 1)).1.length = lx at *
      generalize hlc : cc.length = lc at *
      generalize hli : (callOpt inc).length = li at *
      have hBrk : P[p + 1 + lc + lx + 1 + li + 1]? = some (.label (.u brk)) := by
        have := hTail.get 1 (by simp); simpa using this
      have hJmp : P[p + 1 + lc + lx + 1 + li]? = some (.jmp (.begin_ c0)) := hTail.head
      have hStart : Runs ω P (p, σ) (p + 1, σ) := Runs.label hBegin
      have hExit : ∀ σ', Runs ω P (p + 1 + lc + lx + 1 + li + 1, σ') (p + (1 + lc + lx + 1 + li + 2), σ') := by
        intro σ'
        have := Runs.label (ω := ω) (σ := σ') hBrk
        rwa [show p + 1 + lc + lx + 1 + li + 1 + 1 = p + (1 + lc + lx + 1 + li + 2) by omega] at this
      -- from the continue label back to the loop head
      have hBack : ∀ σ', Runs ω P (p + 1 + lc + lx, σ') (p, σ'.emitOpt inc) := by
        intro σ'
        have h1 := Runs.label (ω := ω) (σ := σ') hCont
        have h3 := fun σ'' => Runs.jmp (ω := ω) (σ := σ'') hJmp (findLabel_of_unique hu hBegin)
        cases inc with
        | none =>
          simp only [callOpt, List.length_nil] at hli
          subst hli
          exact h1.trans (h3 _)
        | some j =>
          simp only [callOpt, List.length_singleton] at hli
          subst hli
          have h2 := Runs.callM (ω := ω) (σ := σ') hInc.head
          exact h1.trans (h2.trans (h3 _))
      -- one execution of the body followed by the rest of the loop
      have hGo : ∀ σ1, SimRes ω P b ct (p + 1 + lc) (p + (1 + lc + lx + 1 + li + 2)) σ1
          (match exec ω n (erase body) σ1 with
            | .done .normal σ2 => exec ω n (.for_ none cnd inc (erase body)) (σ2.emitOpt inc)
            | .done .cont σ2 => exec ω n (.for_ none cnd inc (erase body)) (σ2.emitOpt inc)
            | .done .brk σ2 => .done .normal σ2
            | r => r) := by
        intro σ1
        have hbody := IH n (Nat.le_refl _) body σ1 P (p + 1 + lc) (c0 + 1) (some brk) (some cont) hX hu hb
          (fun bl h => by cases h; exact ⟨_, hBrk⟩) (fun cl h => by cases h; exact ⟨_, hCont⟩) HR
        rw [hlx] at hbody
        cases hr : exec ω n (erase body) σ1 with
        | unsupported => trivial
        | timeout σ' => rw [hr] at hbody; exact hbody
        | done o σ2 =>
          rw [hr] at hbody
          cases o with
          | normal => exact SimRes.prepend (Runs.trans hbody (hBack σ2)) (hself _)
          | cont =>
            obtain ⟨cl, q, hcl, hq, hrun⟩ := hbody
            cases hcl
            have : q = p + 1 + lc + lx := hu _ _ _ hq hCont
            subst this
            exact SimRes.prepend (Runs.trans hrun (hBack σ2)) (hself _)
          | brk =>
            obtain ⟨bl, q, hbl, hq, hrun⟩ := hbody
            cases hbl
            have : q = p + 1 + lc + lx + 1 + li + 1 := hu _ _ _ hq hBrk
            subst this
            exact Runs.trans hrun (hExit σ2)
          | ret => exact hbody
      cases cnd with
      | none =>
        simp only at hcc
        subst hcc
        simp only [List.length_nil] at hlc
        subst hlc
        exact SimRes.prepend hStart (hGo σ)
      | some k =>
        simp only at hcc
        subst hcc
        simp only [List.length_cons, List.length_nil] at hlc
        subst hlc
        have hTest := Runs.testJe (ω := ω) (σ := σ) hCC (findLabel_of_unique hu hBrk)
        by_cases htr : truth (σ.call ω (.c k)).1 = true
        · simp only [htr, if_true] at hTest ⊢
          exact SimRes.prepend (hStart.trans hTest) (hGo _)
        · simp only [htr] at hTest ⊢
          exact (hStart.trans hTest).trans (hExit _)
  | doWhile brk cont body k =>
    have hself := fun σ' => IH n (Nat.le_refl _) (.doWhile brk cont body k) σ' P p c0 b ct hcode hu hb HB HC HR
    simp only [erase] at hself
    simp only [erase, exec]
    have hgen : (genStmt (.doWhile brk cont body k) c0).1 =
        [.label (.begin_ c0)] ++ (genStmt body (c0 + 1)).1 ++
          [.label (.u cont), .call (.c k), cmpZero, .jne (.begin_ c0), .label (.u brk)] := by
      simp [genStmt]
    rw [hgen] at hcode hself ⊢
    have hBegin : P[p]? = some (.label (.begin_ c0)) := hcode.left.left.head
    have hX : CodeAt P (p + 1) (genStmt body (c0 + 1)).1 := hcode.left.right
    have hTail : CodeAt P (p + 1 + (genStmt body (c0 + 1)).1.length)
        [.label (.u cont), .call (.c k), cmpZero, .jne (.begin_ c0), .label (.u brk)] :=
      hcode.right.cast (by simp only [List.length_append, List.length_cons, List.length_nil]; omega)
    have hlen : ([CIns.label (Lbl.begin_ c0)] ++ (genStmt body (c0 + 1)).1 ++
        [CIns.label (Lbl.u cont), CIns.call (Event.c k), cmpZero, CIns.jne (Lbl.begin_ c0), CIns.label (Lbl.u brk)]).length =
        1 + (genStmt body (c0 + 1)).1.length + 5 := by
      simp only [List.length_append, List.length_cons, List.length_nil]
    rw [hlen] at hself ⊢
    generalize hlx : (genStmt body (c0 + 1)).1.length = lx at *
    have hCont : P[p + 1 + lx]? = some (.label (.u cont)) := hTail.head
    have hTest : CodeAt P (p + 1 + lx + 1) [.call (.c k), cmpZero, .jne (.begin_ c0)] := by
      have h1 : CodeAt P (p + 1 + lx) ([.label (.u cont)] ++ ([.call (.c k), cmpZero, .jne (.begin_ c0)] ++ [.label (.u brk)])) := hTail
      exact h1.right.left
    have hBrk : P[p + 1 + lx + 4]? = some (.label (.u brk)) := by
      have := hTail.get 4 (by simp); simpa using this
    have hStart : Runs ω P (p, σ) (p + 1, σ) := Runs.label hBegin
    have hExit : ∀ σ', Runs ω P (p + 1 + lx + 4, σ') (p + (1 + lx + 5), σ') := by
      intro σ'
      have := Runs.label (ω := ω) (σ := σ') hBrk
      rwa [show p + 1 + lx + 4 + 1 = p + (1 + lx + 5) by omega] at this
    -- the test after the body
    have hAfter : ∀ σ2, SimRes ω P b ct (p + 1 + lx) (p + (1 + lx + 5)) σ2
        (if truth (σ2.call ω (.c k)).1 then exec ω n (.doWhile (erase body) k) (σ2.call ω (.c k)).2
         else .done .normal (σ2.call ω (.c k)).2) := by
      intro σ2
      have h1 := Runs.label (ω := ω) (σ := σ2) hCont
      have h2 := Runs.testJne (ω := ω) (σ := σ2) hTest (findLabel_of_unique hu hBegin)
      by_cases htr : truth (σ2.call ω (.c k)).1 = true
      · simp only [htr, if_true] at h2 ⊢
        exact SimRes.prepend (h1.trans h2) (hself _)
      · simp only [htr] at h2 ⊢
        rw [show p + 1 + lx + 1 + 3 = p + 1 + lx + 4 by omega] at h2
        exact (h1.trans h2).trans (hExit _)
    have hbody := IH n (Nat.le_refl _) body σ P (p + 1) (c0 + 1) (some brk) (some cont) hX hu hb
      (fun bl h => by cases h; exact ⟨_, hBrk⟩) (fun cl h => by cases h; exact ⟨_, hCont⟩) HR
    rw [hlx] at hbody
    cases hr : exec ω n (erase body) σ with
    | unsupported => trivial
    | timeout σ' =>
      rw [hr] at hbody
      obtain ⟨q, hq⟩ := hbody
      exact ⟨q, hStart.trans hq⟩
    | done o σ2 =>
      rw [hr] at hbody
      cases o with
      | normal => exact SimRes.prepend (hStart.trans hbody) (hAfter σ2)
      | cont =>
        obtain ⟨cl, q, hcl, hq, hrun⟩ := hbody
        cases hcl
        have : q = p + 1 + lx := hu _ _ _ hq hCont
        subst this
        exact SimRes.prepend (hStart.trans hrun) (hAfter σ2)
      | brk =>
        obtain ⟨bl, q, hbl, hq, hrun⟩ := hbody
        cases hbl
        have : q = p + 1 + lx + 4 := hu _ _ _ hq hBrk
        subst this
        exact (hStart.trans hrun).trans (hExit σ2)
      | ret =>
        obtain ⟨q, h1, h2⟩ := hbody
        exact ⟨q, h1, hStart.trans h2⟩
  | switch_ w u k cases dflt brk body =>
    simp only [erase, exec]
    by_cases hOK : switchOK w u (items (erase body)) = true
    · simp only [hOK, if_true]
      obtain ⟨hbb, hcases0, hdf0⟩ := hb
      rw [items_erase] at hOK ⊢
      have N := switchOK_norm w u (itemsT body) hOK
      have hcases : ∀ e, e ∈ cases ↔ e ∈ (itemsT body).flatMap caseEnts := by
        intro e; rw [hcases0, (caseEnts_items body).1]
      have hdf : DfltOf dflt ((itemsT body).flatMap dflts) := by rw [← (caseEnts_items body).2]; exact hdf0
      have hbi := bound_items body hbb
      -- layout
      have hgen : (genStmt (.switch_ w u k cases dflt brk body) c0).1 =
          [.call (.inp k)] ++ ladder w cases dflt brk ++ (genList (itemsT body) c0).1 ++ [.label (.u brk)] := by
        simp only [genStmt, gen_items body c0]
      rw [hgen] at hcode ⊢
      have hHead : CodeAt P p ([.call (.inp k)] ++ ladder w cases dflt brk) := hcode.left.left
      have hX : CodeAt P (p + (1 + (ladder w cases dflt brk).length)) (genList (itemsT body) c0).1 :=
        hcode.left.right.cast (by simp only [List.length_append, List.length_cons, List.length_nil] <;> omega)
      have hBrk : P[p + (1 + (ladder w cases dflt brk).length) + (genList (itemsT body) c0).1.length]? =
          some (.label (.u brk)) :=
        (hcode.right.cast (by simp only [List.length_append, List.length_cons, List.length_nil]; omega)).head
      have hlen : ([CIns.call (Event.inp k)] ++ ladder w cases dflt brk ++ (genList (itemsT body) c0).1 ++
          [CIns.label (Lbl.u brk)]).length =
          (1 + (ladder w cases dflt brk).length) + (genList (itemsT body) c0).1.length + 1 := by
        simp only [List.length_append, List.length_cons, List.length_nil]
      rw [hlen]
      generalize hpx : p + (1 + (ladder w cases dflt brk).length) = pX at *
      have hExit : ∀ σ', Runs ω P (pX + (genList (itemsT body) c0).1.length, σ')
          (p + ((1 + (ladder w cases dflt brk).length) + (genList (itemsT body) c0).1.length + 1), σ') := by
        intro σ'
        have := Runs.label (ω := ω) (σ := σ') hBrk
        rwa [show pX + (genList (itemsT body) c0).1.length + 1 =
          p + ((1 + (ladder w cases dflt brk).length) + (genList (itemsT body) c0).1.length + 1) by omega] at this
      -- entering the body at the label `L` of the item `it`
      have hEnter : ∀ (pre : List Stmt) (it : Stmt) (rest : List Stmt) (L : Nat), itemsT body = pre ++ it :: rest →
          L ∈ pfxLabels it → selectLbl w (σ.call ω (.inp k)).1 cases dflt brk = L →
          SimRes ω P b ct p (p + ((1 + (ladder w cases dflt brk).length) + (genList (itemsT body) c0).1.length + 1)) σ
            (match exec ω n (seqOf ((it :: rest).map erase)) (σ.call ω (.inp k)).2 with
              | .done .brk σ2 => .done .normal σ2
              | r => r) := by
        intro pre it rest L hits hL hsel
        obtain ⟨j, hj, hjL⟩ := List.getElem_of_mem hL
        rw [hits, genList_append] at hX
        simp only at hX
        have hcodeR : CodeAt P (pX + (genList pre c0).1.length) (genList (it :: rest) (genList pre c0).2).1 := hX.right
        have hlenX : (genList (itemsT body) c0).1.length =
            (genList pre c0).1.length + (genList (it :: rest) (genList pre c0).2).1.length := by
          rw [hits, genList_append]; simp only [List.length_append]
        have hcodeIt : CodeAt P (pX + (genList pre c0).1.length) (genStmt it (genList pre c0).2).1 := by
          have := hcodeR; simp only [genList] at this; exact this.left
        rw [gen_prefix it] at hcodeIt
        have hLpos : P[pX + (genList pre c0).1.length + j]? = some (.label (.u L)) := by
          have := hcodeIt.left.get j (by simpa using hj)
          rw [List.getElem?_map, List.getElem?_eq_getElem hj, hjL] at this
          simpa using this
        have hrun := Runs.switchHead (ω := ω) (σ := σ) w cases dflt brk hHead
          (by rw [hsel]; exact findLabel_of_unique hu hLpos)
        have hseq := seq_sim ω n IH (it :: rest) n (Nat.le_refl _) (σ.call ω (.inp k)).2 P
          (pX + (genList pre c0).1.length) (genList pre c0).2 j (some brk) ct (by simpa using Nat.le_of_lt hj) hcodeR hu
          (fun it' h => hbi it' (by rw [hits]; exact List.mem_append_right _ h))
          (fun bl h => by cases h; exact ⟨_, hBrk⟩) HC HR
        rw [show pX + (genList pre c0).1.length + (genList (it :: rest) (genList pre c0).2).1.length =
          pX + (genList (itemsT body) c0).1.length by omega] at hseq
        cases hr : exec ω n (seqOf ((it :: rest).map erase)) (σ.call ω (.inp k)).2 with
        | unsupported => trivial
        | timeout σ' =>
          rw [hr] at hseq
          obtain ⟨q, hq⟩ := hseq
          exact ⟨q, hrun.trans hq⟩
        | done o σ2 =>
          rw [hr] at hseq
          cases o with
          | normal => exact (hrun.trans hseq).trans (hExit σ2)
          | brk =>
            obtain ⟨bl, q, hbl, hq, hrun2⟩ := hseq
            cases hbl
            have : q = pX + (genList (itemsT body) c0).1.length := hu _ _ _ hq hBrk
            subst this
            exact (hrun.trans hrun2).trans (hExit σ2)
          | cont =>
            obtain ⟨cl, q, hcl, hq, hrun2⟩ := hseq
            exact ⟨cl, q, hcl, hq, hrun.trans hrun2⟩
          | ret =>
            obtain ⟨q, hq, hrun2⟩ := hseq
            exact ⟨q, hq, hrun.trans hrun2⟩
      simp only [select]
      cases h1 : dropUntil (hasCase w u (σ.call ω (.inp k)).1) ((itemsT body).map erase) with
      | some rest_s =>
        obtain ⟨pre, it, rest, L, hits, hrest, hL, hsel⟩ := select_case dflt brk N hcases h1
        subst hrest
        exact hEnter pre it rest L hits hL hsel
      | none =>
        cases h2 : dropUntil hasDefault ((itemsT body).map erase) with
        | some rest_s =>
          obtain ⟨pre, it, rest, L, hits, hrest, hL, hsel⟩ := select_default brk N hcases hdf h1 h2
          subst hrest
          exact hEnter pre it rest L hits hL hsel
        | none =>
          have hsel := select_neither brk N hcases hdf h1 h2
          have hrun := Runs.switchHead (ω := ω) (σ := σ) w cases dflt brk hHead
            (by rw [hsel]; exact findLabel_of_unique hu hBrk)
          exact hrun.trans (hExit _)
    · simp only [hOK]; trivial


theorem sim_all (ω : Nat → Val) : ∀ n, ∀ m, m ≤ n → SimStmt ω m := by
  intro n
  induction n with
  | zero =>
    intro m hm
    have : m = 0 := by omega
    subst this
    intro st σ P p c0 b ct _ _ _ _ _ _
    rw [exec_zero]
    exact SimRes.timeout_refl
  | succ n ih =>
    intro m hm
    by_cases h : m ≤ n
    · exact ih m h
    · have : m = n + 1 := by omega
      subst this
      exact sim_succ ω n ih

end ChibiVerif.Ctl
