/-
C01: root forms over general lvalues (Model/C01Lvalue `compileL`): `lv`, `lv = e`, `lv op= e` in the judgment `EvJ`, and the
freshness of the labels of their code.
-/
import ChibiVerif.Lemmas.C01Lvalue

namespace ChibiVerif.C01
open ChibiVerif.X86 ChibiVerif.Asm ChibiVerif.Spec.IntSpec ChibiVerif.Gen.CommonType ChibiVerif.C01Codegen ChibiVerif.X86J

theorem defs_opAssignCodeL (k : NK) (op : BinOp) (ti tb : ITy) (tmp : Int) (cp : List JI) (dsuf : List Ins) (cb : List JI) :
    defs (opAssignCodeL k op ti tb tmp cp dsuf cb) = defs cp ++ defs cb := by
  simp [opAssignCodeL, defs_append, defs_J, defs_cons_ins]

/-- **freshness of the labels of a root form** -/
theorem compileL_nodup (tys : List ITy) (off toff : Nat → Int) (k0 c0 : Nat) (r : RootL) (t : ITy) (code : List JI) (k1 c1 : Nat)
    (h : compileL tys off toff k0 c0 r = some (t, code, k1, c1)) : (defs code).Nodup ∧ InR c0 c1 (defs code) := by
  cases r with
  | load l t0 =>
    simp only [compileL, Option.map_eq_some_iff, Prod.mk.injEq] at h
    obtain ⟨⟨ca, k, c⟩, ha, h1, h2, h3, h4⟩ := h
    simp only at h1 h2 h3 h4
    subst h1 h2 h3 h4
    have f := addrCode_facts tys off toff l k0 c0 ca k c ha
    exact ⟨by simpa [loadCodeL, defs_append, defs_J] using f.nodup, by simpa [loadCodeL, defs_append, defs_J] using f.rng⟩
  | assign l t0 e =>
    simp only [compileL] at h
    cases ha : addrCode tys off toff k0 c0 l with
    | none => simp [ha] at h
    | some pa =>
      obtain ⟨ca, ka, cca⟩ := pa
      simp only [ha, Option.map_eq_some_iff, Prod.mk.injEq] at h
      obtain ⟨⟨te, ce, ke, cce⟩, he, h1, h2, h3, h4⟩ := h
      simp only at h1 h2 h3 h4
      subst h1 h2 h3 h4
      have fa := addrCode_facts tys off toff l k0 c0 ca ka cca ha
      have fe := compileJ_facts tys off toff e ka cca te ce ke cce he
      have ec := fe.c
      have hd : defs (assignCodeL ca t0 te ce) = defs ca ++ defs ce := by
        simp [assignCodeL, defs_append, defs_J, defs_cons_ins]
      rw [hd]
      exact ⟨nodup_append_InR fa.nodup fe.nodup fa.rng fe.rng,
        (fa.rng.mono (Nat.le_refl _) (by omega)).append (fe.rng.mono fa.c (Nat.le_refl _))⟩
  | opassign op l t0 e =>
    simp only [compileL] at h
    split at h
    · cases ha : addrCode tys off toff k0 c0 (splitMember l).1 with
      | none => simp [ha] at h
      | some pa =>
        obtain ⟨cp, ka, cca⟩ := pa
        simp only [ha, Option.map_eq_some_iff, Prod.mk.injEq] at h
        obtain ⟨⟨te, ce, ke, cce⟩, he, h1, h2, h3, h4⟩ := h
        simp only at h1 h2 h3 h4
        subst h1 h2 h3 h4
        have fa := addrCode_facts tys off toff _ k0 c0 cp ka cca ha
        have fe := compileJ_facts tys off toff e ka cca te ce ke cce he
        have ec := fe.c
        rw [defs_opAssignCodeL]
        exact ⟨nodup_append_InR fa.nodup fe.nodup fa.rng fe.rng,
          (fa.rng.mono (Nat.le_refl _) (by omega)).append (fe.rng.mono fa.c (Nat.le_refl _))⟩
    · simp at h

/-- the address of a member lvalue is the address of its parent plus the member offset -/
theorem lvAddr_split (bp : BitVec 64) (off : Nat → Int) (σ : Env) (lv : LVal) (a : BitVec 64) (σ0 : Env)
    (h : lvAddr bp off σ lv = some (a, σ0)) :
    ∃ ap dd, lvAddr bp off σ (splitMember lv).1 = some (ap, σ0) ∧ ap + BitVec.ofInt 64 dd = a ∧ DS (splitMember lv).2 dd := by
  cases lv with
  | member l d =>
    simp only [lvAddr, Option.map_eq_some_iff, Prod.mk.injEq] at h
    obtain ⟨⟨a0, σ'⟩, hl, h1, h2⟩ := h
    simp only at h1 h2
    subst h1 h2
    exact ⟨a0, d, hl, rfl, addimm_run d⟩
  | var i => exact ⟨a, 0, h, by simp, DS.nil⟩
  | deref j => exact ⟨a, 0, h, by simp, DS.nil⟩
  | index i0 esz ie => exact ⟨a, 0, h, by simp, DS.nil⟩
  | pindex j esz ie => exact ⟨a, 0, h, by simp, DS.nil⟩

theorem split_facts (lv : LVal) :
    noConflictL (splitMember lv).1 = noConflictL lv ∧ wfL (splitMember lv).1 = wfL lv ∧ wrL (splitMember lv).1 = wrL lv ∧
      depthL (splitMember lv).1 = depthL lv := by
  cases lv <;> simp [splitMember, noConflictL, wfL, wrL, depthL]

/-! ### a concrete instance: `int x = 7; int *p = &x;` — `p` at -8(%rbp) holds 0x1ff0, `x` at -16(%rbp) -/

def lvEnv : Env := ⟨[.u64, .i32], [0x1ff0, 7]⟩
/-- `%rsp` = 0x1000, `%rbp` = 0x2000; `p` = 0x1ff0 (bytes f0 1f 00 …) at 0x1ff8, `x` = 7 at 0x1ff0 -/
def lvState : State :=
  { regs := fun r => match r with | .rsp => 0x1000#64 | .rbp => 0x2000#64 | _ => 0#64,
    mem := fun a => if a = 0x1ff8#64 then 0xf0#8 else if a = 0x1ff9#64 then 0x1f#8 else if a = 0x1ff0#64 then 7#8 else 0#8 }

theorem lvHolds : Holds exOff lvEnv lvState := by
  intro i t v ht hv
  match i with
  | 0 =>
    simp [lvEnv] at ht hv; subst ht; subst hv
    exact ⟨by decide, by decide⟩
  | 1 =>
    simp [lvEnv] at ht hv; subst ht; subst hv
    exact ⟨by decide, by decide⟩
  | k + 2 => simp [lvEnv] at ht

theorem lvAddr_ex :
    lvAddr (lvState.get .rbp) exOff lvEnv (.deref 0) = some (frameAddr (lvState.get .rbp) (exOff 1), lvEnv) := by
  have h : BitVec.ofInt 64 0x1ff0 = frameAddr (lvState.get .rbp) (exOff 1) := by decide
  simp [lvAddr, lvEnv, ← h]

theorem lvFrameX (K n : Nat) (hK : K ≤ 2) (hn : n ≤ 8) : FrameX lvEnv exOff ptrToff K n lvState :=
  ⟨by have : (lvState.get .rsp).toNat = 4096 := by decide
      omega,
   by
    have h2 : layoutOK lvEnv.tys exOff ptrToff 2 4096 = true := by decide
    have l2 := lay_of_layoutOK lvEnv.tys exOff ptrToff 2 4096 h2 (lvState.get .rbp) (lvState.get .rsp).toNat (by decide) (by decide)
    exact ⟨l2.var_lo, fun k hk => l2.tmp_lo k (by omega), l2.var_var, fun i ti k hi hk => l2.var_tmp i ti k hi (by omega),
      fun k l hk hl => l2.tmp_tmp k l (by omega) (by omega)⟩,
   lvHolds⟩

end ChibiVerif.C01
