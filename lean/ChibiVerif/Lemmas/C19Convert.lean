/-
Lemmas for the same-program half of C19 (Props/C19Program.lean): the kinds of re-read tokens, `convert_pp_tokens` as a function
of (kind, spelling), and the composition with the second pass.
-/
import ChibiVerif.Model.C19Convert
import ChibiVerif.Lemmas.LexSeq
import ChibiVerif.Lemmas.LexClosure
import ChibiVerif.Lemmas.C19Bridge

namespace ChibiVerif.C19Convert
open ChibiVerif ChibiVerif.Lex ChibiVerif.C19Bridge

/-! ### `lexedAlone` -/

theorem lexedAlone_spec (t : Tok) (h : lexedAlone t = true) :
    selfLexing t.text = true ∧ kindOf t.text = t.kind := by
  unfold lexedAlone at h
  unfold selfLexing kindOf
  cases hs : lexStep t.text true false with
  | done => rw [hs] at h; cases h
  | skip r b p => rw [hs] at h; cases h
  | err e => rw [hs] at h; cases h
  | tok t' r =>
    rw [hs] at h
    cases r with
    | cons x r' => cases h
    | nil =>
      simp only [Bool.and_eq_true, beq_iff_eq] at h
      simp only [beq_iff_eq]
      exact ⟨h.1, h.2⟩

/-- every token one scanning step produces has the kind and spelling its spelling gets when read alone -/
theorem lexedAlone_of_lexStep (s : List Nat) (bol sp : Bool) (t : Tok) (r : List Nat)
    (h : lexStep s bol sp = .tok t r) : lexedAlone t = true := by
  have h1 := lexStep_restrict s bol sp t r h
  have inv := lexStep_tok_inv _ _ _ _ _ h
  obtain ⟨k, x, b, p⟩ := t
  cases x with
  | nil => exact absurd rfl inv.ne
  | cons c a =>
    have hb := inv.bol
    have hp := inv.sp
    simp only at hb hp h1
    subst hb; subst hp
    have := lexStep_append c a [] k _ _ true false h1 (noFuse_nil c a)
    rw [List.append_nil] at this
    unfold lexedAlone
    simp only
    rw [this]
    simp

theorem lexLoop_tokens_lexedAlone (n : Nat) : ∀ (s : List Nat) (bol sp : Bool) (ts : List Tok),
    lexLoop n s bol sp = .ok ts → ∀ t ∈ ts, lexedAlone t = true := by
  induction n with
  | zero => intro s bol sp ts h; simp [lexLoop] at h
  | succ n ih =>
    intro s bol sp ts h
    rw [lexLoop] at h
    cases hs : lexStep s bol sp with
    | done => rw [hs] at h; cases h; intro t ht; cases ht
    | skip r b p => rw [hs] at h; exact ih r b p ts h
    | err e => rw [hs] at h; cases h
    | tok t0 r =>
      rw [hs] at h
      simp only at h
      cases hl : lexLoop n r false false with
      | error e => rw [hl] at h; cases h
      | ok ts' =>
        rw [hl] at h
        cases h
        intro t ht
        rcases List.mem_cons.mp ht with rfl | ht
        · exact lexedAlone_of_lexStep s bol sp _ r hs
        · exact ih r false false ts' hl t ht

/-! ### the kinds of the re-read list -/

theorem tokensOf_kind (f : Bool × Bool) (items : List Item) :
    (tokensOf f items).map (·.kind) = items.map (fun it => kindOf it.2) := by
  induction items generalizing f with
  | nil => rfl
  | cons it r ih => simp [tokensOf, ih]

theorem relexed_kind (ts : List Tok) : (relexed ts).map (·.kind) = ts.map (fun t => kindOf t.text) := by
  unfold relexed
  rw [tokensOf_kind]
  generalize (none : Option Tok) = prev
  induction ts generalizing prev with
  | nil => rfl
  | cons t ts ih => simp [itemsOf, ih]

theorem relexed_kind_of_lexedAlone (ts : List Tok) (h : ∀ t ∈ ts, lexedAlone t = true) :
    (relexed ts).map (·.kind) = ts.map (·.kind) := by
  rw [relexed_kind]
  apply List.map_congr_left
  intro t ht
  exact (lexedAlone_spec t (h t ht)).2

/-! ### `convert_pp_tokens` reads kind and spelling -/

theorem convertTok_congr (numOk : List Nat → Bool) (u t : Tok) (hk : u.kind = t.kind) (ht : u.text = t.text) :
    convertTok numOk u = convertTok numOk t := by
  unfold convertTok
  rw [hk, ht]

theorem convertPP_congr (numOk : List Nat → Bool) : ∀ (us ts : List Tok),
    us.map (·.kind) = ts.map (·.kind) → us.map (·.text) = ts.map (·.text) →
    convertPP numOk us = convertPP numOk ts := by
  intro us
  induction us with
  | nil =>
    intro ts h1 _
    cases ts with
    | nil => rfl
    | cons t ts => simp at h1
  | cons u us ih =>
    intro ts h1 h2
    cases ts with
    | nil => simp at h1
    | cons t ts =>
      simp only [List.map_cons, List.cons.injEq] at h1 h2
      simp only [convertPP]
      rw [convertTok_congr numOk u t h1.1 h2.1, ih ts h1.2 h2.2]

/-! ### the whole second compilation -/

/-- the tokens the second cc1 holds after `preprocess2`, for an inert printed list: the re-read list itself -/
theorem passTokens_printTokens (ts : List Tok) (h : ∀ t ∈ ts, selfLexing t.text = true)
    (hin : inertInit (relexed ts) = true) (hv : validText ts = true)
    (fuel : Nat) (hfuel : ts.length ≤ fuel) (file : String) :
    passTokens fuel file (printTokens ts) = .ok (relexed ts) := by
  have ht := relexed_text ts
  have hv' : validText (relexed ts) = true := by rw [validText_congr _ _ ht]; exact hv
  have hp := secondPassX_inert fuel file (relexed ts) (by rw [length_eq_of_map_text _ _ ht]; exact hfuel) hin
  unfold passTokens
  rw [lex_printTokens ts h]
  simp only [hp]
  rw [show toPPs (relexed ts) = toPPsFrom 0 (relexed ts) from rfl, map_ofPP_toPPsFrom _ 0 hv']

/-! ### any printer whose separators are blank and empty only where `need_space` allows -/

def itemsWith (sep : Option Tok → Tok → List Nat) (prev : Option Tok) : List Tok → List Item
  | [] => []
  | t :: ts => (sep prev t, t.text) :: itemsWith sep (some t) ts

theorem printWith_render (sep : Option Tok → Tok → List Nat) (prev : Option Tok) (ts : List Tok) :
    printWith sep prev ts = render (itemsWith sep prev ts) ++ [10] := by
  induction ts generalizing prev with
  | nil => rfl
  | cons t ts ih => simp [printWith, itemsWith, render, ih]

theorem okItems_itemsWith (sep : Option Tok → Tok → List Nat)
    (hb : ∀ p t, isBlank (sep p t) = true)
    (hn : ∀ p t, sep (some p) t = [] → Gen.Lex.needSpace p.text t.text = false)
    (ts : List Tok) (h : ∀ t ∈ ts, selfLexing t.text = true) :
    ∀ prev, okItems (itemsWith sep prev ts) := by
  induction ts with
  | nil => intro prev; trivial
  | cons t ts ih =>
    intro prev
    refine ⟨hb prev t, h t (List.mem_cons_self ..), ?_,
      ih (fun x hx => h x (List.mem_cons_of_mem _ hx)) (some t)⟩
    cases ts with
    | nil => trivial
    | cons t2 ts' => exact fun h0 => hn t t2 h0

theorem itemsWith_text (sep : Option Tok → Tok → List Nat) (ts : List Tok) :
    ∀ prev, (itemsWith sep prev ts).map (·.2) = ts.map (·.text) := by
  induction ts with
  | nil => intro prev; rfl
  | cons t ts ih => intro prev; simp [itemsWith, ih]

theorem lex_printWith (sep : Option Tok → Tok → List Nat)
    (hb : ∀ p t, isBlank (sep p t) = true)
    (hn : ∀ p t, sep (some p) t = [] → Gen.Lex.needSpace p.text t.text = false)
    (ts : List Tok) (h : ∀ t ∈ ts, selfLexing t.text = true) :
    lex (printWith sep none ts) = .ok (tokensOf (true, false) (itemsWith sep none ts)) := by
  rw [printWith_render]
  exact lex_items _ [10] (okItems_itemsWith sep hb hn ts h none) rfl

theorem printWith_sepBefore (prev : Option Tok) (ts : List Tok) : printWith sepBefore prev ts = printFrom prev ts := by
  induction ts generalizing prev with
  | nil => rfl
  | cons t ts ih => simp [printWith, printFrom, ih]

end ChibiVerif.C19Convert
