/-
C03 × C01: from the simulation (`sim`) to the statement about a whole function body (`fun_core`): the renamed program, the
frame of the caller's choosing, the run to the line after `.L.return`, and a region of memory the function provably does not
touch (`keep`); `keep_above_bp`: with chibicc's frame layout (`layoutOK`) everything at or above `%rbp` is such a region.
-/
import ChibiVerif.Lemmas.C03FunSwitch
import ChibiVerif.Lemmas.C03FunLabels

namespace ChibiVerif.C03Fun
open ChibiVerif.Asm ChibiVerif.Spec.IntSpec ChibiVerif.C01 ChibiVerif.X86 ChibiVerif.X86J

theorem fun_core (tys : List ITy) (off toff : Nat → Int) (R : ITy) (c0 u0 : Nat) (body : FStmt)
    (prog : List FI) (K c1 u1 : Nat)
    (hc : compileFn tys off toff R c0 u0 body = some (prog, K, c1, u1)) (hnc : noConflictF body = true)
    (σ σ' : Env) (hσ : σ.tys = tys) (fuel : Nat) (o : Out) (hx : execF R fuel body σ = .done o σ')
    (m : State) (hf : FrameX σ off toff K (depthF body) m) (keep : BitVec 64 → Prop)
    (hkeep : ∀ a, keep a → (m.get .rsp).toNat ≤ a.toNat ∧ (∀ W, ¬ inVar tys off (m.get .rbp) W a) ∧
      ¬ inTmp toff (m.get .rbp) 0 K a) :
    ∃ fuel' m', runF fuel' prog 0 m = some m' ∧ (∀ v, o = .ret v → Represents R (m'.get .rax) v) ∧
      m'.get .rsp = m.get .rsp ∧ m'.get .rbp = m.get .rbp ∧ FrameX σ' off toff K (depthF body) m' ∧
      ∀ a, keep a → m'.mem a = m.mem a := by
  have hfresh := (compileFn_fresh tys off toff R c0 u0 body prog K c1 u1 hc).1
  simp only [compileFn, Option.map_eq_some_iff, Prod.mk.injEq] at hc
  obtain ⟨⟨code, K', c1', u1'⟩, hcF, rfl, hK', _, _⟩ := hc
  have hK' : K' = K := hK'
  subst hK'
  let g : Cfg := { tys := tys, off := off, toff := toff, K := K', R := R, C := bound (code ++ [FI.lbl (.s .ret)]),
                   q := (code ++ [FI.lbl (.s .ret)]).map (enc (bound (code ++ [FI.lbl (.s .ret)]))), retPos := code.length,
                   sp := m.get .rsp, bp := m.get .rbp, B := (m.get .rsp).toNat, D := depthF body, keep := keep, mem0 := m.mem }
  have ok : g.OK := by
    refine ⟨nodup_enc _ hfresh, ?_, ?_, hf.1, Nat.le_refl _, hkeep⟩
    · show ((code ++ [FI.lbl (.s .ret)]).map (enc _))[code.length]? = _
      simp [enc, g]
    · have := hf.2.1; rw [hσ] at this; exact this
  have hm : MInv g σ m := ⟨hσ, rfl, rfl, hf.2.2, fun _ _ => rfl⟩
  have hat : At g.q 0 (code.map (enc g.C)) := by
    have := At_mid [] (code.map (enc g.C)) ([FI.lbl (.s .ret)].map (enc g.C))
    simpa [g] using this
  have hret : g.q[code.length]? = some (.lbl (encL g.C (.s .ret))) := ok.ret
  obtain ⟨m', r, hm', hr⟩ := sim g ok fuel body σ o σ' hx ⟨none, none, false⟩ 0 c0 u0 code K' c1' u1' hcF (Nat.le_refl _) hnc
    (Nat.le_refl _) 0 code.length code.length hat ⟨fun b h => by simp at h, fun ct h => by simp at h⟩ m hm
  have htgt : tgt g o (0 + code.length) code.length code.length = code.length := by cases o <;> simp [tgt, g]
  rw [htgt] at r
  obtain ⟨fuel', hrun⟩ := (r.trans (lbl_step hret m')).runJ (by simp [g])
  refine ⟨fuel', m', ?_, hr, hm'.2.1, hm'.2.2.1, ?_, hm'.2.2.2.2⟩
  · rw [runF_eq_runJ]; exact hrun
  · refine ⟨by rw [hm'.2.1]; exact hf.1, ?_, hm'.2.2.2.1⟩
    rw [hm'.1, hm'.2.1, hm'.2.2.1]
    have := hf.2.1; rw [hσ] at this; exact this

/-- with chibicc's frame layout every byte at or above `%rbp` lies outside the variables and the hidden temporaries and above
    `%rsp` -/
theorem keep_above_bp (tys : List ITy) (off toff : Nat → Int) (K : Nat) (N : Int) (hN : 0 ≤ N)
    (hlay : layoutOK tys off toff K N = true) (bp sp : BitVec 64) (hbp : (bp.toNat : Int) = sp.toNat + N) (a : BitVec 64)
    (ha : bp.toNat ≤ a.toNat) :
    sp.toNat ≤ a.toNat ∧ (∀ W, ¬ inVar tys off bp W a) ∧ ¬ inTmp toff bp 0 K a := by
  simp only [layoutOK, Bool.and_eq_true, List.all_eq_true, List.mem_range, inFrame, decide_eq_true_eq] at hlay
  obtain ⟨⟨⟨⟨hv, ht⟩, _⟩, _⟩, _⟩ := hlay
  refine ⟨by omega, ?_, ?_⟩
  · rintro W ⟨i, t, _, hi, h1, h2⟩
    have := hv i (lt_of_getElem? hi)
    rw [szOf_eq hi] at this
    have e := addrOf_toNat bp (off i) N this.1 (by have := size_pos t; omega) (by omega)
    omega
  · rintro ⟨k, _, hk, h1, h2⟩
    have := ht k hk
    have e := addrOf_toNat bp (toff k) N this.1 (by omega) (by omega)
    omega

end ChibiVerif.C03Fun
