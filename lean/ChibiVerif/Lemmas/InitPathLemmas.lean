/-
C05, parser = specification: trees and paths.

* `subOk` / `tyOk`  — (Spec/InitSpec.lean) the types the simulation is proved for (decidable): arrays of unknown bound only as
                       the declared type itself, no flexible array members, every union has a named member.
* `shaped ty init`  — the tree has the skeleton of the type (what `new_initializer` allocates and both sides preserve); a union node
                       without chosen member has no initialised child.
* `setAtM obj p v`  — replace the subobject at path `p` by `v`, marking every union passed through as initialised through that
                       member and dropping aggregate-valued expressions on the way (what `modifyAt` does when nothing switches).
-/
import ChibiVerif.Model.Init
import ChibiVerif.Spec.InitSpec

namespace ChibiVerif.InitSpec
open ChibiVerif.Init

mutual
  def shaped : Ty → Init → Bool
    | .scalar _ _, .leaf _ => true
    | .array e n, .arr cs => cs.length == n && shapedAll e cs
    | .inc e, .arr cs => shapedAll e cs
    | .struct ms _ _, .struct _ cs => shapedMs ms cs
    | .union ms _ _, .union _ m cs => shapedMs ms cs && (m.isSome || !hasExprList cs)
    | _, _ => false
  def shapedAll : Ty → List Init → Bool
    | _, [] => true
    | e, c :: cs => shaped e c && shapedAll e cs
  def shapedMs : Members → List Init → Bool
    | [], [] => true
    | (_, t) :: ms, c :: cs => shaped t c && shapedMs ms cs
    | _, _ => false
end

def setAtM : Init → List Nat → Init → Init
  | _, [], v => v
  | .arr cs, k :: p, v => .arr (cs.set k (setAtM (cs.getD k .flex) p v))
  | .struct _ cs, k :: p, v => .struct none (cs.set k (setAtM (cs.getD k .flex) p v))
  | .union _ _ cs, k :: p, v => .union none (some k) (cs.set k (setAtM (cs.getD k .flex) p v))
  | o, _ :: _, _ => o

/-! ### lists -/

theorem shapedAll_iff (e : Ty) : ∀ (cs : List Init), shapedAll e cs = true ↔ ∀ c ∈ cs, shaped e c = true
  | [] => by simp [shapedAll]
  | c :: cs => by simp [shapedAll, shapedAll_iff e cs]

theorem shapedMs_length : ∀ (ms : Members) (cs : List Init), shapedMs ms cs = true → cs.length = ms.length
  | [], [], _ => rfl
  | [], _ :: _, h => by simp [shapedMs] at h
  | _ :: _, [], h => by simp [shapedMs] at h
  | (_, t) :: ms, c :: cs, h => by
    simp only [shapedMs, Bool.and_eq_true] at h
    simp [shapedMs_length ms cs h.2]

theorem shapedMs_get : ∀ (ms : Members) (cs : List Init) (k : Nat) (mi : MemInfo) (t : Ty) (c : Init), shapedMs ms cs = true →
    ms[k]? = some (mi, t) → cs[k]? = some c → shaped t c = true
  | [], [], _, _, _, _, _, h, _ => by simp at h
  | [], _ :: _, _, _, _, _, h, _, _ => by simp [shapedMs] at h
  | _ :: _, [], _, _, _, _, h, _, _ => by simp [shapedMs] at h
  | (_, t0) :: ms, c0 :: cs, k, mi, t, c, h, hm, hc => by
    simp only [shapedMs, Bool.and_eq_true] at h
    cases k with
    | zero =>
      simp at hm hc
      rw [← hm.2, ← hc]; exact h.1
    | succ k =>
      simp at hm hc
      exact shapedMs_get ms cs k mi t c h.2 hm hc

theorem shapedMs_set : ∀ (ms : Members) (cs : List Init) (k : Nat) (mi : MemInfo) (t : Ty) (v : Init), shapedMs ms cs = true →
    ms[k]? = some (mi, t) → shaped t v = true → shapedMs ms (cs.set k v) = true
  | [], [], _, _, _, _, _, h, _ => by simp at h
  | [], _ :: _, _, _, _, _, h, _, _ => by simp [shapedMs] at h
  | _ :: _, [], _, _, _, _, h, _, _ => by simp [shapedMs] at h
  | (_, t0) :: ms, c0 :: cs, k, mi, t, v, h, hm, hv => by
    simp only [shapedMs, Bool.and_eq_true] at h
    cases k with
    | zero =>
      simp at hm
      simp only [List.set_cons_zero, shapedMs, Bool.and_eq_true]
      rw [hm.2]; exact ⟨hv, h.2⟩
    | succ k =>
      simp at hm
      simp only [List.set_cons_succ, shapedMs, Bool.and_eq_true]
      exact ⟨h.1, shapedMs_set ms cs k mi t v h.2 hm hv⟩

theorem shapedAll_set (e : Ty) (cs : List Init) (k : Nat) (v : Init) (h : shapedAll e cs = true) (hv : shaped e v = true) :
    shapedAll e (cs.set k v) = true := by
  rw [shapedAll_iff] at h ⊢
  intro c hc
  rcases List.mem_or_eq_of_mem_set hc with h1 | h1
  · exact h c h1
  · rw [h1]; exact hv

theorem shapedAll_get (e : Ty) (cs : List Init) (k : Nat) (c : Init) (h : shapedAll e cs = true) (hc : cs[k]? = some c) :
    shaped e c = true := by
  rw [shapedAll_iff] at h
  exact h c (List.mem_of_getElem? hc)


/-! ### `getAt` / `setAtM` -/

theorem getD_of_getElem? {α : Type} {cs : List α} {k : Nat} {c d : α} (h : cs[k]? = some c) : cs.getD k d = c := by
  simp [List.getD_eq_getElem?_getD, h]

theorem set_set_same {α : Type} (cs : List α) (k : Nat) (a b : α) : (cs.set k a).set k b = cs.set k b := by
  simp

theorem getD_set_same {α : Type} (cs : List α) (k : Nat) (a d : α) (h : k < cs.length) : (cs.set k a).getD k d = a := by
  simp [List.getD_eq_getElem?_getD, h]

theorem children_setAtM_cons (obj : Init) (k : Nat) (p : List Nat) (v c : Init) (h : obj.children[k]? = some c) :
    (setAtM obj (k :: p) v).children = obj.children.set k (setAtM c p v) := by
  cases obj with
  | leaf e => simp [Init.children] at h
  | flex => simp [Init.children] at h
  | arr cs =>
    simp only [Init.children] at h
    simp [setAtM, Init.children, List.getD_eq_getElem?_getD, h]
  | struct e cs =>
    simp only [Init.children] at h
    simp [setAtM, Init.children, List.getD_eq_getElem?_getD, h]
  | union e m cs =>
    simp only [Init.children] at h
    simp [setAtM, Init.children, List.getD_eq_getElem?_getD, h]

theorem getAt_cons_of_some {obj : Init} {k : Nat} (p : List Nat) {c : Init} (h : obj.children[k]? = some c) :
    getAt obj (k :: p) = getAt c p := by
  rw [getAt]; simp [h]

theorem getAt_cons_of_none {obj : Init} {k : Nat} (p : List Nat) (h : obj.children[k]? = none) :
    getAt obj (k :: p) = none := by
  rw [getAt]; simp [h]

theorem getAt_cons_some {obj : Init} {k : Nat} {p : List Nat} {c : Init} (h : getAt obj (k :: p) = some c) :
    ∃ ck, obj.children[k]? = some ck ∧ getAt ck p = some c := by
  cases hk : obj.children[k]? with
  | none => rw [getAt_cons_of_none p hk] at h; simp at h
  | some ck => rw [getAt_cons_of_some p hk] at h; exact ⟨ck, rfl, h⟩

theorem getAt_setAtM : ∀ (p : List Nat) (obj c v : Init), getAt obj p = some c → getAt (setAtM obj p v) p = some v
  | [], _, _, _, _ => by simp [getAt, setAtM]
  | k :: p, obj, c, v, h => by
    obtain ⟨ck, hk, hc⟩ := getAt_cons_some h
    have hlt : k < obj.children.length := (List.getElem?_eq_some_iff.mp hk).1
    have h2 : (setAtM obj (k :: p) v).children[k]? = some (setAtM ck p v) := by
      rw [children_setAtM_cons obj k p v ck hk]; simp [hlt]
    rw [getAt_cons_of_some p h2]
    exact getAt_setAtM p ck c v hc

theorem getAt_append : ∀ (p q : List Nat) (obj c : Init), getAt obj p = some c → getAt obj (p ++ q) = getAt c q
  | [], _, _, _, h => by simp [getAt] at h; simp [h]
  | k :: p, q, obj, c, h => by
    obtain ⟨ck, hk, hc⟩ := getAt_cons_some h
    rw [List.cons_append, getAt_cons_of_some _ hk]
    exact getAt_append p q ck c hc

theorem setAtM_append : ∀ (p q : List Nat) (obj c v : Init), getAt obj p = some c →
    setAtM obj (p ++ q) v = setAtM obj p (setAtM c q v)
  | [], _, _, _, _, h => by simp [getAt] at h; simp [setAtM, h]
  | k :: p, q, obj, c, v, h => by
    obtain ⟨ck, hk, hc⟩ := getAt_cons_some h
    have ih := setAtM_append p q ck c v hc
    cases obj with
    | leaf e => simp [Init.children] at hk
    | flex => simp [Init.children] at hk
    | arr cs =>
      simp only [Init.children] at hk
      simp [setAtM, List.getD_eq_getElem?_getD, hk, ih]
    | struct e cs =>
      simp only [Init.children] at hk
      simp [setAtM, List.getD_eq_getElem?_getD, hk, ih]
    | union e m cs =>
      simp only [Init.children] at hk
      simp [setAtM, List.getD_eq_getElem?_getD, hk, ih]

theorem setAtM_setAtM : ∀ (p : List Nat) (obj c v w : Init), getAt obj p = some c →
    setAtM (setAtM obj p v) p w = setAtM obj p w
  | [], _, _, _, _, _ => by simp [setAtM]
  | k :: p, obj, c, v, w, h => by
    obtain ⟨ck, hk, hc⟩ := getAt_cons_some h
    have ih := setAtM_setAtM p ck c v w hc
    have hlt : k < obj.children.length := (List.getElem?_eq_some_iff.mp hk).1
    cases obj with
    | leaf e => simp [Init.children] at hk
    | flex => simp [Init.children] at hk
    | arr cs =>
      simp only [Init.children] at hk hlt
      simp only [setAtM, getD_of_getElem? hk, getD_set_same _ _ _ _ hlt, set_set_same, ih]
    | struct e cs =>
      simp only [Init.children] at hk hlt
      simp only [setAtM, getD_of_getElem? hk, getD_set_same _ _ _ _ hlt, set_set_same, ih]
    | union e m cs =>
      simp only [Init.children] at hk hlt
      simp only [setAtM, getD_of_getElem? hk, getD_set_same _ _ _ _ hlt, set_set_same, ih]

/-- what the parser's `init.setChild k c'` is in terms of `setAtM` (array node) -/
theorem setAtM_one_arr (cs : List Init) (k : Nat) (v : Init) : setAtM (.arr cs) [k] v = (Init.arr cs).setChild k v := by
  simp [setAtM, Init.setChild, Init.withChildren, Init.children]

theorem setAtM_one_struct (cs : List Init) (k : Nat) (v : Init) :
    setAtM (.struct none cs) [k] v = (Init.struct none cs).setChild k v := by
  simp [setAtM, Init.setChild, Init.withChildren, Init.children]

theorem setAtM_one_union (e : Option Expr) (m : Option Nat) (cs : List Init) (k : Nat) (v : Init) :
    setAtM (.union e m cs) [k] v = ((Init.union none m cs).setMem k).setChild k v := by
  simp [setAtM, Init.setChild, Init.withChildren, Init.children, Init.setMem]


/-! ### `shaped` along paths -/

theorem subOk_tyOk : ∀ (t : Ty), subOk t = true → tyOk t = true
  | .scalar _ _, h => by simpa [tyOk] using h
  | .array _ _, h => by simpa [tyOk] using h
  | .inc _, h => by simp [subOk] at h
  | .struct _ _ fl, h => by
    cases fl with
    | false => simpa [tyOk] using h
    | true => simp [subOk] at h
  | .union _ _ _, h => by simpa [tyOk] using h

theorem subOkMs_get : ∀ (ms : Members) (k : Nat) (mi : MemInfo) (t : Ty), subOkMs ms = true → ms[k]? = some (mi, t) → subOk t = true
  | [], _, _, _, _, h => by simp at h
  | (_, t0) :: ms, k, mi, t, ho, h => by
    simp only [subOkMs, Bool.and_eq_true] at ho
    cases k with
    | zero => simp at h; rw [← h.2]; exact ho.1
    | succ k => simp at h; exact subOkMs_get ms k mi t ho.2 h

/-- every member of a struct with flexible array member has a covered type (the flexible member: `elem[0]`) -/
theorem flexOkMs_get : ∀ (ms : Members) (k : Nat) (mi : MemInfo) (t : Ty), flexOkMs ms = true → ms[k]? = some (mi, t) → subOk t = true
  | [], _, _, _, h, _ => by simp [flexOkMs] at h
  | [(mi0, t0)], k, mi, t, ho, h => by
    cases k with
    | zero =>
      simp at h; obtain ⟨_, rfl⟩ := h
      cases t0 <;> simp [flexOkMs] at ho
      simpa [subOk] using ho
    | succ k => simp at h
  | (_, t0) :: m :: r, k, mi, t, ho, h => by
    simp only [flexOkMs, Bool.and_eq_true] at ho
    cases k with
    | zero => simp at h; rw [← h.2]; exact ho.1
    | succ k => simp at h; exact flexOkMs_get (m :: r) k mi t ho.2 (by simpa using h)

/-- the type one level down is again covered -/
theorem tyOk_child {t0 t : Ty} {k : Nat} (h0 : tyOk t0 = true) (h : childTy t0 k = some t) : subOk t = true := by
  cases t0 with
  | scalar => simp [childTy] at h
  | array e n => simp [childTy] at h; simp [tyOk, subOk] at h0; rw [← h]; exact h0
  | inc e => simp [childTy] at h; simp [tyOk] at h0; rw [← h]; exact h0
  | struct ms sz fl =>
    simp only [childTy, Option.map_eq_some_iff] at h
    obtain ⟨⟨mi, t'⟩, hm, ht⟩ := h
    simp at ht; rw [← ht]
    cases fl with
    | false =>
      simp [tyOk, subOk] at h0
      exact subOkMs_get ms k mi t' h0 hm
    | true =>
      simp only [tyOk] at h0
      exact flexOkMs_get ms k mi t' h0 hm
  | union ms sz fl =>
    simp [tyOk, subOk] at h0
    simp only [childTy, Option.map_eq_some_iff] at h
    obtain ⟨⟨mi, t'⟩, hm, ht⟩ := h
    simp at ht; rw [← ht]
    exact subOkMs_get ms k mi t' h0.1.2 hm

theorem subTy_cons (t : Ty) (k : Nat) (p : List Nat) :
    subTy t (k :: p) = (childTy t k).bind (fun c => subTy c p) := by
  rw [subTy]; cases childTy t k <;> rfl

theorem subTy_cons_some {t0 t : Ty} {k : Nat} {p : List Nat} (h : subTy t0 (k :: p) = some t) :
    ∃ tc, childTy t0 k = some tc ∧ subTy tc p = some t := by
  rw [subTy_cons] at h
  cases hc : childTy t0 k with
  | none => simp [hc] at h
  | some tc => simp [hc] at h; exact ⟨tc, rfl, h⟩

theorem subTy_append : ∀ (p q : List Nat) (t0 t : Ty), subTy t0 p = some t → subTy t0 (p ++ q) = subTy t q
  | [], _, _, _, h => by simp [subTy] at h; simp [h]
  | k :: p, q, t0, t, h => by
    obtain ⟨tc, hc, ht⟩ := subTy_cons_some h
    rw [List.cons_append, subTy_cons, hc]
    exact subTy_append p q tc t ht

/-- one level: the child of a shaped node at a valid index is shaped for the child type -/
theorem shaped_child {t0 : Ty} {obj : Init} {k : Nat} {tc : Ty} {ck : Init} (hs : shaped t0 obj = true)
    (ht : childTy t0 k = some tc) (hk : obj.children[k]? = some ck) : shaped tc ck = true := by
  match t0, obj, hs with
  | .scalar _ _, .leaf _, _ => simp [childTy] at ht
  | .array e n, .arr cs, hs =>
    simp only [shaped, Bool.and_eq_true] at hs
    simp [childTy] at ht; subst ht
    exact shapedAll_get e cs k ck hs.2 hk
  | .inc e, .arr cs, hs =>
    simp only [shaped] at hs
    simp [childTy] at ht; subst ht
    exact shapedAll_get e cs k ck hs hk
  | .struct ms _ _, .struct _ cs, hs =>
    simp only [shaped] at hs
    simp only [childTy, Option.map_eq_some_iff] at ht
    obtain ⟨⟨mi, t'⟩, hm, ht⟩ := ht
    simp at ht; subst ht
    exact shapedMs_get ms cs k mi t' ck hs hm hk
  | .union ms _ _, .union _ m cs, hs =>
    simp only [shaped, Bool.and_eq_true] at hs
    simp only [childTy, Option.map_eq_some_iff] at ht
    obtain ⟨⟨mi, t'⟩, hm, ht⟩ := ht
    simp at ht; subst ht
    exact shapedMs_get ms cs k mi t' ck hs.1 hm hk

theorem shaped_getAt : ∀ (p : List Nat) (t0 : Ty) (obj : Init) (t : Ty) (c : Init), shaped t0 obj = true →
    subTy t0 p = some t → getAt obj p = some c → shaped t c = true
  | [], t0, obj, t, c, hs, ht, hc => by
    simp [subTy] at ht; simp [getAt] at hc; subst ht; subst hc; exact hs
  | k :: p, t0, obj, t, c, hs, ht, hc => by
    obtain ⟨tc, htc, ht'⟩ := subTy_cons_some ht
    obtain ⟨ck, hk, hc'⟩ := getAt_cons_some hc
    exact shaped_getAt p tc ck t c (shaped_child hs htc hk) ht' hc'

/-- one level: replacing a child by a shaped value keeps the node shaped (a union is marked) -/
theorem shaped_set_child {t0 : Ty} {obj : Init} {k : Nat} {tc : Ty} {ck v : Init} (hs : shaped t0 obj = true)
    (ht : childTy t0 k = some tc) (hk : obj.children[k]? = some ck) (hv : shaped tc v = true) :
    shaped t0 (setAtM obj [k] v) = true := by
  match t0, obj, hs with
  | .scalar _ _, .leaf _, _ => simp [childTy] at ht
  | .array e n, .arr cs, hs =>
    simp only [shaped, Bool.and_eq_true] at hs
    simp [childTy] at ht; subst ht
    simp only [setAtM, shaped, Bool.and_eq_true, List.length_set]
    exact ⟨hs.1, shapedAll_set _ cs k v hs.2 hv⟩
  | .inc e, .arr cs, hs =>
    simp only [shaped] at hs
    simp [childTy] at ht; subst ht
    simp only [setAtM, shaped]
    exact shapedAll_set _ cs k v hs hv
  | .struct ms _ _, .struct _ cs, hs =>
    simp only [shaped] at hs
    simp only [childTy, Option.map_eq_some_iff] at ht
    obtain ⟨⟨mi, t'⟩, hm, ht⟩ := ht
    simp at ht; subst ht
    simp only [setAtM, shaped]
    exact shapedMs_set ms cs k mi t' v hs hm hv
  | .union ms _ _, .union _ m cs, hs =>
    simp only [shaped, Bool.and_eq_true] at hs
    simp only [childTy, Option.map_eq_some_iff] at ht
    obtain ⟨⟨mi, t'⟩, hm, ht⟩ := ht
    simp at ht; subst ht
    simp only [setAtM, shaped, Bool.and_eq_true]
    exact ⟨shapedMs_set ms cs k mi t' v hs.1 hm hv, by simp⟩

theorem setAtM_cons_eq {obj : Init} {k : Nat} (p : List Nat) {ck : Init} (v : Init) (hk : obj.children[k]? = some ck) :
    setAtM obj (k :: p) v = setAtM obj [k] (setAtM ck p v) := by
  have h1 : getAt obj [k] = some ck := by rw [getAt_cons_of_some _ hk]; simp [getAt]
  have := setAtM_append [k] p obj ck v h1
  simpa using this

theorem shaped_setAtM : ∀ (p : List Nat) (t0 : Ty) (obj : Init) (t : Ty) (c v : Init), shaped t0 obj = true →
    subTy t0 p = some t → getAt obj p = some c → shaped t v = true → shaped t0 (setAtM obj p v) = true
  | [], t0, obj, t, c, v, hs, ht, hc, hv => by
    simp [subTy] at ht; subst ht; simpa [setAtM] using hv
  | k :: p, t0, obj, t, c, v, hs, ht, hc, hv => by
    obtain ⟨tc, htc, ht'⟩ := subTy_cons_some ht
    obtain ⟨ck, hk, hc'⟩ := getAt_cons_some hc
    rw [setAtM_cons_eq p v hk]
    exact shaped_set_child hs htc hk (shaped_setAtM p tc ck t c v (shaped_child hs htc hk) ht' hc' hv)


/-! ### zero -/

theorem newInitMs_cons_false (mi : MemInfo) (t : Ty) (ms : Members) :
    newInitMs ((mi, t) :: ms) false = newInit t false :: newInitMs ms false := by
  cases ms with
  | nil => simp [newInitMs]
  | cons m r => simp [newInitMs]

theorem hasExprList_false_iff : ∀ (cs : List Init), hasExprList cs = false ↔ ∀ c ∈ cs, hasExpr c = false
  | [] => by simp [hasExprList]
  | c :: cs => by simp [hasExprList, hasExprList_false_iff cs]

mutual
  theorem zero_of_shaped : ∀ (t : Ty) (c : Init), subOk t = true → shaped t c = true → hasExpr c = false → c = newInit t false
    | .scalar _ _, .leaf e, _, _, h => by
      simp [hasExpr] at h; simp [newInit, h]
    | .array e n, .arr cs, ho, hs, h => by
      simp only [shaped, Bool.and_eq_true, beq_iff_eq] at hs
      simp only [hasExpr] at h
      simp only [subOk] at ho
      have := zero_all e cs ho hs.2 h
      rw [newInit, ← hs.1, ← this]
    | .struct ms _ fl, .struct e cs, ho, hs, h => by
      simp only [shaped] at hs
      simp only [hasExpr, Bool.or_eq_false_iff] at h
      simp only [subOk, Bool.and_eq_true] at ho
      have := zero_ms ms cs ho.2 hs h.2
      have he : e = none := by cases e <;> simp_all
      simp [newInit, ← this, he]
    | .union ms _ fl, .union e m cs, ho, hs, h => by
      simp only [shaped, Bool.and_eq_true] at hs
      simp only [hasExpr, Bool.or_eq_false_iff] at h
      simp only [subOk, Bool.and_eq_true] at ho
      have := zero_ms ms cs ho.1.2 hs.1 h.2
      have he : e = none := by cases e <;> simp_all
      have hm : m = none := by cases m <;> simp_all
      simp [newInit, ← this, he, hm]
    | .inc _, _, ho, _, _ => by simp [subOk] at ho
    | .scalar _ _, .arr _, _, hs, _ => by simp [shaped] at hs
    | .scalar _ _, .flex, _, hs, _ => by simp [shaped] at hs
    | .scalar _ _, .struct _ _, _, hs, _ => by simp [shaped] at hs
    | .scalar _ _, .union _ _ _, _, hs, _ => by simp [shaped] at hs
    | .array _ _, .leaf _, _, hs, _ => by simp [shaped] at hs
    | .array _ _, .flex, _, hs, _ => by simp [shaped] at hs
    | .array _ _, .struct _ _, _, hs, _ => by simp [shaped] at hs
    | .array _ _, .union _ _ _, _, hs, _ => by simp [shaped] at hs
    | .struct _ _ _, .leaf _, _, hs, _ => by simp [shaped] at hs
    | .struct _ _ _, .flex, _, hs, _ => by simp [shaped] at hs
    | .struct _ _ _, .arr _, _, hs, _ => by simp [shaped] at hs
    | .struct _ _ _, .union _ _ _, _, hs, _ => by simp [shaped] at hs
    | .union _ _ _, .leaf _, _, hs, _ => by simp [shaped] at hs
    | .union _ _ _, .flex, _, hs, _ => by simp [shaped] at hs
    | .union _ _ _, .arr _, _, hs, _ => by simp [shaped] at hs
    | .union _ _ _, .struct _ _, _, hs, _ => by simp [shaped] at hs
  theorem zero_all : ∀ (e : Ty) (cs : List Init), subOk e = true → shapedAll e cs = true → hasExprList cs = false →
      cs = List.replicate cs.length (newInit e false)
    | _, [], _, _, _ => by simp
    | e, c :: cs, ho, hs, h => by
      simp only [shapedAll, Bool.and_eq_true] at hs
      simp only [hasExprList, Bool.or_eq_false_iff] at h
      have h1 := zero_of_shaped e c ho hs.1 h.1
      have h2 := zero_all e cs ho hs.2 h.2
      simp only [List.length_cons, List.replicate_succ]
      rw [← h2, ← h1]
  theorem zero_ms : ∀ (ms : Members) (cs : List Init), subOkMs ms = true → shapedMs ms cs = true → hasExprList cs = false →
      cs = newInitMs ms false
    | [], [], _, _, _ => by simp [newInitMs]
    | [], _ :: _, _, hs, _ => by simp [shapedMs] at hs
    | _ :: _, [], _, hs, _ => by simp [shapedMs] at hs
    | (mi, t) :: ms, c :: cs, ho, hs, h => by
      simp only [shapedMs, Bool.and_eq_true] at hs
      simp only [hasExprList, Bool.or_eq_false_iff] at h
      simp only [subOkMs, Bool.and_eq_true] at ho
      rw [newInitMs_cons_false, ← zero_of_shaped t c ho.1 hs.1 h.1, ← zero_ms ms cs ho.2 hs.2 h.2]
end

mutual
  theorem hasExpr_newInit : ∀ (t : Ty) (b : Bool), hasExpr (newInit t b) = false
    | .scalar _ _, _ => by simp [newInit, hasExpr]
    | .array e n, _ => by
      simp only [newInit, hasExpr]
      rw [hasExprList_false_iff]
      intro c hc
      rw [List.eq_of_mem_replicate hc]
      exact hasExpr_newInit e false
    | .inc _, b => by cases b <;> simp [newInit, hasExpr, hasExprList]
    | .struct ms _ f, b => by simp [newInit, hasExpr, hasExprList_newInitMs ms (b && f)]
    | .union ms _ f, b => by simp [newInit, hasExpr, hasExprList_newInitMs ms (b && f)]
  theorem hasExprList_newInitMs : ∀ (ms : Members) (b : Bool), hasExprList (newInitMs ms b) = false
    | [], _ => by simp [newInitMs, hasExprList]
    | [(_, t)], b => by cases b <;> simp [newInitMs, hasExprList, hasExpr, hasExpr_newInit t false]
    | (_, t) :: m :: r, b => by
      simp [newInitMs, hasExprList, hasExpr_newInit t false, hasExprList_newInitMs (m :: r) b]
end

mutual
  theorem shaped_newInit : ∀ (t : Ty), subOk t = true → shaped t (newInit t false) = true
    | .scalar _ _, _ => by simp [newInit, shaped]
    | .array e n, ho => by
      simp only [subOk] at ho
      simp only [newInit, shaped, List.length_replicate, beq_self_eq_true, Bool.true_and]
      rw [shapedAll_iff]
      intro c hc
      rw [List.eq_of_mem_replicate hc]
      exact shaped_newInit e ho
    | .inc _, ho => by simp [subOk] at ho
    | .struct ms _ f, ho => by
      simp only [subOk, Bool.and_eq_true] at ho
      simp [newInit, shaped, shapedMs_newInitMs ms ho.2]
    | .union ms _ f, ho => by
      simp only [subOk, Bool.and_eq_true] at ho
      simp [newInit, shaped, shapedMs_newInitMs ms ho.1.2, hasExprList_newInitMs]
  theorem shapedMs_newInitMs : ∀ (ms : Members), subOkMs ms = true → shapedMs ms (newInitMs ms false) = true
    | [], _ => by simp [newInitMs, shapedMs]
    | (mi, t) :: ms, ho => by
      simp only [subOkMs, Bool.and_eq_true] at ho
      rw [newInitMs_cons_false]
      simp [shapedMs, shaped_newInit t ho.1, shapedMs_newInitMs ms ho.2]
end

/-- without flexible members `new_initializer(ty, true)` is `new_initializer(ty, false)` -/
theorem newInit_true_eq (t : Ty) (ho : subOk t = true) : newInit t true = newInit t false := by
  cases t with
  | scalar => rfl
  | array => rfl
  | inc => simp [subOk] at ho
  | struct ms sz f => simp [subOk] at ho; simp [newInit, ho.1]
  | union ms sz f => simp [subOk] at ho; simp [newInit, ho.1.1]


/-! ### `modifyAt` when nothing switches is `setAtM` -/

theorem except_bind_pure_comp {α β : Type} (x : Except Fail α) (g : α → β) (h : β → β) :
    ((x >>= fun v => pure (g v)) >>= fun c => (pure (h c) : Except Fail β)) = (x >>= fun v => pure (h (g v))) := by
  cases x <;> rfl

theorem switchesUnion_union_some {cs : List Init} {k : Nat} {c : Init} (e : Option Expr) (m : Nat) (p : List Nat)
    (h : cs[k]? = some c) : switchesUnion (.union e (some m) cs) (k :: p) = if m = k then switchesUnion c p else true := by
  rw [switchesUnion]; simp [h]

theorem switchesUnion_other {obj : Init} {k : Nat} {c : Init} (p : List Nat) (h : obj.children[k]? = some c)
    (hn : ∀ e m cs, obj ≠ .union e (some m) cs) : switchesUnion obj (k :: p) = switchesUnion c p := by
  rw [switchesUnion]
  · simp [h]
  · intro e m cs he; exact hn e m cs he

theorem switchesUnion_cons_of_some {obj : Init} {k : Nat} {p : List Nat} {ck : Init} (hk : obj.children[k]? = some ck)
    (h : switchesUnion obj (k :: p) = false) : switchesUnion ck p = false := by
  by_cases hu : ∃ e m cs, obj = .union e (some m) cs
  · obtain ⟨e, m, cs, rfl⟩ := hu
    simp only [Init.children] at hk
    rw [switchesUnion_union_some e m p hk] at h
    split at h
    · exact h
    · simp at h
  · rw [switchesUnion_other p hk (fun e m cs he => hu ⟨e, m, cs, he⟩)] at h
    exact h

theorem modifyAt_eq (root : Ty) (top : Bool) (f : Ty → Init → Except Fail Init) :
    ∀ (q : List Nat) (t0 : Ty) (done : List Nat) (obj0 : Init) (t : Ty) (old : Init),
    tyOk t0 = true → shaped t0 obj0 = true → subTy t0 q = some t → getAt obj0 q = some old → switchesUnion obj0 q = false →
    modifyAt root top f t0 done q obj0 = (f t old >>= fun v => pure (setAtM obj0 q v))
  | [], t0, done, obj0, t, old, _, _, ht, hg, _ => by
    simp [subTy] at ht; simp [getAt] at hg; subst ht; subst hg
    simp [modifyAt, setAtM]
  | k :: p, t0, done, obj0, t, old, ho, hs, ht, hg, hsw => by
    obtain ⟨tc, htc, ht'⟩ := subTy_cons_some ht
    obtain ⟨ck, hk, hg'⟩ := getAt_cons_some hg
    have hlt : k < obj0.children.length := (List.getElem?_eq_some_iff.mp hk).1
    have hoc : subOk tc = true := tyOk_child ho htc
    have ih := fun d => modifyAt_eq root top f p tc d ck t old (subOk_tyOk tc hoc) (shaped_child hs htc hk) ht' hg'
      (switchesUnion_cons_of_some hk hsw)
    match t0, obj0, hs with
    | .scalar _ _, .leaf _, _ => simp [childTy] at htc
    | .array e n, .arr cs, hs =>
      simp only [shaped, Bool.and_eq_true, beq_iff_eq] at hs
      simp only [Init.children] at hk hlt
      simp [childTy] at htc; subst htc
      have hn : k < n := hs.1 ▸ hlt
      rw [modifyAt]
      simp only [hlt, ↓reduceIte, hn, true_or, and_self, getD_of_getElem? hk, ih]
      rw [except_bind_pure_comp]
      simp [setAtM, hk]
    | .inc e, .arr cs, hs =>
      simp only [Init.children] at hk hlt
      simp [childTy] at htc; subst htc
      rw [modifyAt]
      simp only [hlt, ↓reduceIte, getD_of_getElem? hk, ih]
      rw [except_bind_pure_comp]
      simp [setAtM, hk]
    | .struct ms _ _, .struct e cs, hs =>
      simp only [Init.children] at hk hlt
      simp only [childTy, Option.map_eq_some_iff] at htc
      obtain ⟨⟨mi, t'⟩, hm, htc⟩ := htc
      simp at htc; subst htc
      unfold modifyAt
      simp only [hm, getD_of_getElem? hk]
      rw [ih]
      rw [except_bind_pure_comp]
      simp [setAtM, hk]
    | .union ms _ _, .union e m cs, hs =>
      simp only [shaped, Bool.and_eq_true] at hs
      simp only [Init.children] at hk hlt
      simp only [childTy, Option.map_eq_some_iff] at htc
      obtain ⟨⟨mi, t'⟩, hm, htc⟩ := htc
      simp at htc; subst htc
      have hold : (if m = some k then cs.getD k (zeroOf t') else zeroOf t') = ck := by
        cases m with
        | some m' =>
          rw [switchesUnion_union_some e m' p hk] at hsw
          split at hsw
          · rename_i hmk; subst hmk; simp [hk]
          · simp at hsw
        | none =>
          simp only [Option.isSome_none, Bool.false_or, Bool.not_eq_true'] at hs
          have hne : hasExpr ck = false := (hasExprList_false_iff cs).mp hs.2 ck (List.mem_of_getElem? hk)
          have := zero_of_shaped t' ck hoc (shapedMs_get ms cs k mi t' ck hs.1 hm hk) hne
          simp [zeroOf, this]
      unfold modifyAt
      simp only [hm, hold]
      rw [ih]
      rw [except_bind_pure_comp]
      simp [setAtM, hk]

/-! ### a struct root with a flexible array member

The declared object may be a struct whose last member is a flexible array member.  Its node is `.flex` until the first
initializer reaches it and an array of the counted length afterwards (parser), resp. an array that grows (specification), so the
root object is not `shaped` in the member.  `shapedR` is `shaped` up to that member; `pathOk` are the paths at which the parser works
on an ordinary node: not the root struct itself and not the flexible member itself (their elements and everything else are). -/

def isFlexRoot : Ty → Bool
  | .struct _ _ true => true
  | _ => false

/-- children of a struct with flexible array member: ordinary members shaped; the last member unresolved or an array of any length -/
def shapedFlexMs : Members → List Init → Bool
  | [(_, .array e _)], [c] => (match c with | .flex => true | .arr xs => shapedAll e xs | _ => false)
  | (_, t) :: m :: ms, c :: cs => shaped t c && shapedFlexMs (m :: ms) cs
  | _, _ => false

def shapedR (root : Ty) (obj : Init) : Bool :=
  match root with
  | .struct ms _ true => (match obj with | .struct _ cs => shapedFlexMs ms cs | _ => false)
  | t => shaped t obj

def pathOk (root : Ty) (p : List Nat) : Bool :=
  match root with
  | .struct ms _ true => (match p with | [] => false | [k] => k + 1 != ms.length | _ => true)
  | _ => true

theorem shapedR_of_not_flex {root : Ty} {obj : Init} (h : isFlexRoot root = false) : shapedR root obj = shaped root obj := by
  cases root with
  | struct ms sz fl => cases fl <;> simp_all [isFlexRoot, shapedR]
  | _ => rfl

theorem pathOk_of_not_flex {root : Ty} (h : isFlexRoot root = false) (p : List Nat) : pathOk root p = true := by
  cases root with
  | struct ms sz fl => cases fl <;> simp_all [isFlexRoot, pathOk]
  | _ => rfl

theorem isFlexRoot_subOk {t : Ty} (h : subOk t = true) : isFlexRoot t = false := by
  cases t with
  | struct ms sz fl => cases fl <;> simp_all [isFlexRoot, subOk]
  | _ => rfl

theorem isFlexRoot_inc (e : Ty) : isFlexRoot (.inc e) = false := rfl

theorem shapedFlexMs_length : ∀ (ms : Members) (cs : List Init), shapedFlexMs ms cs = true → cs.length = ms.length
  | [], _, h => by simp [shapedFlexMs] at h
  | [(_, t)], cs, h => by
    cases t <;> first | (simp [shapedFlexMs] at h) | skip
    cases cs with
    | nil => simp [shapedFlexMs] at h
    | cons c cs => cases cs with
      | nil => rfl
      | cons _ _ => simp [shapedFlexMs] at h
  | (_, t) :: m :: ms, [], h => by simp [shapedFlexMs] at h
  | (_, t) :: m :: ms, c :: cs, h => by
    simp only [shapedFlexMs, Bool.and_eq_true] at h
    simp [shapedFlexMs_length (m :: ms) cs h.2]

/-- the flexible member's node -/
def flexNode (e : Ty) (c : Init) : Prop := c = .flex ∨ ∃ xs, c = .arr xs ∧ shapedAll e xs = true

theorem shapedFlexMs_get : ∀ (ms : Members) (cs : List Init) (j : Nat) (mi : MemInfo) (t : Ty) (c : Init), shapedFlexMs ms cs = true →
    ms[j]? = some (mi, t) → cs[j]? = some c →
    (j + 1 ≠ ms.length ∧ shaped t c = true) ∨ (j + 1 = ms.length ∧ ∃ e n, t = .array e n ∧ flexNode e c)
  | [], _, _, _, _, _, h, _, _ => by simp [shapedFlexMs] at h
  | [(_, t0)], cs, j, mi, t, c, h, hm, hc => by
    cases j with
    | succ j => simp at hm
    | zero =>
      simp at hm; obtain ⟨_, rfl⟩ := hm
      cases t0 <;> first | (simp [shapedFlexMs] at h) | skip
      rename_i e n
      cases cs with
      | nil => simp at hc
      | cons c0 cs =>
        cases cs with
        | cons _ _ => simp [shapedFlexMs] at h
        | nil =>
          simp at hc; subst hc
          refine Or.inr ⟨rfl, e, n, rfl, ?_⟩
          cases c0 <;> simp [shapedFlexMs] at h
          · exact Or.inr ⟨_, rfl, h⟩
          · exact Or.inl rfl
  | (_, t0) :: m :: ms, [], _, _, _, _, h, _, _ => by simp [shapedFlexMs] at h
  | (_, t0) :: m :: ms, c0 :: cs, j, mi, t, c, h, hm, hc => by
    simp only [shapedFlexMs, Bool.and_eq_true] at h
    cases j with
    | zero =>
      simp at hm hc
      refine Or.inl ⟨by simp, ?_⟩
      rw [← hm.2, ← hc]; exact h.1
    | succ j =>
      simp only [List.getElem?_cons_succ] at hm hc
      rcases shapedFlexMs_get (m :: ms) cs j mi t c h.2 hm hc with ⟨h1, h2⟩ | ⟨h1, h2⟩
      · exact Or.inl ⟨by simp only [List.length_cons] at h1 ⊢; omega, h2⟩
      · exact Or.inr ⟨by simp only [List.length_cons] at h1 ⊢; omega, h2⟩

theorem shapedFlexMs_set : ∀ (ms : Members) (cs : List Init) (j : Nat) (mi : MemInfo) (t : Ty) (v : Init), shapedFlexMs ms cs = true →
    ms[j]? = some (mi, t) →
    ((j + 1 ≠ ms.length ∧ shaped t v = true) ∨ (j + 1 = ms.length ∧ ∃ e n, t = .array e n ∧ flexNode e v)) →
    shapedFlexMs ms (cs.set j v) = true
  | [], _, _, _, _, _, h, _, _ => by simp [shapedFlexMs] at h
  | [(_, t0)], cs, j, mi, t, v, h, hm, hv => by
    cases j with
    | succ j => simp at hm
    | zero =>
      simp at hm; obtain ⟨_, rfl⟩ := hm
      rcases hv with ⟨h1, _⟩ | ⟨_, e, n, rfl, hv⟩
      · simp at h1
      · cases cs with
        | nil => simp [shapedFlexMs] at h
        | cons c0 cs =>
          cases cs with
          | cons _ _ => simp [shapedFlexMs] at h
          | nil =>
            simp only [List.set_cons_zero, shapedFlexMs]
            rcases hv with rfl | ⟨xs, rfl, hx⟩
            · rfl
            · exact hx
  | (_, t0) :: m :: ms, [], _, _, _, _, h, _, _ => by simp [shapedFlexMs] at h
  | (_, t0) :: m :: ms, c0 :: cs, j, mi, t, v, h, hm, hv => by
    simp only [shapedFlexMs, Bool.and_eq_true] at h
    cases j with
    | zero =>
      simp at hm
      rcases hv with ⟨_, hv⟩ | ⟨h1, _⟩
      · simp only [List.set_cons_zero, shapedFlexMs, Bool.and_eq_true]
        rw [hm.2]; exact ⟨hv, h.2⟩
      · simp at h1
    | succ j =>
      simp only [List.getElem?_cons_succ] at hm
      simp only [List.set_cons_succ, shapedFlexMs, Bool.and_eq_true]
      refine ⟨h.1, shapedFlexMs_set (m :: ms) cs j mi t v h.2 hm ?_⟩
      rcases hv with ⟨h1, h2⟩ | ⟨h1, h2⟩
      · exact Or.inl ⟨by simp only [List.length_cons] at h1 ⊢; omega, h2⟩
      · exact Or.inr ⟨by simp only [List.length_cons] at h1 ⊢; omega, h2⟩

theorem growable_false_of {root : Ty} {top : Bool} {p : List Nat} {t : Ty} (ho : tyOk root = true) (hp : pathOk root p = true)
    (ht : subTy root p = some t) (hok : subOk t = true) : growable root top p = false := by
  cases root with
  | scalar => simp [growable]
  | array => simp [growable]
  | inc e' =>
    cases p with
    | nil => simp [subTy] at ht; subst ht; simp [subOk] at hok
    | cons k p => simp [growable]
  | struct ms sz fl =>
    cases fl with
    | false => simp [growable]
    | true =>
      cases p with
      | nil => simp [growable]
      | cons k p =>
        cases p with
        | nil => simp only [pathOk, bne_iff_ne, ne_eq] at hp; simp [growable, hp]
        | cons _ _ => simp [growable]
  | union ms sz fl =>
    simp only [tyOk, subOk, Bool.and_eq_true, Bool.not_eq_true'] at ho
    rw [ho.1.1]; simp [growable]

theorem flexNode_child {e : Ty} {c ci : Init} {i : Nat} (h : flexNode e c) (hi : c.children[i]? = some ci) :
    ∃ xs, c = .arr xs ∧ shapedAll e xs = true ∧ xs[i]? = some ci := by
  rcases h with rfl | ⟨xs, rfl, hx⟩
  · simp [Init.children] at hi
  · exact ⟨xs, rfl, hx, by simpa [Init.children] using hi⟩

/-- the parser's node at an ordinary path of a (possibly flexible) root is shaped -/
theorem shapedR_getAt {root : Ty} {obj : Init} {p : List Nat} {t : Ty} {c : Init} (hs : shapedR root obj = true)
    (hp : pathOk root p = true) (ht : subTy root p = some t) (hc : getAt obj p = some c) : shaped t c = true := by
  cases hfr : isFlexRoot root with
  | false => rw [shapedR_of_not_flex hfr] at hs; exact shaped_getAt p root obj t c hs ht hc
  | true =>
    cases root with
    | struct ms sz fl =>
      cases fl with
      | false => simp [isFlexRoot] at hfr
      | true =>
        cases obj with
        | struct e0 cs =>
          simp only [shapedR] at hs
          cases p with
          | nil => simp [pathOk] at hp
          | cons j p' =>
            obtain ⟨tj, htj, ht'⟩ := subTy_cons_some ht
            obtain ⟨cj, hcj, hc'⟩ := getAt_cons_some hc
            simp only [childTy, Option.map_eq_some_iff] at htj
            obtain ⟨⟨mi, tj'⟩, hm, htj⟩ := htj
            simp at htj; subst htj
            simp only [Init.children] at hcj
            rcases shapedFlexMs_get ms cs j mi tj' cj hs hm hcj with ⟨_, h2⟩ | ⟨h1, e, n, rfl, hn⟩
            · exact shaped_getAt p' tj' cj t c h2 ht' hc'
            · cases p' with
              | nil => simp [pathOk, h1] at hp
              | cons i p'' =>
                obtain ⟨ti, hti, ht''⟩ := subTy_cons_some ht'
                obtain ⟨ci, hci, hc''⟩ := getAt_cons_some hc'
                simp [childTy] at hti; subst hti
                obtain ⟨xs, rfl, hx, hxi⟩ := flexNode_child hn hci
                exact shaped_getAt p'' e ci t c (shapedAll_get e xs i ci hx hxi) ht'' hc''
        | _ => simp [shapedR] at hs
    | _ => simp [isFlexRoot] at hfr

theorem shapedR_setAtM {root : Ty} {obj : Init} {p : List Nat} {t : Ty} {c v : Init} (hs : shapedR root obj = true)
    (hp : pathOk root p = true) (ht : subTy root p = some t) (hc : getAt obj p = some c) (hv : shaped t v = true) :
    shapedR root (setAtM obj p v) = true := by
  cases hfr : isFlexRoot root with
  | false => rw [shapedR_of_not_flex hfr] at hs ⊢; exact shaped_setAtM p root obj t c v hs ht hc hv
  | true =>
    cases root with
    | struct ms sz fl =>
      cases fl with
      | false => simp [isFlexRoot] at hfr
      | true =>
        cases obj with
        | struct e0 cs =>
          simp only [shapedR] at hs
          cases p with
          | nil => simp [pathOk] at hp
          | cons j p' =>
            obtain ⟨tj, htj, ht'⟩ := subTy_cons_some ht
            obtain ⟨cj, hcj, hc'⟩ := getAt_cons_some hc
            simp only [childTy, Option.map_eq_some_iff] at htj
            obtain ⟨⟨mi, tj'⟩, hm, htj⟩ := htj
            simp at htj; subst htj
            simp only [Init.children] at hcj
            simp only [setAtM, shapedR, getD_of_getElem? hcj]
            rcases shapedFlexMs_get ms cs j mi tj' cj hs hm hcj with ⟨h1, h2⟩ | ⟨h1, e, n, rfl, hn⟩
            · exact shapedFlexMs_set ms cs j mi tj' _ hs hm (Or.inl ⟨h1, shaped_setAtM p' tj' cj t c v h2 ht' hc' hv⟩)
            · cases p' with
              | nil => simp [pathOk, h1] at hp
              | cons i p'' =>
                obtain ⟨ti, hti, ht''⟩ := subTy_cons_some ht'
                obtain ⟨ci, hci, hc''⟩ := getAt_cons_some hc'
                simp [childTy] at hti; subst hti
                obtain ⟨xs, rfl, hx, hxi⟩ := flexNode_child hn hci
                refine shapedFlexMs_set ms cs j mi _ _ hs hm (Or.inr ⟨h1, e, n, rfl, Or.inr ⟨xs.set i (setAtM ci p'' v), ?_, ?_⟩⟩)
                · simp only [setAtM, getD_of_getElem? hxi]
                · exact shapedAll_set e xs i _ hx (shaped_setAtM p'' e ci t c v (shapedAll_get e xs i ci hx hxi) ht'' hc'' hv)
        | _ => simp [shapedR] at hs
    | _ => simp [isFlexRoot] at hfr

/-- `modifyAt` from the root of the declared object (the flexible array member included, `top`) when nothing switches is `setAtM` -/
theorem modifyAt_eqR (root : Ty) (top : Bool) (f : Ty → Init → Except Fail Init) {obj : Init} {p : List Nat} {t : Ty} {old : Init}
    (ho : tyOk root = true) (htop : isFlexRoot root = true → top = true) (hs : shapedR root obj = true) (hp : pathOk root p = true)
    (ht : subTy root p = some t) (hg : getAt obj p = some old) (hsw : switchesUnion obj p = false) :
    modifyAt root top f root [] p obj = (f t old >>= fun v => pure (setAtM obj p v)) := by
  cases hfr : isFlexRoot root with
  | false => rw [shapedR_of_not_flex hfr] at hs; exact modifyAt_eq root top f p root [] obj t old ho hs ht hg hsw
  | true =>
    have htt := htop hfr
    subst htt
    cases root with
    | struct ms sz fl =>
      cases fl with
      | false => simp [isFlexRoot] at hfr
      | true =>
        cases obj with
        | struct e0 cs =>
          simp only [shapedR] at hs
          simp only [tyOk] at ho
          cases p with
          | nil => simp [pathOk] at hp
          | cons j p' =>
            obtain ⟨tj, htj, ht'⟩ := subTy_cons_some ht
            obtain ⟨cj, hcj, hg'⟩ := getAt_cons_some hg
            simp only [childTy, Option.map_eq_some_iff] at htj
            obtain ⟨⟨mi, tj'⟩, hm, htj⟩ := htj
            simp at htj; subst htj
            have hsw' := switchesUnion_cons_of_some hcj hsw
            simp only [Init.children] at hcj
            have hoj : subOk tj' = true := flexOkMs_get ms j mi tj' ho hm
            unfold modifyAt
            simp only [hm, getD_of_getElem? hcj]
            rcases shapedFlexMs_get ms cs j mi tj' cj hs hm hcj with ⟨_, h2⟩ | ⟨h1, e, n, rfl, hn⟩
            · rw [modifyAt_eq _ true f p' tj' _ cj t old (subOk_tyOk tj' hoj) h2 ht' hg' hsw']
              rw [except_bind_pure_comp]
              simp [setAtM, hcj]
            · cases p' with
              | nil => simp [pathOk, h1] at hp
              | cons i p'' =>
                obtain ⟨ti, hti, ht''⟩ := subTy_cons_some ht'
                obtain ⟨ci, hci, hg''⟩ := getAt_cons_some hg'
                simp [childTy] at hti; subst hti
                obtain ⟨xs, rfl, hx, hxi⟩ := flexNode_child hn hci
                have hlt : i < xs.length := (List.getElem?_eq_some_iff.mp hxi).1
                have hsw'' := switchesUnion_cons_of_some hci hsw'
                have hoe : subOk e = true := by simpa [subOk] using hoj
                have hgr : growable (.struct ms sz true) true ([] ++ [j]) = true := by simp [growable, h1]
                unfold modifyAt
                simp only [hlt, ↓reduceIte, hgr, or_true, and_self, getD_of_getElem? hxi]
                rw [modifyAt_eq _ true f p'' e _ ci t old (subOk_tyOk e hoe) (shapedAll_get e xs i ci hx hxi) ht'' hg'' hsw'']
                rw [except_bind_pure_comp, except_bind_pure_comp]
                simp [setAtM, hcj, hxi]
        | _ => simp [shapedR] at hs
    | _ => simp [isFlexRoot] at hfr

end ChibiVerif.InitSpec
