/-
C01: from a table of lvalues to the hypothesis `AccOK` of `value_a` — if the lvalue `lvOf lvs i` has side-effect-free address
code (`pureAddr`), designates object `i` in the reference store (`lvAddr … = addrOf bp0 (off i)`) and the variables its address
depends on are in `D`, then `accOfL` reaches object `i` in every store that agrees with the reference store on `D`.
-/
import ChibiVerif.Lemmas.C01ValueA

namespace ChibiVerif.C01
open ChibiVerif.X86 ChibiVerif.Asm ChibiVerif.Spec.IntSpec ChibiVerif.Gen.CommonType ChibiVerif.C01Codegen ChibiVerif.X86J

/-- the `compileE` fragment: no side effects, no conflicts, no labels -/
theorem pure_facts (tys : List ITy) (off : Nat → Int) (e : E) : ∀ (t : ITy) (c : List Ins), compileE tys off e = some (t, c) →
    wr e = [] ∧ noConflict e = true ∧ depthJ e = depthE e := by
  induction e with
  | lit t0 v0 => intro t c _; exact ⟨rfl, rfl, rfl⟩
  | var i => intro t c _; exact ⟨rfl, rfl, rfl⟩
  | cast t0 e ih =>
    intro t c h
    simp only [compileE, Option.map_eq_some_iff] at h
    obtain ⟨⟨te, c0⟩, h0, _⟩ := h
    obtain ⟨a, b, d⟩ := ih te c0 h0
    exact ⟨by simpa [wr] using a, by simpa [noConflict] using b, by simpa [depthJ, depthE] using d⟩
  | un op e ih =>
    intro t c h
    simp only [compileE, Option.map_eq_some_iff] at h
    obtain ⟨⟨te, c0⟩, h0, _⟩ := h
    obtain ⟨a, b, d⟩ := ih te c0 h0
    exact ⟨by simpa [wr] using a, by simpa [noConflict] using b, by simpa [depthJ, depthE] using d⟩
  | bin op a b iha ihb =>
    intro t c h
    simp only [compileE] at h
    cases ha : compileE tys off a with
    | none => simp [ha] at h
    | some pa =>
      cases hb : compileE tys off b with
      | none => simp [ha, hb] at h
      | some pb =>
        obtain ⟨a1, a2, a3⟩ := iha pa.1 pa.2 ha
        obtain ⟨b1, b2, b3⟩ := ihb pb.1 pb.2 hb
        exact ⟨by simp [wr, a1, b1], by simp [noConflict, a1, b1, a2, b2, disjointL], by simp [depthJ, depthE, a3, b3]⟩
  | land a b => intro t c h; simp [compileE] at h
  | lor a b => intro t c h; simp [compileE] at h
  | cond cnd a b => intro t c h; simp [compileE] at h
  | comma a b => intro t c h; simp [compileE] at h
  | assign i e => intro t c h; simp [compileE] at h
  | opassign op i e => intro t c h; simp [compileE] at h
  | preinc i => intro t c h; simp [compileE] at h
  | predec i => intro t c h; simp [compileE] at h
  | postinc i => intro t c h; simp [compileE] at h
  | postdec i => intro t c h; simp [compileE] at h

theorem compileJ_pure (tys : List ITy) (off toff : Nat → Int) (e : E) (t : ITy) (c : List Ins) (k cc : Nat)
    (h : compileE tys off e = some (t, c)) : compileJ tys off toff k cc e = some (t, J c, k, cc) :=
  (compileJ_of_compileX tys off toff e k cc t c k (compileX_pure tys off toff e t c k h)).1

/-- an evaluation that writes nothing leaves the store alone -/
theorem evalE_store_of_wr_nil (e : E) (σ : Env) (v : Int) (σ' : Env) (hw : wr e = []) (h : evalE σ e = some (v, σ')) : σ' = σ := by
  have f := evalE_frm_all e σ v σ' h
  exact env_ext f.tys (fun i => f.same i (by rw [hw]; simp))

theorem J_ptrAddCode (ti : ITy) (size : Int) (ci cp : List Ins) :
    ptrAddCodeJ ti size (J ci) (J cp) = J (ptrAddCode false ti size ci cp) := by
  simp [ptrAddCodeJ, scaleCodeJ, ptrAddCode, scaleCode, J, List.map_append]

/-- the address code of a side-effect-free lvalue is `addrCode`, without temporaries or labels -/
theorem addrCode_pure (tys : List ITy) (off toff : Nat → Int) (lv : LVal) : ∀ (pc : List Ins) (k c : Nat),
    pureAddr tys off lv = some pc → addrCode tys off toff k c lv = some (J pc, k, c) := by
  induction lv with
  | var i => intro pc k c h; simp only [pureAddr, Option.some.injEq] at h; subst h; rfl
  | deref j => intro pc k c h; simp only [pureAddr, Option.some.injEq] at h; subst h; rfl
  | member l d ih =>
    intro pc k c h
    simp only [pureAddr, Option.map_eq_some_iff] at h
    obtain ⟨c0, h0, rfl⟩ := h
    simp [addrCode, ih c0 k c h0, J_append]
  | index i0 esz ie =>
    intro pc k c h
    simp only [pureAddr, Option.map_eq_some_iff] at h
    obtain ⟨⟨ti, ci⟩, h0, rfl⟩ := h
    simp only [addrCode, compileJ_pure tys off toff ie ti ci k c h0, Option.map_some]
    rw [J_ptrAddCode]
  | pindex j esz ie =>
    intro pc k c h
    simp only [pureAddr, Option.map_eq_some_iff] at h
    obtain ⟨⟨ti, ci⟩, h0, rfl⟩ := h
    simp only [addrCode, compileJ_pure tys off toff ie ti ci k c h0, Option.map_some]
    rw [J_ptrAddCode]

theorem pureAddr_facts (tys : List ITy) (off : Nat → Int) (lv : LVal) : ∀ (pc : List Ins), pureAddr tys off lv = some pc →
    wrL lv = [] ∧ noConflictL lv = true := by
  induction lv with
  | var i => intro pc _; exact ⟨rfl, rfl⟩
  | deref j => intro pc _; exact ⟨rfl, rfl⟩
  | member l d ih =>
    intro pc h
    simp only [pureAddr, Option.map_eq_some_iff] at h
    obtain ⟨c0, h0, _⟩ := h
    exact ih c0 h0
  | index i0 esz ie =>
    intro pc h
    simp only [pureAddr, Option.map_eq_some_iff] at h
    obtain ⟨⟨ti, ci⟩, h0, _⟩ := h
    have f := pure_facts tys off ie ti ci h0
    exact ⟨f.1, f.2.1⟩
  | pindex j esz ie =>
    intro pc h
    simp only [pureAddr, Option.map_eq_some_iff] at h
    obtain ⟨⟨ti, ci⟩, h0, _⟩ := h
    have f := pure_facts tys off ie ti ci h0
    exact ⟨f.1, f.2.1⟩

/-- **the address of a side-effect-free lvalue depends only on the variables its address computation reads** -/
theorem lvAddr_agree (bp0 : BitVec 64) (off : Nat → Int) (D : List Nat) (lv : LVal) : ∀ (σ σr : Env) (pc : List Ins) (a : BitVec 64)
    (σx : Env), pureAddr σ.tys off lv = some pc → Agr D σ σr → (∀ j, j ∈ rdL lv → j ∈ D) → lvAddr bp0 off σr lv = some (a, σx) →
    lvAddr bp0 off σ lv = some (a, σ) := by
  induction lv with
  | var i =>
    intro σ σr pc a σx _ _ _ h
    simp only [lvAddr, Option.some.injEq, Prod.mk.injEq] at h ⊢
    exact ⟨h.1, trivial⟩
  | deref j =>
    intro σ σr pc a σx _ hag hd h
    simp only [lvAddr] at h ⊢
    have hj := hag.on j (hd j (by simp [rdL]))
    rw [hag.tys, hj]
    split at h
    · rename_i ht
      simp only [ht, if_true]
      simp only [Option.map_eq_some_iff, Prod.mk.injEq] at h ⊢
      obtain ⟨p, hp, rfl, _⟩ := h
      exact ⟨p, hp, rfl, trivial⟩
    · simp at h
  | member l d ih =>
    intro σ σr pc a σx hp hag hd h
    simp only [pureAddr, Option.map_eq_some_iff] at hp
    obtain ⟨c0, h0, _⟩ := hp
    simp only [lvAddr, Option.map_eq_some_iff, Prod.mk.injEq] at h ⊢
    obtain ⟨⟨a0, σ'⟩, hl, h1, _⟩ := h
    simp only at h1
    exact ⟨(a0, σ), ih σ σr c0 a0 σ' h0 hag hd hl, h1, rfl⟩
  | index i0 esz ie =>
    intro σ σr pc a σx hp hag hd h
    simp only [pureAddr, Option.map_eq_some_iff] at hp
    obtain ⟨⟨ti, ci⟩, h0, _⟩ := hp
    have f := pure_facts σ.tys off ie ti ci h0
    simp only [lvAddr, Option.map_eq_some_iff, Prod.mk.injEq] at h ⊢
    obtain ⟨⟨k, σ'⟩, he, h1, _⟩ := h
    simp only at h1
    have hagr : Agr D σr σ := ⟨hag.tys.symm, hag.len.symm, fun i hi => (hag.on i hi).symm⟩
    obtain ⟨σ2, he2, _⟩ := evalE_agree_all ie D σr σ k σ' hd hagr he
    have := evalE_store_of_wr_nil ie σ k σ2 f.1 he2
    subst this
    exact ⟨(k, σ2), he2, h1, rfl⟩
  | pindex j esz ie =>
    intro σ σr pc a σx hp hag hd h
    simp only [pureAddr, Option.map_eq_some_iff] at hp
    obtain ⟨⟨ti, ci⟩, h0, _⟩ := hp
    have f := pure_facts σ.tys off ie ti ci h0
    simp only [lvAddr, Option.bind_eq_some_iff] at h ⊢
    obtain ⟨⟨k, σ'⟩, he, h⟩ := h
    simp only at h
    have hagr : Agr D σr σ := ⟨hag.tys.symm, hag.len.symm, fun i hi => (hag.on i hi).symm⟩
    obtain ⟨σ2, he2, _⟩ := evalE_agree_all ie D σr σ k σ' (fun i hi => hd i (by simp [rdL, hi])) hagr he
    have e2 := evalE_store_of_wr_nil ie σ k σ2 f.1 he2
    subst e2
    have e1 := evalE_store_of_wr_nil ie σr k σ' f.1 he
    subst e1
    refine ⟨(k, σ2), he2, ?_⟩
    simp only
    have hj := hag.on j (hd j (by simp [rdL]))
    rw [hag.tys, hj]
    split at h
    · rename_i ht
      simp only [ht, if_true]
      simp only [Option.map_eq_some_iff, Prod.mk.injEq] at h ⊢
      obtain ⟨p, hp, rfl, _⟩ := h
      exact ⟨p, hp, rfl, trivial⟩
    · simp at h

/-- **a table of side-effect-free lvalues reaches the objects they designate** -/
theorem accOK_of_table (bp0 : BitVec 64) (off toff : Nat → Int) (K : Nat) (D : List Nat) (σr : Env) (lvs : List LVal) (i : Nat)
    (σx : Env) (hok : lvOK σr.tys off D (lvOf lvs i) = true)
    (hdes : lvAddr bp0 off σr (lvOf lvs i) = some (frameAddr bp0 (off i), σx)) :
    AccOK bp0 off toff K (accOfL σr.tys off lvs) D σr i := by
  simp only [lvOK, Bool.and_eq_true, List.all_eq_true, List.contains_eq_mem, decide_eq_true_eq] at hok
  obtain ⟨⟨hpa, hwf⟩, hdep⟩ := hok
  obtain ⟨pc, hpc⟩ := Option.isSome_iff_exists.1 hpa
  obtain ⟨ap, dd, hap, hsum, hds⟩ := lvAddr_split bp0 off σr _ _ σx hdes
  obtain ⟨s1, s2, s3, s4⟩ := split_facts (lvOf lvs i)
  have hdep' : ∀ j, j ∈ rdL (splitMember (lvOf lvs i)).1 → j ∈ D := by
    intro j hj
    apply hdep j
    cases hl : lvOf lvs i <;> simp_all [splitMember, rdL]
  refine ⟨ap, dd, hsum, ?_, ?_⟩
  · simpa [accOfL] using hds
  · intro σ hI k hk
    have hty : σ.tys = σr.tys := hI.tys
    have hpc' : pureAddr σ.tys off (splitMember (lvOf lvs i)).1 = some pc := by rw [hty]; exact hpc
    have ha := lvAddr_agree bp0 off D _ σ σr pc ap σx hpc' hI hdep' hap
    have hc := addrCode_pure σ.tys off toff _ pc k 0 hpc'
    have pf := pureAddr_facts σ.tys off _ pc hpc'
    have E := addr_ev bp0 off toff K _ σ (J pc) ap σ k k 0 0 hc ha pf.2 (by rw [s2]; exact hwf) hk
    rw [pf.1] at E
    simpa [accOfL, hpc] using E

/-! ### with every object a plain variable, `compileA` is `compileJ` -/

theorem opAssignCodeL_direct (k : NK) (op : BinOp) (ti tb : ITy) (offA tmp : Int) (cb : List JI) :
    opAssignCodeL k op ti tb tmp (J [iLea offA]) [] cb = opAssignCodeJ k op ti tb offA tmp cb := by
  simp [opAssignCodeL, opAssignCodeJ, viaTmp, J, List.map_append]

theorem compileA_direct (tys : List ITy) (off toff : Nat → Int) (e : E) : ∀ (k c : Nat),
    compileA tys toff (Acc.direct off) k c e = compileJ tys off toff k c e := by
  induction e with
  | lit t v => intro k c; rfl
  | var i => intro k c; simp [compileA, compileJ, Acc.direct, Acc.acode]
  | cast t e ih => intro k c; simp [compileA, compileJ, ih]
  | un op e ih => intro k c; simp only [compileA, compileJ, ih]; rfl
  | bin op a b iha ihb => intro k c; simp only [compileA, compileJ, iha, ihb]; rfl
  | comma a b iha ihb => intro k c; simp only [compileA, compileJ, iha, ihb]; rfl
  | land a b iha ihb => intro k c; simp only [compileA, compileJ, iha, ihb]; rfl
  | lor a b iha ihb => intro k c; simp only [compileA, compileJ, iha, ihb]; rfl
  | cond cnd a b ihc iha ihb => intro k c; simp only [compileA, compileJ, ihc, iha, ihb]; rfl
  | assign i e ih =>
    intro k c
    simp only [compileA, compileJ, ih]
    cases tys[i]? <;> cases compileJ tys off toff k c e <;> simp [Acc.direct, Acc.acode, J]
  | opassign op i e ih =>
    intro k c
    simp only [compileA, compileJ, ih]
    cases tys[i]? <;> cases compileJ tys off toff k c e <;> simp [Acc.direct, opAssignCodeL_direct]
  | preinc i =>
    intro k c
    simp only [compileA, compileJ, compileX]
    cases tys[i]? <;> simp [Acc.direct, opAssignCodeL_direct, J_opAssignCode]
  | predec i =>
    intro k c
    simp only [compileA, compileJ, compileX]
    cases tys[i]? <;> simp [Acc.direct, opAssignCodeL_direct, J_opAssignCode]
  | postinc i =>
    intro k c
    simp only [compileA, compileJ, compileX]
    cases hti : tys[i]? with
    | none => simp
    | some ti =>
      by_cases hb : ti = .bool
      · simp [hb]
      · have h1 : opAssignCodeL .ND_ADD .add ti .i32 (toff k) (J [iLea (off i)]) [] (J [iMovImm 1]) =
            J (opAssignCode .ND_ADD .add ti .i32 (off i) (toff k) [iMovImm 1]) := by rw [opAssignCodeL_direct, J_opAssignCode]
        simp only [hb, if_false, Option.map_some, postCodeA, Acc.direct, h1]
        simp [J, List.map_append]
  | postdec i =>
    intro k c
    simp only [compileA, compileJ, compileX]
    cases hti : tys[i]? with
    | none => simp
    | some ti =>
      by_cases hb : ti = .bool
      · simp [hb]
      · have h1 : opAssignCodeL .ND_ADD .add ti .i32 (toff k) (J [iLea (off i)]) [] (J [iMovImm (-1)]) =
            J (opAssignCode .ND_ADD .add ti .i32 (off i) (toff k) [iMovImm (-1)]) := by rw [opAssignCodeL_direct, J_opAssignCode]
        simp only [hb, if_false, Option.map_some, postCodeA, Acc.direct, h1]
        simp [J, List.map_append]

end ChibiVerif.C01
