/-
Helper lemmas for C18 (Model/LineNo.lean against Spec/LineSpec.lean).
-/
import ChibiVerif.Model.LineNo
import ChibiVerif.Spec.LineSpec

namespace ChibiVerif.LineNo
open ChibiVerif.Spec.Line (countTerm endsTerm physLine pendingAt pendingSplices spliceBefore)

set_option linter.unusedSimpArgs false

theorem LF_def : LF = 10 := rfl
theorem CR_def : CR = 13 := rfl
theorem BSL_def : BSL = 92 := rfl
theorem sLF_def : Spec.Line.LF = 10 := rfl
theorem sCR_def : Spec.Line.CR = 13 := rfl
theorem sBSL_def : Spec.Line.BSL = 92 := rfl

attribute [local simp] LF_def CR_def BSL_def sLF_def sCR_def sBSL_def

/-! ### countLF -/

@[simp] theorem countLF_nil : countLF [] = 0 := rfl
@[simp] theorem countLF_cons (a : Nat) (r : List Nat) : countLF (a :: r) = (if a = LF then 1 else 0) + countLF r := rfl

theorem countLF_append (l₁ l₂ : List Nat) : countLF (l₁ ++ l₂) = countLF l₁ + countLF l₂ := by
  induction l₁ with
  | nil => simp
  | cons a r ih => simp [ih]; omega

@[simp] theorem countLF_replicate (n : Nat) : countLF (List.replicate n LF) = n := by
  induction n with
  | zero => rfl
  | succ n ih => simp [List.replicate_succ, ih]; omega

/-! ### canonicalize_newline -/

/-- cutting the text anywhere except between CR and LF commutes with `canonicalize_newline` -/
theorem canon_append (pre rest : List Nat) (h : rest.head? ≠ some LF) :
    canonicalizeNewline (pre ++ rest) = canonicalizeNewline pre ++ canonicalizeNewline rest := by
  fun_induction canonicalizeNewline pre with
  | case1 => simp
  | case2 =>
    cases rest with
    | nil => simp [canonicalizeNewline]
    | cons b r =>
      have : b ≠ LF := by simpa using h
      simp [canonicalizeNewline, this]
  | case3 a ha =>
    cases rest with
    | nil => simp [canonicalizeNewline, ha]
    | cons b r => simp [canonicalizeNewline, ha]
  | case4 rest' ih => simp [canonicalizeNewline, ih]
  | case5 b rest' hb ih =>
    have := ih
    simp only [List.cons_append] at this ⊢
    simp [canonicalizeNewline, hb, this]
  | case6 a b rest' ha ih =>
    have := ih
    simp only [List.cons_append] at this ⊢
    simp [canonicalizeNewline, ha, this]

/-- each CR, CR LF, LF becomes exactly one '\n' -/
theorem countLF_canon (prev : Nat) (l : List Nat) (h : ¬ (prev = CR ∧ l.head? = some LF)) :
    countLF (canonicalizeNewline l) = countTerm prev l := by
  fun_induction canonicalizeNewline l generalizing prev with
  | case1 => simp [countTerm]
  | case2 => simp [countTerm, endsTerm, LF_def, CR_def, sLF_def, sCR_def]
  | case3 a ha =>
    simp only [LF_def, CR_def, sLF_def, sCR_def] at *
    by_cases hl : a = 10
    · subst hl; simp at h; simp [countTerm, endsTerm, h, LF_def, CR_def, sLF_def, sCR_def]
    · simp [countTerm, endsTerm, ha, hl, LF_def, CR_def, sLF_def, sCR_def]
  | case4 rest ih =>
    have := ih LF (by simp [LF_def, CR_def])
    simp [countTerm, endsTerm, this, LF_def, CR_def, sLF_def, sCR_def]
  | case5 b rest hb ih =>
    have := ih CR (by simp [hb])
    simp only [LF_def, CR_def, sLF_def, sCR_def] at *
    simp [countTerm, endsTerm, this, LF_def, CR_def, sLF_def, sCR_def]
  | case6 a b rest ha ih =>
    have := ih a (by simp [ha])
    simp only [LF_def, CR_def, sLF_def, sCR_def] at *
    by_cases hl : a = 10
    · subst hl; simp at h; simp [countTerm, endsTerm, h, this, LF_def, CR_def, sLF_def, sCR_def]
    · simp [countTerm, endsTerm, ha, hl, this, LF_def, CR_def, sLF_def, sCR_def]

theorem canon_head (l : List Nat) (a : Nat) (h : l.head? = some a) (ha : a ≠ CR) :
    (canonicalizeNewline l).head? = some a := by
  cases l with
  | nil => simp at h
  | cons x r =>
    simp at h; subst h
    cases r with
    | nil => simp [canonicalizeNewline, ha]
    | cons y r' => simp [canonicalizeNewline, ha]

/-- bytes other than CR and LF pass through `canonicalize_newline` unchanged and in order -/
theorem canon_others (l : List Nat) :
    (canonicalizeNewline l).filter (fun b => b != LF) = l.filter (fun b => b != CR && b != LF) := by
  fun_induction canonicalizeNewline l with
  | case1 => simp
  | case2 => simp [LF_def, CR_def]
  | case3 a ha => by_cases hl : a = 10 <;> simp_all
  | case4 rest ih => simp_all
  | case5 b rest hb ih => simp_all
  | case6 a b rest ha ih => by_cases hl : a = 10 <;> simp_all

/-- `canonicalize_newline` leaves no CR -/
theorem canon_no_CR (l : List Nat) : CR ∉ canonicalizeNewline l := by
  fun_induction canonicalizeNewline l with
  | case1 => simp
  | case2 => simp [LF_def, CR_def]
  | case3 a ha => simp only [LF_def, CR_def] at *; simp; omega
  | case4 rest ih => simp only [LF_def, CR_def] at *; simp [ih]
  | case5 b rest hb ih => simp only [LF_def, CR_def] at *; simp [ih]
  | case6 a b rest ha ih => simp only [LF_def, CR_def] at *; simp [ih]; omega

/-! ### remove_backslash_newline -/

/-- value of the counter `n` after scanning a prefix that ends at a scan boundary -/
def scanN : List Nat → Nat → Nat
  | [], n => n
  | [a], n => if a = LF then 0 else n
  | a :: b :: rest, n =>
    if a = BSL ∧ b = LF then scanN rest (n + 1)
    else if a = LF then scanN (b :: rest) 0
    else scanN (b :: rest) n

/-- a cut is at a scan boundary unless it separates a backslash from its newline -/
def cutOK (pre rest : List Nat) : Prop := pre.getLast? ≠ some BSL ∨ rest.head? ≠ some LF

theorem cutOK_tail2 {a b : Nat} {pre rest : List Nat} (h : cutOK (a :: b :: pre) rest) : cutOK pre rest := by
  unfold cutOK at *
  cases pre with
  | nil => left; simp
  | cons c r => simpa [List.getLast?_cons_cons] using h

theorem cutOK_tail {a b : Nat} {pre rest : List Nat} (h : cutOK (a :: b :: pre) rest) : cutOK (b :: pre) rest := by
  unfold cutOK at *
  simpa [List.getLast?_cons_cons] using h

/-- scanning `pre ++ rest` = what scanning `pre` writes, then scanning `rest` with the counter `pre` left -/
theorem splice_append (pre rest : List Nat) (n : Nat) (h : cutOK pre rest) :
    removeBackslashNewlineAux (pre ++ rest) n
      = spliceEmit pre n ++ removeBackslashNewlineAux rest (scanN pre n) := by
  induction pre, n using removeBackslashNewlineAux.induct with
  | case1 n => simp [scanN, spliceEmit]
  | case2 a n =>
    cases rest with
    | nil => by_cases ha : a = LF <;> simp [removeBackslashNewlineAux, scanN, ha, spliceEmit]
    | cons b r =>
      have hnot : ¬ (a = BSL ∧ b = LF) := by
        intro hh; unfold cutOK at h; simp [hh.1, hh.2] at h
      by_cases ha : a = LF
      · subst ha; simp [removeBackslashNewlineAux, scanN, spliceEmit, LF_def, BSL_def]
      · simp [removeBackslashNewlineAux, scanN, ha, hnot, spliceEmit]
  | case3 a b pre' n hs ih =>
    have := ih (cutOK_tail2 h)
    simp only [List.cons_append] at this ⊢
    simp [removeBackslashNewlineAux, scanN, spliceEmit, hs, this]
  | case4 b pre' n hs ih =>
    have := ih (cutOK_tail h)
    simp only [List.cons_append] at this ⊢
    simp [removeBackslashNewlineAux, scanN, spliceEmit, hs, this]
  | case5 a b pre' n hs ha ih =>
    have := ih (cutOK_tail h)
    simp only [List.cons_append] at this ⊢
    simp [removeBackslashNewlineAux, scanN, spliceEmit, hs, ha, this]

/-- output newlines + pending removed newlines = input newlines (+ the pending ones at the start) -/
theorem countLF_spliceEmit (p : List Nat) (n : Nat) :
    countLF (spliceEmit p n) + scanN p n = n + countLF p := by
  induction p, n using removeBackslashNewlineAux.induct with
  | case1 n => simp [scanN, spliceEmit]
  | case2 a n => by_cases ha : a = LF <;> simp [scanN, spliceEmit, ha] <;> omega
  | case3 a b r n hs ih =>
    obtain ⟨rfl, rfl⟩ := hs
    simp [scanN, spliceEmit, LF_def, BSL_def] at ih ⊢
    omega
  | case4 b r n hs ih =>
    simp [scanN, spliceEmit, hs, countLF_append] at ih ⊢
    omega
  | case5 a b r n hs ha ih =>
    simp [scanN, spliceEmit, hs, ha] at ih ⊢
    omega

theorem splice_eq_emit (p : List Nat) (n : Nat) :
    removeBackslashNewlineAux p n = spliceEmit p n ++ List.replicate (scanN p n) LF := by
  have := splice_append p [] n (by unfold cutOK; right; simp)
  simpa [removeBackslashNewlineAux] using this

/-- `remove_backslash_newline` preserves the number of '\n' -/
theorem countLF_splice (p : List Nat) (n : Nat) : countLF (removeBackslashNewlineAux p n) = n + countLF p := by
  rw [splice_eq_emit, countLF_append, countLF_replicate, countLF_spliceEmit]

/-- look-behind form of the counter over the canonical text -/
def pendCanon (prev n : Nat) : List Nat → Nat
  | [] => n
  | a :: r => pendCanon a (if a = LF then (if prev = BSL then n + 1 else 0) else n) r

theorem scanN_eq_pendCanon (p : List Nat) (n prev : Nat) (h : prev ≠ BSL ∨ p.head? ≠ some LF) :
    scanN p n = pendCanon prev n p := by
  induction p, n using removeBackslashNewlineAux.induct generalizing prev with
  | case1 n => simp [pendCanon, scanN]
  | case2 a n =>
    by_cases ha : a = LF
    · subst ha
      have hp : prev ≠ BSL := by simpa using h
      simp [pendCanon, scanN, hp]
    · simp [pendCanon, scanN, ha]
  | case3 a b r n hs ih =>
    obtain ⟨rfl, rfl⟩ := hs
    have := ih LF (by left; simp [LF_def, BSL_def])
    simp [pendCanon, scanN, this, LF_def, BSL_def]
  | case4 b r n hs ih =>
    have hp : prev ≠ BSL := by simpa using h
    have := ih LF (by left; simp [LF_def, BSL_def])
    simp [scanN, hs, this, pendCanon, hp]
  | case5 a b r n hs ha ih =>
    have := ih a (by
      by_cases hb : a = BSL
      · right; simp; intro hb'; exact hs ⟨hb, hb'⟩
      · left; exact hb)
    simp [scanN, hs, ha, this, pendCanon]

/-- the spec's byte-level counter agrees with the counter over the canonical text -/
theorem pendingAt_canon (l : List Nat) (p p' n : Nat) (hb : p = BSL ↔ p' = BSL)
    (h : ¬ (p = CR ∧ l.head? = some LF)) :
    pendingAt p n l = pendCanon p' n (canonicalizeNewline l) := by
  fun_induction canonicalizeNewline l generalizing p p' n with
  | case1 => simp [pendingAt, pendCanon]
  | case2 => simp at hb; simp [pendingAt, pendCanon, hb]
  | case3 a ha =>
    simp at hb ha h
    by_cases hl : a = 10
    · subst hl; simp at h; simp [pendingAt, pendCanon, h, hb]
    · simp [pendingAt, pendCanon, ha, hl]
  | case4 rest ih =>
    have := fun m => ih LF LF m (by simp) (by simp)
    simp at hb this
    simp [pendingAt, pendCanon, this, hb]
  | case5 b rest hb' ih =>
    have := fun m => ih CR LF m (by simp) (by simpa using hb')
    simp at hb this hb'
    simp [pendingAt, pendCanon, hb]
    rw [← this]
    simp [pendingAt]
  | case6 a b rest ha ih =>
    have := fun m => ih a a m (by simp) (by simpa using fun h' => absurd h' ha)
    simp at hb this ha h
    by_cases hl : a = 10
    · subst hl
      have hp : ¬ p = 13 := by simpa using h
      simp [pendingAt, pendCanon, hp, hb]
      rw [← this]; simp [pendingAt]
    · simp [pendingAt, pendCanon, ha, hl]
      rw [← this]; simp [pendingAt, ha]

end ChibiVerif.LineNo
