/-
Helper lemmas for C18 (Model/LineNo.lean against Spec/LineSpec.lean).
-/
import ChibiVerif.Model.LineNo
import ChibiVerif.Spec.LineSpec

namespace ChibiVerif.LineNo
open ChibiVerif.Spec.Line (countTerm endsTerm physLine pendingAt pendingSplices spliceBefore)

set_option linter.unusedSimpArgs false

theorem LF_def : LF = 10 := rfl
theorem CR_def : CR = 13 := rfl
theorem BSL_def : BSL = 92 := rfl
theorem sLF_def : Spec.Line.LF = 10 := rfl
theorem sCR_def : Spec.Line.CR = 13 := rfl
theorem sBSL_def : Spec.Line.BSL = 92 := rfl

attribute [local simp] LF_def CR_def BSL_def sLF_def sCR_def sBSL_def

/-! ### countLF -/

@[simp] theorem countLF_nil : countLF [] = 0 := rfl
@[simp] theorem countLF_cons (a : Nat) (r : List Nat) : countLF (a :: r) = (if a = LF then 1 else 0) + countLF r := rfl

theorem countLF_append (l₁ l₂ : List Nat) : countLF (l₁ ++ l₂) = countLF l₁ + countLF l₂ := by
  induction l₁ with
  | nil => simp
  | cons a r ih => simp [ih]; omega

@[simp] theorem countLF_replicate (n : Nat) : countLF (List.replicate n LF) = n := by
  induction n with
  | zero => rfl
  | succ n ih => simp [List.replicate_succ, ih]; omega

/-! ### canonicalize_newline -/

/-- cutting the text anywhere except between CR and LF commutes with `canonicalize_newline` -/
theorem canon_append (pre rest : List Nat) (h : rest.head? ≠ some LF) :
    canonicalizeNewline (pre ++ rest) = canonicalizeNewline pre ++ canonicalizeNewline rest := by
  fun_induction canonicalizeNewline pre with
  | case1 => simp
  | case2 =>
    cases rest with
    | nil => simp [canonicalizeNewline]
    | cons b r =>
      have : b ≠ LF := by simpa using h
      simp [canonicalizeNewline, this]
  | case3 a ha =>
    cases rest with
    | nil => simp [canonicalizeNewline, ha]
    | cons b r => simp [canonicalizeNewline, ha]
  | case4 rest' ih => simp [canonicalizeNewline, ih]
  | case5 b rest' hb ih =>
    have := ih
    simp only [List.cons_append] at this ⊢
    simp [canonicalizeNewline, hb, this]
  | case6 a b rest' ha ih =>
    have := ih
    simp only [List.cons_append] at this ⊢
    simp [canonicalizeNewline, ha, this]

/-- each CR, CR LF, LF becomes exactly one '\n' -/
theorem countLF_canon (prev : Nat) (l : List Nat) (h : ¬ (prev = CR ∧ l.head? = some LF)) :
    countLF (canonicalizeNewline l) = countTerm prev l := by
  fun_induction canonicalizeNewline l generalizing prev with
  | case1 => simp [countTerm]
  | case2 => simp [countTerm, endsTerm, LF_def, CR_def, sLF_def, sCR_def]
  | case3 a ha =>
    simp only [LF_def, CR_def, sLF_def, sCR_def] at *
    by_cases hl : a = 10
    · subst hl; simp at h; simp [countTerm, endsTerm, h, LF_def, CR_def, sLF_def, sCR_def]
    · simp [countTerm, endsTerm, ha, hl, LF_def, CR_def, sLF_def, sCR_def]
  | case4 rest ih =>
    have := ih LF (by simp [LF_def, CR_def])
    simp [countTerm, endsTerm, this, LF_def, CR_def, sLF_def, sCR_def]
  | case5 b rest hb ih =>
    have := ih CR (by simp [hb])
    simp only [LF_def, CR_def, sLF_def, sCR_def] at *
    simp [countTerm, endsTerm, this, LF_def, CR_def, sLF_def, sCR_def]
  | case6 a b rest ha ih =>
    have := ih a (by simp [ha])
    simp only [LF_def, CR_def, sLF_def, sCR_def] at *
    by_cases hl : a = 10
    · subst hl; simp at h; simp [countTerm, endsTerm, h, this, LF_def, CR_def, sLF_def, sCR_def]
    · simp [countTerm, endsTerm, ha, hl, this, LF_def, CR_def, sLF_def, sCR_def]

theorem canon_head (l : List Nat) (a : Nat) (h : l.head? = some a) (ha : a ≠ CR) :
    (canonicalizeNewline l).head? = some a := by
  cases l with
  | nil => simp at h
  | cons x r =>
    simp at h; subst h
    cases r with
    | nil => simp [canonicalizeNewline, ha]
    | cons y r' => simp [canonicalizeNewline, ha]

/-- bytes other than CR and LF pass through `canonicalize_newline` unchanged and in order -/
theorem canon_others (l : List Nat) :
    (canonicalizeNewline l).filter (fun b => b != LF) = l.filter (fun b => b != CR && b != LF) := by
  fun_induction canonicalizeNewline l with
  | case1 => simp
  | case2 => simp [LF_def, CR_def]
  | case3 a ha => by_cases hl : a = 10 <;> simp_all
  | case4 rest ih => simp_all
  | case5 b rest hb ih => simp_all
  | case6 a b rest ha ih => by_cases hl : a = 10 <;> simp_all

/-- `canonicalize_newline` leaves no CR -/
theorem canon_no_CR (l : List Nat) : CR ∉ canonicalizeNewline l := by
  fun_induction canonicalizeNewline l with
  | case1 => simp
  | case2 => simp [LF_def, CR_def]
  | case3 a ha => simp only [LF_def, CR_def] at *; simp; omega
  | case4 rest ih => simp only [LF_def, CR_def] at *; simp [ih]
  | case5 b rest hb ih => simp only [LF_def, CR_def] at *; simp [ih]
  | case6 a b rest ha ih => simp only [LF_def, CR_def] at *; simp [ih]; omega

/-! ### remove_backslash_newline -/

/-- value of the counter `n` after scanning a prefix that ends at a scan boundary -/
def scanN : List Nat → Nat → Nat
  | [], n => n
  | [a], n => if a = LF then 0 else n
  | a :: b :: rest, n =>
    if a = BSL ∧ b = LF then scanN rest (n + 1)
    else if a = LF then scanN (b :: rest) 0
    else scanN (b :: rest) n

/-- a cut is at a scan boundary unless it separates a backslash from its newline -/
def cutOK (pre rest : List Nat) : Prop := pre.getLast? ≠ some BSL ∨ rest.head? ≠ some LF

theorem cutOK_tail2 {a b : Nat} {pre rest : List Nat} (h : cutOK (a :: b :: pre) rest) : cutOK pre rest := by
  unfold cutOK at *
  cases pre with
  | nil => left; simp
  | cons c r => simpa [List.getLast?_cons_cons] using h

theorem cutOK_tail {a b : Nat} {pre rest : List Nat} (h : cutOK (a :: b :: pre) rest) : cutOK (b :: pre) rest := by
  unfold cutOK at *
  simpa [List.getLast?_cons_cons] using h

/-- scanning `pre ++ rest` = what scanning `pre` writes, then scanning `rest` with the counter `pre` left -/
theorem splice_append (pre rest : List Nat) (n : Nat) (h : cutOK pre rest) :
    removeBackslashNewlineAux (pre ++ rest) n
      = spliceEmit pre n ++ removeBackslashNewlineAux rest (scanN pre n) := by
  induction pre, n using removeBackslashNewlineAux.induct with
  | case1 n => simp [scanN, spliceEmit]
  | case2 a n =>
    cases rest with
    | nil => by_cases ha : a = LF <;> simp [removeBackslashNewlineAux, scanN, ha, spliceEmit]
    | cons b r =>
      have hnot : ¬ (a = BSL ∧ b = LF) := by
        intro hh; unfold cutOK at h; simp [hh.1, hh.2] at h
      by_cases ha : a = LF
      · subst ha; simp [removeBackslashNewlineAux, scanN, spliceEmit, LF_def, BSL_def]
      · simp [removeBackslashNewlineAux, scanN, ha, hnot, spliceEmit]
  | case3 a b pre' n hs ih =>
    have := ih (cutOK_tail2 h)
    simp only [List.cons_append] at this ⊢
    simp [removeBackslashNewlineAux, scanN, spliceEmit, hs, this]
  | case4 b pre' n hs ih =>
    have := ih (cutOK_tail h)
    simp only [List.cons_append] at this ⊢
    simp [removeBackslashNewlineAux, scanN, spliceEmit, hs, this]
  | case5 a b pre' n hs ha ih =>
    have := ih (cutOK_tail h)
    simp only [List.cons_append] at this ⊢
    simp [removeBackslashNewlineAux, scanN, spliceEmit, hs, ha, this]

/-- output newlines + pending removed newlines = input newlines (+ the pending ones at the start) -/
theorem countLF_spliceEmit (p : List Nat) (n : Nat) :
    countLF (spliceEmit p n) + scanN p n = n + countLF p := by
  induction p, n using removeBackslashNewlineAux.induct with
  | case1 n => simp [scanN, spliceEmit]
  | case2 a n => by_cases ha : a = LF <;> simp [scanN, spliceEmit, ha] <;> omega
  | case3 a b r n hs ih =>
    obtain ⟨rfl, rfl⟩ := hs
    simp [scanN, spliceEmit, LF_def, BSL_def] at ih ⊢
    omega
  | case4 b r n hs ih =>
    simp [scanN, spliceEmit, hs, countLF_append] at ih ⊢
    omega
  | case5 a b r n hs ha ih =>
    simp [scanN, spliceEmit, hs, ha] at ih ⊢
    omega

theorem splice_eq_emit (p : List Nat) (n : Nat) :
    removeBackslashNewlineAux p n = spliceEmit p n ++ List.replicate (scanN p n) LF := by
  have := splice_append p [] n (by unfold cutOK; right; simp)
  simpa [removeBackslashNewlineAux] using this

/-- `remove_backslash_newline` preserves the number of '\n' -/
theorem countLF_splice (p : List Nat) (n : Nat) : countLF (removeBackslashNewlineAux p n) = n + countLF p := by
  rw [splice_eq_emit, countLF_append, countLF_replicate, countLF_spliceEmit]

/-- look-behind form of the counter over the canonical text -/
def pendCanon (prev n : Nat) : List Nat → Nat
  | [] => n
  | a :: r => pendCanon a (if a = LF then (if prev = BSL then n + 1 else 0) else n) r

theorem scanN_eq_pendCanon (p : List Nat) (n prev : Nat) (h : prev ≠ BSL ∨ p.head? ≠ some LF) :
    scanN p n = pendCanon prev n p := by
  induction p, n using removeBackslashNewlineAux.induct generalizing prev with
  | case1 n => simp [pendCanon, scanN]
  | case2 a n =>
    by_cases ha : a = LF
    · subst ha
      have hp : prev ≠ BSL := by simpa using h
      simp [pendCanon, scanN, hp]
    · simp [pendCanon, scanN, ha]
  | case3 a b r n hs ih =>
    obtain ⟨rfl, rfl⟩ := hs
    have := ih LF (by left; simp [LF_def, BSL_def])
    simp [pendCanon, scanN, this, LF_def, BSL_def]
  | case4 b r n hs ih =>
    have hp : prev ≠ BSL := by simpa using h
    have := ih LF (by left; simp [LF_def, BSL_def])
    simp [scanN, hs, this, pendCanon, hp]
  | case5 a b r n hs ha ih =>
    have := ih a (by
      by_cases hb : a = BSL
      · right; simp; intro hb'; exact hs ⟨hb, hb'⟩
      · left; exact hb)
    simp [scanN, hs, ha, this, pendCanon]

/-- the spec's byte-level counter agrees with the counter over the canonical text -/
theorem pendingAt_canon (l : List Nat) (p p' n : Nat) (hb : p = BSL ↔ p' = BSL)
    (h : ¬ (p = CR ∧ l.head? = some LF)) :
    pendingAt p n l = pendCanon p' n (canonicalizeNewline l) := by
  fun_induction canonicalizeNewline l generalizing p p' n with
  | case1 => simp [pendingAt, pendCanon]
  | case2 => simp at hb; simp [pendingAt, pendCanon, hb]
  | case3 a ha =>
    simp at hb ha h
    by_cases hl : a = 10
    · subst hl; simp at h; simp [pendingAt, pendCanon, h, hb]
    · simp [pendingAt, pendCanon, ha, hl]
  | case4 rest ih =>
    have := fun m => ih LF LF m (by simp) (by simp)
    simp at hb this
    simp [pendingAt, pendCanon, this, hb]
  | case5 b rest hb' ih =>
    have := fun m => ih CR LF m (by simp) (by simpa using hb')
    simp at hb this hb'
    simp [pendingAt, pendCanon, hb]
    rw [← this]
    simp [pendingAt]
  | case6 a b rest ha ih =>
    have := fun m => ih a a m (by simp) (by simpa using fun h' => absurd h' ha)
    simp at hb this ha h
    by_cases hl : a = 10
    · subst hl
      have hp : ¬ p = 13 := by simpa using h
      simp [pendingAt, pendCanon, hp, hb]
      rw [← this]; simp [pendingAt]
    · simp [pendingAt, pendCanon, ha, hl]
      rw [← this]; simp [pendingAt, ha]

/-! ### prefixes: final newline, BOM -/

theorem canon_cons_ne (a : Nat) (t : List Nat) (ha : a ≠ CR) :
    canonicalizeNewline (a :: t) = a :: canonicalizeNewline t := by
  cases t with
  | nil => simp [canonicalizeNewline, ha]
  | cons b r => simp [canonicalizeNewline, ha]

theorem splice_cons_ne (a : Nat) (t : List Nat) (n : Nat) (h1 : a ≠ LF) (h2 : a ≠ BSL) :
    (removeBackslashNewlineAux (a :: t) n).head? = some a := by
  cases t with
  | nil => simp [removeBackslashNewlineAux]
  | cons b r => simp [removeBackslashNewlineAux, h1, h2]

theorem ensureFinalNewline_eq (p : List Nat) :
    ensureFinalNewline p = p ∨ ensureFinalNewline p = p ++ [LF] := by
  unfold ensureFinalNewline
  split
  · split <;> simp
  · rename_i h; simp at h; subst h; right; rfl

theorem ensureFinalNewline_take (p : List Nat) (off : Nat) (h : off ≤ p.length) :
    (ensureFinalNewline p).take off = p.take off := by
  rcases ensureFinalNewline_eq p with e | e <;> rw [e]
  rw [List.take_append_of_le_length h]

theorem ensureFinalNewline_get (p : List Nat) (off : Nat) (h : off < p.length) :
    (ensureFinalNewline p)[off]? = p[off]? := by
  rcases ensureFinalNewline_eq p with e | e <;> rw [e]
  rw [List.getElem?_append_left h]

theorem countTerm_prev (p q : Nat) (l : List Nat) (hp : p ≠ CR) (hq : q ≠ CR) :
    countTerm p l = countTerm q l := by
  cases l with
  | nil => rfl
  | cons a r => simp at hp hq; simp [countTerm, endsTerm, hp, hq]

theorem pendingAt_prev (p q n : Nat) (l : List Nat) (hp : p ≠ CR ∧ p ≠ BSL) (hq : q ≠ CR ∧ q ≠ BSL) :
    pendingAt p n l = pendingAt q n l := by
  cases l with
  | nil => rfl
  | cons a r => simp at hp hq; simp [pendingAt, hp, hq]

theorem hasBOM_eq (b : List Nat) (h : hasBOM b = true) : b = 0xEF :: 0xBB :: 0xBF :: b.drop 3 := by
  match b, h with
  | x :: y :: z :: r, h => simp [hasBOM] at h; simp [h]

/-- the bytes before `off`, seen after the BOM skip, have the same terminator count and splice counter -/
theorem skipBOM_prefix (b : List Nat) (off : Nat) (h : bomLen b ≤ off) :
    countTerm 0 ((skipBOM b).take (off - bomLen b)) = countTerm 0 (b.take off) ∧
    ∀ n, pendingAt 0 n ((skipBOM b).take (off - bomLen b)) = pendingAt 0 n (b.take off) := by
  unfold skipBOM bomLen at *
  by_cases hb : hasBOM b = true
  · simp [hb] at h ⊢
    have e := hasBOM_eq b hb
    generalize b.drop 3 = r at e
    subst e
    obtain ⟨k, rfl⟩ : ∃ k, off = k + 3 := ⟨off - 3, by omega⟩
    simp [countTerm, endsTerm, pendingAt]
    exact ⟨countTerm_prev _ _ _ (by simp) (by simp), fun n => pendingAt_prev _ _ _ _ (by simp) (by simp)⟩
  · simp [hb]

theorem countLF_skipBOM (b : List Nat) : countLF (skipBOM b) = countLF b := by
  unfold skipBOM bomLen
  by_cases hb : hasBOM b = true
  · simp [hb]
    have e := hasBOM_eq b hb
    generalize b.drop 3 = r at e
    subst e
    simp
  · simp [hb]

theorem countTerm_skipBOM (b : List Nat) : countTerm 0 (skipBOM b) = countTerm 0 b := by
  unfold skipBOM bomLen
  by_cases hb : hasBOM b = true
  · simp [hb]
    have e := hasBOM_eq b hb
    generalize b.drop 3 = r at e
    subst e
    simp [countTerm, endsTerm]
    exact countTerm_prev _ _ _ (by simp) (by simp)
  · simp [hb]

/-! ### the main formula -/

/-- decomposition of the text `tokenize` sees at the image of file offset `off` -/
theorem sourceText_split (bytes : List Nat) (off c : Nat) (hlt : off < bytes.length)
    (hbom : bomLen (ensureFinalNewline bytes) ≤ off)
    (hc : bytes[off]? = some c) (hLF : c ≠ LF) (hCR : c ≠ CR) :
    ∃ pre rest tail,
      skipBOM (ensureFinalNewline bytes) = pre ++ rest ∧
      pre = (skipBOM (ensureFinalNewline bytes)).take (off - bomLen (ensureFinalNewline bytes)) ∧
      rest = c :: tail ∧
      sourceText bytes = spliceEmit (canonicalizeNewline pre) 0
        ++ removeBackslashNewlineAux (c :: canonicalizeNewline tail) (scanN (canonicalizeNewline pre) 0) := by
  let b := ensureFinalNewline bytes
  let B := skipBOM b
  let o := off - bomLen b
  have hbom' : bomLen b ≤ off := hbom
  have hget : B[o]? = some c := by
    show (List.drop (bomLen b) b)[off - bomLen b]? = some c
    rw [List.getElem?_drop]
    have : bomLen b + (off - bomLen b) = off := by omega
    rw [this, ensureFinalNewline_get _ _ hlt, hc]
  have hdrop : B.drop o = c :: B.drop (o + 1) := by
    have hlt' : o < B.length := by
      rcases Nat.lt_or_ge o B.length with h | h
      · exact h
      · rw [List.getElem?_eq_none h] at hget; simp at hget
    rw [List.drop_eq_getElem_cons hlt']
    congr 1
    have := List.getElem?_eq_getElem hlt'
    rw [this] at hget; exact Option.some.inj hget
  refine ⟨B.take o, B.drop o, B.drop (o + 1), (List.take_append_drop o B).symm, rfl, hdrop, ?_⟩
  show removeBackslashNewline (canonicalizeNewline B) = _
  conv => lhs; rw [← List.take_append_drop o B]
  rw [canon_append _ _ (by rw [hdrop]; simpa using hLF), hdrop, canon_cons_ne _ _ hCR]
  unfold removeBackslashNewline
  rw [splice_append _ _ _ (by right; simpa using hLF)]

theorem tokenStart_iff (bytes : List Nat) (off : Nat) :
    tokenStart bytes off = true ↔
      bomLen (ensureFinalNewline bytes) ≤ off ∧ ∃ c, bytes[off]? = some c ∧ c ≠ LF ∧ c ≠ CR := by
  unfold tokenStart
  cases h : bytes[off]? with
  | none => simp
  | some c => simp

/-- **the formula**: the line number chibicc computes for the token at file offset `off`, plus the number of
    backslash-newlines before it on its logical line, is its physical line -/
theorem lineNoAt_formula (bytes : List Nat) (off : Nat) (h : tokenStart bytes off = true) :
    lineNoAt bytes off + pendingSplices bytes off = physLine bytes off := by
  obtain ⟨hbom, c, hc, hLF, hCR⟩ := (tokenStart_iff _ _).1 h
  have hlt : off < bytes.length := by
    rcases Nat.lt_or_ge off bytes.length with h | h
    · exact h
    · rw [List.getElem?_eq_none h] at hc; simp at hc
  obtain ⟨pre, rest, tail, hB, hpre, hrest, hst⟩ := sourceText_split bytes off c hlt hbom hc hLF hCR
  have hpos : posMap bytes off = (spliceEmit (canonicalizeNewline pre) 0).length := by
    unfold posMap; rw [hpre]
  unfold lineNoAt lineNoOf
  rw [hpos, hst, List.take_left']
  · have h1 := countLF_spliceEmit (canonicalizeNewline pre) 0
    have h2 := countLF_canon 0 pre (by simp)
    have h3 := scanN_eq_pendCanon (canonicalizeNewline pre) 0 0 (by left; simp)
    have h4 := pendingAt_canon pre 0 0 0 (by simp) (by simp)
    have h5 := skipBOM_prefix (ensureFinalNewline bytes) off hbom
    rw [← hpre] at h5
    rw [ensureFinalNewline_take _ _ (Nat.le_of_lt hlt)] at h5
    unfold pendingSplices physLine
    rw [← h5.1, ← h5.2 0, h4, ← h3, ← h2]
    omega
  · rfl

/-- the byte found at the mapped offset is the byte of the file (so `posMap` really is the image of the offset) -/
theorem posMap_faithful (bytes : List Nat) (off c : Nat) (h : tokenStart bytes off = true)
    (hc : bytes[off]? = some c) (hB : c ≠ BSL) :
    (sourceText bytes)[posMap bytes off]? = some c := by
  obtain ⟨hbom, c', hc', hLF, hCR⟩ := (tokenStart_iff _ _).1 h
  rw [hc] at hc'; cases hc'
  have hlt : off < bytes.length := by
    rcases Nat.lt_or_ge off bytes.length with h | h
    · exact h
    · rw [List.getElem?_eq_none h] at hc; simp at hc
  obtain ⟨pre, rest, tail, hB', hpre, hrest, hst⟩ := sourceText_split bytes off c hlt hbom hc hLF hCR
  have hpos : posMap bytes off = (spliceEmit (canonicalizeNewline pre) 0).length := by
    unfold posMap; rw [hpre]
  rw [hpos, hst, List.getElem?_append_right (Nat.le_refl _), Nat.sub_self, ← List.head?_eq_getElem?]
  exact splice_cons_ne _ _ _ hLF hB

/-! ### add_line_numbers, error_at, verror_at -/

theorem take_succ_cons (c : Nat) (rest : List Nat) (k : Nat) : (c :: rest).take (k + 1) = c :: rest.take k := rfl

theorem addLineNumbersAux_ok (text : List Nat) : ∀ (p n : Nat) (locs : List Nat),
    locs ≠ [] → locs.Pairwise (· < ·) → (∀ l ∈ locs, p ≤ l) → locs.getLast? = some (p + text.length) →
    addLineNumbersAux text p n locs = .ok (locs.map (fun l => n + countLF (text.take (l - p)))) := by
  induction text with
  | nil =>
    intro p n locs hne hpw hge hlast
    match locs, hne with
    | l :: ls, _ =>
      cases ls with
      | nil =>
        have : l = p := by simpa using hlast
        subst this; simp [addLineNumbersAux]
      | cons l2 ls2 =>
        exfalso
        have h1 : p ≤ l := hge l (by simp)
        have hmem : p ∈ l2 :: ls2 := by
          have : (l :: l2 :: ls2).getLast? = (l2 :: ls2).getLast? := by simp [List.getLast?_cons_cons]
          rw [this] at hlast
          simpa using List.mem_of_getLast? hlast
        have := (List.pairwise_cons.1 hpw).1 p hmem
        omega
  | cons c rest ih =>
    intro p n locs hne hpw hge hlast
    match locs, hne with
    | l :: ls, _ =>
      by_cases hpl : p = l
      · subst hpl
        have hls : ls ≠ [] := by
          intro h; subst h; simp at hlast <;> omega
        have hpw' := (List.pairwise_cons.1 hpw)
        have hge' : ∀ l' ∈ ls, p + 1 ≤ l' := fun l' hl' => hpw'.1 l' hl'
        have hlast' : ls.getLast? = some (p + 1 + rest.length) := by
          match ls, hls with
          | l2 :: ls2, _ =>
            rw [List.getLast?_cons_cons] at hlast; rw [hlast]; simp; omega
        have := ih (p + 1) (if c = LF then n + 1 else n) ls hls hpw'.2 hge' hlast'
        have hmap : ls.map (fun l => (if c = LF then n + 1 else n) + countLF (rest.take (l - (p + 1))))
            = ls.map (fun l => n + countLF ((c :: rest).take (l - p))) := by
          apply List.map_congr_left
          intro l' hl'
          have h1 := hge' l' hl'
          obtain ⟨k, rfl⟩ : ∃ k, l' = p + 1 + k := ⟨l' - (p + 1), by omega⟩
          have e1 : p + 1 + k - p = k + 1 := by omega
          have e2 : p + 1 + k - (p + 1) = k := by omega
          rw [e1, e2, take_succ_cons, countLF_cons]
          split <;> omega
        simp [addLineNumbersAux, this, Except.map, hmap]
      · have hlt : p < l := by
          have := hge l (by simp); omega
        have hge' : ∀ l' ∈ l :: ls, p + 1 ≤ l' := by
          intro l' hl'
          rcases List.mem_cons.1 hl' with rfl | h
          · omega
          · have := (List.pairwise_cons.1 hpw).1 l' h; omega
        have hlast' : (l :: ls).getLast? = some (p + 1 + rest.length) := by
          rw [hlast]; simp; omega
        have := ih (p + 1) (if c = LF then n + 1 else n) (l :: ls) (by simp) hpw hge' hlast'
        have hmap : (l :: ls).map (fun l => (if c = LF then n + 1 else n) + countLF (rest.take (l - (p + 1))))
            = (l :: ls).map (fun l => n + countLF ((c :: rest).take (l - p))) := by
          apply List.map_congr_left
          intro l' hl'
          have h1 := hge' l' hl'
          obtain ⟨k, rfl⟩ : ∃ k, l' = p + 1 + k := ⟨l' - (p + 1), by omega⟩
          have e1 : p + 1 + k - p = k + 1 := by omega
          have e2 : p + 1 + k - (p + 1) = k := by omega
          rw [e1, e2, take_succ_cons, countLF_cons]
          split <;> omega
        rw [← hmap, ← this]
        simp [addLineNumbersAux, hpl]

/-- `add_line_numbers` gives every token `1 + number of '\n' before its loc`, provided the token list is in text order
    and ends with the EOF token at the terminator (which is how `tokenize` builds it) -/
theorem addLineNumbers_ok (text : List Nat) (locs : List Nat) (hne : locs ≠ [])
    (hpw : locs.Pairwise (· < ·)) (hlast : locs.getLast? = some text.length) :
    addLineNumbers text locs = .ok (locs.map (lineNoOf text)) := by
  have := addLineNumbersAux_ok text 0 1 locs hne hpw (by simp) (by simpa using hlast)
  have e : (lineNoOf text) = fun l => 1 + countLF (text.take (l - 0)) := rfl
  rw [e]; exact this

theorem foldl_count (l : List Nat) (n : Nat) :
    l.foldl (fun n c => if c = LF then n + 1 else n) n = n + countLF l := by
  induction l generalizing n with
  | nil => simp
  | cons a r ih => simp only [List.foldl_cons, ih, countLF_cons]; split <;> omega

/-- `error_at`'s recount is `add_line_numbers`' value -/
theorem errorAtLine_eq (text : List Nat) (loc : Nat) : errorAtLine text loc = lineNoOf text loc := by
  unfold errorAtLine lineNoOf; rw [foldl_count]

theorem countLF_take_succ (text : List Nat) (k : Nat) :
    countLF (text.take (k + 1)) = countLF (text.take k) + (if text[k]? = some LF then 1 else 0) := by
  induction text generalizing k with
  | nil => simp
  | cons a r ih =>
    cases k with
    | zero => simp
    | succ k => simp [ih k]; omega

theorem shownStart_le (text : List Nat) (loc : Nat) : shownStart text loc ≤ loc := by
  induction loc with
  | zero => simp [shownStart]
  | succ k ih => unfold shownStart; split <;> omega

/-- the line `verror_at` shows starts on the same line as `loc` … -/
theorem shownStart_line (text : List Nat) (loc : Nat) :
    lineNoOf text (shownStart text loc) = lineNoOf text loc := by
  induction loc with
  | zero => simp [shownStart]
  | succ k ih =>
    unfold shownStart
    by_cases h : text[k]? = some LF
    · simp [h]
    · simp only [if_neg h, ih]
      unfold lineNoOf
      rw [countLF_take_succ]; simp [h]

/-- … and begins right after a '\n' (or at the start of the buffer) -/
theorem shownStart_bol (text : List Nat) (loc : Nat) :
    shownStart text loc = 0 ∨ text[shownStart text loc - 1]? = some LF := by
  induction loc with
  | zero => left; rfl
  | succ k ih =>
    unfold shownStart
    by_cases h : text[k]? = some LF
    · right; simpa [h] using h
    · simpa [h] using ih

/-! ### logical lines -/

theorem pendCanon_snoc (ys : List Nat) (prev n a : Nat) :
    pendCanon prev n (ys ++ [a]) =
      (if a = LF then (if ys.getLast?.getD prev = BSL then pendCanon prev n ys + 1 else 0) else pendCanon prev n ys) := by
  induction ys generalizing prev n with
  | nil => rfl
  | cons y r ih =>
    simp only [List.cons_append, pendCanon, ih]
    cases r with
    | nil => simp
    | cons z r' =>
      obtain ⟨w, hw⟩ : ∃ w, (z :: r').getLast? = some w := ⟨_, List.getLast?_eq_some_getLast (by simp)⟩
      simp [List.getLast?_cons_cons, hw]

/-- a position starts a logical line if it is the start of the text or follows a '\n' that is not preceded by a backslash -/
def startsLogicalLine (pre : List Nat) : Bool :=
  match pre.reverse with
  | [] => true
  | [a] => a == LF
  | a :: b :: _ => a == LF && b != BSL

theorem scanN_logical_start (pre : List Nat) (h : startsLogicalLine pre = true) :
    scanN pre 0 = 0 ∧ ∀ rest, cutOK pre rest := by
  rw [scanN_eq_pendCanon pre 0 0 (by left; simp)]
  unfold startsLogicalLine at h
  generalize hr : pre.reverse = r at h
  have hp : pre = r.reverse := by rw [← hr, List.reverse_reverse]
  match r, h with
  | [], _ => subst hp; simp [pendCanon, cutOK]
  | [a], h =>
    simp at h; subst h; subst hp
    simp [pendCanon, cutOK]
  | a :: b :: t, h =>
    simp at h; obtain ⟨rfl, hb⟩ := h; subst hp
    constructor
    · have : (10 :: b :: t).reverse = (t.reverse ++ [b]) ++ [10] := by simp
      rw [this, pendCanon_snoc]
      simp [hb]
    · intro rest; left; simp

/-! ### the text ends in a newline -/

theorem getLast?_cons_of_getLast? {α : Type} (a : α) (l : List α) (x : α) (h : l.getLast? = some x) :
    (a :: l).getLast? = some x := by
  cases l with
  | nil => simp at h
  | cons b r => rw [List.getLast?_cons_cons]; exact h

theorem getLast?_append_of_getLast? {α : Type} (l₁ l₂ : List α) (x : α) (h : l₂.getLast? = some x) :
    (l₁ ++ l₂).getLast? = some x := by
  induction l₁ with
  | nil => simpa using h
  | cons a r ih => exact getLast?_cons_of_getLast? a _ x ih

theorem ensureFinalNewline_last (p : List Nat) : (ensureFinalNewline p).getLast? = some LF := by
  unfold ensureFinalNewline
  split
  · rename_i b hb
    split
    · rename_i h; rw [hb, h]
    · simp
  · rfl

theorem canon_last (l : List Nat) (h : l.getLast? = some LF) : (canonicalizeNewline l).getLast? = some LF := by
  fun_induction canonicalizeNewline l with
  | case1 => simp at h
  | case2 => simp
  | case3 a ha => simpa using h
  | case4 rest ih =>
    cases rest with
    | nil => simp [canonicalizeNewline]
    | cons x r =>
      apply getLast?_cons_of_getLast?
      apply ih
      simpa [List.getLast?_cons_cons] using h
  | case5 b rest hb ih =>
    apply getLast?_cons_of_getLast?
    apply ih
    simpa [List.getLast?_cons_cons] using h
  | case6 a b rest ha ih =>
    apply getLast?_cons_of_getLast?
    apply ih
    simpa [List.getLast?_cons_cons] using h

theorem replicate_last (n : Nat) (h : 0 < n) : (List.replicate n LF).getLast? = some LF := by
  cases n with
  | zero => omega
  | succ n => simp [List.getLast?_replicate]

theorem splice_last (p : List Nat) (n : Nat) (h : p.getLast? = some LF) :
    (removeBackslashNewlineAux p n).getLast? = some LF := by
  induction p, n using removeBackslashNewlineAux.induct with
  | case1 n => simp at h
  | case2 a n =>
    have : a = 10 := by simpa using h
    subst this
    cases n with
    | zero => simp [removeBackslashNewlineAux]
    | succ n =>
      simp only [removeBackslashNewlineAux]
      apply getLast?_cons_of_getLast?
      simp [List.getLast?_replicate]
  | case3 a b rest n hs ih =>
    simp only [removeBackslashNewlineAux, hs, and_self, if_true]
    cases rest with
    | nil => simp [removeBackslashNewlineAux, List.getLast?_replicate]
    | cons x r => apply ih; simpa [List.getLast?_cons_cons] using h
  | case4 b rest n hs ih =>
    have hs' : ¬ (10 = 92 ∧ b = 10) := by simp
    simp only [removeBackslashNewlineAux, LF_def, BSL_def, hs', if_false, if_true]
    apply getLast?_cons_of_getLast?
    apply getLast?_append_of_getLast?
    apply ih
    simpa [List.getLast?_cons_cons] using h
  | case5 a b rest n hs ha ih =>
    simp only [removeBackslashNewlineAux, hs, ha, if_false]
    apply getLast?_cons_of_getLast?
    apply ih
    simpa [List.getLast?_cons_cons] using h

theorem skipBOM_last (b : List Nat) (h : b.getLast? = some LF) : (skipBOM b).getLast? = some LF := by
  unfold skipBOM bomLen
  by_cases hb : hasBOM b = true
  · simp only [hb, if_true]
    have e := hasBOM_eq b hb
    generalize b.drop 3 = r at e
    subst e
    cases r with
    | nil => simp at h
    | cons x r' =>
      simpa [List.getLast?_cons_cons] using h
  · simp [hb, h]

/-- the text before `convert_universal_chars` always ends in '\n' (so that pass never meets a backslash as the last byte,
    where the C code would copy the terminator and run past it) -/
theorem sourceText_last (bytes : List Nat) : (sourceText bytes).getLast? = some LF := by
  unfold sourceText removeBackslashNewline
  exact splice_last _ _ (canon_last _ (skipBOM_last _ (ensureFinalNewline_last bytes)))

/-! ### one file's events -/

def Ev.isDir : Ev → Bool
  | .lineDir .. => true
  | _ => false

/-- the `File` object after `preprocess2` has met the events -/
def stateAfter (text : List Nat) : File → List Ev → File
  | f, [] => f
  | f, .lineDir off n name :: r => stateAfter text (readLineMarker f (lineNoOf text off) n name) r
  | f, .tok _ :: r => stateAfter text f r
  | f, .lineMac _ :: r => stateAfter text f r
  | f, .fileMac _ :: r => stateAfter text f r

theorem runFile_append (text : List Nat) (f : File) (e₁ e₂ : List Ev) :
    runFile text f (e₁ ++ e₂) = runFile text f e₁ ++ runFile text (stateAfter text f e₁) e₂ := by
  induction e₁ generalizing f with
  | nil => simp [runFile, stateAfter]
  | cons e r ih => cases e <;> simp [runFile, stateAfter, ih]

theorem stateAfter_append (text : List Nat) (f : File) (e₁ e₂ : List Ev) :
    stateAfter text f (e₁ ++ e₂) = stateAfter text (stateAfter text f e₁) e₂ := by
  induction e₁ generalizing f with
  | nil => simp [stateAfter]
  | cons e r ih => cases e <;> simp [stateAfter, ih]

theorem stateAfter_noDir (text : List Nat) (f : File) (evs : List Ev) (h : ∀ e ∈ evs, e.isDir = false) :
    stateAfter text f evs = f := by
  induction evs generalizing f with
  | nil => rfl
  | cons e r ih =>
    have hr : ∀ e ∈ r, e.isDir = false := fun e he => h e (by simp [he])
    cases e with
    | lineDir off n name => have := h (.lineDir off n name) (by simp); simp [Ev.isDir] at this
    | tok off => simp [stateAfter, ih _ hr]
    | lineMac off => simp [stateAfter, ih _ hr]
    | fileMac off => simp [stateAfter, ih _ hr]

/-! ### the `.file` table -/

/-- enter the files in the order `tokenize_file` is called -/
def enterAll (fs : Files) (paths : List String) : Files := paths.foldl (fun fs p => (enterFile fs p).1) fs

theorem enterAll_spec (paths : List String) : ∀ fs : Files,
    (enterAll fs paths).map (·.fileNo) = fs.map (·.fileNo) ++ List.range' (fs.length + 1) paths.length ∧
    (enterAll fs paths).map (·.name) = fs.map (·.name) ++ paths := by
  induction paths with
  | nil => intro fs; simp [enterAll]
  | cons p ps ih =>
    intro fs
    have := ih (fs ++ [newFile p (fs.length + 1)])
    simp only [enterAll, List.foldl_cons, enterFile] at this ⊢
    rw [this.1, this.2]
    simp [newFile, List.range'_succ]

end ChibiVerif.LineNo
