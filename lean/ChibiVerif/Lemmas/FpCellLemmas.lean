/-
Effect lemmas for C02: what each distinct cast-table string (taken from the *generated* `Gen/CastTableGen`) leaves in
the machine of Model/FpMachine, for every start state and every `F : FpuSpec`.  One lemma per string; the arithmetic that
turns an effect into "the C11 conversion" is in Lemmas/FpCastLemmas.lean.

Proof pattern: the run itself is evaluated by the kernel (`rfl`: the instruction strings are closed terms); what
remains are read-after-write facts about the scratch slots below %rsp (Lemmas/FpMemLemmas) and small BitVec identities.
-/
import ChibiVerif.Lemmas.FpMemLemmas
import ChibiVerif.Gen.CastTableGen

namespace ChibiVerif.X86

theorem State.ea_def (s : State) (d : Int) (b : Reg) : s.ea d b = s.get b + BitVec.ofInt 64 d := rfl

@[simp] theorem State.get_write8 (s : State) (a : BitVec 64) (v : BitVec 8) (r : Reg) : (s.write8 a v).get r = s.get r := rfl
@[simp] theorem State.get_write16 (s : State) (a : BitVec 64) (v : BitVec 16) (r : Reg) : (s.write16 a v).get r = s.get r := by
  simp [State.write16]
@[simp] theorem State.get_write32 (s : State) (a : BitVec 64) (v : BitVec 32) (r : Reg) : (s.write32 a v).get r = s.get r := by
  simp [State.write32]
@[simp] theorem State.get_write64 (s : State) (a : BitVec 64) (v : BitVec 64) (r : Reg) : (s.write64 a v).get r = s.get r := by
  simp [State.write64]
theorem State.regs_write8 (s : State) (a : BitVec 64) (v : BitVec 8) : (s.write8 a v).regs = s.regs := rfl
theorem State.regs_write16 (s : State) (a : BitVec 64) (v : BitVec 16) : (s.write16 a v).regs = s.regs := by
  simp [State.write16, State.regs_write8]
theorem State.regs_write32 (s : State) (a : BitVec 64) (v : BitVec 32) : (s.write32 a v).regs = s.regs := by
  simp [State.write32, State.regs_write16]
theorem State.regs_write64 (s : State) (a : BitVec 64) (v : BitVec 64) : (s.write64 a v).regs = s.regs := by
  simp [State.write64, State.regs_write32]
@[simp] theorem State.mem_set (s : State) (r : Reg) (v : BitVec 64) : (s.set r v).mem = s.mem := rfl
@[simp] theorem State.get_flags {n : Nat} (s : State) (r : BitVec n) (c o : Bool) (g : Reg) : (s.flags r c o).get g = s.get g := rfl
@[simp] theorem State.read32_flags {n : Nat} (s : State) (r : BitVec n) (c o : Bool) (a : BitVec 64) :
    (s.flags r c o).read32 a = s.read32 a := rfl
@[simp] theorem State.read64_flags {n : Nat} (s : State) (r : BitVec n) (c o : Bool) (a : BitVec 64) :
    (s.flags r c o).read64 a = s.read64 a := rfl
@[simp] theorem State.read32_set (s : State) (g : Reg) (v : BitVec 64) (a : BitVec 64) : (s.set g v).read32 a = s.read32 a := rfl
@[simp] theorem State.read64_set (s : State) (g : Reg) (v : BitVec 64) (a : BitVec 64) : (s.set g v).read64 a = s.read64 a := rfl

end ChibiVerif.X86

namespace ChibiVerif.Fp
open ChibiVerif.Asm ChibiVerif.X86 ChibiVerif.Spec.Fpu ChibiVerif.Gen.CastTable

/-- what no cast-table string changes: %rsp, and (unless it says so) the control word -/
macro "x86_norm" : tactic => `(tactic|
  simp only [State.src, State.readW, State.writeW, State.setW, State.getW, State.ea_def, State.get_set_same,
    State.get_write16, State.get_write32, State.get_write64, State.get_set_ne, ne_eq, reduceCtorEq, not_false_eq_true,
    W.bits, BitVec.reduceOfInt, State.get_flags, State.read32_flags, State.read64_flags, State.read32_set, State.read64_set,
    State.read16_write16, State.read32_write32, State.read64_write64, State.read8_write16,
    State.read16_write32, State.read32_write64, and_self, and_true, true_and])

theorem setLow32_low (x : BitVec 64) (v : BitVec 32) : (setLow32 x v).setWidth 32 = v := by
  apply BitVec.eq_of_toNat_eq
  have := v.isLt
  have := x.isLt
  simp only [setLow32, BitVec.toNat_setWidth, BitVec.toNat_ofNat]
  omega

/-! ### integer → float / double (SSE, registers only) -/

theorem eff_i32f32 (F : FpuSpec) (s : FState) : ∃ s', run F i32f32.instrs s = some s' ∧
    s'.xmm0.setWidth 32 = F.cvtsi2ss32 ((s.x.get .rax).setWidth 32) ∧
    s'.st = s.st ∧ s'.cw = s.cw ∧ s'.x.get .rsp = s.x.get .rsp :=
  ⟨_, rfl, setLow32_low _ _, rfl, rfl, rfl⟩

theorem eff_i32f64 (F : FpuSpec) (s : FState) : ∃ s', run F i32f64.instrs s = some s' ∧
    s'.xmm0 = F.cvtsi2sd32 ((s.x.get .rax).setWidth 32) ∧
    s'.st = s.st ∧ s'.cw = s.cw ∧ s'.x.get .rsp = s.x.get .rsp :=
  ⟨_, rfl, rfl, rfl, rfl, rfl⟩

theorem eff_i64f32 (F : FpuSpec) (s : FState) : ∃ s', run F i64f32.instrs s = some s' ∧
    s'.xmm0.setWidth 32 = F.cvtsi2ss64 (s.x.get .rax) ∧
    s'.st = s.st ∧ s'.cw = s.cw ∧ s'.x.get .rsp = s.x.get .rsp :=
  ⟨_, rfl, setLow32_low _ _, rfl, rfl, rfl⟩

theorem eff_i64f64 (F : FpuSpec) (s : FState) : ∃ s', run F i64f64.instrs s = some s' ∧
    s'.xmm0 = F.cvtsi2sd64 (s.x.get .rax) ∧
    s'.st = s.st ∧ s'.cw = s.cw ∧ s'.x.get .rsp = s.x.get .rsp :=
  ⟨_, rfl, rfl, rfl, rfl, rfl⟩

theorem eff_u32f32 (F : FpuSpec) (s : FState) : ∃ s', run F u32f32.instrs s = some s' ∧
    s'.xmm0.setWidth 32 = F.cvtsi2ss64 (((s.x.get .rax).setWidth 32).setWidth 64) ∧
    s'.st = s.st ∧ s'.cw = s.cw ∧ s'.x.get .rsp = s.x.get .rsp :=
  ⟨_, rfl, setLow32_low _ _, rfl, rfl, rfl⟩

theorem eff_u32f64 (F : FpuSpec) (s : FState) : ∃ s', run F u32f64.instrs s = some s' ∧
    s'.xmm0 = F.cvtsi2sd64 (((s.x.get .rax).setWidth 32).setWidth 64) ∧
    s'.st = s.st ∧ s'.cw = s.cw ∧ s'.x.get .rsp = s.x.get .rsp :=
  ⟨_, rfl, rfl, rfl, rfl, rfl⟩

theorem eff_u64f32 (F : FpuSpec) (s : FState) : ∃ s', run F u64f32.instrs s = some s' ∧
    s'.xmm0.setWidth 32 = F.cvtsi2ss64 (s.x.get .rax) ∧
    s'.st = s.st ∧ s'.cw = s.cw ∧ s'.x.get .rsp = s.x.get .rsp :=
  ⟨_, rfl, setLow32_low _ _, rfl, rfl, rfl⟩

/-! ### float / double → integer (SSE, registers only): what is left in %rax -/

theorem eff_f32i8 (F : FpuSpec) (s : FState) : ∃ s', run F f32i8.instrs s = some s' ∧
    s'.x.get .rax = (((F.cvttss2si32 (s.xmm0.setWidth 32)).setWidth 8).signExtend 32).setWidth 64 ∧
    s'.st = s.st ∧ s'.cw = s.cw ∧ s'.x.get .rsp = s.x.get .rsp :=
  ⟨_, rfl, rfl, rfl, rfl, rfl⟩

theorem eff_f32i16 (F : FpuSpec) (s : FState) : ∃ s', run F f32i16.instrs s = some s' ∧
    s'.x.get .rax = (((F.cvttss2si32 (s.xmm0.setWidth 32)).setWidth 16).signExtend 32).setWidth 64 ∧
    s'.st = s.st ∧ s'.cw = s.cw ∧ s'.x.get .rsp = s.x.get .rsp :=
  ⟨_, rfl, rfl, rfl, rfl, rfl⟩

theorem eff_f32i32 (F : FpuSpec) (s : FState) : ∃ s', run F f32i32.instrs s = some s' ∧
    s'.x.get .rax = (F.cvttss2si32 (s.xmm0.setWidth 32)).setWidth 64 ∧
    s'.st = s.st ∧ s'.cw = s.cw ∧ s'.x.get .rsp = s.x.get .rsp :=
  ⟨_, rfl, rfl, rfl, rfl, rfl⟩

theorem eff_f32i64 (F : FpuSpec) (s : FState) : ∃ s', run F f32i64.instrs s = some s' ∧
    s'.x.get .rax = F.cvttss2si64 (s.xmm0.setWidth 32) ∧
    s'.st = s.st ∧ s'.cw = s.cw ∧ s'.x.get .rsp = s.x.get .rsp :=
  ⟨_, rfl, rfl, rfl, rfl, rfl⟩

theorem eff_f32u8 (F : FpuSpec) (s : FState) : ∃ s', run F f32u8.instrs s = some s' ∧
    s'.x.get .rax = (((F.cvttss2si32 (s.xmm0.setWidth 32)).setWidth 8).setWidth 32).setWidth 64 ∧
    s'.st = s.st ∧ s'.cw = s.cw ∧ s'.x.get .rsp = s.x.get .rsp :=
  ⟨_, rfl, rfl, rfl, rfl, rfl⟩

theorem eff_f32u16 (F : FpuSpec) (s : FState) : ∃ s', run F f32u16.instrs s = some s' ∧
    s'.x.get .rax = (((F.cvttss2si32 (s.xmm0.setWidth 32)).setWidth 16).setWidth 32).setWidth 64 ∧
    s'.st = s.st ∧ s'.cw = s.cw ∧ s'.x.get .rsp = s.x.get .rsp :=
  ⟨_, rfl, rfl, rfl, rfl, rfl⟩

theorem eff_f32u32 (F : FpuSpec) (s : FState) : ∃ s', run F f32u32.instrs s = some s' ∧
    s'.x.get .rax = F.cvttss2si64 (s.xmm0.setWidth 32) ∧
    s'.st = s.st ∧ s'.cw = s.cw ∧ s'.x.get .rsp = s.x.get .rsp :=
  ⟨_, rfl, rfl, rfl, rfl, rfl⟩

theorem eff_f32u64 (F : FpuSpec) (s : FState) : ∃ s', run F f32u64.instrs s = some s' ∧
    s'.x.get .rax = F.cvttss2si64 (s.xmm0.setWidth 32) ∧
    s'.st = s.st ∧ s'.cw = s.cw ∧ s'.x.get .rsp = s.x.get .rsp :=
  ⟨_, rfl, rfl, rfl, rfl, rfl⟩

theorem eff_f64i8 (F : FpuSpec) (s : FState) : ∃ s', run F f64i8.instrs s = some s' ∧
    s'.x.get .rax = (((F.cvttsd2si32 s.xmm0).setWidth 8).signExtend 32).setWidth 64 ∧
    s'.st = s.st ∧ s'.cw = s.cw ∧ s'.x.get .rsp = s.x.get .rsp :=
  ⟨_, rfl, rfl, rfl, rfl, rfl⟩

theorem eff_f64i16 (F : FpuSpec) (s : FState) : ∃ s', run F f64i16.instrs s = some s' ∧
    s'.x.get .rax = (((F.cvttsd2si32 s.xmm0).setWidth 16).signExtend 32).setWidth 64 ∧
    s'.st = s.st ∧ s'.cw = s.cw ∧ s'.x.get .rsp = s.x.get .rsp :=
  ⟨_, rfl, rfl, rfl, rfl, rfl⟩

theorem eff_f64i32 (F : FpuSpec) (s : FState) : ∃ s', run F f64i32.instrs s = some s' ∧
    s'.x.get .rax = (F.cvttsd2si32 s.xmm0).setWidth 64 ∧
    s'.st = s.st ∧ s'.cw = s.cw ∧ s'.x.get .rsp = s.x.get .rsp :=
  ⟨_, rfl, rfl, rfl, rfl, rfl⟩

theorem eff_f64i64 (F : FpuSpec) (s : FState) : ∃ s', run F f64i64.instrs s = some s' ∧
    s'.x.get .rax = F.cvttsd2si64 s.xmm0 ∧
    s'.st = s.st ∧ s'.cw = s.cw ∧ s'.x.get .rsp = s.x.get .rsp :=
  ⟨_, rfl, rfl, rfl, rfl, rfl⟩

theorem eff_f64u8 (F : FpuSpec) (s : FState) : ∃ s', run F f64u8.instrs s = some s' ∧
    s'.x.get .rax = (((F.cvttsd2si32 s.xmm0).setWidth 8).setWidth 32).setWidth 64 ∧
    s'.st = s.st ∧ s'.cw = s.cw ∧ s'.x.get .rsp = s.x.get .rsp :=
  ⟨_, rfl, rfl, rfl, rfl, rfl⟩

theorem eff_f64u16 (F : FpuSpec) (s : FState) : ∃ s', run F f64u16.instrs s = some s' ∧
    s'.x.get .rax = (((F.cvttsd2si32 s.xmm0).setWidth 16).setWidth 32).setWidth 64 ∧
    s'.st = s.st ∧ s'.cw = s.cw ∧ s'.x.get .rsp = s.x.get .rsp :=
  ⟨_, rfl, rfl, rfl, rfl, rfl⟩

theorem eff_f64u32 (F : FpuSpec) (s : FState) : ∃ s', run F f64u32.instrs s = some s' ∧
    s'.x.get .rax = F.cvttsd2si64 s.xmm0 ∧
    s'.st = s.st ∧ s'.cw = s.cw ∧ s'.x.get .rsp = s.x.get .rsp :=
  ⟨_, rfl, rfl, rfl, rfl, rfl⟩

theorem eff_f64u64 (F : FpuSpec) (s : FState) : ∃ s', run F f64u64.instrs s = some s' ∧
    s'.x.get .rax = F.cvttsd2si64 s.xmm0 ∧
    s'.st = s.st ∧ s'.cw = s.cw ∧ s'.x.get .rsp = s.x.get .rsp :=
  ⟨_, rfl, rfl, rfl, rfl, rfl⟩

/-! ### float ↔ double -/

theorem eff_f32f64 (F : FpuSpec) (s : FState) : ∃ s', run F f32f64.instrs s = some s' ∧
    s'.xmm0 = F.cvtss2sd (s.xmm0.setWidth 32) ∧
    s'.st = s.st ∧ s'.cw = s.cw ∧ s'.x.get .rsp = s.x.get .rsp :=
  ⟨_, rfl, rfl, rfl, rfl, rfl⟩

theorem eff_f64f32 (F : FpuSpec) (s : FState) : ∃ s', run F f64f32.instrs s = some s' ∧
    s'.xmm0.setWidth 32 = F.cvtsd2ss s.xmm0 ∧
    s'.st = s.st ∧ s'.cw = s.cw ∧ s'.x.get .rsp = s.x.get .rsp :=
  ⟨_, rfl, setLow32_low _ _, rfl, rfl, rfl⟩

/-! ### through a scratch slot below %rsp -/

theorem eff_i32f80 (F : FpuSpec) (s : FState) : ∃ s', run F i32f80.instrs s = some s' ∧
    s'.st = F.fild32 ((s.x.get .rax).setWidth 32) :: s.st ∧ s'.cw = s.cw ∧ s'.x.get .rsp = s.x.get .rsp := by
  obtain ⟨x, xmm0, xmm1, st, cw⟩ := s
  refine ⟨_, rfl, ?_⟩
  dsimp only
  x86_norm

theorem eff_i64f80 (F : FpuSpec) (s : FState) : ∃ s', run F i64f80.instrs s = some s' ∧
    s'.st = F.fild64 (s.x.get .rax) :: s.st ∧ s'.cw = s.cw ∧ s'.x.get .rsp = s.x.get .rsp := by
  obtain ⟨x, xmm0, xmm1, st, cw⟩ := s
  refine ⟨_, rfl, ?_⟩
  dsimp only
  x86_norm
  simp

theorem eff_u32f80 (F : FpuSpec) (s : FState) : ∃ s', run F u32f80.instrs s = some s' ∧
    s'.st = F.fild64 (((s.x.get .rax).setWidth 32).setWidth 64) :: s.st ∧ s'.cw = s.cw ∧ s'.x.get .rsp = s.x.get .rsp := by
  obtain ⟨x, xmm0, xmm1, st, cw⟩ := s
  refine ⟨_, rfl, ?_⟩
  dsimp only
  x86_norm
  simp

theorem eff_f32f80 (F : FpuSpec) (s : FState) : ∃ s', run F f32f80.instrs s = some s' ∧
    s'.st = F.fld32 (s.xmm0.setWidth 32) :: s.st ∧ s'.cw = s.cw ∧ s'.x.get .rsp = s.x.get .rsp := by
  obtain ⟨x, xmm0, xmm1, st, cw⟩ := s
  refine ⟨_, rfl, ?_⟩
  dsimp only
  x86_norm

theorem eff_f64f80 (F : FpuSpec) (s : FState) : ∃ s', run F f64f80.instrs s = some s' ∧
    s'.st = F.fld64 s.xmm0 :: s.st ∧ s'.cw = s.cw ∧ s'.x.get .rsp = s.x.get .rsp := by
  obtain ⟨x, xmm0, xmm1, st, cw⟩ := s
  refine ⟨_, rfl, ?_⟩
  dsimp only
  x86_norm

theorem eff_f80f32 (F : FpuSpec) (s : FState) (v : BitVec 80) (rest : List (BitVec 80)) (h : s.st = v :: rest) :
    ∃ s', run F f80f32.instrs s = some s' ∧
    s'.xmm0.setWidth 32 = F.fst32 s.cw v ∧ s'.st = rest ∧ s'.cw = s.cw ∧ s'.x.get .rsp = s.x.get .rsp := by
  obtain ⟨x, xmm0, xmm1, st, cw⟩ := s
  simp only at h; subst h
  refine ⟨_, rfl, ?_⟩
  dsimp only
  x86_norm
  simp

theorem eff_f80f64 (F : FpuSpec) (s : FState) (v : BitVec 80) (rest : List (BitVec 80)) (h : s.st = v :: rest) :
    ∃ s', run F f80f64.instrs s = some s' ∧
    s'.xmm0 = F.fst64 s.cw v ∧ s'.st = rest ∧ s'.cw = s.cw ∧ s'.x.get .rsp = s.x.get .rsp := by
  obtain ⟨x, xmm0, xmm1, st, cw⟩ := s
  simp only at h; subst h
  refine ⟨_, rfl, ?_⟩
  dsimp only
  x86_norm


/-! ### long double → integer: FROM_F80_1 <fistp> FROM_F80_2 <load>.
    The control word is saved, its RC field set to 11b (`or $12, %ah`), the store is done, the saved word restored. -/

theorem cwOr (cw : BitVec 16) :
    BitVec.setWidth 16 (BitVec.setWidth 64 (BitVec.setWidth 32 cw) ||| (12#64 &&& 255) <<< 8) = cw ||| 3072#16 := by
  apply BitVec.eq_of_getLsbD_eq
  intro i hi
  simp [hi]

/-- `cw ||| 0x0C00` has rounding control 11b (toward zero) -/
theorem rc_cwOr (cw : BitVec 16) : rc (cw ||| 3072#16) = 3#2 := by
  apply BitVec.eq_of_getLsbD_eq
  intro i hi
  have : i = 0 ∨ i = 1 := by omega
  rcases this with h | h <;> subst h <;> simp [rc]

macro "from_f80" : tactic => `(tactic| (
  refine ⟨_, rfl, ?_⟩
  dsimp only
  x86_norm
  rw [cwOr]
  refine ⟨?_, ?_⟩
  · first | rfl | simp
  · simp only [State.read8, State.read16, State.read32, State.read64, State.write16, State.write32, State.write64,
      State.mem_write8, State.mem_set, BitVec.add_assoc, BitVec.add_right_inj, BitVec.add_right_eq_self,
      BitVec.self_eq_add_right, BitVec.reduceAdd, BitVec.reduceEq, if_true, if_false, ite_true, ite_false,
      BitVec.ofNat_eq_ofNat]
    exact split16 _))

theorem eff_f80i8 (F : FpuSpec) (s : FState) (v : BitVec 80) (rest : List (BitVec 80)) (h : s.st = v :: rest) :
    ∃ s', run F f80i8.instrs s = some s' ∧
    s'.x.get .rax = (((F.fistp16 (s.cw ||| 3072#16) v).setWidth 8).signExtend 32).setWidth 64 ∧
    s'.st = rest ∧ s'.cw = s.cw ∧ s'.x.get .rsp = s.x.get .rsp := by
  obtain ⟨x, xmm0, xmm1, st, cw⟩ := s
  simp only at h; subst h
  from_f80

theorem eff_f80u8 (F : FpuSpec) (s : FState) (v : BitVec 80) (rest : List (BitVec 80)) (h : s.st = v :: rest) :
    ∃ s', run F f80u8.instrs s = some s' ∧
    s'.x.get .rax = (((F.fistp16 (s.cw ||| 3072#16) v).setWidth 8).setWidth 32).setWidth 64 ∧
    s'.st = rest ∧ s'.cw = s.cw ∧ s'.x.get .rsp = s.x.get .rsp := by
  obtain ⟨x, xmm0, xmm1, st, cw⟩ := s
  simp only at h; subst h
  from_f80

theorem eff_f80i16 (F : FpuSpec) (s : FState) (v : BitVec 80) (rest : List (BitVec 80)) (h : s.st = v :: rest) :
    ∃ s', run F f80i16.instrs s = some s' ∧
    s'.x.get .rax = ((F.fistp16 (s.cw ||| 3072#16) v).signExtend 32).setWidth 64 ∧
    s'.st = rest ∧ s'.cw = s.cw ∧ s'.x.get .rsp = s.x.get .rsp := by
  obtain ⟨x, xmm0, xmm1, st, cw⟩ := s
  simp only at h; subst h
  from_f80

theorem eff_f80u16 (F : FpuSpec) (s : FState) (v : BitVec 80) (rest : List (BitVec 80)) (h : s.st = v :: rest) :
    ∃ s', run F f80u16.instrs s = some s' ∧
    s'.x.get .rax = (((F.fistp32 (s.cw ||| 3072#16) v).setWidth 16).setWidth 32).setWidth 64 ∧
    s'.st = rest ∧ s'.cw = s.cw ∧ s'.x.get .rsp = s.x.get .rsp := by
  obtain ⟨x, xmm0, xmm1, st, cw⟩ := s
  simp only at h; subst h
  from_f80

theorem eff_f80i32 (F : FpuSpec) (s : FState) (v : BitVec 80) (rest : List (BitVec 80)) (h : s.st = v :: rest) :
    ∃ s', run F f80i32.instrs s = some s' ∧
    s'.x.get .rax = (F.fistp32 (s.cw ||| 3072#16) v).setWidth 64 ∧
    s'.st = rest ∧ s'.cw = s.cw ∧ s'.x.get .rsp = s.x.get .rsp := by
  obtain ⟨x, xmm0, xmm1, st, cw⟩ := s
  simp only at h; subst h
  from_f80

theorem eff_f80u32 (F : FpuSpec) (s : FState) (v : BitVec 80) (rest : List (BitVec 80)) (h : s.st = v :: rest) :
    ∃ s', run F f80u32.instrs s = some s' ∧
    s'.x.get .rax = ((F.fistp64 (s.cw ||| 3072#16) v).setWidth 32).setWidth 64 ∧
    s'.st = rest ∧ s'.cw = s.cw ∧ s'.x.get .rsp = s.x.get .rsp := by
  obtain ⟨x, xmm0, xmm1, st, cw⟩ := s
  simp only at h; subst h
  from_f80

theorem eff_f80i64 (F : FpuSpec) (s : FState) (v : BitVec 80) (rest : List (BitVec 80)) (h : s.st = v :: rest) :
    ∃ s', run F f80i64.instrs s = some s' ∧
    s'.x.get .rax = F.fistp64 (s.cw ||| 3072#16) v ∧
    s'.st = rest ∧ s'.cw = s.cw ∧ s'.x.get .rsp = s.x.get .rsp := by
  obtain ⟨x, xmm0, xmm1, st, cw⟩ := s
  simp only at h; subst h
  from_f80

theorem eff_f80u64 (F : FpuSpec) (s : FState) (v : BitVec 80) (rest : List (BitVec 80)) (h : s.st = v :: rest) :
    ∃ s', run F f80u64.instrs s = some s' ∧
    s'.x.get .rax = F.fistp64 (s.cw ||| 3072#16) v ∧
    s'.st = rest ∧ s'.cw = s.cw ∧ s'.x.get .rsp = s.x.get .rsp := by
  obtain ⟨x, xmm0, xmm1, st, cw⟩ := s
  simp only at h; subst h
  from_f80

/-! ### the two branchy cells: unsigned long → double / long double -/

theorem runFrom_step (F : FpuSpec) (i : Ins) (is : List Ins) (s s' : FState)
    (hl : isLabel i = false) (hj : jumpOf i s = none) (hs : Fp.step F i s = some s') :
    runFrom F (i :: is) none s = runFrom F is none s' := by
  simp [runFrom, hl, hj, hs]

theorem runFrom_jcc (F : FpuSpec) (i : Ins) (is : List Ins) (s : FState) (needs taken : Bool) (l t : String)
    (hl : isLabel i = false) (hj : jumpOf i s = some (needs, taken, l)) (hv : needs = true → s.x.flagsValid = true)
    (ht : labelOfRef l = some t) :
    runFrom F (i :: is) none s = if taken then runFrom F is (some t) s else runFrom F is none s := by
  cases needs <;> cases taken <;> simp_all [runFrom]

/-- top bit clear: `test %rax,%rax; js 1f` falls through to the plain signed conversion -/
theorem eff_u64f64_nonneg (F : FpuSpec) (s : FState) (h : (s.x.get .rax).msb = false) :
    ∃ s', Fp.run F u64f64.instrs s = some s' ∧ s'.xmm0 = F.cvtsi2sd64 (s.x.get .rax) ∧
    s'.st = s.st ∧ s'.cw = s.cw ∧ s'.x.get .rsp = s.x.get .rsp := by
  obtain ⟨x, xmm0, xmm1, st, cw⟩ := s
  simp only at h
  have hsf : ((x.get Reg.rax) &&& (x.get Reg.rax)).msb = false := by simpa using h
  refine ⟨?w, ?hrun, ?rest⟩
  case hrun =>
    simp only [Fp.run, u64f64, Line.instrs]
    rw [runFrom_step F _ _ _ _ rfl rfl rfl]
    rw [runFrom_jcc F _ _ _ true _ "1f" "1:" rfl rfl (fun _ => rfl) rfl]
    dsimp only
    simp only [State.flags, State.src, State.getW, W.bits, BitVec.setWidth_eq, hsf, Bool.false_eq_true, if_false]
    rfl
  case rest =>
    exact ⟨rfl, rfl, rfl, rfl⟩

/-- top bit set: halve with the lost bit or-ed back in (sticky), convert, double -/
theorem eff_u64f64_neg (F : FpuSpec) (s : FState) (h : (s.x.get .rax).msb = true) :
    ∃ s', Fp.run F u64f64.instrs s = some s' ∧
    s'.xmm0 = F.addsd (F.cvtsi2sd64 ((s.x.get .rax) >>> 1 ||| ((s.x.get .rax) &&& 1#64)))
                      (F.cvtsi2sd64 ((s.x.get .rax) >>> 1 ||| ((s.x.get .rax) &&& 1#64))) ∧
    s'.st = s.st ∧ s'.cw = s.cw ∧ s'.x.get .rsp = s.x.get .rsp := by
  obtain ⟨x, xmm0, xmm1, st, cw⟩ := s
  simp only at h
  have hsf : ((x.get Reg.rax) &&& (x.get Reg.rax)).msb = true := by simpa using h
  refine ⟨?w, ?hrun, ?rest⟩
  case hrun =>
    simp only [Fp.run, u64f64, Line.instrs]
    rw [runFrom_step F _ _ _ _ rfl rfl rfl]
    rw [runFrom_jcc F _ _ _ true _ "1f" "1:" rfl rfl (fun _ => rfl) rfl]
    dsimp only
    simp only [State.flags, State.src, State.getW, W.bits, BitVec.setWidth_eq, hsf, if_true]
    rfl
  case rest =>
    refine ⟨?_, rfl, rfl, rfl⟩
    dsimp only
    simp only [aluExec, State.flags, State.src, State.getW, State.setW, W.bits, State.get, State.set, reduceCtorEq, if_false,
      if_true, ite_false]
    have e : (BitVec.setWidth 32 (x.regs Reg.rax) &&& BitVec.ofInt 32 1).setWidth 64 = x.regs Reg.rax &&& 1#64 := by
      apply BitVec.eq_of_getLsbD_eq
      intro i hi
      by_cases h0 : i = 0
      · subst h0; simp
      · simp [h0]
    simp only [BitVec.setWidth_eq, e]

theorem eff_u64f80_nonneg (F : FpuSpec) (s : FState) (h : (s.x.get .rax).msb = false) :
    ∃ s', Fp.run F u64f80.instrs s = some s' ∧ s'.st = F.fild64 (s.x.get .rax) :: s.st ∧
    s'.cw = s.cw ∧ s'.x.get .rsp = s.x.get .rsp := by
  obtain ⟨x, xmm0, xmm1, st, cw⟩ := s
  simp only at h
  have hsf : ((x.get Reg.rax) &&& (x.get Reg.rax)).msb = false := by simpa using h
  refine ⟨?w, ?hrun, ?rest⟩
  case hrun =>
    simp only [Fp.run, u64f80, Line.instrs]
    rw [runFrom_step F _ _ _ _ rfl rfl rfl]
    rw [runFrom_step F _ _ _ _ rfl rfl rfl]
    rw [runFrom_step F _ _ _ _ rfl rfl rfl]
    rw [runFrom_jcc F _ _ _ true _ "1f" "1:" rfl rfl (fun _ => rfl) rfl]
    dsimp only
    x86_norm
    simp only [aluExec, State.flags, State.src, State.getW, W.bits, BitVec.setWidth_eq, hsf, Bool.not_false, if_true]
    rfl
  case rest =>
    refine ⟨?_, rfl, ?_⟩
    · dsimp only
    · dsimp only
      simp only [State.get, State.regs_write64]

/-- top bit set: `fildq` read the pattern as a negative number; 2^64 (the float 0x5F800000) is added -/
theorem eff_u64f80_neg (F : FpuSpec) (s : FState) (h : (s.x.get .rax).msb = true) :
    ∃ s', Fp.run F u64f80.instrs s = some s' ∧
    s'.st = F.fadd s.cw (F.fild64 (s.x.get .rax)) (F.fld32 1602224128#32) :: s.st ∧
    s'.cw = s.cw ∧ s'.x.get .rsp = s.x.get .rsp := by
  obtain ⟨x, xmm0, xmm1, st, cw⟩ := s
  simp only at h
  have hsf : ((x.get Reg.rax) &&& (x.get Reg.rax)).msb = true := by simpa using h
  refine ⟨?w, ?hrun, ?rest⟩
  case hrun =>
    simp only [Fp.run, u64f80, Line.instrs]
    rw [runFrom_step F _ _ _ _ rfl rfl rfl]
    rw [runFrom_step F _ _ _ _ rfl rfl rfl]
    rw [runFrom_step F _ _ _ _ rfl rfl rfl]
    rw [runFrom_jcc F _ _ _ true _ "1f" "1:" rfl rfl (fun _ => rfl) rfl]
    dsimp only
    x86_norm
    simp only [aluExec, State.flags, State.src, State.getW, W.bits, BitVec.setWidth_eq, hsf, Bool.not_true, Bool.false_eq_true,
      if_false]
    rfl
  case rest =>
    refine ⟨?_, rfl, ?_⟩
    · dsimp only; x86_norm; simp
    · dsimp only; x86_norm
      simp only [State.get, State.regs_write64]


end ChibiVerif.Fp
