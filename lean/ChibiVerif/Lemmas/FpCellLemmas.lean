/-
Effect lemmas for C02: what each distinct cast-table string (taken from the *generated* `Gen/CastTableGen`) leaves in
the machine of Model/FpMachine, for every start state and every `F : FpuSpec`.  One lemma per string; the arithmetic that
turns an effect into "the C11 conversion" is in Lemmas/FpCastLemmas.lean.

Proof pattern: the run itself is evaluated by the kernel (`rfl`: the instruction strings are closed terms); what
remains are read-after-write facts about the scratch slots below %rsp (Lemmas/FpMemLemmas) and small BitVec identities.
-/
import ChibiVerif.Lemmas.FpMemLemmas
import ChibiVerif.Gen.CastTableGen

namespace ChibiVerif.X86

theorem State.ea_def (s : State) (d : Int) (b : Reg) : s.ea d b = s.get b + BitVec.ofInt 64 d := rfl

@[simp] theorem State.get_write8 (s : State) (a : BitVec 64) (v : BitVec 8) (r : Reg) : (s.write8 a v).get r = s.get r := rfl
@[simp] theorem State.get_write16 (s : State) (a : BitVec 64) (v : BitVec 16) (r : Reg) : (s.write16 a v).get r = s.get r := by
  simp [State.write16]
@[simp] theorem State.get_write32 (s : State) (a : BitVec 64) (v : BitVec 32) (r : Reg) : (s.write32 a v).get r = s.get r := by
  simp [State.write32]
@[simp] theorem State.get_write64 (s : State) (a : BitVec 64) (v : BitVec 64) (r : Reg) : (s.write64 a v).get r = s.get r := by
  simp [State.write64]
theorem State.regs_write8 (s : State) (a : BitVec 64) (v : BitVec 8) : (s.write8 a v).regs = s.regs := rfl
theorem State.regs_write16 (s : State) (a : BitVec 64) (v : BitVec 16) : (s.write16 a v).regs = s.regs := by
  simp [State.write16, State.regs_write8]
theorem State.regs_write32 (s : State) (a : BitVec 64) (v : BitVec 32) : (s.write32 a v).regs = s.regs := by
  simp [State.write32, State.regs_write16]
theorem State.regs_write64 (s : State) (a : BitVec 64) (v : BitVec 64) : (s.write64 a v).regs = s.regs := by
  simp [State.write64, State.regs_write32]
@[simp] theorem State.mem_set (s : State) (r : Reg) (v : BitVec 64) : (s.set r v).mem = s.mem := rfl
@[simp] theorem State.get_flags {n : Nat} (s : State) (r : BitVec n) (c o : Bool) (g : Reg) : (s.flags r c o).get g = s.get g := rfl
@[simp] theorem State.read32_flags {n : Nat} (s : State) (r : BitVec n) (c o : Bool) (a : BitVec 64) :
    (s.flags r c o).read32 a = s.read32 a := rfl
@[simp] theorem State.read64_flags {n : Nat} (s : State) (r : BitVec n) (c o : Bool) (a : BitVec 64) :
    (s.flags r c o).read64 a = s.read64 a := rfl
@[simp] theorem State.read32_set (s : State) (g : Reg) (v : BitVec 64) (a : BitVec 64) : (s.set g v).read32 a = s.read32 a := rfl
@[simp] theorem State.read64_set (s : State) (g : Reg) (v : BitVec 64) (a : BitVec 64) : (s.set g v).read64 a = s.read64 a := rfl

end ChibiVerif.X86

namespace ChibiVerif.Fp
open ChibiVerif.Asm ChibiVerif.X86 ChibiVerif.Spec.Fpu ChibiVerif.Gen.CastTable

/-- what no cast-table string changes: %rsp, and (unless it says so) the control word -/
macro "x86_norm" : tactic => `(tactic|
  simp only [State.src, State.readW, State.writeW, State.setW, State.getW, State.ea_def, State.get_set_same,
    State.get_write16, State.get_write32, State.get_write64, State.get_set_ne, ne_eq, reduceCtorEq, not_false_eq_true,
    W.bits, BitVec.reduceOfInt, State.get_flags, State.read32_flags, State.read64_flags, State.read32_set, State.read64_set,
    State.read16_write16, State.read32_write32, State.read64_write64, State.read8_write16,
    State.read16_write32, State.read32_write64, and_self, and_true, true_and])

theorem setLow32_low (x : BitVec 64) (v : BitVec 32) : (setLow32 x v).setWidth 32 = v := by
  apply BitVec.eq_of_toNat_eq
  have := v.isLt
  have := x.isLt
  simp only [setLow32, BitVec.toNat_setWidth, BitVec.toNat_ofNat]
  omega

/-! ### integer → float / double (SSE, registers only) -/

theorem eff_i32f32 (F : FpuSpec) (s : FState) : ∃ s', run F i32f32.instrs s = some s' ∧
    s'.xmm0.setWidth 32 = F.cvtsi2ss32 ((s.x.get .rax).setWidth 32) ∧
    s'.st = s.st ∧ s'.cw = s.cw ∧ s'.x.get .rsp = s.x.get .rsp :=
  ⟨_, rfl, setLow32_low _ _, rfl, rfl, rfl⟩

theorem eff_i32f64 (F : FpuSpec) (s : FState) : ∃ s', run F i32f64.instrs s = some s' ∧
    s'.xmm0 = F.cvtsi2sd32 ((s.x.get .rax).setWidth 32) ∧
    s'.st = s.st ∧ s'.cw = s.cw ∧ s'.x.get .rsp = s.x.get .rsp :=
  ⟨_, rfl, rfl, rfl, rfl, rfl⟩

theorem eff_i64f32 (F : FpuSpec) (s : FState) : ∃ s', run F i64f32.instrs s = some s' ∧
    s'.xmm0.setWidth 32 = F.cvtsi2ss64 (s.x.get .rax) ∧
    s'.st = s.st ∧ s'.cw = s.cw ∧ s'.x.get .rsp = s.x.get .rsp :=
  ⟨_, rfl, setLow32_low _ _, rfl, rfl, rfl⟩

theorem eff_i64f64 (F : FpuSpec) (s : FState) : ∃ s', run F i64f64.instrs s = some s' ∧
    s'.xmm0 = F.cvtsi2sd64 (s.x.get .rax) ∧
    s'.st = s.st ∧ s'.cw = s.cw ∧ s'.x.get .rsp = s.x.get .rsp :=
  ⟨_, rfl, rfl, rfl, rfl, rfl⟩

theorem eff_u32f32 (F : FpuSpec) (s : FState) : ∃ s', run F u32f32.instrs s = some s' ∧
    s'.xmm0.setWidth 32 = F.cvtsi2ss64 (((s.x.get .rax).setWidth 32).setWidth 64) ∧
    s'.st = s.st ∧ s'.cw = s.cw ∧ s'.x.get .rsp = s.x.get .rsp :=
  ⟨_, rfl, setLow32_low _ _, rfl, rfl, rfl⟩

theorem eff_u32f64 (F : FpuSpec) (s : FState) : ∃ s', run F u32f64.instrs s = some s' ∧
    s'.xmm0 = F.cvtsi2sd64 (((s.x.get .rax).setWidth 32).setWidth 64) ∧
    s'.st = s.st ∧ s'.cw = s.cw ∧ s'.x.get .rsp = s.x.get .rsp :=
  ⟨_, rfl, rfl, rfl, rfl, rfl⟩

/-! ### float / double → integer (SSE, registers only): what is left in %rax -/

theorem eff_f32i8 (F : FpuSpec) (s : FState) : ∃ s', run F f32i8.instrs s = some s' ∧
    s'.x.get .rax = (((F.cvttss2si32 (s.xmm0.setWidth 32)).setWidth 8).signExtend 32).setWidth 64 ∧
    s'.st = s.st ∧ s'.cw = s.cw ∧ s'.x.get .rsp = s.x.get .rsp :=
  ⟨_, rfl, rfl, rfl, rfl, rfl⟩

theorem eff_f32i16 (F : FpuSpec) (s : FState) : ∃ s', run F f32i16.instrs s = some s' ∧
    s'.x.get .rax = (((F.cvttss2si32 (s.xmm0.setWidth 32)).setWidth 16).signExtend 32).setWidth 64 ∧
    s'.st = s.st ∧ s'.cw = s.cw ∧ s'.x.get .rsp = s.x.get .rsp :=
  ⟨_, rfl, rfl, rfl, rfl, rfl⟩

theorem eff_f32i32 (F : FpuSpec) (s : FState) : ∃ s', run F f32i32.instrs s = some s' ∧
    s'.x.get .rax = (F.cvttss2si32 (s.xmm0.setWidth 32)).setWidth 64 ∧
    s'.st = s.st ∧ s'.cw = s.cw ∧ s'.x.get .rsp = s.x.get .rsp :=
  ⟨_, rfl, rfl, rfl, rfl, rfl⟩

theorem eff_f32i64 (F : FpuSpec) (s : FState) : ∃ s', run F f32i64.instrs s = some s' ∧
    s'.x.get .rax = F.cvttss2si64 (s.xmm0.setWidth 32) ∧
    s'.st = s.st ∧ s'.cw = s.cw ∧ s'.x.get .rsp = s.x.get .rsp :=
  ⟨_, rfl, rfl, rfl, rfl, rfl⟩

theorem eff_f32u8 (F : FpuSpec) (s : FState) : ∃ s', run F f32u8.instrs s = some s' ∧
    s'.x.get .rax = (((F.cvttss2si32 (s.xmm0.setWidth 32)).setWidth 8).setWidth 32).setWidth 64 ∧
    s'.st = s.st ∧ s'.cw = s.cw ∧ s'.x.get .rsp = s.x.get .rsp :=
  ⟨_, rfl, rfl, rfl, rfl, rfl⟩

theorem eff_f32u16 (F : FpuSpec) (s : FState) : ∃ s', run F f32u16.instrs s = some s' ∧
    s'.x.get .rax = (((F.cvttss2si32 (s.xmm0.setWidth 32)).setWidth 16).setWidth 32).setWidth 64 ∧
    s'.st = s.st ∧ s'.cw = s.cw ∧ s'.x.get .rsp = s.x.get .rsp :=
  ⟨_, rfl, rfl, rfl, rfl, rfl⟩

theorem eff_f32u32 (F : FpuSpec) (s : FState) : ∃ s', run F f32u32.instrs s = some s' ∧
    s'.x.get .rax = F.cvttss2si64 (s.xmm0.setWidth 32) ∧
    s'.st = s.st ∧ s'.cw = s.cw ∧ s'.x.get .rsp = s.x.get .rsp :=
  ⟨_, rfl, rfl, rfl, rfl, rfl⟩

theorem eff_f64i8 (F : FpuSpec) (s : FState) : ∃ s', run F f64i8.instrs s = some s' ∧
    s'.x.get .rax = (((F.cvttsd2si32 s.xmm0).setWidth 8).signExtend 32).setWidth 64 ∧
    s'.st = s.st ∧ s'.cw = s.cw ∧ s'.x.get .rsp = s.x.get .rsp :=
  ⟨_, rfl, rfl, rfl, rfl, rfl⟩

theorem eff_f64i16 (F : FpuSpec) (s : FState) : ∃ s', run F f64i16.instrs s = some s' ∧
    s'.x.get .rax = (((F.cvttsd2si32 s.xmm0).setWidth 16).signExtend 32).setWidth 64 ∧
    s'.st = s.st ∧ s'.cw = s.cw ∧ s'.x.get .rsp = s.x.get .rsp :=
  ⟨_, rfl, rfl, rfl, rfl, rfl⟩

theorem eff_f64i32 (F : FpuSpec) (s : FState) : ∃ s', run F f64i32.instrs s = some s' ∧
    s'.x.get .rax = (F.cvttsd2si32 s.xmm0).setWidth 64 ∧
    s'.st = s.st ∧ s'.cw = s.cw ∧ s'.x.get .rsp = s.x.get .rsp :=
  ⟨_, rfl, rfl, rfl, rfl, rfl⟩

theorem eff_f64i64 (F : FpuSpec) (s : FState) : ∃ s', run F f64i64.instrs s = some s' ∧
    s'.x.get .rax = F.cvttsd2si64 s.xmm0 ∧
    s'.st = s.st ∧ s'.cw = s.cw ∧ s'.x.get .rsp = s.x.get .rsp :=
  ⟨_, rfl, rfl, rfl, rfl, rfl⟩

theorem eff_f64u8 (F : FpuSpec) (s : FState) : ∃ s', run F f64u8.instrs s = some s' ∧
    s'.x.get .rax = (((F.cvttsd2si32 s.xmm0).setWidth 8).setWidth 32).setWidth 64 ∧
    s'.st = s.st ∧ s'.cw = s.cw ∧ s'.x.get .rsp = s.x.get .rsp :=
  ⟨_, rfl, rfl, rfl, rfl, rfl⟩

theorem eff_f64u16 (F : FpuSpec) (s : FState) : ∃ s', run F f64u16.instrs s = some s' ∧
    s'.x.get .rax = (((F.cvttsd2si32 s.xmm0).setWidth 16).setWidth 32).setWidth 64 ∧
    s'.st = s.st ∧ s'.cw = s.cw ∧ s'.x.get .rsp = s.x.get .rsp :=
  ⟨_, rfl, rfl, rfl, rfl, rfl⟩

theorem eff_f64u32 (F : FpuSpec) (s : FState) : ∃ s', run F f64u32.instrs s = some s' ∧
    s'.x.get .rax = F.cvttsd2si64 s.xmm0 ∧
    s'.st = s.st ∧ s'.cw = s.cw ∧ s'.x.get .rsp = s.x.get .rsp :=
  ⟨_, rfl, rfl, rfl, rfl, rfl⟩

/-! ### float ↔ double -/

theorem eff_f32f64 (F : FpuSpec) (s : FState) : ∃ s', run F f32f64.instrs s = some s' ∧
    s'.xmm0 = F.cvtss2sd (s.xmm0.setWidth 32) ∧
    s'.st = s.st ∧ s'.cw = s.cw ∧ s'.x.get .rsp = s.x.get .rsp :=
  ⟨_, rfl, rfl, rfl, rfl, rfl⟩

theorem eff_f64f32 (F : FpuSpec) (s : FState) : ∃ s', run F f64f32.instrs s = some s' ∧
    s'.xmm0.setWidth 32 = F.cvtsd2ss s.xmm0 ∧
    s'.st = s.st ∧ s'.cw = s.cw ∧ s'.x.get .rsp = s.x.get .rsp :=
  ⟨_, rfl, setLow32_low _ _, rfl, rfl, rfl⟩

/-! ### through a scratch slot below %rsp -/

theorem eff_i32f80 (F : FpuSpec) (s : FState) : ∃ s', run F i32f80.instrs s = some s' ∧
    s'.st = F.fild32 ((s.x.get .rax).setWidth 32) :: s.st ∧ s'.cw = s.cw ∧ s'.x.get .rsp = s.x.get .rsp := by
  obtain ⟨x, xmm0, xmm1, st, cw⟩ := s
  refine ⟨_, rfl, ?_⟩
  dsimp only
  x86_norm

theorem eff_i64f80 (F : FpuSpec) (s : FState) : ∃ s', run F i64f80.instrs s = some s' ∧
    s'.st = F.fild64 (s.x.get .rax) :: s.st ∧ s'.cw = s.cw ∧ s'.x.get .rsp = s.x.get .rsp := by
  obtain ⟨x, xmm0, xmm1, st, cw⟩ := s
  refine ⟨_, rfl, ?_⟩
  dsimp only
  x86_norm
  simp

theorem eff_u32f80 (F : FpuSpec) (s : FState) : ∃ s', run F u32f80.instrs s = some s' ∧
    s'.st = F.fild64 (((s.x.get .rax).setWidth 32).setWidth 64) :: s.st ∧ s'.cw = s.cw ∧ s'.x.get .rsp = s.x.get .rsp := by
  obtain ⟨x, xmm0, xmm1, st, cw⟩ := s
  refine ⟨_, rfl, ?_⟩
  dsimp only
  x86_norm
  simp

theorem eff_f32f80 (F : FpuSpec) (s : FState) : ∃ s', run F f32f80.instrs s = some s' ∧
    s'.st = F.fld32 (s.xmm0.setWidth 32) :: s.st ∧ s'.cw = s.cw ∧ s'.x.get .rsp = s.x.get .rsp := by
  obtain ⟨x, xmm0, xmm1, st, cw⟩ := s
  refine ⟨_, rfl, ?_⟩
  dsimp only
  x86_norm

theorem eff_f64f80 (F : FpuSpec) (s : FState) : ∃ s', run F f64f80.instrs s = some s' ∧
    s'.st = F.fld64 s.xmm0 :: s.st ∧ s'.cw = s.cw ∧ s'.x.get .rsp = s.x.get .rsp := by
  obtain ⟨x, xmm0, xmm1, st, cw⟩ := s
  refine ⟨_, rfl, ?_⟩
  dsimp only
  x86_norm

theorem eff_f80f32 (F : FpuSpec) (s : FState) (v : BitVec 80) (rest : List (BitVec 80)) (h : s.st = v :: rest) :
    ∃ s', run F f80f32.instrs s = some s' ∧
    s'.xmm0.setWidth 32 = F.fst32 s.cw v ∧ s'.st = rest ∧ s'.cw = s.cw ∧ s'.x.get .rsp = s.x.get .rsp := by
  obtain ⟨x, xmm0, xmm1, st, cw⟩ := s
  simp only at h; subst h
  refine ⟨_, rfl, ?_⟩
  dsimp only
  x86_norm
  simp

theorem eff_f80f64 (F : FpuSpec) (s : FState) (v : BitVec 80) (rest : List (BitVec 80)) (h : s.st = v :: rest) :
    ∃ s', run F f80f64.instrs s = some s' ∧
    s'.xmm0 = F.fst64 s.cw v ∧ s'.st = rest ∧ s'.cw = s.cw ∧ s'.x.get .rsp = s.x.get .rsp := by
  obtain ⟨x, xmm0, xmm1, st, cw⟩ := s
  simp only at h; subst h
  refine ⟨_, rfl, ?_⟩
  dsimp only
  x86_norm


/-! ### long double → integer: FROM_F80_1 <fistp> FROM_F80_2 <load>.
    The control word is saved, its RC field set to 11b (`or $12, %ah`), the store is done, the saved word restored. -/

theorem cwOr (cw : BitVec 16) :
    BitVec.setWidth 16 (BitVec.setWidth 64 (BitVec.setWidth 32 cw) ||| (12#64 &&& 255) <<< 8) = cw ||| 3072#16 := by
  apply BitVec.eq_of_getLsbD_eq
  intro i hi
  simp [hi]

/-- `cw ||| 0x0C00` has rounding control 11b (toward zero) -/
theorem rc_cwOr (cw : BitVec 16) : rc (cw ||| 3072#16) = 3#2 := by
  apply BitVec.eq_of_getLsbD_eq
  intro i hi
  have : i = 0 ∨ i = 1 := by omega
  rcases this with h | h <;> subst h <;> simp [rc]

macro "from_f80" : tactic => `(tactic| (
  refine ⟨_, rfl, ?_⟩
  dsimp only
  x86_norm
  rw [cwOr]
  refine ⟨?_, ?_⟩
  · first | rfl | simp
  · simp only [State.read8, State.read16, State.read32, State.read64, State.write16, State.write32, State.write64,
      State.mem_write8, State.mem_set, BitVec.add_assoc, BitVec.add_right_inj, BitVec.add_right_eq_self,
      BitVec.self_eq_add_right, BitVec.reduceAdd, BitVec.reduceEq, if_true, if_false, ite_true, ite_false,
      BitVec.ofNat_eq_ofNat]
    exact split16 _))

theorem eff_f80i8 (F : FpuSpec) (s : FState) (v : BitVec 80) (rest : List (BitVec 80)) (h : s.st = v :: rest) :
    ∃ s', run F f80i8.instrs s = some s' ∧
    s'.x.get .rax = (((F.fistp16 (s.cw ||| 3072#16) v).setWidth 8).signExtend 32).setWidth 64 ∧
    s'.st = rest ∧ s'.cw = s.cw ∧ s'.x.get .rsp = s.x.get .rsp := by
  obtain ⟨x, xmm0, xmm1, st, cw⟩ := s
  simp only at h; subst h
  from_f80

theorem eff_f80u8 (F : FpuSpec) (s : FState) (v : BitVec 80) (rest : List (BitVec 80)) (h : s.st = v :: rest) :
    ∃ s', run F f80u8.instrs s = some s' ∧
    s'.x.get .rax = (((F.fistp16 (s.cw ||| 3072#16) v).setWidth 8).setWidth 32).setWidth 64 ∧
    s'.st = rest ∧ s'.cw = s.cw ∧ s'.x.get .rsp = s.x.get .rsp := by
  obtain ⟨x, xmm0, xmm1, st, cw⟩ := s
  simp only at h; subst h
  from_f80

theorem eff_f80i16 (F : FpuSpec) (s : FState) (v : BitVec 80) (rest : List (BitVec 80)) (h : s.st = v :: rest) :
    ∃ s', run F f80i16.instrs s = some s' ∧
    s'.x.get .rax = ((F.fistp16 (s.cw ||| 3072#16) v).signExtend 32).setWidth 64 ∧
    s'.st = rest ∧ s'.cw = s.cw ∧ s'.x.get .rsp = s.x.get .rsp := by
  obtain ⟨x, xmm0, xmm1, st, cw⟩ := s
  simp only at h; subst h
  from_f80

theorem eff_f80u16 (F : FpuSpec) (s : FState) (v : BitVec 80) (rest : List (BitVec 80)) (h : s.st = v :: rest) :
    ∃ s', run F f80u16.instrs s = some s' ∧
    s'.x.get .rax = (((F.fistp32 (s.cw ||| 3072#16) v).setWidth 16).setWidth 32).setWidth 64 ∧
    s'.st = rest ∧ s'.cw = s.cw ∧ s'.x.get .rsp = s.x.get .rsp := by
  obtain ⟨x, xmm0, xmm1, st, cw⟩ := s
  simp only at h; subst h
  from_f80

theorem eff_f80i32 (F : FpuSpec) (s : FState) (v : BitVec 80) (rest : List (BitVec 80)) (h : s.st = v :: rest) :
    ∃ s', run F f80i32.instrs s = some s' ∧
    s'.x.get .rax = (F.fistp32 (s.cw ||| 3072#16) v).setWidth 64 ∧
    s'.st = rest ∧ s'.cw = s.cw ∧ s'.x.get .rsp = s.x.get .rsp := by
  obtain ⟨x, xmm0, xmm1, st, cw⟩ := s
  simp only at h; subst h
  from_f80

theorem eff_f80u32 (F : FpuSpec) (s : FState) (v : BitVec 80) (rest : List (BitVec 80)) (h : s.st = v :: rest) :
    ∃ s', run F f80u32.instrs s = some s' ∧
    s'.x.get .rax = ((F.fistp64 (s.cw ||| 3072#16) v).setWidth 32).setWidth 64 ∧
    s'.st = rest ∧ s'.cw = s.cw ∧ s'.x.get .rsp = s.x.get .rsp := by
  obtain ⟨x, xmm0, xmm1, st, cw⟩ := s
  simp only at h; subst h
  from_f80

theorem eff_f80i64 (F : FpuSpec) (s : FState) (v : BitVec 80) (rest : List (BitVec 80)) (h : s.st = v :: rest) :
    ∃ s', run F f80i64.instrs s = some s' ∧
    s'.x.get .rax = F.fistp64 (s.cw ||| 3072#16) v ∧
    s'.st = rest ∧ s'.cw = s.cw ∧ s'.x.get .rsp = s.x.get .rsp := by
  obtain ⟨x, xmm0, xmm1, st, cw⟩ := s
  simp only at h; subst h
  from_f80

/-! ### the two branchy cells: unsigned long → double / long double -/

theorem runFrom_step (F : FpuSpec) (i : Ins) (is : List Ins) (s s' : FState)
    (hl : isLabel i = false) (hj : jumpOf i s = none) (hs : Fp.step F i s = some s') :
    runFrom F (i :: is) none s = runFrom F is none s' := by
  simp [runFrom, hl, hj, hs]

theorem runFrom_jcc (F : FpuSpec) (i : Ins) (is : List Ins) (s : FState) (needs taken : Bool) (l t : String)
    (hl : isLabel i = false) (hj : jumpOf i s = some (needs, taken, l)) (hv : needs = true → s.x.flagsValid = true)
    (ht : labelOfRef l = some t) :
    runFrom F (i :: is) none s = if taken then runFrom F is (some t) s else runFrom F is none s := by
  cases needs <;> cases taken <;> simp_all [runFrom]

/-- top bit clear: `test %rax,%rax; js 1f` falls through to the plain signed conversion -/
theorem eff_u64f64_nonneg (F : FpuSpec) (s : FState) (h : (s.x.get .rax).msb = false) :
    ∃ s', Fp.run F u64f64.instrs s = some s' ∧ s'.xmm0 = F.cvtsi2sd64 (s.x.get .rax) ∧
    s'.st = s.st ∧ s'.cw = s.cw ∧ s'.x.get .rsp = s.x.get .rsp := by
  obtain ⟨x, xmm0, xmm1, st, cw⟩ := s
  simp only at h
  have hsf : ((x.get Reg.rax) &&& (x.get Reg.rax)).msb = false := by simpa using h
  refine ⟨?w, ?hrun, ?rest⟩
  case hrun =>
    simp only [Fp.run, u64f64, Line.instrs]
    rw [runFrom_step F _ _ _ _ rfl rfl rfl]
    rw [runFrom_jcc F _ _ _ true _ "1f" "1:" rfl rfl (fun _ => rfl) rfl]
    dsimp only
    simp only [State.flags, State.src, State.getW, W.bits, BitVec.setWidth_eq, hsf, Bool.false_eq_true, if_false]
    rfl
  case rest =>
    exact ⟨rfl, rfl, rfl, rfl⟩

/-- top bit set: halve with the lost bit or-ed back in (sticky), convert, double -/
theorem eff_u64f64_neg (F : FpuSpec) (s : FState) (h : (s.x.get .rax).msb = true) :
    ∃ s', Fp.run F u64f64.instrs s = some s' ∧
    s'.xmm0 = F.addsd (F.cvtsi2sd64 ((s.x.get .rax) >>> 1 ||| ((s.x.get .rax) &&& 1#64)))
                      (F.cvtsi2sd64 ((s.x.get .rax) >>> 1 ||| ((s.x.get .rax) &&& 1#64))) ∧
    s'.st = s.st ∧ s'.cw = s.cw ∧ s'.x.get .rsp = s.x.get .rsp := by
  obtain ⟨x, xmm0, xmm1, st, cw⟩ := s
  simp only at h
  have hsf : ((x.get Reg.rax) &&& (x.get Reg.rax)).msb = true := by simpa using h
  refine ⟨?w, ?hrun, ?rest⟩
  case hrun =>
    simp only [Fp.run, u64f64, Line.instrs]
    rw [runFrom_step F _ _ _ _ rfl rfl rfl]
    rw [runFrom_jcc F _ _ _ true _ "1f" "1:" rfl rfl (fun _ => rfl) rfl]
    dsimp only
    simp only [State.flags, State.src, State.getW, W.bits, BitVec.setWidth_eq, hsf, if_true]
    rfl
  case rest =>
    refine ⟨?_, rfl, rfl, rfl⟩
    dsimp only
    simp only [aluExec, State.flags, State.src, State.getW, State.setW, W.bits, State.get, State.set, reduceCtorEq, if_false,
      if_true, ite_false]
    have e : (BitVec.setWidth 32 (x.regs Reg.rax) &&& BitVec.ofInt 32 1).setWidth 64 = x.regs Reg.rax &&& 1#64 := by
      apply BitVec.eq_of_getLsbD_eq
      intro i hi
      by_cases h0 : i = 0
      · subst h0; simp
      · simp [h0]
    simp only [BitVec.setWidth_eq, e]

theorem eff_u64f80_nonneg (F : FpuSpec) (s : FState) (h : (s.x.get .rax).msb = false) :
    ∃ s', Fp.run F u64f80.instrs s = some s' ∧ s'.st = F.fild64 (s.x.get .rax) :: s.st ∧
    s'.cw = s.cw ∧ s'.x.get .rsp = s.x.get .rsp := by
  obtain ⟨x, xmm0, xmm1, st, cw⟩ := s
  simp only at h
  have hsf : ((x.get Reg.rax) &&& (x.get Reg.rax)).msb = false := by simpa using h
  refine ⟨?w, ?hrun, ?rest⟩
  case hrun =>
    simp only [Fp.run, u64f80, Line.instrs]
    rw [runFrom_step F _ _ _ _ rfl rfl rfl]
    rw [runFrom_step F _ _ _ _ rfl rfl rfl]
    rw [runFrom_step F _ _ _ _ rfl rfl rfl]
    rw [runFrom_jcc F _ _ _ true _ "1f" "1:" rfl rfl (fun _ => rfl) rfl]
    dsimp only
    x86_norm
    simp only [aluExec, State.flags, State.src, State.getW, W.bits, BitVec.setWidth_eq, hsf, Bool.not_false, if_true]
    rfl
  case rest =>
    refine ⟨?_, rfl, ?_⟩
    · dsimp only
    · dsimp only
      simp only [State.get, State.regs_write64]

/-- top bit set: `fildq` read the pattern as a negative number; 2^64 (the float 0x5F800000) is added -/
theorem eff_u64f80_neg (F : FpuSpec) (s : FState) (h : (s.x.get .rax).msb = true) :
    ∃ s', Fp.run F u64f80.instrs s = some s' ∧
    s'.st = F.fadd s.cw (F.fild64 (s.x.get .rax)) (F.fld32 1602224128#32) :: s.st ∧
    s'.cw = s.cw ∧ s'.x.get .rsp = s.x.get .rsp := by
  obtain ⟨x, xmm0, xmm1, st, cw⟩ := s
  simp only at h
  have hsf : ((x.get Reg.rax) &&& (x.get Reg.rax)).msb = true := by simpa using h
  refine ⟨?w, ?hrun, ?rest⟩
  case hrun =>
    simp only [Fp.run, u64f80, Line.instrs]
    rw [runFrom_step F _ _ _ _ rfl rfl rfl]
    rw [runFrom_step F _ _ _ _ rfl rfl rfl]
    rw [runFrom_step F _ _ _ _ rfl rfl rfl]
    rw [runFrom_jcc F _ _ _ true _ "1f" "1:" rfl rfl (fun _ => rfl) rfl]
    dsimp only
    x86_norm
    simp only [aluExec, State.flags, State.src, State.getW, W.bits, BitVec.setWidth_eq, hsf, Bool.not_true, Bool.false_eq_true,
      if_false]
    rfl
  case rest =>
    refine ⟨?_, rfl, ?_⟩
    · dsimp only; x86_norm; simp
    · dsimp only; x86_norm
      simp only [State.get, State.regs_write64]



/-! ### the repaired cells for unsigned long at ≥ 2^63 -/

theorem step_mov_c32 (F : FpuSpec) (s : FState) :
    Fp.step F ⟨"mov", [.s "$0x5f000000", .r "%eax"]⟩ s = some { s with x := s.x.setW .rax .w32 0x5f000000#32 } := rfl

theorem step_mov_c64 (F : FpuSpec) (s : FState) :
    Fp.step F ⟨"mov", [.s "$0x43e0000000000000", .r "%rax"]⟩ s = some { s with x := s.x.set .rax 0x43e0000000000000#64 } := rfl

/-- unsigned long → float, top bit clear: the plain signed conversion -/
theorem eff_u64f32_nonneg (F : FpuSpec) (s : FState) (h : (s.x.get .rax).msb = false) :
    ∃ s', Fp.run F u64f32.instrs s = some s' ∧ s'.xmm0.setWidth 32 = F.cvtsi2ss64 (s.x.get .rax) ∧
    s'.st = s.st ∧ s'.cw = s.cw ∧ s'.x.get .rsp = s.x.get .rsp := by
  obtain ⟨x, xmm0, xmm1, st, cw⟩ := s
  simp only at h
  have hsf : ((x.get Reg.rax) &&& (x.get Reg.rax)).msb = false := by simpa using h
  refine ⟨?w, ?hrun, ?rest⟩
  case hrun =>
    simp only [Fp.run, u64f32, Line.instrs]
    rw [runFrom_step F _ _ _ _ rfl rfl rfl]
    rw [runFrom_jcc F _ _ _ true _ "1f" "1:" rfl rfl (fun _ => rfl) rfl]
    dsimp only
    simp only [State.flags, State.src, State.getW, W.bits, BitVec.setWidth_eq, hsf, Bool.false_eq_true, if_false]
    rfl
  case rest =>
    exact ⟨setLow32_low _ _, rfl, rfl, rfl⟩

/-- unsigned long → float, top bit set: halve with the lost bit or-ed back in (sticky), convert, double -/
theorem eff_u64f32_neg (F : FpuSpec) (s : FState) (h : (s.x.get .rax).msb = true) :
    ∃ s', Fp.run F u64f32.instrs s = some s' ∧
    s'.xmm0.setWidth 32 = F.addss (F.cvtsi2ss64 ((s.x.get .rax) >>> 1 ||| ((s.x.get .rax) &&& 1#64)))
                                  (F.cvtsi2ss64 ((s.x.get .rax) >>> 1 ||| ((s.x.get .rax) &&& 1#64))) ∧
    s'.st = s.st ∧ s'.cw = s.cw ∧ s'.x.get .rsp = s.x.get .rsp := by
  obtain ⟨x, xmm0, xmm1, st, cw⟩ := s
  simp only at h
  have hsf : ((x.get Reg.rax) &&& (x.get Reg.rax)).msb = true := by simpa using h
  refine ⟨?w, ?hrun, ?rest⟩
  case hrun =>
    simp only [Fp.run, u64f32, Line.instrs]
    rw [runFrom_step F _ _ _ _ rfl rfl rfl]
    rw [runFrom_jcc F _ _ _ true _ "1f" "1:" rfl rfl (fun _ => rfl) rfl]
    dsimp only
    simp only [State.flags, State.src, State.getW, W.bits, BitVec.setWidth_eq, hsf, if_true]
    rfl
  case rest =>
    refine ⟨?_, rfl, rfl, rfl⟩
    dsimp only
    rw [setLow32_low, setLow32_low]
    simp only [aluExec, State.flags, State.src, State.getW, State.setW, W.bits, State.get, State.set, reduceCtorEq, if_false,
      if_true, ite_false]
    have e : (BitVec.setWidth 32 (x.regs Reg.rax) &&& BitVec.ofInt 32 1).setWidth 64 = x.regs Reg.rax &&& 1#64 := by
      apply BitVec.eq_of_getLsbD_eq
      intro i hi
      by_cases h0 : i = 0
      · subst h0; simp
      · simp [h0]
    simp only [BitVec.setWidth_eq, e]

/-- float → unsigned long, `comiss` says below 2^63 (or unordered): the plain signed truncation -/
theorem eff_f32u64_below (F : FpuSpec) (s : FState)
    (h : (F.comiss (s.xmm0.setWidth 32) 0x5f000000#32).flags.2.2 = true) :
    ∃ s', Fp.run F f32u64.instrs s = some s' ∧ s'.x.get .rax = F.cvttss2si64 (s.xmm0.setWidth 32) ∧
    s'.st = s.st ∧ s'.cw = s.cw ∧ s'.x.get .rsp = s.x.get .rsp := by
  obtain ⟨x, xmm0, xmm1, st, cw⟩ := s
  simp only at h
  refine ⟨?w, ?hrun, ?rest⟩
  case hrun =>
    simp only [Fp.run, f32u64, Line.instrs]
    rw [runFrom_step F _ _ _ _ rfl rfl (step_mov_c32 F _)]
    rw [runFrom_step F _ _ _ _ rfl rfl rfl]
    rw [runFrom_step F _ _ _ _ rfl rfl rfl]
    rw [runFrom_jcc F _ _ _ true _ "1f" "1:" rfl rfl (fun _ => rfl) rfl]
    dsimp only
    have e : BitVec.setWidth 32 (BitVec.setWidth 64 ((x.setW Reg.rax W.w32 0x5f000000#32).getW Reg.rax W.w32)) = 0x5f000000#32 := by
      simp [State.setW, State.getW]
    simp only [FState.setRel, e, h, Bool.not_true, Bool.false_eq_true, if_false]
    rfl
  case rest =>
    exact ⟨rfl, rfl, rfl, rfl⟩

/-- float → unsigned long, not below 2^63: subtract 2^63, truncate, complement bit 63 -/
theorem eff_f32u64_above (F : FpuSpec) (s : FState)
    (h : (F.comiss (s.xmm0.setWidth 32) 0x5f000000#32).flags.2.2 = false) :
    ∃ s', Fp.run F f32u64.instrs s = some s' ∧
    s'.x.get .rax = F.cvttss2si64 (F.subss (s.xmm0.setWidth 32) 0x5f000000#32) ^^^ (1#64 <<< 63) ∧
    s'.st = s.st ∧ s'.cw = s.cw ∧ s'.x.get .rsp = s.x.get .rsp := by
  obtain ⟨x, xmm0, xmm1, st, cw⟩ := s
  simp only at h
  have e : BitVec.setWidth 32 (BitVec.setWidth 64 ((x.setW Reg.rax W.w32 0x5f000000#32).getW Reg.rax W.w32)) = 0x5f000000#32 := by
    simp [State.setW, State.getW]
  refine ⟨?w, ?hrun, ?rest⟩
  case hrun =>
    simp only [Fp.run, f32u64, Line.instrs]
    rw [runFrom_step F _ _ _ _ rfl rfl (step_mov_c32 F _)]
    rw [runFrom_step F _ _ _ _ rfl rfl rfl]
    rw [runFrom_step F _ _ _ _ rfl rfl rfl]
    rw [runFrom_jcc F _ _ _ true _ "1f" "1:" rfl rfl (fun _ => rfl) rfl]
    dsimp only
    simp only [FState.setRel, e, h, Bool.not_false, if_true]
    rfl
  case rest =>
    refine ⟨?_, rfl, rfl, rfl⟩
    dsimp only
    rw [setLow32_low, e]
    simp [State.get, State.set, State.setW]

/-- double → unsigned long, below 2^63 (or unordered) -/
theorem eff_f64u64_below (F : FpuSpec) (s : FState)
    (h : (F.comisd s.xmm0 0x43e0000000000000#64).flags.2.2 = true) :
    ∃ s', Fp.run F f64u64.instrs s = some s' ∧ s'.x.get .rax = F.cvttsd2si64 s.xmm0 ∧
    s'.st = s.st ∧ s'.cw = s.cw ∧ s'.x.get .rsp = s.x.get .rsp := by
  obtain ⟨x, xmm0, xmm1, st, cw⟩ := s
  simp only at h
  refine ⟨?w, ?hrun, ?rest⟩
  case hrun =>
    simp only [Fp.run, f64u64, Line.instrs]
    rw [runFrom_step F _ _ _ _ rfl rfl (step_mov_c64 F _)]
    rw [runFrom_step F _ _ _ _ rfl rfl rfl]
    rw [runFrom_step F _ _ _ _ rfl rfl rfl]
    rw [runFrom_jcc F _ _ _ true _ "1f" "1:" rfl rfl (fun _ => rfl) rfl]
    dsimp only
    have e : (x.set Reg.rax 0x43e0000000000000#64).get Reg.rax = 0x43e0000000000000#64 := by simp
    simp only [FState.setRel, e, h, Bool.not_true, Bool.false_eq_true, if_false]
    rfl
  case rest =>
    exact ⟨rfl, rfl, rfl, rfl⟩

/-- double → unsigned long, not below 2^63 -/
theorem eff_f64u64_above (F : FpuSpec) (s : FState)
    (h : (F.comisd s.xmm0 0x43e0000000000000#64).flags.2.2 = false) :
    ∃ s', Fp.run F f64u64.instrs s = some s' ∧
    s'.x.get .rax = F.cvttsd2si64 (F.subsd s.xmm0 0x43e0000000000000#64) ^^^ (1#64 <<< 63) ∧
    s'.st = s.st ∧ s'.cw = s.cw ∧ s'.x.get .rsp = s.x.get .rsp := by
  obtain ⟨x, xmm0, xmm1, st, cw⟩ := s
  simp only at h
  have e : (x.set Reg.rax 0x43e0000000000000#64).get Reg.rax = 0x43e0000000000000#64 := by simp
  refine ⟨?w, ?hrun, ?rest⟩
  case hrun =>
    simp only [Fp.run, f64u64, Line.instrs]
    rw [runFrom_step F _ _ _ _ rfl rfl (step_mov_c64 F _)]
    rw [runFrom_step F _ _ _ _ rfl rfl rfl]
    rw [runFrom_step F _ _ _ _ rfl rfl rfl]
    rw [runFrom_jcc F _ _ _ true _ "1f" "1:" rfl rfl (fun _ => rfl) rfl]
    dsimp only
    simp only [FState.setRel, e, h, Bool.not_false, if_true]
    rfl
  case rest =>
    refine ⟨?_, rfl, rfl, rfl⟩
    dsimp only
    simp [State.get, State.set]


/-! ### long double → unsigned long: prefix (compare with 2^63), branch, FROM_F80 with `fistpq`, bit 63 from %dl -/

/-- neither a label nor a jump -/
def straightB (i : Ins) : Bool :=
  !isLabel i && !(i.op == "jmp" || i.op == "js" || i.op == "jns" || i.op == "je" || i.op == "jne" || i.op == "jae")

theorem jumpOf_straight (i : Ins) (h : straightB i = true) (s : FState) : jumpOf i s = none := by
  simp only [straightB, Bool.and_eq_true, Bool.not_eq_true', Bool.or_eq_false_iff, beq_eq_false_iff_ne, ne_eq] at h
  obtain ⟨_, ⟨⟨⟨⟨h1, h2⟩, h3⟩, h4⟩, h5⟩, h6⟩ := h
  unfold jumpOf
  split <;> simp_all

theorem runFrom_append (F : FpuSpec) (is js : List Ins) (hs : ∀ i ∈ is, straightB i = true) (s : FState) :
    runFrom F (is ++ js) none s = (runFrom F is none s).bind (fun s' => runFrom F js none s') := by
  induction is generalizing s with
  | nil => simp [runFrom]
  | cons i is ih =>
    have hi := hs i (by simp)
    have hl : isLabel i = false := by
      simp only [straightB, Bool.and_eq_true, Bool.not_eq_true'] at hi; exact hi.1
    have hj := jumpOf_straight i hi s
    simp only [List.cons_append, runFrom, hl, Bool.false_eq_true, if_false, hj]
    cases hstep : step F i s with
    | none => simp
    | some s' => simp [ih (fun j hj => hs j (by simp [hj])) s']

def f80u64Pre : List Ins :=
  [⟨"mov", [.s "$0x5f000000", .r "%eax"]⟩, ⟨"mov", [.r "%eax", .m (-4) "%rsp"]⟩, ⟨"flds", [.m (-4) "%rsp"]⟩,
   ⟨"fxch", [.r "%st(1)"]⟩, ⟨"fcomi", [.r "%st(1)", .r "%st"]⟩, ⟨"setae", [.r "%dl"]⟩]

def f80u64Mid : List Ins :=
  [⟨"jae", [.s "1f"]⟩, ⟨"fstp", [.r "%st(1)"]⟩, ⟨"jmp", [.s "2f"]⟩, ⟨"1:", []⟩, ⟨"fsub", [.r "%st(1)", .r "%st"]⟩,
   ⟨"fstp", [.r "%st(1)"]⟩, ⟨"2:", []⟩]

def f80u64Post : List Ins :=
  [⟨"movzbl", [.r "%dl", .r "%edx"]⟩, ⟨"shl", [.i 63, .r "%rdx"]⟩, ⟨"xor", [.r "%rdx", .r "%rax"]⟩]

/-- the generated cell is: prefix, branch, the cell of long double → long, and the three instructions that set bit 63 -/
theorem f80u64_split : f80u64.instrs = f80u64Pre ++ (f80u64Mid ++ (f80i64.instrs ++ f80u64Post)) := by decide

/-- prefix: 2^63 is loaded below the operand, the two are compared, %dl := (operand ≥ 2^63) -/
theorem eff_f80u64_pre (F : FpuSpec) (s : FState) (v : BitVec 80) (rest : List (BitVec 80)) (h : s.st = v :: rest) :
    ∃ s', runFrom F f80u64Pre none s = some s' ∧
      s'.st = v :: F.fld32 0x5f000000#32 :: rest ∧ s'.cw = s.cw ∧ s'.x.get .rsp = s.x.get .rsp ∧
      s'.x.flagsValid = true ∧ s'.x.cf = (F.fcomi v (F.fld32 0x5f000000#32)).flags.2.2 ∧
      (s'.x.get .rdx).setWidth 8 = (if (F.fcomi v (F.fld32 0x5f000000#32)).flags.2.2 then 0#8 else 1#8) := by
  obtain ⟨x, xmm0, xmm1, st, cw⟩ := s
  simp only at h; subst h
  have e : ((x.setW Reg.rax W.w32 0x5f000000#32).write32 ((x.setW Reg.rax W.w32 0x5f000000#32).get Reg.rsp + BitVec.ofInt 64 (-4))
      ((x.setW Reg.rax W.w32 0x5f000000#32).getW Reg.rax W.w32)).read32
        ((x.setW Reg.rax W.w32 0x5f000000#32).get Reg.rsp + BitVec.ofInt 64 (-4)) = 0x5f000000#32 := by
    rw [State.read32_write32]; simp [State.setW, State.getW]
  refine ⟨?w, ?hrun, ?rest⟩
  case hrun =>
    simp only [f80u64Pre]
    rw [runFrom_step F _ _ _ _ rfl rfl (step_mov_c32 F _)]
    rfl
  case rest =>
    dsimp only
    x86_norm
    have e2 : BitVec.setWidth 32 (BitVec.setWidth 64 1593835520#32) = 1593835520#32 := by decide
    simp only [State.get, State.regs_write32, FState.setRel, State.cond, e, e2]
    generalize (F.fcomi v (F.fld32 1593835520#32)).flags.2.2 = c
    refine ⟨?_, ?_, ?_, ?_, ?_, ?_⟩
    · first | rfl | trivial
    · first | rfl | trivial
    · simp [State.setW, State.set]
    · first | rfl | trivial
    · first | rfl | trivial
    · cases c <;> simp [State.setW, State.set, State.get] <;>
        (apply BitVec.eq_of_toNat_eq; simp only [BitVec.toNat_ofNat]; omega)


/-- branch: below 2^63 (CF = 1) the constant is dropped; otherwise it is subtracted first -/
theorem eff_f80u64_mid (F : FpuSpec) (tl : List Ins) (s : FState) (v c : BitVec 80) (rest : List (BitVec 80))
    (h : s.st = v :: c :: rest) (hv : s.x.flagsValid = true) :
    runFrom F (f80u64Mid ++ tl) none s =
      runFrom F tl none { s with st := (if s.x.cf then v else F.fsub s.cw v c) :: rest } := by
  obtain ⟨x, xmm0, xmm1, st, cw⟩ := s
  simp only at h hv; subst h
  simp only [f80u64Mid, List.cons_append, List.nil_append]
  rw [runFrom_jcc F _ _ _ true (!x.cf) "1f" "1:" rfl rfl (fun _ => hv) rfl]
  cases hcf : x.cf
  · -- CF = 0: taken
    simp only [Bool.not_false, if_true, Bool.false_eq_true, if_false]
    rfl
  · simp only [Bool.not_true, Bool.false_eq_true, if_false, if_true]
    rfl

/-- the cell of long double → long leaves %rdx alone -/
theorem eff_f80i64_rdx (F : FpuSpec) (s : FState) (v : BitVec 80) (rest : List (BitVec 80)) (h : s.st = v :: rest) :
    ∃ s', run F f80i64.instrs s = some s' ∧
    s'.x.get .rax = F.fistp64 (s.cw ||| 3072#16) v ∧
    s'.st = rest ∧ s'.cw = s.cw ∧ s'.x.get .rsp = s.x.get .rsp ∧ s'.x.get .rdx = s.x.get .rdx := by
  obtain ⟨x, xmm0, xmm1, st, cw⟩ := s
  simp only at h; subst h
  refine ⟨_, rfl, ?_⟩
  dsimp only
  x86_norm
  rw [cwOr]
  refine ⟨?_, ?_⟩
  · first | rfl | simp
  · simp only [State.read8, State.read16, State.read32, State.read64, State.write16, State.write32, State.write64,
      State.mem_write8, State.mem_set, BitVec.add_assoc, BitVec.add_right_inj, BitVec.add_right_eq_self,
      BitVec.self_eq_add_right, BitVec.reduceAdd, BitVec.reduceEq, if_true, if_false, ite_true, ite_false,
      BitVec.ofNat_eq_ofNat]
    exact split16 _

/-- the last three instructions: bit 63 of %rax is complemented when %dl = 1 -/
theorem eff_f80u64_post (F : FpuSpec) (s : FState) :
    ∃ s', runFrom F f80u64Post none s = some s' ∧
    s'.x.get .rax = s.x.get .rax ^^^ ((((s.x.get .rdx).setWidth 8).setWidth 32).setWidth 64 <<< 63) ∧
    s'.st = s.st ∧ s'.cw = s.cw ∧ s'.x.get .rsp = s.x.get .rsp := by
  obtain ⟨x, xmm0, xmm1, st, cw⟩ := s
  refine ⟨_, rfl, ?_, rfl, rfl, ?_⟩
  · dsimp only
    simp [aluExec, State.flags, State.src, State.getW, State.setW, State.get, State.set]
  · dsimp only
    simp [aluExec, State.flags, State.src, State.getW, State.setW, State.get, State.set]


/-- **long double → unsigned long**, the whole cell: with c = the extended 2^63 that `flds` pushed, below c (`fcomi` sets
    CF; also when unordered) the operand is stored by `fistpq` under RC = 11b; otherwise c is subtracted first and bit 63 of
    the stored integer is complemented.  The control word is restored, the operand and the constant are popped. -/
theorem eff_f80u64 (F : FpuSpec) (s : FState) (v : BitVec 80) (rest : List (BitVec 80)) (h : s.st = v :: rest) :
    ∃ s', run F f80u64.instrs s = some s' ∧
    s'.x.get .rax = (if (F.fcomi v (F.fld32 0x5f000000#32)).flags.2.2 then F.fistp64 (s.cw ||| 3072#16) v
                     else F.fistp64 (s.cw ||| 3072#16) (F.fsub s.cw v (F.fld32 0x5f000000#32)) ^^^ (1#64 <<< 63)) ∧
    s'.st = rest ∧ s'.cw = s.cw ∧ s'.x.get .rsp = s.x.get .rsp := by
  obtain ⟨s1, hrun1, hst1, hcw1, hrsp1, hfv1, hcf1, hdl1⟩ := eff_f80u64_pre F s v rest h
  have hmid := eff_f80u64_mid F (f80i64.instrs ++ f80u64Post) s1 v (F.fld32 0x5f000000#32) rest hst1 hfv1
  obtain ⟨s2, hrun2, hrax2, hst2, hcw2, hrsp2, hrdx2⟩ :=
    eff_f80i64_rdx F { s1 with st := (if s1.x.cf then v else F.fsub s1.cw v (F.fld32 0x5f000000#32)) :: rest } _ rest rfl
  obtain ⟨s3, hrun3, hrax3, hst3, hcw3, hrsp3⟩ := eff_f80u64_post F s2
  refine ⟨s3, ?_, ?_, by rw [hst3, hst2], by rw [hcw3, hcw2, hcw1], by rw [hrsp3, hrsp2, hrsp1]⟩
  · simp only [run] at hrun2 ⊢
    rw [f80u64_split, runFrom_append F _ _ (by decide), hrun1]
    simp only [Option.bind]
    rw [hmid, runFrom_append F _ _ (by decide), hrun2]
    simp only [Option.bind]
    exact hrun3
  · rw [hrax3, hrax2, hrdx2]
    simp only at hcw1 ⊢
    rw [hcf1, hcw1, hdl1]
    cases (F.fcomi v (F.fld32 0x5f000000#32)).flags.2.2
    · simp
    · simp

end ChibiVerif.Fp
