/-
C13 — the literal readers never read behind the terminating NUL: every instrumented double of Model/C13Sites.lean equals
its original (lifted), for every byte list.  The one fact behind all of it: a reader advances only over a byte it has seen
to be non-zero, and a non-zero byte lies strictly inside the text.
-/
import ChibiVerif.Model.C13Sites

namespace ChibiVerif.C13Sites
open ChibiVerif.Literals ChibiVerif.Gen.Literals

theorem byteAt_eq_zero_of_le (p : List Byte) (i : Nat) (h : p.length ≤ i) : byteAt p i = 0#8 := by
  simp [byteAt, List.getD, List.getElem?_eq_none h]

theorem lt_of_byteAt_ne_zero {p : List Byte} {i : Nat} (h : byteAt p i ≠ 0#8) : i < p.length := by
  apply Classical.byContradiction
  intro hn
  exact h (byteAt_eq_zero_of_le p i (by omega))

theorem rd_ok {p : List Byte} {i : Nat} (h : i ≤ p.length) : rd p i = .ok (byteAt p i) := by simp [rd, h]

theorem rd_zero (p : List Byte) : rd p 0 = .ok (byteAt p 0) := rd_ok (Nat.zero_le _)

theorem sub_ok {p : List Byte} {j : Nat} (h : j ≤ p.length) : sub p j = .ok (p.drop j) := by simp [sub, h]

theorem byteAt_drop (p : List Byte) (j k : Nat) : byteAt (p.drop j) k = byteAt p (j + k) := by
  simp [byteAt, List.getD, List.getElem?_drop]

theorem isXDigit_ne_zero {b : Byte} (h : isXDigit b = true) : b ≠ 0#8 := by
  intro hb; subst hb; revert h; decide

theorem isOctDigit_ne_zero {b : Byte} (h : isOctDigit b = true) : b ≠ 0#8 := by
  intro hb; subst hb; revert h; decide

/-! ## read_escaped_char -/

theorem hexLoopI_eq (p : List Byte) : ∀ (fuel i : Nat) (c : BitVec 32), i ≤ p.length →
    hexLoopI p fuel i c = .ok (hexLoop p fuel i c)
  | 0, _, _, _ => rfl
  | fuel + 1, i, c, h => by
    simp only [hexLoopI, hexLoop, rd_ok h]
    split
    · rename_i hx
      exact hexLoopI_eq p fuel (i + 1) _ (lt_of_byteAt_ne_zero (isXDigit_ne_zero hx))
    · rfl

theorem hexLoop_idx_le (p : List Byte) : ∀ (fuel i : Nat) (c : BitVec 32), i ≤ p.length → (hexLoop p fuel i c).2 ≤ p.length
  | 0, _, _, h => h
  | fuel + 1, i, c, h => by
    simp only [hexLoop]
    split
    · rename_i hx
      exact hexLoop_idx_le p fuel (i + 1) _ (lt_of_byteAt_ne_zero (isXDigit_ne_zero hx))
    · exact h

theorem readEscapedCharI_eq (p : List Byte) : readEscapedCharI p = lift (readEscapedChar p) := by
  unfold readEscapedCharI readEscapedChar
  simp only [rd_zero]
  by_cases h0 : isOctDigit (byteAt p 0) = true
  · have l0 : 0 < p.length := lt_of_byteAt_ne_zero (isOctDigit_ne_zero h0)
    simp only [h0, if_true, rd_ok (show 1 ≤ p.length from l0)]
    by_cases h1 : isOctDigit (byteAt p 1) = true
    · have l1 : 1 < p.length := lt_of_byteAt_ne_zero (isOctDigit_ne_zero h1)
      simp only [h1, if_true, rd_ok (show 2 ≤ p.length from l1)]
      by_cases h2 : isOctDigit (byteAt p 2) = true
      · simp [h2, lift]
      · simp [h2, lift]
    · simp [h1, lift]
  · simp only [h0, Bool.false_eq_true, if_false]
    by_cases hx : byteAt p 0 = 120#8
    · have l0 : 0 < p.length := lt_of_byteAt_ne_zero (by rw [hx]; decide)
      simp only [hx, if_true, rd_ok (show 1 ≤ p.length from l0)]
      by_cases h1 : isXDigit (byteAt p 1) = true
      · simp only [h1, Bool.not_true, Bool.false_eq_true, if_false]
        rw [hexLoopI_eq p _ 1 0 l0]; rfl
      · simp [h1, lift]
    · simp [hx, lift]

/-- an escape that starts on a non-zero byte ends inside the text -/
theorem readEscapedChar_len (p : List Byte) (h0 : byteAt p 0 ≠ 0#8) (c : BitVec 32) (n : Nat)
    (h : readEscapedChar p = .ok (c, n)) : n ≤ p.length := by
  have l0 : 0 < p.length := lt_of_byteAt_ne_zero h0
  unfold readEscapedChar at h
  simp only at h
  split at h
  · rename_i h0o
    split at h
    · rename_i h1
      have l1 : 1 < p.length := lt_of_byteAt_ne_zero (isOctDigit_ne_zero h1)
      split at h
      · rename_i h2
        have l2 : 2 < p.length := lt_of_byteAt_ne_zero (isOctDigit_ne_zero h2)
        simp only [Except.ok.injEq, Prod.mk.injEq] at h; omega
      · simp only [Except.ok.injEq, Prod.mk.injEq] at h; omega
    · simp only [Except.ok.injEq, Prod.mk.injEq] at h; omega
  · split at h
    · split at h
      · cases h
      · simp only [Except.ok.injEq] at h
        have := hexLoop_idx_le p (p.length + 1) 1 0 l0
        rw [h] at this; exact this
    · simp only [Except.ok.injEq, Prod.mk.injEq] at h; omega

/-! ## decode_utf8 -/

def liftD {α : Type} : Except DecodeErr α → R α
  | .ok a => .ok a
  | .error _ => .error (.lit .invalidUtf8)

theorem cont_ne_zero {b : Byte} (h : ¬ (((b.zeroExtend 32).sshiftRight 6) ≠ (2#32))) : b ≠ 0#8 := by
  intro hb; subst hb; exact h (by decide)

theorem decodeContI_eq (p : List Byte) : ∀ (fuel i : Nat) (c : BitVec 32), i ≤ p.length →
    decodeContI p fuel i c = liftD (decodeCont p fuel i c)
  | 0, _, _, _ => rfl
  | fuel + 1, i, c, h => by
    simp only [decodeContI, decodeCont, rd_ok h]
    split
    · rfl
    · rename_i hc
      exact decodeContI_eq p fuel (i + 1) _ (lt_of_byteAt_ne_zero (cont_ne_zero hc))

theorem decodeCont_len (p : List Byte) : ∀ (fuel i : Nat) (c c' : BitVec 32), i ≤ p.length →
    decodeCont p fuel i c = .ok c' → i + fuel ≤ p.length
  | 0, _, _, _, h, _ => h
  | fuel + 1, i, c, c', h, hd => by
    simp only [decodeCont] at hd
    split at hd
    · cases hd
    · rename_i hc
      have := decodeCont_len p fuel (i + 1) _ c' (lt_of_byteAt_ne_zero (cont_ne_zero hc)) hd
      omega

theorem decodeUtf8I_eq (p : List Byte) : decodeUtf8I p = liftD (decodeUtf8 p) := by
  unfold decodeUtf8I decodeUtf8
  simp only [rd_zero]
  split
  · rfl
  · rename_i hlt
    cases hl : decodeLead p with
    | none => rfl
    | some lc =>
      obtain ⟨len, c⟩ := lc
      simp only
      have l0 : 0 < p.length := by
        apply lt_of_byteAt_ne_zero
        intro hb; rw [hb] at hlt; exact hlt (by decide)
      rw [decodeContI_eq p (len - 1) 1 c l0]
      cases decodeCont p (len - 1) 1 c <;> rfl

theorem decodeLead_len (p : List Byte) (len : Nat) (c : BitVec 32) (h : decodeLead p = some (len, c)) : 2 ≤ len := by
  unfold decodeLead at h
  split at h
  · simp only [Option.some.injEq, Prod.mk.injEq] at h; omega
  · split at h
    · simp only [Option.some.injEq, Prod.mk.injEq] at h; omega
    · split at h
      · simp only [Option.some.injEq, Prod.mk.injEq] at h; omega
      · cases h

/-- a character that starts on a non-zero byte ends inside the text -/
theorem decodeUtf8_len (p : List Byte) (h0 : byteAt p 0 ≠ 0#8) (c : BitVec 32) (n : Nat)
    (h : decodeUtf8 p = .ok (c, n)) : n ≤ p.length := by
  have l0 : 0 < p.length := lt_of_byteAt_ne_zero h0
  unfold decodeUtf8 at h
  split at h
  · simp only [Except.ok.injEq, Prod.mk.injEq] at h; omega
  · cases hl : decodeLead p with
    | none => rw [hl] at h; cases h
    | some lc =>
      obtain ⟨len, c0⟩ := lc
      rw [hl] at h
      simp only at h
      cases hc : decodeCont p (len - 1) 1 c0 with
      | error e => rw [hc] at h; cases h
      | ok c' =>
        rw [hc] at h
        simp only [Except.map, Except.ok.injEq, Prod.mk.injEq] at h
        have := decodeCont_len p (len - 1) 1 c0 c' l0 hc
        have := decodeLead_len p len c0 hl
        omega

theorem decodeAtI_eq (p : List Byte) (i : Nat) (h : i ≤ p.length) : decodeAtI p i = lift (decodeAt p i) := by
  unfold decodeAtI decodeAt
  simp only [sub_ok h, decodeUtf8I_eq]
  cases decodeUtf8 (p.drop i) <;> rfl

theorem escapeAtI_eq (p : List Byte) (i : Nat) (h : i < p.length) :
    escapeAtI p i = lift (readEscapedChar (p.drop (i + 1))) := by
  unfold escapeAtI
  simp only [sub_ok (show i + 1 ≤ p.length from h), readEscapedCharI_eq]

/-! ## string literals -/

theorem strEndI_eq (p : List Byte) : ∀ (fuel i : Nat), i ≤ p.length → strEndI p fuel i = lift (strEnd p fuel i)
  | 0, _, _ => rfl
  | fuel + 1, i, h => by
    simp only [strEndI, strEnd, rd_ok h]
    by_cases h1 : byteAt p i = 34#8
    · simp [h1, lift]
    · simp only [h1, if_false]
      by_cases h2 : byteAt p i = 10#8 ∨ byteAt p i = 0#8
      · simp [h2, lift]
      · simp only [h2, if_false]
        have hnz : byteAt p i ≠ 0#8 := fun hz => h2 (Or.inr hz)
        have li : i < p.length := lt_of_byteAt_ne_zero hnz
        by_cases h3 : byteAt p i = 92#8
        · simp only [h3, true_and, if_true, rd_ok (show i + 1 ≤ p.length from li)]
          by_cases h4 : byteAt p (i + 1) = 0#8
          · simp only [h4, ne_eq, not_true_eq_false, if_false]
            exact strEndI_eq p fuel (i + 1) li
          · simp only [h4, ne_eq, not_false_eq_true, if_true]
            exact strEndI_eq p fuel (i + 2) (lt_of_byteAt_ne_zero h4)
        · simp only [h3, false_and, if_false]
          exact strEndI_eq p fuel (i + 1) li

theorem strEnd_quote (p : List Byte) : ∀ (fuel i e : Nat), strEnd p fuel i = .ok e → byteAt p e = 34#8
  | 0, _, _, h => by cases h
  | fuel + 1, i, e, h => by
    simp only [strEnd] at h
    split at h
    · rename_i hq; simp only [Except.ok.injEq] at h; rw [← h]; exact hq
    · split at h
      · cases h
      · split at h
        · exact strEnd_quote p fuel _ e h
        · exact strEnd_quote p fuel _ e h

theorem strEnd_lt (p : List Byte) (fuel i e : Nat) (h : strEnd p fuel i = .ok e) : e < p.length :=
  lt_of_byteAt_ne_zero (by rw [strEnd_quote p fuel i e h]; decide)

theorem narrowLoopI_eq (p : List Byte) (endp : Nat) (he : endp ≤ p.length) : ∀ (fuel i : Nat) (acc : List Nat),
    narrowLoopI p endp fuel i acc = lift (narrowLoop p endp fuel i acc)
  | 0, _, _ => rfl
  | fuel + 1, i, acc => by
    simp only [narrowLoopI, narrowLoop]
    split
    · rename_i hi
      rw [rd_ok (by omega)]
      simp only
      split
      · rename_i hb
        have li : i < p.length := by omega
        rw [escapeAtI_eq p i li]
        cases hr : readEscapedChar (p.drop (i + 1)) with
        | error e => rfl
        | ok cn =>
          obtain ⟨c, n⟩ := cn
          simp only [lift, bind, Except.bind]
          exact narrowLoopI_eq p endp he fuel _ _
      · exact narrowLoopI_eq p endp he fuel _ _
    · rfl

theorem utf16LoopI_eq (p : List Byte) (endp : Nat) (he : endp ≤ p.length) : ∀ (fuel i : Nat) (acc : List Nat),
    utf16LoopI p endp fuel i acc = lift (utf16Loop p endp fuel i acc)
  | 0, _, _ => rfl
  | fuel + 1, i, acc => by
    simp only [utf16LoopI, utf16Loop]
    split
    · rename_i hi
      rw [rd_ok (by omega)]
      simp only
      split
      · have li : i < p.length := by omega
        rw [escapeAtI_eq p i li]
        cases hr : readEscapedChar (p.drop (i + 1)) with
        | error e => rfl
        | ok cn =>
          obtain ⟨c, n⟩ := cn
          simp only [lift, bind, Except.bind]
          exact utf16LoopI_eq p endp he fuel _ _
      · rw [decodeAtI_eq p i (by omega)]
        cases hr : decodeAt p i with
        | error e => rfl
        | ok cn =>
          obtain ⟨c, n⟩ := cn
          simp only [lift, bind, Except.bind]
          exact utf16LoopI_eq p endp he fuel _ _
    · rfl

theorem utf32LoopI_eq (p : List Byte) (endp : Nat) (he : endp ≤ p.length) : ∀ (fuel i : Nat) (acc : List Nat),
    utf32LoopI p endp fuel i acc = lift (utf32Loop p endp fuel i acc)
  | 0, _, _ => rfl
  | fuel + 1, i, acc => by
    simp only [utf32LoopI, utf32Loop]
    split
    · rename_i hi
      rw [rd_ok (by omega)]
      simp only
      split
      · have li : i < p.length := by omega
        rw [escapeAtI_eq p i li]
        cases hr : readEscapedChar (p.drop (i + 1)) with
        | error e => rfl
        | ok cn =>
          obtain ⟨c, n⟩ := cn
          simp only [lift, bind, Except.bind]
          exact utf32LoopI_eq p endp he fuel _ _
      · rw [decodeAtI_eq p i (by omega)]
        cases hr : decodeAt p i with
        | error e => rfl
        | ok cn =>
          obtain ⟨c, n⟩ := cn
          simp only [lift, bind, Except.bind]
          exact utf32LoopI_eq p endp he fuel _ _
    · rfl

/-- `read_string_literal` and its two siblings, opening quote at `p[q]` inside the text -/
theorem readStringI_eq (r : StrReader) (ty : Ty) (p : List Byte) (q : Nat) (hq : q < p.length) :
    readStringI r ty p q = lift (readString r ty p q) := by
  unfold readStringI readString stringLiteralEnd
  rw [strEndI_eq p _ (q + 1) hq]
  cases hs : strEnd p (p.length + 2) (q + 1) with
  | error e => rfl
  | ok endp =>
    have he : endp ≤ p.length := Nat.le_of_lt (strEnd_lt p _ _ endp hs)
    simp only [lift, bind, Except.bind]
    cases r with
    | narrow =>
      simp only [narrowLoopI_eq p endp he]
      cases narrowLoop p endp (endp + 1) (q + 1) [] <;> rfl
    | utf16 =>
      simp only [utf16LoopI_eq p endp he]
      cases utf16Loop p endp (endp + 1) (q + 1) [] <;> rfl
    | utf32 =>
      simp only [utf32LoopI_eq p endp he]
      cases utf32Loop p endp (endp + 1) (q + 1) [] <;> rfl

/-! ## character constants -/

theorem readCharLiteralI_eq (p : List Byte) (q : Nat) (hq : q < p.length) :
    readCharLiteralI p q = lift (readCharLiteral p q) := by
  unfold readCharLiteralI readCharLiteral
  simp only [rd_ok (show q + 1 ≤ p.length from hq)]
  by_cases h0 : byteAt p (q + 1) = 0#8
  · simp [h0, lift, bind, Except.bind, throw, throwThe, MonadExceptOf.throw]
  · have li : q + 1 < p.length := lt_of_byteAt_ne_zero h0
    simp only [h0, if_false, bind, Except.bind, pure, Except.pure]
    by_cases hb : byteAt p (q + 1) = 92#8
    · simp only [hb, true_and, if_true, rd_ok (show q + 1 + 1 ≤ p.length from li)]
      by_cases h1 : byteAt p (q + 1 + 1) = 0#8
      · simp [h1, lift, throw, throwThe, MonadExceptOf.throw]
      · simp only [h1, if_false, escapeAtI_eq p (q + 1) li]
        cases hr : readEscapedChar (p.drop (q + 1 + 1)) with
        | error e => rfl
        | ok cn =>
          obtain ⟨c, n⟩ := cn
          have hn : n ≤ (p.drop (q + 1 + 1)).length :=
            readEscapedChar_len _ (by rw [byteAt_drop]; exact h1) c n hr
          have hj : q + 1 + 1 + n ≤ p.length := by
            rw [List.length_drop] at hn; omega
          simp only [lift, hj, if_true]
          cases findQuote p (p.length + 1) (q + 1 + 1 + n) <;> rfl
    · simp only [hb, false_and, if_false, decodeAtI_eq p (q + 1) (Nat.le_of_lt li)]
      cases hr : decodeAt p (q + 1) with
      | error e => rfl
      | ok cn =>
        obtain ⟨c, n⟩ := cn
        have hn : n ≤ (p.drop (q + 1)).length := by
          unfold decodeAt at hr
          cases hd : decodeUtf8 (p.drop (q + 1)) with
          | error e => rw [hd] at hr; cases hr
          | ok r =>
            rw [hd] at hr
            simp only [Except.ok.injEq] at hr
            subst hr
            exact decodeUtf8_len _ (by rw [byteAt_drop]; exact h0) c n hd
        have hj : q + 1 + n ≤ p.length := by
          rw [List.length_drop] at hn; omega
        simp only [lift, hj, if_true]
        cases findQuote p (p.length + 1) (q + 1 + n) <;> rfl

/-! ## numbers and prefixes -/

theorem isAlnum_zero : isAlnum (0#8) = false := by decide

theorem ppNumberLoopI_eq (p : List Byte) : ∀ (fuel i : Nat), i ≤ p.length → ppNumberLoopI p fuel i = .ok (ppNumberLoop p fuel i)
  | 0, _, _ => rfl
  | fuel + 1, i, h => by
    simp only [ppNumberLoopI, ppNumberLoop, rd_ok h]
    by_cases ha : byteAt p i = 0#8
    · simp [ha, isAlnum_zero]
    · have li : i < p.length := lt_of_byteAt_ne_zero ha
      simp only [ha, if_false, rd_ok (show i + 1 ≤ p.length from li), ne_eq, not_false_eq_true, true_and]
      split
      · rename_i hc
        exact ppNumberLoopI_eq p fuel (i + 2) (lt_of_byteAt_ne_zero hc.1)
      · split
        · exact ppNumberLoopI_eq p fuel (i + 1) li
        · rfl

theorem matchTextI_eq (p : List Byte) : ∀ (cs : List Nat) (ci : Bool) (i : Nat), i ≤ p.length →
    matchTextI p i cs ci = .ok (matchText p i cs ci)
  | [], _, _, _ => rfl
  | c :: cs, ci, i, h => by
    simp only [matchTextI, matchText, rd_ok h]
    by_cases ha : byteAt p i = 0#8
    · rw [ha]; rfl
    · have li : i < p.length := lt_of_byteAt_ne_zero ha
      have ih := matchTextI_eq p cs ci (i + 1) li
      cases ci with
      | true =>
        by_cases he : toLower (byteAt p i) = toLower (BitVec.ofNat 8 c)
        · simp [ha, he, ih]
        · simp [ha, he]
      | false =>
        by_cases he : byteAt p i = BitVec.ofNat 8 c
        · have hc : ¬ (BitVec.ofNat 8 c : Byte) = 0#8 := by rw [← he]; exact ha
          simp [he, ih, hc]
        · simp [ha, he]

/-- a matched text lies inside the buffer: `strncmp` stops at the NUL -/
theorem matchText_len (p : List Byte) : ∀ (cs : List Nat) (ci : Bool) (i : Nat), matchText p i cs ci = true →
    i + cs.length ≤ p.length ∨ cs = []
  | [], _, _, _ => Or.inr rfl
  | c :: cs, ci, i, h => by
    simp only [matchText, Bool.and_eq_true] at h
    have hne : byteAt p i ≠ 0#8 := by simpa using h.1.1
    have li : i < p.length := lt_of_byteAt_ne_zero hne
    rcases matchText_len p cs ci (i + 1) h.2 with h1 | h1
    · left; simp only [List.length_cons]; omega
    · left; subst h1; simp only [List.length_cons, List.length_nil]; omega

theorem prefix_quote_lt (p : List Byte) (pre : List Nat) (qc : Nat) (_hq : qc ≠ 0) (h : startsWithStr p (pre ++ [qc]) = true) :
    pre.length < p.length := by
  rcases matchText_len p (pre ++ [qc]) false 0 h with h1 | h1
  · simp only [List.length_append, List.length_cons, List.length_nil] at h1; omega
  · simp at h1

theorem findI_eq {α : Type} (f : α → R Bool) (g : α → Bool) (h : ∀ x, f x = .ok (g x)) : ∀ (l : List α),
    findI f l = .ok (l.find? g)
  | [] => rfl
  | x :: xs => by
    simp only [findI, h x, List.find?_cons]
    cases g x
    · exact findI_eq f g h xs
    · rfl

/-- the string and character arms -/
theorem lexLiteral_rest (p : List Byte) :
    (match findI (fun e => matchTextI p 0 (e.1 ++ [34]) false) stringPrefixes with
      | .error e => .error e
      | .ok (some (pre, r, ty)) =>
        (match readStringI r ty p pre.length with | .error e => .error e | .ok t => .ok (.str t))
      | .ok none =>
        match findI (fun e => matchTextI p 0 (e.1 ++ [39]) false) charPrefixes with
        | .error e => .error e
        | .ok (some (pre, ty, post)) =>
          (match readCharLiteralI p pre.length with
           | .error e => .error e
           | .ok (c, e) => .ok (.chr (charPost post c) ty (e + 1)))
        | .ok none => .error (.lit .notALiteral) : R LitTok) =
    lift (match stringPrefixes.find? (fun e => startsWithStr p (e.1 ++ [34])) with
      | some (pre, r, ty) => (readString r ty p pre.length).map .str
      | none =>
        match charPrefixes.find? (fun e => startsWithStr p (e.1 ++ [39])) with
        | some (pre, ty, post) => do
          let (c, e) ← readCharLiteral p pre.length
          pure (.chr (charPost post c) ty (e + 1))
        | none => .error .notALiteral) := by
  have h1 := findI_eq (fun e : List Nat × StrReader × Ty => matchTextI p 0 (e.1 ++ [34]) false)
    (fun e => startsWithStr p (e.1 ++ [34])) (fun x => matchTextI_eq p _ false 0 (Nat.zero_le _)) stringPrefixes
  have h2 := findI_eq (fun e : List Nat × Ty × CharPost => matchTextI p 0 (e.1 ++ [39]) false)
    (fun e => startsWithStr p (e.1 ++ [39])) (fun x => matchTextI_eq p _ false 0 (Nat.zero_le _)) charPrefixes
  rw [h1, h2]
  cases hs : stringPrefixes.find? (fun e => startsWithStr p (e.1 ++ [34])) with
  | some x =>
    obtain ⟨pre, r, ty⟩ := x
    simp only
    have hm := List.find?_some hs
    have hq : pre.length < p.length := prefix_quote_lt p pre 34 (by decide) hm
    rw [readStringI_eq r ty p pre.length hq]
    cases readString r ty p pre.length <;> rfl
  | none =>
    simp only
    cases hc : charPrefixes.find? (fun e => startsWithStr p (e.1 ++ [39])) with
    | some x =>
      obtain ⟨pre, ty, post⟩ := x
      simp only
      have hm := List.find?_some hc
      have hq : pre.length < p.length := prefix_quote_lt p pre 39 (by decide) hm
      rw [readCharLiteralI_eq p pre.length hq]
      cases readCharLiteral p pre.length with
      | error e => rfl
      | ok r => obtain ⟨c, e⟩ := r; rfl
    | none => rfl

/-- **the literal arms of tokenize() never read behind the terminating NUL**, and the instrumented double agrees with the
    model C11's theorems are about — for every byte list -/
theorem lexLiteralI_eq (p : List Byte) : lexLiteralI p = lift (lexLiteral p) := by
  unfold lexLiteralI lexLiteral
  simp only [rd_zero]
  by_cases hd : isDigit (byteAt p 0) = true
  · simp only [hd, if_true, Bool.true_or, ppNumberLen]
    have l0 : 0 < p.length := lt_of_byteAt_ne_zero (by intro hz; rw [hz] at hd; revert hd; decide)
    rw [ppNumberLoopI_eq p _ 1 l0]
    simp only
    cases convertPpInt (p.take (ppNumberLoop p (p.length + 1) 1)) with
    | none => rfl
    | some r => rfl
  · simp only [hd, Bool.false_eq_true, if_false, Bool.false_or]
    by_cases hdot : byteAt p 0 = 46#8
    · have l0 : 0 < p.length := lt_of_byteAt_ne_zero (by rw [hdot]; decide)
      simp only [hdot, if_true, rd_ok (show 1 ≤ p.length from l0), decide_true, Bool.true_and]
      by_cases hd1 : isDigit (byteAt p 1) = true
      · simp only [hd1, if_true, ppNumberLen]
        rw [ppNumberLoopI_eq p _ 1 l0]
        simp only
        cases convertPpInt (p.take (ppNumberLoop p (p.length + 1) 1)) with
        | none => rfl
        | some r => rfl
      · simp only [hd1, Bool.false_eq_true, if_false]
        exact lexLiteral_rest p
    · simp only [hdot, if_false, decide_false, Bool.false_and, Bool.false_eq_true]
      exact lexLiteral_rest p

end ChibiVerif.C13Sites
