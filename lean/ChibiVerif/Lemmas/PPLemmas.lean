/-
Lemmas about `subst`, `expand_macro` and `preprocess2` of Model/PP.lean (property C09).
-/
import ChibiVerif.Model.PP
import ChibiVerif.Lemmas.PPArgs

namespace ChibiVerif.PP

/-! ## hide sets -/

theorem hidesetContains_iff (hs : Hideset) (x : String) : hidesetContains hs x = true ↔ x ∈ hs := by
  unfold hidesetContains
  rw [List.any_eq_true]
  constructor
  · rintro ⟨y, hy, h⟩; rw [beq_iff_eq] at h; exact h ▸ hy
  · intro h; exact ⟨x, h, by simp⟩

theorem hidesetContains_union (a b : Hideset) (x : String) :
    hidesetContains (hidesetUnion a b) x = (hidesetContains a x || hidesetContains b x) := by
  simp [hidesetContains, hidesetUnion, List.any_append]

theorem hidesetContains_intersection (a b : Hideset) (x : String) :
    hidesetContains (hidesetIntersection a b) x = (hidesetContains a x && hidesetContains b x) := by
  unfold hidesetIntersection
  rw [Bool.eq_iff_iff]
  simp only [Bool.and_eq_true, hidesetContains_iff, List.mem_filter]

theorem addHideset_nil (ts : List Tok) : addHideset ts [] = ts := by
  unfold addHideset hidesetUnion
  simp

/-! ## a generic invariant of `subst` -/

/-- every argument's token list (as handed to the pre-expander) satisfies `Q` -/
def ArgsQ (Q : List Tok → Prop) (args : List MacroArg) : Prop := ∀ a ∈ args, Q (addHideset a.toks [])

theorem argsQ_setExpanded {Q : List Tok → Prop} : ∀ {args : List MacroArg} {n : String} {e : List Tok},
    ArgsQ Q args → ArgsQ Q (setExpanded args n e) := by
  intro args
  induction args with
  | nil => intro n e h; simpa [setExpanded] using h
  | cons a as ih =>
    intro n e h
    unfold setExpanded
    split
    · intro x hx
      simp only [List.mem_cons] at hx
      rcases hx with rfl | hx
      · exact h a (by simp)
      · exact h x (by simp [hx])
    · intro x hx
      simp only [List.mem_cons] at hx
      rcases hx with rfl | hx
      · exact h _ (by simp)
      · exact ih (fun y hy => h y (by simp [hy])) x hx

theorem findArg_mem {args : List MacroArg} {t : Option Tok} {a : MacroArg} (h : findArg args t = some a) : a ∈ args := by
  unfold findArg at h
  split at h
  · simp at h
  · exact List.mem_of_find?_eq_some h

/-- if the pre-expander keeps `I` (on argument token lists satisfying `Q`), so does `subst` -/
theorem substLoop_inv (lx : String → LexOne) (pp : PreExpand) (I : St → Prop) (Q : List Tok → Prop)
    (hpp : ∀ st ts out st', I st → Q ts → pp st ts = .ok (out, st') → I st') :
    ∀ (fuel : Nat) (isObj : Bool) (st : St) (args : List MacroArg) (body acc out : List Tok) (args' : List MacroArg) (st' : St),
      I st → ArgsQ Q args →
      substLoop lx pp isObj fuel st args body acc = .ok (out, args', st') →
      I st' ∧ ArgsQ Q args' := by
  intro fuel
  induction fuel with
  | zero =>
    intro isObj st args body acc out args' st' hI hQ h
    cases body with
    | nil => simp only [substLoop, Except.ok.injEq, Prod.mk.injEq] at h; obtain ⟨_, rfl, rfl⟩ := h; exact ⟨hI, hQ⟩
    | cons t r => simp [substLoop] at h
  | succ n ih =>
    intro isObj st args body acc out args' st' hI hQ h
    cases body with
    | nil => simp only [substLoop, Except.ok.injEq, Prod.mk.injEq] at h; obtain ⟨_, rfl, rfl⟩ := h; exact ⟨hI, hQ⟩
    | cons tok rest =>
      unfold substLoop at h
      repeat' split at h
      all_goals first
        | (exact ih _ _ _ _ _ _ _ _ hI hQ h)
        | (simp at h; done)
        | (have hI' := hpp _ _ _ _ hI (hQ _ (findArg_mem ‹findArg args (some tok) = some _›)) ‹pp st _ = _›
           exact ih _ _ _ _ _ _ _ _ hI' (argsQ_setExpanded hQ) h)
        | (obtain ⟨hI1, hQ1⟩ := ih _ _ _ _ _ _ _ _ hI hQ ‹substLoop lx pp false n st args _ [] = _›
           exact ih _ _ _ _ _ _ _ _ hI1 hQ1 h)

theorem subst_inv (lx : String → LexOne) (pp : PreExpand) (I : St → Prop) (Q : List Tok → Prop)
    (hpp : ∀ st ts out st', I st → Q ts → pp st ts = .ok (out, st') → I st')
    {st : St} {body : List Tok} {args : List MacroArg} {isObj : Bool} {out : List Tok} {st' : St}
    (hI : I st) (hQ : ArgsQ Q args) (h : subst lx pp st body args isObj = .ok (out, st')) : I st' := by
  unfold subst at h
  simp only [Except.map] at h
  split at h
  · simp at h
  · rename_i v hv
    obtain ⟨o, a', s'⟩ := v
    simp only [Except.ok.injEq, Prod.mk.injEq] at h
    obtain ⟨_, rfl⟩ := h
    exact (substLoop_inv lx pp I Q hpp _ _ _ _ _ _ _ _ _ hI hQ hv).1

/-! ## inputs without directives -/

/-- no token of the list starts a directive -/
def NoHash (ts : List Tok) : Prop := ∀ t ∈ ts, isHash t = false

instance (ts : List Tok) : Decidable (NoHash ts) := by unfold NoHash; infer_instance

theorem noHash_addHideset {ts : List Tok} {hs : Hideset} (h : NoHash ts) : NoHash (addHideset ts hs) := by
  intro t ht
  simp only [addHideset, List.mem_map] at ht
  obtain ⟨t0, ht0, rfl⟩ := ht
  simpa [isHash] using h t0 ht0

theorem noHash_setOrigin (ts : List Tok) (tok : Tok) : NoHash (setOrigin ts tok) := by
  intro t ht
  simp only [setOrigin, List.mem_map] at ht
  obtain ⟨t0, _, rfl⟩ := ht
  simp [isHash]

theorem noHash_setHeadFlags_of_origin {ts : List Tok} {b s : Bool} (h : ∀ t ∈ ts, t.origin.isSome) :
    NoHash (setHeadFlags ts b s) := by
  cases ts with
  | nil => intro t ht; simp [setHeadFlags] at ht
  | cons t0 r =>
    intro t ht
    simp only [setHeadFlags, List.mem_cons] at ht
    rcases ht with rfl | ht
    · have := h t0 (by simp)
      cases ho : t0.origin with
      | none => simp [ho] at this
      | some o => simp [isHash, ho]
    · have := h t (by simp [ht])
      cases ho : t.origin with
      | none => simp [ho] at this
      | some o => simp [isHash, ho]

theorem noHash_spliceBody {body rest : List Tok} {tok : Tok} (hb : ∀ t ∈ body, t.origin.isSome) (hr : NoHash rest) :
    NoHash (spliceBody body rest tok) := by
  unfold spliceBody
  split
  · exact hr
  · cases body with
    | nil => simp at *
    | cons t0 r =>
      intro t ht
      simp only [List.cons_append, setHeadFlags, List.mem_cons, List.mem_append] at ht
      rcases ht with rfl | ht | ht
      · have := hb t0 (by simp)
        cases ho : t0.origin with
        | none => simp [ho] at this
        | some o => simp [isHash, ho]
      · have := hb t (by simp [ht])
        cases ho : t.origin with
        | none => simp [ho] at this
        | some o => simp [isHash, ho]
      · exact hr t ht

theorem setOrigin_origin (ts : List Tok) (tok : Tok) : ∀ t ∈ setOrigin ts tok, t.origin.isSome := by
  intro t ht
  simp only [setOrigin, List.mem_map] at ht
  obtain ⟨t0, _, rfl⟩ := ht
  simp

theorem repr_ne_hash (n : Nat) : n.repr ≠ "#" := by
  intro h
  have h1 : n.repr.toList = ['#'] := by rw [h]; rfl
  rw [Nat.toList_repr] at h1
  have : '#' ∈ Nat.toDigits 10 n := by rw [h1]; simp
  have := Nat.isDigit_of_mem_toDigits (by decide) (by decide) this
  simp [Char.isDigit] at this

theorem quoteString_ne_hash (s : String) : quoteString s ≠ "#" := by
  intro h
  have h1 : (quoteString s).toList = ['#'] := by rw [h]; rfl
  simp [quoteString, String.toList_ofList] at h1

theorem isHash_runBuiltin (st : St) (b : Builtin) (tok : Tok) : isHash (runBuiltin st b tok).1 = false := by
  cases b <;> simp [runBuiltin, isHash, newNumToken, newStrToken, repr_ne_hash, quoteString_ne_hash]

/-! ## the tokens of the arguments come from the input -/

theorem Sep_mem {first : Bool} {as : List (List Tok)} {l : List Tok} (h : Sep first as l) :
    ∀ a ∈ as, ∀ t ∈ a, t ∈ l := by
  induction h with
  | nil => intro a ha; simp at ha
  | first a as l _ ih =>
    intro x hx t ht
    simp only [List.mem_cons] at hx
    rcases hx with rfl | hx
    · simp [ht]
    · simp [ih x hx t ht]
  | next c a as l _ _ ih =>
    intro x hx t ht
    simp only [List.mem_cons] at hx
    rcases hx with rfl | hx
    · simp [ht]
    · simp [ih x hx t ht]

theorem readMacroArgs_mem {ps : List String} {va : Option String} {ts : List Tok}
    {args : List MacroArg} {rp : Tok} {rest : List Tok}
    (h : readMacroArgs ps va ts = .ok (args, rp, rest)) :
    (∀ a ∈ args, ∀ t ∈ a.toks, t ∈ ts) ∧ (∀ t ∈ rest, t ∈ ts) ∧ rp ∈ ts := by
  obtain ⟨_, _, _, _, l, hl, hshape⟩ := readMacroArgs_sound _ _ _ _ _ _ h
  refine ⟨?_, fun t ht => by rw [hl]; simp [ht], by rw [hl]; simp⟩
  intro a ha t ht
  rw [hl]
  cases va with
  | none =>
    simp only at hshape
    have := Sep_mem hshape a.toks (List.mem_map.2 ⟨a, ha, rfl⟩) t ht
    simp [this]
  | some v =>
    simp only at hshape
    obtain ⟨named, vaArg, rfl, _, _, hsep | ⟨hemp, hsep⟩⟩ := hshape
    · have := Sep_mem hsep a.toks (List.mem_map.2 ⟨a, ha, rfl⟩) t ht
      simp [this]
    · simp only [List.mem_append, List.mem_singleton] at ha
      rcases ha with ha | rfl
      · have := Sep_mem hsep a.toks (List.mem_map.2 ⟨a, ha, rfl⟩) t ht
        simp [this]
      · rw [hemp] at ht; simp at ht

/-! ## `expand_macro` and `preprocess2` on inputs without directives keep the macro table -/

/-- what the loop of `preprocess2` needs from its pre-expander -/
def PPKeepsDefs (pp : PreExpand) : Prop :=
  ∀ st ts out st', NoHash ts → pp st ts = .ok (out, st') → st'.defs = st.defs

theorem expandMacro_keeps {lx : String → LexOne} {pp : PreExpand} (hpp : PPKeepsDefs pp)
    {st : St} {tok : Tok} {rest ts' : List Tok} {st' : St}
    (hnh : NoHash (tok :: rest))
    (h : expandMacro lx pp st tok rest = .ok (some (ts', st'))) :
    st'.defs = st.defs ∧ NoHash ts' := by
  have hrest : NoHash rest := fun t ht => hnh t (by simp [ht])
  have hppI : ∀ (d : List (String × Macro)) st ts out st', (fun s : St => s.defs = d) st → NoHash ts →
      pp st ts = .ok (out, st') → (fun s : St => s.defs = d) st' := by
    intro d st ts out st' hI hQ hp
    simpa [hpp st ts out st' hQ hp] using hI
  unfold expandMacro at h
  split at h
  · simp at h
  · split at h
    · simp at h
    · -- builtin
      rename_i b _
      simp only [Except.ok.injEq, Option.some.injEq, Prod.mk.injEq] at h
      obtain ⟨rfl, rfl⟩ := h
      refine ⟨by cases b <;> simp [runBuiltin], ?_⟩
      intro t ht
      simp only [List.mem_cons] at ht
      rcases ht with rfl | ht
      · exact isHash_runBuiltin _ _ _
      · exact hrest t ht
    · -- object-like
      split at h
      · simp at h
      · rename_i body st1 hs
        simp only [Except.ok.injEq, Option.some.injEq, Prod.mk.injEq] at h
        obtain ⟨rfl, rfl⟩ := h
        have := subst_inv lx pp (fun s : St => s.defs = st.defs) NoHash (hppI st.defs) rfl
          (by intro a ha; simp at ha) hs
        exact ⟨this, noHash_spliceBody (setOrigin_origin _ _) hrest⟩
    · -- function-like
      split at h
      · simp at h
      · split at h
        · simp at h
        · rename_i args rparen rest' hargs
          obtain ⟨hmem, hrestmem, _⟩ := readMacroArgs_mem hargs
          have hdrop : ∀ t ∈ rest.drop 1, t ∈ rest := fun t ht => List.mem_of_mem_drop ht
          dsimp only at h
          split at h
          · simp at h
          · rename_i body st1 hs
            simp only [Except.ok.injEq, Option.some.injEq, Prod.mk.injEq] at h
            obtain ⟨rfl, rfl⟩ := h
            have hQ : ArgsQ NoHash args := by
              intro a ha
              apply noHash_addHideset
              intro t ht
              exact hrest t (hdrop t (hmem a ha t ht))
            have := subst_inv lx pp (fun s : St => s.defs = st.defs) NoHash (hppI st.defs)
              (st := { st with pmHit := st.pmHit || hasPlacemarkerChain args _, bsHit := st.bsHit || hasUnsafeStringize args _ })
              rfl hQ hs
            refine ⟨this, noHash_spliceBody (setOrigin_origin _ _) ?_⟩
            intro t ht
            exact hrest t (hdrop t (hrestmem t ht))

theorem preprocess2_keeps (lx : String → LexOne) : ∀ n, PPKeepsDefs (fun st ts => preprocess2 lx n st ts) := by
  intro n
  induction n with
  | zero =>
    intro st ts out st' _ h
    cases ts with
    | nil => simp only [preprocess2, Except.ok.injEq, Prod.mk.injEq] at h; rw [← h.2]
    | cons t r => simp [preprocess2] at h
  | succ n ih =>
    intro st ts
    induction ts generalizing st with
    | nil =>
      intro out st' _ h
      simp only [preprocess2, Except.ok.injEq, Prod.mk.injEq] at h; rw [← h.2]
    | cons tok rest _ =>
      intro out st' hnh h
      simp only [preprocess2] at h
      split at h
      · simp at h
      · rename_i ts1 st1 hexp
        obtain ⟨hd, hn⟩ := expandMacro_keeps ih hnh hexp
        have := ih st1 ts1 out st' hn h
        rw [this, hd]
      · have hne : isHash tok = false := hnh tok (by simp)
        simp only [hne, Bool.not_false, if_true, Except.map] at h
        split at h
        · simp at h
        · rename_i v hv
          simp only [Except.ok.injEq, Prod.mk.injEq] at h
          obtain ⟨_, rfl⟩ := h
          exact ih st rest v.1 v.2 (fun t ht => hnh t (by simp [ht])) hv

/-! ## painting -/

/-- `tok` names a macro and will not be expanded because it is painted or is a function-like name without `(` -/
theorem expandMacro_none {lx : String → LexOne} {pp : PreExpand} {st : St} {tok : Tok} {rest : List Tok}
    (h : expandMacro lx pp st tok rest = .ok none) :
    hidesetContains tok.hide tok.text = true ∨ findMacro st.defs tok = none ∨
      (∃ ps va b, findMacro st.defs tok = some (.fn ps va b) ∧ textIs rest.head? "(" = false) := by
  unfold expandMacro at h
  split at h
  · left; assumption
  · split at h
    · right; left; assumption
    · simp at h
    · split at h <;> simp at h
    · rename_i ps va b hm
      split at h
      · rename_i hnp
        right; right
        exact ⟨ps, va, b, hm, by simpa using hnp⟩
      · split at h
        · simp at h
        · dsimp only at h
          split at h <;> simp at h

/-- every token a macro expansion puts in front of the rest of the input carries the macro's name in its hide set -/
theorem expandMacro_paints {lx : String → LexOne} {pp : PreExpand} {st : St} {tok : Tok} {rest ts' : List Tok} {st' : St}
    (h : expandMacro lx pp st tok rest = .ok (some (ts', st'))) :
    (∃ b, findMacro st.defs tok = some (.builtin b) ∧ ts' = (runBuiltin st b tok).1 :: rest) ∨
    (∃ new suffix, ts' = new ++ suffix ∧ (∀ t ∈ new, hidesetContains t.hide tok.text = true ∧
        ∀ x, hidesetContains tok.hide x = true → (findMacro st.defs tok).isSome → True) ∧
        (suffix = rest ∨ ∃ k, suffix = rest.drop k)) := by
  have paint : ∀ (body : List Tok) (hs0 : Hideset) (b s : Bool),
      ∀ t ∈ setHeadFlags (setOrigin (addHideset body (hidesetUnion hs0 [tok.text])) tok) b s,
        hidesetContains t.hide tok.text = true := by
    intro body hs0 b s t ht
    have hall : ∀ t ∈ setOrigin (addHideset body (hidesetUnion hs0 [tok.text])) tok, hidesetContains t.hide tok.text = true := by
      intro t ht
      simp only [setOrigin, addHideset, List.mem_map] at ht
      obtain ⟨t1, ⟨t0, _, rfl⟩, rfl⟩ := ht
      simp [hidesetContains_iff, hidesetUnion]
    cases hb : setOrigin (addHideset body (hidesetUnion hs0 [tok.text])) tok with
    | nil => rw [hb] at ht; simp [setHeadFlags] at ht
    | cons t0 r =>
      rw [hb] at ht hall
      simp only [setHeadFlags, List.mem_cons] at ht
      rcases ht with rfl | ht
      · exact hall t0 (by simp)
      · exact hall t (by simp [ht])
  have splice : ∀ (body : List Tok) (hs0 : Hideset) (rest' : List Tok),
      ∃ new, spliceBody (setOrigin (addHideset body (hidesetUnion hs0 [tok.text])) tok) rest' tok = new ++ rest' ∧
        ∀ t ∈ new, hidesetContains t.hide tok.text = true := by
    intro body hs0 rest'
    unfold spliceBody
    split
    · exact ⟨[], rfl, by simp⟩
    · cases hb : setOrigin (addHideset body (hidesetUnion hs0 [tok.text])) tok with
      | nil => simp [hb] at *
      | cons t0 r =>
        refine ⟨setHeadFlags (t0 :: r) tok.atBol tok.hasSpace, by simp [setHeadFlags], ?_⟩
        rw [← hb]
        exact paint body hs0 _ _
  unfold expandMacro at h
  split at h
  · simp at h
  · split at h
    · simp at h
    · rename_i b hm
      simp only [Except.ok.injEq, Option.some.injEq, Prod.mk.injEq] at h
      exact Or.inl ⟨b, hm, h.1.symm⟩
    · split at h
      · simp at h
      · rename_i body st1 _
        simp only [Except.ok.injEq, Option.some.injEq, Prod.mk.injEq] at h
        obtain ⟨rfl, _⟩ := h
        obtain ⟨new, hnew, hp⟩ := splice body tok.hide rest
        exact Or.inr ⟨new, rest, hnew, fun t ht => ⟨hp t ht, fun _ _ _ => trivial⟩, Or.inl rfl⟩
    · split at h
      · simp at h
      · split at h
        · simp at h
        · rename_i args rparen rest' hargs
          dsimp only at h
          split at h
          · simp at h
          · rename_i body st1 _
            simp only [Except.ok.injEq, Option.some.injEq, Prod.mk.injEq] at h
            obtain ⟨rfl, _⟩ := h
            obtain ⟨new, hnew, hp⟩ := splice body (hidesetIntersection tok.hide rparen.hide) rest'
            obtain ⟨_, _, _, _, l, hl, _⟩ := readMacroArgs_sound _ _ _ _ _ _ hargs
            refine Or.inr ⟨new, rest', hnew, fun t ht => ⟨hp t ht, fun _ _ _ => trivial⟩, Or.inr ⟨1 + (l.length + 1), ?_⟩⟩
            rw [← List.drop_drop, hl]
            simp

end ChibiVerif.PP
